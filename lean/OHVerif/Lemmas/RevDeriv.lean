/-
  Helper library for C14 (derivative clause): reverse-mode differentiation on a monogamous
  diagram is a CONSERVATION LAW; diagrams denote RELATIONS between interface labellings, and every
  operation of the model acts on these relations functorially.

  I    `writers / readers`, `monogamous_iff_perm`; `pair`, `conservation`, `revDeriv_of_labellings`
       (the chain rule for arbitrary wiring: a counting argument, no induction, no acyclicity);
       `noCycle_of_acyclic`, `exists_valuation`.
  II   `Lab Φ d lab`, `Den Φ d a b` (the relation denoted w.r.t. a hyperedge predicate `Φ`):
       quotients (`den_quot`), gluing = relational composition (`den_glue`), juxtaposition =
       product (`den_juxt`), isomorphism invariance (`den_iso`).
  III  monogamy of a quotient from its presentation (`monogamous_of_presentation`), invariance under
       `≅` (`monogamous_iso`), closure under gluing / juxtaposition (`monogamous_glue`,
       `monogamous_juxt`), permutation spiders (`monogamous_discrete`).
  IV   `evens / odds / il2 / dbl`, `unbend`, `bendPre`; `monogamous_bend`: the bent substitution
       of a monogamous circuit is monogamous.
  V    rankings: `acyclic_of_rank`, `exists_rank_of_acyclic`, `den_rank_of_component`.
  VI   `den_subst`, `den_unbend`, `unbend_quot`, `unbend_iso`.
  VII  the model operations semantically: `compose_sem`, `tensor_sem`, `identity_sem`.
  VIII interleavings: `trTable` / `ilTable` index lemmas, `il_sem`.
  IX   `glue_both`, `il_bend`, `il_unbend` (conjugation with permutation spiders re-reads interfaces).
  X    `juxtR`, `den_juxtR`, `toStrict_tensorAll`.
  XI   `bent`, `den_bent`, `den_adapted`.
  XII  `dyn_batch` (the strict image of a batch under a generator-wise lax functor).
  XIII `den_juxtR_segs`;  XIV `valΦ`, `den_val_iff_eval`, `arΦ`, `den_top_of_nodup`;
  XV   `den_batch_out / den_batch_in`;  XVI `il_roundtrip`.
-/
import OHVerif.Lemmas.Lens
import OHVerif.Props.C16
import OHVerif.Props.C12Subst
import OHVerif.Props.C10Iso
import OHVerif.Props.C14Optic
import OHVerif.Lemmas.Subst
import OHVerif.Lemmas.Laws

namespace OH.RevDeriv
open OH OH.C14 OH.Subst OH.Optic

variable {O A : Type} {O1 A1 O2 A2 : Type}

/-! ## write and read positions -/

/-- all positions at which a node is written: the input interface, then every target list -/
def writers (d : PDiag O A) : List Nat := d.ins ++ d.edges.flatMap (·.tgt)
/-- all positions at which a node is read: the output interface, then every source list -/
def readers (d : PDiag O A) : List Nat := d.outs ++ d.edges.flatMap (·.src)

theorem count_tgts (d : PDiag O A) (v : Nat) : (d.edges.flatMap (·.tgt)).count v = inDeg d v := by
  rw [List.count_flatMap]; rfl

theorem count_srcs (d : PDiag O A) (v : Nat) : (d.edges.flatMap (·.src)).count v = outDeg d v := by
  rw [List.count_flatMap]; rfl

theorem count_range (n v : Nat) : (List.range n).count v = if v < n then 1 else 0 := by
  rw [List.nodup_range.count]
  simp

theorem writers_lt {d : PDiag O A} (hwf : d.wf = true) : ∀ v ∈ writers d, v < d.n := by
  obtain ⟨h1, _, h3⟩ := Eval.pdiag_wf_unpack hwf
  intro v hv
  rcases List.mem_append.1 hv with h | h
  · exact h1 v h
  · obtain ⟨e, he, hve⟩ := List.mem_flatMap.1 h
    exact (h3 e he).2 v hve

theorem readers_lt {d : PDiag O A} (hwf : d.wf = true) : ∀ v ∈ readers d, v < d.n := by
  obtain ⟨_, h2, h3⟩ := Eval.pdiag_wf_unpack hwf
  intro v hv
  rcases List.mem_append.1 hv with h | h
  · exact h2 v h
  · obtain ⟨e, he, hve⟩ := List.mem_flatMap.1 h
    exact (h3 e he).1 v hve

/-- a list of numbers below `n` in which every number below `n` occurs exactly once is a
    permutation of `range n` -/
theorem perm_range_of_count {l : List Nat} {n : Nat} (hlt : ∀ v ∈ l, v < n)
    (hc : ∀ v, v < n → l.count v = 1) : l.Perm (List.range n) := by
  rw [List.perm_iff_count]
  intro v
  rw [count_range]
  by_cases hv : v < n
  · rw [if_pos hv, hc v hv]
  · rw [if_neg hv, List.count_eq_zero]
    exact fun h => hv (hlt v h)

theorem monogamous_writers_perm {d : PDiag O A} (hwf : d.wf = true) (hm : Monogamous d) :
    (writers d).Perm (List.range d.n) := by
  apply perm_range_of_count (writers_lt hwf)
  intro v hv
  obtain ⟨hin, _, h⟩ := hm
  unfold writers
  rw [List.count_append, count_tgts, hin.count]
  rcases (h v hv).1 with ⟨h1, h2⟩ | ⟨h1, h2⟩
  · rw [if_neg h2, h1]
  · rw [if_pos h2, h1]

theorem monogamous_readers_perm {d : PDiag O A} (hwf : d.wf = true) (hm : Monogamous d) :
    (readers d).Perm (List.range d.n) := by
  apply perm_range_of_count (readers_lt hwf)
  intro v hv
  obtain ⟨_, hout, h⟩ := hm
  unfold readers
  rw [List.count_append, count_srcs, hout.count]
  rcases (h v hv).2 with ⟨h1, h2⟩ | ⟨h1, h2⟩
  · rw [if_neg h2, h1]
  · rw [if_pos h2, h1]

/-- monogamy, positionally: writers and readers are both duplicate-free enumerations of the nodes -/
theorem monogamous_of_perm {d : PDiag O A} (hw : (writers d).Perm (List.range d.n))
    (hr : (readers d).Perm (List.range d.n)) : Monogamous d := by
  have nw : (writers d).Nodup := hw.nodup_iff.2 List.nodup_range
  have nr : (readers d).Nodup := hr.nodup_iff.2 List.nodup_range
  have hin : d.ins.Nodup := (List.nodup_append.1 nw).1
  have hout : d.outs.Nodup := (List.nodup_append.1 nr).1
  refine ⟨hin, hout, fun v hv => ⟨?_, ?_⟩⟩
  · have hc : (writers d).count v = 1 := by rw [hw.count_eq, count_range, if_pos hv]
    unfold writers at hc
    rw [List.count_append, count_tgts, hin.count] at hc
    by_cases hvi : v ∈ d.ins
    · rw [if_pos hvi] at hc
      exact Or.inr ⟨by omega, hvi⟩
    · rw [if_neg hvi] at hc
      exact Or.inl ⟨by omega, hvi⟩
  · have hc : (readers d).count v = 1 := by rw [hr.count_eq, count_range, if_pos hv]
    unfold readers at hc
    rw [List.count_append, count_srcs, hout.count] at hc
    by_cases hvi : v ∈ d.outs
    · rw [if_pos hvi] at hc
      exact Or.inr ⟨by omega, hvi⟩
    · rw [if_neg hvi] at hc
      exact Or.inl ⟨by omega, hvi⟩

theorem monogamous_iff_perm {d : PDiag O A} (hwf : d.wf = true) :
    Monogamous d ↔ (writers d).Perm (List.range d.n) ∧ (readers d).Perm (List.range d.n) :=
  ⟨fun h => ⟨monogamous_writers_perm hwf h, monogamous_readers_perm hwf h⟩,
   fun h => monogamous_of_perm h.1 h.2⟩

/-- a monogamous diagram has a single writer per node -/
theorem monogamous_singleWriter {d : PDiag O A} (hwf : d.wf = true) (hm : Monogamous d) :
    SingleWriter d :=
  (monogamous_writers_perm hwf hm).nodup_iff.2 List.nodup_range

/-- in a monogamous diagram every node is an input or a target -/
theorem monogamous_written {d : PDiag O A} (hwf : d.wf = true) (hm : Monogamous d) (v : Nat)
    (hv : v < d.n) : v ∈ d.ins ∨ ∃ e ∈ d.edges, v ∈ e.tgt := by
  have : v ∈ writers d := (monogamous_writers_perm hwf hm).mem_iff.2 (List.mem_range.2 hv)
  rcases List.mem_append.1 this with h | h
  · exact Or.inl h
  · obtain ⟨e, he, hve⟩ := List.mem_flatMap.1 h
    exact Or.inr ⟨e, he, hve⟩

/-! ## the pairing along a list of nodes -/

section pairing
variable {R : Type} [CommRing R]

/-- `Σ_{v ∈ l} a v · t v` -/
def pair (a t : Nat → R) : List Nat → R
  | [] => 0
  | v :: l => a v * t v + pair a t l

@[simp] theorem pair_nil (a t : Nat → R) : pair a t [] = 0 := rfl
@[simp] theorem pair_cons (a t : Nat → R) (v : Nat) (l : List Nat) :
    pair a t (v :: l) = a v * t v + pair a t l := rfl

theorem pair_append (a t : Nat → R) (l l' : List Nat) :
    pair a t (l ++ l') = pair a t l + pair a t l' := by
  induction l with
  | nil => simp
  | cons v l ih => simp [ih, add_assoc]

theorem pair_perm (a t : Nat → R) {l l' : List Nat} (h : l.Perm l') : pair a t l = pair a t l' := by
  induction h with
  | nil => rfl
  | cons x _ ih => simp [ih]
  | swap x y l => simp only [pair_cons]; ring
  | trans _ _ ih1 ih2 => exact ih1.trans ih2

theorem dot_map (a t : Nat → R) (l : List Nat) : dot (l.map a) (l.map t) = pair a t l := by
  induction l with
  | nil => simp
  | cons v l ih => simp [ih]

theorem pair_flatMap {ι : Type} (a t : Nat → R) (g : ι → List Nat) (l : List ι) :
    pair a t (l.flatMap g) = (l.map (fun i => pair a t (g i))).sum := by
  induction l with
  | nil => simp
  | cons i l ih => simp [pair_append, ih]

theorem sum_map_congr {ι : Type} (f g : ι → R) (l : List ι) (h : ∀ i ∈ l, f i = g i) :
    (l.map f).sum = (l.map g).sum := by
  induction l with
  | nil => rfl
  | cons i l ih =>
    simp only [List.map_cons, List.sum_cons]
    rw [h i (by simp), ih (fun j hj => h j (by simp [hj]))]

/-- **conservation**: in a well-formed monogamous diagram, if at every hyperedge the pairing over
    the sources equals the pairing over the targets, the pairing over the input interface equals
    the pairing over the output interface -/
theorem conservation {d : PDiag O A} (hwf : d.wf = true) (hm : Monogamous d) (a t : Nat → R)
    (hedge : ∀ e ∈ d.edges, pair a t e.src = pair a t e.tgt) :
    pair a t d.ins = pair a t d.outs := by
  have h1 := pair_perm a t (monogamous_writers_perm hwf hm)
  have h2 := pair_perm a t (monogamous_readers_perm hwf hm)
  unfold writers at h1
  unfold readers at h2
  rw [pair_append, pair_flatMap] at h1 h2
  have h3 : (d.edges.map (fun e => pair a t e.src)).sum = (d.edges.map (fun e => pair a t e.tgt)).sum :=
    sum_map_congr _ _ _ hedge
  rw [← h2, ← h3] at h1
  exact add_right_cancel h1

/-- the chain rule for arbitrary wiring: a dual-number labelling `valD` that satisfies every
    hyperedge equation, and a cotangent labelling `adj` that is at every hyperedge the reverse
    derivative of the generator at the real parts of the sources against the cotangents of the
    targets, pair to the same value on the input and on the output interface -/
theorem revDeriv_of_labellings {d : PDiag O A} (hwf : d.wf = true) (hm : Monogamous d)
    (semD : A → List (Dual R) → List (Dual R)) (valD : Nat → Dual R) (adj : Nat → R)
    (hops : ∀ e ∈ d.edges, e.tgt.map valD = semD e.label (e.src.map valD))
    (hadj : ∀ e ∈ d.edges,
      IsRevDeriv (semD e.label) (e.src.map (fun v => (valD v).re)) (e.tgt.map adj) (e.src.map adj)) :
    dot (d.ins.map adj) (d.ins.map (fun v => (valD v).eps)) =
      dot (d.outs.map adj) (d.outs.map (fun v => (valD v).eps)) := by
  rw [dot_map, dot_map]
  apply conservation hwf hm
  intro e he
  have h := hadj e he (e.src.map (fun v => (valD v).eps)) (by simp)
  have hd : dualize (e.src.map (fun v => (valD v).re)) (e.src.map (fun v => (valD v).eps)) =
      e.src.map valD := by
    have := dualize_re_eps (e.src.map valD)
    simpa [List.map_map, Function.comp_def] using this
  rw [hd, ← hops e he, List.map_map, dot_map] at h
  rw [h]
  exact dot_map adj _ e.tgt

end pairing

/-! ## node-level acyclicity implies operation-level acyclicity -/

open Relation in
theorem nodePath_of_opPath {d : PDiag O A} {x y : Nat} (h : TransGen (opDep d) x y) :
    ∀ ex ey, d.edges[x]? = some ex → d.edges[y]? = some ey →
      ∀ u ∈ ex.src, ∀ w ∈ ey.tgt, TransGen (nodeStep d) u w := by
  induction h with
  | single h1 =>
    intro ex ey hx hy u hu w hw
    obtain ⟨ex', ey', v, hx', hy', hv1, hv2⟩ := h1
    rw [hx] at hx'; rw [hy] at hy'
    cases hx'; cases hy'
    exact TransGen.tail (TransGen.single ⟨ex, List.mem_of_getElem? hx, hu, hv1⟩)
      ⟨ey, List.mem_of_getElem? hy, hv2, hw⟩
  | tail _ h2 ih =>
    intro ex ez hx hz u hu w hw
    obtain ⟨ey, ez', v, hy, hz', hv1, hv2⟩ := h2
    rw [hz] at hz'
    cases hz'
    exact TransGen.tail (ih ex ey hx hy u hu v hv1) ⟨ez, List.mem_of_getElem? hz, hv2, hw⟩

open Relation in
/-- no directed cycle through the nodes implies no cycle in the dependency relation of the
    operations -/
theorem noCycle_of_acyclic {d : PDiag O A} (h : Acyclic d) : Eval.NoCycle d := by
  rw [Eval.noCycle_iff]
  rintro ⟨c, hc⟩
  apply h
  cases hc with
  | single h1 =>
    obtain ⟨ex, ey, v, hx, hy, hv1, hv2⟩ := h1
    rw [hx] at hy
    cases hy
    exact ⟨v, TransGen.single ⟨ex, List.mem_of_getElem? hx, hv2, hv1⟩⟩
  | tail h1 h2 =>
    obtain ⟨ey, ec, v, hy, hc', hv1, hv2⟩ := h2
    exact ⟨v, nodePath_of_opPath h1 ec ey hc' hy v hv2 v hv1⟩

theorem opAcyclic_of_acyclic (f : OHG O A) (hf : f.wf = true) (h : Acyclic f.toPlain) :
    C16.OpAcyclic f :=
  (C16.opAcyclic_iff_noCycle f hf).2 (noCycle_of_acyclic h)

/-! ## existence of valuations on plain diagrams -/

/-- a numbering of the operations that increases along dependencies and is bounded by `L` gives a
    layering -/
theorem isLayering_of_lay (d : PDiag O A) (lay : Nat → Nat) (L : Nat)
    (hL : ∀ y, y < d.edges.length → lay y < L)
    (hdep : ∀ x y, opDep d x y → lay x < lay y) :
    Eval.IsLayering d lay ((List.range L).map
      (fun i => (List.range d.edges.length).filter (fun y => lay y = i))) := by
  have hget : ∀ i, ((List.range L).map
      (fun i => (List.range d.edges.length).filter (fun y => lay y = i))).getD i [] =
      if i < L then (List.range d.edges.length).filter (fun y => lay y = i) else [] := by
    intro i
    rw [List.getD_eq_getElem?_getD, List.getElem?_map]
    by_cases hi : i < L
    · rw [List.getElem?_range hi, if_pos hi]; rfl
    · rw [List.getElem?_eq_none (by simpa using hi), if_neg hi]; rfl
  refine ⟨?_, ?_, ?_, hdep⟩
  · intro i y
    rw [hget]
    by_cases hi : i < L
    · rw [if_pos hi, List.mem_filter, List.mem_range]
      simp
    · rw [if_neg hi]
      constructor
      · intro h; cases h
      · rintro ⟨hy, rfl⟩
        exact absurd (hL y hy) hi
  · intro i
    rw [hget]
    split
    · exact List.nodup_range.filter _
    · exact List.nodup_nil
  · intro y hy
    rw [List.length_map, List.length_range]
    exact hL y hy

/-- a bound for a numbering on an initial segment -/
theorem exists_bound (lay : Nat → Nat) (m : Nat) : ∃ L, ∀ y, y < m → lay y < L :=
  ⟨((List.range m).map lay).sum + 1, fun y hy => by
    have := le_sum_of_mem' ((List.range m).map lay) (lay y)
      (List.mem_map.2 ⟨y, List.mem_range.2 hy, rfl⟩)
    omega⟩

/-- **existence of valuations** on a plain diagram: well-formed, every node written at most once,
    arity discipline, an increasing numbering of the operations -/
theorem exists_valuation_of_lay {T : Type} (d : PDiag O A) (opfn : A → List T → List T) (dflt : T)
    (s : List T) (hwf : d.wf = true) (hsw : SingleWriter d) (ha : Eval.Arity d opfn)
    (hs : s.length = d.ins.length) (lay : Nat → Nat) (hdep : ∀ x y, opDep d x y → lay x < lay y) :
    ∃ val, IsValuation d opfn dflt s val := by
  obtain ⟨L, hL⟩ := exists_bound lay d.edges.length
  exact ⟨_, (Eval.runLayers_valuation hsw ha hwf hs (isLayering_of_lay d lay L hL hdep)).2⟩

theorem exists_valuation {T : Type} (d : PDiag O A) (opfn : A → List T → List T) (dflt : T)
    (s : List T) (hwf : d.wf = true) (hsw : SingleWriter d) (ha : Eval.Arity d opfn)
    (hs : s.length = d.ins.length) (hac : Eval.NoCycle d) :
    ∃ val, IsValuation d opfn dflt s val := by
  obtain ⟨lay, hlay⟩ := Eval.exists_lay_of_noCycle d hac
  exact exists_valuation_of_lay d opfn dflt s hwf hsw ha hs lay hlay

open Relation

variable {T : Type}

/-! ## Part II: labellings of diagrams and the relation a diagram denotes -/

/-- `lab` satisfies the predicate `Φ` at every hyperedge -/
def Lab (Φ : A → List T → List T → Prop) (d : PDiag O A) (lab : Nat → T) : Prop :=
  ∀ e ∈ d.edges, Φ e.label (e.src.map lab) (e.tgt.map lab)

/-- the relation between interface labellings that `d` denotes w.r.t. the hyperedge predicate `Φ` -/
def Den (Φ : A → List T → List T → Prop) (d : PDiag O A) (a b : List T) : Prop :=
  ∃ lab, Lab Φ d lab ∧ d.ins.map lab = a ∧ d.outs.map lab = b

variable {Φ : A → List T → List T → Prop}

theorem Lab.congr {d : PDiag O A} (hwf : d.wf = true) {lab lab' : Nat → T}
    (h : ∀ v, v < d.n → lab v = lab' v) (hl : Lab Φ d lab) : Lab Φ d lab' := by
  obtain ⟨_, _, h3⟩ := Eval.pdiag_wf_unpack hwf
  intro e he
  have h1 : e.src.map lab' = e.src.map lab :=
    List.map_congr_left (fun v hv => (h v ((h3 e he).1 v hv)).symm)
  have h2 : e.tgt.map lab' = e.tgt.map lab :=
    List.map_congr_left (fun v hv => (h v ((h3 e he).2 v hv)).symm)
  rw [h1, h2]
  exact hl e he

theorem lab_pullback {P r : PDiag O A} {q : Nat → Nat} (h : IsQuotMap P r q)
    {lab : Nat → T} (hl : Lab Φ r lab) : Lab Φ P (fun i => lab (q i)) := by
  intro e he
  have := hl (PEdge.mapNodes q e) (by rw [h.edges]; exact List.mem_map.2 ⟨e, he, rfl⟩)
  simpa [PEdge.mapNodes, List.map_map, Function.comp_def] using this

/-- a labelling of a presentation that is constant on the generating pairs descends to the
    quotient -/
theorem lab_descend {P r : PDiag O A} {R : Nat → Nat → Prop} (hP : P.wf = true)
    (h : IsQuot P R r) (lab : Nat → T)
    (hR : ∀ i j, i < P.n → j < P.n → R i j → lab i = lab j) :
    ∃ q lab', IsQuotMap P r q ∧ (∀ i, i < P.n → lab' (q i) = lab i) ∧
      (∀ i j, i < P.n → j < P.n → (q i = q j ↔ EqvOn P.n R i j)) ∧
      (Lab Φ P lab → Lab Φ r lab') := by
  obtain ⟨q, hq, hk⟩ := (isQuot_iff _ _ _).1 h
  have key : ∀ i, i < P.n → lab (invOn P.n q (q i)) = lab i := by
    intro i hi
    obtain ⟨h1, h2⟩ := invOn_spec (n := P.n) (π := q) (k := q i) ⟨i, hi, rfl⟩
    exact EqvOn.eq_of hR ((hk _ _ h1 hi).1 h2)
  refine ⟨q, fun k => lab (invOn P.n q k), hq, key, hk, ?_⟩
  intro hl e' he'
  rw [hq.edges] at he'
  obtain ⟨e, he, rfl⟩ := List.mem_map.1 he'
  obtain ⟨_, _, h3⟩ := Eval.pdiag_wf_unpack hP
  have h1 : (PEdge.mapNodes q e).src.map (fun k => lab (invOn P.n q k)) = e.src.map lab := by
    simp only [PEdge.mapNodes, List.map_map]
    exact List.map_congr_left (fun v hv => key v ((h3 e he).1 v hv))
  have h2 : (PEdge.mapNodes q e).tgt.map (fun k => lab (invOn P.n q k)) = e.tgt.map lab := by
    simp only [PEdge.mapNodes, List.map_map]
    exact List.map_congr_left (fun v hv => key v ((h3 e he).2 v hv))
  rw [h1, h2]
  exact hl e he

/-- **quotients**: the relation denoted by a quotient is given by the labellings of the
    presentation that are constant on the generating pairs -/
theorem den_quot {P r : PDiag O A} {R : Nat → Nat → Prop} (hP : P.wf = true) (h : IsQuot P R r)
    (a b : List T) :
    Den Φ r a b ↔ ∃ lab, Lab Φ P lab ∧ (∀ i j, i < P.n → j < P.n → R i j → lab i = lab j) ∧
      P.ins.map lab = a ∧ P.outs.map lab = b := by
  constructor
  · rintro ⟨lab, hl, ha, hb⟩
    obtain ⟨q, hq, hk⟩ := (isQuot_iff _ _ _).1 h
    refine ⟨fun i => lab (q i), lab_pullback hq hl, ?_, ?_, ?_⟩
    · intro i j hi hj hij
      have : q i = q j := (hk i j hi hj).2 (EqvOn.of_rel hi hj hij)
      show lab (q i) = lab (q j)
      rw [this]
    · rw [← ha, hq.ins, List.map_map]; rfl
    · rw [← hb, hq.outs, List.map_map]; rfl
  · rintro ⟨lab, hl, hR, ha, hb⟩
    obtain ⟨h1, h2, _⟩ := Eval.pdiag_wf_unpack hP
    obtain ⟨q, lab', hq, hc, _, hl'⟩ := lab_descend (Φ := Φ) hP h lab hR
    refine ⟨lab', hl' hl, ?_, ?_⟩
    · rw [← ha, hq.ins, List.map_map]
      exact List.map_congr_left (fun v hv => hc v (h1 v hv))
    · rw [← hb, hq.outs, List.map_map]
      exact List.map_congr_left (fun v hv => hc v (h2 v hv))

/-! ### presentations: disjoint unions -/

theorem lab_gluePre (f g : PDiag O A) (lab : Nat → T) :
    Lab Φ (gluePre f g) lab ↔ Lab Φ f lab ∧ Lab Φ g (fun j => lab (f.n + j)) := by
  unfold Lab gluePre
  simp only [List.mem_append, List.mem_map]
  constructor
  · intro h
    refine ⟨fun e he => h e (Or.inl he), fun e he => ?_⟩
    have := h _ (Or.inr ⟨e, he, rfl⟩)
    simpa [PEdge.mapNodes, List.map_map, Function.comp_def] using this
  · rintro ⟨h1, h2⟩ e (he | ⟨e0, he0, rfl⟩)
    · exact h1 e he
    · have := h2 e0 he0
      simpa [PEdge.mapNodes, List.map_map, Function.comp_def] using this

theorem lab_juxt (f g : PDiag O A) (lab : Nat → T) :
    Lab Φ (PDiag.juxt f g) lab ↔ Lab Φ f lab ∧ Lab Φ g (fun j => lab (f.n + j)) :=
  lab_gluePre f g lab

/-- glue two labellings -/
def joinLab (n : Nat) (l1 l2 : Nat → T) (i : Nat) : T := if i < n then l1 i else l2 (i - n)

theorem joinLab_left {n : Nat} {l1 l2 : Nat → T} {i : Nat} (h : i < n) : joinLab n l1 l2 i = l1 i :=
  if_pos h

theorem joinLab_right (n : Nat) (l1 l2 : Nat → T) (j : Nat) : joinLab n l1 l2 (n + j) = l2 j := by
  unfold joinLab
  rw [if_neg (by omega), Nat.add_sub_cancel_left]

theorem lab_join {f g : PDiag O A} (hf : f.wf = true) {l1 l2 : Nat → T} (h1 : Lab Φ f l1)
    (h2 : Lab Φ g l2) : Lab Φ (gluePre f g) (joinLab f.n l1 l2) := by
  rw [lab_gluePre]
  refine ⟨Lab.congr hf (fun v hv => (joinLab_left hv).symm) h1, ?_⟩
  have : (fun j => joinLab f.n l1 l2 (f.n + j)) = l2 := funext (joinLab_right f.n l1 l2)
  rw [this]
  exact h2

/-- **sequential composition**: the relation denoted by a gluing is the composite relation -/
theorem den_glue {f g r : PDiag O A} (hf : f.wf = true) (hg : g.wf = true)
    (hlen : f.outs.length = g.ins.length) (h : IsGluing f g r) (a c : List T) :
    Den Φ r a c ↔ ∃ b, Den Φ f a b ∧ Den Φ g b c := by
  obtain ⟨f1, f2, _⟩ := Eval.pdiag_wf_unpack hf
  rw [den_quot (gluePre_wf hf hg) h]
  constructor
  · rintro ⟨lab, hl, hR, ha, hc⟩
    rw [lab_gluePre] at hl
    refine ⟨f.outs.map lab, ⟨lab, hl.1, ha, rfl⟩, ⟨fun j => lab (f.n + j), hl.2, ?_, ?_⟩⟩
    · apply List.ext_getElem
      · simp [hlen]
      · intro k h1 h2
        simp only [List.length_map] at h1 h2
        simp only [List.getElem_map]
        symm
        apply hR
        · rw [gluePre_n]; have := f2 _ (List.getElem_mem h2); omega
        · rw [gluePre_n]
          have := (Eval.pdiag_wf_unpack hg).1 _ (List.getElem_mem h1); omega
        · exact ⟨k, List.getElem?_eq_getElem h2, by rw [List.getElem?_eq_getElem h1]; rfl⟩
    · rw [← hc]
      show g.outs.map _ = (g.outs.map (f.n + ·)).map lab
      rw [List.map_map]; rfl
  · rintro ⟨b, ⟨l1, hl1, ha, hb⟩, ⟨l2, hl2, hb', hc⟩⟩
    refine ⟨joinLab f.n l1 l2, lab_join hf hl1 hl2, ?_, ?_, ?_⟩
    · rintro i j _ _ ⟨k, hk1, hk2⟩
      cases hv : g.ins[k]? with
      | none => rw [hv] at hk2; cases hk2
      | some v =>
        rw [hv] at hk2
        have hj : j = f.n + v := (Option.some.inj hk2).symm
        have hi : i < f.n := f2 i (List.mem_of_getElem? hk1)
        rw [hj, joinLab_left hi, joinLab_right]
        have e1 : (f.outs.map l1)[k]? = some (l1 i) := by rw [List.getElem?_map, hk1]; rfl
        have e2 : (g.ins.map l2)[k]? = some (l2 v) := by rw [List.getElem?_map, hv]; rfl
        rw [hb, ← hb', e2] at e1
        exact (Option.some.inj e1).symm
    · rw [← ha]
      exact List.map_congr_left (fun v hv => joinLab_left (f1 v hv))
    · rw [← hc]
      show (g.outs.map (f.n + ·)).map _ = _
      rw [List.map_map]
      exact List.map_congr_left (fun v _ => joinLab_right f.n l1 l2 v)

/-- **parallel composition**: the relation denoted by a juxtaposition is the product relation -/
theorem den_juxt {f g : PDiag O A} (hf : f.wf = true) (a b : List T) :
    Den Φ (PDiag.juxt f g) a b ↔ ∃ a1 a2 b1 b2, a = a1 ++ a2 ∧ b = b1 ++ b2 ∧
      Den Φ f a1 b1 ∧ Den Φ g a2 b2 := by
  obtain ⟨f1, f2, _⟩ := Eval.pdiag_wf_unpack hf
  constructor
  · rintro ⟨lab, hl, ha, hb⟩
    rw [lab_juxt] at hl
    refine ⟨f.ins.map lab, g.ins.map (fun j => lab (f.n + j)), f.outs.map lab,
      g.outs.map (fun j => lab (f.n + j)), ?_, ?_, ⟨lab, hl.1, rfl, rfl⟩, ⟨_, hl.2, rfl, rfl⟩⟩
    · rw [← ha]; simp [PDiag.juxt, List.map_map, Function.comp_def]
    · rw [← hb]; simp [PDiag.juxt, List.map_map, Function.comp_def]
  · rintro ⟨a1, a2, b1, b2, rfl, rfl, ⟨l1, hl1, ha1, hb1⟩, ⟨l2, hl2, ha2, hb2⟩⟩
    refine ⟨joinLab f.n l1 l2, lab_join hf hl1 hl2, ?_, ?_⟩
    · show (f.ins ++ g.ins.map (f.n + ·)).map _ = _
      rw [List.map_append, List.map_map, ← ha1, ← ha2]
      congr 1
      · exact List.map_congr_left (fun v hv => joinLab_left (f1 v hv))
      · exact List.map_congr_left (fun v _ => joinLab_right f.n l1 l2 v)
    · show (f.outs ++ g.outs.map (f.n + ·)).map _ = _
      rw [List.map_append, List.map_map, ← hb1, ← hb2]
      congr 1
      · exact List.map_congr_left (fun v hv => joinLab_left (f2 v hv))
      · exact List.map_congr_left (fun v _ => joinLab_right f.n l1 l2 v)

/-! ### isomorphism invariance -/

theorem den_of_iso {P Q : PDiag O A} (h : P ≅ Q) {a b : List T} (hQ : Den Φ Q a b) :
    Den Φ P a b := by
  obtain ⟨π, ρ, _, _, _, hedge, hins, houts⟩ := h
  obtain ⟨lab, hl, ha, hb⟩ := hQ
  refine ⟨fun i => lab (π i), ?_, ?_, ?_⟩
  · intro e he
    obtain ⟨i, hi, rfl⟩ := List.getElem_of_mem he
    have h1 := hedge i hi
    rw [List.getElem?_eq_getElem hi] at h1
    have := hl _ (List.mem_of_getElem? h1)
    simpa [PEdge.mapNodes, List.map_map, Function.comp_def] using this
  · rw [← ha, hins, List.map_map]; rfl
  · rw [← hb, houts, List.map_map]; rfl

theorem den_iso {P Q : PDiag O A} (hP : P.wf = true) (h : P ≅ Q) (a b : List T) :
    Den Φ P a b ↔ Den Φ Q a b :=
  ⟨den_of_iso (iso_symm hP h), den_of_iso h⟩

/-- discrete diagrams denote the relation of their two legs -/
theorem den_discrete (w : List O) (s t : List Nat) (a b : List T) :
    Den Φ (⟨w, [], s, t⟩ : PDiag O A) a b ↔ ∃ lab : Nat → T, s.map lab = a ∧ t.map lab = b := by
  constructor
  · rintro ⟨lab, _, ha, hb⟩; exact ⟨lab, ha, hb⟩
  · rintro ⟨lab, ha, hb⟩; exact ⟨lab, (fun e he => by cases he), ha, hb⟩

/-- re-reading the interfaces does not change the labellings -/
theorem den_reinterface (d : PDiag O A) (ins outs : List Nat) (a b : List T) :
    Den Φ ⟨d.nodes, d.edges, ins, outs⟩ a b ↔ ∃ lab, Lab Φ d lab ∧ ins.map lab = a ∧ outs.map lab = b :=
  Iff.rfl

/-! ## Part III: monogamy of quotients, gluings, juxtapositions -/

theorem nodup_of_map {α β : Type} (f : α → β) {l : List α} (h : (l.map f).Nodup) : l.Nodup := by
  induction l with
  | nil => exact List.nodup_nil
  | cons x l ih =>
    rw [List.map_cons, List.nodup_cons] at h
    rw [List.nodup_cons]
    exact ⟨fun hx => h.1 (List.mem_map.2 ⟨x, hx, rfl⟩), ih h.2⟩

theorem nodup_map_on {α β : Type} (f : α → β) {l : List α} (h : l.Nodup)
    (hinj : ∀ x ∈ l, ∀ y ∈ l, f x = f y → x = y) : (l.map f).Nodup := by
  induction l with
  | nil => exact List.nodup_nil
  | cons x l ih =>
    rw [List.nodup_cons] at h
    rw [List.map_cons, List.nodup_cons]
    refine ⟨?_, ih h.2 (fun a ha b hb => hinj a (by simp [ha]) b (by simp [hb]))⟩
    intro hx
    obtain ⟨y, hy, hxy⟩ := List.mem_map.1 hx
    have := hinj y (by simp [hy]) x (by simp) hxy
    exact h.1 (this ▸ hy)

/-- a duplicate-free list of numbers below `n` that contains every number below `n` is a
    permutation of `range n` -/
theorem perm_range_of_nodup_cover {l : List Nat} {n : Nat} (hnd : l.Nodup) (hlt : ∀ v ∈ l, v < n)
    (hc : ∀ v, v < n → v ∈ l) : l.Perm (List.range n) :=
  perm_range_of_count hlt (fun v hv => by rw [hnd.count, if_pos (hc v hv)])

theorem map_bijOn_perm {n m : Nat} {π : Nat → Nat} (h : BijOn n m π) :
    ((List.range n).map π).Perm (List.range m) := by
  apply perm_range_of_nodup_cover
  · exact nodup_map_on π List.nodup_range (fun x hx y hy e =>
      h.2.1 x y (List.mem_range.1 hx) (List.mem_range.1 hy) e)
  · intro v hv
    obtain ⟨i, hi, rfl⟩ := List.mem_map.1 hv
    exact h.1 i (List.mem_range.1 hi)
  · intro v hv
    obtain ⟨i, hi, rfl⟩ := h.2.2 v hv
    exact List.mem_map.2 ⟨i, List.mem_range.2 hi, rfl⟩

theorem tgts_map (E : List (PEdge A)) (q : Nat → Nat) :
    (E.map (PEdge.mapNodes q)).flatMap (·.tgt) = (E.flatMap (·.tgt)).map q := by
  rw [List.flatMap_map, List.map_flatMap]; rfl

theorem srcs_map (E : List (PEdge A)) (q : Nat → Nat) :
    (E.map (PEdge.mapNodes q)).flatMap (·.src) = (E.flatMap (·.src)).map q := by
  rw [List.flatMap_map, List.map_flatMap]; rfl

theorem writers_quot {P r : PDiag O A} {q : Nat → Nat} (h : IsQuotMap P r q) :
    writers r = (writers P).map q := by
  unfold writers
  rw [h.ins, h.edges, tgts_map, List.map_append]

theorem readers_quot {P r : PDiag O A} {q : Nat → Nat} (h : IsQuotMap P r q) :
    readers r = (readers P).map q := by
  unfold readers
  rw [h.outs, h.edges, srcs_map, List.map_append]

/-- descending a node labelling along a quotient (no edge predicate) -/
theorem descend {N : Type} {P r : PDiag O A} {R : Nat → Nat → Prop} (h : IsQuot P R r)
    (lab : Nat → N) (hR : ∀ i j, i < P.n → j < P.n → R i j → lab i = lab j) :
    ∃ (q : Nat → Nat) (lab' : Nat → N), IsQuotMap P r q ∧ (∀ i, i < P.n → lab' (q i) = lab i) ∧
      (∀ i j, i < P.n → j < P.n → (q i = q j ↔ EqvOn P.n R i j)) := by
  obtain ⟨q, hq, hk⟩ := (isQuot_iff _ _ _).1 h
  refine ⟨q, fun k => lab (invOn P.n q k), hq, ?_, hk⟩
  intro i hi
  obtain ⟨h1, h2⟩ := invOn_spec (n := P.n) (π := q) (k := q i) ⟨i, hi, rfl⟩
  exact EqvOn.eq_of hR ((hk _ _ h1 hi).1 h2)

/-- **monogamy of a quotient from its presentation**: it suffices to exhibit two node labellings
    of the presentation, constant on the generating pairs, one separating the write positions and
    one separating the read positions, and to check that every node of the presentation is
    identified with a written one and with a read one -/
theorem monogamous_of_presentation {N : Type} {P r : PDiag O A} {R : Nat → Nat → Prop}
    (hP : P.wf = true) (h : IsQuot P R r) (labW labR : Nat → N)
    (hW : ∀ i j, i < P.n → j < P.n → R i j → labW i = labW j)
    (hR : ∀ i j, i < P.n → j < P.n → R i j → labR i = labR j)
    (nW : ((writers P).map labW).Nodup) (nR : ((readers P).map labR).Nodup)
    (cW : ∀ i, i < P.n → ∃ j ∈ writers P, EqvOn P.n R i j)
    (cR : ∀ i, i < P.n → ∃ j ∈ readers P, EqvOn P.n R i j) : Monogamous r := by
  have hr := IsQuot.wf hP h
  apply monogamous_of_perm
  · obtain ⟨q, lab', hq, hc, hk⟩ := descend h labW hW
    refine perm_range_of_nodup_cover ?_ (writers_lt hr) ?_
    · apply nodup_of_map lab'
      rw [writers_quot hq, List.map_map]
      have : (writers P).map (lab' ∘ q) = (writers P).map labW :=
        List.map_congr_left (fun v hv => hc v (writers_lt hP v hv))
      rw [this]; exact nW
    · intro v hv
      obtain ⟨i, hi, rfl⟩ := hq.onto v hv
      obtain ⟨j, hj, hij⟩ := cW i hi
      rw [writers_quot hq, (hk i j hi (writers_lt hP j hj)).2 hij]
      exact List.mem_map.2 ⟨j, hj, rfl⟩
  · obtain ⟨q, lab', hq, hc, hk⟩ := descend h labR hR
    refine perm_range_of_nodup_cover ?_ (readers_lt hr) ?_
    · apply nodup_of_map lab'
      rw [readers_quot hq, List.map_map]
      have : (readers P).map (lab' ∘ q) = (readers P).map labR :=
        List.map_congr_left (fun v hv => hc v (readers_lt hP v hv))
      rw [this]; exact nR
    · intro v hv
      obtain ⟨i, hi, rfl⟩ := hq.onto v hv
      obtain ⟨j, hj, hij⟩ := cR i hi
      rw [readers_quot hq, (hk i j hi (readers_lt hP j hj)).2 hij]
      exact List.mem_map.2 ⟨j, hj, rfl⟩

/-! ### isomorphism -/

theorem edges_perm_of_iso {P Q : PDiag O A} {π ρ : Nat → Nat}
    (hρ : BijOn P.edges.length Q.edges.length ρ)
    (hedge : ∀ e, e < P.edges.length → Q.edges[ρ e]? = (P.edges[e]?).map (PEdge.mapNodes π)) :
    Q.edges.Perm (P.edges.map (PEdge.mapNodes π)) := by
  cases hQ : Q.edges with
  | nil =>
    have : P.edges.length = 0 := by
      by_contra h0
      have := hρ.1 0 (by omega)
      rw [hQ] at this
      exact absurd this (Nat.not_lt_zero _)
    rw [List.length_eq_zero_iff.1 this]
    exact List.Perm.nil
  | cons d tl =>
    rw [← hQ]
    have h1 : Q.edges = (List.range Q.edges.length).map (fun j => Q.edges.getD j d) := by
      apply List.ext_getElem
      · simp
      · intro i h1 h2
        simp [List.getD_eq_getElem?_getD, List.getElem?_eq_getElem h1]
    have h2 : ((List.range P.edges.length).map ρ).map (fun j => Q.edges.getD j d) =
        P.edges.map (PEdge.mapNodes π) := by
      apply List.ext_getElem
      · simp
      · intro i h1 h2
        simp only [List.length_map, List.length_range] at h1
        have := hedge i h1
        rw [List.getElem?_eq_getElem h1] at this
        simp [List.getD_eq_getElem?_getD, this]
    rw [← h2]
    conv_lhs => rw [h1]
    exact (map_bijOn_perm hρ).symm.map _

theorem writers_perm_of_iso {P Q : PDiag O A} (h : P ≅ Q) :
    ∃ π, BijOn P.n Q.n π ∧ (writers Q).Perm ((writers P).map π) ∧
      (readers Q).Perm ((readers P).map π) := by
  obtain ⟨π, ρ, hπ, hρ, _, hedge, hins, houts⟩ := h
  have hp := edges_perm_of_iso hρ hedge
  refine ⟨π, hπ, ?_, ?_⟩
  · unfold writers
    rw [hins, List.map_append, ← tgts_map]
    exact List.Perm.append_left _ (hp.flatMap_right _)
  · unfold readers
    rw [houts, List.map_append, ← srcs_map]
    exact List.Perm.append_left _ (hp.flatMap_right _)

/-- monogamy is invariant under isomorphism -/
theorem monogamous_iso {P Q : PDiag O A} (hP : P.wf = true) (h : P ≅ Q) (hm : Monogamous P) :
    Monogamous Q := by
  obtain ⟨π, hπ, hw, hr⟩ := writers_perm_of_iso h
  exact monogamous_of_perm
    (hw.trans (((monogamous_writers_perm hP hm).map π).trans (map_bijOn_perm hπ)))
    (hr.trans (((monogamous_readers_perm hP hm).map π).trans (map_bijOn_perm hπ)))

/-! ### gluing and juxtaposition of monogamous diagrams -/

theorem writers_gluePre (f g : PDiag O A) :
    writers (gluePre f g) =
      f.ins ++ (f.edges.flatMap (·.tgt) ++ (g.edges.flatMap (·.tgt)).map (f.n + ·)) := by
  unfold writers gluePre
  simp only [List.flatMap_append, tgts_map]

theorem readers_gluePre (f g : PDiag O A) :
    readers (gluePre f g) =
      g.outs.map (f.n + ·) ++ (f.edges.flatMap (·.src) ++ (g.edges.flatMap (·.src)).map (f.n + ·)) := by
  unfold readers gluePre
  simp only [List.flatMap_append, srcs_map]

theorem nodup_map_add {l : List Nat} (n : Nat) (h : l.Nodup) : (l.map (n + ·)).Nodup :=
  nodup_map_on _ h (fun x _ y _ e => by omega)

/-- **the composite of two monogamous diagrams is monogamous** -/
theorem monogamous_glue {f g r : PDiag O A} (hf : f.wf = true) (hg : g.wf = true)
    (hlen : f.outs.length = g.ins.length) (mf : Monogamous f) (mg : Monogamous g)
    (h : IsGluing f g r) : Monogamous r := by
  obtain ⟨f1, f2, f3⟩ := Eval.pdiag_wf_unpack hf
  obtain ⟨g1, g2, g3⟩ := Eval.pdiag_wf_unpack hg
  have pWf := monogamous_writers_perm hf mf
  have pRf := monogamous_readers_perm hf mf
  have pWg := monogamous_writers_perm hg mg
  have pRg := monogamous_readers_perm hg mg
  have nWf : (writers f).Nodup := pWf.nodup_iff.2 List.nodup_range
  have nRf : (readers f).Nodup := pRf.nodup_iff.2 List.nodup_range
  have nWg : (writers g).Nodup := pWg.nodup_iff.2 List.nodup_range
  have nRg : (readers g).Nodup := pRg.nodup_iff.2 List.nodup_range
  have hn : (gluePre f g).n = f.n + g.n := gluePre_n f g
  -- target nodes of `g` are not inputs of `g`; source nodes of `f` are not outputs of `f`
  have tgt_not_in : ∀ v ∈ g.edges.flatMap (·.tgt), v ∉ g.ins := fun v hv hi =>
    (List.nodup_append.1 nWg).2.2 v hi v hv rfl
  have src_not_out : ∀ v ∈ f.edges.flatMap (·.src), v ∉ f.outs := fun v hv ho =>
    (List.nodup_append.1 nRf).2.2 v ho v hv rfl
  have tgt_lt : ∀ v ∈ f.edges.flatMap (·.tgt), v < f.n := fun v hv =>
    writers_lt hf v (List.mem_append_right _ hv)
  have src_lt : ∀ v ∈ f.edges.flatMap (·.src), v < f.n := fun v hv =>
    readers_lt hf v (List.mem_append_right _ hv)
  let labW : Nat → Nat := fun i =>
    if i < f.n then i else if (i - f.n) ∈ g.ins then f.outs.getD (g.ins.idxOf (i - f.n)) 0 else i
  let labR : Nat → Nat := fun i =>
    if i < f.n then (if i ∈ f.outs then f.n + g.ins.getD (f.outs.idxOf i) 0 else i) else i
  have labW_l : ∀ i, i < f.n → labW i = i := fun i hi => if_pos hi
  have labW_r : ∀ v, v ∉ g.ins → labW (f.n + v) = f.n + v := by
    intro v hv
    show (if f.n + v < f.n then _ else _) = _
    rw [if_neg (by omega), Nat.add_sub_cancel_left, if_neg hv]
  have labR_r : ∀ v, labR (f.n + v) = f.n + v := fun v => if_neg (by omega)
  have labR_l : ∀ i, i < f.n → i ∉ f.outs → labR i = i := by
    intro i hi ho
    show (if i < f.n then _ else _) = _
    rw [if_pos hi, if_neg ho]
  -- a boundary pair
  have pair : ∀ a b, glueRel f g a b → ∃ k, ∃ (h1 : k < f.outs.length) (h2 : k < g.ins.length),
      a = f.outs[k] ∧ b = f.n + g.ins[k] := by
    rintro a b ⟨k, hk1, hk2⟩
    obtain ⟨h1, e1⟩ := List.getElem?_eq_some_iff.1 hk1
    have h2 : k < g.ins.length := hlen ▸ h1
    rw [List.getElem?_eq_getElem h2] at hk2
    exact ⟨k, h1, h2, e1.symm, (Option.some.inj hk2).symm⟩
  have rel_of : ∀ k (h1 : k < f.outs.length) (h2 : k < g.ins.length),
      EqvOn (gluePre f g).n (glueRel f g) f.outs[k] (f.n + g.ins[k]) := by
    intro k h1 h2
    refine EqvOn.of_rel ?_ ?_ ⟨k, List.getElem?_eq_getElem h1, ?_⟩
    · rw [hn]; have := f2 _ (List.getElem_mem h1); omega
    · rw [hn]; have := g1 _ (List.getElem_mem h2); omega
    · rw [List.getElem?_eq_getElem h2]; rfl
  apply monogamous_of_presentation (gluePre_wf hf hg) h labW labR
  · intro a b _ _ hab
    obtain ⟨k, h1, h2, rfl, rfl⟩ := pair a b hab
    rw [labW_l _ (f2 _ (List.getElem_mem h1))]
    show _ = (if f.n + g.ins[k] < f.n then _ else _)
    rw [if_neg (by omega), Nat.add_sub_cancel_left, if_pos (List.getElem_mem h2),
      mg.1.idxOf_getElem k h2]
    simp [List.getD_eq_getElem?_getD, List.getElem?_eq_getElem h1]
  · intro a b _ _ hab
    obtain ⟨k, h1, h2, rfl, rfl⟩ := pair a b hab
    rw [labR_r]
    show (if f.outs[k] < f.n then _ else _) = _
    rw [if_pos (f2 _ (List.getElem_mem h1)), if_pos (List.getElem_mem h1),
      mf.2.1.idxOf_getElem k h1]
    simp [List.getD_eq_getElem?_getD, List.getElem?_eq_getElem h2]
  · rw [writers_gluePre]
    have e : (f.ins ++ (f.edges.flatMap (·.tgt) ++ (g.edges.flatMap (·.tgt)).map (f.n + ·))).map labW
        = writers f ++ (g.edges.flatMap (·.tgt)).map (f.n + ·) := by
      unfold writers
      rw [List.map_append, List.map_append, List.append_assoc]
      congr 1
      · conv_rhs => rw [← List.map_id f.ins]
        exact List.map_congr_left (fun v hv => labW_l v (f1 v hv))
      · congr 1
        · conv_rhs => rw [← List.map_id (f.edges.flatMap _)]
          exact List.map_congr_left (fun v hv => labW_l v (tgt_lt v hv))
        · rw [List.map_map]
          exact List.map_congr_left (fun v hv => labW_r v (tgt_not_in v hv))
    rw [e, List.nodup_append]
    refine ⟨nWf, nodup_map_add _ (List.nodup_append.1 nWg).2.1, ?_⟩
    intro a ha b hb
    obtain ⟨v, _, rfl⟩ := List.mem_map.1 hb
    have := writers_lt hf a ha
    omega
  · rw [readers_gluePre]
    have e : (g.outs.map (f.n + ·) ++ (f.edges.flatMap (·.src) ++
        (g.edges.flatMap (·.src)).map (f.n + ·))).map labR =
        g.outs.map (f.n + ·) ++ (f.edges.flatMap (·.src) ++
        (g.edges.flatMap (·.src)).map (f.n + ·)) := by
      rw [List.map_append, List.map_append]
      congr 1
      · rw [List.map_map]
        exact List.map_congr_left (fun v _ => labR_r v)
      · congr 1
        · conv_rhs => rw [← List.map_id (f.edges.flatMap _)]
          exact List.map_congr_left (fun v hv => labR_l v (src_lt v hv) (src_not_out v hv))
        · rw [List.map_map]
          exact List.map_congr_left (fun v _ => labR_r v)
    rw [e]
    have p : (g.outs.map (f.n + ·) ++ (f.edges.flatMap (·.src) ++
        (g.edges.flatMap (·.src)).map (f.n + ·))).Perm
        (f.edges.flatMap (·.src) ++ (readers g).map (f.n + ·)) := by
      unfold readers
      rw [List.map_append]
      exact (List.perm_append_comm_assoc _ _ _)
    rw [p.nodup_iff, List.nodup_append]
    refine ⟨(List.nodup_append.1 nRf).2.1, nodup_map_add _ nRg, ?_⟩
    intro a ha b hb
    obtain ⟨v, _, rfl⟩ := List.mem_map.1 hb
    have := src_lt a ha
    omega
  · intro i hi
    rw [hn] at hi
    by_cases hlt : i < f.n
    · refine ⟨i, ?_, EqvGen.refl _⟩
      have : i ∈ writers f := pWf.mem_iff.2 (List.mem_range.2 hlt)
      rw [writers_gluePre]
      unfold writers at this
      rcases List.mem_append.1 this with h1 | h1
      · exact List.mem_append_left _ h1
      · exact List.mem_append_right _ (List.mem_append_left _ h1)
    · have hj : i - f.n ∈ writers g := pWg.mem_iff.2 (List.mem_range.2 (by omega))
      have ei : i = f.n + (i - f.n) := by omega
      unfold writers at hj
      rcases List.mem_append.1 hj with h1 | h1
      · obtain ⟨k, h2, e⟩ := List.getElem_of_mem h1
        have h1' : k < f.outs.length := hlen ▸ h2
        refine ⟨f.outs[k], ?_, ?_⟩
        · rw [writers_gluePre]
          have : f.outs[k] ∈ writers f :=
            pWf.mem_iff.2 (List.mem_range.2 (f2 _ (List.getElem_mem h1')))
          unfold writers at this
          rcases List.mem_append.1 this with h3 | h3
          · exact List.mem_append_left _ h3
          · exact List.mem_append_right _ (List.mem_append_left _ h3)
        · rw [ei, ← e]
          exact EqvGen.symm _ _ (rel_of k h1' h2)
      · refine ⟨i, ?_, EqvGen.refl _⟩
        rw [writers_gluePre]
        apply List.mem_append_right
        apply List.mem_append_right
        rw [ei]
        exact List.mem_map.2 ⟨_, h1, rfl⟩
  · intro i hi
    rw [hn] at hi
    have memg : ∀ v, v ∈ readers g → f.n + v ∈ readers (gluePre f g) := by
      intro v hv
      rw [readers_gluePre]
      unfold readers at hv
      rcases List.mem_append.1 hv with h1 | h1
      · exact List.mem_append_left _ (List.mem_map.2 ⟨v, h1, rfl⟩)
      · exact List.mem_append_right _ (List.mem_append_right _ (List.mem_map.2 ⟨v, h1, rfl⟩))
    by_cases hlt : i < f.n
    · have : i ∈ readers f := pRf.mem_iff.2 (List.mem_range.2 hlt)
      unfold readers at this
      rcases List.mem_append.1 this with h1 | h1
      · obtain ⟨k, h2, e⟩ := List.getElem_of_mem h1
        have h2' : k < g.ins.length := hlen ▸ h2
        refine ⟨f.n + g.ins[k], memg _ (pRg.mem_iff.2 (List.mem_range.2 (g1 _ (List.getElem_mem h2')))), ?_⟩
        rw [← e]
        exact rel_of k h2 h2'
      · refine ⟨i, ?_, EqvGen.refl _⟩
        rw [readers_gluePre]
        exact List.mem_append_right _ (List.mem_append_left _ h1)
    · have hj : i - f.n ∈ readers g := pRg.mem_iff.2 (List.mem_range.2 (by omega))
      have ei : i = f.n + (i - f.n) := by omega
      exact ⟨i, by rw [ei]; exact memg _ hj, EqvGen.refl _⟩

theorem monogamous_juxt {f g : PDiag O A} (hf : f.wf = true) (hg : g.wf = true)
    (mf : Monogamous f) (mg : Monogamous g) : Monogamous (PDiag.juxt f g) := by
  have pWf := monogamous_writers_perm hf mf
  have pRf := monogamous_readers_perm hf mf
  have pWg := monogamous_writers_perm hg mg
  have pRg := monogamous_readers_perm hg mg
  have hr : List.range (PDiag.juxt f g).n = List.range f.n ++ (List.range g.n).map (f.n + ·) := by
    rw [juxt_n, List.range_add]
  apply monogamous_of_perm
  · rw [hr]
    have : writers (PDiag.juxt f g) = (f.ins ++ g.ins.map (f.n + ·)) ++
        (f.edges.flatMap (·.tgt) ++ (g.edges.flatMap (·.tgt)).map (f.n + ·)) := by
      unfold writers PDiag.juxt
      simp only [List.flatMap_append, tgts_map]
    rw [this]
    refine (List.Perm.trans ?_ (pWf.append (pWg.map (f.n + ·))))
    unfold writers
    rw [List.map_append]
    simp only [List.append_assoc]
    exact List.Perm.append_left _ (List.perm_append_comm_assoc _ _ _)
  · rw [hr]
    have : readers (PDiag.juxt f g) = (f.outs ++ g.outs.map (f.n + ·)) ++
        (f.edges.flatMap (·.src) ++ (g.edges.flatMap (·.src)).map (f.n + ·)) := by
      unfold readers PDiag.juxt
      simp only [List.flatMap_append, srcs_map]
    rw [this]
    refine (List.Perm.trans ?_ (pRf.append (pRg.map (f.n + ·))))
    unfold readers
    rw [List.map_append]
    simp only [List.append_assoc]
    exact List.Perm.append_left _ (List.perm_append_comm_assoc _ _ _)

/-- a discrete diagram both of whose legs enumerate the nodes is monogamous -/
theorem monogamous_discrete {w : List O} {s t : List Nat} (hs : s.Perm (List.range w.length))
    (ht : t.Perm (List.range w.length)) : Monogamous (⟨w, [], s, t⟩ : PDiag O A) := by
  apply monogamous_of_perm
  · simpa [writers, PDiag.n] using hs
  · simpa [readers, PDiag.n] using ht

/-! ## Part IV: the bent substitution (the shape of an adapted optic image) -/

/-- the entries at even positions -/
def evens {α : Type} : List α → List α
  | [] => []
  | [x] => [x]
  | x :: _ :: l => x :: evens l

/-- the entries at odd positions -/
def odds {α : Type} : List α → List α
  | [] => []
  | [_] => []
  | _ :: y :: l => y :: odds l

/-- alternate the entries of two lists -/
def il2 {α : Type} : List α → List α → List α
  | x :: xs, y :: ys => x :: y :: il2 xs ys
  | _, _ => []

theorem evens_il2 {α : Type} (xs ys : List α) (h : xs.length = ys.length) : evens (il2 xs ys) = xs := by
  induction xs generalizing ys with
  | nil => cases ys <;> simp [il2, evens]
  | cons x xs ih =>
    cases ys with
    | nil => simp at h
    | cons y ys => simp at h; simp [il2, evens, ih ys h]

theorem odds_il2 {α : Type} (xs ys : List α) (h : xs.length = ys.length) : odds (il2 xs ys) = ys := by
  induction xs generalizing ys with
  | nil => cases ys <;> simp_all [il2, odds]
  | cons x xs ih =>
    cases ys with
    | nil => simp at h
    | cons y ys => simp at h; simp [il2, odds, ih ys h]

theorem il2_evens_odds {α : Type} : ∀ (l : List α) (k : Nat), l.length = 2 * k → il2 (evens l) (odds l) = l
  | [], _, _ => rfl
  | [_], k, h => by simp at h; omega
  | x :: y :: l, k, h => by
    simp only [evens, odds, il2]
    rw [il2_evens_odds l (k - 1) (by simp at h; omega)]

theorem evens_map {α β : Type} (f : α → β) : ∀ l : List α, evens (l.map f) = (evens l).map f
  | [] => rfl
  | [_] => rfl
  | x :: y :: l => by simp [evens, evens_map f l]

theorem odds_map {α β : Type} (f : α → β) : ∀ l : List α, odds (l.map f) = (odds l).map f
  | [] => rfl
  | [_] => rfl
  | x :: y :: l => by simp [odds, odds_map f l]

theorem il2_map {α β : Type} (f : α → β) (xs ys : List α) :
    il2 (xs.map f) (ys.map f) = (il2 xs ys).map f := by
  induction xs generalizing ys with
  | nil => cases ys <;> simp [il2]
  | cons x xs ih => cases ys with
    | nil => simp [il2]
    | cons y ys => simp [il2, ih ys]

theorem il2_length {α : Type} (xs ys : List α) (h : xs.length = ys.length) :
    (il2 xs ys).length = 2 * xs.length := by
  induction xs generalizing ys with
  | nil => cases ys <;> simp [il2]
  | cons x xs ih =>
    cases ys with
    | nil => simp at h
    | cons y ys => simp at h; simp [il2, ih ys h]; omega

theorem evens_odds_perm {α : Type} : ∀ l : List α, l.Perm (evens l ++ odds l)
  | [] => List.Perm.refl _
  | [_] => List.Perm.refl _
  | x :: y :: l => by
    simp only [evens, odds, List.cons_append]
    refine List.Perm.cons x ?_
    exact ((evens_odds_perm l).cons y).trans List.perm_middle.symm

theorem evens_length {α : Type} : ∀ (l : List α) (k : Nat), l.length = 2 * k → (evens l).length = k
  | [], k, h => by simp at h; simp [evens]; omega
  | [_], k, h => by simp at h; omega
  | x :: y :: l, k, h => by
    simp only [evens, List.length_cons]
    rw [evens_length l (k - 1) (by simp at h; omega)]
    simp at h; omega

theorem odds_length {α : Type} : ∀ (l : List α) (k : Nat), l.length = 2 * k → (odds l).length = k
  | [], k, h => by simp at h; simp [odds]; omega
  | [_], k, h => by simp at h; omega
  | x :: y :: l, k, h => by
    simp only [odds, List.length_cons]
    rw [odds_length l (k - 1) (by simp at h; omega)]
    simp at h; omega

/-- every node `v` doubled into its forward copy `2v` and its reverse copy `2v+1` -/
def dbl (l : List Nat) : List Nat := il2 (l.map (2 * ·)) (l.map (2 * · + 1))

theorem dbl_eq_flatMap (l : List Nat) : dbl l = l.flatMap (fun v => [2 * v, 2 * v + 1]) := by
  induction l with
  | nil => rfl
  | cons v l ih => simp [dbl, il2] at ih ⊢; exact ih

theorem evens_dbl (l : List Nat) : evens (dbl l) = l.map (2 * ·) := evens_il2 _ _ (by simp)
theorem odds_dbl (l : List Nat) : odds (dbl l) = l.map (2 * · + 1) := odds_il2 _ _ (by simp)
theorem dbl_length (l : List Nat) : (dbl l).length = 2 * l.length := by
  rw [dbl, il2_length _ _ (by simp), List.length_map]

/-- the diagram with the odd input positions read as outputs and the odd output positions read
    as inputs -/
def unbend (X : PDiag O A) : PDiag O A :=
  ⟨X.nodes, X.edges, evens X.ins ++ odds X.outs, evens X.outs ++ odds X.ins⟩

/-- the presentation of the bent substitution: the doubled nodes `W` of the circuit next to the
    image `X` of its operations; inputs are the forward copies of the circuit's inputs and the
    reverse copies of its outputs, outputs the forward copies of the outputs and the reverse
    copies of the inputs -/
def bendPre (W : List O) (ins outs : List Nat) (X : PDiag O A) : PDiag O A :=
  ⟨W ++ X.nodes, X.edges.map (PEdge.mapNodes (W.length + ·)),
    ins.map (2 * ·) ++ outs.map (2 * · + 1), outs.map (2 * ·) ++ ins.map (2 * · + 1)⟩

theorem mem_evens_odds {α : Type} {l : List α} {x : α} : x ∈ l ↔ x ∈ evens l ∨ x ∈ odds l := by
  rw [(evens_odds_perm l).mem_iff, List.mem_append]

/-- a duplicate-free list of numbers below `n` and its complement enumerate `range n` -/
theorem perm_split_nodup {l : List Nat} {n : Nat} (hnd : l.Nodup) (hlt : ∀ v ∈ l, v < n) :
    (List.range n).Perm (l ++ (List.range n).filter (fun v => decide (v ∉ l))) := by
  rw [List.perm_iff_count]
  intro v
  rw [count_range, List.count_append, hnd.count, (List.nodup_range.filter _).count]
  by_cases hv : v ∈ l
  · have := hlt v hv
    simp [hv, this]
  · by_cases hn : v < n
    · simp [hv, hn]
    · simp [hv, hn]

/-- counting criterion: a list whose entries are counted by three duplicate-free lists living on
    the even numbers below `N`, the odd numbers below `N` and the numbers from `N` on -/
theorem nodup_three {E Od I L : List Nat} {N : Nat} (hE : E.Nodup) (hO : Od.Nodup) (hI : I.Nodup)
    (hEe : ∀ v ∈ E, v % 2 = 0 ∧ v < N) (hOo : ∀ v ∈ Od, v % 2 = 1 ∧ v < N) (hIr : ∀ v ∈ I, N ≤ v)
    (hL : ∀ v, L.count v = E.count v + Od.count v + I.count v) : L.Nodup := by
  rw [List.nodup_iff_count]
  intro v
  rw [hL v]
  have h1 := List.nodup_iff_count.1 hE v
  have h2 := List.nodup_iff_count.1 hO v
  have h3 := List.nodup_iff_count.1 hI v
  by_cases hv : v < N
  · have : I.count v = 0 := List.count_eq_zero_of_not_mem (fun h => by have := hIr v h; omega)
    by_cases hp : v % 2 = 0
    · have : Od.count v = 0 := List.count_eq_zero_of_not_mem (fun h => by have := hOo v h; omega)
      omega
    · have : E.count v = 0 := List.count_eq_zero_of_not_mem (fun h => by have := hEe v h; omega)
      omega
  · have : E.count v = 0 := List.count_eq_zero_of_not_mem (fun h => by have := hEe v h; omega)
    have : Od.count v = 0 := List.count_eq_zero_of_not_mem (fun h => by have := hOo v h; omega)
    omega

theorem nodup_map_two {l : List Nat} (h : l.Nodup) : (l.map (2 * ·)).Nodup :=
  nodup_map_on _ h (fun x _ y _ e => by omega)

theorem nodup_map_two' {l : List Nat} (h : l.Nodup) : (l.map (2 * · + 1)).Nodup :=
  nodup_map_on _ h (fun x _ y _ e => by omega)

section bend
variable {O1 A1 : Type}

/-- **the bent substitution of a monogamous circuit is monogamous.**
    `sf` is a well-formed monogamous circuit, `W` its doubled node list, `X` a diagram whose
    interface positions alternate forward and reverse copies (`2p`: forward, `2p+1`: reverse) of
    the flat source, resp. target, incidence positions of `sf`, all of whose interface positions
    are distinct nodes and whose unbent form is monogamous.  Then every quotient of the bent
    substitution presentation is monogamous. -/
theorem monogamous_bend {sf : PDiag O1 A1} {W : List O} {X r : PDiag O A}
    (hsf : sf.wf = true) (msf : Monogamous sf) (hW : W.length = 2 * sf.n) (hX : X.wf = true)
    (hXi : X.ins.length = 2 * (sf.edges.flatMap (·.src)).length)
    (hXo : X.outs.length = 2 * (sf.edges.flatMap (·.tgt)).length)
    (mX : Monogamous (unbend X)) (hnd : (X.ins ++ X.outs).Nodup)
    (h : IsQuot (bendPre W sf.ins sf.outs X)
      (substR W (dbl (sf.edges.flatMap (·.src))) (dbl (sf.edges.flatMap (·.tgt))) X) r) :
    Monogamous r := by
  -- abbreviations
  obtain ⟨hS, hTt⟩ : (∃ S, S = sf.edges.flatMap (·.src)) ∧ (∃ Tt, Tt = sf.edges.flatMap (·.tgt)) :=
    ⟨⟨_, rfl⟩, ⟨_, rfl⟩⟩
  obtain ⟨S, hS⟩ := hS
  obtain ⟨Tt, hTt⟩ := hTt
  rw [← hS] at hXi h
  rw [← hTt] at hXo h
  obtain ⟨x1, x2, x3⟩ := Eval.pdiag_wf_unpack hX
  have pWs := monogamous_writers_perm hsf msf
  have pRs := monogamous_readers_perm hsf msf
  have nWs : (writers sf).Nodup := pWs.nodup_iff.2 List.nodup_range
  have nRs : (readers sf).Nodup := pRs.nodup_iff.2 List.nodup_range
  have hwX : (unbend X).wf = true := by
    refine (PDiag.wf_iff _).2 ⟨?_, ?_, x3⟩
    · intro v hv
      rcases List.mem_append.1 hv with h1 | h1
      · exact x1 v (mem_evens_odds.2 (Or.inl h1))
      · exact x2 v (mem_evens_odds.2 (Or.inr h1))
    · intro v hv
      rcases List.mem_append.1 hv with h1 | h1
      · exact x2 v (mem_evens_odds.2 (Or.inl h1))
      · exact x1 v (mem_evens_odds.2 (Or.inr h1))
  have pWX := monogamous_writers_perm hwX mX
  have pRX := monogamous_readers_perm hwX mX
  have S_lt : ∀ v ∈ S, v < sf.n := fun v hv =>
    readers_lt hsf v (List.mem_append_right _ (hS ▸ hv))
  have T_lt : ∀ v ∈ Tt, v < sf.n := fun v hv =>
    writers_lt hsf v (List.mem_append_right _ (hTt ▸ hv))
  have ins_lt : ∀ v ∈ sf.ins, v < sf.n := fun v hv => writers_lt hsf v (List.mem_append_left _ hv)
  have outs_lt : ∀ v ∈ sf.outs, v < sf.n := fun v hv => readers_lt hsf v (List.mem_append_left _ hv)
  have dbl_lt : ∀ l : List Nat, (∀ v ∈ l, v < sf.n) → ∀ a ∈ dbl l, a < W.length := by
    intro l hl a ha
    rw [dbl_eq_flatMap] at ha
    obtain ⟨v, hv, hav⟩ := List.mem_flatMap.1 ha
    have := hl v hv
    simp at hav
    omega
  have hnI : X.ins.Nodup := (List.nodup_append.1 hnd).1
  have hnO : X.outs.Nodup := (List.nodup_append.1 hnd).2.1
  have hdisj : ∀ v ∈ X.outs, v ∉ X.ins := fun v ho hi => (List.nodup_append.1 hnd).2.2 v hi v ho rfl
  -- the labelling by representatives
  let c' : Nat → Nat := fun u =>
    if u ∈ X.ins then (dbl S).getD (X.ins.idxOf u) 0
    else if u ∈ X.outs then (dbl Tt).getD (X.outs.idxOf u) 0 else W.length + u
  let lab : Nat → Nat := fun i => if i < W.length then i else c' (i - W.length)
  have lab_l : ∀ i, i < W.length → lab i = i := fun i hi => if_pos hi
  have lab_r : ∀ u, lab (W.length + u) = c' u := by
    intro u
    show (if W.length + u < W.length then _ else _) = _
    rw [if_neg (by omega), Nat.add_sub_cancel_left]
  have F1 : X.ins.map c' = dbl S := by
    apply List.ext_getElem
    · rw [List.length_map, hXi, dbl_length]
    · intro k h1 h2
      simp only [List.length_map] at h1
      rw [List.getElem_map]
      show (if X.ins[k] ∈ X.ins then _ else _) = _
      rw [if_pos (List.getElem_mem h1), hnI.idxOf_getElem k h1]
      simp [List.getD_eq_getElem?_getD, List.getElem?_eq_getElem h2]
  have F2 : X.outs.map c' = dbl Tt := by
    apply List.ext_getElem
    · rw [List.length_map, hXo, dbl_length]
    · intro k h1 h2
      simp only [List.length_map] at h1
      rw [List.getElem_map]
      show (if X.outs[k] ∈ X.ins then _ else _) = _
      rw [if_neg (hdisj _ (List.getElem_mem h1)), if_pos (List.getElem_mem h1),
        hnO.idxOf_getElem k h1]
      simp [List.getD_eq_getElem?_getD, List.getElem?_eq_getElem h2]
  have F3 : ∀ u, u ∉ X.ins → u ∉ X.outs → c' u = W.length + u := by
    intro u h1 h2
    show (if u ∈ X.ins then _ else _) = _
    rw [if_neg h1, if_neg h2]
  -- the presentation
  have hPn : (bendPre W sf.ins sf.outs X).n = W.length + X.n := by
    simp [bendPre, PDiag.n]
  have hP : (bendPre W sf.ins sf.outs X).wf = true := by
    refine (PDiag.wf_iff _).2 ⟨?_, ?_, ?_⟩
    · intro v hv
      rw [hPn]
      rcases List.mem_append.1 hv with h1 | h1
      · obtain ⟨u, hu, rfl⟩ := List.mem_map.1 h1
        have := ins_lt u hu; omega
      · obtain ⟨u, hu, rfl⟩ := List.mem_map.1 h1
        have := outs_lt u hu; omega
    · intro v hv
      rw [hPn]
      rcases List.mem_append.1 hv with h1 | h1
      · obtain ⟨u, hu, rfl⟩ := List.mem_map.1 h1
        have := outs_lt u hu; omega
      · obtain ⟨u, hu, rfl⟩ := List.mem_map.1 h1
        have := ins_lt u hu; omega
    · intro e he
      obtain ⟨e0, he0, rfl⟩ := List.mem_map.1 he
      rw [hPn]
      constructor
      · intro v hv
        obtain ⟨u, hu, rfl⟩ := List.mem_map.1 hv
        have := (x3 e0 he0).1 u hu; omega
      · intro v hv
        obtain ⟨u, hu, rfl⟩ := List.mem_map.1 hv
        have := (x3 e0 he0).2 u hu; omega
  have hwr : writers (bendPre W sf.ins sf.outs X) =
      (sf.ins.map (2 * ·) ++ sf.outs.map (2 * · + 1)) ++
        (X.edges.flatMap (·.tgt)).map (W.length + ·) := by
    unfold writers bendPre
    simp only [tgts_map]
  have hrd : readers (bendPre W sf.ins sf.outs X) =
      (sf.outs.map (2 * ·) ++ sf.ins.map (2 * · + 1)) ++
        (X.edges.flatMap (·.src)).map (W.length + ·) := by
    unfold readers bendPre
    simp only [srcs_map]
  -- the relation is respected
  have hresp : ∀ i j, i < (bendPre W sf.ins sf.outs X).n → j < (bendPre W sf.ins sf.outs X).n →
      substR W (dbl S) (dbl Tt) X i j → lab i = lab j := by
    rintro i j _ _ (⟨k, hk1, hk2⟩ | ⟨k, hk1, hk2⟩)
    · obtain ⟨h1, e1⟩ := List.getElem?_eq_some_iff.1 hk1
      have h2 : k < X.ins.length := by rw [hXi, ← dbl_length]; exact h1
      rw [List.getElem?_eq_getElem h2] at hk2
      have hj : j = W.length + X.ins[k] := (Option.some.inj hk2).symm
      rw [hj, lab_r, lab_l i (dbl_lt S S_lt i (e1 ▸ List.getElem_mem h1)), ← e1]
      have := congrArg (fun l => l[k]?) F1
      simp only [List.getElem?_map, List.getElem?_eq_getElem h2, List.getElem?_eq_getElem h1,
        Option.map_some] at this
      exact (Option.some.inj this).symm
    · obtain ⟨h1, e1⟩ := List.getElem?_eq_some_iff.1 hk1
      have h2 : k < X.outs.length := by rw [hXo, ← dbl_length]; exact h1
      rw [List.getElem?_eq_getElem h2] at hk2
      have hj : j = W.length + X.outs[k] := (Option.some.inj hk2).symm
      rw [hj, lab_r, lab_l i (dbl_lt Tt T_lt i (e1 ▸ List.getElem_mem h1)), ← e1]
      have := congrArg (fun l => l[k]?) F2
      simp only [List.getElem?_map, List.getElem?_eq_getElem h2, List.getElem?_eq_getElem h1,
        Option.map_some] at this
      exact (Option.some.inj this).symm
  -- internal nodes of `X`
  have hndU : ((unbend X).ins ++ (unbend X).outs).Nodup := by
    have p : ((unbend X).ins ++ (unbend X).outs).Perm (X.ins ++ X.outs) := by
      show ((evens X.ins ++ odds X.outs) ++ (evens X.outs ++ odds X.ins)).Perm _
      refine List.Perm.trans ?_ ((evens_odds_perm X.ins).append (evens_odds_perm X.outs)).symm
      rw [List.perm_iff_count]
      intro v
      simp only [List.count_append]
      omega
    exact p.nodup_iff.2 hnd
  have hU_lt : ∀ v ∈ (unbend X).ins ++ (unbend X).outs, v < X.n := by
    intro v hv
    rcases List.mem_append.1 hv with h1 | h1
    · exact writers_lt hwX v (List.mem_append_left _ h1)
    · exact readers_lt hwX v (List.mem_append_left _ h1)
  obtain ⟨I, hI⟩ : ∃ I, I = (List.range X.n).filter
      (fun v => decide (v ∉ (unbend X).ins ++ (unbend X).outs)) := ⟨_, rfl⟩
  have hsplit : (List.range X.n).Perm (((unbend X).ins ++ (unbend X).outs) ++ I) := by
    rw [hI]; exact perm_split_nodup hndU hU_lt
  have pT : (X.edges.flatMap (·.tgt)).Perm ((unbend X).outs ++ I) := by
    have := pWX.trans hsplit
    unfold writers at this
    rw [List.append_assoc] at this
    exact (List.perm_append_left_iff _).1 this
  have pS : (X.edges.flatMap (·.src)).Perm ((unbend X).ins ++ I) := by
    have := pRX.trans hsplit
    unfold readers at this
    have p2 : (((unbend X).ins ++ (unbend X).outs) ++ I).Perm
        ((unbend X).outs ++ ((unbend X).ins ++ I)) := by
      rw [List.perm_iff_count]; intro v; simp only [List.count_append]; omega
    exact (List.perm_append_left_iff _).1 (this.trans p2)
  have hOm : (unbend X).outs.map c' = Tt.map (2 * ·) ++ S.map (2 * · + 1) := by
    show (evens X.outs ++ odds X.ins).map c' = _
    rw [List.map_append, ← evens_map, ← odds_map, F1, F2, evens_dbl, odds_dbl]
  have hIm : (unbend X).ins.map c' = S.map (2 * ·) ++ Tt.map (2 * · + 1) := by
    show (evens X.ins ++ odds X.outs).map c' = _
    rw [List.map_append, ← evens_map, ← odds_map, F1, F2, evens_dbl, odds_dbl]
  have hInt : I.map c' = I.map (W.length + ·) := by
    apply List.map_congr_left
    intro v hv
    rw [hI, List.mem_filter] at hv
    have hv2 : v ∉ (unbend X).ins ++ (unbend X).outs := by simpa using hv.2
    apply F3
    · intro hi
      apply hv2
      rcases mem_evens_odds.1 hi with h1 | h1
      · exact List.mem_append_left _ (List.mem_append_left _ h1)
      · exact List.mem_append_right _ (List.mem_append_right _ h1)
    · intro ho
      apply hv2
      rcases mem_evens_odds.1 ho with h1 | h1
      · exact List.mem_append_right _ (List.mem_append_left _ h1)
      · exact List.mem_append_left _ (List.mem_append_right _ h1)
  have nI : (I.map (W.length + ·)).Nodup := by
    rw [hI]; exact nodup_map_add _ (List.nodup_range.filter _)
  have hIr : ∀ v ∈ I.map (W.length + ·), W.length ≤ v := by
    intro v hv
    obtain ⟨u, _, rfl⟩ := List.mem_map.1 hv
    omega
  have ev_lt : ∀ l : List Nat, (∀ v ∈ l, v < sf.n) → ∀ v ∈ l.map (2 * ·), v % 2 = 0 ∧ v < W.length := by
    intro l hl v hv
    obtain ⟨u, hu, rfl⟩ := List.mem_map.1 hv
    have := hl u hu
    omega
  have od_lt : ∀ l : List Nat, (∀ v ∈ l, v < sf.n) →
      ∀ v ∈ l.map (2 * · + 1), v % 2 = 1 ∧ v < W.length := by
    intro l hl v hv
    obtain ⟨u, hu, rfl⟩ := List.mem_map.1 hv
    have := hl u hu
    omega
  have insP_lab : ∀ l : List Nat, (∀ v ∈ l, v < W.length) → l.map lab = l := by
    intro l hl
    conv_rhs => rw [← List.map_id l]
    exact List.map_congr_left (fun v hv => lab_l v (hl v hv))
  have hwS : writers sf = sf.ins ++ Tt := by rw [hTt]; rfl
  have hrS : readers sf = sf.outs ++ S := by rw [hS]; rfl
  have tgts_lab : ((X.edges.flatMap (·.tgt)).map (W.length + ·)).map lab =
      (X.edges.flatMap (·.tgt)).map c' := by
    rw [List.map_map]; exact List.map_congr_left (fun v _ => lab_r v)
  have srcs_lab : ((X.edges.flatMap (·.src)).map (W.length + ·)).map lab =
      (X.edges.flatMap (·.src)).map c' := by
    rw [List.map_map]; exact List.map_congr_left (fun v _ => lab_r v)
  -- parity bookkeeping on the interface of `X`
  have ins_even : ∀ u ∈ X.ins, c' u % 2 = 0 → u ∈ evens X.ins := by
    intro u hu hp
    rcases mem_evens_odds.1 hu with h1 | h1
    · exact h1
    · exfalso
      have : c' u ∈ (odds X.ins).map c' := List.mem_map.2 ⟨u, h1, rfl⟩
      rw [← odds_map, F1, odds_dbl] at this
      obtain ⟨w, _, hw⟩ := List.mem_map.1 this
      omega
  have ins_odd : ∀ u ∈ X.ins, c' u % 2 = 1 → u ∈ odds X.ins := by
    intro u hu hp
    rcases mem_evens_odds.1 hu with h1 | h1
    · exfalso
      have : c' u ∈ (evens X.ins).map c' := List.mem_map.2 ⟨u, h1, rfl⟩
      rw [← evens_map, F1, evens_dbl] at this
      obtain ⟨w, _, hw⟩ := List.mem_map.1 this
      omega
    · exact h1
  have outs_even : ∀ u ∈ X.outs, c' u % 2 = 0 → u ∈ evens X.outs := by
    intro u hu hp
    rcases mem_evens_odds.1 hu with h1 | h1
    · exact h1
    · exfalso
      have : c' u ∈ (odds X.outs).map c' := List.mem_map.2 ⟨u, h1, rfl⟩
      rw [← odds_map, F2, odds_dbl] at this
      obtain ⟨w, _, hw⟩ := List.mem_map.1 this
      omega
  have outs_odd : ∀ u ∈ X.outs, c' u % 2 = 1 → u ∈ odds X.outs := by
    intro u hu hp
    rcases mem_evens_odds.1 hu with h1 | h1
    · exfalso
      have : c' u ∈ (evens X.outs).map c' := List.mem_map.2 ⟨u, h1, rfl⟩
      rw [← evens_map, F2, evens_dbl] at this
      obtain ⟨w, _, hw⟩ := List.mem_map.1 this
      omega
    · exact h1
  -- boundary nodes of `X` are identified with their representatives
  have E1 : ∀ u ∈ X.ins, EqvOn (bendPre W sf.ins sf.outs X).n (substR W (dbl S) (dbl Tt) X)
      (c' u) (W.length + u) := by
    intro u hu
    obtain ⟨k, h2, rfl⟩ := List.getElem_of_mem hu
    have h1 : k < (dbl S).length := by rw [dbl_length, ← hXi]; exact h2
    have e : c' X.ins[k] = (dbl S)[k] := by
      have := congrArg (fun l => l[k]?) F1
      simp only [List.getElem?_map, List.getElem?_eq_getElem h2, List.getElem?_eq_getElem h1,
        Option.map_some] at this
      exact Option.some.inj this
    rw [e]
    refine EqvOn.of_rel ?_ ?_ (Or.inl ⟨k, List.getElem?_eq_getElem h1, ?_⟩)
    · rw [hPn]; have := dbl_lt S S_lt _ (List.getElem_mem h1); omega
    · rw [hPn]; have := x1 _ (List.getElem_mem h2); omega
    · rw [List.getElem?_eq_getElem h2]; rfl
  have E2 : ∀ u ∈ X.outs, EqvOn (bendPre W sf.ins sf.outs X).n (substR W (dbl S) (dbl Tt) X)
      (c' u) (W.length + u) := by
    intro u hu
    obtain ⟨k, h2, rfl⟩ := List.getElem_of_mem hu
    have h1 : k < (dbl Tt).length := by rw [dbl_length, ← hXo]; exact h2
    have e : c' X.outs[k] = (dbl Tt)[k] := by
      have := congrArg (fun l => l[k]?) F2
      simp only [List.getElem?_map, List.getElem?_eq_getElem h2, List.getElem?_eq_getElem h1,
        Option.map_some] at this
      exact Option.some.inj this
    rw [e]
    refine EqvOn.of_rel ?_ ?_ (Or.inr ⟨k, List.getElem?_eq_getElem h1, ?_⟩)
    · rw [hPn]; have := dbl_lt Tt T_lt _ (List.getElem_mem h1); omega
    · rw [hPn]; have := x2 _ (List.getElem_mem h2); omega
    · rw [List.getElem?_eq_getElem h2]; rfl
  have pre_ins : ∀ a ∈ dbl S, ∃ u ∈ X.ins, c' u = a := by
    intro a ha; rw [← F1] at ha; exact List.mem_map.1 ha
  have pre_outs : ∀ a ∈ dbl Tt, ∃ u ∈ X.outs, c' u = a := by
    intro a ha; rw [← F2] at ha; exact List.mem_map.1 ha
  have mem_dbl0 : ∀ (l : List Nat) v, v ∈ l → 2 * v ∈ dbl l := by
    intro l v hv
    rw [dbl_eq_flatMap]; exact List.mem_flatMap.2 ⟨v, hv, by simp⟩
  have mem_dbl1 : ∀ (l : List Nat) v, v ∈ l → 2 * v + 1 ∈ dbl l := by
    intro l v hv
    rw [dbl_eq_flatMap]; exact List.mem_flatMap.2 ⟨v, hv, by simp⟩
  have tgt_mem : ∀ u, u ∈ (unbend X).outs → W.length + u ∈ writers (bendPre W sf.ins sf.outs X) := by
    intro u hu
    rw [hwr]
    exact List.mem_append_right _ (List.mem_map.2 ⟨u, pT.mem_iff.2 (List.mem_append_left _ hu), rfl⟩)
  have src_mem : ∀ u, u ∈ (unbend X).ins → W.length + u ∈ readers (bendPre W sf.ins sf.outs X) := by
    intro u hu
    rw [hrd]
    exact List.mem_append_right _ (List.mem_map.2 ⟨u, pS.mem_iff.2 (List.mem_append_left _ hu), rfl⟩)
  -- forward / reverse copies are identified with written and with read positions
  have Fw : ∀ v, v < sf.n → ∃ j ∈ writers (bendPre W sf.ins sf.outs X),
      EqvOn (bendPre W sf.ins sf.outs X).n (substR W (dbl S) (dbl Tt) X) (2 * v) j := by
    intro v hv
    have : v ∈ writers sf := pWs.mem_iff.2 (List.mem_range.2 hv)
    rw [hwS] at this
    rcases List.mem_append.1 this with h1 | h1
    · refine ⟨2 * v, ?_, EqvGen.refl _⟩
      rw [hwr]
      exact List.mem_append_left _ (List.mem_append_left _ (List.mem_map.2 ⟨v, h1, rfl⟩))
    · obtain ⟨u, hu, hcu⟩ := pre_outs _ (mem_dbl0 Tt v h1)
      refine ⟨W.length + u, tgt_mem u (List.mem_append_left _ (outs_even u hu (by omega))), ?_⟩
      rw [← hcu]; exact E2 u hu
  have Rw : ∀ v, v < sf.n → ∃ j ∈ writers (bendPre W sf.ins sf.outs X),
      EqvOn (bendPre W sf.ins sf.outs X).n (substR W (dbl S) (dbl Tt) X) (2 * v + 1) j := by
    intro v hv
    have : v ∈ readers sf := pRs.mem_iff.2 (List.mem_range.2 hv)
    rw [hrS] at this
    rcases List.mem_append.1 this with h1 | h1
    · refine ⟨2 * v + 1, ?_, EqvGen.refl _⟩
      rw [hwr]
      exact List.mem_append_left _ (List.mem_append_right _ (List.mem_map.2 ⟨v, h1, rfl⟩))
    · obtain ⟨u, hu, hcu⟩ := pre_ins _ (mem_dbl1 S v h1)
      refine ⟨W.length + u, tgt_mem u (List.mem_append_right _ (ins_odd u hu (by omega))), ?_⟩
      rw [← hcu]; exact E1 u hu
  have Fr : ∀ v, v < sf.n → ∃ j ∈ readers (bendPre W sf.ins sf.outs X),
      EqvOn (bendPre W sf.ins sf.outs X).n (substR W (dbl S) (dbl Tt) X) (2 * v) j := by
    intro v hv
    have : v ∈ readers sf := pRs.mem_iff.2 (List.mem_range.2 hv)
    rw [hrS] at this
    rcases List.mem_append.1 this with h1 | h1
    · refine ⟨2 * v, ?_, EqvGen.refl _⟩
      rw [hrd]
      exact List.mem_append_left _ (List.mem_append_left _ (List.mem_map.2 ⟨v, h1, rfl⟩))
    · obtain ⟨u, hu, hcu⟩ := pre_ins _ (mem_dbl0 S v h1)
      refine ⟨W.length + u, src_mem u (List.mem_append_left _ (ins_even u hu (by omega))), ?_⟩
      rw [← hcu]; exact E1 u hu
  have Rr : ∀ v, v < sf.n → ∃ j ∈ readers (bendPre W sf.ins sf.outs X),
      EqvOn (bendPre W sf.ins sf.outs X).n (substR W (dbl S) (dbl Tt) X) (2 * v + 1) j := by
    intro v hv
    have : v ∈ writers sf := pWs.mem_iff.2 (List.mem_range.2 hv)
    rw [hwS] at this
    rcases List.mem_append.1 this with h1 | h1
    · refine ⟨2 * v + 1, ?_, EqvGen.refl _⟩
      rw [hrd]
      exact List.mem_append_left _ (List.mem_append_right _ (List.mem_map.2 ⟨v, h1, rfl⟩))
    · obtain ⟨u, hu, hcu⟩ := pre_outs _ (mem_dbl1 Tt v h1)
      refine ⟨W.length + u, src_mem u (List.mem_append_right _ (outs_odd u hu (by omega))), ?_⟩
      rw [← hcu]; exact E2 u hu
  have trans' : ∀ {a b : Nat} {l : List Nat},
      EqvOn (bendPre W sf.ins sf.outs X).n (substR W (dbl S) (dbl Tt) X) a b →
      (∃ j ∈ l, EqvOn (bendPre W sf.ins sf.outs X).n (substR W (dbl S) (dbl Tt) X) b j) →
      ∃ j ∈ l, EqvOn (bendPre W sf.ins sf.outs X).n (substR W (dbl S) (dbl Tt) X) a j :=
    fun h1 ⟨j, hj, h2⟩ => ⟨j, hj, EqvGen.trans _ _ _ h1 h2⟩
  apply monogamous_of_presentation hP h lab lab hresp hresp
  · -- writers are separated
    rw [hwr, List.map_append, tgts_lab, insP_lab _ (by
      intro v hv
      rcases List.mem_append.1 hv with h1 | h1
      · exact (ev_lt _ ins_lt v h1).2
      · exact (od_lt _ outs_lt v h1).2)]
    refine nodup_three (nodup_map_two nWs) (nodup_map_two' nRs) nI
      (ev_lt _ (writers_lt hsf)) (od_lt _ (readers_lt hsf)) hIr ?_
    intro v
    rw [List.count_append, (pT.map c').count_eq, List.map_append, hOm, hInt, hwS, hrS]
    simp only [List.count_append, List.map_append]
    omega
  · -- readers are separated
    rw [hrd, List.map_append, srcs_lab, insP_lab _ (by
      intro v hv
      rcases List.mem_append.1 hv with h1 | h1
      · exact (ev_lt _ outs_lt v h1).2
      · exact (od_lt _ ins_lt v h1).2)]
    refine nodup_three (nodup_map_two nRs) (nodup_map_two' nWs) nI
      (ev_lt _ (readers_lt hsf)) (od_lt _ (writers_lt hsf)) hIr ?_
    intro v
    rw [List.count_append, (pS.map c').count_eq, List.map_append, hIm, hInt, hwS, hrS]
    simp only [List.count_append, List.map_append]
    omega
  · -- every node is identified with a written one
    intro i hi
    rw [hPn] at hi
    by_cases hlt : i < W.length
    · rcases Nat.mod_two_eq_zero_or_one i with hp | hp
      · have : i = 2 * (i / 2) := by omega
        rw [this]; exact Fw _ (by omega)
      · have : i = 2 * (i / 2) + 1 := by omega
        rw [this]; exact Rw _ (by omega)
    · have ei : i = W.length + (i - W.length) := by omega
      have hu : i - W.length ∈ writers (unbend X) := pWX.mem_iff.2 (List.mem_range.2 (by
        show i - W.length < X.n; omega))
      rw [ei]
      rcases List.mem_append.1 hu with h1 | h1
      · rcases List.mem_append.1 h1 with h2 | h2
        · have hm := mem_evens_odds.2 (Or.inl h2)
          have : c' (i - W.length) ∈ (evens X.ins).map c' := List.mem_map.2 ⟨_, h2, rfl⟩
          rw [← evens_map, F1, evens_dbl] at this
          obtain ⟨w, hw, hcw⟩ := List.mem_map.1 this
          refine trans' (EqvGen.symm _ _ (E1 _ hm)) ?_
          rw [← hcw]; exact Fw w (S_lt w hw)
        · have hm := mem_evens_odds.2 (Or.inr h2)
          have : c' (i - W.length) ∈ (odds X.outs).map c' := List.mem_map.2 ⟨_, h2, rfl⟩
          rw [← odds_map, F2, odds_dbl] at this
          obtain ⟨w, hw, hcw⟩ := List.mem_map.1 this
          refine trans' (EqvGen.symm _ _ (E2 _ hm)) ?_
          rw [← hcw]; exact Rw w (T_lt w hw)
      · refine ⟨_, ?_, EqvGen.refl _⟩
        rw [hwr]
        exact List.mem_append_right _ (List.mem_map.2 ⟨_, h1, rfl⟩)
  · -- … and with a read one
    intro i hi
    rw [hPn] at hi
    by_cases hlt : i < W.length
    · rcases Nat.mod_two_eq_zero_or_one i with hp | hp
      · have : i = 2 * (i / 2) := by omega
        rw [this]; exact Fr _ (by omega)
      · have : i = 2 * (i / 2) + 1 := by omega
        rw [this]; exact Rr _ (by omega)
    · have ei : i = W.length + (i - W.length) := by omega
      have hu : i - W.length ∈ readers (unbend X) := pRX.mem_iff.2 (List.mem_range.2 (by
        show i - W.length < X.n; omega))
      rw [ei]
      rcases List.mem_append.1 hu with h1 | h1
      · rcases List.mem_append.1 h1 with h2 | h2
        · have hm := mem_evens_odds.2 (Or.inl h2)
          have : c' (i - W.length) ∈ (evens X.outs).map c' := List.mem_map.2 ⟨_, h2, rfl⟩
          rw [← evens_map, F2, evens_dbl] at this
          obtain ⟨w, hw, hcw⟩ := List.mem_map.1 this
          refine trans' (EqvGen.symm _ _ (E2 _ hm)) ?_
          rw [← hcw]; exact Fr w (T_lt w hw)
        · have hm := mem_evens_odds.2 (Or.inr h2)
          have : c' (i - W.length) ∈ (odds X.ins).map c' := List.mem_map.2 ⟨_, h2, rfl⟩
          rw [← odds_map, F1, odds_dbl] at this
          obtain ⟨w, hw, hcw⟩ := List.mem_map.1 this
          refine trans' (EqvGen.symm _ _ (E1 _ hm)) ?_
          rw [← hcw]; exact Rr w (S_lt w hw)
      · refine ⟨_, ?_, EqvGen.refl _⟩
        rw [hrd]
        exact List.mem_append_right _ (List.mem_map.2 ⟨_, h1, rfl⟩)

end bend

/-! ## Part V: rankings (acyclicity certificates) -/

/-- the hyperedge predicate of a ranking: every source ranks strictly below every target -/
def rankΦ : A → List Nat → List Nat → Prop := fun _ xs ys => ∀ x ∈ xs, ∀ y ∈ ys, x < y

theorem rank_nodeStep {d : PDiag O A} {rk : Nat → Nat} (h : Lab rankΦ d rk) {v w : Nat}
    (hs : nodeStep d v w) : rk v < rk w := by
  obtain ⟨e, he, hv, hw⟩ := hs
  exact h e he _ (List.mem_map.2 ⟨v, hv, rfl⟩) _ (List.mem_map.2 ⟨w, hw, rfl⟩)

/-- a ranking certifies acyclicity -/
theorem acyclic_of_rank {d : PDiag O A} {rk : Nat → Nat} (h : Lab rankΦ d rk) : Acyclic d := by
  rintro ⟨v, hv⟩
  have hmono : ∀ a b, TransGen (nodeStep d) a b → rk a < rk b := by
    intro a b hab
    induction hab with
    | single h1 => exact rank_nodeStep h h1
    | tail _ h2 ih => exact Nat.lt_trans ih (rank_nodeStep h h2)
  exact Nat.lt_irrefl _ (hmono v v hv)

def listMax (l : List Nat) : Nat := l.foldr max 0

theorem le_listMax {l : List Nat} {x : Nat} (h : x ∈ l) : x ≤ listMax l := by
  induction l with
  | nil => cases h
  | cons y l ih =>
    simp only [listMax, List.foldr_cons]
    rcases List.mem_cons.1 h with rfl | h
    · exact Nat.le_max_left _ _
    · exact Nat.le_trans (ih h) (Nat.le_max_right _ _)

theorem listMax_le {l : List Nat} {B : Nat} (h : ∀ x ∈ l, x ≤ B) : listMax l ≤ B := by
  induction l with
  | nil => exact Nat.zero_le _
  | cons y l ih =>
    simp only [listMax, List.foldr_cons]
    exact Nat.max_le.2 ⟨h y (by simp), ih (fun x hx => h x (by simp [hx]))⟩

/-- an acyclic well-formed diagram has a ranking of its nodes -/
theorem exists_rank_of_acyclic {d : PDiag O A} (hac : Acyclic d) :
    ∃ ν : Nat → Nat, Lab rankΦ d ν := by
  classical
  obtain ⟨lay, hlay⟩ := Eval.exists_lay_of_noCycle d (noCycle_of_acyclic hac)
  let contrib : Nat → Nat → Nat := fun v j =>
    match d.edges[j]? with
    | some e => if v ∈ e.tgt then lay j + 1 else 0
    | none => 0
  let ν : Nat → Nat := fun v => listMax ((List.range d.edges.length).map (contrib v))
  refine ⟨ν, ?_⟩
  intro e he x hx y hy
  obtain ⟨u, hu, rfl⟩ := List.mem_map.1 hx
  obtain ⟨w, hw, rfl⟩ := List.mem_map.1 hy
  obtain ⟨j, hj, rfl⟩ := List.getElem_of_mem he
  have hje : d.edges[j]? = some d.edges[j] := List.getElem?_eq_getElem hj
  have h1 : lay j + 1 ≤ ν w := by
    apply le_listMax
    refine List.mem_map.2 ⟨j, List.mem_range.2 hj, ?_⟩
    show (match d.edges[j]? with | some e => if w ∈ e.tgt then lay j + 1 else 0 | none => 0) = _
    rw [hje]
    simp [hw]
  have h2 : ν u ≤ lay j := by
    apply listMax_le
    intro c hc
    obtain ⟨j', hj', rfl⟩ := List.mem_map.1 hc
    have hj'' := List.mem_range.1 hj'
    show (match d.edges[j']? with | some e => if u ∈ e.tgt then lay j' + 1 else 0 | none => 0) ≤ _
    rw [List.getElem?_eq_getElem hj'']
    simp only
    split
    · rename_i hut
      have := hlay j' j ⟨d.edges[j'], d.edges[j], u, List.getElem?_eq_getElem hj'', hje, hut, hu⟩
      omega
    · exact Nat.zero_le _
  omega

/-- **a component can be ranked with prescribed ranks on its interface**: for an acyclic diagram
    whose interface positions are distinct nodes, whose inputs are not written and whose outputs
    are not read by any hyperedge, there is a slack `K` such that any input ranks `≤ L` and any
    output ranks `> L + K` extend to a ranking -/
theorem den_rank_of_component {C : PDiag O A} (hwf : C.wf = true) (hac : Acyclic C)
    (hnd : (C.ins ++ C.outs).Nodup)
    (hin : ∀ e ∈ C.edges, ∀ v ∈ e.tgt, v ∉ C.ins) (hout : ∀ e ∈ C.edges, ∀ v ∈ e.src, v ∉ C.outs) :
    ∃ K, ∀ (a b : List Nat) (L : Nat), a.length = C.ins.length → b.length = C.outs.length →
      (∀ x ∈ a, x ≤ L) → (∀ y ∈ b, L + K < y) → Den rankΦ C a b := by
  obtain ⟨ν, hν⟩ := exists_rank_of_acyclic hac
  obtain ⟨_, _, h3⟩ := Eval.pdiag_wf_unpack hwf
  have hnI : C.ins.Nodup := (List.nodup_append.1 hnd).1
  have hnO : C.outs.Nodup := (List.nodup_append.1 hnd).2.1
  have hdisj : ∀ v ∈ C.outs, v ∉ C.ins := fun v ho hi => (List.nodup_append.1 hnd).2.2 v hi v ho rfl
  refine ⟨listMax ((List.range C.n).map ν) + 1, ?_⟩
  intro a b L ha hb hla hlb
  let rk : Nat → Nat := fun v =>
    if v ∈ C.ins then a.getD (C.ins.idxOf v) 0
    else if v ∈ C.outs then b.getD (C.outs.idxOf v) 0 else L + 1 + ν v
  have rk_in : ∀ v ∈ C.ins, rk v ≤ L := by
    intro v hv
    show (if v ∈ C.ins then _ else _) ≤ _
    rw [if_pos hv]
    have hk : C.ins.idxOf v < a.length := by rw [ha]; exact List.idxOf_lt_length_iff.2 hv
    rw [List.getD_eq_getElem?_getD, List.getElem?_eq_getElem hk]
    exact hla _ (List.getElem_mem hk)
  have rk_out : ∀ v ∈ C.outs, L + (listMax ((List.range C.n).map ν) + 1) < rk v := by
    intro v hv
    show _ < (if v ∈ C.ins then _ else _)
    rw [if_neg (hdisj v hv), if_pos hv]
    have hk : C.outs.idxOf v < b.length := by rw [hb]; exact List.idxOf_lt_length_iff.2 hv
    rw [List.getD_eq_getElem?_getD, List.getElem?_eq_getElem hk]
    exact hlb _ (List.getElem_mem hk)
  have rk_int : ∀ v, v ∉ C.ins → v ∉ C.outs → rk v = L + 1 + ν v := by
    intro v h1 h2
    show (if v ∈ C.ins then _ else _) = _
    rw [if_neg h1, if_neg h2]
  refine ⟨rk, ?_, ?_, ?_⟩
  · intro e he x hx y hy
    obtain ⟨u, hu, rfl⟩ := List.mem_map.1 hx
    obtain ⟨w, hw, rfl⟩ := List.mem_map.1 hy
    have huo := hout e he u hu
    have hwi := hin e he w hw
    have hνuw := hν e he _ (List.mem_map.2 ⟨u, hu, rfl⟩) _ (List.mem_map.2 ⟨w, hw, rfl⟩)
    have hνu : ν u ≤ listMax ((List.range C.n).map ν) :=
      le_listMax (List.mem_map.2 ⟨u, List.mem_range.2 ((h3 e he).1 u hu), rfl⟩)
    by_cases hui : u ∈ C.ins
    · have h1 := rk_in u hui
      by_cases hwo : w ∈ C.outs
      · have := rk_out w hwo; omega
      · rw [rk_int w hwi hwo]; omega
    · rw [rk_int u hui huo]
      by_cases hwo : w ∈ C.outs
      · have := rk_out w hwo; omega
      · rw [rk_int w hwi hwo]; omega
  · apply List.ext_getElem
    · rw [List.length_map, ha]
    · intro k h1 h2
      simp only [List.length_map] at h1
      rw [List.getElem_map]
      show (if C.ins[k] ∈ C.ins then _ else _) = _
      rw [if_pos (List.getElem_mem h1), hnI.idxOf_getElem k h1]
      simp [List.getD_eq_getElem?_getD, List.getElem?_eq_getElem h2]
  · apply List.ext_getElem
    · rw [List.length_map, hb]
    · intro k h1 h2
      simp only [List.length_map] at h1
      rw [List.getElem_map]
      show (if C.outs[k] ∈ C.ins then _ else _) = _
      rw [if_neg (hdisj _ (List.getElem_mem h1)), if_pos (List.getElem_mem h1),
        hnO.idxOf_getElem k h1]
      simp [List.getD_eq_getElem?_getD, List.getElem?_eq_getElem h2]

/-! ## Part VI: substitution and (un)bending, semantically -/

section
variable {Φ : A → List T → List T → Prop}

theorem lab_shift (E : List (PEdge A)) (n : Nat) (lab : Nat → T) (N : List O) (i o : List Nat) :
    Lab Φ (⟨N, E.map (PEdge.mapNodes (n + ·)), i, o⟩ : PDiag O A) lab ↔
      ∀ e ∈ E, Φ e.label (e.src.map (fun j => lab (n + j))) (e.tgt.map (fun j => lab (n + j))) := by
  unfold Lab
  simp only [List.mem_map]
  constructor
  · intro h e he
    have := h _ ⟨e, he, rfl⟩
    simpa [PEdge.mapNodes, List.map_map, Function.comp_def] using this
  · rintro h e ⟨e0, he0, rfl⟩
    have := h e0 he0
    simpa [PEdge.mapNodes, List.map_map, Function.comp_def] using this

/-- **substitution**: the relation denoted by a quotient of the substitution presentation -/
theorem den_subst {W : List O} {fs ft es et : List Nat} {X r : PDiag O A} (hX : X.wf = true)
    (hfs : ∀ v ∈ fs, v < W.length) (hft : ∀ v ∈ ft, v < W.length)
    (hes : ∀ v ∈ es, v < W.length) (het : ∀ v ∈ et, v < W.length)
    (les : es.length = X.ins.length) (let' : et.length = X.outs.length)
    (h : IsQuot (substP W fs ft X) (substR W es et X) r) (a b : List T) :
    Den Φ r a b ↔ ∃ labW : Nat → T, Den Φ X (es.map labW) (et.map labW) ∧
      fs.map labW = a ∧ ft.map labW = b := by
  obtain ⟨x1, x2, _⟩ := Eval.pdiag_wf_unpack hX
  have hn : (substP W fs ft X).n = W.length + X.n := substP_n W fs ft X
  rw [den_quot (substP_wf hX hfs hft) h]
  constructor
  · rintro ⟨lab, hl, hR, ha, hb⟩
    refine ⟨lab, ⟨fun u => lab (W.length + u), (lab_shift _ _ _ _ _ _).1 hl, ?_, ?_⟩, ha, hb⟩
    · apply List.ext_getElem
      · simp [les]
      · intro k h1 h2
        simp only [List.length_map] at h1 h2
        simp only [List.getElem_map]
        symm
        apply hR
        · rw [hn]; have := hes _ (List.getElem_mem h2); omega
        · rw [hn]; have := x1 _ (List.getElem_mem h1); omega
        · exact Or.inl ⟨k, List.getElem?_eq_getElem h2, by rw [List.getElem?_eq_getElem h1]; rfl⟩
    · apply List.ext_getElem
      · simp [let']
      · intro k h1 h2
        simp only [List.length_map] at h1 h2
        simp only [List.getElem_map]
        symm
        apply hR
        · rw [hn]; have := het _ (List.getElem_mem h2); omega
        · rw [hn]; have := x2 _ (List.getElem_mem h1); omega
        · exact Or.inr ⟨k, List.getElem?_eq_getElem h2, by rw [List.getElem?_eq_getElem h1]; rfl⟩
  · rintro ⟨labW, ⟨labX, hlX, hi, ho⟩, ha, hb⟩
    refine ⟨joinLab W.length labW labX, ?_, ?_, ?_, ?_⟩
    · rw [show substP W fs ft X = ⟨W ++ X.nodes, X.edges.map (PEdge.mapNodes (W.length + ·)), fs, ft⟩
        from rfl, lab_shift]
      intro e he
      have : (fun j => joinLab W.length labW labX (W.length + j)) = labX :=
        funext (joinLab_right _ _ _)
      rw [this]
      exact hlX e he
    · rintro i j _ _ (⟨k, hk1, hk2⟩ | ⟨k, hk1, hk2⟩)
      · cases hv : X.ins[k]? with
        | none => rw [hv] at hk2; cases hk2
        | some v =>
          rw [hv] at hk2
          have hj : j = W.length + v := (Option.some.inj hk2).symm
          rw [hj, joinLab_right, joinLab_left (hes i (List.mem_of_getElem? hk1))]
          have e1 : (es.map labW)[k]? = some (labW i) := by rw [List.getElem?_map, hk1]; rfl
          have e2 : (X.ins.map labX)[k]? = some (labX v) := by rw [List.getElem?_map, hv]; rfl
          rw [hi, e1] at e2
          exact Option.some.inj e2
      · cases hv : X.outs[k]? with
        | none => rw [hv] at hk2; cases hk2
        | some v =>
          rw [hv] at hk2
          have hj : j = W.length + v := (Option.some.inj hk2).symm
          rw [hj, joinLab_right, joinLab_left (het i (List.mem_of_getElem? hk1))]
          have e1 : (et.map labW)[k]? = some (labW i) := by rw [List.getElem?_map, hk1]; rfl
          have e2 : (X.outs.map labX)[k]? = some (labX v) := by rw [List.getElem?_map, hv]; rfl
          rw [ho, e1] at e2
          exact Option.some.inj e2
    · rw [← ha]
      exact List.map_congr_left (fun v hv => joinLab_left (hfs v hv))
    · rw [← hb]
      exact List.map_congr_left (fun v hv => joinLab_left (hft v hv))

/-- **unbending**: reading the odd input positions as outputs and the odd output positions as
    inputs -/
theorem den_unbend (D : PDiag O A) (a1 a2 b1 b2 : List T) (h1 : a1.length = a2.length)
    (h2 : b1.length = b2.length) (hi : D.ins.length = 2 * a1.length)
    (ho : D.outs.length = 2 * b1.length) :
    Den Φ (unbend D) (a1 ++ b2) (b1 ++ a2) ↔ Den Φ D (il2 a1 a2) (il2 b1 b2) := by
  constructor
  · rintro ⟨lab, hl, ha, hb⟩
    refine ⟨lab, hl, ?_, ?_⟩
    · have e1 : (unbend D).ins.map lab = evens (D.ins.map lab) ++ odds (D.outs.map lab) := by
        show (evens D.ins ++ odds D.outs).map lab = _
        rw [List.map_append, evens_map, odds_map]
      have e2 : (unbend D).outs.map lab = evens (D.outs.map lab) ++ odds (D.ins.map lab) := by
        show (evens D.outs ++ odds D.ins).map lab = _
        rw [List.map_append, evens_map, odds_map]
      rw [e1] at ha
      rw [e2] at hb
      obtain ⟨p1, p2⟩ := List.append_inj ha (by
        rw [evens_length _ a1.length (by rw [List.length_map]; exact hi)])
      obtain ⟨p3, p4⟩ := List.append_inj hb (by
        rw [evens_length _ b1.length (by rw [List.length_map]; exact ho)])
      rw [← il2_evens_odds (D.ins.map lab) a1.length (by rw [List.length_map]; exact hi), p1, p4]
    · have e1 : (unbend D).ins.map lab = evens (D.ins.map lab) ++ odds (D.outs.map lab) := by
        show (evens D.ins ++ odds D.outs).map lab = _
        rw [List.map_append, evens_map, odds_map]
      have e2 : (unbend D).outs.map lab = evens (D.outs.map lab) ++ odds (D.ins.map lab) := by
        show (evens D.outs ++ odds D.ins).map lab = _
        rw [List.map_append, evens_map, odds_map]
      rw [e1] at ha
      rw [e2] at hb
      obtain ⟨p1, p2⟩ := List.append_inj ha (by
        rw [evens_length _ a1.length (by rw [List.length_map]; exact hi)])
      obtain ⟨p3, p4⟩ := List.append_inj hb (by
        rw [evens_length _ b1.length (by rw [List.length_map]; exact ho)])
      rw [← il2_evens_odds (D.outs.map lab) b1.length (by rw [List.length_map]; exact ho), p3, p2]
  · rintro ⟨lab, hl, ha, hb⟩
    refine ⟨lab, hl, ?_, ?_⟩
    · show (evens D.ins ++ odds D.outs).map lab = _
      rw [List.map_append, ← evens_map, ← odds_map, ha, hb, evens_il2 _ _ h1, odds_il2 _ _ h2]
    · show (evens D.outs ++ odds D.ins).map lab = _
      rw [List.map_append, ← evens_map, ← odds_map, ha, hb, evens_il2 _ _ h2, odds_il2 _ _ h1]

end

theorem unbend_quot {P r : PDiag O A} {R : Nat → Nat → Prop} (h : IsQuot P R r) :
    IsQuot (unbend P) R (unbend r) := by
  obtain ⟨q, h1, h2, h3, h4, h5, h6, h7⟩ := h
  refine ⟨q, h1, h2, h3, h4, h5, ?_, ?_⟩
  · show evens r.ins ++ odds r.outs = (evens P.ins ++ odds P.outs).map q
    rw [h6, h7, List.map_append, evens_map, odds_map]
  · show evens r.outs ++ odds r.ins = (evens P.outs ++ odds P.ins).map q
    rw [h6, h7, List.map_append, evens_map, odds_map]

theorem unbend_iso {X X' : PDiag O A} (h : X ≅ X') : unbend X ≅ unbend X' := by
  obtain ⟨π, ρ, h1, h2, h3, h4, h5, h6⟩ := h
  refine ⟨π, ρ, h1, h2, h3, h4, ?_, ?_⟩
  · show evens X'.ins ++ odds X'.outs = (evens X.ins ++ odds X.outs).map π
    rw [h5, h6, List.map_append, evens_map, odds_map]
  · show evens X'.outs ++ odds X'.ins = (evens X.outs ++ odds X.ins).map π
    rw [h5, h6, List.map_append, evens_map, odds_map]

theorem unbend_substP (W : List O) (i o : List Nat) (X : PDiag O A) :
    unbend (substP W (dbl i) (dbl o) X) = bendPre W i o X := by
  simp [unbend, substP, bendPre, evens_dbl, odds_dbl]

theorem unbend_wf {X : PDiag O A} (hX : X.wf = true) : (unbend X).wf = true := by
  obtain ⟨x1, x2, x3⟩ := Eval.pdiag_wf_unpack hX
  refine (PDiag.wf_iff _).2 ⟨?_, ?_, x3⟩
  · intro v hv
    rcases List.mem_append.1 hv with h1 | h1
    · exact x1 v (mem_evens_odds.2 (Or.inl h1))
    · exact x2 v (mem_evens_odds.2 (Or.inr h1))
  · intro v hv
    rcases List.mem_append.1 hv with h1 | h1
    · exact x2 v (mem_evens_odds.2 (Or.inl h1))
    · exact x1 v (mem_evens_odds.2 (Or.inr h1))

/-! ## Part VII: the model operations, semantically -/

section
variable {Φ : A → List T → List T → Prop}

theorem den_length {d : PDiag O A} {a b : List T} (h : Den Φ d a b) :
    a.length = d.ins.length ∧ b.length = d.outs.length := by
  obtain ⟨lab, _, ha, hb⟩ := h
  rw [← ha, ← hb]; simp

theorem gatherP_eq_map (u : List T) (t : List Nat) (lab : Nat → T)
    (hu : ∀ i, i < u.length → u[i]? = some (lab i)) (ht : ∀ i ∈ t, i < u.length) :
    Prim.gatherP u t = t.map lab := by
  unfold Prim.gatherP
  induction t with
  | nil => rfl
  | cons i t ih =>
    rw [List.filterMap_cons, hu i (ht i (by simp))]
    simp only [List.map_cons]
    rw [ih (fun j hj => ht j (by simp [hj]))]

/-- a discrete diagram whose source leg is the identity reads its inputs through its target leg -/
theorem den_spider_range [Inhabited T] (w : List O) (N : Nat) (t : List Nat)
    (ht : ∀ i ∈ t, i < N) (u v : List T) :
    Den Φ (⟨w, [], List.range N, t⟩ : PDiag O A) u v ↔ u.length = N ∧ v = Prim.gatherP u t := by
  rw [den_discrete]
  constructor
  · rintro ⟨lab, hu, hv⟩
    have hl : u.length = N := by rw [← hu]; simp
    refine ⟨hl, ?_⟩
    rw [← hv]
    symm
    apply gatherP_eq_map
    · intro i hi
      rw [← hu, List.getElem?_map, List.getElem?_range (hl ▸ hi)]; rfl
    · intro i hi; rw [hl]; exact ht i hi
  · rintro ⟨hl, rfl⟩
    refine ⟨fun i => u.getD i default, ?_, ?_⟩
    · apply List.ext_getElem
      · simp [hl]
      · intro i h1 h2
        simp [List.getD_eq_getElem?_getD, List.getElem?_eq_getElem h2]
    · symm
      apply gatherP_eq_map
      · intro i hi
        simp [List.getD_eq_getElem?_getD, List.getElem?_eq_getElem hi]
      · intro i hi; rw [hl]; exact ht i hi

theorem den_spider_range' [Inhabited T] (w : List O) (N : Nat) (t : List Nat)
    (ht : ∀ i ∈ t, i < N) (u v : List T) :
    Den Φ (⟨w, [], t, List.range N⟩ : PDiag O A) v u ↔ u.length = N ∧ v = Prim.gatherP u t := by
  rw [← den_spider_range (Φ := Φ) w N t ht u v, den_discrete, den_discrete]
  constructor
  · rintro ⟨lab, h1, h2⟩; exact ⟨lab, h2, h1⟩
  · rintro ⟨lab, h1, h2⟩; exact ⟨lab, h2, h1⟩

end

/-- sequential composition in the model: defined on matching types, well-typed, and everything
    about its plain diagram that the semantic lemmas need -/
theorem compose_sem [DecidableEq O] (B : Backend) (hB : B.Lawful) {f g : OHG O A}
    {X Y Z : List O} (hf : HasType f X Y) (hg : HasType g Y Z) :
    ∃ r, OHG.compose B f g = .ok r ∧ HasType r X Z ∧ r.h.x = f.h.x ++ g.h.x ∧
      IsGluing f.toPlain g.toPlain r.toPlain ∧
      (∀ (T : Type) (Φ : A → List T → List T → Prop) (a c : List T),
        Den Φ r.toPlain a c ↔ ∃ b, Den Φ f.toPlain a b ∧ Den Φ g.toPlain b c) ∧
      (Monogamous f.toPlain → Monogamous g.toPlain → Monogamous r.toPlain) := by
  obtain ⟨r, hr, hty, hx⟩ := compose_hasType B hB hf hg
  have wf' : f.wf = true := (OHG.wf_iff f).2 hf.1
  have wg' : g.wf = true := (OHG.wf_iff g).2 hg.1
  have hglue := (C01.compose_isGluing B hB f g r wf' wg' hr).1
  have hlen : f.toPlain.outs.length = g.toPlain.ins.length := by
    rw [C03.plain_outs_length wf' hf.2.2, C03.plain_ins_length wg' hg.2.1]
  refine ⟨r, hr, hty, hx, hglue, ?_, ?_⟩
  · intro T Φ a c
    exact den_glue (C03.wfP wf') (C03.wfP wg') hlen hglue a c
  · intro mf mg
    exact monogamous_glue (C03.wfP wf') (C03.wfP wg') hlen mf mg hglue

/-- parallel composition in the model -/
theorem tensor_sem {f g : OHG O A} {X Y X' Y' : List O} (hf : HasType f X Y)
    (hg : HasType g X' Y') :
    ∃ r, OHG.tensor f g = .ok r ∧ HasType r (X ++ X') (Y ++ Y') ∧ r.h.x = f.h.x ++ g.h.x ∧
      r.toPlain = PDiag.juxt f.toPlain g.toPlain ∧
      (∀ (T : Type) (Φ : A → List T → List T → Prop) (a b : List T),
        Den Φ r.toPlain a b ↔ ∃ a1 a2 b1 b2, a = a1 ++ a2 ∧ b = b1 ++ b2 ∧
          Den Φ f.toPlain a1 b1 ∧ Den Φ g.toPlain a2 b2) ∧
      (Monogamous f.toPlain → Monogamous g.toPlain → Monogamous r.toPlain) := by
  obtain ⟨r, hr, hty, hx⟩ := tensor_hasType hf hg
  have wf' : f.wf = true := (OHG.wf_iff f).2 hf.1
  have wg' : g.wf = true := (OHG.wf_iff g).2 hg.1
  have hp := C02.tensor_toPlain f g r wf' hr
  refine ⟨r, hr, hty, hx, hp, ?_, ?_⟩
  · intro T Φ a b
    rw [hp]
    exact den_juxt (C03.wfP wf') a b
  · intro mf mg
    rw [hp]
    exact monogamous_juxt (C03.wfP wf') (C03.wfP wg') mf mg

/-- identities in the model -/
theorem identity_sem (w : List O) :
    ∃ r : OHG O A, OHG.identity w = .ok r ∧ HasType r w w ∧ r.h.x = [] ∧
      r.toPlain = ⟨w, [], List.range w.length, List.range w.length⟩ ∧
      (∀ (T : Type) (Φ : A → List T → List T → Prop) (a b : List T),
        Den Φ r.toPlain a b → a = b) ∧
      (∀ (T : Type) [Inhabited T] (Φ : A → List T → List T → Prop) (a : List T),
        a.length = w.length → Den Φ r.toPlain a a) ∧
      Monogamous r.toPlain := by
  obtain ⟨r, hr, hty, hx⟩ := identity_hasType (A := A) w
  obtain ⟨r', hr', _, _, _, hp⟩ := C03.identity_facts (A := A) w
  rw [hr] at hr'
  cases hr'
  refine ⟨r, hr, hty, hx, hp, ?_, ?_, ?_⟩
  · intro T Φ a b h
    rw [hp] at h
    obtain ⟨lab, _, ha, hb⟩ := h
    rw [← ha, ← hb]
  · intro T _ Φ a ha
    rw [hp]
    exact (den_spider_range w w.length (List.range w.length) (fun i hi => List.mem_range.1 hi) a a).2
      ⟨ha, by
        rw [← ha, Optic.gatherP_range_take, List.take_length]⟩
  · rw [hp]
    exact monogamous_discrete (List.Perm.refl _) (List.Perm.refl _)

/-! ## Part VIII: interleavings -/

theorem il2_getElem? {α : Type} (xs ys : List α) (h : xs.length = ys.length) (k : Nat) :
    (il2 xs ys)[k]? = if k % 2 = 0 then xs[k / 2]? else ys[k / 2]? := by
  induction xs generalizing ys k with
  | nil => cases ys <;> simp_all [il2]
  | cons x xs ih =>
    cases ys with
    | nil => simp at h
    | cons y ys =>
      simp at h
      match k with
      | 0 => simp [il2]
      | 1 => simp [il2]
      | k + 2 =>
        simp only [il2, List.getElem?_cons_succ]
        rw [ih ys h k]
        have e1 : (k + 2) % 2 = k % 2 := by omega
        have e2 : (k + 2) / 2 = k / 2 + 1 := by omega
        rw [e1, e2]
        simp

theorem evens_getElem? {α : Type} : ∀ (l : List α) (i : Nat), (evens l)[i]? = l[2 * i]?
  | [], i => by simp [evens]
  | [x], i => by
    cases i with
    | zero => simp [evens]
    | succ i => simp [evens]
  | x :: y :: l, i => by
    cases i with
    | zero => simp [evens]
    | succ i =>
      simp only [evens, List.getElem?_cons_succ]
      rw [evens_getElem? l i]
      have : 2 * (i + 1) = 2 * i + 1 + 1 := by omega
      rw [this, List.getElem?_cons_succ, List.getElem?_cons_succ]

theorem odds_getElem? {α : Type} : ∀ (l : List α) (i : Nat), (odds l)[i]? = l[2 * i + 1]?
  | [], i => by simp [odds]
  | [x], i => by simp [odds]
  | x :: y :: l, i => by
    cases i with
    | zero => simp [odds]
    | succ i =>
      simp only [odds, List.getElem?_cons_succ]
      rw [odds_getElem? l i]
      have : 2 * (i + 1) = 2 * i + 1 + 1 := by omega
      rw [this, List.getElem?_cons_succ]

/-- the transposition table of `2 × n` is the alternation of `[0,n)` and `[n,2n)` -/
theorem trTable_eq_il2 (n : Nat) :
    trTable n = il2 (List.range n) ((List.range n).map (n + ·)) := by
  unfold trTable
  generalize List.range n = l
  induction l with
  | nil => rfl
  | cons k l ih => simp [il2, ih]

/-- with unit blocks the interleaving table is the transposition table -/
theorem ilTable_ones (n : Nat) : ilTable (List.replicate (n * 2) 1) n = trTable n := by
  unfold ilTable
  have : ∀ x ∈ trTable n, blockOf (List.replicate (n * 2) 1) x = [x] := by
    intro x hx
    have hlt := trTable_lt n x hx
    unfold blockOf
    have h1 : ((List.replicate (n * 2) 1).take x).sum = x := by
      rw [List.take_replicate, Nat.min_eq_left (Nat.le_of_lt hlt)]
      exact Subst.sum_replicate_one x
    have h2 : (List.replicate (n * 2) 1).getD x 0 = 1 := by
      simp [List.getD_eq_getElem?_getD, hlt]
    rw [h1, h2]; rfl
  rw [List.flatMap_congr this]
  simp [List.flatMap_singleton']

/-- the position of `v` in the transposition table -/
def trPos (n v : Nat) : Nat := if v < n then 2 * v else 2 * (v - n) + 1

theorem trTable_getElem? (n k : Nat) (hk : k < n * 2) :
    (trTable n)[k]? = some (if k % 2 = 0 then k / 2 else n + k / 2) := by
  rw [trTable_eq_il2, il2_getElem? _ _ (by simp)]
  have : k / 2 < n := by omega
  split
  · rw [List.getElem?_range this]
  · rw [List.getElem?_map, List.getElem?_range this]; rfl

theorem trTable_pos (n : Nat) :
    (∀ k v, (trTable n)[k]? = some v → trPos n v = k) ∧
    (∀ v, v < n * 2 → (trTable n)[trPos n v]? = some v) := by
  constructor
  · intro k v h
    have hk : k < n * 2 := by
      have := (List.getElem?_eq_some_iff.1 h).1
      rwa [trTable_length] at this
    rw [trTable_getElem? n k hk] at h
    have hv := Option.some.inj h
    unfold trPos
    split at hv
    · subst hv; rw [if_pos (by omega)]; omega
    · subst hv; rw [if_neg (by omega)]; omega
  · intro v hv
    unfold trPos
    split
    · rw [trTable_getElem? n _ (by omega), if_pos (by omega)]; congr 1; omega
    · rw [trTable_getElem? n _ (by omega), if_neg (by omega)]; congr 1; omega

/-- reading a list of length `2n` through the inverse of the transposition de-interleaves it -/
theorem map_trPos (n : Nat) (l : List Nat) (hl : l.length = n * 2) :
    (List.range (n * 2)).map (fun v => l.getD (trPos n v) 0) = evens l ++ odds l := by
  have he : (evens l).length = n := evens_length l n (by omega)
  have ho : (odds l).length = n := odds_length l n (by omega)
  apply List.ext_getElem?
  intro i
  by_cases hi : i < n * 2
  · rw [List.getElem?_map, List.getElem?_range hi]
    simp only [Option.map_some]
    by_cases hin : i < n
    · rw [List.getElem?_append_left (by omega), evens_getElem?]
      have : trPos n i = 2 * i := if_pos hin
      rw [this, List.getD_eq_getElem?_getD, List.getElem?_eq_getElem (by omega)]
      rfl
    · rw [List.getElem?_append_right (by omega), he, odds_getElem?]
      have : trPos n i = 2 * (i - n) + 1 := if_neg hin
      rw [this, List.getD_eq_getElem?_getD, List.getElem?_eq_getElem (by omega)]
      rfl
  · rw [List.getElem?_eq_none (by simpa using hi), List.getElem?_eq_none (by simp; omega)]

/-- reading a list of length `2n` through the transposition interleaves its halves -/
theorem map_trTable (n : Nat) (l : List Nat) (hl : l.length = n * 2) :
    (trTable n).map (fun v => l.getD v 0) = il2 (l.take n) (l.drop n) := by
  apply List.ext_getElem?
  intro k
  by_cases hk : k < n * 2
  · rw [List.getElem?_map, trTable_getElem? n k hk, il2_getElem? _ _ (by simp; omega)]
    simp only [Option.map_some]
    have : k / 2 < n := by omega
    split
    · rw [List.getElem?_take_of_lt this, List.getD_eq_getElem?_getD,
        List.getElem?_eq_getElem (by omega)]
      rfl
    · rw [List.getElem?_drop, List.getD_eq_getElem?_getD, List.getElem?_eq_getElem (by omega)]
      rfl
  · rw [List.getElem?_eq_none (by rw [List.length_map, trTable_length]; omega),
      List.getElem?_eq_none (by
        rw [il2_length _ _ (by simp; omega), List.length_take]; omega)]

/-- `interleave` of two families of singletons alternates -/
theorem interleave_singletons {α : Type} (xs ys : List α) :
    interleave (xs.map (fun x => [x])) (ys.map (fun y => [y])) = il2 xs ys := by
  unfold interleave
  induction xs generalizing ys with
  | nil => simp [il2]
  | cons x xs ih => cases ys with
    | nil => simp [il2]
    | cons y ys =>
      simp only [List.map_cons, List.zipWith_cons_cons, List.flatten_cons, il2]
      rw [ih ys]
      rfl

/-- gathering along the interleaving table interleaves the segments -/
theorem gatherP_ilTable {α : Type} (ka kb : List Nat) (n : Nat) (ua ub : List α)
    (hka : ka.length = n) (hkb : kb.length = n) (ha : ka.sum = ua.length) :
    Prim.gatherP (ua ++ ub) (ilTable (ka ++ kb) n) =
      interleave (splitSegs ka ua) (splitSegs kb ub) := by
  have h1 := gatherP_injections (ka ++ kb) (ua ++ ub) (trTable n)
  rw [splitSegs_append _ _ _ _ ha] at h1
  exact h1.trans (trTable_flatMap_segs _ _ n (by simp [hka]) (by simp [hkb]))

/-- `interleave_blocks` in the model, semantically -/
theorem il_sem [DecidableEq O] (a b : IC (List O)) (ha : C08.Valid a) (hb : C08.Valid b)
    (hl : a.len = b.len) :
    ∃ r : OHG O A, SOptic.interleaveBlocks a b = .ok r ∧
      HasType r (a.values ++ b.values) (interleave a.segsL b.segsL) ∧ r.h.x = [] ∧
      r.toPlain = ⟨a.values ++ b.values, [], List.range (a.values ++ b.values).length,
        ilTable (a.sources.table ++ b.sources.table) a.len⟩ ∧
      Monogamous r.toPlain ∧ Monogamous r.dagger.toPlain ∧
      (∀ (T : Type) [Inhabited T] (Φ : A → List T → List T → Prop) (u v : List T),
        (Den Φ r.toPlain u v ↔ u.length = (a.values ++ b.values).length ∧
          v = Prim.gatherP u (ilTable (a.sources.table ++ b.sources.table) a.len)) ∧
        (Den Φ r.dagger.toPlain v u ↔ u.length = (a.values ++ b.values).length ∧
          v = Prim.gatherP u (ilTable (a.sources.table ++ b.sources.table) a.len))) := by
  obtain ⟨r, hr, hty, hx, rfl⟩ := C14.interleaveBlocks_hasType (A2 := A) a b ha hb hl
  obtain ⟨_, ha2⟩ := (IC.valid_iff a).1 ha
  obtain ⟨_, hb2⟩ := (IC.valid_iff b).1 hb
  simp only [IC.len_list] at ha2 hb2
  have hlen : (a.sources.table ++ b.sources.table).length = a.len * 2 := by
    show _ = a.sources.table.length * 2
    have hl' : a.sources.table.length = b.sources.table.length := hl
    rw [List.length_append, ← hl']; omega
  have hsum : (a.sources.table ++ b.sources.table).sum = (a.values ++ b.values).length := by
    simp [ha2, hb2]
  have hperm := ilTable_perm (a.sources.table ++ b.sources.table) a.len hlen
  rw [hsum] at hperm
  have hlt : ∀ i ∈ ilTable (a.sources.table ++ b.sources.table) a.len,
      i < (a.values ++ b.values).length := by
    intro i hi
    have := ilTable_lt _ _ hlen i hi
    rwa [hsum] at this
  refine ⟨_, hr, hty, hx, rfl, ?_, ?_, ?_⟩
  · exact monogamous_discrete (List.Perm.refl _) hperm
  · exact monogamous_discrete hperm (List.Perm.refl _)
  · intro T _ Φ u v
    exact ⟨den_spider_range _ _ _ hlt u v, den_spider_range' _ _ _ hlt u v⟩

/-! ## Part IX: conjugating a diagram with permutation spiders -/

/-- gluing a permutation spider in front of and another behind `F` only re-reads the two
    interfaces of `F` -/
theorem glue_both {F E L : PDiag O A} {w1 w2 : List O} {s1 t1 s2 t2 : List Nat} {u1 u2 : Nat → Nat}
    (hF : F.wf = true) (hS1 : (⟨w1, [], s1, t1⟩ : PDiag O A).wf = true)
    (hS2 : (⟨w2, [], s2, t2⟩ : PDiag O A).wf = true)
    (hty1 : (⟨w1, [], s1, t1⟩ : PDiag O A).targetType = F.sourceType)
    (hty2 : F.targetType = (⟨w2, [], s2, t2⟩ : PDiag O A).sourceType)
    (ht1 : ∀ k v, t1[k]? = some v → u1 v = k) (hu1 : ∀ v, v < w1.length → t1[u1 v]? = some v)
    (hs2 : ∀ k v, s2[k]? = some v → u2 v = k) (hu2 : ∀ v, v < w2.length → s2[u2 v]? = some v)
    (hE : IsGluing ⟨w1, [], s1, t1⟩ F E) (hL : IsGluing E ⟨w2, [], s2, t2⟩ L) :
    L ≅ ⟨F.nodes, F.edges, s1.map (fun v => F.ins.getD (u1 v) 0),
      t2.map (fun v => F.outs.getD (u2 v) 0)⟩ := by
  have hEw : E.wf = true := IsGluing.wf hS1 hF hE
  have h1 := glue_perm_left hF hS1 hty1 ht1 hu1 hE
  obtain ⟨f1, f2, f3⟩ := (PDiag.wf_iff F).1 hF
  obtain ⟨s1w, _, _⟩ := (PDiag.wf_iff _).1 hS1
  have hlen : t1.length = F.ins.length := by
    have := congrArg List.length hty1
    simpa [PDiag.targetType, PDiag.sourceType] using this
  have hE' : (⟨F.nodes, F.edges, s1.map (fun v => F.ins.getD (u1 v) 0), F.outs⟩ : PDiag O A).wf
      = true := by
    refine (PDiag.wf_iff _).2 ⟨?_, f2, f3⟩
    intro i hi
    obtain ⟨v, hv, rfl⟩ := List.mem_map.1 hi
    have hvw : v < w1.length := s1w v hv
    have hk := (List.getElem?_eq_some_iff.1 (hu1 v hvw)).1
    rw [hlen] at hk
    rw [List.getD_eq_getElem?_getD, List.getElem?_eq_getElem hk]
    exact f1 _ (List.getElem_mem hk)
  have h2 := isGluing_perm_right (F := (⟨F.nodes, F.edges, s1.map (fun v => F.ins.getD (u1 v) 0),
    F.outs⟩ : PDiag O A)) (w := w2) (s := s2) (t := t2) (u := u2) hE' hty2 hs2 hu2
  exact glue_congr hEw hS2 h1 (iso_refl _) hL h2

/-- the plain reading of a partial dagger: the last input positions become outputs, the last
    output positions inputs -/
def pdPlain (k k' : Nat) (D : PDiag O A) : PDiag O A :=
  ⟨D.nodes, D.edges, D.ins.take k ++ D.outs.drop k', D.outs.take k' ++ D.ins.drop k⟩

theorem iso_pdPlain {D D' : PDiag O A} (k k' : Nat) (h : D ≅ D') : pdPlain k k' D ≅ pdPlain k k' D' := by
  obtain ⟨π, ρ, h1, h2, h3, h4, h5, h6⟩ := h
  refine ⟨π, ρ, h1, h2, h3, h4, ?_, ?_⟩
  · show D'.ins.take k ++ D'.outs.drop k' = (D.ins.take k ++ D.outs.drop k').map π
    rw [h5, h6, List.map_append, List.map_take, List.map_drop]
  · show D'.outs.take k' ++ D'.ins.drop k = (D.outs.take k' ++ D.ins.drop k).map π
    rw [h5, h6, List.map_append, List.map_take, List.map_drop]

theorem il2_inj {α : Type} {a1 a2 b1 b2 : List α} (h1 : a1.length = a2.length)
    (h2 : b1.length = b2.length) (h : il2 a1 a2 = il2 b1 b2) : a1 = b1 ∧ a2 = b2 := by
  have e1 := congrArg evens h
  have e2 := congrArg odds h
  rw [evens_il2 _ _ h1, evens_il2 _ _ h2] at e1
  rw [odds_il2 _ _ h1, odds_il2 _ _ h2] at e2
  exact ⟨e1, e2⟩

/-- a valid family of unit segments -/
theorem unit_family {α : Type} (a : IC (List α)) (n : Nat) (ha : C08.Valid a)
    (h1 : a.sources.table = List.replicate n 1) : a.len = n ∧ a.values.length = n := by
  obtain ⟨_, ha2⟩ := (IC.valid_iff a).1 ha
  simp only [IC.len_list] at ha2
  constructor
  · show a.sources.table.length = n
    rw [h1, List.length_replicate]
  · rw [← ha2, h1]; exact Subst.sum_replicate_one n

theorem ilTable_units (n : Nat) :
    ilTable (List.replicate n 1 ++ List.replicate n 1) n = trTable n := by
  rw [List.replicate_append_replicate, show n + n = n * 2 by omega, ilTable_ones]

theorem spider_wf_of_perm (w : List O) (s t : List Nat) (hs : ∀ v ∈ s, v < w.length)
    (ht : ∀ v ∈ t, v < w.length) : (⟨w, [], s, t⟩ : PDiag O A).wf = true :=
  (PDiag.wf_iff _).2 ⟨hs, ht, fun e he => by cases he⟩

section sandwich
variable [DecidableEq O]

/-- `il(fa, ra)† ; f ; il(fb, rb)` for families of unit segments: the interfaces of `f` are
    re-read alternately -/
theorem il_bend (B : Backend) (hB : B.Lawful) (fa ra fb rb : IC (List O)) (vfa : C08.Valid fa)
    (vra : C08.Valid ra) (vfb : C08.Valid fb) (vrb : C08.Valid rb) (nA nB : Nat)
    (hfa : fa.sources.table = List.replicate nA 1) (hra : ra.sources.table = List.replicate nA 1)
    (hfb : fb.sources.table = List.replicate nB 1) (hrb : rb.sources.table = List.replicate nB 1)
    (f : OHG O A) (hf : HasType f (fa.values ++ ra.values) (fb.values ++ rb.values)) :
    ∃ il0 rhs2 e fx : OHG O A, SOptic.interleaveBlocks fa ra = .ok il0 ∧
      SOptic.interleaveBlocks fb rb = .ok rhs2 ∧ OHG.compose B il0.dagger f = .ok e ∧
      OHG.compose B e rhs2 = .ok fx ∧
      HasType fx (interleave fa.segsL ra.segsL) (interleave fb.segsL rb.segsL) ∧
      fx.h.x = f.h.x ∧
      fx.toPlain ≅ ⟨f.toPlain.nodes, f.toPlain.edges,
        il2 (f.toPlain.ins.take nA) (f.toPlain.ins.drop nA),
        il2 (f.toPlain.outs.take nB) (f.toPlain.outs.drop nB)⟩ := by
  obtain ⟨la, va⟩ := unit_family fa nA vfa hfa
  obtain ⟨la', va'⟩ := unit_family ra nA vra hra
  obtain ⟨lb, vb⟩ := unit_family fb nB vfb hfb
  obtain ⟨lb', vb'⟩ := unit_family rb nB vrb hrb
  obtain ⟨il0, h0, t0, x0, p0, _, _, _⟩ := il_sem (A := A) fa ra vfa vra (la.trans la'.symm)
  obtain ⟨rhs2, h2, t2, x2, p2, _, _, _⟩ := il_sem (A := A) fb rb vfb vrb (lb.trans lb'.symm)
  obtain ⟨e, he, te, xe, ge, _, _⟩ := compose_sem B hB t0.dagger hf
  obtain ⟨fx, hfx, tfx, xfx, gfx, _, _⟩ := compose_sem B hB te t2
  refine ⟨il0, rhs2, e, fx, h0, h2, he, hfx, tfx, ?_, ?_⟩
  · rw [xfx, xe, x2]
    show il0.h.x ++ f.h.x ++ [] = f.h.x
    rw [x0]; simp
  · have wf' : f.wf = true := (OHG.wf_iff f).2 hf.1
    have w0 : il0.dagger.wf = true := (OHG.wf_iff _).2 t0.dagger.1
    have w2 : rhs2.wf = true := (OHG.wf_iff _).2 t2.1
    have hty1 := C03.plain_types_match w0 wf' (t0.dagger.2.2.trans hf.2.1.symm)
    have hty2 : f.toPlain.targetType = rhs2.toPlain.sourceType := by
      rw [C03.plain_target wf' hf.2.2, C03.plain_source w2 t2.2.1]
    have p0' : il0.dagger.toPlain = ⟨fa.values ++ ra.values, [], trTable nA,
        List.range (fa.values ++ ra.values).length⟩ := by
      show il0.toPlain.dagger = _
      rw [p0, hfa, hra, la, ilTable_units]; rfl
    have p2' : rhs2.toPlain = ⟨fb.values ++ rb.values, [],
        List.range (fb.values ++ rb.values).length, trTable nB⟩ := by
      rw [p2, hfb, hrb, lb, ilTable_units]
    rw [p0'] at ge hty1
    rw [p2'] at gfx hty2
    have nA2 : (fa.values ++ ra.values).length = nA * 2 := by simp [va, va']; omega
    have nB2 : (fb.values ++ rb.values).length = nB * 2 := by simp [vb, vb']; omega
    have hS1 : (⟨fa.values ++ ra.values, [], trTable nA,
        List.range (fa.values ++ ra.values).length⟩ : PDiag O A).wf = true :=
      spider_wf_of_perm _ _ _ (fun v hv => by rw [nA2]; exact trTable_lt nA v hv)
        (fun v hv => List.mem_range.1 hv)
    have hS2 : (⟨fb.values ++ rb.values, [], List.range (fb.values ++ rb.values).length,
        trTable nB⟩ : PDiag O A).wf = true :=
      spider_wf_of_perm _ _ _ (fun v hv => List.mem_range.1 hv)
        (fun v hv => by rw [nB2]; exact trTable_lt nB v hv)
    have key := glue_both (u1 := fun v => v) (u2 := fun v => v) (C03.wfP wf') hS1 hS2 hty1 hty2
      (fun _ _ h => (range_getElem?_some h).1) (fun v hv => List.getElem?_range hv)
      (fun _ _ h => (range_getElem?_some h).1) (fun v hv => List.getElem?_range hv) ge gfx
    have li : f.toPlain.ins.length = nA * 2 := by
      rw [C03.plain_ins_length wf' hf.2.1, nA2]
    have lo : f.toPlain.outs.length = nB * 2 := by
      rw [C03.plain_outs_length wf' hf.2.2, nB2]
    rw [map_trTable nA _ li, map_trTable nB _ lo] at key
    exact key

/-- `il(fa, ra) ; f ; il(fb, rb)†` for families of unit segments: the interfaces of `f` are
    de-interleaved -/
theorem il_unbend (B : Backend) (hB : B.Lawful) (fa ra fb rb : IC (List O)) (vfa : C08.Valid fa)
    (vra : C08.Valid ra) (vfb : C08.Valid fb) (vrb : C08.Valid rb) (nA nB : Nat)
    (hfa : fa.sources.table = List.replicate nA 1) (hra : ra.sources.table = List.replicate nA 1)
    (hfb : fb.sources.table = List.replicate nB 1) (hrb : rb.sources.table = List.replicate nB 1)
    (f : OHG O A)
    (hf : HasType f (interleave fa.segsL ra.segsL) (interleave fb.segsL rb.segsL)) :
    ∃ lhs r0 d1 d : OHG O A, SOptic.interleaveBlocks fa ra = .ok lhs ∧
      SOptic.interleaveBlocks fb rb = .ok r0 ∧ OHG.compose B lhs f = .ok d1 ∧
      OHG.compose B d1 r0.dagger = .ok d ∧
      HasType d (fa.values ++ ra.values) (fb.values ++ rb.values) ∧
      d.h.x = f.h.x ∧
      d.toPlain ≅ ⟨f.toPlain.nodes, f.toPlain.edges,
        evens f.toPlain.ins ++ odds f.toPlain.ins, evens f.toPlain.outs ++ odds f.toPlain.outs⟩ := by
  obtain ⟨la, va⟩ := unit_family fa nA vfa hfa
  obtain ⟨la', va'⟩ := unit_family ra nA vra hra
  obtain ⟨lb, vb⟩ := unit_family fb nB vfb hfb
  obtain ⟨lb', vb'⟩ := unit_family rb nB vrb hrb
  obtain ⟨lhs, h0, t0, x0, p0, _, _, _⟩ := il_sem (A := A) fa ra vfa vra (la.trans la'.symm)
  obtain ⟨r0, h2, t2, x2, p2, _, _, _⟩ := il_sem (A := A) fb rb vfb vrb (lb.trans lb'.symm)
  obtain ⟨d1, hd1, td1, xd1, gd1, _, _⟩ := compose_sem B hB t0 hf
  obtain ⟨d, hd, td, xd, gd, _, _⟩ := compose_sem B hB td1 t2.dagger
  refine ⟨lhs, r0, d1, d, h0, h2, hd1, hd, td, ?_, ?_⟩
  · rw [xd, xd1, x0]
    show [] ++ f.h.x ++ r0.h.x = f.h.x
    rw [x2]; simp
  · have wf' : f.wf = true := (OHG.wf_iff f).2 hf.1
    have w0 : lhs.wf = true := (OHG.wf_iff _).2 t0.1
    have w2 : r0.dagger.wf = true := (OHG.wf_iff _).2 t2.dagger.1
    have hty1 := C03.plain_types_match w0 wf' (t0.2.2.trans hf.2.1.symm)
    have hty2 : f.toPlain.targetType = r0.dagger.toPlain.sourceType := by
      rw [C03.plain_target wf' hf.2.2, C03.plain_source w2 t2.dagger.2.1]
    have p0' : lhs.toPlain = ⟨fa.values ++ ra.values, [],
        List.range (fa.values ++ ra.values).length, trTable nA⟩ := by
      rw [p0, hfa, hra, la, ilTable_units]
    have p2' : r0.dagger.toPlain = ⟨fb.values ++ rb.values, [], trTable nB,
        List.range (fb.values ++ rb.values).length⟩ := by
      show r0.toPlain.dagger = _
      rw [p2, hfb, hrb, lb, ilTable_units]; rfl
    rw [p0'] at gd1 hty1
    rw [p2'] at gd hty2
    have nA2 : (fa.values ++ ra.values).length = nA * 2 := by simp [va, va']; omega
    have nB2 : (fb.values ++ rb.values).length = nB * 2 := by simp [vb, vb']; omega
    have hS1 : (⟨fa.values ++ ra.values, [], List.range (fa.values ++ ra.values).length,
        trTable nA⟩ : PDiag O A).wf = true :=
      spider_wf_of_perm _ _ _ (fun v hv => List.mem_range.1 hv)
        (fun v hv => by rw [nA2]; exact trTable_lt nA v hv)
    have hS2 : (⟨fb.values ++ rb.values, [], trTable nB,
        List.range (fb.values ++ rb.values).length⟩ : PDiag O A).wf = true :=
      spider_wf_of_perm _ _ _ (fun v hv => by rw [nB2]; exact trTable_lt nB v hv)
        (fun v hv => List.mem_range.1 hv)
    have key := glue_both (u1 := trPos nA) (u2 := trPos nB) (C03.wfP wf') hS1 hS2 hty1 hty2
      (trTable_pos nA).1 (fun v hv => (trTable_pos nA).2 v (nA2 ▸ hv))
      (trTable_pos nB).1 (fun v hv => (trTable_pos nB).2 v (nB2 ▸ hv)) gd1 gd
    have li : f.toPlain.ins.length = nA * 2 := by
      rw [C03.plain_ins_length wf' hf.2.1, ← C03.plain_outs_length w0 t0.2.2, p0', trTable_length]
    have lo : f.toPlain.outs.length = nB * 2 := by
      rw [C03.plain_outs_length wf' hf.2.2, ← C03.plain_ins_length w2 t2.dagger.2.1, p2',
        trTable_length]
    rw [nA2, nB2, map_trPos nA _ li, map_trPos nB _ lo] at key
    exact key

end sandwich

/-! ## Part X: iterated juxtaposition -/

/-- right-nested juxtaposition of a list of diagrams -/
def juxtR : List (PDiag O A) → PDiag O A
  | [] => PDiag.empty
  | Q :: Qs => PDiag.juxt Q (juxtR Qs)

theorem empty_wf : (PDiag.empty : PDiag O A).wf = true := by
  refine (PDiag.wf_iff _).2 ⟨?_, ?_, ?_⟩ <;> intro _ h <;> cases h

theorem juxtR_wf (Qs : List (PDiag O A)) (h : ∀ Q ∈ Qs, Q.wf = true) : (juxtR Qs).wf = true := by
  induction Qs with
  | nil => exact empty_wf
  | cons Q Qs ih =>
    exact juxt_wf (h Q (by simp)) (ih (fun Q' hQ' => h Q' (by simp [hQ'])))

theorem monogamous_empty : Monogamous (PDiag.empty : PDiag O A) := by
  refine ⟨List.nodup_nil, List.nodup_nil, ?_⟩
  intro v hv
  exact absurd hv (Nat.not_lt_zero _)

theorem monogamous_juxtR (Qs : List (PDiag O A)) (h : ∀ Q ∈ Qs, Q.wf = true ∧ Monogamous Q) :
    Monogamous (juxtR Qs) := by
  induction Qs with
  | nil => exact monogamous_empty
  | cons Q Qs ih =>
    exact monogamous_juxt (h Q (by simp)).1
      (juxtR_wf Qs (fun Q' hQ' => (h Q' (by simp [hQ'])).1)) (h Q (by simp)).2
      (ih (fun Q' hQ' => h Q' (by simp [hQ'])))

/-- the relation denoted by an iterated juxtaposition: block-wise -/
theorem den_juxtR {Φ : A → List T → List T → Prop} [Inhabited T] (Qs : List (PDiag O A))
    (h : ∀ Q ∈ Qs, Q.wf = true) (a b : List T) :
    Den Φ (juxtR Qs) a b ↔ ∃ as bs : List (List T), a = as.flatten ∧ b = bs.flatten ∧
      List.Forall₂ (fun Q (p : List T × List T) => Den Φ Q p.1 p.2) Qs (as.zip bs) ∧
      as.length = Qs.length ∧ bs.length = Qs.length := by
  induction Qs generalizing a b with
  | nil =>
    constructor
    · rintro ⟨lab, _, ha, hb⟩
      refine ⟨[], [], ?_, ?_, List.Forall₂.nil, rfl, rfl⟩
      · rw [← ha]; rfl
      · rw [← hb]; rfl
    · rintro ⟨as, bs, rfl, rfl, _, ha, hb⟩
      rw [List.length_eq_zero_iff.1 ha, List.length_eq_zero_iff.1 hb]
      exact ⟨fun _ => default, (fun e he => by cases he), rfl, rfl⟩
  | cons Q Qs ih =>
    have hQ := h Q (by simp)
    have hQs : ∀ Q' ∈ Qs, Q'.wf = true := fun Q' hQ' => h Q' (by simp [hQ'])
    show Den Φ (PDiag.juxt Q (juxtR Qs)) a b ↔ _
    rw [den_juxt hQ]
    constructor
    · rintro ⟨a1, a2, b1, b2, rfl, rfl, h1, h2⟩
      obtain ⟨as, bs, rfl, rfl, hf, la, lb⟩ := (ih hQs a2 b2).1 h2
      exact ⟨a1 :: as, b1 :: bs, by simp, by simp, List.Forall₂.cons h1 hf, by simp [la], by simp [lb]⟩
    · rintro ⟨as, bs, rfl, rfl, hf, la, lb⟩
      match as, bs, hf, la, lb with
      | a1 :: as, b1 :: bs, hf, la, lb =>
        simp only [List.zip_cons_cons, List.forall₂_cons] at hf
        simp only [List.length_cons, Nat.add_right_cancel_iff] at la lb
        exact ⟨a1, as.flatten, b1, bs.flatten, by simp, by simp, hf.1,
          (ih hQs _ _).2 ⟨as, bs, rfl, rfl, hf.2, la, lb⟩⟩

/-- strictification of an iterated lax tensor is, up to isomorphism, the iterated juxtaposition
    of the strictifications -/
theorem toStrict_tensorAll [DecidableEq O] (B : Backend) (hB : B.Lawful) (ds : List (LOHG O A))
    (ss : List (OHG O A))
    (hds : List.Forall₂ (fun d s => d.wf = true ∧ LOHG.toStrict B d = .ok s) ds ss) :
    ∀ (acc : LOHG O A) (sacc : OHG O A), acc.wf = true → LOHG.toStrict B acc = .ok sacc →
      ∃ r, LOHG.toStrict B (LaxType.tensorAll acc ds) = .ok r ∧ r.wf = true ∧
        r.toPlain ≅ PDiag.juxt sacc.toPlain (juxtR (ss.map (·.toPlain))) := by
  induction hds with
  | nil =>
    intro acc sacc hacc eacc
    refine ⟨sacc, eacc, ((C10.toStrict_quotient B hB acc hacc).2.2 sacc eacc).1, ?_⟩
    show sacc.toPlain ≅ PDiag.juxt sacc.toPlain PDiag.empty
    rw [C02.juxt_empty_right]
    exact iso_refl _
  | @cons d s ds ss hd _ ih =>
    intro acc sacc hacc eacc
    obtain ⟨r1, r1', e1, e1', i1⟩ := C10.strict_tensor_iso B hB acc d sacc s hacc hd.1 eacc hd.2
    have wsacc := ((C10.toStrict_quotient B hB acc hacc).2.2 sacc eacc).1
    have ws := ((C10.toStrict_quotient B hB d hd.1).2.2 s hd.2).1
    have wt := LaxStrict.tensor_wf acc d hacc hd.1
    have wr1 := ((C10.toStrict_quotient B hB _ wt).2.2 r1 e1).1
    obtain ⟨r, er, wr, ir⟩ := ih (LOHG.tensor acc d) r1 wt e1
    refine ⟨r, er, wr, ?_⟩
    have hp := C02.tensor_toPlain sacc s r1' wsacc e1'
    refine iso_trans ir ?_
    refine iso_trans (juxt_iso_congr (C03.wfP wr1) i1 (iso_refl _)) ?_
    rw [hp, C02.juxt_assoc]
    exact iso_refl _

/-! ## Part XI: bent diagrams and the adapted substitution, semantically -/

/-- the bent form of `c : A ● B' → B ● A'` (`|A| = |A'| = nA`, `|B| = |B'| = nB`): inputs
    alternate `A` with `A'`, outputs alternate `B` with `B'` -/
def bent (nA nB : Nat) (c : PDiag O A) : PDiag O A :=
  ⟨c.nodes, c.edges, il2 (c.ins.take nA) (c.outs.drop nB), il2 (c.outs.take nB) (c.ins.drop nA)⟩

theorem unbend_bent (nA nB : Nat) (c : PDiag O A) (hi : c.ins.length = nA + nB)
    (ho : c.outs.length = nB + nA) : unbend (bent nA nB c) = c := by
  have l1 : (c.ins.take nA).length = (c.outs.drop nB).length := by simp; omega
  have l2 : (c.outs.take nB).length = (c.ins.drop nA).length := by simp; omega
  show (⟨c.nodes, c.edges, evens (il2 _ _) ++ odds (il2 _ _), evens (il2 _ _) ++ odds (il2 _ _)⟩ :
    PDiag O A) = c
  rw [evens_il2 _ _ l1, odds_il2 _ _ l1, evens_il2 _ _ l2, odds_il2 _ _ l2, List.take_append_drop,
    List.take_append_drop]

theorem bent_wf {nA nB : Nat} {c : PDiag O A} (hc : c.wf = true) (hi : c.ins.length = nA + nB)
    (ho : c.outs.length = nB + nA) : (bent nA nB c).wf = true := by
  have := unbend_wf (X := unbend (bent nA nB c)) (by rw [unbend_bent nA nB c hi ho]; exact hc)
  obtain ⟨x1, x2, x3⟩ := Eval.pdiag_wf_unpack hc
  have l1 : (c.ins.take nA).length = (c.outs.drop nB).length := by simp; omega
  have l2 : (c.outs.take nB).length = (c.ins.drop nA).length := by simp; omega
  refine (PDiag.wf_iff _).2 ⟨?_, ?_, x3⟩
  · intro v hv
    rcases mem_evens_odds.1 hv with h | h
    · rw [show (bent nA nB c).ins = il2 _ _ from rfl, evens_il2 _ _ l1] at h
      exact x1 v (List.mem_of_mem_take h)
    · rw [show (bent nA nB c).ins = il2 _ _ from rfl, odds_il2 _ _ l1] at h
      exact x2 v (List.mem_of_mem_drop h)
  · intro v hv
    rcases mem_evens_odds.1 hv with h | h
    · rw [show (bent nA nB c).outs = il2 _ _ from rfl, evens_il2 _ _ l2] at h
      exact x2 v (List.mem_of_mem_take h)
    · rw [show (bent nA nB c).outs = il2 _ _ from rfl, odds_il2 _ _ l2] at h
      exact x1 v (List.mem_of_mem_drop h)

theorem bent_iface_perm (nA nB : Nat) (c : PDiag O A) (hi : c.ins.length = nA + nB)
    (ho : c.outs.length = nB + nA) :
    ((bent nA nB c).ins ++ (bent nA nB c).outs).Perm (c.ins ++ c.outs) := by
  have l1 : (c.ins.take nA).length = (c.outs.drop nB).length := by simp; omega
  have l2 : (c.outs.take nB).length = (c.ins.drop nA).length := by simp; omega
  have p1 := evens_odds_perm (bent nA nB c).ins
  have p2 := evens_odds_perm (bent nA nB c).outs
  rw [show (bent nA nB c).ins = il2 _ _ from rfl, evens_il2 _ _ l1, odds_il2 _ _ l1] at p1
  rw [show (bent nA nB c).outs = il2 _ _ from rfl, evens_il2 _ _ l2, odds_il2 _ _ l2] at p2
  refine (p1.append p2).trans ?_
  have e1 : c.ins = c.ins.take nA ++ c.ins.drop nA := (List.take_append_drop _ _).symm
  have e2 : c.outs = c.outs.take nB ++ c.outs.drop nB := (List.take_append_drop _ _).symm
  conv_rhs => rw [e1, e2]
  rw [List.perm_iff_count]
  intro v
  simp only [List.count_append]
  omega

/-- the relation denoted by a bent diagram -/
theorem den_bent {Φ : A → List T → List T → Prop} (nA nB : Nat) (c : PDiag O A)
    (hi : c.ins.length = nA + nB) (ho : c.outs.length = nB + nA) (a1 a2 b1 b2 : List T)
    (h1 : a1.length = nA) (h2 : a2.length = nA) (h3 : b1.length = nB) (h4 : b2.length = nB) :
    Den Φ (bent nA nB c) (il2 a1 a2) (il2 b1 b2) ↔ Den Φ c (a1 ++ b2) (b1 ++ a2) := by
  have hb := den_unbend (Φ := Φ) (bent nA nB c) a1 a2 b1 b2 (h1.trans h2.symm) (h3.trans h4.symm)
    (by show (il2 _ _).length = _
        rw [il2_length _ _ (by simp; omega), List.length_take, h1]; omega)
    (by show (il2 _ _).length = _
        rw [il2_length _ _ (by simp; omega), List.length_take, h3]; omega)
  rw [unbend_bent nA nB c hi ho] at hb
  exact hb.symm

theorem dbl_map (l : List Nat) (labW : Nat → T) :
    (dbl l).map labW = il2 (l.map (fun v => labW (2 * v))) (l.map (fun v => labW (2 * v + 1))) := by
  unfold dbl
  rw [← il2_map, List.map_map, List.map_map]
  rfl

theorem dbl_lt {l : List Nat} {n N : Nat} (hN : N = 2 * n) (hl : ∀ v ∈ l, v < n) :
    ∀ a ∈ dbl l, a < N := by
  intro a ha
  rw [dbl_eq_flatMap] at ha
  obtain ⟨v, hv, hav⟩ := List.mem_flatMap.1 ha
  have := hl v hv
  simp at hav
  omega

/-- **the adapted substitution**: the relation denoted by the unbent quotient of the substitution
    presentation on doubled nodes, in terms of a forward and a reverse labelling of the circuit's
    nodes -/
theorem den_adapted {Φ : A → List T → List T → Prop} {W : List O} {ins outs S Tt : List Nat}
    {X ot : PDiag O A} (n : Nat) (hX : X.wf = true) (hW : W.length = 2 * n)
    (hins : ∀ v ∈ ins, v < n) (houts : ∀ v ∈ outs, v < n) (hS : ∀ v ∈ S, v < n)
    (hT : ∀ v ∈ Tt, v < n) (lX : X.ins.length = 2 * S.length) (lX' : X.outs.length = 2 * Tt.length)
    (h : IsQuot (substP W (dbl ins) (dbl outs) X) (substR W (dbl S) (dbl Tt) X) ot)
    (xa db yb ga : List T) (l1 : xa.length = ins.length) (l2 : ga.length = ins.length)
    (l3 : yb.length = outs.length) (l4 : db.length = outs.length) :
    Den Φ (unbend ot) (xa ++ db) (yb ++ ga) ↔ ∃ fv rv : Nat → T, ins.map fv = xa ∧
      outs.map rv = db ∧ outs.map fv = yb ∧ ins.map rv = ga ∧
      Den Φ X (il2 (S.map fv) (S.map rv)) (il2 (Tt.map fv) (Tt.map rv)) := by
  obtain ⟨q, _, _, _, _, _, hqi, hqo⟩ := id h
  have li : ot.ins.length = 2 * xa.length := by
    rw [hqi, List.length_map]
    show (dbl ins).length = _
    rw [dbl_length, l1]
  have lo : ot.outs.length = 2 * yb.length := by
    rw [hqo, List.length_map]
    show (dbl outs).length = _
    rw [dbl_length, l3]
  rw [den_unbend ot xa ga yb db (l1.trans l2.symm) (l3.trans l4.symm) li lo,
    den_subst hX (dbl_lt hW hins) (dbl_lt hW houts) (dbl_lt hW hS) (dbl_lt hW hT)
      (by rw [dbl_length, lX]) (by rw [dbl_length, lX']) h]
  constructor
  · rintro ⟨labW, hd, ha, hb⟩
    rw [dbl_map] at ha hb
    rw [dbl_map, dbl_map] at hd
    obtain ⟨e1, e2⟩ := il2_inj (by simp) (l1.trans l2.symm) ha
    obtain ⟨e3, e4⟩ := il2_inj (by simp) (l3.trans l4.symm) hb
    exact ⟨_, _, e1, e4, e3, e2, hd⟩
  · rintro ⟨fv, rv, e1, e4, e3, e2, hd⟩
    have key : ∀ l : List Nat,
        (dbl l).map (fun i => if i % 2 = 0 then fv (i / 2) else rv (i / 2)) =
          il2 (l.map fv) (l.map rv) := by
      intro l
      rw [dbl_map]
      congr 1
      · apply List.map_congr_left
        intro v _
        have h1 : 2 * v % 2 = 0 := by omega
        have h2 : 2 * v / 2 = v := by omega
        simp only [h1, h2, if_true]
      · apply List.map_congr_left
        intro v _
        have h1 : (2 * v + 1) % 2 = 1 := by omega
        have h2 : (2 * v + 1) / 2 = v := by omega
        simp only [h1, h2]
        simp
    refine ⟨fun i => if i % 2 = 0 then fv (i / 2) else rv (i / 2), ?_, ?_, ?_⟩
    · rw [key, key]; exact hd
    · rw [key, e1, e2]
    · rw [key, e3, e4]

/-! ## Part XII: the strict image of a batch under a generator-wise lax functor -/

theorem forall₂_map_of_mem {α β γ : Type} (l : List α) (f : α → β) (g : α → γ)
    (R : β → γ → Prop) (h : ∀ x ∈ l, R (f x) (g x)) : List.Forall₂ R (l.map f) (l.map g) := by
  induction l with
  | nil => exact List.Forall₂.nil
  | cons x l ih =>
    exact List.Forall₂.cons (h x (by simp)) (ih (fun y hy => h y (by simp [hy])))

/-- `DynFunctor::map_operations` on a valid batch all of whose generators have defined,
    well-formed, strictifiable images with known boundary types (arbitrary ones — e.g. with a
    residual): defined, well-formed, of the concatenated type, and isomorphic to the juxtaposition
    of the strictified generator images -/
theorem dyn_batch [DecidableEq O2] (B : Backend) (hB : B.Lawful) (G : LFunctor O1 A1 O2 A2)
    (img : A1 → List O1 → List O1 → LOHG O2 A2) (simg : A1 → List O1 → List O1 → OHG O2 A2)
    (srcOf tgtOf : A1 × List O1 × List O1 → List O2) (ops : Operations O1 A1)
    (ha : ops.a.valid = true) (hb : ops.b.valid = true)
    (h : ∀ t ∈ C12.opTriples ops, G.mapOperation t.1 t.2.1 t.2.2 = .ok (img t.1 t.2.1 t.2.2) ∧
      (img t.1 t.2.1 t.2.2).wf = true ∧
      LOHG.toStrict B (img t.1 t.2.1 t.2.2) = .ok (simg t.1 t.2.1 t.2.2) ∧
      (simg t.1 t.2.1 t.2.2).source = .ok (srcOf t) ∧ (simg t.1 t.2.1 t.2.2).target = .ok (tgtOf t)) :
    ∃ fx, (LFunctor.toDyn B G).mapOperations ops = .ok fx ∧ fx.WF ∧
      fx.source = .ok ((C12.opTriples ops).flatMap srcOf) ∧
      fx.target = .ok ((C12.opTriples ops).flatMap tgtOf) ∧
      fx.toPlain ≅ juxtR ((C12.opTriples ops).map (fun t => (simg t.1 t.2.1 t.2.2).toPlain)) := by
  have hcons : ∀ t ∈ C12.opTriples ops, C09.LabelConsistent (img t.1 t.2.1 t.2.2).hypergraph :=
    fun t ht => (C10.toStrict_quotient B hB _ (h t ht).2.1).1.1 ⟨_, (h t ht).2.2.1⟩
  let ds := (C12.opTriples ops).map (fun t => img t.1 t.2.1 t.2.2)
  have hds : ∀ d ∈ ds, d.wf = true ∧ C09.LabelConsistent d.hypergraph := by
    intro d hd
    obtain ⟨t, ht, rfl⟩ := List.mem_map.1 hd
    exact ⟨(h t ht).2.1, hcons t ht⟩
  obtain ⟨k1, k2, k3, k4, _⟩ :=
    LaxType.tensorAll_spec ds (LOHG.empty : LOHG O2 A2) rfl LaxType.labelConsistent_empty hds
  obtain ⟨fx, hfx, hfxW, hfxs, hfxt, _⟩ := LaxType.toStrict_type B hB _ k1 k2
  have hsrc : ∀ t ∈ C12.opTriples ops, LaxType.srcTy (img t.1 t.2.1 t.2.2) = srcOf t ∧
      LaxType.tgtTy (img t.1 t.2.1 t.2.2) = tgtOf t := by
    intro t ht
    obtain ⟨r, hr, _, hrs, hrt, _⟩ := LaxType.toStrict_type B hB _ (h t ht).2.1 (hcons t ht)
    rw [(h t ht).2.2.1] at hr
    cases hr
    have h1 := (LaxType.source_ok _ (h t ht).2.1).1
    have h2 := (LaxType.source_ok _ (h t ht).2.1).2
    rw [← hrs, (h t ht).2.2.2.1] at h1
    rw [← hrt, (h t ht).2.2.2.2] at h2
    exact ⟨(Res.ok.inj h1).symm, (Res.ok.inj h2).symm⟩
  have hflat : ∀ (ty : LOHG O2 A2 → List O2) (of : A1 × List O1 × List O1 → List O2),
      (∀ t ∈ C12.opTriples ops, ty (img t.1 t.2.1 t.2.2) = of t) →
      ds.flatMap ty = (C12.opTriples ops).flatMap of := by
    intro ty of hp
    show ((C12.opTriples ops).map _).flatMap ty = _
    rw [List.flatMap_map]
    exact List.flatMap_congr hp
  -- the isomorphism with the juxtaposition
  obtain ⟨e0, he0, we0, ie0, _⟩ := C10.toStrict_lawful_spec B hB (LOHG.empty : LOHG O2 A2) rfl rfl
  have hF2 : List.Forall₂ (fun d s => d.wf = true ∧ LOHG.toStrict B d = .ok s) ds
      ((C12.opTriples ops).map (fun t => simg t.1 t.2.1 t.2.2)) :=
    forall₂_map_of_mem _ _ _ _ (fun t ht => ⟨(h t ht).2.1, (h t ht).2.2.1⟩)
  obtain ⟨r', hr', _, ir'⟩ := toStrict_tensorAll B hB ds _ hF2 LOHG.empty e0 rfl he0
  rw [hfx] at hr'
  cases hr'
  refine ⟨fx, ?_, hfxW, ?_, ?_, ?_⟩
  · rw [C12.dyn_mapOperations_eq B G img ops ha hb (fun t ht => (h t ht).1)]
    exact hfx
  · rw [hfxs, (LaxType.source_ok _ k1).1]
    show Res.ok (LaxType.srcTy _) = _
    rw [k3, hflat LaxType.srcTy srcOf (fun t ht => (hsrc t ht).1)]
    rfl
  · rw [hfxt, (LaxType.source_ok _ k1).2]
    show Res.ok (LaxType.tgtTy _) = _
    rw [k4, hflat LaxType.tgtTy tgtOf (fun t ht => (hsrc t ht).2)]
    rfl
  · refine iso_trans ir' ?_
    have : (LaxStrict.plain (LOHG.empty : LOHG O2 A2)) = PDiag.empty := rfl
    rw [this] at ie0
    have i2 := juxt_iso_congr (G := juxtR (((C12.opTriples ops).map
      (fun t => simg t.1 t.2.1 t.2.2)).map (·.toPlain))) (C03.wfP we0)
      (iso_symm empty_wf ie0) (iso_refl _)
    rw [C02.juxt_empty_left] at i2
    have e : ((C12.opTriples ops).map (fun t => simg t.1 t.2.1 t.2.2)).map (·.toPlain) =
        (C12.opTriples ops).map (fun t => (simg t.1 t.2.1 t.2.2).toPlain) := by
      rw [List.map_map]; rfl
    rw [e] at i2 ⊢
    exact i2

/-! ## Part XIII: block-wise reading of an iterated juxtaposition -/

theorem forall₂_of_getD {α β : Type} (R : α → β → Prop) (da : α) (db : β) :
    ∀ (l : List α) (l' : List β), l.length = l'.length →
      (∀ k, k < l.length → R (l.getD k da) (l'.getD k db)) → List.Forall₂ R l l'
  | [], [], _, _ => List.Forall₂.nil
  | x :: l, y :: l', h, hk => by
    refine List.Forall₂.cons (hk 0 (by simp)) (forall₂_of_getD R da db l l' (by simpa using h) ?_)
    intro k hk'
    have := hk (k + 1) (by simpa using hk')
    simpa using this
  | [], _ :: _, h, _ => by simp at h
  | _ :: _, [], h, _ => by simp at h

theorem getD_of_forall₂ {α β : Type} {R : α → β → Prop} (da : α) (db : β) {l : List α}
    {l' : List β} (h : List.Forall₂ R l l') : ∀ k, k < l.length → R (l.getD k da) (l'.getD k db) := by
  induction h with
  | nil => intro k hk; simp at hk
  | cons h1 _ ih =>
    intro k hk
    cases k with
    | zero => simpa using h1
    | succ k => simpa using ih k (by simpa using hk)

theorem zip_getD {α β : Type} (as : List α) (bs : List β) (da : α) (db : β) (k : Nat)
    (h : as.length = bs.length) : (as.zip bs).getD k (da, db) = (as.getD k da, bs.getD k db) := by
  simp only [List.getD_eq_getElem?_getD]
  by_cases hk : k < as.length
  · have hk' : k < bs.length := h ▸ hk
    rw [List.getElem?_eq_getElem (by simp [hk, hk'] : k < (as.zip bs).length),
      List.getElem?_eq_getElem hk, List.getElem?_eq_getElem hk']
    simp
  · rw [List.getElem?_eq_none (by simp; omega), List.getElem?_eq_none (by omega),
      List.getElem?_eq_none (by omega)]
    rfl

/-- the relation denoted by an iterated juxtaposition, read block by block -/
theorem den_juxtR_segs {Φ : A → List T → List T → Prop} [Inhabited T] (Qs : List (PDiag O A))
    (hQ : ∀ Q ∈ Qs, Q.wf = true) (a b : List T)
    (ha : a.length = (Qs.map (·.ins.length)).sum) (hb : b.length = (Qs.map (·.outs.length)).sum) :
    Den Φ (juxtR Qs) a b ↔ ∀ k, k < Qs.length →
      Den Φ (Qs.getD k PDiag.empty) ((splitSegs (Qs.map (·.ins.length)) a).getD k [])
        ((splitSegs (Qs.map (·.outs.length)) b).getD k []) := by
  rw [den_juxtR Qs hQ]
  constructor
  · rintro ⟨as, bs, rfl, rfl, hf, la, lb⟩
    have h1 : as.map List.length = Qs.map (·.ins.length) := by
      apply List.ext_getElem
      · simp [la]
      · intro k h1 h2
        simp only [List.length_map] at h1 h2
        have := getD_of_forall₂ PDiag.empty (([], []) : List T × List T) hf k h2
        rw [zip_getD as bs [] [] k (la.trans lb.symm)] at this
        have hl := (den_length this).1
        simp only [List.getD_eq_getElem?_getD, List.getElem?_eq_getElem h1,
          List.getElem?_eq_getElem h2, Option.getD_some] at hl
        simpa using hl
    have h2 : bs.map List.length = Qs.map (·.outs.length) := by
      apply List.ext_getElem
      · simp [lb]
      · intro k h1 h2
        simp only [List.length_map] at h1 h2
        have := getD_of_forall₂ PDiag.empty (([], []) : List T × List T) hf k h2
        rw [zip_getD as bs [] [] k (la.trans lb.symm)] at this
        have hl := (den_length this).2
        simp only [List.getD_eq_getElem?_getD, List.getElem?_eq_getElem h1,
          List.getElem?_eq_getElem h2, Option.getD_some] at hl
        simpa using hl
    intro k hk
    rw [← h1, ← h2, splitSegs_map_length_flatten, splitSegs_map_length_flatten]
    have := getD_of_forall₂ PDiag.empty (([], []) : List T × List T) hf k hk
    rwa [zip_getD as bs [] [] k (la.trans lb.symm)] at this
  · intro h
    refine ⟨splitSegs (Qs.map (·.ins.length)) a, splitSegs (Qs.map (·.outs.length)) b, ?_, ?_, ?_,
      by simp, by simp⟩
    · rw [splitSegs_flatten _ _ (Nat.le_of_eq ha)]
    · rw [splitSegs_flatten _ _ (Nat.le_of_eq hb)]
    · apply forall₂_of_getD _ PDiag.empty (([], []) : List T × List T)
      · simp
      · intro k hk
        rw [zip_getD _ _ [] [] k (by simp)]
        exact h k hk

/-! ## Part XIV: valuations as labellings; arities as labellings -/

/-- the hyperedge predicate of valuations -/
def valΦ (opfn : A → List T → List T) : A → List T → List T → Prop := fun l xs ys => ys = opfn l xs

/-- on a well-formed monogamous acyclic diagram with an arity-respecting interpreter the relation
    denoted w.r.t. the valuation predicate is the graph of the model evaluator -/
theorem den_val_iff_eval (B : Backend) (hB : B.Lawful) (C : OHG O A) (hC : C.wf = true)
    (hac : Acyclic C.toPlain) (hm : Monogamous C.toPlain) (opfn : A → List T → List T)
    (har : C16.ArityOK C opfn) (dflt : T) (a b : List T) (ha : a.length = C.s.table.length) :
    Den (valΦ opfn) C.toPlain a b ↔ Graph.eval B C dflt a (Eval.applyOf opfn) = .ok b := by
  have hwf := Eval.toPlain_wf C hC
  have hop := opAcyclic_of_acyclic C hC hac
  have hsw := monogamous_singleWriter hwf hm
  constructor
  · rintro ⟨lab, hl, hi, ho⟩
    have hval : IsValuation C.toPlain opfn dflt a lab := by
      refine ⟨hi, hl, ?_⟩
      intro v hv hni hnt
      exfalso
      rcases monogamous_written hwf hm v hv with h | ⟨e, he, hve⟩
      · exact hni h
      · exact hnt e he hve
    rw [C16.eval_eq_of_valuation B hB C hC opfn dflt a hop hsw har ha hval]
    exact congrArg Res.ok ho
  · intro hev
    obtain ⟨outs, val, hev', hval, houts⟩ := C16.eval_spec B hB C hC opfn dflt a hop hsw har ha
    rw [hev] at hev'
    cases hev'
    exact ⟨val, hval.ops, hval.ins, houts.symm⟩

/-- the hyperedge predicate of the arity discipline -/
def arΦ {S : Type} (opfn : A → List S → List S) : A → List Unit → List Unit → Prop :=
  fun l xs ys => ∀ args : List S, args.length = xs.length → (opfn l args).length = ys.length

theorem arityOK_iff_lab {S : Type} (C : OHG O A) (opfn : A → List S → List S) (lab : Nat → Unit) :
    C16.ArityOK C opfn ↔ Lab (arΦ opfn) C.toPlain lab := by
  unfold C16.ArityOK Lab arΦ
  constructor
  · intro h e he args hargs
    rw [List.length_map] at hargs ⊢
    exact h e he args hargs
  · intro h e he args hargs
    have := h e he args (by rw [List.length_map]; exact hargs)
    rwa [List.length_map] at this

theorem den_ar_of_arityOK {S : Type} (C : OHG O A) (opfn : A → List S → List S)
    (h : C16.ArityOK C opfn) (a b : List Unit) (ha : a.length = C.toPlain.ins.length)
    (hb : b.length = C.toPlain.outs.length) : Den (arΦ opfn) C.toPlain a b := by
  refine ⟨fun _ => (), (arityOK_iff_lab C opfn _).1 h, ?_, ?_⟩
  · apply List.ext_getElem <;> simp [ha]
  · apply List.ext_getElem <;> simp [hb]

theorem arityOK_of_den {S : Type} (C : OHG O A) (opfn : A → List S → List S) {a b : List Unit}
    (h : Den (arΦ opfn) C.toPlain a b) : C16.ArityOK C opfn := by
  obtain ⟨lab, hl, _, _⟩ := h
  exact (arityOK_iff_lab C opfn lab).2 hl

/-- interface positions that are distinct nodes can be labelled freely (no hyperedge
    constraint) -/
theorem den_top_of_nodup [Inhabited T] (d : PDiag O A) (hnd : (d.ins ++ d.outs).Nodup)
    (a b : List T) (ha : a.length = d.ins.length) (hb : b.length = d.outs.length) :
    Den (fun _ _ _ => True) d a b := by
  have hnI : d.ins.Nodup := (List.nodup_append.1 hnd).1
  have hnO : d.outs.Nodup := (List.nodup_append.1 hnd).2.1
  have hdisj : ∀ v ∈ d.outs, v ∉ d.ins := fun v ho hi => (List.nodup_append.1 hnd).2.2 v hi v ho rfl
  refine ⟨fun v => if v ∈ d.ins then a.getD (d.ins.idxOf v) default
    else b.getD (d.outs.idxOf v) default, fun _ _ => trivial, ?_, ?_⟩
  · apply List.ext_getElem
    · rw [List.length_map, ha]
    · intro k h1 h2
      simp only [List.length_map] at h1
      rw [List.getElem_map, if_pos (List.getElem_mem h1), hnI.idxOf_getElem k h1]
      simp [List.getD_eq_getElem?_getD, List.getElem?_eq_getElem h2]
  · apply List.ext_getElem
    · rw [List.length_map, hb]
    · intro k h1 h2
      simp only [List.length_map] at h1
      rw [List.getElem_map, if_neg (hdisj _ (List.getElem_mem h1)), hnO.idxOf_getElem k h1]
      simp [List.getD_eq_getElem?_getD, List.getElem?_eq_getElem h2]

/-- conversely, a labelling that separates the interface positions shows that they are distinct
    nodes -/
theorem nodup_of_den {Φ : A → List T → List T → Prop} {d : PDiag O A} {a b : List T}
    (h : Den Φ d a b) (hnd : (a ++ b).Nodup) : (d.ins ++ d.outs).Nodup := by
  obtain ⟨lab, _, ha, hb⟩ := h
  apply nodup_of_map lab
  rw [List.map_append, ha, hb]
  exact hnd

/-! ## Part XV: a batch of components with interleaved interfaces -/

theorem zipWith_append_getD {α : Type} (Ys Ms : List (List α)) (k : Nat) (h : Ys.length = Ms.length) :
    (List.zipWith (· ++ ·) Ys Ms).getD k [] = Ys.getD k [] ++ Ms.getD k [] := by
  simp only [List.getD_eq_getElem?_getD, List.getElem?_zipWith]
  by_cases hk : k < Ys.length
  · rw [List.getElem?_eq_getElem hk, List.getElem?_eq_getElem (h ▸ hk)]; rfl
  · rw [List.getElem?_eq_none (by omega), List.getElem?_eq_none (by omega)]; rfl

theorem zipWith_append_lengths {α : Type} (Ys Ms : List (List α)) :
    (List.zipWith (· ++ ·) Ys Ms).map List.length =
      List.zipWith (· + ·) (Ys.map List.length) (Ms.map List.length) := by
  induction Ys generalizing Ms with
  | nil => simp
  | cons a Ys ih => cases Ms with
    | nil => simp
    | cons b Ms => simp [ih Ms]

/-- reading an interleaving of two segmentations block by block -/
theorem splitSegs_interleave {α : Type} (k1 k2 : List Nat) (y m : List α) (hk : k1.length = k2.length)
    (hy : k1.sum = y.length) (hm : k2.sum = m.length) (k : Nat) :
    (splitSegs (List.zipWith (· + ·) k1 k2)
      (interleave (splitSegs k1 y) (splitSegs k2 m))).getD k [] =
      (splitSegs k1 y).getD k [] ++ (splitSegs k2 m).getD k [] := by
  have e : List.zipWith (· + ·) k1 k2 =
      (List.zipWith (· ++ ·) (splitSegs k1 y) (splitSegs k2 m)).map List.length := by
    rw [zipWith_append_lengths, splitSegs_map_length _ _ (Nat.le_of_eq hy),
      splitSegs_map_length _ _ (Nat.le_of_eq hm)]
  rw [e]
  unfold interleave
  rw [splitSegs_map_length_flatten, zipWith_append_getD _ _ _ (by simp [hk])]

theorem interleave_length {α : Type} (k1 k2 : List Nat) (y m : List α) (_hk : k1.length = k2.length)
    (hy : k1.sum = y.length) (hm : k2.sum = m.length) :
    (interleave (splitSegs k1 y) (splitSegs k2 m)).length = (List.zipWith (· + ·) k1 k2).sum := by
  unfold interleave
  rw [List.length_flatten, zipWith_append_lengths, splitSegs_map_length _ _ (Nat.le_of_eq hy),
    splitSegs_map_length _ _ (Nat.le_of_eq hm)]

/-- a batch whose outputs interleave two families (results and residuals) -/
theorem den_batch_out {Φ : A → List T → List T → Prop} [Inhabited T] {F : PDiag O A}
    (Qs : List (PDiag O A)) (hF : F.wf = true) (hQ : ∀ Q ∈ Qs, Q.wf = true) (hiso : F ≅ juxtR Qs)
    (ka k1 k2 : List Nat) (hk : k1.length = k2.length)
    (hins : Qs.map (·.ins.length) = ka) (houts : Qs.map (·.outs.length) = List.zipWith (· + ·) k1 k2)
    (x y m : List T) (hx : x.length = ka.sum) (hy : k1.sum = y.length) (hm : k2.sum = m.length) :
    Den Φ F x (interleave (splitSegs k1 y) (splitSegs k2 m)) ↔ ∀ k, k < Qs.length →
      Den Φ (Qs.getD k PDiag.empty) ((splitSegs ka x).getD k [])
        ((splitSegs k1 y).getD k [] ++ (splitSegs k2 m).getD k []) := by
  rw [den_iso hF hiso, den_juxtR_segs Qs hQ _ _ (by rw [hins]; exact hx)
    (by rw [houts]; exact interleave_length k1 k2 y m hk hy hm)]
  constructor
  · intro h k hk'
    have := h k hk'
    rwa [hins, houts, splitSegs_interleave k1 k2 y m hk hy hm] at this
  · intro h k hk'
    rw [hins, houts, splitSegs_interleave k1 k2 y m hk hy hm]
    exact h k hk'

/-- a batch whose inputs interleave two families (residuals and cotangents) -/
theorem den_batch_in {Φ : A → List T → List T → Prop} [Inhabited T] {F : PDiag O A}
    (Qs : List (PDiag O A)) (hF : F.wf = true) (hQ : ∀ Q ∈ Qs, Q.wf = true) (hiso : F ≅ juxtR Qs)
    (ka k1 k2 : List Nat) (hk : k1.length = k2.length)
    (hins : Qs.map (·.ins.length) = List.zipWith (· + ·) k1 k2) (houts : Qs.map (·.outs.length) = ka)
    (g y m : List T) (hg : g.length = ka.sum) (hy : k1.sum = y.length) (hm : k2.sum = m.length) :
    Den Φ F (interleave (splitSegs k1 y) (splitSegs k2 m)) g ↔ ∀ k, k < Qs.length →
      Den Φ (Qs.getD k PDiag.empty)
        ((splitSegs k1 y).getD k [] ++ (splitSegs k2 m).getD k []) ((splitSegs ka g).getD k []) := by
  rw [den_iso hF hiso, den_juxtR_segs Qs hQ _ _
    (by rw [hins]; exact interleave_length k1 k2 y m hk hy hm) (by rw [houts]; exact hg)]
  constructor
  · intro h k hk'
    have := h k hk'
    rwa [hins, houts, splitSegs_interleave k1 k2 y m hk hy hm] at this
  · intro h k hk'
    rw [hins, houts, splitSegs_interleave k1 k2 y m hk hy hm]
    exact h k hk'

/-! ## Part XVI: conjugating with an interleaving and back -/

theorem perm_pos {l : List Nat} {N : Nat} (h : l.Perm (List.range N)) :
    (∀ k v, l[k]? = some v → l.idxOf v = k) ∧ (∀ v, v < N → l[l.idxOf v]? = some v) := by
  have hnd : l.Nodup := h.nodup_iff.2 List.nodup_range
  constructor
  · intro k v hk
    obtain ⟨hk', rfl⟩ := List.getElem?_eq_some_iff.1 hk
    exact hnd.idxOf_getElem k hk'
  · intro v hv
    have hm : v ∈ l := h.mem_iff.2 (List.mem_range.2 hv)
    have hi := List.idxOf_lt_length_iff.2 hm
    rw [List.getElem?_eq_getElem hi, List.getElem_idxOf hi]

/-- re-reading both interfaces through index lists respects isomorphism -/
theorem iso_reread {X X' : PDiag O A} (h : X ≅ X') (I J : List Nat)
    (hI : ∀ i ∈ I, i < X.ins.length) (hJ : ∀ j ∈ J, j < X.outs.length) :
    (⟨X.nodes, X.edges, I.map (fun i => X.ins.getD i 0), J.map (fun j => X.outs.getD j 0)⟩ :
      PDiag O A) ≅
    ⟨X'.nodes, X'.edges, I.map (fun i => X'.ins.getD i 0), J.map (fun j => X'.outs.getD j 0)⟩ := by
  obtain ⟨π, ρ, h1, h2, h3, h4, h5, h6⟩ := h
  refine ⟨π, ρ, h1, h2, h3, h4, ?_, ?_⟩
  · show I.map _ = (I.map _).map π
    rw [List.map_map]
    apply List.map_congr_left
    intro i hi
    have := hI i hi
    simp [h5, List.getD_eq_getElem?_getD, List.getElem?_eq_getElem this]
  · show J.map _ = (J.map _).map π
    rw [List.map_map]
    apply List.map_congr_left
    intro j hj
    have := hJ j hj
    simp [h6, List.getD_eq_getElem?_getD, List.getElem?_eq_getElem this]

/-- reading `t.map g` at the position of `v` in `t` gives `g v` -/
theorem map_getD_idxOf (t : List Nat) (g : Nat → Nat) (N : Nat) (h : t.Perm (List.range N)) :
    (List.range N).map (fun v => (t.map g).getD (t.idxOf v) 0) = (List.range N).map g := by
  apply List.map_congr_left
  intro v hv
  have := (perm_pos h).2 v (List.mem_range.1 hv)
  simp [List.getD_eq_getElem?_getD, List.getElem?_map, this]

section roundtrip
variable [DecidableEq O]

/-- `il(fa, ra) ; (il(fa, ra)† ; D ; il(fb, rb)) ; il(fb, rb)†` is `D` again, up to isomorphism
    (segments of arbitrary sizes) -/
theorem il_roundtrip (B : Backend) (hB : B.Lawful) (fa ra fb rb : IC (List O)) (vfa : C08.Valid fa)
    (vra : C08.Valid ra) (vfb : C08.Valid fb) (vrb : C08.Valid rb) (la : fa.len = ra.len)
    (lb : fb.len = rb.len) (D : OHG O A)
    (hD : HasType D (fa.values ++ ra.values) (fb.values ++ rb.values)) :
    ∃ il0 rhs2 e fx d1 d2 : OHG O A, SOptic.interleaveBlocks fa ra = .ok il0 ∧
      SOptic.interleaveBlocks fb rb = .ok rhs2 ∧ OHG.compose B il0.dagger D = .ok e ∧
      OHG.compose B e rhs2 = .ok fx ∧
      HasType fx (interleave fa.segsL ra.segsL) (interleave fb.segsL rb.segsL) ∧
      fx.h.x = D.h.x ∧
      OHG.compose B il0 fx = .ok d1 ∧ OHG.compose B d1 rhs2.dagger = .ok d2 ∧
      HasType d2 (fa.values ++ ra.values) (fb.values ++ rb.values) ∧ d2.h.x = D.h.x ∧
      d2.toPlain ≅ D.toPlain := by
  obtain ⟨il0, h0, t0, x0, p0, m0, _, _⟩ := il_sem (A := A) fa ra vfa vra la
  obtain ⟨rhs2, h2, t2, x2, p2, m2, _, _⟩ := il_sem (A := A) fb rb vfb vrb lb
  obtain ⟨e, he, te, xe, ge, _, _⟩ := compose_sem B hB t0.dagger hD
  obtain ⟨fx, hfx, tfx, xfx, gfx, _, _⟩ := compose_sem B hB te t2
  obtain ⟨d1, hd1, td1, xd1, gd1, _, _⟩ := compose_sem B hB t0 tfx
  obtain ⟨d2, hd2, td2, xd2, gd2, _, _⟩ := compose_sem B hB td1 t2.dagger
  have wD : D.wf = true := (OHG.wf_iff D).2 hD.1
  have w0 : il0.wf = true := (OHG.wf_iff _).2 t0.1
  have w0' : il0.dagger.wf = true := (OHG.wf_iff _).2 t0.dagger.1
  have w2 : rhs2.wf = true := (OHG.wf_iff _).2 t2.1
  have w2' : rhs2.dagger.wf = true := (OHG.wf_iff _).2 t2.dagger.1
  have wfx : fx.wf = true := (OHG.wf_iff _).2 tfx.1
  have hxfx : fx.h.x = D.h.x := by
    rw [xfx, xe, x2]
    show il0.h.x ++ D.h.x ++ [] = D.h.x
    rw [x0]; simp
  refine ⟨il0, rhs2, e, fx, d1, d2, h0, h2, he, hfx, tfx, hxfx, hd1, hd2, td2, ?_, ?_⟩
  · rw [xd2, xd1, x0, hxfx]
    show [] ++ D.h.x ++ rhs2.h.x = D.h.x
    rw [x2]; simp
  · -- the two tables are permutations
    have q0 : (ilTable (fa.sources.table ++ ra.sources.table) fa.len).Perm
        (List.range (fa.values ++ ra.values).length) := by
      have := monogamous_readers_perm (C03.wfP w0) m0
      rw [p0] at this
      simpa [readers, PDiag.n] using this
    have q2 : (ilTable (fb.sources.table ++ rb.sources.table) fb.len).Perm
        (List.range (fb.values ++ rb.values).length) := by
      have := monogamous_readers_perm (C03.wfP w2) m2
      rw [p2] at this
      simpa [readers, PDiag.n] using this
    have lt0 : ∀ v ∈ ilTable (fa.sources.table ++ ra.sources.table) fa.len,
        v < (fa.values ++ ra.values).length := fun v hv => List.mem_range.1 (q0.mem_iff.1 hv)
    have lt2 : ∀ v ∈ ilTable (fb.sources.table ++ rb.sources.table) fb.len,
        v < (fb.values ++ rb.values).length := fun v hv => List.mem_range.1 (q2.mem_iff.1 hv)
    have li : D.toPlain.ins.length = (fa.values ++ ra.values).length :=
      C03.plain_ins_length wD hD.2.1
    have lo : D.toPlain.outs.length = (fb.values ++ rb.values).length :=
      C03.plain_outs_length wD hD.2.2
    -- first conjugation
    have p0' : il0.dagger.toPlain = ⟨fa.values ++ ra.values, [],
        ilTable (fa.sources.table ++ ra.sources.table) fa.len,
        List.range (fa.values ++ ra.values).length⟩ := by
      show il0.toPlain.dagger = _
      rw [p0]; rfl
    have p2' : rhs2.dagger.toPlain = ⟨fb.values ++ rb.values, [],
        ilTable (fb.sources.table ++ rb.sources.table) fb.len,
        List.range (fb.values ++ rb.values).length⟩ := by
      show rhs2.toPlain.dagger = _
      rw [p2]; rfl
    have hS0 : (⟨fa.values ++ ra.values, [], List.range (fa.values ++ ra.values).length,
        ilTable (fa.sources.table ++ ra.sources.table) fa.len⟩ : PDiag O A).wf = true :=
      spider_wf_of_perm _ _ _ (fun v hv => List.mem_range.1 hv) lt0
    have hS0' : (⟨fa.values ++ ra.values, [],
        ilTable (fa.sources.table ++ ra.sources.table) fa.len,
        List.range (fa.values ++ ra.values).length⟩ : PDiag O A).wf = true :=
      spider_wf_of_perm _ _ _ lt0 (fun v hv => List.mem_range.1 hv)
    have hS2 : (⟨fb.values ++ rb.values, [], List.range (fb.values ++ rb.values).length,
        ilTable (fb.sources.table ++ rb.sources.table) fb.len⟩ : PDiag O A).wf = true :=
      spider_wf_of_perm _ _ _ (fun v hv => List.mem_range.1 hv) lt2
    have hS2' : (⟨fb.values ++ rb.values, [],
        ilTable (fb.sources.table ++ rb.sources.table) fb.len,
        List.range (fb.values ++ rb.values).length⟩ : PDiag O A).wf = true :=
      spider_wf_of_perm _ _ _ lt2 (fun v hv => List.mem_range.1 hv)
    have hty1 := C03.plain_types_match w0' wD (t0.dagger.2.2.trans hD.2.1.symm)
    have hty2 : D.toPlain.targetType = rhs2.toPlain.sourceType := by
      rw [C03.plain_target wD hD.2.2, C03.plain_source w2 t2.2.1]
    rw [p0'] at ge hty1
    rw [p2] at gfx hty2
    have key1 := glue_both (u1 := fun v => v) (u2 := fun v => v) (C03.wfP wD) hS0' hS2 hty1 hty2
      (fun _ _ h => (range_getElem?_some h).1) (fun v hv => List.getElem?_range hv)
      (fun _ _ h => (range_getElem?_some h).1) (fun v hv => List.getElem?_range hv) ge gfx
    -- second conjugation
    have hty3 := C03.plain_types_match w0 wfx (t0.2.2.trans tfx.2.1.symm)
    have hty4 : fx.toPlain.targetType = rhs2.dagger.toPlain.sourceType := by
      rw [C03.plain_target wfx tfx.2.2, C03.plain_source w2' t2.dagger.2.1]
    rw [p0] at gd1 hty3
    rw [p2'] at gd2 hty4
    have key2 := glue_both
      (u1 := fun v => (ilTable (fa.sources.table ++ ra.sources.table) fa.len).idxOf v)
      (u2 := fun v => (ilTable (fb.sources.table ++ rb.sources.table) fb.len).idxOf v)
      (C03.wfP wfx) hS0 hS2' hty3 hty4 (perm_pos q0).1 (perm_pos q0).2 (perm_pos q2).1
      (perm_pos q2).2 gd1 gd2
    -- transport along the first isomorphism
    have lfi : fx.toPlain.ins.length = (fa.values ++ ra.values).length := by
      rw [C03.plain_ins_length wfx tfx.2.1, ← C03.plain_outs_length w0 t0.2.2, p0]
      exact q0.length_eq.trans (List.length_range)
    have lfo : fx.toPlain.outs.length = (fb.values ++ rb.values).length := by
      rw [C03.plain_outs_length wfx tfx.2.2, ← C03.plain_outs_length w2 t2.2.2, p2]
      exact q2.length_eq.trans (List.length_range)
    have key3 := iso_reread key1
      ((List.range (fa.values ++ ra.values).length).map
        (fun v => (ilTable (fa.sources.table ++ ra.sources.table) fa.len).idxOf v))
      ((List.range (fb.values ++ rb.values).length).map
        (fun v => (ilTable (fb.sources.table ++ rb.sources.table) fb.len).idxOf v))
      (by
        intro i hi
        obtain ⟨v, hv, rfl⟩ := List.mem_map.1 hi
        rw [lfi, ← List.length_range (n := (fa.values ++ ra.values).length), ← q0.length_eq]
        exact List.idxOf_lt_length_iff.2 (q0.mem_iff.2 hv))
      (by
        intro i hi
        obtain ⟨v, hv, rfl⟩ := List.mem_map.1 hi
        rw [lfo, ← List.length_range (n := (fb.values ++ rb.values).length), ← q2.length_eq]
        exact List.idxOf_lt_length_iff.2 (q2.mem_iff.2 hv))
    simp only [List.map_map, Function.comp_def] at key3
    refine iso_trans key2 (iso_trans key3 ?_)
    rw [map_getD_idxOf _ _ _ q0, map_getD_idxOf _ _ _ q2, ← li, ← lo, map_getD_range,
      map_getD_range]
    exact iso_refl _

end roundtrip

end OH.RevDeriv
