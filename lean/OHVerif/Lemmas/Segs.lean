/-
  Helper lemmas for C08 (segmented arrays): algebra of `splitSegs`, the invariant `valid`,
  closed forms of every `IC` operation and of the iterators.
-/
import OHVerif.Model.Plain
import OHVerif.Lemmas.Prim
import OHVerif.Lemmas.FinFun

namespace OH

variable {α β : Type}

/-! ### `Res` is a lawful monad (needed for `List.mapM`) -/

instance : LawfulMonad Res := LawfulMonad.mk'
  (id_map := fun x => by cases x <;> rfl)
  (pure_bind := fun _ _ => rfl)
  (bind_assoc := fun x _ _ => by cases x <;> rfl)

theorem Res.mapM_ok {γ δ : Type} (f : γ → Res δ) (g : γ → δ) (l : List γ)
    (h : ∀ x ∈ l, f x = .ok (g x)) : l.mapM f = .ok (l.map g) := by
  induction l with
  | nil => rfl
  | cons a l ih =>
    have ha := h a (by simp)
    have ih' := ih (fun x hx => h x (by simp [hx]))
    rw [List.mapM_cons, ha, ih']
    rfl

/-! ### algebra of `splitSegs` -/

@[simp] theorem splitSegs_nil (vs : List α) : splitSegs [] vs = [] := rfl

@[simp] theorem splitSegs_cons (k : Nat) (ks : List Nat) (vs : List α) :
    splitSegs (k :: ks) vs = vs.take k :: splitSegs ks (vs.drop k) := rfl

@[simp] theorem splitSegs_length (ks : List Nat) (vs : List α) :
    (splitSegs ks vs).length = ks.length := by
  induction ks generalizing vs with
  | nil => rfl
  | cons k ks ih => simp [ih]

/-- concatenating the segments gives back the prefix of the values covered by the sizes -/
theorem splitSegs_flatten_take (ks : List Nat) (vs : List α) :
    (splitSegs ks vs).flatten = vs.take ks.sum := by
  induction ks generalizing vs with
  | nil => simp
  | cons k ks ih => simp [ih, List.take_add]

theorem splitSegs_flatten (ks : List Nat) (vs : List α) (h : vs.length ≤ ks.sum) :
    (splitSegs ks vs).flatten = vs := by
  rw [splitSegs_flatten_take, List.take_of_length_le h]

theorem splitSegs_map_length (ks : List Nat) (vs : List α) (h : ks.sum ≤ vs.length) :
    (splitSegs ks vs).map List.length = ks := by
  induction ks generalizing vs with
  | nil => rfl
  | cons k ks ih =>
    simp only [List.sum_cons] at h
    simp only [splitSegs_cons, List.map_cons, List.length_take]
    rw [ih (vs.drop k) (by simp; omega)]
    congr 1
    omega

theorem splitSegs_getD (ks : List Nat) (vs : List α) (j : Nat) :
    (splitSegs ks vs).getD j [] = (vs.drop (ks.take j).sum).take (ks.getD j 0) := by
  induction ks generalizing vs j with
  | nil => simp
  | cons k ks ih =>
    cases j with
    | zero => simp
    | succ j =>
      have := ih (vs.drop k) j
      simp only [List.getD_eq_getElem?_getD] at this
      simp [this]

theorem splitSegs_getD_length (ks : List Nat) (vs : List α) (h : ks.sum ≤ vs.length) (j : Nat) :
    ((splitSegs ks vs).getD j []).length = ks.getD j 0 := by
  have h1 := splitSegs_map_length ks vs h
  have h2 : ((splitSegs ks vs).map List.length).getD j 0 = ks.getD j 0 := by rw [h1]
  rw [← h2]
  simp only [List.getD_eq_getElem?_getD, List.getElem?_map]
  cases (splitSegs ks vs)[j]? <;> rfl

theorem splitSegs_map (f : α → β) (ks : List Nat) (vs : List α) :
    splitSegs ks (vs.map f) = (splitSegs ks vs).map (·.map f) := by
  induction ks generalizing vs with
  | nil => rfl
  | cons k ks ih => simp [← List.map_drop, ih]

theorem splitSegs_append (ks ks' : List Nat) (vs vs' : List α) (h : ks.sum = vs.length) :
    splitSegs (ks ++ ks') (vs ++ vs') = splitSegs ks vs ++ splitSegs ks' vs' := by
  induction ks generalizing vs with
  | nil =>
    have : vs = [] := List.eq_nil_of_length_eq_zero (by simpa using h.symm)
    simp [this]
  | cons k ks ih =>
    simp only [List.sum_cons] at h
    have hk : k ≤ vs.length := by omega
    simp only [List.cons_append, splitSegs_cons, List.take_append_of_le_length hk,
      List.drop_append_of_le_length hk]
    rw [ih (vs.drop k) (by simp; omega)]

/-- the segments of the concatenation of `l`, split by the lengths of `l`, are `l` -/
theorem splitSegs_map_length_flatten (l : List (List α)) :
    splitSegs (l.map List.length) l.flatten = l := by
  induction l with
  | nil => rfl
  | cons a l ih => simp [ih]

theorem splitSegs_replicate_one (vs : List α) :
    splitSegs (List.replicate vs.length 1) vs = vs.map ([·]) := by
  induction vs with
  | nil => rfl
  | cons a vs ih => simp [List.replicate_succ, ih]

theorem splitSegs_take (ms : List Nat) (vs : List α) (k : Nat) :
    (splitSegs ms vs).take k = splitSegs (ms.take k) vs := by
  induction ms generalizing vs k with
  | nil => simp
  | cons m ms ih =>
    cases k with
    | zero => simp
    | succ k => simp [ih]

theorem splitSegs_drop (ms : List Nat) (vs : List α) (k : Nat) :
    (splitSegs ms vs).drop k = splitSegs (ms.drop k) (vs.drop (ms.take k).sum) := by
  induction ms generalizing vs k with
  | nil => simp
  | cons m ms ih =>
    cases k with
    | zero => simp
    | succ k => simp [ih]

/-- regrouping: splitting by group sums = concatenating groups of segments -/
theorem splitSegs_splitSegs (ks ms : List Nat) (vs : List α) :
    splitSegs ((splitSegs ks ms).map List.sum) vs =
      (splitSegs ks (splitSegs ms vs)).map List.flatten := by
  induction ks generalizing ms vs with
  | nil => rfl
  | cons k ks ih =>
    simp only [splitSegs_cons, List.map_cons, splitSegs_take, splitSegs_drop,
      splitSegs_flatten_take, ih]

theorem mem_of_mem_splitSegs (ks : List Nat) (vs : List α) (seg : List α) (x : α)
    (hs : seg ∈ splitSegs ks vs) (hx : x ∈ seg) : x ∈ vs := by
  induction ks generalizing vs with
  | nil => simp at hs
  | cons k ks ih =>
    simp only [splitSegs_cons, List.mem_cons] at hs
    rcases hs with rfl | hs
    · exact List.mem_of_mem_take hx
    · exact List.mem_of_mem_drop (ih _ hs)

/-- `segmentedSum` computes the sum of every segment -/
theorem range_map_segSum (ks xs : List Nat) :
    (List.range ks.length).map (Prim.segSum ks xs) = (splitSegs ks xs).map List.sum := by
  apply List.ext_getElem?
  intro j
  by_cases hj : j < ks.length
  · have h1 : j < (splitSegs ks xs).length := by simpa using hj
    have h2 := splitSegs_getD ks xs j
    simp only [List.getD_eq_getElem?_getD, List.getElem?_eq_getElem h1, Option.getD_some] at h2
    simp [hj, h2, Prim.segSum]
  · simp [hj]

/-! ### small list facts -/

theorem le_sum_of_mem' (l : List Nat) (x : Nat) (h : x ∈ l) : x ≤ l.sum := by
  induction l with
  | nil => simp at h
  | cons a l ih =>
    simp only [List.mem_cons] at h
    simp only [List.sum_cons]
    rcases h with rfl | h
    · omega
    · have := ih h; omega

theorem sum_flatten' (L : List (List Nat)) : L.flatten.sum = (L.map List.sum).sum := by
  induction L with
  | nil => rfl
  | cons a L ih => simp [ih]

theorem flatten_map_flatMap' {γ : Type} (L : List (List α)) (g : α → List γ) :
    (L.map (·.flatMap g)).flatten = L.flatten.flatMap g := by
  induction L with
  | nil => rfl
  | cons a L ih => simp [ih]

theorem gatherP_range' (vs : List α) (a s : Nat) :
    Prim.gatherP vs (List.range' a s) = (vs.drop a).take s := by
  induction s generalizing a with
  | zero => simp [Prim.gatherP]
  | succ s ih =>
    have ih' := ih (a + 1)
    simp only [Prim.gatherP] at ih' ⊢
    by_cases ha : a < vs.length
    · rw [List.range'_succ, List.filterMap_cons, List.getElem?_eq_getElem ha, ih',
        List.drop_eq_getElem_cons ha, List.take_succ_cons]
    · have h1 : vs.length ≤ a := Nat.le_of_not_lt ha
      have h2 : vs.length ≤ a + 1 := by omega
      rw [List.range'_succ, List.filterMap_cons, List.getElem?_eq_none h1, ih',
        List.drop_eq_nil_of_le h1, List.drop_eq_nil_of_le h2]
      simp

/-- gathering along the injections of a family of segments concatenates those segments -/
theorem gatherP_injections (ks : List Nat) (vs : List α) (idx : List Nat) :
    Prim.gatherP vs (idx.flatMap (fun j => List.range' (ks.take j).sum (ks.getD j 0))) =
      idx.flatMap (fun j => (splitSegs ks vs).getD j []) := by
  have h := fun j => gatherP_range' vs (ks.take j).sum (ks.getD j 0)
  simp only [Prim.gatherP] at h
  simp only [Prim.gatherP, List.filterMap_flatMap, h, splitSegs_getD]

theorem injections_table_lt (ks idx : List Nat) (h : ∀ j ∈ idx, j < ks.length) :
    ∀ i ∈ idx.flatMap (fun j => List.range' (ks.take j).sum (ks.getD j 0)), i < ks.sum := by
  intro i hi
  obtain ⟨j, hj, hij⟩ := List.mem_flatMap.1 hi
  have hj' := h j hj
  have h1 := (List.mem_range'_1.1 hij).2
  have h2 := Prim.sum_take_succ ks j hj'
  have h3 := Prim.sum_take_le ks (j + 1)
  have h4 : ks.getD j 0 = ks[j] := by simp [List.getD_eq_getElem?_getD, List.getElem?_eq_getElem hj']
  omega

/-! ### the invariant -/

namespace IC

variable {V : Type}

@[simp] theorem len_finfun (f : FinFun) : HasLen.len f = f.table.length := rfl
@[simp] theorem len_list (l : List α) : HasLen.len l = l.length := rfl

theorem valid_iff [HasLen V] (c : IC V) :
    c.valid = true ↔
      c.sources.target = c.sources.table.sum + 1 ∧ c.sources.table.sum = HasLen.len c.values := by
  simp [valid, Prim.sum_eq]

theorem validate_ok [HasLen V] (c : IC V) (h : c.valid = true) : validate c = .ok c := by
  simp [validate, h]

/-! ### list-of-lists view: round trips -/

theorem segs_length (c : IC FinFun) : c.segs.length = c.len := splitSegs_length _ _

theorem segsL_length (c : IC (List α)) : c.segsL.length = c.len := splitSegs_length _ _

theorem segs_flatten (c : IC FinFun) (h : c.valid = true) : c.segs.flatten = c.values.table := by
  have h2 := ((valid_iff c).1 h).2
  exact splitSegs_flatten _ _ (Nat.le_of_eq h2.symm)

theorem segsL_flatten (c : IC (List α)) (h : c.valid = true) : c.segsL.flatten = c.values := by
  have h2 := ((valid_iff c).1 h).2
  exact splitSegs_flatten _ _ (Nat.le_of_eq h2.symm)

theorem segs_map_length (c : IC FinFun) (h : c.valid = true) :
    c.segs.map List.length = c.sources.table := by
  have h2 := ((valid_iff c).1 h).2
  exact splitSegs_map_length _ _ (Nat.le_of_eq h2)

theorem segsL_map_length (c : IC (List α)) (h : c.valid = true) :
    c.segsL.map List.length = c.sources.table := by
  have h2 := ((valid_iff c).1 h).2
  exact splitSegs_map_length _ _ (Nat.le_of_eq h2)

theorem segs_ofSegs (l : List (List Nat)) (t : Nat) : (ofSegs l t).segs = l :=
  splitSegs_map_length_flatten l

theorem segsL_ofSegsL (l : List (List α)) : (ofSegsL l).segsL = l :=
  splitSegs_map_length_flatten l

theorem ofSegs_valid (l : List (List Nat)) (t : Nat) : (ofSegs l t).valid = true := by
  rw [valid_iff]
  simp [ofSegs, FinFun.foldl_add_eq, List.length_flatten]

theorem ofSegsL_valid (l : List (List α)) : (ofSegsL l).valid = true := by
  rw [valid_iff]
  simp [ofSegsL, FinFun.foldl_add_eq, List.length_flatten]

theorem ofSegs_segs (c : IC FinFun) (h : c.valid = true) : ofSegs c.segs c.values.target = c := by
  have hl := segs_map_length c h
  have hf := segs_flatten c h
  have h1 := ((valid_iff c).1 h).1
  obtain ⟨⟨st, tg⟩, ⟨vt, vg⟩⟩ := c
  simp only at h1
  subst h1
  unfold ofSegs
  rw [hl, hf]
  simp [FinFun.foldl_add_eq]

theorem ofSegsL_segsL (c : IC (List α)) (h : c.valid = true) : ofSegsL c.segsL = c := by
  have hl := segsL_map_length c h
  have hf := segsL_flatten c h
  have h1 := ((valid_iff c).1 h).1
  obtain ⟨⟨st, tg⟩, vt⟩ := c
  simp only at h1
  subst h1
  unfold ofSegsL
  rw [hl, hf]
  simp [FinFun.foldl_add_eq]

/-- a segmented array is determined by its list of lists once sizes and values are as expected -/
theorem segs_eq_of (c : IC FinFun) (L : List (List Nat)) (h1 : c.sources.table = L.map List.length)
    (h2 : c.values.table = L.flatten) : c.segs = L := by
  unfold segs; rw [h1, h2]; exact splitSegs_map_length_flatten L

theorem segsL_eq_of (c : IC (List α)) (L : List (List α))
    (h1 : c.sources.table = L.map List.length) (h2 : c.values = L.flatten) : c.segsL = L := by
  unfold segsL; rw [h1, h2]; exact splitSegs_map_length_flatten L

/-! ### checked construction -/

theorem finfun_new_ok (t : List Nat) (n : Nat) (h : ∀ x ∈ t, x < n) :
    FinFun.new t n = .ok ⟨t, n⟩ := by
  unfold FinFun.new
  cases hm : Prim.max t with
  | none => rfl
  | some m =>
    have := h m (Prim.max_eq_some t m hm).1
    simp only [ge_iff_le]
    rw [if_neg (by omega)]

theorem finfun_new_cases (t : List Nat) (n : Nat) :
    FinFun.new t n = .none ∨ FinFun.new t n = .ok ⟨t, n⟩ := by
  unfold FinFun.new
  split
  · split <;> simp
  · simp

theorem fromSemifinite_eq [HasLen V] (sizes : List Nat) (v : V) :
    fromSemifinite sizes v =
      if sizes.sum = HasLen.len v then .ok ⟨⟨sizes, HasLen.len v + 1⟩, v⟩ else .none := by
  unfold fromSemifinite
  by_cases h : sizes.sum = HasLen.len v
  · rw [if_pos h, finfun_new_ok]
    · have hv : (⟨⟨sizes, HasLen.len v + 1⟩, v⟩ : IC V).valid = true := by
        rw [valid_iff]; simp [h]
      simp [validate, hv]
    · intro x hx
      have := le_sum_of_mem' sizes x hx
      omega
  · rw [if_neg h]
    rcases finfun_new_cases sizes (HasLen.len v + 1) with h1 | h1
    · rw [h1]; rfl
    · rw [h1]
      have hv : (⟨⟨sizes, HasLen.len v + 1⟩, v⟩ : IC V).valid = false := by
        rw [Bool.eq_false_iff]; intro hv
        exact h ((valid_iff _).1 hv).2
      simp [validate, hv]

/-! ### singleton, elements, initial -/

theorem singleton_segs (v : FinFun) : (singleton v).segs = [v.table] := by
  simp [singleton, segs, FinFun.constant]

theorem singleton_segsL (v : List α) : (singleton v).segsL = [v] := by
  simp [singleton, segsL, FinFun.constant]

theorem singleton_valid [HasLen V] (v : V) : (singleton v).valid = true := by
  simp [singleton, FinFun.constant, valid, Prim.sum]

theorem elements_eq [HasLen V] (v : V) :
    elements v = .ok ⟨⟨List.replicate (HasLen.len v) 1, HasLen.len v + 1⟩, v⟩ := by
  unfold elements
  have hn : FinFun.new (List.replicate (HasLen.len v) 1) (HasLen.len v + 1) =
      .ok ⟨List.replicate (HasLen.len v) 1, HasLen.len v + 1⟩ := by
    apply finfun_new_ok
    intro x hx
    have := (List.mem_replicate.1 hx).2
    have := (List.mem_replicate.1 hx).1
    omega
  have hv : (⟨⟨List.replicate (HasLen.len v) 1, HasLen.len v + 1⟩, v⟩ : IC V).valid = true := by
    rw [valid_iff]; simp
  simp [hn, IC.new, validate, hv]

theorem initial_segs (t : Nat) : (initial t).segs = [] := rfl

theorem initial_valid (t : Nat) : (initial t).valid = true := rfl

/-! ### coproduct and tensor -/

theorem coproduct_eq (c d : IC FinFun) (hc : c.valid = true) (hd : d.valid = true)
    (ht : c.values.target = d.values.target) :
    coproduct c d = .ok ⟨⟨c.sources.table ++ d.sources.table,
      (c.sources.table ++ d.sources.table).sum + 1⟩,
      ⟨c.values.table ++ d.values.table, c.values.target⟩⟩ := by
  have h1 := ((valid_iff c).1 hc).1
  have h2 := ((valid_iff d).1 hd).1
  have hle : 1 ≤ c.sources.target + d.sources.target := by omega
  have e : c.sources.target + d.sources.target - 1 =
      (c.sources.table ++ d.sources.table).sum + 1 := by simp; omega
  simp [coproduct, checkedSub, Vals.coprod, FinFun.coproduct, ht, hle, e]

theorem coproduct_none (c d : IC FinFun) (h1 : 1 ≤ c.sources.target + d.sources.target)
    (ht : c.values.target ≠ d.values.target) : coproduct c d = .none := by
  simp [coproduct, checkedSub, Vals.coprod, FinFun.coproduct, ht, h1]

theorem coproduct_panic [Vals V] (c d : IC V) (h : c.sources.target + d.sources.target = 0) :
    coproduct c d = .panic "ic.coproduct:underflow" := by
  simp [coproduct, checkedSub, h]

theorem coproductL_eq (c d : IC (List α)) (hc : c.valid = true) (hd : d.valid = true) :
    coproduct c d = .ok ⟨⟨c.sources.table ++ d.sources.table,
      (c.sources.table ++ d.sources.table).sum + 1⟩, c.values ++ d.values⟩ := by
  have h1 := ((valid_iff c).1 hc).1
  have h2 := ((valid_iff d).1 hd).1
  have hle : 1 ≤ c.sources.target + d.sources.target := by omega
  have e : c.sources.target + d.sources.target - 1 =
      (c.sources.table ++ d.sources.table).sum + 1 := by simp; omega
  simp [coproduct, checkedSub, Vals.coprod, hle, e]

theorem tensor_eq (c d : IC FinFun) (hc : c.valid = true) (hd : d.valid = true) :
    tensor c d = .ok ⟨⟨c.sources.table ++ d.sources.table,
      (c.sources.table ++ d.sources.table).sum + 1⟩,
      ⟨c.values.table ++ d.values.table.map (c.values.target + ·),
        c.values.target + d.values.target⟩⟩ := by
  have h1 := ((valid_iff c).1 hc).1
  have h2 := ((valid_iff d).1 hd).1
  have hle : 1 ≤ c.sources.target + d.sources.target := by omega
  have e : c.sources.target + d.sources.target - 1 =
      (c.sources.table ++ d.sources.table).sum + 1 := by simp; omega
  simp [tensor, checkedSub, FinFun.tensor, hle, e]

/-! ### mapping the values -/

theorem mapValues_eq (c : IC FinFun) (x : FinFun) (hw : c.values.WF)
    (h : c.values.target = x.source) :
    mapValues c x = .ok ⟨c.sources, ⟨c.values.table.map (fun i => x.table.getD i 0), x.target⟩⟩ := by
  unfold mapValues
  rw [FinFun.compose_ok_map c.values x (fun i => x.table.getD i 0) h]
  · rfl
  · intro i hi
    have : i < x.table.length := by have := hw i hi; rw [h] at this; exact this
    simp [List.getD_eq_getElem?_getD, List.getElem?_eq_getElem this]

theorem mapValues_none_iff (c : IC FinFun) (x : FinFun) :
    mapValues c x = .none ↔ c.values.target ≠ x.source := by
  unfold mapValues FinFun.compose
  by_cases h : c.values.target = x.source
  · simp only [h, if_true, ne_eq, not_true_eq_false, iff_false]
    have := FinFun.gather_ne_none x.table c.values.table
    cases hg : Prim.gather x.table c.values.table <;> simp_all
  · simp [h]

theorem mapSemifinite_eq (c : IC FinFun) (x : List α) (hw : c.values.WF)
    (h : c.values.target = x.length) :
    mapSemifinite c x = .ok ⟨c.sources, Prim.gatherP x c.values.table⟩ := by
  unfold mapSemifinite
  rw [FinFun.composeSemi_ok c.values x hw h]
  rfl

theorem mapSemifinite_none_iff (c : IC FinFun) (x : List α) :
    mapSemifinite c x = .none ↔ c.values.target ≠ x.length := by
  unfold mapSemifinite FinFun.composeSemi
  by_cases h : c.values.target = x.length
  · simp only [h, if_true, ne_eq, not_true_eq_false, iff_false]
    have := FinFun.gather_ne_none x c.values.table
    cases hg : Prim.gather x c.values.table <;> simp_all
  · simp [h]

/-! ### re-indexing -/

theorem compose_sources (x s : FinFun) (hx : x.WF) (h : x.target = s.source) :
    FinFun.compose x s = .ok ⟨x.table.map (fun j => s.table.getD j 0), s.target⟩ := by
  apply FinFun.compose_ok_map x s _ h
  intro i hi
  have : i < s.table.length := by have := hx i hi; rw [h] at this; exact this
  simp [List.getD_eq_getElem?_getD, List.getElem?_eq_getElem this]

theorem injections_wf (s a : FinFun) (ha : a.WF) (h : a.target = s.source) :
    (⟨a.table.flatMap (fun x => List.range' (s.table.take x).sum (s.table.getD x 0)),
      s.table.sum⟩ : FinFun).WF := by
  apply injections_table_lt
  intro j hj
  have := ha j hj; rw [h] at this; exact this

theorem indexedValues_eq (c : IC FinFun) (x : FinFun) (hc : c.valid = true) (hx : x.WF)
    (h : x.target = c.len) :
    indexedValues c x = .ok ⟨x.table.flatMap (fun j => c.segs.getD j []), c.values.target⟩ := by
  have h2 := ((valid_iff c).1 hc).2
  unfold indexedValues
  rw [FinFun.injections_ok c.sources x hx h]
  simp only [Res.ok_bind, Vals.precomp]
  rw [FinFun.compose_ok _ _ (injections_wf c.sources x hx h) h2]
  simp only [gatherP_injections]
  rfl

theorem indexedValuesL_eq (c : IC (List α)) (x : FinFun) (hc : c.valid = true) (hx : x.WF)
    (h : x.target = c.len) :
    indexedValues c x = .ok (x.table.flatMap (fun j => c.segsL.getD j [])) := by
  have h2 := ((valid_iff c).1 hc).2
  unfold indexedValues
  rw [FinFun.injections_ok c.sources x hx h]
  simp only [Res.ok_bind, Vals.precomp]
  rw [FinFun.composeSemi_ok _ _ (injections_wf c.sources x hx h) h2]
  simp only [gatherP_injections]
  rfl

theorem sum_map_getD_sizes (ks : List Nat) (vs : List α) (idx : List Nat) (h : ks.sum ≤ vs.length) :
    (idx.map (fun j => ks.getD j 0)).sum =
      (idx.flatMap (fun j => (splitSegs ks vs).getD j [])).length := by
  rw [List.length_flatMap]
  simp only [splitSegs_getD_length ks vs h]

theorem mapIndexes_eq (c : IC FinFun) (x : FinFun) (hc : c.valid = true) (hx : x.WF)
    (h : x.target = c.len) :
    mapIndexes c x = .ok ⟨⟨x.table.map (fun j => c.sources.table.getD j 0),
        (x.table.flatMap (fun j => c.segs.getD j [])).length + 1⟩,
      ⟨x.table.flatMap (fun j => c.segs.getD j []), c.values.target⟩⟩ := by
  have h2 := ((valid_iff c).1 hc).2
  unfold mapIndexes
  rw [compose_sources x c.sources hx h, indexedValues_eq c x hc hx h]
  simp only [Res.ok_bind, fromSemifinite_eq]
  rw [if_pos]
  · rfl
  · exact sum_map_getD_sizes _ _ _ (Nat.le_of_eq h2)

theorem mapIndexesL_eq (c : IC (List α)) (x : FinFun) (hc : c.valid = true) (hx : x.WF)
    (h : x.target = c.len) :
    mapIndexes c x = .ok ⟨⟨x.table.map (fun j => c.sources.table.getD j 0),
        (x.table.flatMap (fun j => c.segsL.getD j [])).length + 1⟩,
      x.table.flatMap (fun j => c.segsL.getD j [])⟩ := by
  have h2 := ((valid_iff c).1 hc).2
  unfold mapIndexes
  rw [compose_sources x c.sources hx h, indexedValuesL_eq c x hc hx h]
  simp only [Res.ok_bind, fromSemifinite_eq]
  rw [if_pos]
  · rfl
  · exact sum_map_getD_sizes _ _ _ (Nat.le_of_eq h2)

theorem mapIndexes_none [Vals V] (c : IC V) (x : FinFun) (h : x.target ≠ c.len) :
    mapIndexes c x = .none := by
  unfold mapIndexes
  rw [FinFun.compose_none x c.sources h]
  rfl

/-! ### flatmap -/

theorem flatmap_sizes_sum (c d : IC FinFun) (hc : c.valid = true) (hd : d.valid = true) :
    ((splitSegs c.sources.table
      (c.values.table.map (fun j => d.sources.table.getD j 0))).map List.sum).sum =
      (c.values.table.flatMap (fun j => d.segs.getD j [])).length := by
  have hc2 := ((valid_iff c).1 hc).2
  have hd2 := ((valid_iff d).1 hd).2
  simp only [len_finfun] at hc2 hd2
  rw [← sum_flatten', splitSegs_flatten _ _ (by simp [hc2]), List.length_flatMap]
  simp only [segs, splitSegs_getD_length _ _ (Nat.le_of_eq hd2)]

theorem flatmap_eq (c d : IC FinFun) (hc : c.valid = true) (hw : c.values.WF) (hd : d.valid = true)
    (h : c.values.target = d.len) :
    flatmap c d = .ok ⟨⟨(splitSegs c.sources.table
          (c.values.table.map (fun j => d.sources.table.getD j 0))).map List.sum,
        (c.values.table.flatMap (fun j => d.segs.getD j [])).length + 1⟩,
      ⟨c.values.table.flatMap (fun j => d.segs.getD j []), d.values.target⟩⟩ := by
  have hc2 := ((valid_iff c).1 hc).2
  have hd2 := ((valid_iff d).1 hd).2
  simp only [len_finfun] at hc2 hd2
  have hsum := flatmap_sizes_sum c d hc hd
  unfold flatmap
  rw [if_pos h, compose_sources c.values d.sources hw h]
  simp only [Res.unwrap_ok, Res.ok_bind]
  rw [Prim.segmentedSum_ok _ _ (by simp [hc2])]
  simp only [Res.ok_bind]
  rw [FinFun.injections_ok d.sources c.values hw h]
  simp only [Res.unwrap_ok, Res.ok_bind]
  rw [FinFun.compose_ok _ _ (injections_wf d.sources c.values hw h) hd2]
  simp only [Res.unwrap_ok, Res.ok_bind, gatherP_injections, range_map_segSum, fromSemifinite_eq]
  rw [if_pos (show _ = HasLen.len (_ : FinFun) from hsum)]
  rfl

theorem flatmap_segs_aux (c d : IC FinFun) (hc : c.valid = true) (hd : d.valid = true) :
    splitSegs ((splitSegs c.sources.table
        (c.values.table.map (fun j => d.sources.table.getD j 0))).map List.sum)
      (c.values.table.flatMap (fun j => d.segs.getD j [])) =
    c.segs.map (fun seg => seg.flatMap (fun j => d.segs.getD j [])) := by
  have hd2 := ((valid_iff d).1 hd).2
  simp only [len_finfun] at hd2
  have h1 : (splitSegs c.sources.table
        (c.values.table.map (fun j => d.sources.table.getD j 0))).map List.sum =
      (c.segs.map (fun seg => seg.flatMap (fun j => d.segs.getD j []))).map List.length := by
    simp only [splitSegs_map, List.map_map, segs]
    apply List.map_congr_left
    intro seg _
    simp only [Function.comp, List.length_flatMap, splitSegs_getD_length _ _ (Nat.le_of_eq hd2)]
  have h2 : c.values.table.flatMap (fun j => d.segs.getD j []) =
      (c.segs.map (fun seg => seg.flatMap (fun j => d.segs.getD j []))).flatten := by
    rw [flatten_map_flatMap', segs_flatten c hc]
  rw [h1, h2]
  exact splitSegs_map_length_flatten _

theorem flatmap_panic (c d : IC FinFun) (h : c.values.target ≠ d.len) :
    flatmap c d = .panic "flatmap:assert" := by
  simp [flatmap, h]

/-! ### flatmap of sources -/

theorem flatmapSources_eq {W : Type} [HasLen V] (c : IC V) (d : IC W) (hc : c.valid = true)
    (h : HasLen.len c.values = d.len) :
    flatmapSources c d =
      .ok ⟨⟨(splitSegs c.sources.table d.sources.table).map List.sum, d.sources.target⟩,
        d.values⟩ := by
  have hc2 := ((valid_iff c).1 hc).2
  unfold flatmapSources
  rw [if_pos h, Prim.segmentedSum_ok _ _ (by rw [hc2, h]; exact Nat.le_refl _)]
  simp only [Res.ok_bind, range_map_segSum]
  rfl

theorem flatmapSources_panic {W : Type} [HasLen V] (c : IC V) (d : IC W)
    (h : HasLen.len c.values ≠ d.len) :
    flatmapSources c d = .panic "flatmap_sources:assert" := by
  simp [flatmapSources, h]

theorem sum_regroup (ks ms : List Nat) (h : ms.length ≤ ks.sum) :
    ((splitSegs ks ms).map List.sum).sum = ms.sum := by
  rw [← sum_flatten', splitSegs_flatten _ _ h]

/-! ### iterators -/

theorem range_map_getD (l : List (List α)) :
    (List.range l.length).map (fun k => l.getD k []) = l := by
  apply List.ext_getElem?
  intro j
  by_cases hj : j < l.length
  · simp [hj]
  · simp [hj]

/-- one step of either slice iterator: the `i`-th slice -/
theorem slice_step (sizes : List Nat) (values : List α) (h : sizes.sum ≤ values.length)
    (i : Nat) (hi : i < sizes.length) :
    (do let a ← Prim.get (Prim.cumulativeSum sizes) i
        let b ← Prim.get (Prim.cumulativeSum sizes) (i + 1)
        Prim.slice values a b) = Res.ok ((splitSegs sizes values).getD i []) := by
  have ha : Prim.get (Prim.cumulativeSum sizes) i = .ok (sizes.take i).sum := by
    simp [Prim.get, Prim.cumulativeSum_getElem? sizes i (Nat.le_of_lt hi), Res.ofOption]
  have hb : Prim.get (Prim.cumulativeSum sizes) (i + 1) = .ok (sizes.take (i + 1)).sum := by
    simp [Prim.get, Prim.cumulativeSum_getElem? sizes (i + 1) hi, Res.ofOption]
  have h1 := Prim.sum_take_succ sizes i hi
  have h2 := Prim.sum_take_le sizes (i + 1)
  have h3 : sizes.getD i 0 = sizes[i] := by
    simp [List.getD_eq_getElem?_getD, List.getElem?_eq_getElem hi]
  rw [ha, hb]
  simp only [Res.ok_bind]
  rw [Prim.slice_ok _ _ _ (by omega), splitSegs_getD, h3]
  congr 2
  omega

theorem next_some (sizes : List Nat) (values : List α) (h : sizes.sum ≤ values.length)
    (i : Nat) (hi : i < sizes.length) :
    (⟨Prim.cumulativeSum sizes, values, i⟩ : IterState α).next =
      .ok (some ((splitSegs sizes values).getD i []), ⟨Prim.cumulativeSum sizes, values, i + 1⟩) := by
  have hstep := slice_step sizes values h i hi
  unfold IterState.next
  simp only [Prim.cumulativeSum_length, checkedSub, Nat.le_add_left, if_true, Nat.add_sub_cancel,
    Res.ok_bind, ge_iff_le]
  rw [if_neg (by omega)]
  cases ha : Prim.get (Prim.cumulativeSum sizes) i with
  | ok a =>
    cases hb : Prim.get (Prim.cumulativeSum sizes) (i + 1) with
    | ok b =>
      rw [ha, hb] at hstep
      simp only [Res.ok_bind] at hstep ⊢
      rw [hstep]; rfl
    | none => rw [ha, hb] at hstep; cases hstep
    | panic s => rw [ha, hb] at hstep; cases hstep
  | none => rw [ha] at hstep; cases hstep
  | panic s => rw [ha] at hstep; cases hstep

theorem next_none (sizes : List Nat) (values : List α) (i : Nat) (hi : sizes.length ≤ i) :
    (⟨Prim.cumulativeSum sizes, values, i⟩ : IterState α).next =
      .ok (Option.none, ⟨Prim.cumulativeSum sizes, values, i⟩) := by
  unfold IterState.next
  simp only [Prim.cumulativeSum_length, checkedSub, Nat.le_add_left, if_true, Nat.add_sub_cancel,
    Res.ok_bind, ge_iff_le]
  rw [if_pos hi]; rfl

theorem remaining_eq (st : IterState α) (h : st.index + 1 ≤ st.pointers.length) :
    st.remaining = .ok (st.pointers.length - 1 - st.index) := by
  unfold IterState.remaining checkedSub
  have h1 : 1 ≤ st.pointers.length := by omega
  have h2 : st.index ≤ st.pointers.length - 1 := by omega
  simp [h1, h2]

theorem iterTrace_from (sizes : List Nat) (values : List α) (h : sizes.sum ≤ values.length)
    (m i fuel : Nat) (hm : i + m = sizes.length) (hf : m + 1 ≤ fuel) :
    iterTrace fuel (⟨Prim.cumulativeSum sizes, values, i⟩ : IterState α) =
      .ok ((List.range' i m).map
        (fun k => ((splitSegs sizes values).getD k [], sizes.length - (k + 1)))) := by
  induction m generalizing i fuel with
  | zero =>
    obtain ⟨f, rfl⟩ : ∃ f, fuel = f + 1 := ⟨fuel - 1, by omega⟩
    simp only [iterTrace]
    rw [next_none sizes values i (by omega)]
    rfl
  | succ m ih =>
    obtain ⟨f, rfl⟩ : ∃ f, fuel = f + 1 := ⟨fuel - 1, by omega⟩
    simp only [iterTrace]
    rw [next_some sizes values h i (by omega)]
    simp only [Res.ok_bind]
    rw [remaining_eq _ (by simp only [Prim.cumulativeSum_length]; omega),
      ih (i + 1) f (by omega) (by omega)]
    simp only [Res.ok_bind, Prim.cumulativeSum_length, Res.pure_eq, List.range'_succ,
      List.map_cons]
    congr 3

theorem iterTrace_eq (sizes : List Nat) (values : List α) (h : sizes.sum ≤ values.length)
    (fuel : Nat) (hf : sizes.length + 1 ≤ fuel) :
    iterTrace fuel (intoIter sizes values) =
      .ok ((List.range sizes.length).map
        (fun k => ((splitSegs sizes values).getD k [], sizes.length - (k + 1)))) := by
  unfold intoIter
  rw [iterTrace_from sizes values h sizes.length 0 fuel (by omega) hf, List.range_eq_range']

theorem sliceIter_eq (c : IC (List α)) (h : c.sources.table.sum ≤ c.values.length) :
    sliceIter c = .ok c.segsL := by
  unfold sliceIter
  simp only [Prim.cumulativeSum_length, checkedSub, Nat.le_add_left, if_true, Nat.add_sub_cancel,
    Res.ok_bind]
  rw [Res.mapM_ok _ (fun i => c.segsL.getD i [])]
  · have := range_map_getD c.segsL
    rw [segsL_length] at this
    exact congrArg Res.ok this
  · intro i hi
    exact slice_step c.sources.table c.values h i (List.mem_range.1 hi)

/-! ### element-exact (`some`-wrapped) forms -/

theorem map_getD_some (l : List β) (d : β) (idx : List Nat) (h : ∀ j ∈ idx, j < l.length) :
    (idx.map (fun j => l.getD j d)).map some = idx.map (fun j => l[j]?) := by
  rw [List.map_map]
  apply List.map_congr_left
  intro j hj
  simp [List.getD_eq_getElem?_getD, List.getElem?_eq_getElem (h j hj)]

theorem splitSegs_map_some (ks : List Nat) (vs : List α) (f : α → β) (g : α → Option β)
    (h : ∀ a ∈ vs, some (f a) = g a) :
    (splitSegs ks (vs.map f)).map (·.map some) = (splitSegs ks vs).map (·.map g) := by
  rw [← splitSegs_map, ← splitSegs_map, List.map_map]
  congr 1
  apply List.map_congr_left
  intro a ha
  exact h a ha

theorem mk_valid [HasLen V] (s : FinFun) (v : V) (h1 : s.target = s.table.sum + 1)
    (h2 : s.table.sum = HasLen.len v) : (⟨s, v⟩ : IC V).valid = true :=
  (valid_iff _).2 ⟨h1, h2⟩

end IC

end OH
