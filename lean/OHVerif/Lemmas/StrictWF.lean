/-
  Helper lemmas for C05 (well-formedness and types of the results of the strict constructors and
  categorical operations): the Prop-level reading `IC.WF / HG.WF / OHG.WF` of the executable deep
  well-formedness checks `IC.wf / HG.wf / OHG.wf`, closed forms of every strict constructor, and
  the `gather` algebra needed to compute boundary types.
-/
import OHVerif.Model.Strict
import OHVerif.Lemmas.Segs
import OHVerif.Props.C06
import OHVerif.Props.C08

namespace OH

variable {O A : Type} {α : Type}

/-! ### Prop-level well-formedness -/

/-- Readable well-formedness of a segmented array of node references. -/
structure IC.WF (c : IC FinFun) : Prop where
  /-- the declared codomain of the size map is the total size plus one -/
  bound : c.sources.target = c.sources.table.sum + 1
  /-- segment sizes add up to the length of the incidence array -/
  sizes : c.sources.table.sum = c.values.table.length
  /-- every node reference is in range -/
  range : ∀ v ∈ c.values.table, v < c.values.target

/-- Readable well-formedness of a hypergraph. -/
structure HG.WF (h : HG O A) : Prop where
  /-- the source incidence array is a well-formed segmented array -/
  src : h.s.WF
  /-- the target incidence array is a well-formed segmented array -/
  tgt : h.t.WF
  /-- one source list per hyperedge -/
  src_count : h.s.sources.table.length = h.x.length
  /-- one target list per hyperedge -/
  tgt_count : h.t.sources.table.length = h.x.length
  /-- source incidences refer to the nodes of this hypergraph -/
  src_nodes : h.s.values.target = h.w.length
  /-- target incidences refer to the nodes of this hypergraph -/
  tgt_nodes : h.t.values.target = h.w.length

/-- Readable well-formedness of an open hypergraph. -/
structure OHG.WF (f : OHG O A) : Prop where
  /-- the apex hypergraph is well-formed -/
  hyper : f.h.WF
  /-- every node reference in the source interface is below its declared codomain … -/
  src_wf : f.s.WF
  /-- … and so is every node reference in the target interface -/
  tgt_wf : f.t.WF
  /-- … which is the number of nodes -/
  src_nodes : f.s.target = f.h.w.length
  tgt_nodes : f.t.target = f.h.w.length

theorem IC.WF.valid {c : IC FinFun} (h : c.WF) : c.valid = true :=
  (IC.valid_iff c).2 ⟨h.bound, h.sizes⟩

theorem IC.wf_iff (c : IC FinFun) : c.wf = true ↔ c.WF := by
  unfold IC.wf
  rw [Bool.and_eq_true, Bool.and_eq_true, IC.valid_iff, FinFun.wf_iff, FinFun.wf_iff]
  constructor
  · rintro ⟨⟨⟨h1, h2⟩, _⟩, h3⟩
    exact ⟨h1, h2, h3⟩
  · intro h
    refine ⟨⟨⟨h.bound, h.sizes⟩, ?_⟩, h.range⟩
    intro x hx
    have := le_sum_of_mem' _ x hx
    rw [h.bound]
    omega

theorem HG.wf_iff (h : HG O A) : h.wf = true ↔ h.WF := by
  unfold HG.wf
  simp only [Bool.and_eq_true, beq_iff_eq, IC.wf_iff]
  constructor
  · rintro ⟨⟨⟨⟨⟨h1, h2⟩, h3⟩, h4⟩, h5⟩, h6⟩
    exact ⟨h1, h2, h3, h4, h5, h6⟩
  · intro h
    exact ⟨⟨⟨⟨⟨h.src, h.tgt⟩, h.src_count⟩, h.tgt_count⟩, h.src_nodes⟩, h.tgt_nodes⟩

/-- the bridge: the executable deep check decides the readable conditions -/
theorem OHG.wf_iff (f : OHG O A) : f.wf = true ↔ f.WF := by
  unfold OHG.wf
  simp only [Bool.and_eq_true, beq_iff_eq, HG.wf_iff, FinFun.wf_iff]
  constructor
  · rintro ⟨⟨⟨⟨h1, h2⟩, h3⟩, h4⟩, h5⟩
    exact ⟨h1, h2, h3, h4, h5⟩
  · intro h
    exact ⟨⟨⟨⟨h.hyper, h.src_wf⟩, h.tgt_wf⟩, h.src_nodes⟩, h.tgt_nodes⟩

instance (c : IC FinFun) : Decidable c.WF := decidable_of_iff _ (IC.wf_iff c)
instance (h : HG O A) : Decidable h.WF := decidable_of_iff _ (HG.wf_iff h)
instance (f : OHG O A) : Decidable f.WF := decidable_of_iff _ (OHG.wf_iff f)

/-! ### readable consequences -/

theorem HG.WF.src_lt {h : HG O A} (hw : h.WF) : ∀ v ∈ h.s.values.table, v < h.w.length := by
  intro v hv; rw [← hw.src_nodes]; exact hw.src.range v hv

theorem HG.WF.tgt_lt {h : HG O A} (hw : h.WF) : ∀ v ∈ h.t.values.table, v < h.w.length := by
  intro v hv; rw [← hw.tgt_nodes]; exact hw.tgt.range v hv

theorem OHG.WF.src_lt {f : OHG O A} (hw : f.WF) : ∀ v ∈ f.s.table, v < f.h.w.length := by
  intro v hv; rw [← hw.src_nodes]; exact hw.src_wf v hv

theorem OHG.WF.tgt_lt {f : OHG O A} (hw : f.WF) : ∀ v ∈ f.t.table, v < f.h.w.length := by
  intro v hv; rw [← hw.tgt_nodes]; exact hw.tgt_wf v hv

/-- list-of-lists reading: as many source lists as edges, they cover the incidence array exactly
    and have the declared sizes, and every entry of every list is a node -/
theorem IC.WF.segs_spec {c : IC FinFun} (h : c.WF) :
    c.segs.length = c.sources.table.length ∧ c.segs.flatten = c.values.table ∧
      c.segs.map List.length = c.sources.table ∧
      ∀ seg ∈ c.segs, ∀ v ∈ seg, v < c.values.target := by
  refine ⟨IC.segs_length c, IC.segs_flatten c h.valid, IC.segs_map_length c h.valid, ?_⟩
  intro seg hs v hv
  exact h.range v (mem_of_mem_splitSegs _ _ seg v hs hv)

/-- a well-formed open hypergraph denotes a well-formed plain diagram -/
theorem OHG.WF.toPlain_wf {f : OHG O A} (hw : f.WF) : f.toPlain.wf = true := by
  unfold PDiag.wf OHG.toPlain PDiag.n
  simp only [Bool.and_eq_true, List.all_eq_true, decide_eq_true_eq]
  refine ⟨⟨hw.src_lt, hw.tgt_lt⟩, ?_⟩
  intro e he
  unfold HG.toPlainEdges at he
  obtain ⟨i, hi⟩ := List.mem_iff_getElem?.1 he
  rw [List.getElem?_zipWith] at hi
  cases hx : f.h.x[i]? with
  | none => rw [hx] at hi; simp at hi
  | some x =>
    cases hz : (f.h.s.segs.zip f.h.t.segs)[i]? with
    | none => rw [hx, hz] at hi; simp at hi
    | some st =>
      rw [hx, hz] at hi
      simp only [Option.some.injEq] at hi
      subst hi
      obtain ⟨h1, h2⟩ := List.getElem?_zip_eq_some.1 hz
      have m1 := List.mem_of_getElem? h1
      have m2 := List.mem_of_getElem? h2
      refine ⟨fun v hv => ?_, fun v hv => ?_⟩
      · rw [← hw.hyper.src_nodes]; exact hw.hyper.src.segs_spec.2.2.2 _ m1 v hv
      · rw [← hw.hyper.tgt_nodes]; exact hw.hyper.tgt.segs_spec.2.2.2 _ m2 v hv

/-! ### gather algebra -/

theorem gatherP_append_idx (xs : List α) (i j : List Nat) :
    Prim.gatherP xs (i ++ j) = Prim.gatherP xs i ++ Prim.gatherP xs j := by
  simp [Prim.gatherP, List.filterMap_append]

theorem gatherP_congr (xs ys : List α) (idx : List Nat) (h : ∀ i ∈ idx, xs[i]? = ys[i]?) :
    Prim.gatherP xs idx = Prim.gatherP ys idx := by
  induction idx with
  | nil => rfl
  | cons i is ih =>
    have hi := h i (by simp)
    have ih' := ih (fun j hj => h j (by simp [hj]))
    simp only [Prim.gatherP, List.filterMap_cons] at ih' ⊢
    rw [hi, ih']

theorem gatherP_append_left (xs ys : List α) (idx : List Nat) (h : ∀ i ∈ idx, i < xs.length) :
    Prim.gatherP (xs ++ ys) idx = Prim.gatherP xs idx := by
  apply gatherP_congr
  intro i hi
  exact List.getElem?_append_left (h i hi)

theorem gatherP_map_idx (xs : List α) (idx : List Nat) (φ : Nat → Nat) :
    Prim.gatherP xs (idx.map φ) = idx.filterMap (fun i => xs[φ i]?) := by
  simp [Prim.gatherP, List.filterMap_map, Function.comp_def]

theorem gatherP_append_right (xs ys : List α) (idx : List Nat) :
    Prim.gatherP (xs ++ ys) (idx.map (xs.length + ·)) = Prim.gatherP ys idx := by
  rw [gatherP_map_idx]
  unfold Prim.gatherP
  congr 1
  funext i
  simp [List.getElem?_append_right]

/-- gathering through a gathered index array = gathering from the gathered values -/
theorem gatherP_gatherP (v : List α) (q idx : List Nat) (hq : ∀ c ∈ q, c < v.length)
    (hi : ∀ i ∈ idx, i < q.length) :
    Prim.gatherP v (Prim.gatherP q idx) = Prim.gatherP (Prim.gatherP v q) idx := by
  have hlen : (Prim.gatherP v q).length = q.length := Prim.gatherP_length v q hq
  have hq' : ∀ c ∈ Prim.gatherP q idx, c < v.length := by
    intro c hc
    simp only [Prim.gatherP, List.mem_filterMap] at hc
    obtain ⟨i, _, hic⟩ := hc
    exact hq c (List.mem_of_getElem? hic)
  apply List.ext_getElem?
  intro k
  rw [FinFun.gatherP_getElem? _ _ hq', FinFun.gatherP_getElem? _ _ hi,
    FinFun.gatherP_getElem? _ _ (by rw [hlen]; exact hi)]
  cases hk : idx[k]? with
  | none => rfl
  | some i =>
    simp only [Option.bind_some]
    rw [FinFun.gatherP_getElem? _ _ hq]

theorem gatherP_map_some (xs : List α) (idx : List Nat) (h : ∀ i ∈ idx, i < xs.length) :
    (Prim.gatherP xs idx).map some = idx.map (fun i => xs[i]?) := Prim.gatherP_eq_map xs idx h

/-! ### boundary types -/

namespace OHG

theorem source_eq (f : OHG O A) (hs : f.s.WF) (ht : f.s.target = f.h.w.length) :
    f.source = .ok (Prim.gatherP f.h.w f.s.table) := by
  unfold source
  rw [FinFun.composeSemi_ok f.s f.h.w hs ht]
  rfl

theorem target_eq (f : OHG O A) (hs : f.t.WF) (ht : f.t.target = f.h.w.length) :
    f.target = .ok (Prim.gatherP f.h.w f.t.table) := by
  unfold target
  rw [FinFun.composeSemi_ok f.t f.h.w hs ht]
  rfl

end OHG

/-! ### discrete hypergraphs, identity, twist, spiders -/

theorem IC.initial_WF (n : Nat) : (IC.initial n).WF :=
  ⟨rfl, rfl, fun v hv => by simp [IC.initial, FinFun.initial] at hv⟩

theorem HG.discrete_WF (w : List O) : (HG.discrete w : HG O A).WF :=
  ⟨IC.initial_WF _, IC.initial_WF _, rfl, rfl, rfl, rfl⟩

namespace OHG

theorem identity_eq (w : List O) :
    (OHG.identity w : Res (OHG O A)) =
      .ok ⟨⟨List.range w.length, w.length⟩, ⟨List.range w.length, w.length⟩, HG.discrete w⟩ := by
  simp [identity, FinFun.identity_eq]

theorem twist_eq (a b : List O) :
    (OHG.twist a b : Res (OHG O A)) =
      .ok ⟨⟨List.range' b.length a.length ++ List.range b.length, a.length + b.length⟩,
        ⟨List.range (a.length + b.length), a.length + b.length⟩, HG.discrete (b ++ a)⟩ := by
  simp [twist, FinFun.twist_eq, FinFun.identity_eq]

theorem spider_eq (s t : FinFun) (w : List O) :
    (OHG.spider s t w : Res (OHG O A)) =
      if s.target = w.length ∧ t.target = w.length then .ok ⟨s, t, HG.discrete w⟩ else .none := by
  unfold spider
  by_cases h1 : s.target = w.length <;> by_cases h2 : t.target = w.length <;> simp [h1, h2]

theorem halfSpider_eq (s : FinFun) (w : List O) :
    (OHG.halfSpider s w : Res (OHG O A)) =
      if s.target = w.length then
        .ok ⟨s, ⟨List.range s.target, s.target⟩, HG.discrete w⟩ else .none := by
  unfold halfSpider
  rw [FinFun.identity_eq]
  simp only [Res.ok_bind, spider_eq]
  by_cases h : s.target = w.length <;> simp [h]

end OHG

/-! ### operation batches -/

theorem HG.tensorOperations_eq (ops : Operations O A) (ha : ops.a.valid = true)
    (hb : ops.b.valid = true) :
    HG.tensorOperations ops =
      .ok ⟨⟨ops.a.sources,
            ⟨List.range ops.a.values.length, ops.a.values.length + ops.b.values.length⟩⟩,
           ⟨ops.b.sources,
            ⟨List.range' ops.a.values.length ops.b.values.length,
              ops.a.values.length + ops.b.values.length⟩⟩,
           ops.a.values ++ ops.b.values, ops.x⟩ := by
  have ha' := (IC.valid_iff ops.a).1 ha
  have hb' := (IC.valid_iff ops.b).1 hb
  have v1 : (⟨ops.a.sources,
      ⟨List.range ops.a.values.length, ops.a.values.length + ops.b.values.length⟩⟩ :
        IC FinFun).valid = true := by
    rw [IC.valid_iff]; exact ⟨ha'.1, by simpa using ha'.2⟩
  have v2 : (⟨ops.b.sources,
      ⟨List.range' ops.a.values.length ops.b.values.length,
        ops.a.values.length + ops.b.values.length⟩⟩ : IC FinFun).valid = true := by
    rw [IC.valid_iff]; exact ⟨hb'.1, by simpa using hb'.2⟩
  unfold HG.tensorOperations
  rw [FinFun.inj0_eq, FinFun.inj1_eq]
  simp only [Res.ok_bind, IC.new, IC.validate, v1, v2, if_true, Res.unwrap_ok, Res.pure_eq]

/-- an invalid source batch makes the `expect` fire -/
theorem HG.tensorOperations_panic_a (ops : Operations O A) (ha : ops.a.valid = false) :
    HG.tensorOperations ops = .panic "tensor_operations:expect-s" := by
  have v1 : (⟨ops.a.sources,
      ⟨List.range ops.a.values.length, ops.a.values.length + ops.b.values.length⟩⟩ :
        IC FinFun).valid = false := by
    rw [Bool.eq_false_iff] at ha ⊢
    intro h
    apply ha
    rw [IC.valid_iff] at h ⊢
    exact ⟨h.1, by simpa using h.2⟩
  unfold HG.tensorOperations
  rw [FinFun.inj0_eq, FinFun.inj1_eq]
  simp [IC.new, IC.validate, v1, Res.unwrap]

theorem HG.tensorOperations_panic_b (ops : Operations O A) (ha : ops.a.valid = true)
    (hb : ops.b.valid = false) :
    HG.tensorOperations ops = .panic "tensor_operations:expect-t" := by
  have ha' := (IC.valid_iff ops.a).1 ha
  have v1 : (⟨ops.a.sources,
      ⟨List.range ops.a.values.length, ops.a.values.length + ops.b.values.length⟩⟩ :
        IC FinFun).valid = true := by
    rw [IC.valid_iff]; exact ⟨ha'.1, by simpa using ha'.2⟩
  have v2 : (⟨ops.b.sources,
      ⟨List.range' ops.a.values.length ops.b.values.length,
        ops.a.values.length + ops.b.values.length⟩⟩ : IC FinFun).valid = false := by
    rw [Bool.eq_false_iff] at hb ⊢
    intro h
    apply hb
    rw [IC.valid_iff] at h ⊢
    exact ⟨h.1, by simpa using h.2⟩
  unfold HG.tensorOperations
  rw [FinFun.inj0_eq, FinFun.inj1_eq]
  simp [IC.new, IC.validate, v1, v2, Res.unwrap]

/-! ### tensor -/

/-- the explicit result of `IC.tensor` on valid operands -/
def IC.tensorR (c d : IC FinFun) : IC FinFun :=
  ⟨⟨c.sources.table ++ d.sources.table, (c.sources.table ++ d.sources.table).sum + 1⟩,
    FinFun.tensor c.values d.values⟩

theorem IC.tensor_eq' (c d : IC FinFun) (hc : c.WF) (hd : d.WF) :
    IC.tensor c d = .ok (IC.tensorR c d) := IC.tensor_eq c d hc.valid hd.valid

theorem IC.tensorR_WF (c d : IC FinFun) (hc : c.WF) (hd : d.WF) : (IC.tensorR c d).WF := by
  refine ⟨rfl, ?_, C06.tensor_wf _ _ hc.range hd.range⟩
  have h1 := hc.sizes
  have h2 := hd.sizes
  simp [IC.tensorR, FinFun.tensor, h1, h2]

/-- the explicit result of `HG.coproduct` on well-formed operands -/
def HG.coproductR (g h : HG O A) : HG O A :=
  ⟨IC.tensorR g.s h.s, IC.tensorR g.t h.t, g.w ++ h.w, g.x ++ h.x⟩

theorem HG.coproduct_eq (g h : HG O A) (hg : g.WF) (hh : h.WF) :
    HG.coproduct g h = .ok (HG.coproductR g h) := by
  unfold HG.coproduct
  rw [IC.tensor_eq' _ _ hg.src hh.src, IC.tensor_eq' _ _ hg.tgt hh.tgt]
  rfl

theorem HG.coproductR_WF (g h : HG O A) (hg : g.WF) (hh : h.WF) : (HG.coproductR g h).WF := by
  refine ⟨IC.tensorR_WF _ _ hg.src hh.src, IC.tensorR_WF _ _ hg.tgt hh.tgt, ?_, ?_, ?_, ?_⟩
  · simp [HG.coproductR, IC.tensorR, hg.src_count, hh.src_count]
  · simp [HG.coproductR, IC.tensorR, hg.tgt_count, hh.tgt_count]
  · simp [HG.coproductR, IC.tensorR, FinFun.tensor, hg.src_nodes, hh.src_nodes]
  · simp [HG.coproductR, IC.tensorR, FinFun.tensor, hg.tgt_nodes, hh.tgt_nodes]

/-- the explicit result of `OHG.tensor` on well-formed operands -/
def OHG.tensorR (f g : OHG O A) : OHG O A :=
  ⟨FinFun.tensor f.s g.s, FinFun.tensor f.t g.t, HG.coproductR f.h g.h⟩

theorem OHG.tensor_eq (f g : OHG O A) (hf : f.WF) (hg : g.WF) :
    OHG.tensor f g = .ok (OHG.tensorR f g) := by
  unfold OHG.tensor
  rw [HG.coproduct_eq _ _ hf.hyper hg.hyper]
  rfl

theorem OHG.tensorR_WF (f g : OHG O A) (hf : f.WF) (hg : g.WF) : (OHG.tensorR f g).WF := by
  refine ⟨HG.coproductR_WF _ _ hf.hyper hg.hyper, C06.tensor_wf _ _ hf.src_wf hg.src_wf,
    C06.tensor_wf _ _ hf.tgt_wf hg.tgt_wf, ?_, ?_⟩
  · simp [OHG.tensorR, HG.coproductR, FinFun.tensor, hf.src_nodes, hg.src_nodes]
  · simp [OHG.tensorR, HG.coproductR, FinFun.tensor, hf.tgt_nodes, hg.tgt_nodes]

/-- labels read through a tensor of interfaces: concatenation -/
theorem gatherP_tensor (fw gw : List α) (s t : FinFun) (hs : s.WF) (hst : s.target = fw.length) :
    Prim.gatherP (fw ++ gw) (FinFun.tensor s t).table =
      Prim.gatherP fw s.table ++ Prim.gatherP gw t.table := by
  unfold FinFun.tensor
  simp only
  rw [gatherP_append_idx, gatherP_append_left _ _ _ (fun i hi => by rw [← hst]; exact hs i hi), hst,
    gatherP_append_right]

/-! ### quotienting the nodes -/

theorem HG.coequalizeVertices_eq [DecidableEq O] (B : Backend) (h : HG O A) (q : FinFun)
    (hh : h.WF) (hq : q.WF) (hsurj : C06.Surj q) (hs : q.source = h.w.length)
    (hc : FinFun.ConstOnFibres q h.w) :
    ∃ w', FinFun.coequalizerUniversalArr B q h.w = .ok w' ∧ w'.length = q.target ∧
      Prim.gatherP w' q.table = h.w ∧ (∀ x ∈ w', x ∈ h.w) ∧
      HG.coequalizeVertices B h q =
        .ok ⟨⟨h.s.sources, ⟨h.s.values.table.map (fun i => q.table.getD i 0), q.target⟩⟩,
             ⟨h.t.sources, ⟨h.t.values.table.map (fun i => q.table.getD i 0), q.target⟩⟩,
             w', h.x⟩ := by
  obtain ⟨ha, _, _⟩ := C06.universal_spec B q hq hsurj h.w
  obtain ⟨w', hw', hl, _, hcomp, hmem⟩ := ha hs.symm hc
  have hg : Prim.gatherP w' q.table = h.w := by
    rw [FinFun.composeSemi_ok q w' hq hl.symm] at hcomp
    injection hcomp
  refine ⟨w', hw', hl, hg, hmem, ?_⟩
  unfold HG.coequalizeVertices
  rw [IC.mapValues_eq h.s q hh.src.range (by rw [hh.src_nodes, hs]),
    IC.mapValues_eq h.t q hh.tgt.range (by rw [hh.tgt_nodes, hs]), hw']
  rfl

theorem FinFun.getD_lt (q : FinFun) (hq : q.WF) (i : Nat) (hi : i < q.source) :
    q.table.getD i 0 < q.target := by
  have hi' : i < q.table.length := hi
  apply hq
  simp [List.getD_eq_getElem?_getD, List.getElem?_eq_getElem hi']

theorem IC.mapped_WF (c : IC FinFun) (q : FinFun) (hc : c.WF) (hq : q.WF)
    (h : c.values.target = q.source) :
    (⟨c.sources, ⟨c.values.table.map (fun i => q.table.getD i 0), q.target⟩⟩ : IC FinFun).WF := by
  refine ⟨hc.bound, by simpa using hc.sizes, ?_⟩
  intro v hv
  obtain ⟨i, hi, rfl⟩ := List.mem_map.1 hv
  exact FinFun.getD_lt q hq i (by rw [← h]; exact hc.range i hi)

theorem HG.coequalized_WF (h : HG O A) (q : FinFun) (w' : List O) (hh : h.WF) (hq : q.WF)
    (hs : q.source = h.w.length) (hl : w'.length = q.target) :
    (⟨⟨h.s.sources, ⟨h.s.values.table.map (fun i => q.table.getD i 0), q.target⟩⟩,
      ⟨h.t.sources, ⟨h.t.values.table.map (fun i => q.table.getD i 0), q.target⟩⟩,
      w', h.x⟩ : HG O A).WF :=
  ⟨IC.mapped_WF h.s q hh.src hq (by rw [hh.src_nodes, hs]),
   IC.mapped_WF h.t q hh.tgt hq (by rw [hh.tgt_nodes, hs]),
   hh.src_count, hh.tgt_count, hl.symm, hl.symm⟩

/-! ### composition -/

/-- when the boundary types agree, node labels are constant on the classes generated by gluing
    `f`'s target interface to `g`'s source interface -/
theorem OHG.glue_labels (f g : OHG O A) (hf : f.WF) (hg : g.WF)
    (hty : Prim.gatherP f.h.w f.t.table = Prim.gatherP g.h.w g.s.table) (i j : Nat)
    (e : Relation.EqvGen (fun a b => ∃ k : Nat,
      (FinFun.inject0 f.t g.h.w.length).table[k]? = some a ∧
      (FinFun.inject1 g.s f.h.w.length).table[k]? = some b) i j) :
    (f.h.w ++ g.h.w)[i]? = (f.h.w ++ g.h.w)[j]? := by
  induction e with
  | refl a => rfl
  | symm a b _ ih => exact ih.symm
  | trans a b c _ _ ih1 ih2 => exact ih1.trans ih2
  | rel a b hab =>
    obtain ⟨k, hka, hkb⟩ := hab
    simp only [FinFun.inject0, FinFun.inject1, List.getElem?_map, Option.map_eq_some_iff] at hka hkb
    obtain ⟨c, hkc, rfl⟩ := hkb
    have ha : a < f.h.w.length := hf.tgt_lt a (List.mem_of_getElem? hka)
    have hc : c < g.h.w.length := hg.src_lt c (List.mem_of_getElem? hkc)
    have h1 : (Prim.gatherP f.h.w f.t.table)[k]? = (Prim.gatherP g.h.w g.s.table)[k]? := by rw [hty]
    rw [FinFun.gatherP_getElem? _ _ hf.tgt_lt, FinFun.gatherP_getElem? _ _ hg.src_lt, hka, hkc] at h1
    simp only [Option.bind_some] at h1
    rw [List.getElem?_append_left ha, List.getElem?_append_right (Nat.le_add_right _ _), h1]
    simp

/-- Closed form of composition (for every lawful backend): the backend's coequalizer `q` of the
    two injected interfaces, the quotient label array `w'`, and the composite built from them. -/
theorem OHG.compose_ok [DecidableEq O] (B : Backend) (hB : B.Lawful) (f g : OHG O A)
    (hf : f.WF) (hg : g.WF)
    (hty : Prim.gatherP f.h.w f.t.table = Prim.gatherP g.h.w g.s.table) :
    ∃ (q : FinFun) (w' : List O),
      FinFun.coequalizer B (FinFun.inject0 f.t g.h.w.length) (FinFun.inject1 g.s f.h.w.length)
        = .ok q ∧
      q.WF ∧ q.source = f.h.w.length + g.h.w.length ∧ C06.Surj q ∧
      w'.length = q.target ∧ Prim.gatherP w' q.table = f.h.w ++ g.h.w ∧
      OHG.compose B f g =
        .ok ⟨⟨Prim.gatherP q.table f.s.table, q.target⟩,
             ⟨Prim.gatherP q.table (g.t.table.map (f.h.w.length + ·)), q.target⟩,
             ⟨⟨(IC.tensorR f.h.s g.h.s).sources,
               ⟨(IC.tensorR f.h.s g.h.s).values.table.map (fun i => q.table.getD i 0), q.target⟩⟩,
              ⟨(IC.tensorR f.h.t g.h.t).sources,
               ⟨(IC.tensorR f.h.t g.h.t).values.table.map (fun i => q.table.getD i 0), q.target⟩⟩,
              w', f.h.x ++ g.h.x⟩⟩ := by
  have hlen : f.t.table.length = g.s.table.length := by
    have := congrArg List.length hty
    rwa [FinFun.gatherP_length _ _ hf.tgt_lt, FinFun.gatherP_length _ _ hg.src_lt] at this
  have hwl := C06.inject0_wf f.t g.h.w.length hf.tgt_wf
  have hwr := C06.inject1_wf g.s f.h.w.length hg.src_wf
  obtain ⟨q, hq, hqs, hqw, hqo, hqk, _⟩ := C06.coequalizer_spec B hB
    (FinFun.inject0 f.t g.h.w.length) (FinFun.inject1 g.s f.h.w.length) hwl hwr
    (by simp [FinFun.source, FinFun.inject0, FinFun.inject1, hlen])
    (by simp only [FinFun.inject0, FinFun.inject1]; rw [hf.tgt_nodes, hg.src_nodes, Nat.add_comm])
  have hqs' : q.source = f.h.w.length + g.h.w.length := by
    rw [hqs]; simp only [FinFun.inject0]; rw [hf.tgt_nodes, Nat.add_comm]
  have hsurj : C06.Surj q := by
    intro c hc
    obtain ⟨i, _, hi⟩ := hqo c hc
    exact List.mem_of_getElem? hi
  have hconst : FinFun.ConstOnFibres q (f.h.w ++ g.h.w) := by
    intro i j hij hi hj
    rw [hqs] at hi hj
    exact OHG.glue_labels f g hf hg hty i j ((hqk i j hi hj).1 hij)
  have hfgW := OHG.tensorR_WF f g hf hg
  obtain ⟨w', _, hl, hgw, _, hcv⟩ := HG.coequalizeVertices_eq B (OHG.tensorR f g).h q
    hfgW.hyper hqw hsurj (by rw [hqs']; simp [OHG.tensorR, HG.coproductR]) hconst
  refine ⟨q, w', hq, hqw, hqs', hsurj, hl, hgw, ?_⟩
  unfold OHG.compose
  rw [OHG.target_eq f hf.tgt_wf hf.tgt_nodes, OHG.source_eq g hg.src_wf hg.src_nodes]
  simp only [Res.ok_bind]
  rw [if_neg (by simpa using hty), hq]
  simp only [Res.unwrap_ok, Res.ok_bind]
  rw [FinFun.compose_ok (FinFun.inject0 f.s g.h.w.length) q (C06.inject0_wf _ _ hf.src_wf)
      (by rw [hqs']; simp only [FinFun.inject0]; rw [hf.src_nodes, Nat.add_comm]),
    FinFun.compose_ok (FinFun.inject1 g.t f.h.w.length) q (C06.inject1_wf _ _ hg.tgt_wf)
      (by rw [hqs']; simp only [FinFun.inject1]; rw [hg.tgt_nodes]),
    OHG.tensor_eq f g hf hg]
  simp only [Res.unwrap_ok, Res.ok_bind]
  rw [hcv]
  rfl

/-- different boundary types: composition is absent -/
theorem OHG.compose_none [DecidableEq O] (B : Backend) (f g : OHG O A) (hf : f.WF) (hg : g.WF)
    (hty : Prim.gatherP f.h.w f.t.table ≠ Prim.gatherP g.h.w g.s.table) :
    OHG.compose B f g = .none := by
  unfold OHG.compose
  rw [OHG.target_eq f hf.tgt_wf hf.tgt_nodes, OHG.source_eq g hg.src_wf hg.src_nodes]
  simp only [Res.ok_bind]
  rw [if_pos (by simpa using hty)]

end OH
