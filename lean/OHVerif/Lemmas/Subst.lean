/-
  Functor application is substitution (helper library for C12 / C13).

  * `isQuot_retract`: a presentation `P / R` may be replaced by a smaller one `S / RS` when `S`
    sits inside `P` (section `σ`) and `P` retracts onto `S` (map `φ`) compatibly with the relations.
  * `pre4 / rel4`: the four-block presentation of `sx ; (id ⊗ X) ; yt` where `sx`, `yt` are the two
    distribution spiders of `spider_map_arrow`; `subst_of_pre4`: its quotient is the quotient of the
    substitution presentation `substP / substR` (expanded nodes next to `X`, expanded incidence
    positions glued to the interfaces of `X`).
  * `spiderMapArrow_unfold / _parts / _isQuot`: the model's `spider_map_arrow` is
    `(sx ; (id ⊗ fx)) ; yt` and its result is the quotient of `pre4` by `rel4`.
  * `subst_generic`: substituting the generators themselves presents the diagram (identity functor).
  * block arithmetic (`blockS`, `flatMap_blockS_*`), positions of the expanded nodes
    (`blkOf / offOf / liftPos`, `liftPos_bijOn`, `flatMap_blockS_map_liftPos`, `lift_glue`).
  * the substitution presentation respects `≅` of the substituted diagram (`subst_congr`),
    juxtaposition (`subst_juxt`), gluing (`subst_glue`), relabelling (`subst_relabel`) and
    quotients of the expanded nodes (`subst_quotient`).
-/
import OHVerif.Lemmas.LaxIso
import OHVerif.Props.C12Type
import OHVerif.Props.C13

namespace OH.Subst
open OH Relation

variable {O A : Type}

/-! ### retraction of a presentation -/

/-- if `σ : S → P` is a section of `φ : P → S`, every node of `P` is `R`-related to `σ (φ x)`,
    `S` is the `φ`-image of `P`, and the relations correspond generator-wise, then a quotient of
    `P` by `R` is also the quotient of `S` by `RS` -/
theorem isQuot_retract {P S r : PDiag O A} {R RS : Nat → Nat → Prop} {σ φ : Nat → Nat}
    (hP : P.wf = true) (hq : IsQuot P R r)
    (hσ : ∀ a, a < S.n → σ a < P.n)
    (hφσ : ∀ a, a < S.n → φ (σ a) = a)
    (hφ : ∀ x, x < P.n → φ x < S.n)
    (hσφ : ∀ x, x < P.n → EqvOn P.n R x (σ (φ x)))
    (hfwd : ∀ x y, x < P.n → y < P.n → R x y → EqvOn S.n RS (φ x) (φ y))
    (hbwd : ∀ a b, a < S.n → b < S.n → RS a b → EqvOn P.n R (σ a) (σ b))
    (hnodes : ∀ a, a < S.n → P.nodes[σ a]? = S.nodes[a]?)
    (hedges : S.edges = P.edges.map (PEdge.mapNodes φ))
    (hins : S.ins = P.ins.map φ) (houts : S.outs = P.outs.map φ) :
    IsQuot S RS r := by
  obtain ⟨w1, w2, w3⟩ := (PDiag.wf_iff P).1 hP
  obtain ⟨q, hq, hk⟩ := (isQuot_iff _ _ _).1 hq
  have key : ∀ x, x < P.n → q (σ (φ x)) = q x := fun x hx =>
    ((hk _ _ hx (hσ _ (hφ x hx))).2 (hσφ x hx)).symm
  refine (isQuot_iff _ _ _).2 ⟨fun a => q (σ a), ⟨?_, ?_, ?_, ?_, ?_, ?_⟩, ?_⟩
  · intro a ha; exact hq.lt _ (hσ a ha)
  · intro k hk'
    obtain ⟨x, hx, rfl⟩ := hq.onto k hk'
    exact ⟨φ x, hφ x hx, key x hx⟩
  · intro a ha
    rw [hq.nodes _ (hσ a ha), hnodes a ha]
  · rw [hq.edges, hedges, List.map_map]
    apply List.map_congr_left
    intro e he
    rw [Function.comp, PEdge.mapNodes_comp]
    exact PEdge.mapNodes_congr (fun v hv => (key v ((w3 e he).1 v hv)).symm)
      (fun v hv => (key v ((w3 e he).2 v hv)).symm)
  · rw [hq.ins, hins, List.map_map]
    exact List.map_congr_left (fun v hv => (key v (w1 v hv)).symm)
  · rw [hq.outs, houts, List.map_map]
    exact List.map_congr_left (fun v hv => (key v (w2 v hv)).symm)
  · intro a b ha hb
    rw [hk _ _ (hσ a ha) (hσ b hb)]
    constructor
    · intro h
      have := EqvOn.map (φ := φ) hfwd h
      rwa [hφσ a ha, hφσ b hb] at this
    · exact EqvOn.map (φ := σ) hbwd

/-! ### boundary pairs along concatenated interfaces -/

theorem glueRel_iff (f g : PDiag O A) (a b : Nat) :
    glueRel f g a b ↔ ∃ k : Nat, f.outs[k]? = some a ∧ (g.ins.map (f.n + ·))[k]? = some b := by
  unfold glueRel
  simp only [List.getElem?_map]

/-- pairs along `range n` against `range n` shifted by `c` -/
theorem pairs_range (n c a b : Nat) :
    (∃ k : Nat, (List.range n)[k]? = some a ∧ ((List.range n).map (c + ·))[k]? = some b) ↔
      a < n ∧ b = c + a := by
  constructor
  · rintro ⟨k, h1, h2⟩
    obtain ⟨e, hk⟩ := range_getElem?_some h1
    subst e
    rw [List.getElem?_map, List.getElem?_range hk] at h2
    exact ⟨hk, (Option.some.inj h2).symm⟩
  · rintro ⟨ha, rfl⟩
    exact ⟨a, List.getElem?_range ha, by rw [List.getElem?_map, List.getElem?_range ha]; rfl⟩

/-! ### the four-block presentation of `sx ; (id ⊗ X) ; yt` -/

/-- the left distribution spider: inputs `fs`, outputs all nodes followed by `es` -/
def spL (W : List O) (fs es : List Nat) : PDiag O A := ⟨W, [], fs, List.range W.length ++ es⟩
/-- the right distribution spider: inputs all nodes followed by `et`, outputs `ft` -/
def spR (W : List O) (et ft : List Nat) : PDiag O A := ⟨W, [], List.range W.length ++ et, ft⟩
/-- the identity on `W` -/
def idP (W : List O) : PDiag O A := ⟨W, [], List.range W.length, List.range W.length⟩

theorem spL_wf {W : List O} {fs es : List Nat} (hfs : ∀ v ∈ fs, v < W.length)
    (hes : ∀ v ∈ es, v < W.length) : (spL W fs es : PDiag O A).wf = true := by
  refine (PDiag.wf_iff _).2 ⟨hfs, ?_, fun e he => by cases he⟩
  intro v hv
  rcases List.mem_append.1 hv with h | h
  · exact List.mem_range.1 h
  · exact hes v h

theorem spR_wf {W : List O} {et ft : List Nat} (het : ∀ v ∈ et, v < W.length)
    (hft : ∀ v ∈ ft, v < W.length) : (spR W et ft : PDiag O A).wf = true := by
  refine (PDiag.wf_iff _).2 ⟨?_, hft, fun e he => by cases he⟩
  intro v hv
  rcases List.mem_append.1 hv with h | h
  · exact List.mem_range.1 h
  · exact het v h

theorem idP_wf (W : List O) : (idP W : PDiag O A).wf = true :=
  (PDiag.wf_iff _).2 ⟨fun _ h => List.mem_range.1 h, fun _ h => List.mem_range.1 h,
    fun e he => by cases he⟩

/-- the presenting diagram: `sx + (id + X) + yt`, inputs of `sx`, outputs of `yt` -/
def pre4 (W : List O) (fs es et ft : List Nat) (X : PDiag O A) : PDiag O A :=
  gluePre (gluePre (spL W fs es) (PDiag.juxt (idP W) X)) (spR W et ft)

/-- the presenting relation: the boundary pairs of the two compositions -/
def rel4 (W : List O) (fs es et ft : List Nat) (X : PDiag O A) (a b : Nat) : Prop :=
  sumRel (gluePre (spL W fs es) (PDiag.juxt (idP W) X)).n
      (glueRel (spL W fs es) (PDiag.juxt (idP W) X)) (fun _ _ => False) a b ∨
    glueRel (gluePre (spL W fs es) (PDiag.juxt (idP W) X)) (spR W et ft) a b

/-- the substitution presentation: the expanded nodes `W` next to `X`; interfaces `fs`, `ft` -/
def substP (W : List O) (fs ft : List Nat) (X : PDiag O A) : PDiag O A :=
  ⟨W ++ X.nodes, X.edges.map (PEdge.mapNodes (W.length + ·)), fs, ft⟩

/-- expanded source position `k` ~ input `k` of `X`; expanded target position `k` ~ output `k` -/
def substR (W : List O) (es et : List Nat) (X : PDiag O A) (a b : Nat) : Prop :=
  (∃ k : Nat, es[k]? = some a ∧ (X.ins[k]?).map (W.length + ·) = some b) ∨
  (∃ k : Nat, et[k]? = some a ∧ (X.outs[k]?).map (W.length + ·) = some b)

section four
variable (W : List O) (fs es et ft : List Nat) (X : PDiag O A)

theorem pre4_wf (hX : X.wf = true) (hfs : ∀ v ∈ fs, v < W.length) (hes : ∀ v ∈ es, v < W.length)
    (het : ∀ v ∈ et, v < W.length) (hft : ∀ v ∈ ft, v < W.length) :
    (pre4 W fs es et ft X).wf = true :=
  gluePre_wf (gluePre_wf (spL_wf hfs hes) (juxt_wf (idP_wf W) hX)) (spR_wf het hft)

theorem mid_n : (gluePre (spL W fs es : PDiag O A) (PDiag.juxt (idP W) X)).n =
    W.length + (W.length + X.n) := by
  rw [gluePre_n, juxt_n]; rfl

theorem pre4_n : (pre4 W fs es et ft X).n = W.length + (W.length + X.n) + W.length := by
  unfold pre4
  rw [gluePre_n, mid_n]; rfl

theorem substP_n : (substP W fs ft X).n = W.length + X.n := by
  simp [substP, PDiag.n]

/-- boundary pairs of the first composition -/
theorem glue1_iff (a b : Nat) :
    glueRel (spL W fs es : PDiag O A) (PDiag.juxt (idP W) X) a b ↔
      (a < W.length ∧ b = W.length + a) ∨
      (∃ k c : Nat, es[k]? = some a ∧ X.ins[k]? = some c ∧ b = W.length + (W.length + c)) := by
  rw [glueRel_iff]
  show (∃ k : Nat, (List.range W.length ++ es)[k]? = some a ∧
    ((List.range W.length ++ X.ins.map (W.length + ·)).map (W.length + ·))[k]? = some b) ↔ _
  rw [List.map_append, LaxIso.pairs_append _ _ _ _ (by simp), pairs_range]
  apply or_congr Iff.rfl
  constructor
  · rintro ⟨k, h1, h2⟩
    rw [List.getElem?_map, List.getElem?_map] at h2
    cases hc : X.ins[k]? with
    | none => rw [hc] at h2; cases h2
    | some c =>
      rw [hc] at h2
      exact ⟨k, c, h1, hc, (Option.some.inj h2).symm⟩
  · rintro ⟨k, c, h1, h2, rfl⟩
    exact ⟨k, h1, by rw [List.getElem?_map, List.getElem?_map, h2]; rfl⟩

/-- boundary pairs of the second composition -/
theorem glue2_iff (a b : Nat) :
    glueRel (gluePre (spL W fs es : PDiag O A) (PDiag.juxt (idP W) X)) (spR W et ft) a b ↔
      (∃ j : Nat, j < W.length ∧ a = W.length + j ∧ b = W.length + (W.length + X.n) + j) ∨
      (∃ k c v : Nat, et[k]? = some v ∧ X.outs[k]? = some c ∧ a = W.length + (W.length + c) ∧
        b = W.length + (W.length + X.n) + v) := by
  rw [glueRel_iff, mid_n]
  show (∃ k : Nat, ((List.range W.length ++ X.outs.map (W.length + ·)).map (W.length + ·))[k]? =
      some a ∧
    ((List.range W.length ++ et).map (W.length + (W.length + X.n) + ·))[k]? = some b) ↔ _
  rw [List.map_append, List.map_append, LaxIso.pairs_append _ _ _ _ (by simp)]
  apply or_congr
  · constructor
    · rintro ⟨k, h1, h2⟩
      rw [List.getElem?_map] at h1 h2
      cases hj : (List.range W.length)[k]? with
      | none => rw [hj] at h1; cases h1
      | some j =>
        rw [hj] at h1 h2
        obtain ⟨e, hk⟩ := range_getElem?_some hj
        subst e
        exact ⟨j, hk, (Option.some.inj h1).symm, (Option.some.inj h2).symm⟩
    · rintro ⟨j, hj, rfl, rfl⟩
      exact ⟨j, by rw [List.getElem?_map, List.getElem?_range hj]; rfl,
        by rw [List.getElem?_map, List.getElem?_range hj]; rfl⟩
  · constructor
    · rintro ⟨k, h1, h2⟩
      rw [List.getElem?_map, List.getElem?_map] at h1
      rw [List.getElem?_map] at h2
      cases hc : X.outs[k]? with
      | none => rw [hc] at h1; cases h1
      | some c =>
        cases hv : et[k]? with
        | none => rw [hv] at h2; cases h2
        | some v =>
          rw [hc] at h1
          rw [hv] at h2
          exact ⟨k, c, v, hv, hc, (Option.some.inj h1).symm, (Option.some.inj h2).symm⟩
    · rintro ⟨k, c, v, h1, h2, rfl, rfl⟩
      exact ⟨k, by rw [List.getElem?_map, List.getElem?_map, h2]; rfl,
        by rw [List.getElem?_map, h1]; rfl⟩

end four

/-- the retraction of the four blocks `sx + (id + X) + yt` onto `(expanded nodes) + X` -/
def phi4 (n m x : Nat) : Nat :=
  if x < n then x else if x < n + (n + m) then x - n else x - (n + (n + m))

theorem phi4_1 {n m x : Nat} (h : x < n) : phi4 n m x = x := if_pos h
theorem phi4_2 {n m : Nat} (v : Nat) (h : v < n + m) : phi4 n m (n + v) = v := by
  unfold phi4; rw [if_neg (by omega), if_pos (by omega)]; omega
theorem phi4_3 (n m v : Nat) : phi4 n m (n + (n + m) + v) = v := by
  unfold phi4; rw [if_neg (by omega), if_neg (by omega)]; omega

/-- THE SUBSTITUTION LEMMA (plain level): the quotient of the four-block presentation of
    `sx ; (id ⊗ X) ; yt` is the quotient of `(expanded nodes) + X` by "expanded source position
    `k` ~ input `k` of `X`, expanded target position `k` ~ output `k` of `X`" -/
theorem subst_of_pre4 {W : List O} {fs es et ft : List Nat} {X r : PDiag O A} (hX : X.wf = true)
    (hfs : ∀ v ∈ fs, v < W.length) (hes : ∀ v ∈ es, v < W.length)
    (het : ∀ v ∈ et, v < W.length) (hft : ∀ v ∈ ft, v < W.length)
    (h : IsQuot (pre4 W fs es et ft X) (rel4 W fs es et ft X) r) :
    IsQuot (substP W fs ft X) (substR W es et X) r := by
  obtain ⟨x1, x2, x3⟩ := (PDiag.wf_iff X).1 hX
  have hN := pre4_n W fs es et ft X
  have hS := substP_n W fs ft X
  have hM := mid_n W fs es X
  -- the generating pairs of the presentation
  have G1 : ∀ j, j < W.length →
      EqvOn (pre4 W fs es et ft X).n (rel4 W fs es et ft X) j (W.length + j) := by
    intro j hj
    exact EqvOn.of_rel (by omega) (by omega)
      (Or.inl (Or.inl ⟨by omega, by omega, (glue1_iff W fs es X _ _).2 (Or.inl ⟨hj, rfl⟩)⟩))
  have G2 : ∀ k a c : Nat, es[k]? = some a → X.ins[k]? = some c →
      EqvOn (pre4 W fs es et ft X).n (rel4 W fs es et ft X) a (W.length + (W.length + c)) := by
    intro k a c h1 h2
    have ha := hes a (List.mem_of_getElem? h1)
    have hc := x1 c (List.mem_of_getElem? h2)
    exact EqvOn.of_rel (by omega) (by omega)
      (Or.inl (Or.inl ⟨by omega, by omega,
        (glue1_iff W fs es X _ _).2 (Or.inr ⟨k, c, h1, h2, rfl⟩)⟩))
  have G3 : ∀ j, j < W.length → EqvOn (pre4 W fs es et ft X).n (rel4 W fs es et ft X)
      (W.length + j) (W.length + (W.length + X.n) + j) := by
    intro j hj
    exact EqvOn.of_rel (by omega) (by omega)
      (Or.inr ((glue2_iff W fs es et ft X _ _).2 (Or.inl ⟨j, hj, rfl, rfl⟩)))
  have G4 : ∀ k v c : Nat, et[k]? = some v → X.outs[k]? = some c →
      EqvOn (pre4 W fs es et ft X).n (rel4 W fs es et ft X)
        (W.length + (W.length + c)) (W.length + (W.length + X.n) + v) := by
    intro k v c h1 h2
    have hv := het v (List.mem_of_getElem? h1)
    have hc := x2 c (List.mem_of_getElem? h2)
    exact EqvOn.of_rel (by omega) (by omega)
      (Or.inr ((glue2_iff W fs es et ft X _ _).2 (Or.inr ⟨k, c, v, h1, h2, rfl, rfl⟩)))
  refine isQuot_retract (σ := fun a => W.length + a) (φ := phi4 W.length X.n)
    (pre4_wf W fs es et ft X hX hfs hes het hft) h ?_ ?_ ?_ ?_ ?_ ?_ ?_ ?_ ?_ ?_
  · intro a ha; show W.length + a < _; omega
  · intro a ha; exact phi4_2 a (by omega)
  · intro x hx
    unfold phi4
    split
    · omega
    · split <;> omega
  · intro x hx
    by_cases h1 : x < W.length
    · rw [phi4_1 h1]; exact G1 x h1
    · by_cases h2 : x < W.length + (W.length + X.n)
      · obtain ⟨v, rfl⟩ : ∃ v, x = W.length + v := ⟨x - W.length, by omega⟩
        rw [phi4_2 v (by omega)]; exact EqvGen.refl _
      · obtain ⟨v, rfl⟩ : ∃ v, x = W.length + (W.length + X.n) + v :=
          ⟨x - (W.length + (W.length + X.n)), by omega⟩
        rw [phi4_3]
        exact EqvGen.symm _ _ (G3 v (by omega))
  · intro x y hx hy hr
    rcases hr with (⟨_, _, hr⟩ | ⟨_, _, hr⟩) | hr
    · rcases (glue1_iff W fs es X x y).1 hr with ⟨hx', rfl⟩ | ⟨k, c, h1, h2, rfl⟩
      · rw [phi4_1 hx', phi4_2 x (by omega)]; exact EqvGen.refl _
      · have ha := hes x (List.mem_of_getElem? h1)
        have hc := x1 c (List.mem_of_getElem? h2)
        rw [phi4_1 ha, phi4_2 _ (by omega)]
        exact EqvOn.of_rel (by omega) (by omega) (Or.inl ⟨k, h1, by rw [h2]; rfl⟩)
    · exact hr.elim
    · rcases (glue2_iff W fs es et ft X x y).1 hr with ⟨j, hj, rfl, rfl⟩ | ⟨k, c, v, h1, h2, rfl, rfl⟩
      · rw [phi4_2 j (by omega), phi4_3]; exact EqvGen.refl _
      · have hv := het v (List.mem_of_getElem? h1)
        have hc := x2 c (List.mem_of_getElem? h2)
        rw [phi4_2 _ (by omega), phi4_3]
        exact EqvGen.symm _ _
          (EqvOn.of_rel (by omega) (by omega) (Or.inr ⟨k, h1, by rw [h2]; rfl⟩))
  · intro a b ha hb hr
    rcases hr with ⟨k, h1, h2⟩ | ⟨k, h1, h2⟩
    · cases hc : X.ins[k]? with
      | none => rw [hc] at h2; cases h2
      | some c =>
        rw [hc] at h2
        have hb' : b = W.length + c := (Option.some.inj h2).symm
        have ha' := hes a (List.mem_of_getElem? h1)
        subst hb'
        exact EqvGen.trans _ _ _ (EqvGen.symm _ _ (G1 a ha')) (G2 k a c h1 hc)
    · cases hc : X.outs[k]? with
      | none => rw [hc] at h2; cases h2
      | some c =>
        rw [hc] at h2
        have hb' : b = W.length + c := (Option.some.inj h2).symm
        have ha' := het a (List.mem_of_getElem? h1)
        subst hb'
        exact EqvGen.trans _ _ _ (G3 a ha') (EqvGen.symm _ _ (G4 k a c h1 hc))
  · intro a ha
    show ((W ++ (W ++ X.nodes)) ++ W)[W.length + a]? = (W ++ X.nodes)[a]?
    have ha' : a < (W ++ X.nodes).length := by
      rw [List.length_append]; have : X.n = X.nodes.length := rfl; omega
    rw [List.append_assoc, getElem?_append_add rfl, List.getElem?_append_left ha']
  · show X.edges.map _ = List.map _ (([] ++ List.map _ ([] ++ X.edges.map _)) ++ List.map _ [])
    simp only [List.nil_append, List.map_nil, List.append_nil, map_mapNodes_map]
    refine (map_mapNodes_congr x3 ?_).symm
    intro v hv
    show phi4 W.length X.n (W.length + (W.length + v)) = W.length + v
    exact phi4_2 _ (by omega)
  · show fs = fs.map _
    conv => lhs; rw [← List.map_id fs]
    exact List.map_congr_left (fun v hv => (phi4_1 (hfs v hv)).symm)
  · show ft = (ft.map _).map _
    rw [List.map_map]
    conv => lhs; rw [← List.map_id ft]
    apply List.map_congr_left
    intro v _
    show v = phi4 W.length X.n ((gluePre (spL W fs es) (PDiag.juxt (idP W) X)).n + v)
    rw [hM, phi4_3]

/-! ### inversion of `Res` computations -/

theorem unwrap_eq_ok {α : Type} (x : Res α) (s : String) (a : α) :
    x.unwrap s = .ok a ↔ x = .ok a := by
  cases x <;> simp [Res.unwrap]

theorem bind_eq_ok {α β : Type} (x : Res α) (f : α → Res β) (b : β) :
    (x >>= f) = .ok b ↔ ∃ a, x = .ok a ∧ f a = .ok b := C13.bind_eq_ok x f b

/-! ### `spider_map_arrow` on the model -/

section model
variable {O1 A1 O2 A2 : Type}
open SFunctor

/-- expansion along the object images: entries are nodes of the image, and reading the labels
    through it gives the `F`-expanded type -/
theorem expand_spec (fw : IC (List O2)) (hv : fw.valid = true) (ids : FinFun) (hid : ids.WF)
    (h : ids.target = fw.len) :
    (∀ v ∈ C12.expand fw ids.table, v < fw.values.length) ∧
    (C12.expand fw ids.table).map (fun i => fw.values[i]?) = (expandTy fw ids.table).map some ∧
    SFunctor.mapHalfSpider fw ids = .ok ⟨C12.expand fw ids.table, fw.values.length⟩ := by
  obtain ⟨r, hr, ht, hw, htab, _, hg⟩ := C12.mapHalfSpider_spec fw ids hv hid h
  have hlt : ∀ v ∈ C12.expand fw ids.table, v < fw.values.length := by
    intro v hv'
    rw [← ht]
    exact hw v (by rw [htab]; exact hv')
  refine ⟨hlt, ?_, ?_⟩
  · rw [← gatherP_map_some _ _ hlt]
    show (Prim.gatherP fw.values (ids.table.flatMap (C12.block fw))).map some = _
    rw [← htab, hg]
    rfl
  · rw [hr]
    congr 1
    cases r
    simp only at ht htab
    rw [ht, htab]
    rfl

/-- `spider_map_arrow` is `(sx ; (id ⊗ fx)) ; yt` for the two distribution spiders `sx`, `yt`
    whose plain readings are `spL`, `spR` over the expanded nodes -/
theorem spiderMapArrow_unfold [DecidableEq O2] (B : Backend) (f : OHG O1 A1) (hf : f.WF)
    (fw : IC (List O2)) (hv : fw.valid = true) (hl : fw.len = f.h.w.length) (fx : OHG O2 A2)
    (hx : fx.WF) :
    ∃ sx ifx yt : OHG O2 A2,
      sx.toPlain = spL fw.values (C12.expand fw f.s.table) (C12.expand fw f.h.s.values.table) ∧
      ifx.toPlain = PDiag.juxt (idP fw.values) fx.toPlain ∧
      yt.toPlain = spR fw.values (C12.expand fw f.h.t.values.table) (C12.expand fw f.t.table) ∧
      sx.WF ∧ ifx.WF ∧ yt.WF ∧
      spiderMapArrow B f fw fx =
        ((OHG.compose B sx ifx).unwrap "spider_map_arrow:unwrap-compose1" >>= fun a =>
          (OHG.compose B a yt).unwrap "spider_map_arrow:unwrap-compose2") := by
  obtain ⟨hfs, _, efs⟩ := expand_spec fw hv f.s hf.src_wf (hf.src_nodes.trans hl.symm)
  obtain ⟨hft, _, eft⟩ := expand_spec fw hv f.t hf.tgt_wf (hf.tgt_nodes.trans hl.symm)
  obtain ⟨hes, _, ees⟩ := expand_spec fw hv f.h.s.values hf.hyper.src.range
    (hf.hyper.src_nodes.trans hl.symm)
  obtain ⟨het, _, eet⟩ := expand_spec fw hv f.h.t.values hf.hyper.tgt.range
    (hf.hyper.tgt_nodes.trans hl.symm)
  obtain ⟨hsxW, _⟩ := spider_leg_WF (A2 := A2) fw.values
    ⟨C12.expand fw f.s.table, fw.values.length⟩ ⟨C12.expand fw f.h.s.values.table, fw.values.length⟩
    hfs hes rfl rfl
  obtain ⟨_, hytW⟩ := spider_leg_WF (A2 := A2) fw.values
    ⟨C12.expand fw f.t.table, fw.values.length⟩ ⟨C12.expand fw f.h.t.values.table, fw.values.length⟩
    hft het rfl rfl
  obtain ⟨i, hi, hiW, _, _, hip⟩ := C05.identity_wf_type (A := A2) fw.values
  have hi' := hi
  rw [OHG.identity_eq] at hi'
  injection hi' with hi'
  have hifx := OHG.tensor_eq i fx hiW hx
  refine ⟨_, OHG.tensorR i fx, _, rfl, ?_, rfl, hsxW, OHG.tensorR_WF i fx hiW hx, hytW, ?_⟩
  · rw [C02.tensor_toPlain i fx _ ((OHG.wf_iff i).2 hiW) hifx, hip]
    rfl
  · unfold spiderMapArrow
    rw [hi, efs, ees, eft, eet]
    simp only [Res.ok_bind, ← hi']
    have e1 : FinFun.coproduct (⟨List.range fw.values.length, fw.values.length⟩ : FinFun)
        ⟨C12.expand fw f.h.s.values.table, fw.values.length⟩ =
        .ok ⟨List.range fw.values.length ++ C12.expand fw f.h.s.values.table, fw.values.length⟩ := by
      simp [FinFun.coproduct]
    have e2 : FinFun.coproduct (⟨List.range fw.values.length, fw.values.length⟩ : FinFun)
        ⟨C12.expand fw f.h.t.values.table, fw.values.length⟩ =
        .ok ⟨List.range fw.values.length ++ C12.expand fw f.h.t.values.table, fw.values.length⟩ := by
      simp [FinFun.coproduct]
    rw [e1, e2]
    simp only [Res.unwrap_ok, Res.ok_bind]
    rw [OHG.spider_eq, if_pos ⟨rfl, rfl⟩, OHG.spider_eq, if_pos ⟨rfl, rfl⟩]
    simp only [Res.unwrap_ok, Res.ok_bind]
    have ew : (HG.discrete fw.values : HG O2 A2).w = fw.values := rfl
    simp only [ew]
    rw [hi', hifx]
    rfl

/-- THE PRESENTATION OF `spider_map_arrow`: whenever it returns `r`, `r` is well-formed and its
    plain diagram is the quotient of the four-block presentation `sx + (id + fx) + yt` by the
    boundary pairs of the two compositions -/
theorem spiderMapArrow_isQuot [DecidableEq O2] (B : Backend) (hB : B.Lawful) (f : OHG O1 A1)
    (hf : f.WF) (fw : IC (List O2)) (hv : fw.valid = true) (hl : fw.len = f.h.w.length)
    (fx : OHG O2 A2) (hx : fx.WF) (r : OHG O2 A2) (hr : spiderMapArrow B f fw fx = .ok r) :
    r.wf = true ∧
    IsQuot (pre4 fw.values (C12.expand fw f.s.table) (C12.expand fw f.h.s.values.table)
        (C12.expand fw f.h.t.values.table) (C12.expand fw f.t.table) fx.toPlain)
      (rel4 fw.values (C12.expand fw f.s.table) (C12.expand fw f.h.s.values.table)
        (C12.expand fw f.h.t.values.table) (C12.expand fw f.t.table) fx.toPlain) r.toPlain := by
  obtain ⟨sx, ifx, yt, psx, pifx, pyt, wsx, wifx, wyt, hunf⟩ :=
    spiderMapArrow_unfold B f hf fw hv hl fx hx
  rw [hunf, bind_eq_ok] at hr
  obtain ⟨a, ha, hr⟩ := hr
  rw [unwrap_eq_ok] at ha hr
  have wsx' := (OHG.wf_iff sx).2 wsx
  have wifx' := (OHG.wf_iff ifx).2 wifx
  have wyt' := (OHG.wf_iff yt).2 wyt
  obtain ⟨g1, wa⟩ := C01.compose_isGluing B hB sx ifx a wsx' wifx' ha
  obtain ⟨g2, wr⟩ := C01.compose_isGluing B hB a yt r wa wyt' hr
  refine ⟨wr, ?_⟩
  have := isGluing_quot_left (gluePre_wf (C03.wfP wsx') (C03.wfP wifx')) (C03.wfP wyt') g1 g2
  rw [psx, pifx, pyt] at this
  exact this

/-- the pieces of a successful `spider_map_arrow`: the two distribution spiders, the middle
    tensor and the intermediate composite, with their plain readings -/
theorem spiderMapArrow_parts [DecidableEq O2] (B : Backend) (hB : B.Lawful) (f : OHG O1 A1)
    (hf : f.WF) (fw : IC (List O2)) (hv : fw.valid = true) (hl : fw.len = f.h.w.length)
    (fx : OHG O2 A2) (hx : fx.WF) (r : OHG O2 A2) (hr : spiderMapArrow B f fw fx = .ok r) :
    ∃ sx ifx yt a : OHG O2 A2,
      sx.toPlain = spL fw.values (C12.expand fw f.s.table) (C12.expand fw f.h.s.values.table) ∧
      ifx.toPlain = PDiag.juxt (idP fw.values) fx.toPlain ∧
      yt.toPlain = spR fw.values (C12.expand fw f.h.t.values.table) (C12.expand fw f.t.table) ∧
      sx.wf = true ∧ ifx.wf = true ∧ yt.wf = true ∧ a.wf = true ∧ r.wf = true ∧
      OHG.compose B sx ifx = .ok a ∧ OHG.compose B a yt = .ok r := by
  obtain ⟨sx, ifx, yt, psx, pifx, pyt, wsx, wifx, wyt, hunf⟩ :=
    spiderMapArrow_unfold B f hf fw hv hl fx hx
  rw [hunf, bind_eq_ok] at hr
  obtain ⟨a, ha, hr⟩ := hr
  rw [unwrap_eq_ok] at ha hr
  have wsx' := (OHG.wf_iff sx).2 wsx
  have wifx' := (OHG.wf_iff ifx).2 wifx
  have wyt' := (OHG.wf_iff yt).2 wyt
  obtain ⟨_, wa⟩ := C01.compose_isGluing B hB sx ifx a wsx' wifx' ha
  obtain ⟨_, wr⟩ := C01.compose_isGluing B hB a yt r wa wyt' hr
  exact ⟨sx, ifx, yt, a, psx, pifx, pyt, wsx', wifx', wyt', wa, wr, ha, hr⟩

end model

/-! ### substituting the generators themselves gives the diagram back -/

theorem substP_wf {W : List O} {fs ft : List Nat} {X : PDiag O A} (hX : X.wf = true)
    (hfs : ∀ v ∈ fs, v < W.length) (hft : ∀ v ∈ ft, v < W.length) :
    (substP W fs ft X).wf = true := by
  obtain ⟨_, _, x3⟩ := (PDiag.wf_iff X).1 hX
  have hn := substP_n W fs ft X
  refine (PDiag.wf_iff _).2 ⟨?_, ?_, ?_⟩
  · intro v hv; have := hfs v hv; omega
  · intro v hv; have := hft v hv; omega
  · intro e he
    obtain ⟨e0, he0, rfl⟩ := List.mem_map.1 he
    obtain ⟨h1, h2⟩ := x3 e0 he0
    constructor
    · intro v hv
      obtain ⟨j, hj, rfl⟩ := List.mem_map.1 hv
      have := h1 j hj; omega
    · intro v hv
      obtain ⟨j, hj, rfl⟩ := List.mem_map.1 hv
      have := h2 j hj; omega

/-- the tensor of the generic operations of a diagram with node labels `w`, edge labels `x`,
    flat incidence arrays `S`, `T` cut into segments of sizes `ssz`, `tsz`: one node per incidence
    position -/
def genericOps (w : List O) (x : List A) (ssz tsz S T : List Nat) : PDiag O A :=
  ⟨Prim.gatherP w S ++ Prim.gatherP w T,
   Compose.mkEdges x (splitSegs ssz (List.range S.length))
     (splitSegs tsz (List.range' S.length T.length)),
   List.range S.length, List.range' S.length T.length⟩

/-- SUBSTITUTING THE GENERATORS: the substitution presentation with `X` the tensor of the
    operations of the diagram itself (and trivial expansion) presents the diagram -/
theorem subst_generic (w : List O) (x : List A) (ssz tsz S T ins outs : List Nat)
    (hS : ∀ v ∈ S, v < w.length) (hT : ∀ v ∈ T, v < w.length)
    (hins : ∀ v ∈ ins, v < w.length) (houts : ∀ v ∈ outs, v < w.length) :
    IsQuot (substP w ins outs (genericOps w x ssz tsz S T))
      (substR w S T (genericOps w x ssz tsz S T))
      ⟨w, Compose.mkEdges x (splitSegs ssz S) (splitSegs tsz T), ins, outs⟩ := by
  have hXn : (genericOps w x ssz tsz S T : PDiag O A).n = S.length + T.length := by
    show (Prim.gatherP w S ++ Prim.gatherP w T).length = _
    rw [List.length_append, FinFun.gatherP_length _ _ hS, FinFun.gatherP_length _ _ hT]
  have hn : (substP w ins outs (genericOps w x ssz tsz S T)).n = w.length + (S.length + T.length) := by
    rw [substP_n, hXn]
  let q : Nat → Nat := fun i =>
    if i < w.length then i else if i < w.length + S.length then S.getD (i - w.length) 0
    else T.getD (i - w.length - S.length) 0
  have q1 : ∀ i, i < w.length → q i = i := fun i hi => if_pos hi
  have q2 : ∀ k, k < S.length → q (w.length + k) = S.getD k 0 := by
    intro k hk
    show (if w.length + k < w.length then _ else _) = _
    rw [if_neg (by omega), if_pos (by omega), Nat.add_sub_cancel_left]
  have q3 : ∀ k, q (w.length + (S.length + k)) = T.getD k 0 := by
    intro k
    show (if w.length + (S.length + k) < w.length then _ else _) = _
    rw [if_neg (by omega), if_neg (by omega)]
    congr 1; omega
  have gS : ∀ k, k < S.length → S[k]? = some (S.getD k 0) ∧ S.getD k 0 < w.length := by
    intro k hk
    have : S.getD k 0 = S[k] := by simp [List.getD_eq_getElem?_getD, List.getElem?_eq_getElem hk]
    rw [this]
    exact ⟨List.getElem?_eq_getElem hk, hS _ (List.getElem_mem hk)⟩
  have gT : ∀ k, k < T.length → T[k]? = some (T.getD k 0) ∧ T.getD k 0 < w.length := by
    intro k hk
    have : T.getD k 0 = T[k] := by simp [List.getD_eq_getElem?_getD, List.getElem?_eq_getElem hk]
    rw [this]
    exact ⟨List.getElem?_eq_getElem hk, hT _ (List.getElem_mem hk)⟩
  refine ⟨q, ?_, ?_, ?_, ?_, ?_, ?_, ?_⟩
  · intro i hi
    rw [hn] at hi
    show q i < w.length
    by_cases h1 : i < w.length
    · rw [q1 i h1]; exact h1
    · by_cases h2 : i < w.length + S.length
      · obtain ⟨k, rfl⟩ : ∃ k, i = w.length + k := ⟨i - w.length, by omega⟩
        rw [q2 k (by omega)]; exact (gS k (by omega)).2
      · obtain ⟨k, rfl⟩ : ∃ k, i = w.length + (S.length + k) := ⟨i - w.length - S.length, by omega⟩
        rw [q3]; exact (gT k (by omega)).2
  · intro k hk
    have hk' : k < w.length := hk
    exact ⟨k, by rw [hn]; omega, q1 k hk'⟩
  · rw [hn]
    refine kernel_of_retraction ?_ ?_
    · intro i hi
      by_cases h1 : i < w.length
      · rw [q1 i h1]; exact EqvGen.refl _
      · by_cases h2 : i < w.length + S.length
        · obtain ⟨k, rfl⟩ : ∃ k, i = w.length + k := ⟨i - w.length, by omega⟩
          have hk : k < S.length := by omega
          rw [q2 k hk]
          refine EqvGen.symm _ _ (EqvOn.of_rel (by have := (gS k hk).2; omega) hi
            (Or.inl ⟨k, (gS k hk).1, ?_⟩))
          show ((List.range S.length)[k]?).map (w.length + ·) = _
          rw [List.getElem?_range hk]; rfl
        · obtain ⟨k, rfl⟩ : ∃ k, i = w.length + (S.length + k) :=
            ⟨i - w.length - S.length, by omega⟩
          have hk : k < T.length := by omega
          rw [q3]
          refine EqvGen.symm _ _ (EqvOn.of_rel (by have := (gT k hk).2; omega) hi
            (Or.inr ⟨k, (gT k hk).1, ?_⟩))
          show ((List.range' S.length T.length)[k]?).map (w.length + ·) = _
          rw [List.getElem?_range' hk, Nat.one_mul]; rfl
    · rintro a b _ _ (⟨k, h1, h2⟩ | ⟨k, h1, h2⟩)
      · have hk : k < S.length := (List.getElem?_eq_some_iff.1 h1).1
        have h2' : ((List.range S.length)[k]?).map (w.length + ·) = some b := h2
        rw [List.getElem?_range hk] at h2'
        have hb : b = w.length + k := (Option.some.inj h2').symm
        have ha := hS a (List.mem_of_getElem? h1)
        rw [hb, q1 a ha, q2 k hk]
        simp [List.getD_eq_getElem?_getD, h1]
      · have hk : k < T.length := (List.getElem?_eq_some_iff.1 h1).1
        have h2' : ((List.range' S.length T.length)[k]?).map (w.length + ·) = some b := h2
        rw [List.getElem?_range' hk, Nat.one_mul] at h2'
        have hb : b = w.length + (S.length + k) := (Option.some.inj h2').symm
        have ha := hT a (List.mem_of_getElem? h1)
        rw [hb, q1 a ha, q3]
        simp [List.getD_eq_getElem?_getD, h1]
  · intro i hi
    rw [hn] at hi
    show w[q i]? = (w ++ (Prim.gatherP w S ++ Prim.gatherP w T))[i]?
    by_cases h1 : i < w.length
    · rw [q1 i h1, List.getElem?_append_left h1]
    · by_cases h2 : i < w.length + S.length
      · obtain ⟨k, rfl⟩ : ∃ k, i = w.length + k := ⟨i - w.length, by omega⟩
        have hk : k < S.length := by omega
        rw [q2 k hk, getElem?_append_add rfl,
          List.getElem?_append_left (by rw [FinFun.gatherP_length _ _ hS]; exact hk),
          FinFun.gatherP_getElem? _ _ hS, (gS k hk).1]
        rfl
      · obtain ⟨k, rfl⟩ : ∃ k, i = w.length + (S.length + k) := ⟨i - w.length - S.length, by omega⟩
        have hk : k < T.length := by omega
        rw [q3, getElem?_append_add rfl,
          getElem?_append_add (FinFun.gatherP_length _ _ hS).symm,
          FinFun.gatherP_getElem? _ _ hT, (gT k hk).1]
        rfl
  · show Compose.mkEdges x (splitSegs ssz S) (splitSegs tsz T) =
      ((Compose.mkEdges x (splitSegs ssz (List.range S.length))
        (splitSegs tsz (List.range' S.length T.length))).map (PEdge.mapNodes (w.length + ·))).map
        (PEdge.mapNodes q)
    rw [map_mapNodes_map, ← Compose.mkEdges_map, ← splitSegs_map, ← splitSegs_map]
    congr 1
    · congr 1
      conv => lhs; rw [← map_getD_range S]
      apply List.map_congr_left
      intro k hk
      exact (q2 k (List.mem_range.1 hk)).symm
    · congr 1
      conv => lhs; rw [← map_getD_range T]
      rw [List.range'_eq_map_range, List.map_map]
      apply List.map_congr_left
      intro k _
      exact (q3 k).symm
  · show ins = ins.map q
    conv => lhs; rw [← List.map_id ins]
    exact List.map_congr_left (fun v hv => (q1 v (hins v hv)).symm)
  · show outs = outs.map q
    conv => lhs; rw [← List.map_id outs]
    exact List.map_congr_left (fun v hv => (q1 v (houts v hv)).symm)

/-- a quotient of the daggered presentation is the dagger of a quotient -/
theorem IsQuot.dagger {P r : PDiag O A} {R : Nat → Nat → Prop} (h : IsQuot P R r) :
    IsQuot P.dagger R r.dagger := by
  obtain ⟨q, h1, h2, h3, h4, h5, h6, h7⟩ := h
  exact ⟨q, h1, h2, h3, h4, h5, h7, h6⟩

/-! ### block arithmetic: positions of the object images inside the flattened image -/

/-- the block of positions of segment `j` in a segmented array with segment sizes `ks` -/
def blockS (ks : List Nat) (j : Nat) : List Nat := List.range' (ks.take j).sum (ks.getD j 0)

theorem block_eq {O2 : Type} (w : IC (List O2)) (hw : w.valid = true) (j : Nat) :
    C12.block w j = blockS w.sources.table j := by
  have hml := IC.segsL_map_length w hw
  unfold C12.block blockS
  rw [List.map_take, hml]
  congr 1
  rw [← hml]
  simp [List.getD_eq_getElem?_getD, List.getElem?_map]
  cases w.segsL[j]? <;> simp

theorem expand_eq {O2 : Type} (w : IC (List O2)) (hw : w.valid = true) (ids : List Nat) :
    C12.expand w ids = ids.flatMap (blockS w.sources.table) := by
  unfold C12.expand
  congr 1
  funext j
  exact block_eq w hw j

theorem take_succ_sum (ks : List Nat) (s : Nat) :
    (ks.take (s + 1)).sum = (ks.take s).sum + ks.getD s 0 := by
  induction ks generalizing s with
  | nil => simp
  | cons k ks ih =>
    cases s with
    | zero => simp
    | succ s =>
      have := ih s
      simp only [List.take_succ_cons, List.sum_cons, List.getD_cons_succ] at this ⊢
      omega

theorem take_sum_mono (ks : List Nat) (a b : Nat) (h : a ≤ b) : (ks.take a).sum ≤ (ks.take b).sum := by
  induction ks generalizing a b with
  | nil => simp
  | cons k ks ih =>
    cases a with
    | zero => simp
    | succ a =>
      cases b with
      | zero => omega
      | succ b =>
        have := ih a b (by omega)
        simp only [List.take_succ_cons, List.sum_cons]
        omega

theorem sum_replicate_one (m : Nat) : (List.replicate m 1).sum = m := by
  induction m with
  | zero => rfl
  | succ m ih => rw [List.replicate_succ, List.sum_cons, ih]; omega

/-- consecutive blocks concatenate to an interval -/
theorem flatMap_blockS_range' (ks : List Nat) (s k : Nat) :
    (List.range' s k).flatMap (blockS ks) =
      List.range' (ks.take s).sum ((ks.take (s + k)).sum - (ks.take s).sum) := by
  induction k generalizing s with
  | zero => simp
  | succ k ih =>
    rw [List.range'_succ, List.flatMap_cons, ih (s + 1)]
    unfold blockS
    have h1 := take_succ_sum ks s
    have h2 : (ks.take (s + 1)).sum ≤ (ks.take (s + 1 + k)).sum :=
      take_sum_mono ks _ _ (by omega)
    rw [h1, List.range'_append_1]
    congr 1
    have : s + 1 + k = s + (k + 1) := by omega
    rw [this] at h2 ⊢
    omega

theorem flatMap_blockS_range (ks : List Nat) :
    (List.range ks.length).flatMap (blockS ks) = List.range ks.sum := by
  rw [List.range_eq_range', flatMap_blockS_range', List.range_eq_range']
  simp

/-- all sizes `1`: every block is a single position -/
theorem blockS_replicate_one (n j : Nat) (hj : j < n) : blockS (List.replicate n 1) j = [j] := by
  unfold blockS
  have h1 : ((List.replicate n 1).take j).sum = j := by
    rw [List.take_replicate, sum_replicate_one]; omega
  have h2 : (List.replicate n 1).getD j 0 = 1 := by
    simp [List.getD_eq_getElem?_getD, hj]
  rw [h1, h2]; rfl

theorem flatMap_blockS_replicate_one (n : Nat) (ids : List Nat) (h : ∀ i ∈ ids, i < n) :
    ids.flatMap (blockS (List.replicate n 1)) = ids := by
  induction ids with
  | nil => rfl
  | cons i is ih =>
    rw [List.flatMap_cons, blockS_replicate_one n i (h i (by simp)),
      ih (fun j hj => h j (by simp [hj]))]
    rfl

/-- blocks of a concatenation of size lists -/
theorem blockS_append_left (ks ks' : List Nat) (j : Nat) (hj : j < ks.length) :
    blockS (ks ++ ks') j = blockS ks j := by
  unfold blockS
  rw [List.take_append_of_le_length (by omega)]
  congr 1
  simp [List.getD_eq_getElem?_getD, List.getElem?_append_left hj]

theorem blockS_append_right (ks ks' : List Nat) (j : Nat) :
    blockS (ks ++ ks') (ks.length + j) = (blockS ks' j).map (ks.sum + ·) := by
  unfold blockS
  rw [List.take_append, List.take_of_length_le (by omega), List.sum_append, List.map_add_range']
  congr 1
  · congr 2; congr 1; omega
  · simp [List.getD_eq_getElem?_getD, List.getElem?_append_right]

theorem flatMap_blockS_append_left (ks ks' : List Nat) (ids : List Nat)
    (h : ∀ i ∈ ids, i < ks.length) :
    ids.flatMap (blockS (ks ++ ks')) = ids.flatMap (blockS ks) := by
  induction ids with
  | nil => rfl
  | cons i is ih =>
    rw [List.flatMap_cons, List.flatMap_cons, blockS_append_left _ _ _ (h i (by simp)),
      ih (fun j hj => h j (by simp [hj]))]

theorem flatMap_blockS_append_right (ks ks' : List Nat) (ids : List Nat) :
    (ids.map (ks.length + ·)).flatMap (blockS (ks ++ ks')) =
      (ids.flatMap (blockS ks')).map (ks.sum + ·) := by
  induction ids with
  | nil => rfl
  | cons i is ih =>
    rw [List.map_cons, List.flatMap_cons, List.flatMap_cons, List.map_append, ih,
      blockS_append_right]

theorem flatMap_blockS_range_eq (ks : List Nat) (n : Nat) (h : n = ks.length) :
    (List.range n).flatMap (blockS ks) = List.range ks.sum := by
  subst h; exact flatMap_blockS_range ks

/-- the expanded input leg of a symmetry is the input leg of the symmetry on the expansions -/
theorem flatMap_blockS_twist (kb ka : List Nat) (nb na : Nat) (hb : nb = kb.length)
    (ha : na = ka.length) :
    (List.range' nb na ++ List.range nb).flatMap (blockS (kb ++ ka)) =
      List.range' kb.sum ka.sum ++ List.range kb.sum := by
  subst hb ha
  rw [List.flatMap_append, flatMap_blockS_range',
    flatMap_blockS_append_left _ _ _ (fun i hi => List.mem_range.1 hi), flatMap_blockS_range]
  have t1 : List.take kb.length (kb ++ ka) = kb := by
    rw [List.take_append_of_le_length (Nat.le_refl _), List.take_of_length_le (Nat.le_refl _)]
  have t2 : List.take (kb.length + ka.length) (kb ++ ka) = kb ++ ka :=
    List.take_of_length_le (by simp)
  rw [t1, t2, List.sum_append, Nat.add_sub_cancel_left]

theorem sum_map_length_flatMap {α β : Type} (obj : α → List β) (l : List α) :
    (l.map (fun o => (obj o).length)).sum = (l.flatMap obj).length := by
  induction l with
  | nil => rfl
  | cons o l ih =>
    rw [List.map_cons, List.sum_cons, List.flatMap_cons, List.length_append, ih]

/-! ### the substitution presentation respects `≅` of the substituted diagram -/

theorem substR_lt {W : List O} {es et : List Nat} {X : PDiag O A} (hX : X.wf = true)
    (hes : ∀ v ∈ es, v < W.length) (het : ∀ v ∈ et, v < W.length) (a b : Nat)
    (h : substR W es et X a b) : a < W.length ∧ ∃ c, c < X.n ∧ b = W.length + c := by
  obtain ⟨x1, x2, _⟩ := (PDiag.wf_iff X).1 hX
  rcases h with ⟨k, h1, h2⟩ | ⟨k, h1, h2⟩
  · cases hc : X.ins[k]? with
    | none => rw [hc] at h2; cases h2
    | some c =>
      rw [hc] at h2
      exact ⟨hes a (List.mem_of_getElem? h1), c, x1 c (List.mem_of_getElem? hc),
        (Option.some.inj h2).symm⟩
  · cases hc : X.outs[k]? with
    | none => rw [hc] at h2; cases h2
    | some c =>
      rw [hc] at h2
      exact ⟨het a (List.mem_of_getElem? h1), c, x2 c (List.mem_of_getElem? hc),
        (Option.some.inj h2).symm⟩

/-- an isomorphism of the substituted diagrams extends (by the identity on the expanded nodes) to
    an isomorphism of the substitution presentations -/
theorem substP_isoVia {W : List O} {fs ft : List Nat} {X X' : PDiag O A} {π ρ : Nat → Nat}
    (hfs : ∀ v ∈ fs, v < W.length) (hft : ∀ v ∈ ft, v < W.length) (h : IsoVia X X' π ρ) :
    IsoVia (substP W fs ft X) (substP W fs ft X') (plusMap W.length W.length (fun i => i) π) ρ := by
  refine ⟨?_, ?_, ?_, ?_, ?_, ?_⟩
  · rw [substP_n, substP_n]
    exact plusMap_bijOn (BijOn.refl _) h.nbij
  · have e1 : (substP W fs ft X).edges.length = X.edges.length := by simp [substP]
    have e2 : (substP W fs ft X').edges.length = X'.edges.length := by simp [substP]
    rw [e1, e2]; exact h.ebij
  · rw [substP_n]
    exact sum_nodes (P := W) (P' := X.nodes) (X := W) (X' := X'.nodes) (fun _ hi => hi)
      (fun _ _ => rfl) h.nodes
  · intro e he
    have he' : e < X.edges.length := by simpa [substP] using he
    show (X'.edges.map _)[ρ e]? = ((X.edges.map _)[e]?).map _
    rw [List.getElem?_map, List.getElem?_map, h.edges e he']
    cases X.edges[e]? with
    | none => rfl
    | some x =>
      simp only [Option.map_some, Option.some.injEq]
      exact (mapNodes_plusMap_right W.length W.length (fun i => i) π x).symm
  · show fs = fs.map _
    rw [map_plusMap_left hfs, List.map_id']
  · show ft = ft.map _
    rw [map_plusMap_left hft, List.map_id']

/-- SUBSTITUTION RESPECTS ISOMORPHISM of the substituted diagram -/
theorem subst_congr {W : List O} {fs ft es et : List Nat} {X X' r r' : PDiag O A}
    (hX : X.wf = true) (hfs : ∀ v ∈ fs, v < W.length) (hft : ∀ v ∈ ft, v < W.length)
    (hes : ∀ v ∈ es, v < W.length) (het : ∀ v ∈ et, v < W.length) (hiso : X ≅ X')
    (h : IsQuot (substP W fs ft X) (substR W es et X) r)
    (h' : IsQuot (substP W fs ft X') (substR W es et X') r') : r ≅ r' := by
  obtain ⟨x1, x2, _⟩ := (PDiag.wf_iff X).1 hX
  obtain ⟨π, ρ, v⟩ := iso_iff_isoVia.1 hiso
  refine isQuot_iso_of_isoVia (substP_wf hX hfs hft) (substP_isoVia hfs hft v) h h' ?_ ?_
  · intro a b _ _ hr
    obtain ⟨ha, c, hc, rfl⟩ := substR_lt hX hes het a b hr
    rw [plusMap_left ha, plusMap_right, substP_n]
    have hπc := v.nbij.1 c hc
    refine EqvOn.of_rel (by omega) (by omega) ?_
    rcases hr with ⟨k, h1, h2⟩ | ⟨k, h1, h2⟩
    · refine Or.inl ⟨k, h1, ?_⟩
      rw [v.ins, List.getElem?_map]
      cases hc' : X.ins[k]? with
      | none => rw [hc'] at h2; cases h2
      | some c' =>
        rw [hc'] at h2
        have : c' = c := by
          have e : W.length + c' = W.length + c := Option.some.inj h2
          omega
        rw [this]; rfl
    · refine Or.inr ⟨k, h1, ?_⟩
      rw [v.outs, List.getElem?_map]
      cases hc' : X.outs[k]? with
      | none => rw [hc'] at h2; cases h2
      | some c' =>
        rw [hc'] at h2
        have : c' = c := by
          have e : W.length + c' = W.length + c := Option.some.inj h2
          omega
        rw [this]; rfl
  · intro a' b' _ _ hr
    rw [substP_n]
    rcases hr with ⟨k, h1, h2⟩ | ⟨k, h1, h2⟩
    · rw [v.ins, List.getElem?_map] at h2
      cases hc : X.ins[k]? with
      | none => rw [hc] at h2; cases h2
      | some c =>
        rw [hc] at h2
        have ha := hes a' (List.mem_of_getElem? h1)
        have hc' := x1 c (List.mem_of_getElem? hc)
        refine ⟨a', W.length + c, by omega, by omega, plusMap_left ha, ?_, ?_⟩
        · rw [plusMap_right]; exact Option.some.inj h2
        · exact EqvOn.of_rel (by omega) (by omega) (Or.inl ⟨k, h1, by rw [hc]; rfl⟩)
    · rw [v.outs, List.getElem?_map] at h2
      cases hc : X.outs[k]? with
      | none => rw [hc] at h2; cases h2
      | some c =>
        rw [hc] at h2
        have ha := het a' (List.mem_of_getElem? h1)
        have hc' := x2 c (List.mem_of_getElem? hc)
        refine ⟨a', W.length + c, by omega, by omega, plusMap_left ha, ?_, ?_⟩
        · rw [plusMap_right]; exact Option.some.inj h2
        · exact EqvOn.of_rel (by omega) (by omega) (Or.inr ⟨k, h1, by rw [hc]; rfl⟩)

/-! ### substitution commutes with juxtaposition -/

theorem midSwap_inv {a b c d : Nat} (i : Nat) (hi : i < a + b + c + d) :
    midSwap a c b (midSwap a b c i) = i := by
  by_cases h1 : i < a
  · rw [midSwap_1 h1, midSwap_1 h1]
  · by_cases h2 : i < a + b
    · obtain ⟨v, rfl⟩ : ∃ v, i = a + v := ⟨i - a, by omega⟩
      rw [midSwap_2 (by omega), midSwap_3 (by omega)]
    · by_cases h3 : i < a + b + c
      · obtain ⟨v, rfl⟩ : ∃ v, i = a + b + v := ⟨i - (a + b), by omega⟩
        rw [midSwap_3 (by omega), midSwap_2 (by omega)]
      · obtain ⟨v, rfl⟩ : ∃ v, i = a + b + c + v := ⟨i - (a + b + c), by omega⟩
        rw [midSwap_4, midSwap_4]

/-- SUBSTITUTION COMMUTES WITH JUXTAPOSITION: the juxtaposition of two quotients of substitution
    presentations is a quotient of the substitution presentation of the juxtaposed data -/
theorem subst_juxt {W W' : List O} {fs ft es et fs' ft' es' et' : List Nat} {X X' r r' : PDiag O A}
    (hX : X.wf = true) (hX' : X'.wf = true)
    (hfs : ∀ v ∈ fs, v < W.length) (hft : ∀ v ∈ ft, v < W.length)
    (hes : ∀ v ∈ es, v < W.length) (het : ∀ v ∈ et, v < W.length)
    (hfs' : ∀ v ∈ fs', v < W'.length) (hft' : ∀ v ∈ ft', v < W'.length)
    (hes' : ∀ v ∈ es', v < W'.length) (het' : ∀ v ∈ et', v < W'.length)
    (hls : es.length = X.ins.length) (hlt : et.length = X.outs.length)
    (h : IsQuot (substP W fs ft X) (substR W es et X) r)
    (h' : IsQuot (substP W' fs' ft' X') (substR W' es' et' X') r') :
    IsQuot (substP (W ++ W') (fs ++ fs'.map (W.length + ·)) (ft ++ ft'.map (W.length + ·))
        (PDiag.juxt X X'))
      (substR (W ++ W') (es ++ es'.map (W.length + ·)) (et ++ et'.map (W.length + ·))
        (PDiag.juxt X X'))
      (PDiag.juxt r r') := by
  obtain ⟨x1, x2, x3⟩ := (PDiag.wf_iff X).1 hX
  obtain ⟨x1', x2', x3'⟩ := (PDiag.wf_iff X').1 hX'
  have hP1 := substP_wf hX hfs hft
  have hP2 := substP_wf hX' hfs' hft'
  have hJ := IsQuot.juxt hP1 h h'
  have n1 := substP_n W fs ft X
  have n2 := substP_n W' fs' ft' X'
  have hPn : (PDiag.juxt (substP W fs ft X) (substP W' fs' ft' X')).n =
      W.length + X.n + (W'.length + X'.n) := by rw [juxt_n, n1, n2]
  have hSn : (substP (W ++ W') (fs ++ fs'.map (W.length + ·)) (ft ++ ft'.map (W.length + ·))
      (PDiag.juxt X X')).n = W.length + W'.length + (X.n + X'.n) := by
    rw [substP_n, juxt_n, List.length_append]
  have hWW : (W ++ W').length = W.length + W'.length := List.length_append
  -- the block exchange and its inverse
  have σ1 : ∀ v, v < W.length → midSwap W.length W'.length X.n v = v := fun v hv => midSwap_1 hv
  have σ2 : ∀ v, v < W'.length →
      midSwap W.length W'.length X.n (W.length + v) = W.length + X.n + v := fun v hv => midSwap_2 hv
  have σ3 : ∀ v, v < X.n →
      midSwap W.length W'.length X.n (W.length + W'.length + v) = W.length + v :=
    fun v hv => midSwap_3 hv
  have σ4 : ∀ v, midSwap W.length W'.length X.n (W.length + W'.length + X.n + v) =
      W.length + X.n + W'.length + v := fun v => midSwap_4 _ _ _ v
  have φ1 : ∀ v, v < W.length → midSwap W.length X.n W'.length v = v := fun v hv => midSwap_1 hv
  have φ2 : ∀ v, v < X.n →
      midSwap W.length X.n W'.length (W.length + v) = W.length + W'.length + v :=
    fun v hv => midSwap_2 hv
  have φ3 : ∀ v, v < W'.length →
      midSwap W.length X.n W'.length (W.length + X.n + v) = W.length + v := fun v hv => midSwap_3 hv
  have φ4 : ∀ v, midSwap W.length X.n W'.length (W.length + X.n + W'.length + v) =
      W.length + W'.length + X.n + v := fun v => midSwap_4 _ _ _ v
  refine isQuot_retract (σ := midSwap W.length W'.length X.n) (φ := midSwap W.length X.n W'.length)
    (juxt_wf hP1 hP2) hJ ?_ ?_ ?_ ?_ ?_ ?_ ?_ ?_ ?_ ?_
  · intro a ha
    have := (midSwap_bijOn W.length W'.length X.n X'.n).1 a (by omega)
    omega
  · intro a ha
    exact midSwap_inv (d := X'.n) a (by omega)
  · intro x hx
    have := (midSwap_bijOn W.length X.n W'.length X'.n).1 x (by omega)
    omega
  · intro x hx
    rw [midSwap_inv (d := X'.n) x (by omega)]
    exact EqvGen.refl _
  · -- generators of the juxtaposed presentation
    intro x y hx hy hr
    rw [n1] at hr
    rcases hr with ⟨_, _, hr⟩ | ⟨hx1, hy1, hr⟩
    · obtain ⟨ha, c, hc, rfl⟩ := substR_lt hX hes het x y hr
      rw [φ1 x ha, φ2 c hc]
      refine EqvOn.of_rel (by omega) (by omega) ?_
      rcases hr with ⟨k, h1, h2⟩ | ⟨k, h1, h2⟩
      · have hk : k < es.length := (List.getElem?_eq_some_iff.1 h1).1
        refine Or.inl ⟨k, by rw [List.getElem?_append_left hk]; exact h1, ?_⟩
        show ((X.ins ++ X'.ins.map (X.n + ·))[k]?).map ((W ++ W').length + ·) = _
        rw [List.getElem?_append_left (by omega), hWW]
        cases hc' : X.ins[k]? with
        | none => rw [hc'] at h2; cases h2
        | some c' =>
          rw [hc'] at h2
          have e : W.length + c' = W.length + c := Option.some.inj h2
          show some (W.length + W'.length + c') = _
          congr 1; omega
      · have hk : k < et.length := (List.getElem?_eq_some_iff.1 h1).1
        refine Or.inr ⟨k, by rw [List.getElem?_append_left hk]; exact h1, ?_⟩
        show ((X.outs ++ X'.outs.map (X.n + ·))[k]?).map ((W ++ W').length + ·) = _
        rw [List.getElem?_append_left (by omega), hWW]
        cases hc' : X.outs[k]? with
        | none => rw [hc'] at h2; cases h2
        | some c' =>
          rw [hc'] at h2
          have e : W.length + c' = W.length + c := Option.some.inj h2
          show some (W.length + W'.length + c') = _
          congr 1; omega
    · obtain ⟨ha, c, hc, hyc⟩ := substR_lt hX' hes' het' _ _ hr
      obtain ⟨a, rfl⟩ : ∃ a, x = W.length + X.n + a := ⟨x - (W.length + X.n), by omega⟩
      obtain ⟨rfl⟩ : y = W.length + X.n + W'.length + c := by omega
      rw [Nat.add_sub_cancel_left] at ha hr
      rw [φ3 a ha, φ4]
      refine EqvOn.of_rel (by omega) (by omega) ?_
      rcases hr with ⟨k, h1, h2⟩ | ⟨k, h1, h2⟩
      · refine Or.inl ⟨es.length + k, ?_, ?_⟩
        · rw [getElem?_append_add rfl, List.getElem?_map, h1]; rfl
        · show ((X.ins ++ X'.ins.map (X.n + ·))[es.length + k]?).map ((W ++ W').length + ·) = _
          rw [hls, getElem?_append_add rfl, List.getElem?_map, hWW]
          cases hc' : X'.ins[k]? with
          | none => rw [hc'] at h2; cases h2
          | some c' =>
            rw [hc'] at h2
            have e : W'.length + c' = W.length + X.n + W'.length + c - (W.length + X.n) :=
              Option.some.inj h2
            show some (W.length + W'.length + (X.n + c')) = _
            congr 1; omega
      · refine Or.inr ⟨et.length + k, ?_, ?_⟩
        · rw [getElem?_append_add rfl, List.getElem?_map, h1]; rfl
        · show ((X.outs ++ X'.outs.map (X.n + ·))[et.length + k]?).map ((W ++ W').length + ·) = _
          rw [hlt, getElem?_append_add rfl, List.getElem?_map, hWW]
          cases hc' : X'.outs[k]? with
          | none => rw [hc'] at h2; cases h2
          | some c' =>
            rw [hc'] at h2
            have e : W'.length + c' = W.length + X.n + W'.length + c - (W.length + X.n) :=
              Option.some.inj h2
            show some (W.length + W'.length + (X.n + c')) = _
            congr 1; omega
  · -- generators of the substitution presentation of the juxtaposed data
    intro a b _ _ hr
    have key : ∀ (l l' : List Nat) (I I' : List Nat) (k : Nat), l.length = I.length →
        (l ++ l'.map (W.length + ·))[k]? = some a →
        ((I ++ I'.map (X.n + ·))[k]?).map ((W ++ W').length + ·) = some b →
        (∃ c : Nat, l[k]? = some a ∧ I[k]? = some c ∧ b = W.length + W'.length + c) ∨
        (∃ k' a' c' : Nat, l'[k']? = some a' ∧ I'[k']? = some c' ∧ a = W.length + a' ∧
          b = W.length + W'.length + (X.n + c')) := by
      intro l l' I I' k hl h1 h2
      rw [hWW] at h2
      by_cases hk : k < l.length
      · rw [List.getElem?_append_left hk] at h1
        rw [List.getElem?_append_left (by omega)] at h2
        cases hc : I[k]? with
        | none => rw [hc] at h2; cases h2
        | some c =>
          rw [hc] at h2
          exact Or.inl ⟨c, h1, rfl, (Option.some.inj h2).symm⟩
      · rw [List.getElem?_append_right (by omega), List.getElem?_map] at h1
        rw [List.getElem?_append_right (by omega), List.getElem?_map, ← hl] at h2
        cases ha : l'[k - l.length]? with
        | none => rw [ha] at h1; cases h1
        | some a' =>
          cases hc : I'[k - l.length]? with
          | none => rw [hc] at h2; cases h2
          | some c' =>
            rw [ha] at h1
            rw [hc] at h2
            exact Or.inr ⟨_, a', c', ha, hc, (Option.some.inj h1).symm, (Option.some.inj h2).symm⟩
    rw [hPn]
    rcases hr with ⟨k, h1, h2⟩ | ⟨k, h1, h2⟩
    · rcases key es es' X.ins X'.ins k hls h1 h2 with ⟨c, e1, e2, rfl⟩ | ⟨k', a', c', e1, e2, rfl, rfl⟩
      · have ha := hes a (List.mem_of_getElem? e1)
        have hc := x1 c (List.mem_of_getElem? e2)
        rw [σ1 a ha, σ3 c hc]
        exact EqvOn.of_rel (by omega) (by omega)
          (Or.inl ⟨by omega, by omega, Or.inl ⟨k, e1, by rw [e2]; rfl⟩⟩)
      · have ha := hes' a' (List.mem_of_getElem? e1)
        have hc := x1' c' (List.mem_of_getElem? e2)
        rw [σ2 a' ha, show W.length + W'.length + (X.n + c') = W.length + W'.length + X.n + c' by omega,
          σ4]
        refine EqvOn.of_rel (by omega) (by omega) (Or.inr ⟨by omega, by omega, Or.inl ⟨k', ?_, ?_⟩⟩)
        · rw [n1, Nat.add_sub_cancel_left]; exact e1
        · rw [n1, e2]
          show some (W'.length + c') = some _
          congr 1; omega
    · rcases key et et' X.outs X'.outs k hlt h1 h2 with ⟨c, e1, e2, rfl⟩ | ⟨k', a', c', e1, e2, rfl, rfl⟩
      · have ha := het a (List.mem_of_getElem? e1)
        have hc := x2 c (List.mem_of_getElem? e2)
        rw [σ1 a ha, σ3 c hc]
        exact EqvOn.of_rel (by omega) (by omega)
          (Or.inl ⟨by omega, by omega, Or.inr ⟨k, e1, by rw [e2]; rfl⟩⟩)
      · have ha := het' a' (List.mem_of_getElem? e1)
        have hc := x2' c' (List.mem_of_getElem? e2)
        rw [σ2 a' ha, show W.length + W'.length + (X.n + c') = W.length + W'.length + X.n + c' by omega,
          σ4]
        refine EqvOn.of_rel (by omega) (by omega) (Or.inr ⟨by omega, by omega, Or.inr ⟨k', ?_, ?_⟩⟩)
        · rw [n1, Nat.add_sub_cancel_left]; exact e1
        · rw [n1, e2]
          show some (W'.length + c') = some _
          congr 1; omega
  · intro a _
    exact getElem?_midSwap W W' X.nodes X'.nodes a
  · show (X.edges ++ X'.edges.map (PEdge.mapNodes (X.n + ·))).map
        (PEdge.mapNodes ((W ++ W').length + ·)) =
      List.map (PEdge.mapNodes (midSwap W.length X.n W'.length))
        (X.edges.map (PEdge.mapNodes (W.length + ·)) ++
          (X'.edges.map (PEdge.mapNodes (W'.length + ·))).map
            (PEdge.mapNodes ((substP W fs ft X).n + ·)))
    rw [n1, hWW]
    simp only [List.map_append, map_mapNodes_map]
    congr 1
    · exact map_mapNodes_congr x3 (fun v hv => (φ2 v hv).symm)
    · refine map_mapNodes_congr x3' (fun v _ => ?_)
      show W.length + W'.length + (X.n + v) =
        midSwap W.length X.n W'.length (W.length + X.n + (W'.length + v))
      rw [show W.length + X.n + (W'.length + v) = W.length + X.n + W'.length + v by omega, φ4]
      omega
  · show fs ++ fs'.map (W.length + ·) =
      List.map _ (fs ++ fs'.map ((substP W fs ft X).n + ·))
    rw [n1, List.map_append, List.map_map]
    congr 1
    · conv => lhs; rw [← List.map_id fs]
      exact List.map_congr_left (fun v hv => (φ1 v (hfs v hv)).symm)
    · exact List.map_congr_left (fun v hv => (φ3 v (hfs' v hv)).symm)
  · show ft ++ ft'.map (W.length + ·) =
      List.map _ (ft ++ ft'.map ((substP W fs ft X).n + ·))
    rw [n1, List.map_append, List.map_map]
    congr 1
    · conv => lhs; rw [← List.map_id ft]
      exact List.map_congr_left (fun v hv => (φ1 v (hft v hv)).symm)
    · exact List.map_congr_left (fun v hv => (φ3 v (hft' v hv)).symm)

/-! ### lifting a node map to the positions of the expanded nodes -/

/-- the segment containing position `v` of a segmented array with sizes `ks` -/
def blkOf : List Nat → Nat → Nat
  | [], _ => 0
  | k :: ks, v => if v < k then 0 else blkOf ks (v - k) + 1

/-- the offset of position `v` inside its segment -/
def offOf : List Nat → Nat → Nat
  | [], v => v
  | k :: ks, v => if v < k then v else offOf ks (v - k)

theorem blk_spec (ks : List Nat) (v : Nat) (hv : v < ks.sum) :
    blkOf ks v < ks.length ∧ offOf ks v < ks.getD (blkOf ks v) 0 ∧
      (ks.take (blkOf ks v)).sum + offOf ks v = v := by
  induction ks generalizing v with
  | nil => simp at hv
  | cons k ks ih =>
    by_cases h : v < k
    · simp [blkOf, offOf, h]
    · have hv' : v - k < ks.sum := by simp only [List.sum_cons] at hv; omega
      obtain ⟨i1, i2, i3⟩ := ih (v - k) hv'
      simp only [blkOf, offOf, if_neg h, List.length_cons, List.getD_cons_succ, List.take_succ_cons,
        List.sum_cons]
      exact ⟨by omega, i2, by omega⟩

theorem blk_of_pos (ks : List Nat) (j o : Nat) (hj : j < ks.length) (ho : o < ks.getD j 0) :
    blkOf ks ((ks.take j).sum + o) = j ∧ offOf ks ((ks.take j).sum + o) = o := by
  induction ks generalizing j with
  | nil => simp at hj
  | cons k ks ih =>
    cases j with
    | zero =>
      have ho' : o < k := by simpa using ho
      simp [blkOf, offOf, ho']
    | succ j =>
      have hj' : j < ks.length := by simpa using hj
      have ho' : o < ks.getD j 0 := by simpa using ho
      obtain ⟨i1, i2⟩ := ih j hj' ho'
      have e : (List.take (j + 1) (k :: ks)).sum + o - k = (ks.take j).sum + o := by
        simp only [List.take_succ_cons, List.sum_cons]; omega
      have hn : ¬ (List.take (j + 1) (k :: ks)).sum + o < k := by
        simp only [List.take_succ_cons, List.sum_cons]; omega
      simp only [blkOf, offOf, if_neg hn, e, i1, i2, and_self]

theorem block_le_sum (ks : List Nat) (j : Nat) : (ks.take j).sum + ks.getD j 0 ≤ ks.sum := by
  rw [← take_succ_sum]
  have := take_sum_mono ks (j + 1) (max (j + 1) ks.length) (Nat.le_max_left _ _)
  rwa [List.take_of_length_le (Nat.le_max_right _ _)] at this

theorem blockS_eq_map (ks : List Nat) (j : Nat) :
    blockS ks j = (List.range (ks.getD j 0)).map ((ks.take j).sum + ·) := by
  unfold blockS
  rw [List.range'_eq_map_range]

/-- position `(segment j, offset o)` of the sizes `ks` ↦ position `(segment p j, offset o)` of the
    sizes `ks'` -/
def liftPos (ks ks' : List Nat) (p : Nat → Nat) (v : Nat) : Nat :=
  (ks'.take (p (blkOf ks v))).sum + offOf ks v

/-- `p` maps the segments of `ks` to segments of `ks'` of the same size -/
def SizeCompat (ks ks' : List Nat) (p : Nat → Nat) : Prop :=
  ∀ j, j < ks.length → p j < ks'.length ∧ ks'.getD (p j) 0 = ks.getD j 0

theorem liftPos_pos {ks ks' : List Nat} {p : Nat → Nat} (j o : Nat) (hj : j < ks.length)
    (ho : o < ks.getD j 0) :
    liftPos ks ks' p ((ks.take j).sum + o) = (ks'.take (p j)).sum + o := by
  obtain ⟨h1, h2⟩ := blk_of_pos ks j o hj ho
  unfold liftPos
  rw [h1, h2]

theorem liftPos_lt {ks ks' : List Nat} {p : Nat → Nat} (hc : SizeCompat ks ks' p) (v : Nat)
    (hv : v < ks.sum) : liftPos ks ks' p v < ks'.sum := by
  obtain ⟨h1, h2, _⟩ := blk_spec ks v hv
  obtain ⟨_, c2⟩ := hc _ h1
  have := block_le_sum ks' (p (blkOf ks v))
  unfold liftPos
  omega

/-- KEY: the lifted map sends the block of `j` onto the block of `p j`, in order -/
theorem blockS_map_liftPos {ks ks' : List Nat} {p : Nat → Nat} (hc : SizeCompat ks ks' p) (j : Nat)
    (hj : j < ks.length) : (blockS ks j).map (liftPos ks ks' p) = blockS ks' (p j) := by
  rw [blockS_eq_map, blockS_eq_map, List.map_map, (hc j hj).2]
  apply List.map_congr_left
  intro o ho
  exact liftPos_pos j o hj (List.mem_range.1 ho)

theorem flatMap_blockS_map_liftPos {ks ks' : List Nat} {p : Nat → Nat} (hc : SizeCompat ks ks' p)
    (ids : List Nat) (h : ∀ i ∈ ids, i < ks.length) :
    (ids.flatMap (blockS ks)).map (liftPos ks ks' p) = (ids.map p).flatMap (blockS ks') := by
  induction ids with
  | nil => rfl
  | cons i is ih =>
    rw [List.flatMap_cons, List.map_append, List.map_cons, List.flatMap_cons,
      blockS_map_liftPos hc i (h i (by simp)), ih (fun j hj => h j (by simp [hj]))]

/-- a bijection of the segments lifts to a bijection of the positions -/
theorem liftPos_bijOn {ks ks' : List Nat} {p : Nat → Nat} (hc : SizeCompat ks ks' p)
    (hp : BijOn ks.length ks'.length p) : BijOn ks.sum ks'.sum (liftPos ks ks' p) := by
  refine ⟨liftPos_lt hc, ?_, ?_⟩
  · intro v v' hv hv' e
    obtain ⟨a1, a2, a3⟩ := blk_spec ks v hv
    obtain ⟨b1, b2, b3⟩ := blk_spec ks v' hv'
    obtain ⟨c1, c2⟩ := hc _ a1
    obtain ⟨d1, d2⟩ := hc _ b1
    unfold liftPos at e
    obtain ⟨x1, x2⟩ := blk_of_pos ks' (p (blkOf ks v)) (offOf ks v) c1 (by omega)
    obtain ⟨y1, y2⟩ := blk_of_pos ks' (p (blkOf ks v')) (offOf ks v') d1 (by omega)
    rw [e] at x1 x2
    have hb : blkOf ks v = blkOf ks v' := hp.2.1 _ _ a1 b1 (x1.symm.trans y1)
    have ho : offOf ks v = offOf ks v' := x2.symm.trans y2
    rw [← a3, ← b3, hb, ho]
  · intro v' hv'
    obtain ⟨a1, a2, a3⟩ := blk_spec ks' v' hv'
    obtain ⟨j, hj, hpj⟩ := hp.2.2 _ a1
    obtain ⟨_, c2⟩ := hc j hj
    have ho : offOf ks' v' < ks.getD j 0 := by rw [← c2, hpj]; exact a2
    have := block_le_sum ks j
    refine ⟨(ks.take j).sum + offOf ks' v', by omega, ?_⟩
    rw [liftPos_pos j _ hj ho, hpj, a3]

/-- labels of the flattened segments, position by position -/
theorem flatten_getElem? {α : Type} (L : List (List α)) (j o : Nat) (hj : j < L.length)
    (ho : o < (L.getD j []).length) :
    L.flatten[((L.map List.length).take j).sum + o]? = (L.getD j [])[o]? := by
  induction L generalizing j with
  | nil => simp at hj
  | cons l L ih =>
    cases j with
    | zero =>
      have ho' : o < l.length := by simpa using ho
      simp [List.getElem?_append_left ho']
    | succ j =>
      have hj' : j < L.length := by simpa using hj
      have ho' : o < (L.getD j []).length := by simpa using ho
      have := ih j hj' ho'
      simp only [List.flatten_cons, List.map_cons, List.take_succ_cons, List.sum_cons,
        List.getD_cons_succ]
      rw [Nat.add_assoc, getElem?_append_add rfl]
      exact this

theorem getD_map_length {α : Type} (L : List (List α)) (j : Nat) :
    (L.map List.length).getD j 0 = (L.getD j []).length := by
  simp only [List.getD_eq_getElem?_getD, List.getElem?_map]
  cases L[j]? <;> rfl

/-- the label at offset `o` of segment `j` of the object images -/
theorem values_getElem? {O2 : Type} (fw : IC (List O2)) (hv : fw.valid = true) (j o : Nat)
    (hj : j < fw.sources.table.length) (ho : o < fw.sources.table.getD j 0) :
    fw.values[(fw.sources.table.take j).sum + o]? = (fw.segsL.getD j [])[o]? := by
  have hml := IC.segsL_map_length fw hv
  have h := flatten_getElem? fw.segsL j o (by rw [IC.segsL_length]; exact hj)
    (by rw [← getD_map_length, hml]; exact ho)
  rw [hml, IC.segsL_flatten fw hv] at h
  exact h

/-! ### substitution respects a relabelling of the expanded nodes -/

/-- if the expanded nodes are permuted by `π` (labels preserved) and all four expanded interfaces
    are pushed through `π`, the quotient of the substitution presentation does not change (up to
    isomorphism) -/
theorem subst_relabel {W W' : List O} {fs ft es et : List Nat} {X r r' : PDiag O A} {π : Nat → Nat}
    (hX : X.wf = true) (hfs : ∀ v ∈ fs, v < W.length) (hft : ∀ v ∈ ft, v < W.length)
    (hes : ∀ v ∈ es, v < W.length) (het : ∀ v ∈ et, v < W.length)
    (hπ : BijOn W.length W'.length π) (hlab : ∀ i, i < W.length → W'[π i]? = W[i]?)
    (h : IsQuot (substP W fs ft X) (substR W es et X) r)
    (h' : IsQuot (substP W' (fs.map π) (ft.map π) X) (substR W' (es.map π) (et.map π) X) r') :
    r ≅ r' := by
  obtain ⟨x1, x2, _⟩ := (PDiag.wf_iff X).1 hX
  have hv : IsoVia (substP W fs ft X) (substP W' (fs.map π) (ft.map π) X)
      (plusMap W.length W'.length π (fun i => i)) (fun e => e) := by
    refine ⟨?_, ?_, ?_, ?_, ?_, ?_⟩
    · rw [substP_n, substP_n]
      exact plusMap_bijOn hπ (BijOn.refl _)
    · have e1 : (substP W fs ft X).edges.length = X.edges.length := by simp [substP]
      have e2 : (substP W' (fs.map π) (ft.map π) X).edges.length = X.edges.length := by
        simp [substP]
      rw [e1, e2]; exact BijOn.refl _
    · rw [substP_n]
      exact sum_nodes (P := W) (P' := X.nodes) (X := W') (X' := X.nodes) hπ.1 hlab (fun _ _ => rfl)
    · intro e _
      show (X.edges.map _)[e]? = ((X.edges.map _)[e]?).map _
      rw [List.getElem?_map, List.getElem?_map]
      cases X.edges[e]? with
      | none => rfl
      | some x =>
        simp only [Option.map_some, Option.some.injEq]
        have := mapNodes_plusMap_right W.length W'.length π (fun i => i) x
        rw [this]
        congr 1
        exact (PEdge.mapNodes_id x).symm
    · show fs.map π = fs.map _
      rw [map_plusMap_left hfs]
    · show ft.map π = ft.map _
      rw [map_plusMap_left hft]
  refine isQuot_iso_of_isoVia (substP_wf hX hfs hft) hv h h' ?_ ?_
  · intro a b _ _ hr
    obtain ⟨ha, c, hc, rfl⟩ := substR_lt hX hes het a b hr
    rw [plusMap_left ha, plusMap_right, substP_n]
    have hπa := hπ.1 a ha
    refine EqvOn.of_rel (by omega) (by omega) ?_
    rcases hr with ⟨k, h1, h2⟩ | ⟨k, h1, h2⟩
    · refine Or.inl ⟨k, by rw [List.getElem?_map, h1]; rfl, ?_⟩
      cases hc' : X.ins[k]? with
      | none => rw [hc'] at h2; cases h2
      | some c' =>
        rw [hc'] at h2
        have e : W.length + c' = W.length + c := Option.some.inj h2
        have : c' = c := by omega
        rw [this]; rfl
    · refine Or.inr ⟨k, by rw [List.getElem?_map, h1]; rfl, ?_⟩
      cases hc' : X.outs[k]? with
      | none => rw [hc'] at h2; cases h2
      | some c' =>
        rw [hc'] at h2
        have e : W.length + c' = W.length + c := Option.some.inj h2
        have : c' = c := by omega
        rw [this]; rfl
  · intro a' b' _ _ hr
    rw [substP_n]
    rcases hr with ⟨k, h1, h2⟩ | ⟨k, h1, h2⟩
    · rw [List.getElem?_map] at h1
      cases ha : es[k]? with
      | none => rw [ha] at h1; cases h1
      | some a =>
        rw [ha] at h1
        cases hc : X.ins[k]? with
        | none => rw [hc] at h2; cases h2
        | some c =>
          rw [hc] at h2
          have ha' := hes a (List.mem_of_getElem? ha)
          have hc' := x1 c (List.mem_of_getElem? hc)
          refine ⟨a, W.length + c, by omega, by omega, ?_, ?_, ?_⟩
          · rw [plusMap_left ha']; exact Option.some.inj h1
          · rw [plusMap_right]; exact Option.some.inj h2
          · exact EqvOn.of_rel (by omega) (by omega) (Or.inl ⟨k, ha, by rw [hc]; rfl⟩)
    · rw [List.getElem?_map] at h1
      cases ha : et[k]? with
      | none => rw [ha] at h1; cases h1
      | some a =>
        rw [ha] at h1
        cases hc : X.outs[k]? with
        | none => rw [hc] at h2; cases h2
        | some c =>
          rw [hc] at h2
          have ha' := het a (List.mem_of_getElem? ha)
          have hc' := x2 c (List.mem_of_getElem? hc)
          refine ⟨a, W.length + c, by omega, by omega, ?_, ?_, ?_⟩
          · rw [plusMap_left ha']; exact Option.some.inj h1
          · rw [plusMap_right]; exact Option.some.inj h2
          · exact EqvOn.of_rel (by omega) (by omega) (Or.inr ⟨k, ha, by rw [hc]; rfl⟩)

/-! ### substitution and quotients of the expanded nodes -/

/-- if the expanded nodes `W` are mapped ONTO `W'` by `π` (labels preserved), a quotient of the
    substitution presentation over `W` by the kernel of `π` together with the substitution pairs is
    a quotient of the substitution presentation over `W'` (all interfaces pushed through `π`) -/
theorem subst_quotient {W W' : List O} {fs ft es et : List Nat} {X r : PDiag O A} {π : Nat → Nat}
    (hX : X.wf = true) (hfs : ∀ v ∈ fs, v < W.length) (hft : ∀ v ∈ ft, v < W.length)
    (hes : ∀ v ∈ es, v < W.length) (het : ∀ v ∈ et, v < W.length)
    (hπ : ∀ v, v < W.length → π v < W'.length)
    (honto : ∀ v', v' < W'.length → ∃ v, v < W.length ∧ π v = v')
    (hlab : ∀ v, v < W.length → W'[π v]? = W[v]?)
    (h : IsQuot (substP W fs ft X)
      (fun a b => (a < W.length ∧ b < W.length ∧ π a = π b) ∨ substR W es et X a b) r) :
    IsQuot (substP W' (fs.map π) (ft.map π) X) (substR W' (es.map π) (et.map π) X) r := by
  obtain ⟨x1, x2, _⟩ := (PDiag.wf_iff X).1 hX
  have nP := substP_n W fs ft X
  have nS := substP_n W' (fs.map π) (ft.map π) X
  have inv : ∀ a, a < W'.length → invOn W.length π a < W.length ∧ π (invOn W.length π a) = a :=
    fun a ha => invOn_spec (honto a ha)
  -- every expanded node is related to the chosen representative of its image
  have rep : ∀ x, x < W.length → EqvOn (substP W fs ft X).n
      (fun a b => (a < W.length ∧ b < W.length ∧ π a = π b) ∨ substR W es et X a b)
      x (invOn W.length π (π x)) := by
    intro x hx
    obtain ⟨i1, i2⟩ := inv (π x) (hπ x hx)
    exact EqvOn.of_rel (by omega) (by omega) (Or.inl ⟨hx, i1, i2.symm⟩)
  refine isQuot_retract (σ := plusMap W'.length W.length (invOn W.length π) (fun i => i))
    (φ := plusMap W.length W'.length π (fun i => i)) (substP_wf hX hfs hft) h ?_ ?_ ?_ ?_ ?_ ?_ ?_
    ?_ ?_ ?_
  · intro a ha
    rw [nP]; rw [nS] at ha
    exact plusMap_lt (fun i hi => (inv i hi).1) (fun i hi => hi) a ha
  · intro a ha
    by_cases h1 : a < W'.length
    · rw [plusMap_left h1, plusMap_left (inv a h1).1, (inv a h1).2]
    · obtain ⟨c, rfl⟩ : ∃ c, a = W'.length + c := ⟨a - W'.length, by omega⟩
      rw [plusMap_right, plusMap_right]
  · intro x hx
    rw [nS]; rw [nP] at hx
    exact plusMap_lt hπ (fun i hi => hi) x hx
  · intro x hx
    by_cases h1 : x < W.length
    · rw [plusMap_left h1, plusMap_left (hπ x h1)]
      exact rep x h1
    · obtain ⟨c, rfl⟩ : ∃ c, x = W.length + c := ⟨x - W.length, by omega⟩
      rw [plusMap_right, plusMap_right]
      exact EqvGen.refl _
  · intro x y _ _ hr
    rcases hr with ⟨hx, hy, e⟩ | hr
    · rw [plusMap_left hx, plusMap_left hy, e]
      exact EqvGen.refl _
    · obtain ⟨ha, c, hc, rfl⟩ := substR_lt hX hes het x y hr
      rw [plusMap_left ha, plusMap_right, nS]
      have := hπ x ha
      refine EqvOn.of_rel (by omega) (by omega) ?_
      rcases hr with ⟨k, h1, h2⟩ | ⟨k, h1, h2⟩
      · refine Or.inl ⟨k, by rw [List.getElem?_map, h1]; rfl, ?_⟩
        cases hc' : X.ins[k]? with
        | none => rw [hc'] at h2; cases h2
        | some c' =>
          rw [hc'] at h2
          have e : W.length + c' = W.length + c := Option.some.inj h2
          have : c' = c := by omega
          rw [this]; rfl
      · refine Or.inr ⟨k, by rw [List.getElem?_map, h1]; rfl, ?_⟩
        cases hc' : X.outs[k]? with
        | none => rw [hc'] at h2; cases h2
        | some c' =>
          rw [hc'] at h2
          have e : W.length + c' = W.length + c := Option.some.inj h2
          have : c' = c := by omega
          rw [this]; rfl
  · intro a b _ _ hr
    rw [nP]
    have key : ∀ (l : List Nat) (I : List Nat) (k : Nat), (∀ v ∈ l, v < W.length) →
        (∀ v ∈ I, v < X.n) → (l.map π)[k]? = some a → (I[k]?).map (W'.length + ·) = some b →
        ∃ a0 c, l[k]? = some a0 ∧ I[k]? = some c ∧ a0 < W.length ∧ c < X.n ∧ a = π a0 ∧
          b = W'.length + c := by
      intro l I k hl hI h1 h2
      rw [List.getElem?_map] at h1
      cases ha : l[k]? with
      | none => rw [ha] at h1; cases h1
      | some a0 =>
        cases hc : I[k]? with
        | none => rw [hc] at h2; cases h2
        | some c =>
          rw [ha] at h1
          rw [hc] at h2
          exact ⟨a0, c, rfl, rfl, hl a0 (List.mem_of_getElem? ha), hI c (List.mem_of_getElem? hc),
            (Option.some.inj h1).symm, (Option.some.inj h2).symm⟩
    rcases hr with ⟨k, h1, h2⟩ | ⟨k, h1, h2⟩
    · obtain ⟨a0, c, e1, e2, ha0, hc, rfl, rfl⟩ := key es X.ins k hes x1 h1 h2
      rw [plusMap_left (hπ a0 ha0), plusMap_right]
      refine EqvGen.trans _ _ _ (EqvGen.symm _ _ (by rw [← nP]; exact rep a0 ha0)) ?_
      exact EqvOn.of_rel (by omega) (by omega) (Or.inr (Or.inl ⟨k, e1, by rw [e2]; rfl⟩))
    · obtain ⟨a0, c, e1, e2, ha0, hc, rfl, rfl⟩ := key et X.outs k het x2 h1 h2
      rw [plusMap_left (hπ a0 ha0), plusMap_right]
      refine EqvGen.trans _ _ _ (EqvGen.symm _ _ (by rw [← nP]; exact rep a0 ha0)) ?_
      exact EqvOn.of_rel (by omega) (by omega) (Or.inr (Or.inr ⟨k, e1, by rw [e2]; rfl⟩))
  · intro a ha
    rw [nS] at ha
    exact sum_nodes (P := W') (P' := X.nodes) (X := W) (X' := X.nodes)
      (fun i hi => (inv i hi).1)
      (fun i hi => by rw [← hlab _ (inv i hi).1, (inv i hi).2]) (fun _ _ => rfl) a ha
  · show X.edges.map _ = (X.edges.map _).map _
    rw [map_mapNodes_map]
    apply List.map_congr_left
    intro e _
    exact PEdge.mapNodes_congr (fun v _ => (plusMap_right W.length W'.length π (fun i => i) v).symm)
      (fun v _ => (plusMap_right W.length W'.length π (fun i => i) v).symm)
  · show fs.map π = fs.map _
    rw [map_plusMap_left hfs]
  · show ft.map π = ft.map _
    rw [map_plusMap_left hft]

/-! ### gluing two quotients of substitution presentations -/

/-- a gluing of two quotients of substitution presentations is a quotient of the substitution
    presentation of the juxtaposed data (outer interfaces) by the substitution pairs together with
    the expanded boundary pairs -/
theorem subst_glue {W W' : List O} {fs ft es et fs' ft' es' et' : List Nat}
    {X X' r r' L : PDiag O A} (hX : X.wf = true) (hX' : X'.wf = true)
    (hfs : ∀ v ∈ fs, v < W.length) (hft : ∀ v ∈ ft, v < W.length)
    (hes : ∀ v ∈ es, v < W.length) (het : ∀ v ∈ et, v < W.length)
    (hfs' : ∀ v ∈ fs', v < W'.length) (hft' : ∀ v ∈ ft', v < W'.length)
    (hes' : ∀ v ∈ es', v < W'.length) (het' : ∀ v ∈ et', v < W'.length)
    (hls : es.length = X.ins.length) (hlt : et.length = X.outs.length)
    (h : IsQuot (substP W fs ft X) (substR W es et X) r)
    (h' : IsQuot (substP W' fs' ft' X') (substR W' es' et' X') r') (hL : IsGluing r r' L) :
    IsQuot (substP (W ++ W') fs (ft'.map (W.length + ·)) (PDiag.juxt X X'))
      (fun a b =>
        substR (W ++ W') (es ++ es'.map (W.length + ·)) (et ++ et'.map (W.length + ·))
          (PDiag.juxt X X') a b ∨
        ∃ k : Nat, ft[k]? = some a ∧ (fs'[k]?).map (W.length + ·) = some b) L := by
  have hj := subst_juxt hX hX' hfs hft hes het hfs' hft' hes' het' hls hlt h h'
  obtain ⟨q, hq, hk⟩ := (isQuot_iff _ _ _).1 hj
  obtain ⟨qf, hqf, _⟩ := (isQuot_iff _ _ _).1 h
  obtain ⟨qg, hqg, _⟩ := (isQuot_iff _ _ _).1 h'
  -- the quotient map of the juxtaposition, componentwise on the interfaces
  have hi := hq.ins
  have ho := hq.outs
  have hi' : r.ins ++ r'.ins.map (r.n + ·) =
      fs.map q ++ (fs'.map (W.length + ·)).map q := by
    have : (PDiag.juxt r r').ins = List.map q (fs ++ fs'.map (W.length + ·)) := hi
    rwa [List.map_append] at this
  have ho' : r.outs ++ r'.outs.map (r.n + ·) =
      ft.map q ++ (ft'.map (W.length + ·)).map q := by
    have : (PDiag.juxt r r').outs = List.map q (ft ++ ft'.map (W.length + ·)) := ho
    rwa [List.map_append] at this
  have li : r.ins.length = (fs.map q).length := by
    have : r.ins = fs.map qf := hqf.ins
    rw [this, List.length_map, List.length_map]
  have lo : r.outs.length = (ft.map q).length := by
    have : r.outs = ft.map qf := hqf.outs
    rw [this, List.length_map, List.length_map]
  obtain ⟨i1, i2⟩ := List.append_inj hi' li
  obtain ⟨o1, o2⟩ := List.append_inj ho' lo
  have hn : (substP (W ++ W') fs (ft'.map (W.length + ·)) (PDiag.juxt X X')).n =
      (substP (W ++ W') (fs ++ fs'.map (W.length + ·)) (ft ++ ft'.map (W.length + ·))
        (PDiag.juxt X X')).n := rfl
  have hgn : (gluePre r r').n = (PDiag.juxt r r').n := rfl
  have hp : IsQuotMap (substP (W ++ W') fs (ft'.map (W.length + ·)) (PDiag.juxt X X'))
      (gluePre r r') q := by
    refine ⟨?_, ?_, ?_, hq.edges, i1, o2⟩
    · intro i hi; rw [hgn]; exact hq.lt i (hn ▸ hi)
    · intro k hk; rw [hgn] at hk; exact hq.onto k hk
    · intro i hi; exact hq.nodes i (hn ▸ hi)
  obtain ⟨w1, w2, _⟩ := (PDiag.wf_iff _).1
    (substP_wf (W := W ++ W') (fs := fs ++ fs'.map (W.length + ·))
      (ft := ft ++ ft'.map (W.length + ·)) (juxt_wf hX hX')
      (by
        intro v hv; rw [List.length_append]
        rcases List.mem_append.1 hv with hv | hv
        · have := hfs v hv; omega
        · obtain ⟨j, hj', rfl⟩ := List.mem_map.1 hv
          have := hfs' j hj'; omega)
      (by
        intro v hv; rw [List.length_append]
        rcases List.mem_append.1 hv with hv | hv
        · have := hft v hv; omega
        · obtain ⟨j, hj', rfl⟩ := List.mem_map.1 hv
          have := hft' j hj'; omega))
  refine isQuot_stage hp hk hL ?_ ?_
  · -- the expanded boundary pairs are sent to boundary pairs
    rintro a b _ _ ⟨k, h1, h2⟩
    cases hc : fs'[k]? with
    | none => rw [hc] at h2; cases h2
    | some c =>
      rw [hc] at h2
      have hb : b = W.length + c := (Option.some.inj h2).symm
      subst hb
      have ha : a < (substP (W ++ W') (fs ++ fs'.map (W.length + ·))
          (ft ++ ft'.map (W.length + ·)) (PDiag.juxt X X')).n :=
        w2 a (List.mem_append_left _ (List.mem_of_getElem? h1))
      have hb : W.length + c < (substP (W ++ W') (fs ++ fs'.map (W.length + ·))
          (ft ++ ft'.map (W.length + ·)) (PDiag.juxt X X')).n :=
        w1 _ (List.mem_append_right _ (List.mem_map.2 ⟨c, List.mem_of_getElem? hc, rfl⟩))
      refine EqvOn.of_rel (by rw [hgn]; exact hq.lt a ha) (by rw [hgn]; exact hq.lt _ hb) ⟨k, ?_, ?_⟩
      · rw [o1, List.getElem?_map, h1]; rfl
      · have := congrArg (·[k]?) i2
        simp only [List.getElem?_map, hc, Option.map_some] at this
        exact this
  · -- boundary pairs come from expanded boundary pairs
    rintro a b _ _ ⟨k, h1, h2⟩
    rw [o1, List.getElem?_map] at h1
    have h2' := congrArg (·[k]?) i2
    simp only [List.getElem?_map] at h2'
    rw [h2'] at h2
    cases ha : ft[k]? with
    | none => rw [ha] at h1; cases h1
    | some a0 =>
      cases hc : fs'[k]? with
      | none => rw [hc] at h2; cases h2
      | some c =>
        rw [ha] at h1
        rw [hc] at h2
        have ha0 : a0 < (substP (W ++ W') (fs ++ fs'.map (W.length + ·))
            (ft ++ ft'.map (W.length + ·)) (PDiag.juxt X X')).n :=
          w2 a0 (List.mem_append_left _ (List.mem_of_getElem? ha))
        have hb0 : W.length + c < (substP (W ++ W') (fs ++ fs'.map (W.length + ·))
            (ft ++ ft'.map (W.length + ·)) (PDiag.juxt X X')).n :=
          w1 _ (List.mem_append_right _ (List.mem_map.2 ⟨c, List.mem_of_getElem? hc, rfl⟩))
        refine ⟨a0, W.length + c, hn ▸ ha0, hn ▸ hb0, Option.some.inj h1, Option.some.inj h2, ?_⟩
        exact EqvOn.of_rel (hn ▸ ha0) (hn ▸ hb0) (Or.inr ⟨k, ha, by rw [hc]; rfl⟩)

/-! ### lifting boundary pairs to the expanded positions -/

theorem pairs_iff_mem_zip (l1 l2 : List Nat) (a b : Nat) :
    (∃ k : Nat, l1[k]? = some a ∧ l2[k]? = some b) ↔ (a, b) ∈ l1.zip l2 := by
  rw [List.mem_iff_getElem?]
  constructor
  · rintro ⟨k, h1, h2⟩
    exact ⟨k, List.getElem?_zip_eq_some.2 ⟨h1, h2⟩⟩
  · rintro ⟨k, hk⟩
    exact ⟨k, List.getElem?_zip_eq_some.1 hk⟩

theorem flatMap_zip (b : Nat → List Nat) : ∀ (l1 l2 : List Nat), l1.length = l2.length →
    (∀ p ∈ l1.zip l2, (b p.1).length = (b p.2).length) →
    (l1.flatMap b).zip (l2.flatMap b) = (l1.zip l2).flatMap (fun p => (b p.1).zip (b p.2))
  | [], [], _, _ => rfl
  | [], _ :: _, h, _ => by simp at h
  | _ :: _, [], h, _ => by simp at h
  | x :: l1, y :: l2, h, hb => by
    have h' : l1.length = l2.length := by simpa using h
    rw [List.flatMap_cons, List.flatMap_cons, List.zip_cons_cons, List.flatMap_cons,
      List.zip_append (hb (x, y) (by simp)),
      flatMap_zip b l1 l2 h' (fun p hp => hb p (by simp [hp]))]

theorem mem_zip_blockS (ks : List Nat) (i j o : Nat) (hsz : ks.getD i 0 = ks.getD j 0)
    (ho : o < ks.getD i 0) :
    ((ks.take i).sum + o, (ks.take j).sum + o) ∈ (blockS ks i).zip (blockS ks j) := by
  rw [← pairs_iff_mem_zip]
  refine ⟨o, ?_, ?_⟩
  · unfold blockS; rw [List.getElem?_range' ho, Nat.one_mul]
  · unfold blockS; rw [List.getElem?_range' (hsz ▸ ho), Nat.one_mul]

/-- if the boundary pairs `l1[k] ~ l2[k]` relate nodes with segments of equal size, the generated
    equivalence lifts, offset by offset, to the equivalence generated by the expanded pairs -/
theorem lift_glue (ks : List Nat) (l1 l2 : List Nat) (hl : l1.length = l2.length)
    (hsz : ∀ p ∈ l1.zip l2, ks.getD p.1 0 = ks.getD p.2 0) {i j : Nat}
    (h : EqvGen (fun a b => ∃ k : Nat, l1[k]? = some a ∧ l2[k]? = some b) i j) :
    ks.getD i 0 = ks.getD j 0 ∧ ∀ o, o < ks.getD i 0 →
      EqvGen (fun a b => ∃ k : Nat, (l1.flatMap (blockS ks))[k]? = some a ∧
        (l2.flatMap (blockS ks))[k]? = some b) ((ks.take i).sum + o) ((ks.take j).sum + o) := by
  have hz := flatMap_zip (blockS ks) l1 l2 hl (fun p hp => by
    unfold blockS; rw [List.length_range', List.length_range']; exact hsz p hp)
  induction h with
  | rel a b hab =>
    have hm := (pairs_iff_mem_zip l1 l2 a b).1 hab
    refine ⟨hsz (a, b) hm, fun o ho => EqvGen.rel _ _ ?_⟩
    rw [pairs_iff_mem_zip, hz, List.mem_flatMap]
    exact ⟨(a, b), hm, mem_zip_blockS ks a b o (hsz (a, b) hm) ho⟩
  | refl a => exact ⟨rfl, fun o _ => EqvGen.refl _⟩
  | symm a b _ ih => exact ⟨ih.1.symm, fun o ho => EqvGen.symm _ _ (ih.2 o (ih.1 ▸ ho))⟩
  | trans a b c _ _ ih1 ih2 =>
    exact ⟨ih1.1.trans ih2.1,
      fun o ho => EqvGen.trans _ _ _ (ih1.2 o ho) (ih2.2 o (ih1.1 ▸ ho))⟩

/-- two positions with the same lifted image lie at the same offset of segments with the same
    image -/
theorem liftPos_eq {ks ks' : List Nat} {p : Nat → Nat} (hc : SizeCompat ks ks' p) (v v' : Nat)
    (hv : v < ks.sum) (hv' : v' < ks.sum) (e : liftPos ks ks' p v = liftPos ks ks' p v') :
    p (blkOf ks v) = p (blkOf ks v') ∧ offOf ks v = offOf ks v' := by
  obtain ⟨a1, a2, _⟩ := blk_spec ks v hv
  obtain ⟨b1, b2, _⟩ := blk_spec ks v' hv'
  obtain ⟨c1, c2⟩ := hc _ a1
  obtain ⟨d1, d2⟩ := hc _ b1
  unfold liftPos at e
  obtain ⟨x1, x2⟩ := blk_of_pos ks' (p (blkOf ks v)) (offOf ks v) c1 (by omega)
  obtain ⟨y1, y2⟩ := blk_of_pos ks' (p (blkOf ks v')) (offOf ks v') d1 (by omega)
  rw [e] at x1 x2
  exact ⟨x1.symm.trans y1, x2.symm.trans y2⟩

/-- a map of the segments that is onto lifts to a map of the positions that is onto -/
theorem liftPos_onto {ks ks' : List Nat} {p : Nat → Nat} (hc : SizeCompat ks ks' p)
    (hp : ∀ k, k < ks'.length → ∃ j, j < ks.length ∧ p j = k) (v' : Nat) (hv' : v' < ks'.sum) :
    ∃ v, v < ks.sum ∧ liftPos ks ks' p v = v' := by
  obtain ⟨a1, a2, a3⟩ := blk_spec ks' v' hv'
  obtain ⟨j, hj, hpj⟩ := hp _ a1
  obtain ⟨_, c2⟩ := hc j hj
  have ho : offOf ks' v' < ks.getD j 0 := by rw [← c2, hpj]; exact a2
  have := block_le_sum ks j
  refine ⟨(ks.take j).sum + offOf ks' v', by omega, ?_⟩
  rw [liftPos_pos j _ hj ho, hpj, a3]

end OH.Subst
