/-
  Helper lemmas for C02 (tensor is juxtaposition): algebra of `FinFun.tensor`, closed form and
  totality analysis of `IC.tensor` / `HG.coproduct` / `OHG.tensor`, preservation of deep
  well-formedness, the list-of-lists view of a tensor, plain-model reading, types, and the
  algebra of the lax `coproduct` / `tensor`.

  Everything lives in the flat namespace `OH.Tensor` (no additions to `OH.IC`, `OH.HG`, … so that
  this file cannot clash with other lemma files).
-/
import OHVerif.Model.Lax
import OHVerif.Spec.Diagram
import OHVerif.Lemmas.Segs

namespace OH.Tensor
open OH

variable {α : Type} {O A : Type}

/-! ### shifting -/

theorem filterMap_congr' {β γ : Type} {f g : β → Option γ} (l : List β) (h : ∀ a ∈ l, f a = g a) :
    l.filterMap f = l.filterMap g := by
  induction l with
  | nil => rfl
  | cons a l ih =>
    have ha := h a (by simp)
    have ih' := ih (fun b hb => h b (by simp [hb]))
    simp [List.filterMap_cons, ha, ih']

/-- gathering from a concatenation through a juxtaposed index table splits -/
theorem gatherP_append_shift (xs ys : List α) (i j : List Nat) (hi : ∀ a ∈ i, a < xs.length) :
    Prim.gatherP (xs ++ ys) (i ++ j.map (xs.length + ·)) = Prim.gatherP xs i ++ Prim.gatherP ys j := by
  unfold Prim.gatherP
  rw [List.filterMap_append]
  congr 1
  · apply filterMap_congr'
    intro a ha
    exact List.getElem?_append_left (hi a ha)
  · rw [List.filterMap_map]
    apply filterMap_congr'
    intro a _
    simp [List.getElem?_append_right]

/-- reading a list of node ids against the node labels of a juxtaposition (lax `source`/`target`) -/
theorem mapM_get_append_shift (xs ys : List α) (i j : List Nat) (hi : ∀ a ∈ i, a < xs.length) :
    (i ++ j.map (· + xs.length)).mapM (fun k => Prim.get (xs ++ ys) k) =
      (do let a ← i.mapM (fun k => Prim.get xs k)
          let b ← j.mapM (fun k => Prim.get ys k)
          pure (a ++ b)) := by
  have e1 : i.mapM (fun k => Prim.get (xs ++ ys) k) = i.mapM (fun k => Prim.get xs k) := by
    induction i with
    | nil => rfl
    | cons a i ih =>
      have ha := hi a (by simp)
      rw [List.mapM_cons, List.mapM_cons, ih (fun b hb => hi b (by simp [hb]))]
      simp [Prim.get, List.getElem?_append_left ha]
  have e2 : (j.map (· + xs.length)).mapM (fun k => Prim.get (xs ++ ys) k) =
      j.mapM (fun k => Prim.get ys k) := by
    induction j with
    | nil => rfl
    | cons a j ih =>
      rw [List.map_cons, List.mapM_cons, List.mapM_cons, ih]
      simp [Prim.get, List.getElem?_append_right]
  rw [List.mapM_append, e1, e2]

/-! ### `FinFun.tensor` -/

theorem ff_tensor_assoc (f g h : FinFun) :
    FinFun.tensor (FinFun.tensor f g) h = FinFun.tensor f (FinFun.tensor g h) := by
  simp [FinFun.tensor, Nat.add_assoc, Function.comp_def]

theorem ff_tensor_initial_left (f : FinFun) : FinFun.tensor ⟨[], 0⟩ f = f := by
  cases f; simp [FinFun.tensor]

theorem ff_tensor_initial_right (f : FinFun) : FinFun.tensor f ⟨[], 0⟩ = f := by
  cases f; simp [FinFun.tensor]

theorem ff_tensor_WF {f g : FinFun} (hf : f.WF) (hg : g.WF) : (FinFun.tensor f g).WF := by
  intro x hx
  simp only [FinFun.tensor, List.mem_append, List.mem_map] at hx ⊢
  rcases hx with hx | ⟨y, hy, rfl⟩
  · have := hf x hx; omega
  · have := hg y hy; omega

/-! ### `IC.tensor` -/

/-- the data `IC.tensor` returns when it does not panic -/
def icTensorD (c d : IC FinFun) : IC FinFun :=
  ⟨⟨c.sources.table ++ d.sources.table, c.sources.target + d.sources.target - 1⟩,
   FinFun.tensor c.values d.values⟩

/-- complete case analysis: `IC.tensor` never returns `none`, and panics exactly when both size
    maps have codomain `0` -/
theorem ic_tensor_total (c d : IC FinFun) :
    IC.tensor c d = if 1 ≤ c.sources.target + d.sources.target then .ok (icTensorD c d)
      else .panic "ic.tensor:underflow" := by
  unfold IC.tensor checkedSub icTensorD
  split <;> rfl

theorem ic_wf_iff (c : IC FinFun) : c.wf = true ↔ c.valid = true ∧ c.sources.WF ∧ c.values.WF := by
  simp [IC.wf, FinFun.wf_iff, and_assoc]

theorem ic_valid_target_pos {V : Type} [HasLen V] (c : IC V) (h : c.valid = true) :
    1 ≤ c.sources.target := by
  have := ((IC.valid_iff c).1 h).1; omega

theorem icTensorD_valid (c d : IC FinFun) (hc : c.valid = true) (hd : d.valid = true) :
    (icTensorD c d).valid = true := by
  have ⟨h1, h2⟩ := (IC.valid_iff c).1 hc
  have ⟨h3, h4⟩ := (IC.valid_iff d).1 hd
  rw [IC.valid_iff]
  simp only [IC.len_finfun] at h2 h4
  simp only [icTensorD, FinFun.tensor, List.sum_append, IC.len_finfun, List.length_append,
    List.length_map]
  omega

theorem ic_valid_sources_WF (c : IC FinFun) (hc : c.valid = true) : c.sources.WF := by
  intro x hx
  have := ((IC.valid_iff c).1 hc).1
  have := le_sum_of_mem' _ x hx
  omega

theorem icTensorD_wf (c d : IC FinFun) (hc : c.wf = true) (hd : d.wf = true) :
    (icTensorD c d).wf = true := by
  obtain ⟨c1, _, c3⟩ := (ic_wf_iff c).1 hc
  obtain ⟨d1, _, d3⟩ := (ic_wf_iff d).1 hd
  rw [ic_wf_iff]
  exact ⟨icTensorD_valid c d c1 d1, ic_valid_sources_WF _ (icTensorD_valid c d c1 d1),
    ff_tensor_WF c3 d3⟩

/-- the segments of a tensor: those of `c`, then those of `d` shifted by `c`'s value codomain -/
theorem icTensorD_segs (c d : IC FinFun) (hc : c.valid = true) :
    (icTensorD c d).segs = c.segs ++ d.segs.map (·.map (c.values.target + ·)) := by
  have h2 := ((IC.valid_iff c).1 hc).2
  simp only [IC.len_finfun] at h2
  unfold IC.segs icTensorD FinFun.tensor
  simp only
  rw [splitSegs_append _ _ _ _ h2, splitSegs_map]

theorem icTensorD_len (c d : IC FinFun) : (icTensorD c d).len = c.len + d.len := by
  simp [icTensorD, IC.len, FinFun.source]

theorem icTensorD_assoc (c d e : IC FinFun) (hd : 1 ≤ d.sources.target) :
    icTensorD (icTensorD c d) e = icTensorD c (icTensorD d e) := by
  simp only [icTensorD, ff_tensor_assoc, List.append_assoc]
  congr 2
  omega

theorem icTensorD_initial_left (c : IC FinFun) : icTensorD (IC.initial 0) c = c := by
  obtain ⟨⟨st, tg⟩, v⟩ := c
  simp [icTensorD, IC.initial, FinFun.initial, ff_tensor_initial_left]

theorem icTensorD_initial_right (c : IC FinFun) : icTensorD c (IC.initial 0) = c := by
  obtain ⟨⟨st, tg⟩, v⟩ := c
  simp [icTensorD, IC.initial, FinFun.initial, ff_tensor_initial_right]

/-! ### `HG.coproduct` -/

def hgCoproductD (g h : HG O A) : HG O A :=
  ⟨icTensorD g.s h.s, icTensorD g.t h.t, g.w ++ h.w, g.x ++ h.x⟩

/-- complete case analysis of `HG.coproduct` -/
theorem hg_coproduct_total (g h : HG O A) :
    HG.coproduct g h =
      if 1 ≤ g.s.sources.target + h.s.sources.target ∧ 1 ≤ g.t.sources.target + h.t.sources.target
      then .ok (hgCoproductD g h) else .panic "ic.tensor:underflow" := by
  unfold HG.coproduct hgCoproductD
  rw [ic_tensor_total, ic_tensor_total]
  by_cases h1 : 1 ≤ g.s.sources.target + h.s.sources.target <;>
    by_cases h2 : 1 ≤ g.t.sources.target + h.t.sources.target <;> simp [h1, h2]

theorem hg_wf_iff (h : HG O A) : h.wf = true ↔
    h.s.wf = true ∧ h.t.wf = true ∧ h.s.len = h.x.length ∧ h.t.len = h.x.length ∧
    h.s.values.target = h.w.length ∧ h.t.values.target = h.w.length := by
  simp [HG.wf, and_assoc]

theorem hgCoproductD_wf (g h : HG O A) (hg : g.wf = true) (hh : h.wf = true) :
    (hgCoproductD g h).wf = true := by
  obtain ⟨g1, g2, g3, g4, g5, g6⟩ := (hg_wf_iff g).1 hg
  obtain ⟨h1, h2, h3, h4, h5, h6⟩ := (hg_wf_iff h).1 hh
  rw [hg_wf_iff]
  refine ⟨icTensorD_wf _ _ g1 h1, icTensorD_wf _ _ g2 h2, ?_, ?_, ?_, ?_⟩
  · simp [hgCoproductD, icTensorD_len, g3, h3]
  · simp [hgCoproductD, icTensorD_len, g4, h4]
  · simp [hgCoproductD, icTensorD, FinFun.tensor, g5, h5]
  · simp [hgCoproductD, icTensorD, FinFun.tensor, g6, h6]

/-- the hyperedges of a coproduct: those of `g`, then those of `h` with every incident node
    shifted by `g`'s node count -/
theorem hgCoproductD_toPlainEdges (g h : HG O A) (hg : g.wf = true) :
    (hgCoproductD g h).toPlainEdges =
      g.toPlainEdges ++ h.toPlainEdges.map (PEdge.mapNodes (g.w.length + ·)) := by
  obtain ⟨g1, g2, g3, g4, g5, g6⟩ := (hg_wf_iff g).1 hg
  have vs := ((ic_wf_iff _).1 g1).1
  have vt := ((ic_wf_iff _).1 g2).1
  have l1 : g.s.segs.length = g.x.length := by rw [IC.segs_length, g3]
  have l2 : g.t.segs.length = g.x.length := by rw [IC.segs_length, g4]
  unfold HG.toPlainEdges
  simp only [hgCoproductD]
  rw [icTensorD_segs _ _ vs, icTensorD_segs _ _ vt, g5, g6,
    List.zip_append (by rw [l1, l2]), List.zipWith_append (by simp [l1, l2])]
  congr 1
  rw [List.zip_map, List.zipWith_map_right, List.map_zipWith]
  rfl

/-! ### `OHG.tensor` -/

def ohgTensorD (f g : OHG O A) : OHG O A :=
  ⟨FinFun.tensor f.s g.s, FinFun.tensor f.t g.t, hgCoproductD f.h g.h⟩

/-- complete case analysis of `OHG.tensor`: it never returns `none`; its only panic is the
    subtraction in `IC.tensor` -/
theorem ohg_tensor_total (f g : OHG O A) :
    OHG.tensor f g =
      if 1 ≤ f.h.s.sources.target + g.h.s.sources.target ∧
         1 ≤ f.h.t.sources.target + g.h.t.sources.target
      then .ok (ohgTensorD f g) else .panic "ic.tensor:underflow" := by
  unfold OHG.tensor ohgTensorD
  rw [hg_coproduct_total]
  split <;> rfl

theorem ohg_wf_iff (f : OHG O A) : f.wf = true ↔
    f.h.wf = true ∧ f.s.WF ∧ f.t.WF ∧ f.s.target = f.h.w.length ∧ f.t.target = f.h.w.length := by
  simp [OHG.wf, FinFun.wf_iff, and_assoc]

/-- a well-formed diagram has strictly positive size-map codomains -/
theorem ohg_wf_pos (f : OHG O A) (hf : f.wf = true) :
    1 ≤ f.h.s.sources.target ∧ 1 ≤ f.h.t.sources.target := by
  obtain ⟨h1, -⟩ := (ohg_wf_iff f).1 hf
  obtain ⟨g1, g2, -⟩ := (hg_wf_iff _).1 h1
  exact ⟨ic_valid_target_pos _ ((ic_wf_iff _).1 g1).1, ic_valid_target_pos _ ((ic_wf_iff _).1 g2).1⟩

theorem ohg_tensor_ok_left (f g : OHG O A) (hf : f.wf = true) :
    OHG.tensor f g = .ok (ohgTensorD f g) := by
  have := ohg_wf_pos f hf
  rw [ohg_tensor_total, if_pos]; omega

theorem ohg_tensor_ok_right (f g : OHG O A) (hg : g.wf = true) :
    OHG.tensor f g = .ok (ohgTensorD f g) := by
  have := ohg_wf_pos g hg
  rw [ohg_tensor_total, if_pos]; omega

theorem ohgTensorD_wf (f g : OHG O A) (hf : f.wf = true) (hg : g.wf = true) :
    (ohgTensorD f g).wf = true := by
  obtain ⟨f1, f2, f3, f4, f5⟩ := (ohg_wf_iff f).1 hf
  obtain ⟨g1, g2, g3, g4, g5⟩ := (ohg_wf_iff g).1 hg
  rw [ohg_wf_iff]
  refine ⟨hgCoproductD_wf _ _ f1 g1, ff_tensor_WF f2 g2, ff_tensor_WF f3 g3, ?_, ?_⟩
  · simp [ohgTensorD, hgCoproductD, FinFun.tensor, f4, g4]
  · simp [ohgTensorD, hgCoproductD, FinFun.tensor, f5, g5]

theorem ohgTensorD_toPlain (f g : OHG O A) (hf : f.wf = true) :
    (ohgTensorD f g).toPlain = PDiag.juxt f.toPlain g.toPlain := by
  obtain ⟨f1, -, -, f4, f5⟩ := (ohg_wf_iff f).1 hf
  simp only [OHG.toPlain, PDiag.juxt, PDiag.n, ohgTensorD, FinFun.tensor, f4, f5,
    hgCoproductD_toPlainEdges _ _ f1]
  rfl

theorem ohg_source_ok (f : OHG O A) (hf : f.wf = true) :
    f.source = .ok (Prim.gatherP f.h.w f.s.table) := by
  obtain ⟨-, f2, -, f4, -⟩ := (ohg_wf_iff f).1 hf
  simp [OHG.source, FinFun.composeSemi_ok _ _ f2 f4]

theorem ohg_target_ok (f : OHG O A) (hf : f.wf = true) :
    f.target = .ok (Prim.gatherP f.h.w f.t.table) := by
  obtain ⟨-, -, f3, -, f5⟩ := (ohg_wf_iff f).1 hf
  simp [OHG.target, FinFun.composeSemi_ok _ _ f3 f5]

theorem ohgTensorD_source (f g : OHG O A) (hf : f.wf = true) (hg : g.wf = true) :
    (ohgTensorD f g).source =
      .ok (Prim.gatherP f.h.w f.s.table ++ Prim.gatherP g.h.w g.s.table) := by
  rw [ohg_source_ok _ (ohgTensorD_wf f g hf hg)]
  obtain ⟨-, f2, -, f4, -⟩ := (ohg_wf_iff f).1 hf
  simp only [ohgTensorD, hgCoproductD, FinFun.tensor, f4]
  rw [gatherP_append_shift]
  intro a ha; rw [← f4]; exact f2 a ha

theorem ohgTensorD_target (f g : OHG O A) (hf : f.wf = true) (hg : g.wf = true) :
    (ohgTensorD f g).target =
      .ok (Prim.gatherP f.h.w f.t.table ++ Prim.gatherP g.h.w g.t.table) := by
  rw [ohg_target_ok _ (ohgTensorD_wf f g hf hg)]
  obtain ⟨-, -, f3, -, f5⟩ := (ohg_wf_iff f).1 hf
  simp only [ohgTensorD, hgCoproductD, FinFun.tensor, f5]
  rw [gatherP_append_shift]
  intro a ha; rw [← f5]; exact f3 a ha

theorem ohgTensorD_assoc (f g h : OHG O A)
    (hg : 1 ≤ g.h.s.sources.target ∧ 1 ≤ g.h.t.sources.target) :
    ohgTensorD (ohgTensorD f g) h = ohgTensorD f (ohgTensorD g h) := by
  simp only [ohgTensorD, hgCoproductD, ff_tensor_assoc, icTensorD_assoc _ _ _ hg.1,
    icTensorD_assoc _ _ _ hg.2, List.append_assoc]

theorem ohg_identity_nil : (OHG.identity [] : Res (OHG O A)) = .ok ⟨⟨[], 0⟩, ⟨[], 0⟩, HG.empty⟩ := by
  simp [OHG.identity, FinFun.identity_eq, HG.discrete, HG.empty]

theorem ohgTensorD_empty_left (f : OHG O A) : ohgTensorD ⟨⟨[], 0⟩, ⟨[], 0⟩, HG.empty⟩ f = f := by
  obtain ⟨s, t, ⟨hs, ht, w, x⟩⟩ := f
  simp [ohgTensorD, hgCoproductD, HG.empty, ff_tensor_initial_left, icTensorD_initial_left]

theorem ohgTensorD_empty_right (f : OHG O A) : ohgTensorD f ⟨⟨[], 0⟩, ⟨[], 0⟩, HG.empty⟩ = f := by
  obtain ⟨s, t, ⟨hs, ht, w, x⟩⟩ := f
  simp [ohgTensorD, hgCoproductD, HG.empty, ff_tensor_initial_right, icTensorD_initial_right]

/-! ### lax -/

theorem lhg_coproduct_assoc (f g h : LHG O A) :
    LHG.coproduct (LHG.coproduct f g) h = LHG.coproduct f (LHG.coproduct g h) := by
  simp [LHG.coproduct, Function.comp_def, Nat.add_assoc,
    Nat.add_comm g.nodes.length f.nodes.length]

theorem lhg_coproduct_empty_left (f : LHG O A) : LHG.coproduct LHG.empty f = f := by
  obtain ⟨n, e, a, q1, q2⟩ := f
  simp [LHG.coproduct, LHG.empty]

theorem lhg_coproduct_empty_right (f : LHG O A) : LHG.coproduct f LHG.empty = f := by
  obtain ⟨n, e, a, q1, q2⟩ := f
  simp [LHG.coproduct, LHG.empty]

theorem lhg_wf_iff (h : LHG O A) : h.wf = true ↔
    h.edges.length = h.adjacency.length ∧
    (∀ e ∈ h.adjacency, (∀ x ∈ e.sources, x < h.nodes.length) ∧ (∀ x ∈ e.targets, x < h.nodes.length)) ∧
    h.quotient.1.length = h.quotient.2.length ∧
    (∀ x ∈ h.quotient.1, x < h.nodes.length) ∧ (∀ x ∈ h.quotient.2, x < h.nodes.length) := by
  simp [LHG.wf, and_assoc]

theorem lhg_coproduct_wf (g h : LHG O A) (hg : g.wf = true) (hh : h.wf = true) :
    (LHG.coproduct g h).wf = true := by
  obtain ⟨g1, g2, g3, g4, g5⟩ := (lhg_wf_iff g).1 hg
  obtain ⟨h1, h2, h3, h4, h5⟩ := (lhg_wf_iff h).1 hh
  rw [lhg_wf_iff]
  simp only [LHG.coproduct, List.length_append, List.length_map, List.mem_append, List.mem_map]
  refine ⟨by omega, ?_, by omega, ?_, ?_⟩
  · rintro e (he | ⟨e', he', rfl⟩)
    · exact ⟨fun x hx => by have := (g2 e he).1 x hx; omega,
             fun x hx => by have := (g2 e he).2 x hx; omega⟩
    · simp only [List.mem_map]
      exact ⟨by rintro x ⟨y, hy, rfl⟩; have := (h2 e' he').1 y hy; omega,
             by rintro x ⟨y, hy, rfl⟩; have := (h2 e' he').2 y hy; omega⟩
  · rintro x (hx | ⟨y, hy, rfl⟩)
    · have := g4 x hx; omega
    · have := h4 y hy; omega
  · rintro x (hx | ⟨y, hy, rfl⟩)
    · have := g5 x hx; omega
    · have := h5 y hy; omega

theorem lohg_wf_iff (f : LOHG O A) : f.wf = true ↔ f.hypergraph.wf = true ∧
    (∀ x ∈ f.sources, x < f.hypergraph.nodes.length) ∧
    (∀ x ∈ f.targets, x < f.hypergraph.nodes.length) := by
  simp [LOHG.wf, and_assoc]

theorem lohg_tensor_wf (f g : LOHG O A) (hf : f.wf = true) (hg : g.wf = true) :
    (LOHG.tensor f g).wf = true := by
  obtain ⟨f1, f2, f3⟩ := (lohg_wf_iff f).1 hf
  obtain ⟨g1, g2, g3⟩ := (lohg_wf_iff g).1 hg
  rw [lohg_wf_iff]
  refine ⟨lhg_coproduct_wf _ _ f1 g1, ?_, ?_⟩
  · simp only [LOHG.tensor, LHG.coproduct, List.length_append, List.mem_append, List.mem_map]
    rintro x (hx | ⟨y, hy, rfl⟩)
    · have := f2 x hx; omega
    · have := g2 y hy; omega
  · simp only [LOHG.tensor, LHG.coproduct, List.length_append, List.mem_append, List.mem_map]
    rintro x (hx | ⟨y, hy, rfl⟩)
    · have := f3 x hx; omega
    · have := g3 y hy; omega

end OH.Tensor
