/-
  Helper lemmas for C02 (tensor is juxtaposition): algebra of `FinFun.tensor`, closed form and
  totality analysis of `IC.tensor` / `HG.coproduct` / `OHG.tensor`, preservation of deep
  well-formedness, the list-of-lists view of a tensor, plain-model reading, types, and the
  algebra of the lax `coproduct` / `tensor`.
-/
import OHVerif.Model.Lax
import OHVerif.Spec.Diagram
import OHVerif.Lemmas.Segs

namespace OH

variable {α : Type} {O A : Type}

/-! ### shifting -/

theorem map_zero_add (l : List Nat) : l.map (0 + ·) = l := by
  induction l with
  | nil => rfl
  | cons a l ih => simp

theorem map_add_zero (l : List Nat) : l.map (· + 0) = l := by
  induction l with
  | nil => rfl
  | cons a l ih => simp

theorem filterMap_congr' {β γ : Type} {f g : β → Option γ} (l : List β) (h : ∀ a ∈ l, f a = g a) :
    l.filterMap f = l.filterMap g := by
  induction l with
  | nil => rfl
  | cons a l ih =>
    have ha := h a (by simp)
    have ih' := ih (fun b hb => h b (by simp [hb]))
    simp [List.filterMap_cons, ha, ih']

/-- gathering from a concatenation through a juxtaposed index table splits -/
theorem gatherP_append_shift (xs ys : List α) (i j : List Nat) (hi : ∀ a ∈ i, a < xs.length) :
    Prim.gatherP (xs ++ ys) (i ++ j.map (xs.length + ·)) = Prim.gatherP xs i ++ Prim.gatherP ys j := by
  unfold Prim.gatherP
  rw [List.filterMap_append]
  congr 1
  · apply filterMap_congr'
    intro a ha
    exact List.getElem?_append_left (hi a ha)
  · rw [List.filterMap_map]
    apply filterMap_congr'
    intro a _
    simp [List.getElem?_append_right]

/-! ### `FinFun.tensor` -/

namespace FinFun

theorem tensor_assoc (f g h : FinFun) : tensor (tensor f g) h = tensor f (tensor g h) := by
  simp [tensor, Nat.add_assoc, Function.comp_def]

theorem tensor_initial_left (f : FinFun) : tensor ⟨[], 0⟩ f = f := by
  cases f; simp [tensor]

theorem tensor_initial_right (f : FinFun) : tensor f ⟨[], 0⟩ = f := by
  cases f; simp [tensor]

theorem tensor_WF {f g : FinFun} (hf : f.WF) (hg : g.WF) : (tensor f g).WF := by
  intro x hx
  simp only [tensor, List.mem_append, List.mem_map] at hx ⊢
  rcases hx with hx | ⟨y, hy, rfl⟩
  · have := hf x hx; omega
  · have := hg y hy; omega

end FinFun

/-! ### `IC.tensor` -/

namespace IC

/-- the data `IC.tensor` returns when it does not panic -/
def tensorD (c d : IC FinFun) : IC FinFun :=
  ⟨⟨c.sources.table ++ d.sources.table, c.sources.target + d.sources.target - 1⟩,
   FinFun.tensor c.values d.values⟩

/-- complete case analysis: `IC.tensor` never returns `none`, and panics exactly when both size
    maps have codomain `0` -/
theorem tensor_total (c d : IC FinFun) :
    tensor c d = if 1 ≤ c.sources.target + d.sources.target then .ok (tensorD c d)
      else .panic "ic.tensor:underflow" := by
  unfold tensor checkedSub tensorD
  split <;> rfl

theorem wf_iff (c : IC FinFun) : c.wf = true ↔ c.valid = true ∧ c.sources.WF ∧ c.values.WF := by
  simp [wf, FinFun.wf_iff, and_assoc]

theorem valid_target_pos {V : Type} [HasLen V] (c : IC V) (h : c.valid = true) : 1 ≤ c.sources.target := by
  have := ((valid_iff c).1 h).1; omega

theorem tensor_ok_left (c d : IC FinFun) (hc : c.valid = true) : tensor c d = .ok (tensorD c d) := by
  rw [tensor_total, if_pos]
  have := valid_target_pos c hc; omega

theorem tensor_ok_right (c d : IC FinFun) (hd : d.valid = true) : tensor c d = .ok (tensorD c d) := by
  rw [tensor_total, if_pos]
  have := valid_target_pos d hd; omega

theorem tensorD_valid (c d : IC FinFun) (hc : c.valid = true) (hd : d.valid = true) :
    (tensorD c d).valid = true := by
  have ⟨h1, h2⟩ := (valid_iff c).1 hc
  have ⟨h3, h4⟩ := (valid_iff d).1 hd
  rw [valid_iff]
  simp only [len_finfun] at h2 h4
  simp only [tensorD, FinFun.tensor, List.sum_append, len_finfun, List.length_append, List.length_map]
  omega

theorem valid_sources_WF (c : IC FinFun) (hc : c.valid = true) : c.sources.WF := by
  intro x hx
  have := ((valid_iff c).1 hc).1
  have := le_sum_of_mem' _ x hx
  omega

theorem tensorD_wf (c d : IC FinFun) (hc : c.wf = true) (hd : d.wf = true) :
    (tensorD c d).wf = true := by
  obtain ⟨c1, _, c3⟩ := (wf_iff c).1 hc
  obtain ⟨d1, _, d3⟩ := (wf_iff d).1 hd
  rw [wf_iff]
  refine ⟨tensorD_valid c d c1 d1, valid_sources_WF _ (tensorD_valid c d c1 d1), ?_⟩
  exact FinFun.tensor_WF c3 d3

/-- the segments of a tensor: those of `c`, then those of `d` shifted by `c`'s value codomain -/
theorem tensorD_segs (c d : IC FinFun) (hc : c.valid = true) :
    (tensorD c d).segs = c.segs ++ d.segs.map (·.map (c.values.target + ·)) := by
  have h2 := ((valid_iff c).1 hc).2
  simp only [len_finfun] at h2
  unfold segs tensorD FinFun.tensor
  simp only
  rw [splitSegs_append _ _ _ _ h2, splitSegs_map]

theorem tensorD_len (c d : IC FinFun) : (tensorD c d).len = c.len + d.len := by
  simp [tensorD, len, FinFun.source]

theorem tensorD_assoc (c d e : IC FinFun) (hd : 1 ≤ d.sources.target) :
    tensorD (tensorD c d) e = tensorD c (tensorD d e) := by
  simp only [tensorD, FinFun.tensor_assoc, List.append_assoc]
  congr 2
  omega

theorem tensorD_initial_left (c : IC FinFun) : tensorD (initial 0) c = c := by
  obtain ⟨⟨st, tg⟩, v⟩ := c
  simp [tensorD, initial, FinFun.initial, FinFun.tensor_initial_left]

theorem tensorD_initial_right (c : IC FinFun) : tensorD c (initial 0) = c := by
  obtain ⟨⟨st, tg⟩, v⟩ := c
  simp [tensorD, initial, FinFun.initial, FinFun.tensor_initial_right]

end IC

/-! ### `HG.coproduct` -/

namespace HG

def coproductD (g h : HG O A) : HG O A :=
  ⟨IC.tensorD g.s h.s, IC.tensorD g.t h.t, g.w ++ h.w, g.x ++ h.x⟩

/-- complete case analysis of `HG.coproduct` -/
theorem coproduct_total (g h : HG O A) :
    coproduct g h =
      if 1 ≤ g.s.sources.target + h.s.sources.target ∧ 1 ≤ g.t.sources.target + h.t.sources.target
      then .ok (coproductD g h) else .panic "ic.tensor:underflow" := by
  unfold coproduct coproductD
  rw [IC.tensor_total, IC.tensor_total]
  by_cases h1 : 1 ≤ g.s.sources.target + h.s.sources.target <;>
    by_cases h2 : 1 ≤ g.t.sources.target + h.t.sources.target <;> simp [h1, h2]

theorem wf_iff (h : HG O A) : h.wf = true ↔
    h.s.wf = true ∧ h.t.wf = true ∧ h.s.len = h.x.length ∧ h.t.len = h.x.length ∧
    h.s.values.target = h.w.length ∧ h.t.values.target = h.w.length := by
  simp [wf, and_assoc]

theorem coproductD_wf (g h : HG O A) (hg : g.wf = true) (hh : h.wf = true) :
    (coproductD g h).wf = true := by
  obtain ⟨g1, g2, g3, g4, g5, g6⟩ := (wf_iff g).1 hg
  obtain ⟨h1, h2, h3, h4, h5, h6⟩ := (wf_iff h).1 hh
  rw [wf_iff]
  refine ⟨IC.tensorD_wf _ _ g1 h1, IC.tensorD_wf _ _ g2 h2, ?_, ?_, ?_, ?_⟩
  · simp [coproductD, IC.tensorD_len, g3, h3]
  · simp [coproductD, IC.tensorD_len, g4, h4]
  · simp [coproductD, IC.tensorD, FinFun.tensor, g5, h5]
  · simp [coproductD, IC.tensorD, FinFun.tensor, g6, h6]

theorem coproduct_ok (g h : HG O A) (hg : g.wf = true) :
    coproduct g h = .ok (coproductD g h) := by
  obtain ⟨g1, g2, -⟩ := (wf_iff g).1 hg
  have a := IC.valid_target_pos _ ((IC.wf_iff _).1 g1).1
  have b := IC.valid_target_pos _ ((IC.wf_iff _).1 g2).1
  rw [coproduct_total, if_pos]
  omega

/-- the hyperedges of a coproduct: those of `g`, then those of `h` with every incident node
    shifted by `g`'s node count -/
theorem coproductD_toPlainEdges (g h : HG O A) (hg : g.wf = true) :
    (coproductD g h).toPlainEdges =
      g.toPlainEdges ++ h.toPlainEdges.map (PEdge.mapNodes (g.w.length + ·)) := by
  obtain ⟨g1, g2, g3, g4, g5, g6⟩ := (wf_iff g).1 hg
  have vs := ((IC.wf_iff _).1 g1).1
  have vt := ((IC.wf_iff _).1 g2).1
  have l1 : g.s.segs.length = g.x.length := by rw [IC.segs_length, g3]
  have l2 : g.t.segs.length = g.x.length := by rw [IC.segs_length, g4]
  unfold toPlainEdges
  simp only [coproductD]
  rw [IC.tensorD_segs _ _ vs, IC.tensorD_segs _ _ vt, g5, g6,
    List.zip_append (by rw [l1, l2]), List.zipWith_append (by simp [l1, l2])]
  congr 1
  rw [List.zip_map, List.zipWith_map_right, List.map_zipWith]
  rfl

end HG

/-! ### `OHG.tensor` -/

namespace OHG

def tensorD (f g : OHG O A) : OHG O A :=
  ⟨FinFun.tensor f.s g.s, FinFun.tensor f.t g.t, HG.coproductD f.h g.h⟩

/-- complete case analysis of `OHG.tensor`: it never returns `none`; its only panic is the
    subtraction in `IC.tensor` -/
theorem tensor_total (f g : OHG O A) :
    tensor f g =
      if 1 ≤ f.h.s.sources.target + g.h.s.sources.target ∧
         1 ≤ f.h.t.sources.target + g.h.t.sources.target
      then .ok (tensorD f g) else .panic "ic.tensor:underflow" := by
  unfold tensor tensorD
  rw [HG.coproduct_total]
  split <;> rfl

theorem wf_iff (f : OHG O A) : f.wf = true ↔
    f.h.wf = true ∧ f.s.WF ∧ f.t.WF ∧ f.s.target = f.h.w.length ∧ f.t.target = f.h.w.length := by
  simp [wf, FinFun.wf_iff, and_assoc]

/-- a well-formed diagram has strictly positive size-map codomains -/
theorem wf_pos (f : OHG O A) (hf : f.wf = true) :
    1 ≤ f.h.s.sources.target ∧ 1 ≤ f.h.t.sources.target := by
  obtain ⟨h1, -⟩ := (wf_iff f).1 hf
  obtain ⟨g1, g2, -⟩ := (HG.wf_iff _).1 h1
  exact ⟨IC.valid_target_pos _ ((IC.wf_iff _).1 g1).1, IC.valid_target_pos _ ((IC.wf_iff _).1 g2).1⟩

theorem tensor_ok_left (f g : OHG O A) (hf : f.wf = true) : tensor f g = .ok (tensorD f g) := by
  have := wf_pos f hf
  rw [tensor_total, if_pos]; omega

theorem tensor_ok_right (f g : OHG O A) (hg : g.wf = true) : tensor f g = .ok (tensorD f g) := by
  have := wf_pos g hg
  rw [tensor_total, if_pos]; omega

theorem tensorD_wf (f g : OHG O A) (hf : f.wf = true) (hg : g.wf = true) : (tensorD f g).wf = true := by
  obtain ⟨f1, f2, f3, f4, f5⟩ := (wf_iff f).1 hf
  obtain ⟨g1, g2, g3, g4, g5⟩ := (wf_iff g).1 hg
  rw [wf_iff]
  refine ⟨HG.coproductD_wf _ _ f1 g1, FinFun.tensor_WF f2 g2, FinFun.tensor_WF f3 g3, ?_, ?_⟩
  · simp [tensorD, HG.coproductD, FinFun.tensor, f4, g4]
  · simp [tensorD, HG.coproductD, FinFun.tensor, f5, g5]

theorem tensorD_toPlain (f g : OHG O A) (hf : f.wf = true) :
    (tensorD f g).toPlain = PDiag.juxt f.toPlain g.toPlain := by
  obtain ⟨f1, -, -, f4, f5⟩ := (wf_iff f).1 hf
  simp only [toPlain, PDiag.juxt, PDiag.n, tensorD, FinFun.tensor, f4, f5,
    HG.coproductD_toPlainEdges _ _ f1]
  rfl

theorem source_ok (f : OHG O A) (hf : f.wf = true) : f.source = .ok (Prim.gatherP f.h.w f.s.table) := by
  obtain ⟨-, f2, -, f4, -⟩ := (wf_iff f).1 hf
  simp [source, FinFun.composeSemi_ok _ _ f2 f4]

theorem target_ok (f : OHG O A) (hf : f.wf = true) : f.target = .ok (Prim.gatherP f.h.w f.t.table) := by
  obtain ⟨-, -, f3, -, f5⟩ := (wf_iff f).1 hf
  simp [target, FinFun.composeSemi_ok _ _ f3 f5]

theorem tensorD_source (f g : OHG O A) (hf : f.wf = true) (hg : g.wf = true) :
    (tensorD f g).source = .ok (Prim.gatherP f.h.w f.s.table ++ Prim.gatherP g.h.w g.s.table) := by
  rw [source_ok _ (tensorD_wf f g hf hg)]
  obtain ⟨-, f2, -, f4, -⟩ := (wf_iff f).1 hf
  simp only [tensorD, HG.coproductD, FinFun.tensor, f4]
  rw [gatherP_append_shift]
  intro a ha; rw [← f4]; exact f2 a ha

theorem tensorD_target (f g : OHG O A) (hf : f.wf = true) (hg : g.wf = true) :
    (tensorD f g).target = .ok (Prim.gatherP f.h.w f.t.table ++ Prim.gatherP g.h.w g.t.table) := by
  rw [target_ok _ (tensorD_wf f g hf hg)]
  obtain ⟨-, -, f3, -, f5⟩ := (wf_iff f).1 hf
  simp only [tensorD, HG.coproductD, FinFun.tensor, f5]
  rw [gatherP_append_shift]
  intro a ha; rw [← f5]; exact f3 a ha

theorem tensorD_assoc (f g h : OHG O A)
    (hg : 1 ≤ g.h.s.sources.target ∧ 1 ≤ g.h.t.sources.target) :
    tensorD (tensorD f g) h = tensorD f (tensorD g h) := by
  simp only [tensorD, HG.coproductD, FinFun.tensor_assoc, IC.tensorD_assoc _ _ _ hg.1,
    IC.tensorD_assoc _ _ _ hg.2, List.append_assoc]

theorem identity_nil : (identity [] : Res (OHG O A)) = .ok ⟨⟨[], 0⟩, ⟨[], 0⟩, HG.empty⟩ := by
  simp [identity, FinFun.identity_eq, HG.discrete, HG.empty]

theorem tensorD_empty_left (f : OHG O A) : tensorD ⟨⟨[], 0⟩, ⟨[], 0⟩, HG.empty⟩ f = f := by
  obtain ⟨s, t, ⟨hs, ht, w, x⟩⟩ := f
  simp [tensorD, HG.coproductD, HG.empty, FinFun.tensor_initial_left, IC.tensorD_initial_left]

theorem tensorD_empty_right (f : OHG O A) : tensorD f ⟨⟨[], 0⟩, ⟨[], 0⟩, HG.empty⟩ = f := by
  obtain ⟨s, t, ⟨hs, ht, w, x⟩⟩ := f
  simp [tensorD, HG.coproductD, HG.empty, FinFun.tensor_initial_right, IC.tensorD_initial_right]

end OHG

/-! ### lax -/

namespace LHG

theorem coproduct_assoc (f g h : LHG O A) :
    coproduct (coproduct f g) h = coproduct f (coproduct g h) := by
  simp [coproduct, Function.comp_def, Nat.add_assoc, Nat.add_comm g.nodes.length f.nodes.length]

theorem coproduct_empty_left (f : LHG O A) : coproduct empty f = f := by
  obtain ⟨n, e, a, q1, q2⟩ := f
  simp [coproduct, empty]

theorem coproduct_empty_right (f : LHG O A) : coproduct f empty = f := by
  obtain ⟨n, e, a, q1, q2⟩ := f
  simp [coproduct, empty]

end LHG

end OH
