/-
  The Vec backend's resolution of the open array-contract choices satisfies the contract:
  `vecBackend_lawful : vecBackend.Lawful`.
-/
import OHVerif.Spec.Lawful

namespace OH

open Relation

namespace VecB

/-! ### argsort -/

theorem argsort_perm (xs : List Nat) : (argsort xs).Perm (List.range xs.length) :=
  List.mergeSort_perm _ _

theorem argsort_sorted (xs : List Nat) :
    ((argsort xs).map (fun i => xs.getD i 0)).Pairwise (· ≤ ·) := by
  have h : (argsort xs).Pairwise
      (fun i j => (decide (xs.getD i 0 ≤ xs.getD j 0)) = true) := by
    unfold argsort
    apply List.pairwise_mergeSort
    · intro a b c hab hbc
      simp only [decide_eq_true_eq] at *
      exact Nat.le_trans hab hbc
    · intro a b
      simp only [Bool.or_eq_true, decide_eq_true_eq]
      exact Nat.le_total _ _
  rw [List.pairwise_map]
  exact h.imp (fun h => by simpa using h)

/-! ### sparseBincount -/

theorem nodup_eraseDups_aux (n : Nat) : ∀ l : List Nat, l.length ≤ n → l.eraseDups.Nodup := by
  induction n with
  | zero =>
    intro l hl
    have : l = [] := List.eq_nil_of_length_eq_zero (Nat.le_zero.mp hl)
    subst this
    simp
  | succ n ih =>
    intro l hl
    cases l with
    | nil => simp
    | cons a as =>
      rw [List.eraseDups_cons, List.nodup_cons]
      constructor
      · rw [List.mem_eraseDups, List.mem_filter]
        simp
      · apply ih
        have := List.length_filter_le (fun b => !b == a) as
        simp only [List.length_cons] at hl
        omega

theorem nodup_eraseDups (l : List Nat) : l.eraseDups.Nodup :=
  nodup_eraseDups_aux l.length l (Nat.le_refl _)

theorem sb_nodup (xs : List Nat) : (sparseBincount xs).1.Nodup := nodup_eraseDups _

theorem sb_mem (xs : List Nat) (v : Nat) : v ∈ (sparseBincount xs).1 ↔ v ∈ xs := by
  simp [sparseBincount]

theorem sb_length (xs : List Nat) :
    (sparseBincount xs).2.length = (sparseBincount xs).1.length := by
  simp [sparseBincount]

theorem sb_count (xs : List Nat) (k v : Nat) (h : (sparseBincount xs).1[k]? = some v) :
    (sparseBincount xs).2[k]? = some (xs.count v) := by
  simp only [sparseBincount] at h ⊢
  rw [List.getElem?_map, h]
  rfl

/-! ### toDense -/

theorem toDenseAux_spec : ∀ (rest seen acc : List Nat), seen.Nodup →
    ∃ seen' : List Nat, seen'.Nodup ∧ (∀ x, x ∈ seen' ↔ x ∈ seen ∨ x ∈ rest) ∧
      (∀ x ∈ seen, seen'.idxOf x = seen.idxOf x) ∧
      toDenseAux rest seen acc = (acc.reverse ++ rest.map (fun x => seen'.idxOf x), seen'.length) := by
  intro rest
  induction rest with
  | nil =>
    intro seen acc hnd
    exact ⟨seen, hnd, by simp, fun _ _ => rfl, by simp [toDenseAux]⟩
  | cons a rest ih =>
    intro seen acc hnd
    cases hk : seen.idxOf? a with
    | some k =>
      have hk' := List.idxOf?_eq_some_iff.mp hk
      obtain ⟨hlt, hget, hmin⟩ := hk'
      have hmem : a ∈ seen := hget ▸ List.getElem_mem hlt
      have hidx : seen.idxOf a = k := by
        rw [← hget]; exact hnd.idxOf_getElem k hlt
      obtain ⟨seen', hnd', hmem', hpres, heq⟩ := ih seen (k :: acc) hnd
      refine ⟨seen', hnd', ?_, hpres, ?_⟩
      · intro x
        rw [hmem' x, List.mem_cons]
        constructor
        · rintro (h | h)
          · exact Or.inl h
          · exact Or.inr (Or.inr h)
        · rintro (h | h | h)
          · exact Or.inl h
          · exact Or.inl (h ▸ hmem)
          · exact Or.inr h
      · rw [toDenseAux, hk]
        simp only
        rw [heq, List.map_cons, hpres a hmem, hidx]
        simp
    | none =>
      have hnm : a ∉ seen := List.idxOf?_eq_none_iff.mp hk
      have hnd2 : (seen ++ [a]).Nodup := by
        rw [List.nodup_append]
        refine ⟨hnd, by simp, ?_⟩
        intro x hx y hy
        simp only [List.mem_singleton] at hy
        subst hy
        intro hxy
        exact hnm (hxy ▸ hx)
      obtain ⟨seen', hnd', hmem', hpres, heq⟩ := ih (seen ++ [a]) (seen.length :: acc) hnd2
      refine ⟨seen', hnd', ?_, ?_, ?_⟩
      · intro x
        rw [hmem' x, List.mem_append, List.mem_singleton, List.mem_cons, or_assoc]
      · intro x hx
        rw [hpres x (List.mem_append_left _ hx), List.idxOf_append, if_pos hx]
      · rw [toDenseAux, hk]
        simp only
        rw [heq, List.map_cons, hpres a (by simp), List.idxOf_append, if_neg hnm]
        simp

theorem toDense_spec (sparse : List Nat) :
    ∃ seen' : List Nat, seen'.Nodup ∧ (∀ x, x ∈ seen' ↔ x ∈ sparse) ∧
      toDense sparse = (sparse.map (fun x => seen'.idxOf x), seen'.length) := by
  obtain ⟨seen', hnd, hmem, _, heq⟩ := toDenseAux_spec sparse [] [] List.nodup_nil
  refine ⟨seen', hnd, ?_, ?_⟩
  · intro x; simpa using hmem x
  · simpa [toDense] using heq

theorem idxOf_inj_of_mem {l : List Nat} {x y : Nat} (hx : x ∈ l) (hy : y ∈ l)
    (h : l.idxOf x = l.idxOf y) : x = y := by
  have hx' := List.idxOf_lt_length_iff.mpr hx
  have hy' := List.idxOf_lt_length_iff.mpr hy
  have e1 : l[l.idxOf x] = x := List.getElem_idxOf hx'
  have e2 : l[l.idxOf y] = y := List.getElem_idxOf hy'
  rw [← e1, ← e2]
  simp only [h]

theorem toDense_length (sparse : List Nat) : (toDense sparse).1.length = sparse.length := by
  obtain ⟨seen', _, _, heq⟩ := toDense_spec sparse
  rw [heq]; simp

theorem toDense_lt (sparse : List Nat) : ∀ l ∈ (toDense sparse).1, l < (toDense sparse).2 := by
  obtain ⟨seen', _, hmem, heq⟩ := toDense_spec sparse
  rw [heq]
  intro l hl
  simp only [List.mem_map] at hl
  obtain ⟨x, hx, rfl⟩ := hl
  exact List.idxOf_lt_length_iff.mpr ((hmem x).mpr hx)

theorem toDense_onto (sparse : List Nat) :
    ∀ c, c < (toDense sparse).2 → c ∈ (toDense sparse).1 := by
  obtain ⟨seen', hnd, hmem, heq⟩ := toDense_spec sparse
  rw [heq]
  intro c hc
  simp only at hc
  simp only [List.mem_map]
  exact ⟨seen'[c], (hmem _).mp (List.getElem_mem hc), hnd.idxOf_getElem c hc⟩

theorem toDense_kernel (sparse : List Nat) (i j : Nat) (hi : i < sparse.length)
    (hj : j < sparse.length) :
    ((toDense sparse).1[i]? = (toDense sparse).1[j]? ↔ sparse[i] = sparse[j]) := by
  obtain ⟨seen', hnd, hmem, heq⟩ := toDense_spec sparse
  rw [heq]
  simp only [List.getElem?_map, List.getElem?_eq_getElem hi, List.getElem?_eq_getElem hj,
    Option.map_some, Option.some.injEq]
  constructor
  · exact idxOf_inj_of_mem ((hmem _).mpr (List.getElem_mem hi)) ((hmem _).mpr (List.getElem_mem hj))
  · intro h; rw [h]

/-! ### minLabels -/

theorem eqvGen_add_pair {r : Nat → Nat → Prop} {u v : Nat} (i j : Nat) :
    EqvGen (fun a b => r a b ∨ (a = u ∧ b = v)) i j ↔
      EqvGen r i j ∨ (EqvGen r i u ∧ EqvGen r v j) ∨ (EqvGen r i v ∧ EqvGen r u j) := by
  constructor
  · intro h
    induction h with
    | rel x y hxy =>
      rcases hxy with hxy | ⟨rfl, rfl⟩
      · exact Or.inl (EqvGen.rel _ _ hxy)
      · exact Or.inr (Or.inl ⟨EqvGen.refl _, EqvGen.refl _⟩)
    | refl x => exact Or.inl (EqvGen.refl _)
    | symm x y _ ih =>
      rcases ih with h | ⟨h1, h2⟩ | ⟨h1, h2⟩
      · exact Or.inl (EqvGen.symm _ _ h)
      · exact Or.inr (Or.inr ⟨EqvGen.symm _ _ h2, EqvGen.symm _ _ h1⟩)
      · exact Or.inr (Or.inl ⟨EqvGen.symm _ _ h2, EqvGen.symm _ _ h1⟩)
    | trans x y z _ _ ih1 ih2 =>
      rcases ih1 with h | ⟨h1, h2⟩ | ⟨h1, h2⟩
      · rcases ih2 with g | ⟨g1, g2⟩ | ⟨g1, g2⟩
        · exact Or.inl (EqvGen.trans _ _ _ h g)
        · exact Or.inr (Or.inl ⟨EqvGen.trans _ _ _ h g1, g2⟩)
        · exact Or.inr (Or.inr ⟨EqvGen.trans _ _ _ h g1, g2⟩)
      · rcases ih2 with g | ⟨g1, g2⟩ | ⟨g1, g2⟩
        · exact Or.inr (Or.inl ⟨h1, EqvGen.trans _ _ _ h2 g⟩)
        · exact Or.inr (Or.inl ⟨h1, g2⟩)
        · exact Or.inl (EqvGen.trans _ _ _ h1 g2)
      · rcases ih2 with g | ⟨g1, g2⟩ | ⟨g1, g2⟩
        · exact Or.inr (Or.inr ⟨h1, EqvGen.trans _ _ _ h2 g⟩)
        · exact Or.inl (EqvGen.trans _ _ _ h1 g2)
        · exact Or.inr (Or.inr ⟨h1, g2⟩)
  · have hmono : ∀ a b, EqvGen r a b → EqvGen (fun a b => r a b ∨ (a = u ∧ b = v)) a b :=
      fun a b h => EqvGen.mono (fun _ _ h => Or.inl h) a b h
    have huv : EqvGen (fun a b => r a b ∨ (a = u ∧ b = v)) u v :=
      EqvGen.rel _ _ (Or.inr ⟨rfl, rfl⟩)
    rintro (h | ⟨h1, h2⟩ | ⟨h1, h2⟩)
    · exact hmono _ _ h
    · exact EqvGen.trans _ _ _ (hmono _ _ h1) (EqvGen.trans _ _ _ huv (hmono _ _ h2))
    · exact EqvGen.trans _ _ _ (hmono _ _ h1)
        (EqvGen.trans _ _ _ (EqvGen.symm _ _ huv) (hmono _ _ h2))

theorem relabel_fun_eq (a b x y : Nat) (_hab : a ≠ b) :
    ((if x = b then a else x) = (if y = b then a else y)) ↔
      x = y ∨ (x = a ∧ y = b) ∨ (x = b ∧ y = a) := by
  split <;> split <;> omega

theorem relabel_length (a b : Nat) (lab : List Nat) : (relabel a b lab).length = lab.length := by
  simp [relabel]

theorem relabel_getD (a b : Nat) (lab : List Nat) (i : Nat) (hi : i < lab.length) :
    (relabel a b lab).getD i 0 = if lab.getD i 0 = b then a else lab.getD i 0 := by
  simp [relabel, List.getD_eq_getElem?_getD, List.getElem?_eq_getElem hi]

theorem mergeEdge_length (lab : List Nat) (u v : Nat) :
    (mergeEdge lab u v).length = lab.length := by
  unfold mergeEdge
  simp only
  split
  · rfl
  · split <;> exact relabel_length _ _ _

theorem mergeEdge_getD_eq (lab : List Nat) (u v i j : Nat) (hi : i < lab.length)
    (hj : j < lab.length) :
    ((mergeEdge lab u v).getD i 0 = (mergeEdge lab u v).getD j 0 ↔
      lab.getD i 0 = lab.getD j 0 ∨
        (lab.getD i 0 = lab.getD u 0 ∧ lab.getD j 0 = lab.getD v 0) ∨
        (lab.getD i 0 = lab.getD v 0 ∧ lab.getD j 0 = lab.getD u 0)) := by
  unfold mergeEdge
  simp only
  split
  · rename_i hab
    rw [hab]
    constructor
    · exact Or.inl
    · rintro (h | ⟨h1, h2⟩ | ⟨h1, h2⟩)
      · exact h
      · rw [h1, h2]
      · rw [h1, h2]
  · rename_i hab
    split
    · rw [relabel_getD _ _ _ _ hi, relabel_getD _ _ _ _ hj, relabel_fun_eq _ _ _ _ hab]
    · rw [relabel_getD _ _ _ _ hi, relabel_getD _ _ _ _ hj,
        relabel_fun_eq _ _ _ _ (fun h => hab h.symm)]
      constructor
      · rintro (h | h | h)
        · exact Or.inl h
        · exact Or.inr (Or.inr h)
        · exact Or.inr (Or.inl h)
      · rintro (h | h | h)
        · exact Or.inl h
        · exact Or.inr (Or.inr h)
        · exact Or.inr (Or.inl h)

/-- the labels have length `n` and their kernel on `0..n` is the equivalence generated by `r` -/
def LabInv (n : Nat) (r : Nat → Nat → Prop) (lab : List Nat) : Prop :=
  lab.length = n ∧ ∀ i j, i < n → j < n → (lab.getD i 0 = lab.getD j 0 ↔ EqvGen r i j)

theorem LabInv.congr {n : Nat} {r r' : Nat → Nat → Prop} {lab : List Nat}
    (h : ∀ a b, r a b ↔ r' a b) (hi : LabInv n r lab) : LabInv n r' lab := by
  have : r = r' := funext fun a => funext fun b => propext (h a b)
  exact this ▸ hi

theorem LabInv.range (n : Nat) : LabInv n (fun _ _ => False) (List.range n) := by
  refine ⟨List.length_range, ?_⟩
  have key : ∀ a b : Nat, EqvGen (fun _ _ => False) a b → a = b := by
    intro a b h
    induction h with
    | rel _ _ h => exact h.elim
    | refl _ => rfl
    | symm _ _ _ ih => exact ih.symm
    | trans _ _ _ _ _ ih1 ih2 => exact ih1.trans ih2
  intro i j hi hj
  have gi : (List.range n).getD i 0 = i := by
    simp [List.getD_eq_getElem?_getD, List.getElem?_range hi]
  have gj : (List.range n).getD j 0 = j := by
    simp [List.getD_eq_getElem?_getD, List.getElem?_range hj]
  rw [gi, gj]
  constructor
  · rintro rfl; exact EqvGen.refl _
  · exact key i j

theorem LabInv.mergeEdge {n : Nat} {r : Nat → Nat → Prop} {lab : List Nat} {u v : Nat}
    (h : LabInv n r lab) (hu : u < n) (hv : v < n) :
    LabInv n (fun a b => r a b ∨ (a = u ∧ b = v)) (mergeEdge lab u v) := by
  obtain ⟨hlen, hker⟩ := h
  refine ⟨by rw [mergeEdge_length, hlen], ?_⟩
  intro i j hi hj
  rw [mergeEdge_getD_eq lab u v i j (by omega) (by omega), eqvGen_add_pair,
    hker i j hi hj, hker i u hi hu, hker i v hi hv, hker j v hj hv, hker j u hj hu]
  constructor
  · rintro (h | ⟨h1, h2⟩ | ⟨h1, h2⟩)
    · exact Or.inl h
    · exact Or.inr (Or.inl ⟨h1, EqvGen.symm _ _ h2⟩)
    · exact Or.inr (Or.inr ⟨h1, EqvGen.symm _ _ h2⟩)
  · rintro (h | ⟨h1, h2⟩ | ⟨h1, h2⟩)
    · exact Or.inl h
    · exact Or.inr (Or.inl ⟨h1, EqvGen.symm _ _ h2⟩)
    · exact Or.inr (Or.inr ⟨h1, EqvGen.symm _ _ h2⟩)

theorem LabInv.foldl_reverse (n : Nat) : ∀ es : List (Nat × Nat),
    (∀ e ∈ es, e.1 < n ∧ e.2 < n) →
    LabInv n (fun a b => (a, b) ∈ es.reverse)
      (es.reverse.foldl (fun lab e => VecB.mergeEdge lab e.1 e.2) (List.range n)) := by
  intro es
  induction es with
  | nil =>
    intro _
    exact (LabInv.range n).congr (by simp)
  | cons e es ih =>
    intro hes
    have ih' := ih (fun e' he' => hes e' (List.mem_cons_of_mem _ he'))
    have he := hes e List.mem_cons_self
    rw [List.reverse_cons, List.foldl_append]
    simp only [List.foldl_cons, List.foldl_nil]
    refine (ih'.mergeEdge he.1 he.2).congr ?_
    intro a b
    simp only [List.mem_append, List.mem_singleton, Prod.ext_iff]

theorem minLabels_inv (s t : List Nat) (n : Nat) (hs : ∀ i ∈ s, i < n) (ht : ∀ i ∈ t, i < n) :
    LabInv n (EdgeRel s t) (minLabels s t n) := by
  have h := LabInv.foldl_reverse n (s.zip t).reverse (by
    intro e he
    rw [List.mem_reverse] at he
    have := List.of_mem_zip (a := e.1) (b := e.2) he
    exact ⟨hs _ this.1, ht _ this.2⟩)
  rw [List.reverse_reverse] at h
  exact h

/-! ### cc -/

theorem cc_length (s t : List Nat) (n : Nat) (hs : ∀ i ∈ s, i < n) (ht : ∀ i ∈ t, i < n) :
    (cc s t n).1.length = n := by
  rw [cc, toDense_length]
  exact (minLabels_inv s t n hs ht).1

theorem cc_kernel (s t : List Nat) (n : Nat) (hs : ∀ i ∈ s, i < n) (ht : ∀ i ∈ t, i < n)
    (i j : Nat) (hi : i < n) (hj : j < n) :
    ((cc s t n).1[i]? = (cc s t n).1[j]? ↔ Connected s t i j) := by
  obtain ⟨hlen, hker⟩ := minLabels_inv s t n hs ht
  have hi' : i < (minLabels s t n).length := by omega
  have hj' : j < (minLabels s t n).length := by omega
  rw [cc, toDense_kernel _ i j hi' hj', Connected, ← hker i j hi hj]
  simp [List.getD_eq_getElem?_getD, List.getElem?_eq_getElem hi', List.getElem?_eq_getElem hj']

end VecB

theorem vecBackend_lawful : vecBackend.Lawful where
  argsort_perm := VecB.argsort_perm
  argsort_sorted := VecB.argsort_sorted
  cc_length := fun s t n _ hs ht => VecB.cc_length s t n hs ht
  cc_lt := fun _ _ _ _ _ _ => VecB.toDense_lt _
  cc_onto := fun _ _ _ _ _ _ => VecB.toDense_onto _
  cc_kernel := fun s t n _ hs ht => VecB.cc_kernel s t n hs ht
  sb_nodup := VecB.sb_nodup
  sb_mem := VecB.sb_mem
  sb_length := VecB.sb_length
  sb_count := VecB.sb_count
  filler_lt := fun _ h => h

end OH

#print axioms OH.vecBackend_lawful
