/-
  Line-protocol driver: dispatch over op groups and per-line verdict.  IMPORT-FREE.
-/
import OHVerif.Model.DriverOptic
import OHVerif.Model.SxTotal

namespace OH
namespace Drv

/-- backend selected by the op-name prefix (`adv1:`, `adv2:`; default the Vec backend) -/
def splitBackend (op : String) : Backend × String :=
  -- the model is always run at the Vec backend's choices; results of the adversarial backends
  -- are judged under each op's relation (contract / kernel / segment-permutation / isomorphism),
  -- which by the theorems is invariant under the choice of a lawful backend
  if op.startsWith "adv1:" || op.startsWith "adv2:" then (vecBackend, (op.drop 5).toString)
  else (vecBackend, op)

def dispatch (op : String) (args : List Sx) (impl : Sx) : Option Outcome :=
  let (B, op) := splitBackend op
  if op.startsWith "prim." then prim B op args impl
  else if op.startsWith "ff." then ff B op args impl
  else if op.startsWith "ic." then ic B op args impl
  else if op.startsWith "lax.optic." || op.startsWith "optic." || op.startsWith "var." then opticG B op args impl
  else if op == "lax.edit" || op == "lax.quot" then laxEdit B op args impl
  else if op.startsWith "lax.functor." || op.startsWith "functor." then functorG B op args impl
  else if op.startsWith "lax." then laxCat B op args impl
  else if op.startsWith "hg." then hg B op args impl
  else if op.startsWith "oh." then oh B op args impl
  else if op.startsWith "law." then law B op args impl
  else if op.startsWith "graph." then graph B op args impl
  else if op.startsWith "eval." then evalG B op args impl
  else none

/-- C05 oracle on the IMPLEMENTATION's answer: if it is a diagram, is it (deeply) well-formed, and
    does it have the same source/target type as the model's answer? -/
def wfType (model impl : Sx) : String :=
  -- the diagram inside an answer: the answer itself, or the first component of a pair
  let diagOf := fun (x : Sx) => match (dec x : Option F), (dec x : Option LF) with
    | some f, _ => some (Sum.inl f)
    | _, some f => some (Sum.inr f)
    | _, _ => match x with
      | .l [a, _] => (match (dec a : Option F), (dec a : Option LF) with
        | some f, _ => some (Sum.inl f)
        | _, some f => some (Sum.inr f)
        | _, _ => none)
      | _ => none
  let md := (unOk model).bind diagOf
  let mdiag := if md.isSome then "yes" else "no"
  -- a builder history: the answer is a trace of (output, state) steps; every state the
  -- implementation reaches must be well-formed and typed like the model's state at that step
  let traceStates := fun (x : Sx) => match x with
    | .l steps => steps.filterMap (fun st => match st with
        | .l [_, s] => (dec s : Option LF)
        | _ => none)
    | _ => []
  let isTrace := match unOk impl with
    | some (.l (.l [_, s] :: _)) => (dec s : Option LF).isSome
    | _ => false
  if isTrace then
    let is := ((unOk impl).map traceStates).getD []
    let ms := ((unOk model).map traceStates).getD []
    let wfBad := (is.zip ms).any (fun p => p.2.wf && !p.1.wf)
    let tyBad := (is.zip ms).any (fun p => p.2.wf && p.1.wf &&
      !((enc p.2.source == enc p.1.source) && (enc p.2.target == enc p.1.target)))
    s!"wf={if wfBad then "bad" else "ok"} type={if tyBad then "bad" else "ok"} mdiag=trace"
  else
  match (unOk impl).bind diagOf with
  | some (Sum.inl f) =>
    let ty := match md with
      | some (Sum.inl m) => if m.source.isOk && (enc m.source == enc f.source) && (enc m.target == enc f.target) then "ok" else "bad"
      | _ => "na"
    s!"wf={if f.wf then "ok" else "bad"} type={ty} mdiag={mdiag}"
  | some (Sum.inr f) =>
    let ty := match md with
      | some (Sum.inr m) => if (enc m.source == enc f.source) && (enc m.target == enc f.target) then "ok" else "bad"
      | _ => "na"
    s!"wf={if f.wf then "ok" else "bad"} type={ty} mdiag={mdiag}"
  | none => s!"wf=na type=na mdiag={mdiag}"

/-- are the diagram-shaped arguments of a case (deeply) well-formed? Used by the minimiser so that
    it never drifts from a well-formed failing input to an ill-formed one. -/
def inputsWf (op : String) (args : List Sx) : Bool :=
  let bare := if op.startsWith "adv1:" || op.startsWith "adv2:" then (op.drop 5).toString else op
  let strictish := bare.startsWith "oh." || bare.startsWith "law." || bare.startsWith "eval." ||
    bare.startsWith "graph." || bare.startsWith "functor." || bare.startsWith "hg."
  let laxish := bare.startsWith "lax." || bare.startsWith "var."
  args.all fun a =>
    if strictish then
      match (dec a : Option F), (dec a : Option H), (dec a : Option (IC FinFun)), (dec a : Option FinFun) with
      | some f, _, _, _ => f.wf
      | _, some h, _, _ => h.wf
      | _, _, some c, _ => c.wf
      | _, _, _, some f => f.wf
      | _, _, _, _ => true
    else if laxish then
      match (dec a : Option LF), (dec a : Option LH), (dec a : Option FinFun) with
      | some f, _, _ => f.wf
      | _, some h, _ => h.wf
      | _, _, some f => f.wf
      | _, _, _ => true
    else true

/-- one case line in, one verdict line out.  The line is read by the TOTAL tokenizer/parser of
    `Model/SxTotal.lean`, proved (Props/WireText.lean: `parseLineT_line`) to invert the documented text
    format, and diagnostics are printed by the total printer `toStrT` (`toStrT_eq`). -/
def verdictLine (line : String) : String :=
  match Sx.parseLineT line with
  | some [.n id, .s op, .l args, impl] =>
    -- the harness must have printed the CANONICAL text of the four items: then, by
    -- `WireText.parseLineT_line`/`toStrT_injective_on_bare`, the value judged below is the one and only
    -- value whose documented text is this line (the Rust printer is checked, not trusted, on every line)
    if Sx.lineT [.n id, .s op, .l args, impl] != line then s!"{id} BAD {op} non-canonical-line" else
    match dispatch op args impl with
    | some o =>
      if o.agree then s!"{id} ok {op} {o.rel}"
      else s!"{id} DIFF {op} rel={o.rel} decisive={o.decisive} class={o.klass} inwf={if inputsWf op args then "yes" else "no"} {wfType o.model impl} model={Sx.toStrT o.model} impl={Sx.toStrT impl} note={o.note}"
    | none => s!"{id} BAD {op} unknown-op-or-malformed-args"
  | _ => "0 BAD ? unparsable-line"

end Drv
end OH
