/-
  Line-protocol driver, part 1: outcome type, comparison relations, handlers for the
  groups `prim`, `ff`, `ic`.  IMPORT-FREE.
-/
import OHVerif.Model.Sx

namespace OH

/-- verdict of one line -/
structure Outcome where
  model : Sx
  agree : Bool
  rel : String
  /-- a disagreement on this line is by itself a counterexample to the property
      (input inside the documented precondition, relation = the property's notion of sameness) -/
  decisive : Bool := true
  note : String := ""
  /-- class of the failure, used to match recorded known findings (never an exact input) -/
  klass : String := "-"

namespace Drv

def okSx (x : Sx) : Sx := .l [.s "ok", x]

/-- a model panic at a `usize` underflow site: the input is outside every documented
    precondition and debug/release builds of the implementation legitimately differ there
    (panic vs wrap), so nothing is compared -/
def isUnderflow {α} (r : Res α) : Bool :=
  match r with
  | .panic s => (s.splitOn "underflow").length > 1
  | _ => false

/-- exact comparison of wire forms -/
def exact {α} [Enc α] (r : Res α) (impl : Sx) (decisive : Bool := true) : Outcome :=
  let m := enc r
  if isUnderflow r then { model := m, agree := true, rel := "outside-precondition(underflow)", note := r.site }
  else { model := m, agree := (m == impl), rel := "exact", decisive := decisive, note := r.site }

/-- strip `(ok x)` -/
def unOk : Sx → Option Sx
  | .l [.s "ok", x] => some x
  | _ => none

def isPerm (a b : List Nat) : Bool :=
  a.length == b.length && a.all (fun x => a.count x == b.count x)

def sortedBy (key : List Nat) (p : List Nat) : Bool :=
  let ks := p.map (fun i => key.getD i 0)
  (ks.zip ks.tail).all (fun ab => decide (ab.1 ≤ ab.2))

/-- the argsort contract -/
def argsortOk (xs p : List Nat) : Bool :=
  isPerm p (List.range xs.length) && sortedBy xs p

/-- brute-force connectivity labels (saturation), for the cc contract -/
def ccContract (s t : List Nat) (n : Nat) (lab : List Nat) (k : Nat) : Bool :=
  let ref := VecB.minLabels s t n
  lab.length == n &&
  lab.all (fun l => decide (l < k)) &&
  (List.range k).all (fun c => lab.contains c) &&
  (List.range n).all (fun i => (List.range n).all (fun j =>
    (lab.getD i 0 == lab.getD j 0) == (ref.getD i 0 == ref.getD j 0)))

def sparseOk (xs keys counts : List Nat) : Bool :=
  keys.length == counts.length &&
  keys.eraseDups.length == keys.length &&
  xs.all (fun x => keys.contains x) &&
  (keys.zip counts).all (fun kc => kc.2 > 0 && xs.count kc.1 == kc.2)

/-- same kernel and dense range (coequalizers, quotient maps) -/
def sameKernel (a b : List Nat) : Bool :=
  a.length == b.length &&
  (List.range a.length).all (fun i => (List.range a.length).all (fun j =>
    (a.getD i 0 == a.getD j 0) == (b.getD i 0 == b.getD j 0)))

def denseOnto (t : List Nat) (k : Nat) : Bool :=
  t.all (fun x => decide (x < k)) && (List.range k).all (fun c => t.contains c)

def decRange : Sx → Option Prim.RangeForm
  | .l [.s "full"] => some .full
  | .l [.s "from", .n a] => some (.from a)
  | .l [.s "to", .n b] => some (.to b)
  | .l [.s "fromto", .n a, .n b] => some (.fromTo a b)
  | .l [.s "toincl", .n b] => some (.toIncl b)
  | .l [.s "fromtoincl", .n a, .n b] => some (.fromToIncl a b)
  | _ => none

abbrev L := List Nat

/-- contract comparison wrapper: the model's own answer is shown for diagnostics,
    the implementation's answer is judged by `chk` -/
def contract {α} [Enc α] (model : Res α) (impl : Sx) (chk : Sx → Bool) (rel : String) : Outcome :=
  let m := enc model
  let ag := match model with
    | .ok _ => (match unOk impl with | some x => chk x | none => false)
    | _ => m == impl || isUnderflow model
  { model := m, agree := ag, rel := rel, note := model.site }

open Prim in
def prim (B : Backend) (op : String) (args : List Sx) (impl : Sx) : Option Outcome :=
  match op, args with
  | "prim.gather", [xs, idx] => do
    let xs : L ← dec xs; let idx : L ← dec idx
    pure (exact (gather xs idx) impl)
  | "prim.get", [xs, i] => do
    let xs : L ← dec xs; let i : Nat ← dec i
    pure (exact (get xs i) impl)
  | "prim.to_range", [len, r] => do
    let len : Nat ← dec len; let r ← decRange r
    pure (exact (Res.ok (toRange len r)) impl)
  | "prim.get_range", [xs, r] => do
    let xs : L ← dec xs; let r ← decRange r
    pure (exact (getRange xs r) impl)
  | "prim.set_range", [xs, r, v] => do
    let xs : L ← dec xs; let r ← decRange r; let v : L ← dec v
    pure (exact (setRange xs r v) impl)
  | "prim.concatenate", [a, b] => do
    let a : L ← dec a; let b : L ← dec b
    pure (exact (Res.ok (a ++ b)) impl)
  | "prim.fill", [x, n] => do
    let x : Nat ← dec x; let n : Nat ← dec n
    pure (exact (Res.ok (List.replicate n x)) impl)
  | "prim.scatter", [xs, idx, n] => do
    let xs : L ← dec xs; let idx : L ← dec idx; let n : Nat ← dec n
    let m := scatter B xs idx n
    -- contract: positions hit by idx carry the last value written; the others carry SOME
    -- element of xs (the filler is an open choice)
    let chk := fun (r : Sx) => match (dec r : Option L), m with
      | some y, .ok my =>
        y.length == my.length &&
        (List.range y.length).all (fun k =>
          if (idx.take xs.length).contains k then y.getD k 0 == my.getD k 0
          else xs.contains (y.getD k 0))
      | _, _ => false
    pure (contract m impl chk "contract:scatter")
  | "prim.scatter_assign", [self, ixs, vals] => do
    let self : L ← dec self; let ixs : L ← dec ixs; let vals : L ← dec vals
    pure (exact (scatterAssign self ixs vals) impl)
  | "prim.scatter_assign_constant", [self, ixs, c] => do
    let self : L ← dec self; let ixs : L ← dec ixs; let c : Nat ← dec c
    pure (exact (scatterAssignConstant self ixs c) impl)
  | "prim.scatter_sub_assign", [self, ixs, rhs] => do
    let self : L ← dec self; let ixs : L ← dec ixs; let rhs : L ← dec rhs
    pure (exact (scatterSubAssign self ixs rhs) impl)
  | "prim.arange", [a, b] => do
    let a : Nat ← dec a; let b : Nat ← dec b
    pure (exact (arange a b) impl)
  | "prim.cumulative_sum", [xs] => do
    let xs : L ← dec xs
    pure (exact (Res.ok (cumulativeSum xs)) impl)
  | "prim.sum", [xs] => do
    let xs : L ← dec xs
    pure (exact (Res.ok (Prim.sum xs)) impl)
  | "prim.repeat", [k, x] => do
    let k : L ← dec k; let x : L ← dec x
    pure (exact («repeat» k x) impl)
  | "prim.quot_rem", [xs, d] => do
    let xs : L ← dec xs; let d : Nat ← dec d
    pure (exact (quotRem xs d) impl)
  | "prim.mul_constant_add", [xs, c, ys] => do
    let xs : L ← dec xs; let c : Nat ← dec c; let ys : L ← dec ys
    pure (exact (mulConstantAdd xs c ys) impl)
  | "prim.add", [a, b] => do
    let a : L ← dec a; let b : L ← dec b
    pure (exact (add a b) impl)
  | "prim.sub", [a, b] => do
    let a : L ← dec a; let b : L ← dec b
    pure (exact (sub a b) impl)
  | "prim.bincount", [xs, n] => do
    let xs : L ← dec xs; let n : Nat ← dec n
    pure (exact (bincount xs n) impl)
  | "prim.zero", [xs] => do
    let xs : L ← dec xs
    pure (exact (Res.ok (zero xs)) impl)
  | "prim.max", [xs] => do
    let xs : L ← dec xs
    pure (exact (Res.ok (Prim.max xs)) impl)
  | "prim.segmented_sum", [k, x] => do
    let k : L ← dec k; let x : L ← dec x
    -- documented precondition (array/traits.rs): `self.sum() == x.len()`; outside it the property
    -- prescribes nothing (the code may truncate, the documentation says it panics)
    if Prim.sum k != x.length then
      pure { model := enc (segmentedSum k x), agree := true, rel := "outside-precondition(sum of sizes != length)" }
    else pure (exact (segmentedSum k x) impl)
  | "prim.segmented_arange", [k] => do
    let k : L ← dec k
    pure (exact (segmentedArange k) impl)
  | "prim.argsort", [xs] => do
    let xs : L ← dec xs
    let chk := fun (r : Sx) => match (dec r : Option L) with
      | some p => argsortOk xs p | none => false
    pure (contract (Res.ok (argsort B xs)) impl chk "contract:argsort")
  | "prim.sort_by", [xs, key] => do
    let xs : L ← dec xs; let key : L ← dec key
    -- sort_by is determined only up to the order of equal keys
    let m := sortBy B xs key
    let chk := fun (r : Sx) => match (dec r : Option L) with
      | some y =>
        -- y is xs permuted by some argsort of key: compare as multisets per key value
        y.length == xs.length &&
        (key.eraseDups).all (fun kv =>
          let want := (xs.zip key).filterMap (fun p => if p.2 == kv then some p.1 else none)
          let sortedKeys := key.mergeSort (fun a b => decide (a ≤ b))
          let got := (y.zip sortedKeys).filterMap (fun p => if p.2 == kv then some p.1 else none)
          isPerm want got)
      | none => false
    pure (contract m impl chk "contract:sort_by")
  | "prim.sparse_bincount", [xs] => do
    let xs : L ← dec xs
    let chk := fun (r : Sx) => match (dec r : Option (L × L)) with
      | some (k, c) => sparseOk xs k c | none => false
    pure (contract (Res.ok (sparseBincount B xs)) impl chk "contract:sparse_bincount")
  | "prim.connected_components", [s, t, n] => do
    let s : L ← dec s; let t : L ← dec t; let n : Nat ← dec n
    let chk := fun (r : Sx) => match (dec r : Option (L × Nat)) with
      | some (lab, k) => ccContract s t n lab k | none => false
    pure (contract (connectedComponents B s t n) impl chk "contract:cc")
  | _, _ => none

def ff (B : Backend) (op : String) (args : List Sx) (impl : Sx) : Option Outcome :=
  match op, args with
  | "ff.new", [t, k] => do
    let t : L ← dec t; let k : Nat ← dec k
    pure (exact (FinFun.new t k) impl)
  | "ff.identity", [a] => do
    let a : Nat ← dec a
    pure (exact (FinFun.identity a) impl)
  | "ff.initial", [a] => do
    let a : Nat ← dec a
    pure (exact (Res.ok (FinFun.initial a)) impl)
  | "ff.to_initial", [f] => do
    let f : FinFun ← dec f
    pure (exact (Res.ok (FinFun.toInitial f)) impl)
  | "ff.terminal", [a] => do
    let a : Nat ← dec a
    pure (exact (Res.ok (FinFun.terminal a)) impl)
  | "ff.constant", [a, x, b] => do
    let a : Nat ← dec a; let x : Nat ← dec x; let b : Nat ← dec b
    pure (exact (Res.ok (FinFun.constant a x b)) impl)
  | "ff.inject0", [f, b] => do
    let f : FinFun ← dec f; let b : Nat ← dec b
    pure (exact (Res.ok (FinFun.inject0 f b)) impl)
  | "ff.inject1", [f, a] => do
    let f : FinFun ← dec f; let a : Nat ← dec a
    pure (exact (Res.ok (FinFun.inject1 f a)) impl)
  | "ff.compose", [f, g] => do
    let f : FinFun ← dec f; let g : FinFun ← dec g
    pure (exact (FinFun.compose f g) impl)
  | "ff.compose_semifinite", [f, g] => do
    let f : FinFun ← dec f; let g : L ← dec g
    pure (exact (FinFun.composeSemi f g) impl)
  | "ff.coproduct", [f, g] => do
    let f : FinFun ← dec f; let g : FinFun ← dec g
    pure (exact (FinFun.coproduct f g) impl)
  | "ff.inj0", [a, b] => do
    let a : Nat ← dec a; let b : Nat ← dec b
    pure (exact (FinFun.inj0 a b) impl)
  | "ff.inj1", [a, b] => do
    let a : Nat ← dec a; let b : Nat ← dec b
    pure (exact (FinFun.inj1 a b) impl)
  | "ff.tensor", [f, g] => do
    let f : FinFun ← dec f; let g : FinFun ← dec g
    pure (exact (Res.ok (FinFun.tensor f g)) impl)
  | "ff.twist", [a, b] => do
    let a : Nat ← dec a; let b : Nat ← dec b
    pure (exact (FinFun.twist a b) impl)
  | "ff.transpose", [a, b] => do
    let a : Nat ← dec a; let b : Nat ← dec b
    pure (exact (FinFun.transpose a b) impl)
  | "ff.injections", [s, a] => do
    let s : FinFun ← dec s; let a : FinFun ← dec a
    pure (exact (FinFun.injections s a) impl)
  | "ff.cumulative_sum", [f] => do
    let f : FinFun ← dec f
    let o := exact (FinFun.cumulativeSum f) impl
    -- oracle on the IMPLEMENTATION's answer: a finite function must map into its codomain
    -- (C06: "cumulative sum … has its set-theoretic meaning")
    match (unOk impl).bind (dec (α := FinFun)) with
    | some r =>
      if o.agree && !r.wf then
        let trailingZero := f.wf && f.table.getLast? == some 0 && r.table.all (· ≤ r.target)
        pure { o with
               agree := false
               rel := "oracle:result-is-a-function-into-its-codomain"
               klass := (if trailingZero then "cumsum-codomain-excludes-total(trailing-zero)" else "cumsum-ill-formed")
               note := "cumulative_sum returned a table entry equal to its codomain size" }
      else pure o
    | none => pure o
  | "ff.is_injective", [f] => do
    let f : FinFun ← dec f
    pure (exact (FinFun.isInjective f) impl)
  | "ff.coequalizer", [f, g] => do
    let f : FinFun ← dec f; let g : FinFun ← dec g
    let m := FinFun.coequalizer B f g
    let chk := fun (r : Sx) => match (dec r : Option FinFun), m with
      | some q, .ok mq => sameKernel q.table mq.table && q.target == mq.target && denseOnto q.table q.target
      | _, _ => false
    pure (contract m impl chk "kernel")
  | "ff.coequalizer_universal", [q, f] => do
    let q : FinFun ← dec q; let f : FinFun ← dec f
    -- determined exactly when q is surjective (no filler survives); otherwise the filler is open
    let m := FinFun.coequalizerUniversal B q f
    let surj := denseOnto q.table q.target
    if surj then pure (exact m impl)
    else
      let chk := fun (r : Sx) => match (dec r : Option FinFun), m with
        | some u, .ok mu =>
          u.target == mu.target && u.table.length == mu.table.length &&
          (List.range u.table.length).all (fun k =>
            if q.table.contains k then u.table.getD k 0 == mu.table.getD k 0
            else f.table.contains (u.table.getD k 0))
        | _, _ => false
      pure { contract m impl chk "contract:universal" with decisive := false }
  | "ff.coequalizer_universal_arr", [q, f] => do
    let q : FinFun ← dec q; let f : L ← dec f
    let m := FinFun.coequalizerUniversalArr B q f
    let surj := denseOnto q.table q.target
    if surj then pure (exact m impl)
    else
      let chk := fun (r : Sx) => match (dec r : Option L), m with
        | some u, .ok mu =>
          u.length == mu.length &&
          (List.range u.length).all (fun k =>
            if q.table.contains k then u.getD k 0 == mu.getD k 0 else f.contains (u.getD k 0))
        | _, _ => false
      pure { contract m impl chk "contract:universal" with decisive := false }
  | "ff.semifinite_arrow_compose", [ka, a, kb, b] => do
    -- kinds: 0 identity, 1 finite, 2 semifinite
    let ka : Nat ← dec ka; let kb : Nat ← dec kb
    let mk := fun (k : Nat) (x : Sx) => match k with
      | 0 => some (SemiArrow.identity : SemiArrow Nat)
      | 1 => (dec x : Option FinFun).map SemiArrow.finite
      | _ => (dec x : Option L).map SemiArrow.semifinite
    let fa ← mk ka a; let fb ← mk kb b
    let r := SemiArrow.compose fa fb
    let e : Res Sx := match r with
      | .ok (.finite h) => .ok (.l [.n 1, enc h])
      | .ok (.semifinite h) => .ok (.l [.n 2, enc h])
      | .ok .identity => .ok (.l [.n 0, .l []])
      | .none => .none
      | .panic s => .panic s
    let m : Sx := match e with | .ok x => okSx x | .none => .s "none" | .panic _ => .s "panic"
    pure { model := m, agree := m == impl, rel := "exact" }
  | _, _ => none

instance : Enc Sx := ⟨id⟩

def encTrace (tr : List (L × Nat)) : Sx := .l (tr.map fun p => .l [enc p.1, enc p.2])

/-- C08 speaks about segmented arrays satisfying the size invariant and about typed maps; for the
    operations (not the checked constructors) nothing is compared outside that precondition -/
def icPre (op : String) (args : List Sx) : Bool :=
  let icOk := fun (x : Sx) => match (dec x : Option (IC FinFun)), (dec x : Option (IC L)) with
    | some c, _ => c.valid && c.sources.wf && c.values.wf
    | _, some c => c.valid && c.sources.wf
    | _, _ => true
  let allOk := args.all icOk
  let typed := match op, args with
    | "ic.map_indexes_ff", [c, x] | "ic.indexed_values_ff", [c, x] =>
      (match (dec c : Option (IC FinFun)), (dec x : Option FinFun) with
       | some c, some x => x.wf && x.target == c.len | _, _ => true)
    | "ic.map_indexes_sf", [c, x] | "ic.indexed_values_sf", [c, x] =>
      (match (dec c : Option (IC L)), (dec x : Option FinFun) with
       | some c, some x => x.wf && x.target == c.len | _, _ => true)
    | "ic.map_values", [c, x] =>
      (match (dec c : Option (IC FinFun)), (dec x : Option FinFun) with
       | some c, some x => x.wf && c.values.target == x.source | _, _ => true)
    | "ic.map_semifinite", [c, x] =>
      (match (dec c : Option (IC FinFun)), (dec x : Option L) with
       | some c, some x => c.values.target == x.length | _, _ => true)
    | "ic.flatmap", [c, d] =>
      (match (dec c : Option (IC FinFun)), (dec d : Option (IC FinFun)) with
       | some c, some d => c.values.target == d.len | _, _ => true)
    | "ic.flatmap_sources", [c, d] =>
      (match (dec c : Option (IC FinFun)), (dec d : Option (IC L)) with
       | some c, some d => c.values.table.length == d.len | _, _ => true)
    | "ic.flatmap_sources_sf", [c, d] =>
      (match (dec c : Option (IC L)), (dec d : Option (IC L)) with
       | some c, some d => c.values.length == d.len | _, _ => true)
    | _, _ => true
  let constructor := op.startsWith "ic.new" || op.startsWith "ic.from_semifinite" || op == "ic.ops_new"
  constructor || (allOk && typed)

def icOps (_B : Backend) (op : String) (args : List Sx) (impl : Sx) : Option Outcome :=
  match op, args with
  | "ic.new_ff", [s, v] => do
    let s : FinFun ← dec s; let v : FinFun ← dec v
    pure (exact (IC.new s v) impl)
  | "ic.new_sf", [s, v] => do
    let s : FinFun ← dec s; let v : L ← dec v
    pure (exact (IC.new s v) impl)
  | "ic.from_semifinite_ff", [s, v] => do
    let s : L ← dec s; let v : FinFun ← dec v
    pure (exact (IC.fromSemifinite s v) impl)
  | "ic.from_semifinite_sf", [s, v] => do
    let s : L ← dec s; let v : L ← dec v
    pure (exact (IC.fromSemifinite s v) impl)
  | "ic.singleton_ff", [v] => do
    let v : FinFun ← dec v
    pure (exact (Res.ok (IC.singleton v)) impl)
  | "ic.singleton_sf", [v] => do
    let v : L ← dec v
    pure (exact (Res.ok (IC.singleton v)) impl)
  | "ic.elements_ff", [v] => do
    let v : FinFun ← dec v
    pure (exact (IC.elements v) impl)
  | "ic.elements_sf", [v] => do
    let v : L ← dec v
    pure (exact (IC.elements v) impl)
  | "ic.initial", [t] => do
    let t : Nat ← dec t
    pure (exact (Res.ok (IC.initial t)) impl)
  | "ic.len", [c] => do
    let c : IC FinFun ← dec c
    pure (exact (Res.ok c.len) impl)
  | "ic.flatmap_sources", [c, d] => do
    let c : IC FinFun ← dec c; let d : IC L ← dec d
    pure (exact (IC.flatmapSources c d) impl)
  | "ic.flatmap_sources_sf", [c, d] => do
    let c : IC L ← dec c; let d : IC L ← dec d
    pure (exact (IC.flatmapSources c d) impl)
  | "ic.tensor", [c, d] => do
    let c : IC FinFun ← dec c; let d : IC FinFun ← dec d
    pure (exact (IC.tensor c d) impl)
  | "ic.map_values", [c, x] => do
    let c : IC FinFun ← dec c; let x : FinFun ← dec x
    pure (exact (IC.mapValues c x) impl)
  | "ic.map_semifinite", [c, x] => do
    let c : IC FinFun ← dec c; let x : L ← dec x
    pure (exact (IC.mapSemifinite c x) impl)
  | "ic.flatmap", [c, d] => do
    let c : IC FinFun ← dec c; let d : IC FinFun ← dec d
    pure (exact (IC.flatmap c d) impl)
  | "ic.coproduct_ff", [c, d] => do
    let c : IC FinFun ← dec c; let d : IC FinFun ← dec d
    pure (exact (IC.coproduct c d) impl)
  | "ic.coproduct_sf", [c, d] => do
    let c : IC L ← dec c; let d : IC L ← dec d
    pure (exact (IC.coproduct c d) impl)
  | "ic.indexed_values_ff", [c, x] => do
    let c : IC FinFun ← dec c; let x : FinFun ← dec x
    pure (exact (IC.indexedValues c x) impl)
  | "ic.indexed_values_sf", [c, x] => do
    let c : IC L ← dec c; let x : FinFun ← dec x
    pure (exact (IC.indexedValues c x) impl)
  | "ic.map_indexes_ff", [c, x] => do
    let c : IC FinFun ← dec c; let x : FinFun ← dec x
    pure (exact (IC.mapIndexes c x) impl)
  | "ic.map_indexes_sf", [c, x] => do
    let c : IC L ← dec c; let x : FinFun ← dec x
    pure (exact (IC.mapIndexes c x) impl)
  | "ic.iter_trace_ff", [c] => do
    -- items are FinFuns sharing the value map's codomain; the wire carries tables
    let c : IC FinFun ← dec c
    let tr := IC.iterTrace (c.len + 1) (IC.intoIter c.sources.table c.values.table)
    pure (exact (tr.bind fun t => .ok (encTrace t)) impl)
  | "ic.iter_trace_sf", [c] => do
    let c : IC L ← dec c
    let tr := IC.iterTrace (c.len + 1) (IC.intoIter c.sources.table c.values)
    pure (exact (tr.bind fun t => .ok (encTrace t)) impl)
  | "ic.slice_iter", [c] => do
    let c : IC L ← dec c
    pure (exact (IC.sliceIter c) impl)
  | "ic.ops_new", [x, a, b] => do
    let x : L ← dec x; let a : IC L ← dec a; let b : IC L ← dec b
    let r := Operations.new (O := Nat) x a b
    pure (exact (r.bind fun o => .ok (Sx.l [enc o.x, enc o.a, enc o.b])) impl)
  | "ic.ops_singleton", [x, a, b] => do
    let x : Nat ← dec x; let a : L ← dec a; let b : L ← dec b
    let o := Operations.singleton (O := Nat) x a b
    pure (exact (Res.ok (Sx.l [enc o.x, enc o.a, enc o.b])) impl)
  | "ic.ops_iter", [x, a, b] => do
    let x : L ← dec x; let a : IC L ← dec a; let b : IC L ← dec b
    let r := Operations.iter (O := Nat) ⟨x, a, b⟩
    pure (exact (r.bind fun l => .ok (Sx.l (l.map fun t => Sx.l [enc t.1, enc t.2.1, enc t.2.2]))) impl)
  | _, _ => none

def ic (B : Backend) (op : String) (args : List Sx) (impl : Sx) : Option Outcome :=
  (icOps B op args impl).map fun o =>
    if o.agree || icPre op args then o
    else { o with agree := true, rel := "outside-precondition(invalid-or-ill-typed-segmented-array)" }

end Drv
end OH
