/-
  Line-protocol driver, part 3: lax groups (`lax.edit`, `lax.cat`, `lax.functor`, `lax.optic`,
  `lax.var`) and the strict functor/optic groups.  IMPORT-FREE.
-/
import OHVerif.Model.Json
import OHVerif.Model.DriverStrict
import OHVerif.Model.Functor

namespace OH

instance : Enc LEdge := ⟨fun e => .l [enc e.sources, enc e.targets]⟩
instance : Dec LEdge :=
  ⟨fun | .l [s, t] => do let s ← dec s; let t ← dec t; pure ⟨s, t⟩ | _ => none⟩
instance : Enc (LHG Nat Nat) := ⟨fun h => .l [enc h.nodes, enc h.edges, enc h.adjacency, enc h.quotient]⟩
instance : Dec (LHG Nat Nat) :=
  ⟨fun | .l [n, e, a, q] => do
          let n ← dec n; let e ← dec e; let a ← dec a; let q ← dec q; pure ⟨n, e, a, q⟩
       | _ => none⟩
instance : Enc (LOHG Nat Nat) := ⟨fun f => .l [enc f.sources, enc f.targets, enc f.hypergraph]⟩
instance : Dec (LOHG Nat Nat) :=
  ⟨fun | .l [s, t, h] => do let s ← dec s; let t ← dec t; let h ← dec h; pure ⟨s, t, h⟩
       | _ => none⟩

namespace Drv

abbrev LH := LHG Nat Nat
abbrev LF := LOHG Nat Nat

/-- lax diagrams equal up to a renumbering of the nodes (edges keep their order): the renumbering
    is DETERMINED by walking the node references of both sides in parallel; unreferenced nodes must
    agree as multisets of labels.  Used where the library's node numbering comes out of the
    connected-components primitive, whose numbering the array contract leaves open. -/
def laxIso (m f : LF) : Bool :=
  let refs := fun (g : LF) => g.sources ++ g.targets ++
    g.hypergraph.adjacency.flatMap (fun e => e.sources ++ e.targets) ++ g.hypergraph.quotient.1 ++ g.hypergraph.quotient.2
  let shape := fun (g : LF) => (g.sources.length, g.targets.length,
    g.hypergraph.adjacency.map (fun e => (e.sources.length, e.targets.length)),
    g.hypergraph.quotient.1.length, g.hypergraph.quotient.2.length)
  m.hypergraph.nodes.length == f.hypergraph.nodes.length && m.hypergraph.edges == f.hypergraph.edges &&
  shape m == shape f &&
  let pairs := (refs m).zip (refs f)
  let functional := pairs.all (fun p => pairs.all (fun q => (p.1 == q.1) == (p.2 == q.2)))
  let labelsOk := pairs.all (fun p => m.hypergraph.nodes[p.1]? == f.hypergraph.nodes[p.2]? && (m.hypergraph.nodes[p.1]?).isSome)
  let restM := (List.range m.hypergraph.nodes.length).filter (fun i => !(pairs.map (·.1)).contains i)
  let restF := (List.range f.hypergraph.nodes.length).filter (fun i => !(pairs.map (·.2)).contains i)
  let lm := restM.filterMap (m.hypergraph.nodes[·]?)
  let lf := restF.filterMap (f.hypergraph.nodes[·]?)
  functional && labelsOk && lm.length == lf.length && lm.all (fun x => lm.count x == lf.count x)

/-- lax-diagram-valued result: exact first, else equal up to the determined node renumbering -/
def laxIsoRel (m : Res LF) (impl : Sx) : Outcome :=
  let ms := enc m
  if isUnderflow m then { model := ms, agree := true, rel := "outside-precondition(underflow)" }
  else if ms == impl then { model := ms, agree := true, rel := "exact" }
  else match m, (unOk impl).bind (dec (α := LF)) with
    | .ok a, some b => { model := ms, agree := laxIso a b, rel := "lax-iso(node renumbering)" }
    | _, _ => { model := ms, agree := false, rel := "lax-iso(node renumbering)", note := m.site }

/-- the pending unifications as a multiset of UNORDERED pairs (the order of the pairs and of the two
    ends of a pair cannot influence the quotient) -/
def pairsNorm (f : LF) : List (Nat × Nat) :=
  (f.hypergraph.quotient.1.zip f.hypergraph.quotient.2).map (fun p => (min p.1 p.2, max p.1 p.2))

/-- the pending unifications as a SET of unordered non-trivial pairs: repetitions and self pairs
    `(i, i)` cannot influence the generated equivalence -/
def pairsSet (f : LF) : List (Nat × Nat) :=
  ((pairsNorm f).filter (fun p => p.1 != p.2)).eraseDups

def samePairsSet (a b : LF) : Bool :=
  let pa := pairsSet a; let pb := pairsSet b
  a.hypergraph.quotient.1.length == a.hypergraph.quotient.2.length &&
  b.hypergraph.quotient.1.length == b.hypergraph.quotient.2.length &&
  pa.all (fun x => pb.contains x) && pb.all (fun x => pa.contains x)

def samePairsMultiset (a b : LF) : Bool :=
  let pa := pairsNorm a; let pb := pairsNorm b
  a.hypergraph.quotient.1.length == a.hypergraph.quotient.2.length &&
  b.hypergraph.quotient.1.length == b.hypergraph.quotient.2.length &&
  pa.length == pb.length && pa.all (fun x => pa.count x == pb.count x)

/-- same nodes, hyperedges, incidence and interfaces, literally; the pending unifications equal as a
    multiset of unordered pairs (their order in the two parallel lists is bookkeeping no property fixes) -/
def sameUpToPairOrder (a b : LF) : Bool :=
  a.sources == b.sources && a.targets == b.targets && a.hypergraph.nodes == b.hypergraph.nodes &&
  a.hypergraph.edges == b.hypergraph.edges && a.hypergraph.adjacency == b.hypergraph.adjacency &&
  samePairsMultiset a b

/-- lax tensor and its in-place variants (C02: literally f then g): exact, else exact in everything but
    the order of the pending unifications -/
def laxLiteralRel (m : Res LF) (impl : Sx) : Outcome :=
  let o := exact m impl
  if o.agree then o else
  match m, (unOk impl).bind (dec (α := LF)) with
  | .ok a, some b => { o with agree := sameUpToPairOrder a b, rel := "literal-up-to-order-of-pending-unifications" }
  | _, _ => o

/-- lax-diagram-valued result of an operation whose property speaks about the STRICT diagram the
    result denotes (C10 composition, C12/C13 functor images, C14 optic images, C19 forgetting) and
    leaves the lax data themselves open.  Tiers: exact; equal up to a node renumbering (`laxIso`); same
    nodes, hyperedges and interfaces with the pending unifications equal as a multiset of unordered
    pairs; both strictify (the quotient succeeds on both) to isomorphic strict diagrams, the
    isomorphism being certified (`IsoCert.certOk`). -/
def laxDenoteRel (B : Backend) (m : Res LF) (impl : Sx) : Outcome :=
  let o := laxIsoRel m impl
  if o.agree then o else
  match m, (unOk impl).bind (dec (α := LF)) with
  | .ok a, some b =>
    if a.sources == b.sources && a.targets == b.targets && a.hypergraph.nodes == b.hypergraph.nodes &&
       a.hypergraph.edges == b.hypergraph.edges && a.hypergraph.adjacency == b.hypergraph.adjacency &&
       samePairsSet a b && b.wf then
      -- (`b.wf`: an out-of-range SELF pair of `b` is invisible to the set comparison;
      --  Props/LaxDenoteSet.lean: `wfb_needed`)
      { o with agree := true, rel := "same-pending-unifications(as a set of unordered non-trivial pairs)" }
    else if !b.wf then { o with note := "implementation result is not well-formed" }
    else match LOHG.toStrict B a, LOHG.toStrict B b with
      | .ok sa, .ok sb =>
        if !sb.wf then { o with rel := "strict-iso", note := "strictified implementation result is not well-formed" }
        else match IsoCert.check sa.toPlain sb.toPlain with
          | .iso π ρ => { o with agree := IsoCert.certOk sa.toPlain sb.toPlain π ρ, rel := "strict-iso(after quotient)" }
          | .notIso => { o with rel := "strict-iso(after quotient)" }
          | .inconclusive => { o with rel := "strict-iso(after quotient)", decisive := false, note := "iso search inconclusive" }
      | _, _ => o
  | _, _ => o

/-- one builder step on a lax open hypergraph: new state and the call's output -/
def editStep (B : Backend) (f : LF) (op : Sx) : Option (Res (LF × Sx)) :=
  let h := f.hypergraph
  let withH := fun (h' : LH) => ({ f with hypergraph := h' } : LF)
  match op with
  | .l [.s "new_node", .n w] =>
    let (h', i) := h.newNode w
    some (.ok (withH h', .n i))
  | .l [.s "new_edge", .n x, s, t] => do
    let s : L ← dec s; let t : L ← dec t
    let (h', i) := h.newEdge x ⟨s, t⟩
    pure (.ok (withH h', .n i))
  | .l [.s "new_operation", .n x, st, tt] => do
    let st : L ← dec st; let tt : L ← dec tt
    let (h', e, (s, t)) := h.newOperation x st tt
    pure (.ok (withH h', .l [.n e, enc s, enc t]))
  | .l [.s "add_edge_source", .n e, .n w] =>
    some ((h.addEdgeSource e w).bind fun r => .ok (withH r.1, .n r.2))
  | .l [.s "add_edge_target", .n e, .n w] =>
    some ((h.addEdgeTarget e w).bind fun r => .ok (withH r.1, .n r.2))
  | .l [.s "unify", .n v, .n w] => some (.ok (withH (h.unify v w), .l []))
  | .l [.s "delete_nodes", ids] => do
    let ids : L ← dec ids
    pure ((LOHG.deleteNodes f ids).bind fun f' => .ok (f', .l []))
  | .l [.s "h_delete_nodes_witness", ids] => do
    let ids : L ← dec ids
    pure ((h.deleteNodesWitness ids).bind fun r => .ok (withH r.1, enc r.2))
  | .l [.s "delete_edges", ids] => do
    let ids : L ← dec ids
    pure ((h.deleteEdges ids).bind fun h' => .ok (withH h', .l []))
  | .l [.s "map_nodes", .n k] => some (.ok (withH (h.mapNodes (· + k)), .l []))
  | .l [.s "map_edges", .n k] => some (.ok (withH (h.mapEdges (· + k)), .l []))
  | .l [.s "with_nodes", .n mode] =>
    -- mode 0: reverse the label list (length kept); mode 1: drop the last label (length changed)
    let g := fun (ns : L) => if mode == 0 then ns.reverse else ns.dropLast
    some (match h.withNodes g with
      | .ok h' => .ok (withH h', .s "some")
      | .none => .ok (f, .s "nil")
      | .panic s => .panic s)
  | .l [.s "with_edges", .n mode] =>
    let g := fun (es : L) => if mode == 0 then es.reverse else es.dropLast
    some (match h.withEdges g with
      | .ok h' => .ok (withH h', .s "some")
      | .none => .ok (f, .s "nil")
      | .panic s => .panic s)
  | .l [.s "set_sources", ids] => do
    let ids : L ← dec ids
    pure (.ok ({ f with sources := ids }, .l []))
  | .l [.s "set_targets", ids] => do
    let ids : L ← dec ids
    pure (.ok ({ f with targets := ids }, .l []))
  | .l [.s "is_strict"] => some (.ok (f, enc h.isStrict))
  | .l [.s "quotient"] =>
    some ((LOHG.quotient B f).bind fun r =>
      .ok (r.2.2, .l [.s (if r.1 then "Ok" else "Err"), enc r.2.1]))
  | .l [.s "h_quotient"] =>
    some ((LHG.quotientH B h).bind fun r =>
      .ok (withH r.2.2, .l [.s (if r.1 then "Ok" else "Err"), enc r.2.1]))
  | .l [.s "coequalizer"] =>
    some ((LHG.coequalizer B h).bind fun q => .ok (f, enc q))
  | _ => none

/-- run a history; the trace lists `(output state)` after every step and stops at a panic -/
def runHistory (B : Backend) : LF → List Sx → List Sx → Option (List Sx)
  | _, [], acc => some acc.reverse
  | f, op :: ops, acc =>
    match editStep B f op with
    | Option.none => Option.none
    | some (.ok (f', out)) => runHistory B f' ops (Sx.l [out, enc f'] :: acc)
    | some _ => some ((Sx.s "panic" :: acc).reverse)

/-! #### histories compared up to the node renumbering the quotient steps introduce

The lax module numbers the nodes of a quotient by the connected-components primitive, whose
numbering the array contract leaves open.  `ren` maps the model's node ids to the implementation's;
it is re-determined at every quotient step from the two returned maps (no search). -/

def mapIdsSx (g : Nat → Nat) : Sx → Sx
  | .n v => .n (g v)
  | .l xs => .l (xs.map (mapIdsSx g))
  | x => x

/-- the model's state pushed through `ren` -/
def renState (ren : L) (f : LF) : LF :=
  let g := fun i => ren.getD i i
  let n := f.hypergraph.nodes.length
  let inv := (List.range n).map (fun j => (ren.idxOf? j).getD j)
  { sources := f.sources.map g, targets := f.targets.map g,
    hypergraph :=
      { nodes := inv.filterMap (f.hypergraph.nodes[·]?), edges := f.hypergraph.edges,
        adjacency := f.hypergraph.adjacency.map (fun e => ⟨e.sources.map g, e.targets.map g⟩),
        quotient := (f.hypergraph.quotient.1.map g, f.hypergraph.quotient.2.map g) } }

def isPermOfRange (ren : L) : Bool := isPerm ren (List.range ren.length)

/-- translate the node-id arguments of a step from the implementation's numbering to the model's -/
def unrenOp (ren : L) (op : Sx) : Sx :=
  let back := fun j => (ren.idxOf? j).getD j
  match op with
  | .l [.s "new_edge", x, s, t] => .l [.s "new_edge", x, mapIdsSx back s, mapIdsSx back t]
  | .l [.s "unify", .n v, .n w] => .l [.s "unify", .n (back v), .n (back w)]
  | .l [.s "delete_nodes", ids] => .l [.s "delete_nodes", mapIdsSx back ids]
  | .l [.s "h_delete_nodes_witness", ids] => .l [.s "h_delete_nodes_witness", mapIdsSx back ids]
  | .l [.s "set_sources", ids] => .l [.s "set_sources", mapIdsSx back ids]
  | .l [.s "set_targets", ids] => .l [.s "set_targets", mapIdsSx back ids]
  | other => other

/-- run the model along the implementation's trace, tracking `ren`; `none` = malformed,
    `some (agree, note)` otherwise -/
def runHistoryRen (B : Backend) (pairsAsSet : Bool := false) : LF → L → List Sx → List Sx → Option (Bool × String)
  | _, _, [], [] => some (true, "")
  | _, _, [], _ => some (false, "implementation trace is longer than the history")
  | f, ren, op :: ops, implStep :: implRest =>
    -- the hypergraph-level quotient leaves the interfaces of the surrounding open hypergraph pointing
    -- at the OLD numbering: from there on they are stale on both sides and nothing is compared
    if (match op with | .l [.s "h_quotient"] => !(f.sources.isEmpty && f.targets.isEmpty) | _ => false) then
      some (true, "h_quotient on a diagram with interface entries: not compared further")
    -- a state that records out-of-range node ids (an earlier `unify`/`new_edge`/`set_*` with an id that
    -- does not exist) is outside what C09 and C11 quantify over: nothing is compared from there on
    else if !f.wf then
      some (true, "the state refers to nodes that do not exist: not compared further")
    else
    match editStep B f (unrenOp ren op), implStep with
    | Option.none, _ => Option.none
    | some (.ok (f', out)), .l [iout, istate] =>
      match (dec istate : Option LF) with
      | Option.none => some (false, "undecodable implementation state")
      | some fi =>
        -- new renumbering: quotient steps re-determine it from the two returned maps; deletions keep
        -- the relative order of the survivors on both sides; every other step extends it by identity
        let n' := f'.hypergraph.nodes.length
        let ren' : L :=
          match op, out, iout with
          | .l [.s "quotient"], .l [.s "Ok", qm], .l [.s "Ok", qi]
          | .l [.s "h_quotient"], .l [.s "Ok", qm], .l [.s "Ok", qi] =>
            (match (dec qm : Option FinFun), (dec qi : Option FinFun) with
             | some qm, some qi =>
               (List.range n').map (fun k =>
                 match qm.table.idxOf? k with
                 | some i => qi.table.getD (ren.getD i i) k
                 | Option.none => k)
             | _, _ => List.range n')
          | .l [.s "delete_nodes", _], _, _ | .l [.s "h_delete_nodes_witness", _], _, _ =>
            -- survivors keep their relative order in both numberings
            let keptM := (List.range f.hypergraph.nodes.length).filter (fun i =>
              match unrenOp ren op with
              | .l [_, ids] => (match (dec ids : Option L) with | some d => !d.contains i | Option.none => true)
              | _ => true)
            let keptI := (keptM.map (fun i => ren.getD i i)).mergeSort (fun a b => decide (a ≤ b))
            keptM.map (fun i => (keptI.idxOf? (ren.getD i i)).getD 0)
          | _, _, _ => ren ++ (List.range' ren.length (n' - ren.length))
        let okShape := ren'.length == n' && isPermOfRange ren'
        -- (C09's histories: the pending unifications matter only as a set of unordered pairs)
        let rs := renState ren' f'
        let stateOk := okShape && (enc rs == enc fi ||
          (pairsAsSet && rs.sources == fi.sources && rs.targets == fi.targets &&
           rs.hypergraph.nodes == fi.hypergraph.nodes && rs.hypergraph.edges == fi.hypergraph.edges &&
           rs.hypergraph.adjacency == fi.hypergraph.adjacency && samePairsSet rs fi && (fi.wf || !rs.wf)))
        -- outputs: node ids are pushed through the new renumbering, maps are compared by kernel
        let g := fun i => ren'.getD i i
        let outOk : Bool :=
          match op, out, iout with
          | .l [.s "quotient"], .l [.s a, qm], .l [.s b, qi] | .l [.s "h_quotient"], .l [.s a, qm], .l [.s b, qi] =>
            -- a failed quotient: C09 specifies THAT it fails (and that the diagram is left as it was:
            -- the state comparison), not the map handed back with the failure
            a == b && (a == "Err" || match (dec qm : Option FinFun), (dec qi : Option FinFun) with
              | some qm, some qi => qm.target == qi.target && qm.table.length == qi.table.length &&
                  denseOnto qi.table qi.target &&
                  sameKernel qm.table ((List.range qm.table.length).map (fun i => qi.table.getD (ren.getD i i) 0))
              | _, _ => false)
          | .l [.s "coequalizer"], qm, qi =>
            (match (dec qm : Option FinFun), (dec qi : Option FinFun) with
              | some qm, some qi => qm.target == qi.target && qm.table.length == qi.table.length &&
                  denseOnto qi.table qi.target &&
                  sameKernel qm.table ((List.range qm.table.length).map (fun i => qi.table.getD (ren.getD i i) 0))
              | _, _ => false)
          | .l [.s "h_delete_nodes_witness", _], wm, wi =>
            (match (dec wm : Option (List (Option Nat))), (dec wi : Option (List (Option Nat))) with
              | some wm, some wi => wm.length == wi.length &&
                  (List.range wm.length).all (fun i => (wm.getD i none).map g == wi.getD (ren.getD i i) none)
              | _, _ => false)
          | .l [.s "new_node", _], o, io | .l [.s "add_edge_source", _, _], o, io
          | .l [.s "add_edge_target", _, _], o, io | .l [.s "new_operation", _, _, _], o, io =>
            -- fresh ids: (edge id, node ids…) — node ids through g, the edge id unchanged
            (match op with
             | .l [.s "new_operation", _, _, _] =>
               (match o, io with
                | .l [e, a, b], .l [e', a', b'] => e == e' && mapIdsSx g a == a' && mapIdsSx g b == b'
                | _, _ => false)
             | _ => mapIdsSx g o == io)
          | .l [.s "is_strict"], o, io =>
            -- with only self pairs pending, whether the diagram counts as strict is bookkeeping
            -- (C09's histories only; C11 compares exactly)
            o == io || (pairsAsSet && !(pairsNorm f).isEmpty && (pairsSet f).isEmpty)
          | _, o, io => o == io
        if stateOk && outOk then runHistoryRen B pairsAsSet f' ren' ops implRest
        else some (false, s!"history diverges at step {ops.length} from the end: stateOk={stateOk} outOk={outOk}")
    | some (.ok _), .s "panic" => some (false, "implementation rejected a step the model accepts")
    | some (.ok _), _ => some (false, "malformed implementation step")
    | some _, .s "panic" => some (implRest.isEmpty, "")   -- both reject: the history ends here
    | some _, _ => some (false, "model rejects a step the implementation accepts")
  | _, _, _ :: _, [] => some (false, "implementation trace is shorter than the history")

/-- C09's literal clause, judged on the implementation's own trace: a quotient of a diagram without
    pending unifications returns the identity map and leaves the diagram exactly as it was -/
def quotientIdempotentOnImpl (start : LF) (ops implTrace : List Sx) : Bool :=
  let states : List (Option LF) := some start :: implTrace.map (fun st =>
    match st with | .l [_, s] => (dec s : Option LF) | _ => Option.none)
  ((ops.zip implTrace).zip (states.zip states.tail)).all fun x =>
    match x.1.1, x.1.2, x.2.1, x.2.2 with
    | .l [.s "quotient"], .l [.l [.s "Ok", q], _], some before, some after =>
      if before.hypergraph.quotient.1.isEmpty && before.hypergraph.quotient.2.isEmpty then
        (match (dec q : Option FinFun) with
         | some q => q.table == List.range before.hypergraph.nodes.length && enc before == enc after
         | Option.none => false)
      else true
    | _, _, _, _ => true

def laxEdit (B : Backend) (op : String) (args : List Sx) (impl : Sx) : Option Outcome :=
  match op, args with
  | "lax.edit", [start, .l ops] | "lax.quot", [start, .l ops] => do
    -- `lax.quot`: the same histories run for C09 (quotient semantics); there the recorded pending
    -- unifications are compared as a set of unordered pairs, for C11 (`lax.edit`) exactly
    let f0 : LF ← dec start
    let tr ← runHistory B f0 ops []
    let m := okSx (.l tr)
    if m == impl then pure { model := m, agree := true, rel := "exact" }
    else
      match unOk impl with
      | some (.l implTrace) =>
        if !quotientIdempotentOnImpl f0 ops implTrace then
          pure { model := m, agree := false, rel := "oracle:quotient-idempotent",
                 note := "a quotient of a diagram without pending unifications changed it or returned a non-identity map" }
        else
          let r ← runHistoryRen B (op == "lax.quot") f0 (List.range f0.hypergraph.nodes.length) ops implTrace
          pure { model := m, agree := r.1, rel := "history-up-to-quotient-renumbering", note := r.2 }
      | _ => pure { model := m, agree := false, rel := "exact" }
  | _, _ => none

def laxCat (B : Backend) (op : String) (args : List Sx) (impl : Sx) : Option Outcome :=
  match op, args with
  | "lax.from_strict", [f] => do
    let f : F ← dec f
    pure (exact (LOHG.fromStrict f) impl)
  | "lax.to_strict", [f] => do
    let f : LF ← dec f
    pure (isoRel (LOHG.toStrict B f) impl)
  | "lax.identity", [a] => do
    let a : L ← dec a
    pure (exact (Res.ok (LOHG.identity a : LF)) impl)
  | "lax.spider", [s, t, w] => do
    let s : FinFun ← dec s; let t : FinFun ← dec t; let w : L ← dec w
    pure (exact (LOHG.spider s t w : Res LF) impl)
  | "lax.singleton", [x, a, b] => do
    let x : Nat ← dec x; let a : L ← dec a; let b : L ← dec b
    pure (exact (Res.ok (LOHG.singleton x a b : LF)) impl)
  | "lax.tensor", [f, g] => do
    let f : LF ← dec f; let g : LF ← dec g
    pure (laxLiteralRel (Res.ok (LOHG.tensor f g)) impl)
  | "lax.tensor_assign", [f, g] => do
    let f : LF ← dec f; let g : LF ← dec g
    pure (laxLiteralRel (Res.ok (LOHG.tensorAssign f g)) impl)
  | "lax.append", [f, g] => do
    let f : LF ← dec f; let g : LF ← dec g
    let r := LOHG.append f g
    let o := exact (Res.ok (r.1, r.2)) impl
    if o.agree then pure o else
    match (unOk impl).bind (dec (α := LF × (L × L))) with
    | some (b, st) => pure { o with agree := sameUpToPairOrder r.1 b && st == r.2, rel := "literal-up-to-order-of-pending-unifications" }
    | Option.none => pure o
  | "lax.coproduct_assign", [g, h] => do
    let g : LH ← dec g; let h : LH ← dec h
    let mh := LHG.coproductAssign g h
    let o := exact (Res.ok mh) impl
    if o.agree then pure o else
    match (unOk impl).bind (dec (α := LH)) with
    | some b => pure { o with agree := sameUpToPairOrder ⟨[], [], mh⟩ ⟨[], [], b⟩, rel := "literal-up-to-order-of-pending-unifications" }
    | Option.none => pure o
  | "lax.compose", [f, g] => do
    let f : LF ← dec f; let g : LF ← dec g
    pure (laxDenoteRel B (LOHG.compose f g) impl)
  | "lax.lax_compose", [f, g] => do
    let f : LF ← dec f; let g : LF ← dec g
    pure (laxDenoteRel B (LOHG.laxCompose f g) impl)
  | "lax.twist", [a, b] => do
    let a : L ← dec a; let b : L ← dec b
    pure (laxDenoteRel B (LOHG.twist a b : Res LF) impl)
  | "lax.dagger", [f] => do
    let f : LF ← dec f
    pure (exact (Res.ok f.dagger) impl)
  | "lax.source", [f] => do
    let f : LF ← dec f
    pure (exact f.source impl)
  | "lax.target", [f] => do
    let f : LF ← dec f
    pure (exact f.target impl)
  | "lax.json", [f] => do
    let f : LF ← dec f
    -- the documented JSON form (README): `Json.render`, proved lossless in Props/C11Json.lean
    let text := String.ofList (Json.render f)
    let m := okSx (.l [.s text, .s "true"])
    pure { model := m, agree := m == impl, rel := "exact" }
  | "lax.to_hypergraph", [h] => do
    let h : LH ← dec h
    pure (exact h.toHypergraph impl)
  | _, _ => none

/-! ### the parametrised functor family (implemented identically in the harness) -/

/-- object map: `variant 0` is the identity on objects, `variant 1` sends `k` to a list of
    length 0, 1, 2 or 3 chosen by `k % 4` -/
def famObj (variant : Nat) (k : Nat) : L :=
  if variant == 0 then [k]
  else if variant == 2 then (if k % 2 == 0 then [] else [k])
  else match k % 4 with
    | 0 => []
    | 1 => [k]
    | 2 => [k, k + 1]
    | _ => [k, 0, k]

/-- operation map: single operation / composite of two / spider-only / identity-or-empty,
    chosen by `a % 4` when `variant = 1` -/
def famOp (objVariant opVariant : Nat) (a : Nat) (s t : L) : Res LF :=
  let fs := s.flatMap (famObj objVariant)
  let ft := t.flatMap (famObj objVariant)
  let single : LF := LOHG.singleton a fs ft
  if opVariant == 0 then .ok single
  else match a % 4 with
    | 0 => .ok single
    | 1 => LOHG.laxCompose single (LOHG.singleton (a + 1) ft ft)
    | 2 =>
      if !(fs ++ ft).isEmpty && Var.allElementsEqual fs ft then
        (LOHG.spider (FinFun.terminal fs.length) (FinFun.terminal ft.length) [(fs ++ ft).headD 0]).unwrap "fam:spider"
      else .ok single
    | _ => if fs == ft then .ok (LOHG.identity fs) else .ok single

def famFunctor (ov pv : Nat) : LFunctor Nat Nat Nat Nat := ⟨famObj ov, famOp ov pv⟩

/-- C13, witness clause (ii): the witness `w` has one segment per input node `i`, of length
    |F(label i)| (`fw[i]`), whose entries are nodes of the returned diagram `b` carrying, in order, the
    labels `fw[i]` -/
def witnessShapeOk (fw : List L) (b : LF) (w : IC FinFun) : Bool :=
  let segs := w.segs
  segs.length == fw.length && w.values.target == b.hypergraph.nodes.length &&
  (segs.zip fw).all (fun p => p.1.length == p.2.length &&
    (p.1.zip p.2).all (fun vl => b.hypergraph.nodes[vl.1]? == some vl.2))

/-- C13, witness clause (iii): pushing the interfaces of the input `f` through the witness (each
    interface node replaced by its segment) and then through the quotient map of `b` gives the
    interfaces of the quotiented `b` -/
def witnessPushOk (B : Backend) (f b : LF) (w : IC FinFun) : Bool :=
  match LOHG.quotient B b with
  | .ok (true, q, bq) =>
    let through := fun (ids : L) => (ids.flatMap (fun i => w.segs.getD i [])).map (fun v => q.table.getD v 0)
    through f.sources == bq.sources && through f.targets == bq.targets
  | _ => false

def functorG (B : Backend) (op : String) (args : List Sx) (impl : Sx) : Option Outcome :=
  match op, args with
  | "functor.identity_map_arrow", [f] => do
    let f : F ← dec f
    pure (isoRel (SFunctor.mapArrow B SFunctor.identityF f) impl)
  | "functor.to_operations", [f] => do
    let f : F ← dec f
    let r := SFunctor.toOperations f
    pure (exact (r.bind fun o => .ok (Sx.l [enc o.x, enc o.a, enc o.b])) impl)
  | "functor.dyn_map_object", [ov, a] => do
    let ov : Nat ← dec ov; let a : L ← dec a
    pure (exact ((LFunctor.toDyn B (famFunctor ov 0)).mapObject a) impl)
  | "functor.dyn_map_arrow", [ov, pv, f] => do
    let ov : Nat ← dec ov; let pv : Nat ← dec pv; let f : F ← dec f
    pure (isoRel (SFunctor.mapArrow B (LFunctor.toDyn B (famFunctor ov pv)) f) impl)
  | "lax.functor.map_arrow", [ov, pv, f] => do
    let ov : Nat ← dec ov; let pv : Nat ← dec pv; let f : LF ← dec f
    pure (laxDenoteRel B (LFunctor.mapArrowViaStrict B (famFunctor ov pv) f) impl)
  | "lax.functor.try_map_arrow", [ov, pv, f] => do
    let ov : Nat ← dec ov; let pv : Nat ← dec pv; let f : LF ← dec f
    pure (laxDenoteRel B (LFunctor.tryMapArrow (famFunctor ov pv) f) impl)
  | "lax.functor.map_arrow_witness", [ov, pv, f] => do
    let ov : Nat ← dec ov; let pv : Nat ← dec pv; let f : LF ← dec f
    -- the witness indexes the nodes of the returned diagram, so no renumbering is allowed; only
    -- the order of the pending unifications is left open
    let m := LFunctor.mapArrowWitness (famFunctor ov pv) f
    let o := exact m impl
    if o.agree then pure o else
    match m, (unOk impl).bind (dec (α := LF × IC FinFun)) with
    | .ok (a, wa), some (b, wb) =>
      if a.sources == b.sources && a.targets == b.targets && a.hypergraph.nodes == b.hypergraph.nodes &&
         a.hypergraph.edges == b.hypergraph.edges && a.hypergraph.adjacency == b.hypergraph.adjacency &&
         samePairsMultiset a b && enc wa == enc wb then
        pure { o with agree := true, rel := "same-pending-unifications(as a multiset of unordered pairs)" }
      else
        -- C13's own criteria judged on the implementation's answer `(b, wb)`:
        --  (i) `b` denotes the same strict diagram as the model's image (after quotient, up to ≅);
        -- (ii) the witness relates input node i to exactly |F(label i)| nodes of `b`, in order, each
        --      carrying the corresponding label of F(label i);
        --(iii) pushing f's interfaces through the witness and b's quotient map gives b's interfaces
        --      pushed through the quotient map.
        let dn := laxDenoteRel B (.ok a) (okSx (enc b))
        let fw : List L := f.hypergraph.nodes.map (famObj ov)
        let shapeOk := witnessShapeOk fw b wb
        let pushOk := witnessPushOk B f b wb
        pure { o with agree := dn.agree && shapeOk && pushOk, decisive := dn.decisive,
                      rel := "witness-criteria(C13 on the implementation's answer)" }
    | _, _ => pure o
  | _, _ => none

end Drv
end OH
