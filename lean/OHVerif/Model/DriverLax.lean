/-
  Line-protocol driver, part 3: lax groups (`lax.edit`, `lax.cat`, `lax.functor`, `lax.optic`,
  `lax.var`) and the strict functor/optic groups.  IMPORT-FREE.
-/
import OHVerif.Model.DriverStrict
import OHVerif.Model.Functor

namespace OH

instance : Enc LEdge := ⟨fun e => .l [enc e.sources, enc e.targets]⟩
instance : Dec LEdge :=
  ⟨fun | .l [s, t] => do let s ← dec s; let t ← dec t; pure ⟨s, t⟩ | _ => none⟩
instance : Enc (LHG Nat Nat) := ⟨fun h => .l [enc h.nodes, enc h.edges, enc h.adjacency, enc h.quotient]⟩
instance : Dec (LHG Nat Nat) :=
  ⟨fun | .l [n, e, a, q] => do
          let n ← dec n; let e ← dec e; let a ← dec a; let q ← dec q; pure ⟨n, e, a, q⟩
       | _ => none⟩
instance : Enc (LOHG Nat Nat) := ⟨fun f => .l [enc f.sources, enc f.targets, enc f.hypergraph]⟩
instance : Dec (LOHG Nat Nat) :=
  ⟨fun | .l [s, t, h] => do let s ← dec s; let t ← dec t; let h ← dec h; pure ⟨s, t, h⟩
       | _ => none⟩

namespace Drv

abbrev LH := LHG Nat Nat
abbrev LF := LOHG Nat Nat

/-- one builder step on a lax open hypergraph: new state and the call's output -/
def editStep (B : Backend) (f : LF) (op : Sx) : Option (Res (LF × Sx)) :=
  let h := f.hypergraph
  let withH := fun (h' : LH) => ({ f with hypergraph := h' } : LF)
  match op with
  | .l [.s "new_node", .n w] =>
    let (h', i) := h.newNode w
    some (.ok (withH h', .n i))
  | .l [.s "new_edge", .n x, s, t] => do
    let s : L ← dec s; let t : L ← dec t
    let (h', i) := h.newEdge x ⟨s, t⟩
    pure (.ok (withH h', .n i))
  | .l [.s "new_operation", .n x, st, tt] => do
    let st : L ← dec st; let tt : L ← dec tt
    let (h', e, (s, t)) := h.newOperation x st tt
    pure (.ok (withH h', .l [.n e, enc s, enc t]))
  | .l [.s "add_edge_source", .n e, .n w] =>
    some ((h.addEdgeSource e w).bind fun r => .ok (withH r.1, .n r.2))
  | .l [.s "add_edge_target", .n e, .n w] =>
    some ((h.addEdgeTarget e w).bind fun r => .ok (withH r.1, .n r.2))
  | .l [.s "unify", .n v, .n w] => some (.ok (withH (h.unify v w), .l []))
  | .l [.s "delete_nodes", ids] => do
    let ids : L ← dec ids
    pure ((LOHG.deleteNodes f ids).bind fun f' => .ok (f', .l []))
  | .l [.s "h_delete_nodes_witness", ids] => do
    let ids : L ← dec ids
    pure ((h.deleteNodesWitness ids).bind fun r => .ok (withH r.1, enc r.2))
  | .l [.s "delete_edges", ids] => do
    let ids : L ← dec ids
    pure ((h.deleteEdges ids).bind fun h' => .ok (withH h', .l []))
  | .l [.s "map_nodes", .n k] => some (.ok (withH (h.mapNodes (· + k)), .l []))
  | .l [.s "map_edges", .n k] => some (.ok (withH (h.mapEdges (· + k)), .l []))
  | .l [.s "with_nodes", .n mode] =>
    -- mode 0: reverse the label list (length kept); mode 1: drop the last label (length changed)
    let g := fun (ns : L) => if mode == 0 then ns.reverse else ns.dropLast
    some (match h.withNodes g with
      | .ok h' => .ok (withH h', .s "some")
      | .none => .ok (f, .s "nil")
      | .panic s => .panic s)
  | .l [.s "with_edges", .n mode] =>
    let g := fun (es : L) => if mode == 0 then es.reverse else es.dropLast
    some (match h.withEdges g with
      | .ok h' => .ok (withH h', .s "some")
      | .none => .ok (f, .s "nil")
      | .panic s => .panic s)
  | .l [.s "set_sources", ids] => do
    let ids : L ← dec ids
    pure (.ok ({ f with sources := ids }, .l []))
  | .l [.s "set_targets", ids] => do
    let ids : L ← dec ids
    pure (.ok ({ f with targets := ids }, .l []))
  | .l [.s "is_strict"] => some (.ok (f, enc h.isStrict))
  | .l [.s "quotient"] =>
    some ((LOHG.quotient B f).bind fun r =>
      .ok (r.2.2, .l [.s (if r.1 then "Ok" else "Err"), enc r.2.1]))
  | .l [.s "h_quotient"] =>
    some ((LHG.quotientH B h).bind fun r =>
      .ok (withH r.2.2, .l [.s (if r.1 then "Ok" else "Err"), enc r.2.1]))
  | .l [.s "coequalizer"] =>
    some ((LHG.coequalizer B h).bind fun q => .ok (f, enc q))
  | _ => none

/-- run a history; the trace lists `(output state)` after every step and stops at a panic -/
def runHistory (B : Backend) : LF → List Sx → List Sx → Option (List Sx)
  | _, [], acc => some acc.reverse
  | f, op :: ops, acc =>
    match editStep B f op with
    | Option.none => Option.none
    | some (.ok (f', out)) => runHistory B f' ops (Sx.l [out, enc f'] :: acc)
    | some _ => some ((Sx.s "panic" :: acc).reverse)

def laxEdit (B : Backend) (op : String) (args : List Sx) (impl : Sx) : Option Outcome :=
  match op, args with
  | "lax.edit", [start, .l ops] => do
    let f0 : LF ← dec start
    let tr ← runHistory B f0 ops []
    let m := okSx (.l tr)
    pure { model := m, agree := m == impl, rel := "exact" }
  | _, _ => none

def laxCat (B : Backend) (op : String) (args : List Sx) (impl : Sx) : Option Outcome :=
  match op, args with
  | "lax.from_strict", [f] => do
    let f : F ← dec f
    pure (exact (LOHG.fromStrict f) impl)
  | "lax.to_strict", [f] => do
    let f : LF ← dec f
    pure (isoRel (LOHG.toStrict B f) impl)
  | "lax.identity", [a] => do
    let a : L ← dec a
    pure (exact (Res.ok (LOHG.identity a : LF)) impl)
  | "lax.spider", [s, t, w] => do
    let s : FinFun ← dec s; let t : FinFun ← dec t; let w : L ← dec w
    pure (exact (LOHG.spider s t w : Res LF) impl)
  | "lax.singleton", [x, a, b] => do
    let x : Nat ← dec x; let a : L ← dec a; let b : L ← dec b
    pure (exact (Res.ok (LOHG.singleton x a b : LF)) impl)
  | "lax.tensor", [f, g] => do
    let f : LF ← dec f; let g : LF ← dec g
    pure (exact (Res.ok (LOHG.tensor f g)) impl)
  | "lax.tensor_assign", [f, g] => do
    let f : LF ← dec f; let g : LF ← dec g
    pure (exact (Res.ok (LOHG.tensorAssign f g)) impl)
  | "lax.append", [f, g] => do
    let f : LF ← dec f; let g : LF ← dec g
    let r := LOHG.append f g
    pure (exact (Res.ok (r.1, r.2)) impl)
  | "lax.coproduct_assign", [g, h] => do
    let g : LH ← dec g; let h : LH ← dec h
    pure (exact (Res.ok (LHG.coproductAssign g h)) impl)
  | "lax.compose", [f, g] => do
    let f : LF ← dec f; let g : LF ← dec g
    pure (exact (LOHG.compose f g) impl)
  | "lax.lax_compose", [f, g] => do
    let f : LF ← dec f; let g : LF ← dec g
    pure (exact (LOHG.laxCompose f g) impl)
  | "lax.twist", [a, b] => do
    let a : L ← dec a; let b : L ← dec b
    pure (exact (LOHG.twist a b : Res LF) impl)
  | "lax.dagger", [f] => do
    let f : LF ← dec f
    pure (exact (Res.ok f.dagger) impl)
  | "lax.source", [f] => do
    let f : LF ← dec f
    pure (exact f.source impl)
  | "lax.target", [f] => do
    let f : LF ← dec f
    pure (exact f.target impl)
  | "lax.json", [f] => do
    let f : LF ← dec f
    -- the documented JSON form (README): field names, NodeId as a plain number, keys sorted
    let arr := fun (xs : L) => "[" ++ ",".intercalate (xs.map toString) ++ "]"
    let adj := "[" ++ ",".intercalate (f.hypergraph.adjacency.map fun e =>
      "{\"sources\":" ++ arr e.sources ++ ",\"targets\":" ++ arr e.targets ++ "}") ++ "]"
    let h := "{\"adjacency\":" ++ adj ++ ",\"edges\":" ++ arr f.hypergraph.edges ++
      ",\"nodes\":" ++ arr f.hypergraph.nodes ++
      ",\"quotient\":[" ++ arr f.hypergraph.quotient.1 ++ "," ++ arr f.hypergraph.quotient.2 ++ "]}"
    let text := "{\"hypergraph\":" ++ h ++ ",\"sources\":" ++ arr f.sources ++ ",\"targets\":" ++ arr f.targets ++ "}"
    let m := okSx (.l [.s text, .s "true"])
    pure { model := m, agree := m == impl, rel := "exact" }
  | "lax.to_hypergraph", [h] => do
    let h : LH ← dec h
    pure (exact h.toHypergraph impl)
  | _, _ => none

/-! ### the parametrised functor family (implemented identically in the harness) -/

/-- object map: `variant 0` is the identity on objects, `variant 1` sends `k` to a list of
    length 0, 1, 2 or 3 chosen by `k % 4` -/
def famObj (variant : Nat) (k : Nat) : L :=
  if variant == 0 then [k]
  else if variant == 2 then (if k % 2 == 0 then [] else [k])
  else match k % 4 with
    | 0 => []
    | 1 => [k]
    | 2 => [k, k + 1]
    | _ => [k, 0, k]

/-- operation map: single operation / composite of two / spider-only / identity-or-empty,
    chosen by `a % 4` when `variant = 1` -/
def famOp (objVariant opVariant : Nat) (a : Nat) (s t : L) : Res LF :=
  let fs := s.flatMap (famObj objVariant)
  let ft := t.flatMap (famObj objVariant)
  let single : LF := LOHG.singleton a fs ft
  if opVariant == 0 then .ok single
  else match a % 4 with
    | 0 => .ok single
    | 1 => LOHG.laxCompose single (LOHG.singleton (a + 1) ft ft)
    | 2 =>
      if !(fs ++ ft).isEmpty && Var.allElementsEqual fs ft then
        (LOHG.spider (FinFun.terminal fs.length) (FinFun.terminal ft.length) [(fs ++ ft).headD 0]).unwrap "fam:spider"
      else .ok single
    | _ => if fs == ft then .ok (LOHG.identity fs) else .ok single

def famFunctor (ov pv : Nat) : LFunctor Nat Nat Nat Nat := ⟨famObj ov, famOp ov pv⟩

def functorG (B : Backend) (op : String) (args : List Sx) (impl : Sx) : Option Outcome :=
  match op, args with
  | "functor.identity_map_arrow", [f] => do
    let f : F ← dec f
    pure (isoRel (SFunctor.mapArrow B SFunctor.identityF f) impl)
  | "functor.to_operations", [f] => do
    let f : F ← dec f
    let r := SFunctor.toOperations f
    pure (exact (r.bind fun o => .ok (Sx.l [enc o.x, enc o.a, enc o.b])) impl)
  | "functor.dyn_map_object", [ov, a] => do
    let ov : Nat ← dec ov; let a : L ← dec a
    pure (exact ((LFunctor.toDyn B (famFunctor ov 0)).mapObject a) impl)
  | "functor.dyn_map_arrow", [ov, pv, f] => do
    let ov : Nat ← dec ov; let pv : Nat ← dec pv; let f : F ← dec f
    pure (isoRel (SFunctor.mapArrow B (LFunctor.toDyn B (famFunctor ov pv)) f) impl)
  | "lax.functor.map_arrow", [ov, pv, f] => do
    let ov : Nat ← dec ov; let pv : Nat ← dec pv; let f : LF ← dec f
    pure (exact (LFunctor.mapArrowViaStrict B (famFunctor ov pv) f) impl)
  | "lax.functor.try_map_arrow", [ov, pv, f] => do
    let ov : Nat ← dec ov; let pv : Nat ← dec pv; let f : LF ← dec f
    pure (exact (LFunctor.tryMapArrow (famFunctor ov pv) f) impl)
  | "lax.functor.map_arrow_witness", [ov, pv, f] => do
    let ov : Nat ← dec ov; let pv : Nat ← dec pv; let f : LF ← dec f
    pure (exact (LFunctor.mapArrowWitness (famFunctor ov pv) f) impl)
  | _, _ => none

end Drv
end OH
