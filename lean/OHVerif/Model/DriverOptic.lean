/-
  Line-protocol driver, part 4: optics (C14) and Var/forget (C19).  IMPORT-FREE.
-/
import OHVerif.Model.DriverLax
import OHVerif.Model.VarBuild
import OHVerif.Model.RdOptic

namespace OH
namespace Drv
open VarB RdO Sig

def residualFam (a : Nat) : L :=
  match a % 3 with
  | 0 => []
  | 1 => [1]
  | _ => [2, 0]

def opticFam (fov rov : Nat) : LOptic Nat Nat Nat Nat where
  fwdObject := famObj fov
  revObject := famObj rov
  residual := residualFam
  fwdOperation := fun a s t =>
    .ok (LOHG.singleton a (s.flatMap (famObj fov)) (t.flatMap (famObj fov) ++ residualFam a))
  revOperation := fun a s t =>
    .ok (LOHG.singleton (a + 100) (residualFam a ++ t.flatMap (famObj rov)) (s.flatMap (famObj rov)))

/-! #### reference reverse derivative by forward-mode dual numbers (oracle) -/

abbrev Dual := Nat × Nat

def opfnDual (label : Nat) (args : List Dual) : List Dual :=
  let h := args.headD (0, 0)
  match label with
  | 0 => [args.foldl (fun a b => ((a.1 + b.1) % W, (a.2 + b.2) % W)) (0, 0)]
  | 1 => [args.foldl (fun a b => ((a.1 * b.1) % W, (a.1 * b.2 + a.2 * b.1) % W)) (1, 0)]
  | 2 => [((W - h.1) % W, (W - h.2) % W)]
  | 3 => [h, h]
  | 4 => []
  | 5 => [(3, 0)]
  | l => [((l - 10) % W, 0)]

def applyDual : Graph.Apply Nat Dual := fun labels inputs =>
  IC.ofSegsL (List.zipWith opfnDual labels inputs.segsL)

/-- `(f x, Jᵀ·dy)` computed column by column with dual numbers on the ORIGINAL circuit -/
def refRevDeriv (B : Backend) (f : F) (x dy : L) : Res (L × L) := do
  let (order, _) ← Graph.layer B f
  let layering ← Graph.converseIter B order
  let cols ← (List.range x.length).mapM (fun i => do
    let inp : List Dual := (x.zip (List.range x.length)).map (fun p => (p.1, if p.2 == i then 1 else 0))
    let (_, outs) ← Graph.evalOrder f (0, 0) inp layering applyDual
    pure outs)
  let (_, base) ← Graph.evalOrder f (0, 0) (x.map (fun v => (v, 0))) layering applyDual
  let g := cols.map (fun col => (List.zipWith (fun d o => (d * o.2) % W) dy col).foldl (fun a b => (a + b) % W) 0)
  pure (base.map (·.1), g)

/-- the Var test signature's result type of a binary operator (harness: `impl HasAdd/HasMul/… for Op`) -/
def binResLabel (o la lb : Nat) : Nat :=
  if o == 0 || o == 1 then max la lb
  else if o == 6 then lb
  else if o == 7 then (la + 2 * lb) % 3
  else la

/-- translate the wire form of a Var program into `VarIns`, computing the result labels the
    test signature assigns (binary operators: `binResLabel` of BOTH operand labels; unary: the operand's) -/
def toVarIns (labels : List Nat) : List Sx → Option (List VarB.VarIns)
  | [] => some []
  | ins :: rest =>
    match ins with
    | .l [.s "bin", .n o, .n a, .n b] =>
      -- only the four overloaded binary operators of the test signature exist (add, mul, and, xor)
      if !(o == 0 || o == 1 || o == 6 || o == 7) then none else
      let rl := binResLabel o (labels.getD a 0) (labels.getD b 0)
      (toVarIns (labels ++ [rl]) rest).map (VarB.VarIns.op o [a, b] [rl] :: ·)
    | .l [.s "un", .n o, .n a] =>
      if !(o == 2 || o == 8) then none else
      let rl := labels.getD a 0
      (toVarIns (labels ++ [rl]) rest).map (VarB.VarIns.op o [a] [rl] :: ·)
    | .l [.s "op", .n lab, args, .n r] =>
      match (dec args : Option L) with
      | some args =>
        let rls := (List.range r).map (fun k => (lab + k) % 3)
        (toVarIns (labels ++ rls) rest).map (VarB.VarIns.op lab args rls :: ·)
      | none => none
    | .l [.s "fnop", .n lab, args] =>
      match (dec args : Option L) with
      | some args => (toVarIns (labels ++ [lab % 3]) rest).map (VarB.VarIns.op lab args [lab % 3] :: ·)
      | none => none
    | _ => none

/-- `build`: `Ok(term)` unless a variable handle outlives the builder (modelled by the flag) -/
def varBuild (nIn : Nat) (prog : List Sx) (outs : L) (leak : Bool) : Option (Res (Bool × LF)) := do
  let inLabels := (List.range nIn).map (· % 3)
  let p ← toVarIns inLabels prog
  let nvars := p.foldl (fun n i => match i with | .op _ _ rs => n + rs.length) nIn
  pure ((VarB.varBuildProg inLabels p outs).bind fun f => .ok (!(leak && nvars > 0), f))

def forgetFunctor : LFunctor Nat Nat Nat Nat := ⟨fun o => [o], Var.forgetOperation 99⟩
def forgetMonoFunctor : LFunctor Nat Nat Nat Nat := ⟨fun o => [o], Var.forgetMonogamousOperation 99⟩

def opticG (B : Backend) (op : String) (args : List Sx) (impl : Sx) : Option Outcome :=
  match op, args with
  | "lax.optic.map_arrow", [fov, rov, f] => do
    let fov : Nat ← dec fov; let rov : Nat ← dec rov; let f : LF ← dec f
    pure (laxDenoteRel B (LOptic.mapArrow B (opticFam fov rov) f) impl)
  | "lax.optic.map_adapted", [fov, rov, f] => do
    let fov : Nat ← dec fov; let rov : Nat ← dec rov; let f : LF ← dec f
    pure (laxDenoteRel B (LOptic.mapAdapted B (opticFam fov rov) f) impl)
  | "optic.deriv", [f, x, dy] => do
    let f : LF ← dec f; let x : L ← dec x; let dy : L ← dec dy
    let m : Res (L × Bool) := do
      let adapted ← LOptic.mapAdapted B rdOptic f
      let strict ← LOHG.toStrict B adapted
      let mono ← strict.isMonogamous
      let (outs, _) ← evalLogged B strict (x ++ dy)
      pure (outs, mono)
    let o := exact m impl
    -- oracle: the implementation's answer must be (f x, Jᵀ dy) and the adapted optic monogamous
    -- (C14's derivative clause quantifies over input vectors of the circuit's own arity: an `x`/`dy` of
    -- another length is outside it — there only model and implementation are compared, so that the
    -- minimiser cannot drift to a mis-sized vector and report it as the failing input)
    let sized := x.length == f.sources.length && dy.length == f.targets.length
      -- … and over POLYNOMIAL circuits: for the bitwise labels 6/7/8 the dual-number rule below is not
      -- the gate (Props/C14RefOracle.lean: the oracle is proved right for every other label)
      && f.hypergraph.edges.all (fun l => l != 6 && l != 7 && l != 8)
    let oracle : Bool := !sized || match (LOHG.toStrict B f).bind (fun sf => refRevDeriv B sf x dy), (unOk impl).bind (dec (α := L × Bool)) with
      | .ok (fx, g), some (io, mono) => io == fx ++ g && mono
      | _, _ => false
    pure { o with agree := o.agree && oracle, note := if oracle then o.note else "oracle: not (f x, J^T dy) or not monogamous" }
  | "var.build", [nIn, .l prog, outs, leak] => do
    let nIn : Nat ← dec nIn; let outs : L ← dec outs; let leak : Bool ← dec leak
    let r ← varBuild nIn prog outs leak
    let ms : Sx := match r with
      | .ok (true, f) => okSx (enc f)
      | .ok (false, f) => .l [.s "err", enc f]
      | .none => .s "none"
      | .panic _ => .s "panic"
    if ms == impl then pure { model := ms, agree := true, rel := "exact", note := r.site } else
    match r, impl with
    -- a successful build: the term is compared by what it denotes (how the builder numbers the nodes
    -- and hyperedges it creates is not fixed by the property)
    | .ok (true, f), .l [.s "ok", _] => pure (laxDenoteRel B (.ok f) impl)
    -- a failed build (a handle outlived the builder): only the failure itself is specified, not the
    -- contents of the state that is handed back
    | .ok (false, _), .l [.s "err", _] =>
      pure { model := ms, agree := true, rel := "both-fail(a handle outlives the builder)", note := r.site }
    | _, _ => pure { model := ms, agree := false, rel := "exact", note := r.site }
  | "var.forget", [f] => do
    let f : LF ← dec f
    pure (laxDenoteRel B (LFunctor.mapArrowViaStrict B forgetFunctor f) impl)
  | "var.forget_monogamous", [f] => do
    let f : LF ← dec f
    pure (laxDenoteRel B (LFunctor.mapArrowViaStrict B forgetMonoFunctor f) impl)
  | _, _ => none

end Drv
end OH
