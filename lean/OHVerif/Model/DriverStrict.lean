/-
  Line-protocol driver, part 2: groups `hg`, `oh`, `law`, `graph`, `eval`.  IMPORT-FREE.
-/
import OHVerif.Model.Driver
import OHVerif.Model.Plain
import OHVerif.Model.Signature
import OHVerif.Model.IsoCert

namespace OH

instance : Enc (HG Nat Nat) := ⟨fun h => .l [enc h.s, enc h.t, enc h.w, enc h.x]⟩
instance : Dec (HG Nat Nat) :=
  ⟨fun | .l [s, t, w, x] => do
          let s ← dec s; let t ← dec t; let w ← dec w; let x ← dec x; pure ⟨s, t, w, x⟩
       | _ => none⟩
instance : Enc (OHG Nat Nat) := ⟨fun f => .l [enc f.s, enc f.t, enc f.h]⟩
instance : Dec (OHG Nat Nat) :=
  ⟨fun | .l [s, t, h] => do let s ← dec s; let t ← dec t; let h ← dec h; pure ⟨s, t, h⟩
       | _ => none⟩

def HGErr.sym : HGErr → String
  | .sourcesCount => "SourcesCount" | .targetsCount => "TargetsCount"
  | .sourcesSet => "SourcesSet" | .targetsSet => "TargetsSet"
  | .cospanSourceType => "CospanSourceType" | .cospanTargetType => "CospanTargetType"

def Graph.ArrowErr.sym : Graph.ArrowErr → String
  | .typeMismatchW => "TypeMismatchW" | .typeMismatchX => "TypeMismatchX"
  | .notNaturalW => "NotNaturalW" | .notNaturalX => "NotNaturalX"
  | .notNaturalS => "NotNaturalS" | .notNaturalT => "NotNaturalT"

namespace Drv
open Sig

def encExcept {α} [Enc α] (e : Except HGErr α) : Sx :=
  match e with
  | .ok a => okSx (enc a)
  | .error er => .l [.s "err", .s er.sym]

abbrev H := HG Nat Nat
abbrev F := OHG Nat Nat

/-- diagram-valued result: exact first, else isomorphism of well-formed diagrams -/
def isoRel (m : Res F) (impl : Sx) (note : String := "") : Outcome :=
  let ms := enc m
  if ms == impl then { model := ms, agree := true, rel := "exact" }
  else
    match m, (unOk impl).bind (dec (α := F)) with
    | .ok mf, some f =>
      if !f.wf then { model := ms, agree := false, rel := "iso", note := "implementation result is not well-formed" }
      else match IsoCert.check mf.toPlain f.toPlain with
        -- the search is untrusted: agreement rests on the certificate checker (Props/IsoCert.lean:
        -- certOk … = true → ≅)
        | .iso π ρ => { model := ms, agree := IsoCert.certOk mf.toPlain f.toPlain π ρ, rel := "iso" }
        | .notIso => { model := ms, agree := false, rel := "iso", note := note }
        | .inconclusive => { model := ms, agree := false, rel := "iso", decisive := false, note := "iso search inconclusive" }
    | _, _ => { model := ms, agree := false, rel := "iso", note := m.site }

/-- ALL documented conditions that fail for raw hypergraph data (each evaluated on its own) -/
def hgFailing (h : H) : List HGErr :=
  (if h.s.len ≠ h.x.length then [HGErr.sourcesCount] else []) ++
  (if h.t.len ≠ h.x.length then [HGErr.targetsCount] else []) ++
  (if h.s.values.target ≠ h.w.length then [HGErr.sourcesSet] else []) ++
  (if h.t.values.target ≠ h.w.length then [HGErr.targetsSet] else [])

def ohgFailing (s t : FinFun) (h : H) : List HGErr :=
  hgFailing h ++
  (if s.target ≠ h.w.length then [HGErr.cospanSourceType] else []) ++
  (if t.target ≠ h.w.length then [HGErr.cospanTargetType] else [])

/-- a checked constructor: accepted iff the model accepts (then the same value); a rejection must name
    a condition that actually fails — WHICH of several failing conditions is reported is left open by
    C05 ("accepts iff the documented conditions hold") and C18 ("names a condition that actually fails") -/
def rejectionRel (m : Sx) (failing : List String) (impl : Sx) : Outcome :=
  if m == impl then { model := m, agree := true, rel := "exact" }
  else match m, impl with
    | .l [.s "err", _], .l [.s "err", .s e] =>
      { model := m, agree := failing.contains e, rel := "rejection-names-a-failing-condition" }
    | _, _ => { model := m, agree := false, rel := "exact" }

/-- all conditions of `HypergraphArrow::validate` that fail (a condition whose evaluation needs an
    earlier one to hold is evaluated whenever its own ingredients are defined) -/
def arrowFailing (m : Graph.HArrow Nat Nat) : List Graph.ArrowErr :=
  let g := m.source; let h := m.target
  (match FinFun.composeSemi m.w h.w with
   | .ok cw => if g.w ≠ cw then [Graph.ArrowErr.notNaturalW] else []
   | _ => [Graph.ArrowErr.typeMismatchW]) ++
  (match FinFun.composeSemi m.x h.x with
   | .ok cx => if g.x ≠ cx then [Graph.ArrowErr.notNaturalX] else []
   | _ => [Graph.ArrowErr.typeMismatchX]) ++
  (match IC.mapValues g.s m.w, IC.mapIndexes h.s m.x with
   | .ok a, .ok b => if a ≠ b then [Graph.ArrowErr.notNaturalS] else []
   | _, _ => [Graph.ArrowErr.notNaturalS]) ++
  (match IC.mapValues g.t m.w, IC.mapIndexes h.t m.x with
   | .ok a, .ok b => if a ≠ b then [Graph.ArrowErr.notNaturalT] else []
   | _, _ => [Graph.ArrowErr.notNaturalT])

def hg (B : Backend) (op : String) (args : List Sx) (impl : Sx) : Option Outcome :=
  match op, args with
  | "hg.new", [s, t, w, x] => do
    let s : IC FinFun ← dec s; let t : IC FinFun ← dec t; let w : L ← dec w; let x : L ← dec x
    let m := encExcept (HG.new s t w x)
    pure (rejectionRel m ((hgFailing ⟨s, t, w, x⟩).map HGErr.sym) impl)
  | "hg.empty", [] => pure (exact (Res.ok (HG.empty : H)) impl)
  | "hg.discrete", [w] => do
    let w : L ← dec w
    pure (exact (Res.ok (HG.discrete w : H)) impl)
  | "hg.is_discrete", [h] => do
    let h : H ← dec h
    pure (exact (Res.ok h.isDiscrete) impl)
  | "hg.coproduct", [g, h] => do
    let g : H ← dec g; let h : H ← dec h
    pure (exact (HG.coproduct g h) impl)
  | "hg.tensor_operations", [x, a, b] => do
    let x : L ← dec x; let a : IC L ← dec a; let b : IC L ← dec b
    pure (exact (HG.tensorOperations (O := Nat) ⟨x, a, b⟩) impl)
  | "hg.in_degree", [h, v] => do
    let h : H ← dec h; let v : Nat ← dec v
    pure (exact (h.inDegree v) impl)
  | "hg.out_degree", [h, v] => do
    let h : H ← dec h; let v : Nat ← dec v
    pure (exact (h.outDegree v) impl)
  | "hg.coequalize_vertices", [h, q] => do
    let h : H ← dec h; let q : FinFun ← dec q
    -- determined exactly when q is surjective (the harness only sends surjections)
    pure (exact (h.coequalizeVertices B q) impl (decisive := denseOnto q.table q.target))
  | "hg.is_acyclic", [h] => do
    let h : H ← dec h
    pure (exact (Graph.isAcyclic B h) impl)
  | _, _ => none

def oh (B : Backend) (op : String) (args : List Sx) (impl : Sx) : Option Outcome :=
  match op, args with
  | "oh.new", [s, t, h] => do
    let s : FinFun ← dec s; let t : FinFun ← dec t; let h : H ← dec h
    let m := encExcept (OHG.new s t h)
    pure (rejectionRel m ((ohgFailing s t h).map HGErr.sym) impl)
  | "oh.singleton", [x, a, b] => do
    let x : Nat ← dec x; let a : L ← dec a; let b : L ← dec b
    pure (exact (OHG.singleton x a b : Res F) impl)
  | "oh.tensor_operations", [x, a, b] => do
    let x : L ← dec x; let a : IC L ← dec a; let b : IC L ← dec b
    pure (exact (OHG.tensorOperations (O := Nat) ⟨x, a, b⟩ : Res F) impl)
  | "oh.source", [f] => do
    let f : F ← dec f
    pure (exact f.source impl)
  | "oh.target", [f] => do
    let f : F ← dec f
    pure (exact f.target impl)
  | "oh.identity", [w] => do
    let w : L ← dec w
    pure (isoRel (OHG.identity w : Res F) impl)
  | "oh.spider", [s, t, w] => do
    let s : FinFun ← dec s; let t : FinFun ← dec t; let w : L ← dec w
    pure (exact (OHG.spider s t w : Res F) impl)
  | "oh.half_spider", [s, w] => do
    let s : FinFun ← dec s; let w : L ← dec w
    pure (exact (OHG.halfSpider s w : Res F) impl)
  | "oh.tensor", [f, g] => do
    let f : F ← dec f; let g : F ← dec g
    pure (exact (OHG.tensor f g) impl)
  | "oh.twist", [a, b] => do
    let a : L ← dec a; let b : L ← dec b
    -- the layout of the symmetry (which leg carries the permutation) is not fixed by any property
    pure (isoRel (OHG.twist a b : Res F) impl)
  | "oh.dagger", [f] => do
    let f : F ← dec f
    pure (exact (Res.ok f.dagger) impl)
  | "oh.compose", [f, g] => do
    let f : F ← dec f; let g : F ← dec g
    pure (isoRel (OHG.compose B f g) impl)
  | "oh.is_monogamous", [f] => do
    let f : F ← dec f
    pure (exact f.isMonogamous impl)
  | "oh.is_acyclic", [f] => do
    let f : F ← dec f
    pure (exact (Graph.isAcyclic B f.h) impl)
  | _, _ => none

/-- a law instance evaluated on the implementation: both sides must be well-formed and
    isomorphic (or equal, for the laws that hold on the nose) -/
def law (_B : Backend) (op : String) (_args : List Sx) (impl : Sx) : Option Outcome :=
  let strictEq := op.endsWith ":eq"
  match unOk impl with
  | some (.l [a, b]) =>
    if op.endsWith ":lax-eq" then some { model := a, agree := a == b, rel := "law:equal" } else
    match (dec a : Option F), (dec b : Option F) with
    | some fa, some fb =>
      if strictEq then
        some { model := a, agree := a == b, rel := "law:equal" }
      else if !(fa.wf && fb.wf) then
        some { model := a, agree := false, rel := "law:iso", note := "a side of the law is not well-formed" }
      else match IsoCert.check fa.toPlain fb.toPlain with
        | .iso π ρ => some { model := a, agree := IsoCert.certOk fa.toPlain fb.toPlain π ρ, rel := "law:iso" }
        | .notIso => some { model := a, agree := false, rel := "law:iso" }
        | .inconclusive => some { model := a, agree := false, rel := "law:iso", decisive := false, note := "iso search inconclusive" }
    | _, _ => none
  | _ => some { model := .s "defined", agree := false, rel := "law:defined",
                note := "a side of the law instance is undefined or panicked" }

/-- equal up to a permutation inside each segment -/
def segPermEq (a b : IC FinFun) : Bool :=
  a.sources == b.sources && a.values.target == b.values.target &&
  a.values.table.length == b.values.table.length &&
  (a.segs.zip b.segs).all (fun p => isPerm p.1 p.2)

def segPerm (m : Res (IC FinFun)) (impl : Sx) : Outcome :=
  let ms := enc m
  if ms == impl then { model := ms, agree := true, rel := "exact" }
  else match m, (unOk impl).bind (dec (α := IC FinFun)) with
    | .ok a, some b => { model := ms, agree := segPermEq a b, rel := "segment-perm" }
    | _, _ => { model := ms, agree := false, rel := "segment-perm", note := m.site }

/-- `y` depends on `x`: some target node of hyperedge `x` is a source node of hyperedge `y` -/
def opDepB {O A : Type} (pd : PDiag O A) (x y : Nat) : Bool :=
  match pd.edges[x]?, pd.edges[y]? with
  | some ex, some ey => ex.tgt.any (fun v => ey.src.contains v)
  | _, _ => false

/-- C15's own criteria, judged on an answer `(order, unvisited)` for the diagram `pd`, given the flags
    `mUnv` and the number `nLayers` of layers (= length of the longest dependency chain among visited
    operations) that the proved model computes: the flags are the model's (exactly the operations on or
    downstream of a cycle are unvisited: `kahn_spec`), and among VISITED operations every dependency
    strictly increases the layer and the layers used are exactly `0 .. nLayers-1`.  What an unvisited
    operation is assigned, and the size of the codomain, are left open by the property. -/
def validLayering {O A : Type} (pd : PDiag O A) (mUnv : L) (nLayers : Nat) (iOrder iUnv : L) : Bool :=
  let n := pd.edges.length
  let visited := fun e => mUnv.getD e 1 == 0
  let vis := (List.range n).filter visited
  iUnv == mUnv && iOrder.length == n &&
  vis.all (fun x => vis.all (fun y => !(opDepB pd x y) || decide (iOrder.getD x 0 < iOrder.getD y 0))) &&
  vis.all (fun e => decide (iOrder.getD e 0 < nLayers)) &&
  (List.range nLayers).all (fun k => vis.any (fun e => iOrder.getD e 0 == k))

/-- number of layers the model uses among visited operations -/
def layersUsed (mOrder mUnv : L) : Nat :=
  let used := ((List.range mOrder.length).filter (fun e => mUnv.getD e 1 == 0)).map (fun e => mOrder.getD e 0)
  if used.isEmpty then 0 else used.foldl max 0 + 1

def graph (B : Backend) (op : String) (args : List Sx) (impl : Sx) : Option Outcome :=
  match op, args with
  | "graph.converse", [r] => do
    let r : IC FinFun ← dec r
    pure (segPerm (Graph.converse B r) impl)
  | "graph.operation_adjacency", [h] => do
    let h : H ← dec h
    pure (segPerm (Graph.operationAdjacency B h) impl)
  | "graph.node_adjacency", [h] => do
    let h : H ← dec h
    pure (segPerm (Graph.nodeAdjacency B h) impl)
  | "graph.indegree", [a] => do
    let a : IC FinFun ← dec a
    pure (exact (Graph.indegree a) impl)
  | "graph.dense_relative_indegree", [a, f] => do
    let a : IC FinFun ← dec a; let f : FinFun ← dec f
    pure (exact (Graph.denseRelativeIndegree a f) impl)
  | "graph.sparse_relative_indegree", [a, f] => do
    let a : IC FinFun ← dec a; let f : FinFun ← dec f
    -- compared as a key → count map (the key order is an open choice)
    let m := Graph.sparseRelativeIndegree B a f
    let ms := enc m
    if ms == impl then pure { model := ms, agree := true, rel := "exact" }
    else match m, (unOk impl).bind (dec (α := FinFun × FinFun)) with
      | .ok (mi, mc), some (ii, ic) =>
        let ag := mi.target == ii.target && mc.target == ic.target &&
          isPerm mi.table ii.table && ii.table.length == ic.table.length &&
          (ii.table.zip ic.table).all (fun kc => (mi.table.zip mc.table).contains kc)
        pure { model := ms, agree := ag, rel := "map" }
      | _, _ => pure { model := ms, agree := false, rel := "map", note := m.site }
  | "graph.kahn", [a] => do
    let a : IC FinFun ← dec a
    pure (exact (Graph.kahn B a) impl)
  | "graph.layer", [f] => do
    let f : F ← dec f
    let m := Graph.layer B f
    let o := exact m impl
    if o.agree then pure o else
    match m, (unOk impl).bind (dec (α := FinFun × L)) with
    | .ok (mo, mu), some (io, iu) =>
      -- any layering that meets the property's criteria is accepted (the property does not say
      -- "as early as possible", nor what an unvisited operation is assigned, nor the codomain)
      let ag := io.table.all (fun v => decide (v < io.target)) &&
        validLayering f.toPlain mu (layersUsed mo.table mu) io.table iu
      pure { o with agree := ag, rel := "valid-layering(C15 criteria on the implementation's answer)" }
    | _, _ => pure o
  | "graph.layered_operations", [f] => do
    let f : F ← dec f
    let m := Graph.layeredOperations B f
    let ms := enc m
    if ms == impl then pure { model := ms, agree := true, rel := "exact" }
    else match m, (unOk impl).bind (dec (α := List L × L)) with
      | .ok (mg, mu), some (ig, iu) =>
        let ag := mu == iu && mg.length == ig.length && (mg.zip ig).all (fun p => isPerm p.1 p.2)
        if ag then pure { model := ms, agree := true, rel := "sets-per-layer" } else
        -- otherwise: every VISITED operation listed exactly once, and the layering read off the
        -- groups (operation ↦ index of its group) meets the property's criteria
        let n := f.h.x.length
        let vis := (List.range n).filter (fun e => mu.getD e 1 == 0)
        let once := vis.all (fun e => (ig.map (fun g => g.count e)).foldl (· + ·) 0 == 1)
        let ord : L := (List.range n).map (fun e => (ig.findIdx? (fun g => g.contains e)).getD 0)
        let mOrd : L := (List.range n).map (fun e => (mg.findIdx? (fun g => g.contains e)).getD 0)
        let ag2 := once && ig.all (fun g => g.all (fun e => decide (e < n))) &&
          validLayering f.toPlain mu (layersUsed mOrd mu) ord iu
        pure { model := ms, agree := ag2, rel := "valid-layering(C15 criteria on the implementation's groups)" }
      | _, _ => pure { model := ms, agree := false, rel := "sets-per-layer", note := m.site }
  | "graph.arrow_new", [g, h, w, x] => do
    let g : H ← dec g; let h : H ← dec h; let w : FinFun ← dec w; let x : FinFun ← dec x
    let r := Graph.HArrow.validate ⟨g, h, w, x⟩
    let ms : Sx := match r with
      | .ok (.ok ()) => okSx (.s "accept")
      | .ok (.error e) => .l [.s "err", .s e.sym]
      | .none => .s "none"
      | .panic _ => .s "panic"
    pure { rejectionRel ms ((arrowFailing ⟨g, h, w, x⟩).map Graph.ArrowErr.sym) impl with note := r.site }
  | "graph.is_monomorphism", [g, h, w, x] => do
    let g : H ← dec g; let h : H ← dec h; let w : FinFun ← dec w; let x : FinFun ← dec x
    pure (exact (Graph.HArrow.isMonomorphism ⟨g, h, w, x⟩) impl)
  | "graph.is_convex_subgraph", [g, h, w, x] => do
    let g : H ← dec g; let h : H ← dec h; let w : FinFun ← dec w; let x : FinFun ← dec x
    -- C18 speaks about the convexity of (the image of) a MORPHISM: on a pair of maps that
    -- `validate` rejects the answer is not specified
    let o := exact (Graph.HArrow.isConvexSubgraph B ⟨g, h, w, x⟩) impl
    if o.agree then pure o else
    match Graph.HArrow.validate ⟨g, h, w, x⟩ with
    | .ok (.ok ()) => pure o
    | _ => pure { o with agree := true, rel := "outside-precondition(not a morphism)" }
  | _, _ => none

/-! ### evaluation over the test signature (wrapping u64 arithmetic and bitwise gates) -/

/-- the interpreter with a log of the `(label, args)` pairs of every call -/
def evalLogged (B : Backend) (f : F) (s : L) : Res (L × List (List (Nat × L))) := do
  -- the outputs are literally the modelled function `Graph.eval` (about which C16's theorems speak)
  let outs ← Graph.eval B f 0 s applySig
  -- the log of `(label, args)` pairs per call is recomputed along the same layering (the interpreter
  -- is pure); evaluation succeeded, so every step below succeeds too
  let (order, _) ← Graph.layer B f
  let layering ← Graph.converseIter B order
  let mem0 := List.replicate f.h.w.length 0
  let mem1 ← Prim.scatterAssign mem0 f.s.table s
  let (_, log) ← layering.foldlM (fun (acc : L × List (List (Nat × L))) opIx => do
      let (mem, log) := acc
      let opFF : FinFun := ⟨opIx, f.h.x.length⟩
      let labels ← (FinFun.composeSemi opFF f.h.x).unwrap "eval:unwrap-labels"
      let inIdx ← (IC.mapIndexes f.h.s opFF).unwrap "eval:unwrap-in-indexes"
      let inVals ← (IC.mapSemifinite inIdx mem).unwrap "eval:unwrap-in-values"
      let outputs := applySig labels inVals
      let outIdx ← (IC.mapIndexes f.h.t opFF).unwrap "eval:unwrap-out-indexes"
      let mem' ← Prim.scatterAssign mem outIdx.values.table outputs.values
      pure (mem', log ++ [labels.zip inVals.segsL])) (mem1, [])
  pure (outs, log)

def evalG (B : Backend) (op : String) (args : List Sx) (impl : Sx) : Option Outcome :=
  match op, args with
  | "eval.eval", [f, s] => do
    let f : F ← dec f; let s : L ← dec s
    let m := evalLogged B f s
    let ms := enc m
    -- the property's precondition: every node written at most once and every operation
    -- returning as many values as it has targets; outside it the result depends on the order
    -- of writes inside a layer, which is an open choice
    let pd := f.toPlain
    let pre := (pd.ins ++ pd.edges.flatMap (·.tgt)).eraseDups.length == (pd.ins ++ pd.edges.flatMap (·.tgt)).length &&
      pd.edges.all (fun e => (opfn e.label (List.replicate e.src.length 0)).length == e.tgt.length) &&
      s.length == pd.ins.length
    if ms == impl then pure { model := ms, agree := true, rel := "exact" }
    else if !pre then pure { model := ms, agree := true, rel := "outside-precondition(multi-writer-or-arity)" }
    else match m, (unOk impl).bind (dec (α := L × List (List (Nat × L)))) with
      | .ok (mo, ml), some (io, il) =>
        -- outputs exact; every hyperedge interpreted exactly once on the values of its source
        -- nodes: the (label, args) pairs of ALL calls form the same multiset (how the operations are
        -- batched into calls, in which dependency-respecting order, is left open by the property)
        let fm := ml.flatten; let fi := il.flatten
        let ag := mo == io && fm.length == fi.length &&
          fm.all (fun x => fm.count x == fi.count x)
        pure { model := ms, agree := ag, rel := "outputs-exact+log-multiset" }
      | _, _ => pure { model := ms, agree := false, rel := "outputs-exact+log-multiset", note := m.site }
  | _, _ => none

end Drv
end OH
