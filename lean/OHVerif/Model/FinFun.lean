/-
  Finite functions (src/finite_function/arrow.rs), semifinite composition
  (src/semifinite/types.rs).  IMPORT-FREE.
-/
import OHVerif.Model.Prim

namespace OH

structure FinFun where
  table : List Nat
  target : Nat
  deriving Repr, DecidableEq

namespace FinFun
open Prim

@[inline] def source (f : FinFun) : Nat := f.table.length

/-- well-formedness: every table entry is below the codomain size -/
def WF (f : FinFun) : Prop := ∀ x ∈ f.table, x < f.target
def wf (f : FinFun) : Bool := f.table.all (fun x => decide (x < f.target))

/-- `FiniteFunction::new`: rejects iff the maximum entry is `≥ target` -/
def new (table : List Nat) (target : Nat) : Res FinFun :=
  match Prim.max table with
  | some m => if m ≥ target then .none else .ok ⟨table, target⟩
  | Option.none => .ok ⟨table, target⟩

def identity (a : Nat) : Res FinFun := do
  let t ← arange 0 a
  pure ⟨t, a⟩

def initial (a : Nat) : FinFun := ⟨[], a⟩
def toInitial (f : FinFun) : FinFun := initial f.target
def terminal (a : Nat) : FinFun := ⟨List.replicate a 0, 1⟩
def constant (a x b : Nat) : FinFun := ⟨List.replicate a x, x + b + 1⟩

def inject0 (f : FinFun) (b : Nat) : FinFun := ⟨f.table, b + f.target⟩
def inject1 (f : FinFun) (a : Nat) : FinFun := ⟨f.table.map (a + ·), a + f.target⟩

def compose (f g : FinFun) : Res FinFun :=
  if f.target = g.source then do
    let t ← gather g.table f.table
    pure ⟨t, g.target⟩
  else .none

/-- `compose_semifinite` / `FiniteFunction >> SemifiniteFunction` -/
def composeSemi {α : Type} (f : FinFun) (g : List α) : Res (List α) :=
  if f.target = g.length then gather g f.table else .none

def coproduct (f g : FinFun) : Res FinFun :=
  if f.target = g.target then .ok ⟨f.table ++ g.table, f.target⟩ else .none

def inj0 (a b : Nat) : Res FinFun := do
  let t ← arange 0 a
  pure ⟨t, a + b⟩

def inj1 (a b : Nat) : Res FinFun := do
  let t ← arange a (a + b)
  pure ⟨t, a + b⟩

def tensor (f g : FinFun) : FinFun := ⟨f.table ++ g.table.map (f.target + ·), f.target + g.target⟩

def twist (a b : Nat) : Res FinFun := do
  let lhs ← arange b (a + b)
  let rhs ← arange 0 b
  pure ⟨lhs ++ rhs, a + b⟩

def transpose (a b : Nat) : Res FinFun :=
  if a = 0 then .ok (initial a)
  else do
    let n := b * a
    let i ← arange 0 n
    let (q, r) ← quotRem i a
    let t ← mulConstantAdd r b q
    pure ⟨t, n⟩

def coequalizer (B : Backend) (f g : FinFun) : Res FinFun :=
  if f.source ≠ g.source ∨ f.target ≠ g.target then .none
  else do
    let (t, k) ← connectedComponents B f.table g.table f.target
    pure ⟨t, k⟩

/-- free function `coequalizer_universal(q, f)` on a label array -/
def coequalizerUniversalArr {α : Type} [DecidableEq α] (B : Backend) (q : FinFun) (f : List α) :
    Res (List α) :=
  if q.source ≠ f.length then .none
  else do
    let table ← scatter B f q.table q.target
    let f' ← (composeSemi q table).unwrap "coequalizer_universal:expect"
    if f' = f then .ok table else .none

def coequalizerUniversal (B : Backend) (q f : FinFun) : Res FinFun := do
  let t ← coequalizerUniversalArr B q f.table
  pure ⟨t, f.target⟩

/-- `s.injections(a)` -/
def injections (s a : FinFun) : Res FinFun := do
  let p := cumulativeSum s.table
  let k ← compose a s
  let r ← segmentedArange k.table
  let values ← gather p a.table
  let z ← «repeat» k.table values
  let t ← add r z
  let last ← checkedSub p.length 1 "injections:underflow"
  let tgt ← get p last
  pure ⟨t, tgt⟩

def cumulativeSum (f : FinFun) : Res FinFun := do
  let ext := Prim.cumulativeSum f.table
  let tgt ← get ext f.source
  let t ← getRange ext (.to f.source)
  pure ⟨t, tgt⟩

def isInjective (f : FinFun) : Res Bool :=
  if f.source = 0 then .ok true
  else do
    let counts ← bincount f.table f.target
    pure (match Prim.max counts with
      | some m => decide (m ≤ 1)
      | Option.none => true)

end FinFun

/-- `SemifiniteArrow` (src/semifinite/arrow.rs) over labels `α` -/
inductive SemiArrow (α : Type) where
  | identity
  | finite (f : FinFun)
  | semifinite (g : List α)

namespace SemiArrow
def compose {α : Type} : SemiArrow α → SemiArrow α → Res (SemiArrow α)
  | .finite f, .finite g => (FinFun.compose f g) >>= fun h => .ok (.finite h)
  | .finite f, .semifinite g => (FinFun.composeSemi f g) >>= fun h => .ok (.semifinite h)
  | _, _ => .none
end SemiArrow

end OH
