/-
  Functors and optics (src/strict/functor/{traits,identity,optic}.rs,
  src/lax/functor/{traits,dyn_functor}.rs, src/lax/optic.rs) and Var/forget
  (src/lax/var/*.rs).  IMPORT-FREE.
-/
import OHVerif.Model.Lax

namespace OH

/-- a strict functor given by its action on object lists and on operation batches -/
structure SFunctor (O1 A1 O2 A2 : Type) where
  mapObject : List O1 → Res (IC (List O2))
  mapOperations : Operations O1 A1 → Res (OHG O2 A2)

/-- a lax functor given generator-wise -/
structure LFunctor (O1 A1 O2 A2 : Type) where
  mapObject : O1 → List O2
  mapOperation : A1 → List O1 → List O1 → Res (LOHG O2 A2)

namespace SFunctor
variable {O1 A1 O2 A2 : Type}

def toOperations (f : OHG O1 A1) : Res (Operations O1 A1) := do
  let a ← (IC.mapSemifinite f.h.s f.h.w).unwrap "to_operations:unwrap-a"
  let b ← (IC.mapSemifinite f.h.t f.h.w).unwrap "to_operations:unwrap-b"
  pure ⟨f.h.x, a, b⟩

def mapHalfSpider (w : IC (List O2)) (f : FinFun) : Res FinFun :=
  (FinFun.injections w.sources f).unwrap "map_half_spider:unwrap"

def spiderMapArrow [DecidableEq O2] (B : Backend) (f : OHG O1 A1) (fw : IC (List O2))
    (fx : OHG O2 A2) : Res (OHG O2 A2) := do
  let i ← (OHG.identity fw.values : Res (OHG O2 A2))
  let fs ← mapHalfSpider fw f.s
  let es ← mapHalfSpider fw f.h.s.values
  let sxT ← (FinFun.coproduct i.t es).unwrap "spider_map_arrow:unwrap-sx-leg"
  let sx ← (OHG.spider fs sxT i.h.w : Res (OHG O2 A2)).unwrap "spider_map_arrow:unwrap-sx"
  let ft ← mapHalfSpider fw f.t
  let et ← mapHalfSpider fw f.h.t.values
  let ytS ← (FinFun.coproduct i.s et).unwrap "spider_map_arrow:unwrap-yt-leg"
  let yt ← (OHG.spider ytS ft i.h.w : Res (OHG O2 A2)).unwrap "spider_map_arrow:unwrap-yt"
  let ifx ← OHG.tensor i fx
  let a ← (OHG.compose B sx ifx).unwrap "spider_map_arrow:unwrap-compose1"
  (OHG.compose B a yt).unwrap "spider_map_arrow:unwrap-compose2"

/-- `define_map_arrow` -/
def mapArrow [DecidableEq O2] (B : Backend) (F : SFunctor O1 A1 O2 A2) (f : OHG O1 A1) :
    Res (OHG O2 A2) := do
  let ops ← toOperations f
  let fx ← F.mapOperations ops
  let fw ← F.mapObject f.h.w
  spiderMapArrow B f fw fx

/-- the strict identity functor -/
def identityF {O A : Type} : SFunctor O A O A where
  mapObject := fun a => IC.elements a
  mapOperations := fun ops => OHG.tensorOperations ops

end SFunctor

namespace LFunctor
variable {O1 A1 O2 A2 : Type}

/-- `DynFunctor`: the strict functor induced by a generator-wise lax functor -/
def toDyn [DecidableEq O2] (B : Backend) (F : LFunctor O1 A1 O2 A2) : SFunctor O1 A1 O2 A2 where
  mapObject := fun a =>
    let imgs := a.map F.mapObject
    (IC.fromSemifinite (imgs.map List.length) imgs.flatten).unwrap "dyn.map_object:unwrap"
  mapOperations := fun ops => do
    let sa ← IC.iterTrace (ops.a.len + 1) (IC.intoIter ops.a.sources.table ops.a.values)
    let sb ← IC.iterTrace (ops.b.len + 1) (IC.intoIter ops.b.sources.table ops.b.values)
    let triples := ops.x.zip ((sa.map (·.1)).zip (sb.map (·.1)))
    let acc ← triples.foldlM (fun acc t => do
        let img ← F.mapOperation t.1 t.2.1 t.2.2
        pure (LOHG.tensorAssign acc img)) (LOHG.empty : LOHG O2 A2)
    LOHG.toStrict B acc

/-- lax `define_map_arrow` (through the strict representation) -/
def mapArrowViaStrict [DecidableEq O1] [DecidableEq O2] (B : Backend) (F : LFunctor O1 A1 O2 A2)
    (f : LOHG O1 A1) : Res (LOHG O2 A2) := do
  let sf ← LOHG.toStrict B f
  let sg ← SFunctor.mapArrow B (toDyn B F) sf
  LOHG.fromStrict sg

/-! #### the native lax path (src/lax/functor/traits.rs) -/

def mapHalfSpiderL (fw : List (List O2)) (ids : List Nat) : Res FinFun := do
  let total := Prim.sum (fw.map List.length)
  let sizes ← FinFun.new (fw.map List.length) (total + 1)
  let f ← FinFun.new ids fw.length
  FinFun.injections sizes f

def mapOperationsL (F : LFunctor O1 A1 O2 A2) (f : LOHG O1 A1) : Res (LOHG O2 A2) :=
  (f.hypergraph.edges.zip (List.range f.hypergraph.edges.length)).foldlM (fun acc p => do
    let e ← Prim.get f.hypergraph.adjacency p.2
    let src ← e.sources.mapM (fun i => Prim.get f.hypergraph.nodes i)
    let tgt ← e.targets.mapM (fun i => Prim.get f.hypergraph.nodes i)
    let img ← F.mapOperation p.1 src tgt
    pure (LOHG.tensorAssign acc img)) (LOHG.empty : LOHG O2 A2)

def mapObjectsL (F : LFunctor O1 A1 O2 A2) (f : LOHG O1 A1) : List (List O2) :=
  f.hypergraph.nodes.map F.mapObject

def spiderMapArrowL (f : LOHG O1 A1) (fw : List (List O2)) (fx : LOHG O2 A2) : Res (LOHG O2 A2) := do
  let flat := fw.flatten
  let total := flat.length
  let fs ← mapHalfSpiderL fw f.sources
  let ft ← mapHalfSpiderL fw f.targets
  let es ← mapHalfSpiderL fw (f.hypergraph.adjacency.flatMap (·.sources))
  let et ← mapHalfSpiderL fw (f.hypergraph.adjacency.flatMap (·.targets))
  let idf ← FinFun.identity total
  let i : LOHG O2 A2 := LOHG.identity flat
  let sxT ← FinFun.coproduct idf es
  let sx ← (LOHG.spider fs sxT flat : Res (LOHG O2 A2))
  let ytS ← FinFun.coproduct idf et
  let yt ← (LOHG.spider ytS ft flat : Res (LOHG O2 A2))
  let a ← LOHG.laxCompose sx (LOHG.tensor i fx)
  LOHG.laxCompose a yt

/-- `try_define_map_arrow`: refuses diagrams with pending unifications -/
def tryMapArrow (F : LFunctor O1 A1 O2 A2) (f : LOHG O1 A1) : Res (LOHG O2 A2) :=
  if !f.hypergraph.isStrict then .none
  else do
    let fx ← mapOperationsL F f
    let fw := mapObjectsL F f
    spiderMapArrowL f fw fx

/-- `map_arrow_witness` -/
def mapArrowWitness (F : LFunctor O1 A1 O2 A2) (f : LOHG O1 A1) : Res (LOHG O2 A2 × IC FinFun) :=
  if !f.hypergraph.isStrict then .none
  else do
    let fx ← mapOperationsL F f
    let fw := mapObjectsL F f
    let result ← spiderMapArrowL f fw fx
    let n := Prim.sum (fw.map List.length)
    let wv ← FinFun.new (List.range' n n) result.hypergraph.nodes.length
    let sizes ← FinFun.new (fw.map List.length) (n + 1)
    let w ← IC.new sizes wv
    pure (result, w)

/-- the lax identity functor -/
def identityL {O A : Type} : LFunctor O A O A where
  mapObject := fun o => [o]
  mapOperation := fun a s t => .ok (LOHG.singleton a s t)

end LFunctor

/-! ### optics (src/strict/functor/optic.rs, src/lax/optic.rs) -/

structure SOptic (O1 A1 O2 A2 : Type) where
  fwd : SFunctor O1 A1 O2 A2
  rev : SFunctor O1 A1 O2 A2
  residual : Operations O1 A1 → Res (IC (List O2))

namespace SOptic
variable {O1 A1 O2 A2 : Type}

def interleaveBlocks [DecidableEq O2] (a b : IC (List O2)) : Res (OHG O2 A2) :=
  if a.len ≠ b.len then .panic "interleave_blocks:unequal"
  else do
    let ab ← (IC.coproduct a b).unwrap "interleave_blocks:expect"
    let s ← FinFun.identity ab.values.length
    let tr ← FinFun.transpose 2 a.len
    let t ← (FinFun.injections ab.sources tr).unwrap "interleave_blocks:unwrap-injections"
    (OHG.spider s t ab.values : Res (OHG O2 A2)).unwrap "interleave_blocks:unwrap-spider"

def partialDagger (c : OHG O2 A2) (fa fb ra rb : IC (List O2)) : Res (OHG O2 A2) := do
  let i0 ← FinFun.inj0 fa.values.length rb.values.length
  let sI ← (FinFun.compose i0 c.s).unwrap "partial_dagger:unwrap-s_i"
  let i1 ← FinFun.inj1 fb.values.length ra.values.length
  let sO ← (FinFun.compose i1 c.t).unwrap "partial_dagger:unwrap-s_o"
  let s ← (FinFun.coproduct sI sO).unwrap "partial_dagger:unwrap-s"
  let j0 ← FinFun.inj0 fb.values.length ra.values.length
  let tI ← (FinFun.compose j0 c.t).unwrap "partial_dagger:unwrap-t_i"
  let j1 ← FinFun.inj1 fa.values.length rb.values.length
  let tO ← (FinFun.compose j1 c.s).unwrap "partial_dagger:unwrap-t_o"
  let t ← (FinFun.coproduct tI tO).unwrap "partial_dagger:unwrap-t"
  match OHG.new s t c.h with
  | .ok r => pure r
  | .error _ => .panic "partial_dagger:unwrap-new"

def mapObject (P : SOptic O1 A1 O2 A2) (a : List O1) : Res (IC (List O2)) := do
  let fa ← P.fwd.mapObject a
  let ra ← P.rev.mapObject a
  if fa.len ≠ ra.len then .panic "optic.map_object:assert"
  else do
    let n := fa.len
    let paired ← (IC.coproduct fa ra).unwrap "optic.map_object:expect"
    let p ← FinFun.transpose 2 n
    let st ← Prim.add fa.sources.table ra.sources.table
    let tgt ← checkedSub (fa.sources.target + ra.sources.target) 1 "optic.map_object:underflow"
    let sources ← (FinFun.new st tgt).unwrap "optic.map_object:unwrap-sources"
    let values ← (IC.indexedValues paired p).unwrap "optic.map_object:unwrap-values"
    (IC.new sources values).unwrap "optic.map_object:unwrap-new"

def mapOperations [DecidableEq O2] (B : Backend) (P : SOptic O1 A1 O2 A2) (ops : Operations O1 A1) :
    Res (OHG O2 A2) := do
  let fwd ← P.fwd.mapOperations ops
  let rev ← P.rev.mapOperations ops
  let fa ← P.fwd.mapObject ops.a.values
  let fb ← P.fwd.mapObject ops.b.values
  let ra ← P.rev.mapObject ops.a.values
  let rb ← P.rev.mapObject ops.b.values
  let m ← P.residual ops
  let bfb ← IC.flatmapSources ops.b fb
  let fwdIl0 ← (interleaveBlocks bfb m : Res (OHG O2 A2))
  let fwdInterleave := fwdIl0.dagger
  let brb ← IC.flatmapSources ops.b rb
  let revCointerleave ← (interleaveBlocks m brb : Res (OHG O2 A2))
  let iFb ← (OHG.identity fb.values : Res (OHG O2 A2))
  let iRb ← (OHG.identity rb.values : Res (OHG O2 A2))
  let l1 ← (OHG.compose B fwd fwdInterleave).unwrap "optic.map_operations:unwrap-lhs"
  let lhs ← OHG.tensor l1 iRb
  let r1 ← (OHG.compose B revCointerleave rev).unwrap "optic.map_operations:unwrap-rhs"
  let rhs ← OHG.tensor iFb r1
  let c ← (OHG.compose B lhs rhs).unwrap "optic.map_operations:unwrap-c"
  let d ← partialDagger c fa fb ra rb
  let il0 ← (interleaveBlocks fa ra : Res (OHG O2 A2))
  let lhs2 := il0.dagger
  let rhs2 ← (interleaveBlocks fb rb : Res (OHG O2 A2))
  let e ← (OHG.compose B lhs2 d).unwrap "optic.map_operations:unwrap-final1"
  (OHG.compose B e rhs2).unwrap "optic.map_operations:unwrap-final2"

/-- the optic as a strict functor -/
def toFunctor [DecidableEq O2] (B : Backend) (P : SOptic O1 A1 O2 A2) : SFunctor O1 A1 O2 A2 where
  mapObject := P.mapObject
  mapOperations := P.mapOperations B

def adapt [DecidableEq O2] (B : Backend) (P : SOptic O1 A1 O2 A2) (c : OHG O2 A2) (a b : List O1) :
    Res (OHG O2 A2) := do
  let fa ← P.fwd.mapObject a
  let fb ← P.fwd.mapObject b
  let ra ← P.rev.mapObject a
  let rb ← P.rev.mapObject b
  let lhs ← (interleaveBlocks fa ra : Res (OHG O2 A2))
  let r0 ← (interleaveBlocks fb rb : Res (OHG O2 A2))
  let rhs := r0.dagger
  let d1 ← (OHG.compose B lhs c).unwrap "adapt:unwrap1"
  let d ← (OHG.compose B d1 rhs).unwrap "adapt:unwrap2"
  partialDagger d fa fb rb ra

end SOptic

/-- a lax optic, generator-wise (trait `lax::optic::Optic`) -/
structure LOptic (O1 A1 O2 A2 : Type) where
  fwdObject : O1 → List O2
  fwdOperation : A1 → List O1 → List O1 → Res (LOHG O2 A2)
  revObject : O1 → List O2
  revOperation : A1 → List O1 → List O1 → Res (LOHG O2 A2)
  residual : A1 → List O2

namespace LOptic
variable {O1 A1 O2 A2 : Type}

def toStrictOptic [DecidableEq O2] (B : Backend) (P : LOptic O1 A1 O2 A2) : SOptic O1 A1 O2 A2 where
  fwd := LFunctor.toDyn B ⟨P.fwdObject, P.fwdOperation⟩
  rev := LFunctor.toDyn B ⟨P.revObject, P.revOperation⟩
  residual := fun ops =>
    let ms := ops.x.map P.residual
    (IC.fromSemifinite (ms.map List.length) ms.flatten).unwrap "optic.residual:unwrap"

def mapArrow [DecidableEq O1] [DecidableEq O2] (B : Backend) (P : LOptic O1 A1 O2 A2)
    (term : LOHG O1 A1) : Res (LOHG O2 A2) := do
  let strict ← LOHG.toStrict B term
  let r ← SFunctor.mapArrow B ((toStrictOptic B P).toFunctor B) strict
  LOHG.fromStrict r

def mapAdapted [DecidableEq O1] [DecidableEq O2] (B : Backend) (P : LOptic O1 A1 O2 A2)
    (term : LOHG O1 A1) : Res (LOHG O2 A2) := do
  let strict ← LOHG.toStrict B term
  let sp := toStrictOptic B P
  let ot ← SFunctor.mapArrow B (sp.toFunctor B) strict
  let a ← strict.source
  let b ← strict.target
  let r ← sp.adapt B ot a b
  LOHG.fromStrict r

end LOptic

/-! ### Var-built terms and forgetting (src/lax/var) -/

namespace Var

/-- after the repair: every element equals the first element of `a ++ b` -/
def allElementsEqual {T : Type} [DecidableEq T] (a b : List T) : Bool :=
  match a ++ b with
  | [] => true
  | x :: rest => rest.all (· = x)

/-- `Forget::map_operation` for the distinguished variable label `varLabel` -/
def forgetOperation {O A : Type} [DecidableEq O] [DecidableEq A] (varLabel : A) (a : A)
    (source target : List O) : Res (LOHG O A) :=
  if a = varLabel ∧ allElementsEqual source target then
    if source.isEmpty ∧ target.isEmpty then .ok LOHG.empty
    else
      match (if source.isEmpty then target.head? else source.head?) with
      | Option.none => .panic "forget:index"
      | some label =>
        (LOHG.spider (FinFun.terminal source.length) (FinFun.terminal target.length) [label]).unwrap
          "forget:unwrap-spider"
  else .ok (LOHG.singleton a source target)

def forgetMonogamousOperation {O A : Type} [DecidableEq O] [DecidableEq A] (varLabel : A) (a : A)
    (source target : List O) : Res (LOHG O A) :=
  if source.length ≠ 1 ∨ target.length ≠ 1 then .ok (LOHG.singleton a source target)
  else forgetOperation varLabel a source target

end Var
end OH
