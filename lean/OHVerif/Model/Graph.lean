/-
  Graph routines, layering, evaluation, acyclicity, morphisms and convexity
  (src/strict/graph.rs, layer.rs, eval.rs, hypergraph/acyclic.rs, hypergraph/arrow.rs).
  IMPORT-FREE.
-/
import OHVerif.Model.Strict

namespace OH
namespace Graph
open Prim

/-- `converse` of a relation given as a segmented array -/
def converse (B : Backend) (r : IC FinFun) : Res (IC FinFun) := do
  let ar ← arange 0 r.sources.source
  let unsorted ← «repeat» r.sources.table ar
  let valuesTable ← sortBy B unsorted r.values.table
  let sourcesTable ← bincount r.values.table r.values.target
  let sources ← (FinFun.new sourcesTable (r.values.table.length + 1)).unwrap "converse:unwrap-sources"
  let values ← (FinFun.new valuesTable r.len).unwrap "converse:unwrap-values"
  (IC.new sources values).unwrap "converse:unwrap-new"

variable {O A : Type}

def operationAdjacency (B : Backend) (h : HG O A) : Res (IC FinFun) := do
  let c ← converse B h.s
  IC.flatmap h.t c

def nodeAdjacencyFromIncidence (B : Backend) (s t : IC FinFun) : Res (IC FinFun) := do
  let c ← converse B s
  IC.flatmap c t

def nodeAdjacency (B : Backend) (h : HG O A) : Res (IC FinFun) :=
  nodeAdjacencyFromIncidence B h.s h.t

/-- after the repair: the count map's codomain is (number of adjacency entries) + 1 -/
def denseRelativeIndegree (adj : IC FinFun) (f : FinFun) : Res FinFun :=
  if adj.len ≠ f.target then .panic "dense_relative_indegree:assert"
  else do
    let reached ← (IC.indexedValues adj f).unwrap "dense_relative_indegree:unwrap"
    let target := adj.values.source + 1
    let table ← bincount reached.table adj.len
    (FinFun.new table target).unwrap "dense_relative_indegree:unwrap-new"

def indegree (adj : IC FinFun) : Res FinFun := do
  let i ← FinFun.identity adj.len
  denseRelativeIndegree adj i

def sparseRelativeIndegree (B : Backend) (a : IC FinFun) (f : FinFun) : Res (FinFun × FinFun) :=
  if a.len ≠ f.target then .panic "sparse_relative_indegree:assert"
  else do
    let g ← (IC.indexedValues a f).unwrap "sparse_relative_indegree:unwrap"
    let (i, c) := sparseBincount B g.table
    let target := a.values.source + 1
    let fi ← (FinFun.new i a.len).unwrap "sparse_relative_indegree:unwrap-i"
    let fc ← (FinFun.new c target).unwrap "sparse_relative_indegree:unwrap-c"
    pure (fi, fc)

/-- `filter(values, predicate) = predicate.repeat(values)` -/
def filter (values predicate : List Nat) : Res (List Nat) := «repeat» predicate values

structure KahnState where
  order : List Nat
  unvisited : List Nat
  indegree : List Nat
  frontier : List Nat
  depth : Nat

/-- one iteration of the `while` body -/
def kahnStep (B : Backend) (adj : IC FinFun) (st : KahnState) : Res KahnState := do
  let unvisited ← scatterAssignConstant st.unvisited st.frontier 0
  let order ← scatterAssignConstant st.order st.frontier st.depth
  let ff ← (FinFun.new st.frontier adj.len).unwrap "kahn:unwrap-frontier"
  let (rix, rcount) ← sparseRelativeIndegree B adj ff
  let indeg ← scatterSubAssign st.indegree rix.table rcount.table
  let atIx ← gather indeg rix.table
  let zeroIx := zero atIx
  let fr0 ← gather rix.table zeroIx
  let unv ← gather unvisited fr0
  let fr ← filter fr0 unv
  pure ⟨order, unvisited, indeg, fr, st.depth + 1⟩

/-- the `while !frontier.is_empty() && depth <= n` loop; `fuel` counts the iterations the guard
    `depth ≤ n` can still admit -/
def kahnLoop (B : Backend) (adj : IC FinFun) : Nat → KahnState → Res KahnState
  | 0, st => .ok st
  | fuel + 1, st =>
    if st.frontier.isEmpty ∨ ¬ (st.depth ≤ adj.len) then .ok st
    else (kahnStep B adj st) >>= kahnLoop B adj fuel

def kahn (B : Backend) (adj : IC FinFun) : Res (List Nat × List Nat) := do
  let n := adj.len
  let ind ← indegree adj
  let st0 : KahnState := ⟨List.replicate n 0, List.replicate n 1, ind.table, zero ind.table, 0⟩
  let st ← kahnLoop B adj (n + 2) st0
  pure (st.order, st.unvisited)

/-- `converse_iter(order)`: the list of operations in each layer -/
def converseIter (B : Backend) (order : FinFun) : Res (List (List Nat)) := do
  let e ← IC.elements order
  let c ← converse B e
  let tr ← IC.iterTrace (c.len + 1) (IC.intoIter c.sources.table c.values.table)
  pure (tr.map (·.1))

def layer (B : Backend) (f : OHG O A) : Res (FinFun × List Nat) := do
  let a ← operationAdjacency B f.h
  let (ordering, completed) ← kahn B a
  let o ← (FinFun.new ordering f.h.x.length).unwrap "layer:unwrap"
  pure (o, completed)

def layeredOperations (B : Backend) (f : OHG O A) : Res (List (List Nat) × List Nat) := do
  let (order, unvisited) ← layer B f
  let groups ← converseIter B order
  pure (groups, unvisited)

def isAcyclic (B : Backend) (h : HG O A) : Res Bool :=
  if h.w.length = 0 then .ok true
  else do
    let adj ← nodeAdjacency B h
    let (_, unvisited) ← kahn B adj
    pure (Prim.sum unvisited == 0)

/-! ### evaluation -/

/-- the user's interpreter: labels of the selected operations and their argument lists, as a
    segmented array; returns the segmented array of results -/
abbrev Apply (A T : Type) := List A → IC (List T) → IC (List T)

def evalOrder {T : Type} (f : OHG O A) (dflt : T) (s : List T) (order : List (List Nat))
    (apply : Apply A T) : Res (List T × List T) := do
  let mem0 := List.replicate f.h.w.length dflt
  let mem1 ← scatterAssign mem0 f.s.table s
  let mem ← order.foldlM (fun mem opIx => do
      let opFF : FinFun := ⟨opIx, f.h.x.length⟩
      let labels ← (FinFun.composeSemi opFF f.h.x).unwrap "eval:unwrap-labels"
      let inIdx ← (IC.mapIndexes f.h.s opFF).unwrap "eval:unwrap-in-indexes"
      let inVals ← (IC.mapSemifinite inIdx mem).unwrap "eval:unwrap-in-values"
      let outputs := apply labels inVals
      let outIdx ← (IC.mapIndexes f.h.t opFF).unwrap "eval:unwrap-out-indexes"
      scatterAssign mem outIdx.values.table outputs.values) mem1
  let outs ← gather mem f.t.table
  pure (mem, outs)

def eval {T : Type} (B : Backend) (f : OHG O A) (dflt : T) (s : List T) (apply : Apply A T) :
    Res (List T) := do
  let (order, unvisited) ← layer B f
  let layering ← converseIter B order
  if (Prim.max unvisited).getD 0 = 0 then do
    let (_, outs) ← evalOrder f dflt s layering apply
    pure outs
  else .none

/-! ### hypergraph morphisms -/

inductive ArrowErr where
  | typeMismatchW | typeMismatchX | notNaturalW | notNaturalX | notNaturalS | notNaturalT
  deriving Repr, DecidableEq

structure HArrow (O A : Type) where
  source : HG O A
  target : HG O A
  w : FinFun
  x : FinFun

/-- result of an `Option` step mapped to an error variant (`ok_or`) -/
def okOr {α : Type} (r : Res α) (e : ArrowErr) : Res (Except ArrowErr α) :=
  match r with
  | .ok a => .ok (.ok a)
  | .none => .ok (.error e)
  | .panic s => .panic s

def HArrow.validate [DecidableEq O] [DecidableEq A] (m : HArrow O A) : Res (Except ArrowErr Unit) := do
  let g := m.source
  let h := m.target
  match ← okOr (FinFun.composeSemi m.w h.w) .typeMismatchW with
  | .error e => pure (.error e)
  | .ok cw =>
  if g.w ≠ cw then pure (.error .notNaturalW) else
  match ← okOr (FinFun.composeSemi m.x h.x) .typeMismatchX with
  | .error e => pure (.error e)
  | .ok cx =>
  if g.x ≠ cx then pure (.error .notNaturalX) else
  match ← okOr (IC.mapValues g.s m.w) .notNaturalS with
  | .error e => pure (.error e)
  | .ok sl =>
  match ← okOr (IC.mapIndexes h.s m.x) .notNaturalS with
  | .error e => pure (.error e)
  | .ok sr =>
  if sl ≠ sr then pure (.error .notNaturalS) else
  match ← okOr (IC.mapValues g.t m.w) .notNaturalT with
  | .error e => pure (.error e)
  | .ok tl =>
  match ← okOr (IC.mapIndexes h.t m.x) .notNaturalT with
  | .error e => pure (.error e)
  | .ok tr =>
  if tl ≠ tr then pure (.error .notNaturalT) else pure (.ok ())

def HArrow.isMonomorphism (m : HArrow O A) : Res Bool := do
  let a ← FinFun.isInjective m.w
  if a then FinFun.isInjective m.x else pure false

def successors (B : Backend) (adj : IC FinFun) (frontier : List Nat) : Res (List Nat) :=
  if frontier.isEmpty then .ok []
  else do
    let f ← (FinFun.new frontier adj.len).unwrap "successors:unwrap"
    let (g, _) ← sparseRelativeIndegree B adj f
    pure g.table

def filterUnvisited (visited candidates : List Nat) : Res (List Nat) :=
  if candidates.isEmpty then .ok []
  else do
    let v ← gather visited candidates
    gather candidates (zero v)

structure ConvexState where
  visited0 : List Nat
  visited1 : List Nat
  frontier0 : List Nat
  frontier1 : List Nat

/-- the two-layer search loop; `fuel` bounds the iterations (each round marks a new
    (node, layer) pair, so `2n + 2` rounds suffice; running out is reported as a panic site) -/
def convexLoop (B : Backend) (adjIn adjOut adjAll : IC FinFun) : Nat → ConvexState → Res ConvexState
  | 0, st => if st.frontier0.isEmpty ∧ st.frontier1.isEmpty then .ok st else .panic "convex:fuel"
  | fuel + 1, st =>
    if st.frontier0.isEmpty ∧ st.frontier1.isEmpty then .ok st
    else do
      let next0 ← successors B adjIn st.frontier0
      let next1From0 ← successors B adjOut st.frontier0
      let next1From1 ← successors B adjAll st.frontier1
      let next0 ← filterUnvisited st.visited0 next0
      let merged := next1From0 ++ next1From1
      let next1 ← (if merged.isEmpty then .ok []
        else filterUnvisited st.visited1 (sparseBincount B merged).1)
      if next0.isEmpty ∧ next1.isEmpty then .ok st
      else do
        let v0 ← scatterAssignConstant st.visited0 next0 1
        let v1 ← scatterAssignConstant st.visited1 next1 1
        convexLoop B adjIn adjOut adjAll fuel ⟨v0, v1, next0, next1⟩

def HArrow.isConvexSubgraph (B : Backend) (m : HArrow O A) : Res Bool := do
  let mono ← m.isMonomorphism
  if !mono then pure false
  else do
    let g := m.target
    let nNodes := g.w.length
    let nEdges := g.x.length
    let mask ← scatterAssignConstant (List.replicate nEdges 0) m.x.table 1
    let outsideIx := zero mask
    let outside ← (FinFun.new outsideIx nEdges).unwrap "convex:unwrap-outside"
    let sIn ← (IC.mapIndexes g.s m.x).unwrap "convex:unwrap-s-in"
    let tIn ← (IC.mapIndexes g.t m.x).unwrap "convex:unwrap-t-in"
    let adjIn ← nodeAdjacencyFromIncidence B sIn tIn
    let sOut ← (IC.mapIndexes g.s outside).unwrap "convex:unwrap-s-out"
    let tOut ← (IC.mapIndexes g.t outside).unwrap "convex:unwrap-t-out"
    let adjOut ← nodeAdjacencyFromIncidence B sOut tOut
    let adjAll ← nodeAdjacency B g
    let v0 ← scatterAssignConstant (List.replicate nNodes 0) m.w.table 1
    let st0 : ConvexState := ⟨v0, List.replicate nNodes 0, m.w.table, []⟩
    let st ← convexLoop B adjIn adjOut adjAll (2 * nNodes + 2) st0
    let reached ← gather st.visited1 m.w.table
    pure (!(match Prim.max reached with | some mx => decide (mx ≥ 1) | Option.none => false))

end Graph
end OH
