/-
  Segmented arrays (src/indexed_coproduct/arrow.rs, iterator.rs, semifinite_iterator.rs)
  and operation batches (src/operations.rs).  IMPORT-FREE.
-/
import OHVerif.Model.FinFun

namespace OH

/-- `IndexedCoproduct<K, F>`; `V` is `FinFun` or a label array `List α` -/
structure IC (V : Type) where
  sources : FinFun
  values : V
  deriving Repr

instance {V : Type} [DecidableEq V] : DecidableEq (IC V) := fun a b =>
  match a, b with
  | ⟨s1, v1⟩, ⟨s2, v2⟩ =>
    if h : s1 = s2 ∧ v1 = v2 then isTrue (by cases h; subst_vars; rfl)
    else isFalse (by intro e; cases e; exact h ⟨rfl, rfl⟩)

/-- the "length" a value array reports through `HasLen` -/
class HasLen (V : Type) where
  len : V → Nat

instance : HasLen FinFun := ⟨FinFun.source⟩
instance {α : Type} : HasLen (List α) := ⟨List.length⟩

namespace IC
open Prim

variable {V : Type}

@[inline] def len (c : IC V) : Nat := c.sources.source

/-- the invariant checked by `validate` -/
def valid [HasLen V] (c : IC V) : Bool :=
  let s := Prim.sum c.sources.table
  decide (c.sources.target = s + 1) && decide (s = HasLen.len c.values)

def validate [HasLen V] (c : IC V) : Res (IC V) := if c.valid then .ok c else .none

def new [HasLen V] (sources : FinFun) (values : V) : Res (IC V) := validate ⟨sources, values⟩

def fromSemifinite [HasLen V] (sources : List Nat) (values : V) : Res (IC V) := do
  let s ← FinFun.new sources (HasLen.len values + 1)
  validate ⟨s, values⟩

def singleton [HasLen V] (values : V) : IC V :=
  ⟨FinFun.constant 1 (HasLen.len values) 0, values⟩

def elements [HasLen V] (values : V) : Res (IC V) := do
  let n := HasLen.len values
  let s ← (FinFun.new (List.replicate n 1) (n + 1)).unwrap "elements:unwrap"
  (new s values).unwrap "elements:expect"

def initial (target : Nat) : IC FinFun := ⟨FinFun.initial 1, FinFun.initial target⟩

def flatmapSources {W : Type} [HasLen V] (c : IC V) (other : IC W) : Res (IC W) :=
  if HasLen.len c.values = other.len then do
    let t ← segmentedSum c.sources.table other.sources.table
    pure ⟨⟨t, other.sources.target⟩, other.values⟩
  else .panic "flatmap_sources:assert"

def tensor (c d : IC FinFun) : Res (IC FinFun) := do
  let tgt ← checkedSub (c.sources.target + d.sources.target) 1 "ic.tensor:underflow"
  pure ⟨⟨c.sources.table ++ d.sources.table, tgt⟩, FinFun.tensor c.values d.values⟩

def mapValues (c : IC FinFun) (x : FinFun) : Res (IC FinFun) := do
  let v ← FinFun.compose c.values x
  pure ⟨c.sources, v⟩

def mapSemifinite {α : Type} (c : IC FinFun) (x : List α) : Res (IC (List α)) := do
  let v ← FinFun.composeSemi c.values x
  pure ⟨c.sources, v⟩

def flatmap (c other : IC FinFun) : Res (IC FinFun) :=
  if c.values.target = other.len then do
    let k ← (FinFun.compose c.values other.sources).unwrap "flatmap:unwrap1"
    let st ← segmentedSum c.sources.table k.table
    let inj ← (FinFun.injections other.sources c.values).unwrap "flatmap:unwrap2"
    let v ← (FinFun.compose inj other.values).unwrap "flatmap:unwrap3"
    (fromSemifinite st v).unwrap "flatmap:unwrap4"
  else .panic "flatmap:assert"

/-- value arrays that a finite function can be pre-composed with and that can be concatenated -/
class Vals (V : Type) extends HasLen V where
  precomp : FinFun → V → Res V
  coprod : V → V → Res V

instance : Vals FinFun := { precomp := FinFun.compose, coprod := FinFun.coproduct }
instance {α : Type} : Vals (List α) :=
  { precomp := FinFun.composeSemi, coprod := fun a b => .ok (a ++ b) }

def coproduct [Vals V] (c d : IC V) : Res (IC V) := do
  let tgt ← checkedSub (c.sources.target + d.sources.target) 1 "ic.coproduct:underflow"
  let v ← Vals.coprod c.values d.values
  pure ⟨⟨c.sources.table ++ d.sources.table, tgt⟩, v⟩

def indexedValues [Vals V] (c : IC V) (x : FinFun) : Res V := do
  let inj ← FinFun.injections c.sources x
  Vals.precomp inj c.values

def mapIndexes [Vals V] (c : IC V) (x : FinFun) : Res (IC V) := do
  let s ← FinFun.compose x c.sources
  let v ← indexedValues c x
  fromSemifinite s.table v

/-! ### iterators as state machines -/

/-- state of `IndexedCoproduct*Iterator`: pointers, flat values, index -/
structure IterState (α : Type) where
  pointers : List Nat
  values : List α
  index : Nat

def intoIter {α : Type} (sizes : List Nat) (values : List α) : IterState α :=
  ⟨cumulativeSum sizes, values, 0⟩

/-- `next`: `None` at the end, otherwise the slice and the advanced state -/
def IterState.next {α : Type} (st : IterState α) : Res (Option (List α) × IterState α) := do
  let lim ← checkedSub st.pointers.length 1 "iter.next:underflow"
  if st.index ≥ lim then pure (Option.none, st)
  else do
    let a ← get st.pointers st.index
    let b ← get st.pointers (st.index + 1)
    let sl ← slice st.values a b
    pure (some sl, { st with index := st.index + 1 })

/-- `ExactSizeIterator::len` / `size_hint` (after the repair: slices still to come) -/
def IterState.remaining {α : Type} (st : IterState α) : Res Nat := do
  let lim ← checkedSub st.pointers.length 1 "iter.len:underflow"
  checkedSub lim st.index "iter.len:underflow2"

/-- run `next` until `None` (at most `fuel` times), recording `(item, len-after)` -/
def iterTrace {α : Type} : Nat → IterState α → Res (List (List α × Nat))
  | 0, _ => .ok []
  | fuel + 1, st => do
    let (item, st') ← st.next
    match item with
    | Option.none => pure []
    | some sl => do
      let r ← st'.remaining
      let rest ← iterTrace fuel st'
      pure ((sl, r) :: rest)

/-- the borrowed slice iterator `IndexedCoproduct<VecKind, SemifiniteFunction>::iter` -/
def sliceIter {α : Type} (c : IC (List α)) : Res (List (List α)) := do
  let p := cumulativeSum c.sources.table
  let n ← checkedSub p.length 1 "iter:underflow"
  (List.range n).mapM (fun i => do
    let a ← get p i
    let b ← get p (i + 1)
    slice c.values a b)

end IC

/-- `Operations<K, O, A>` -/
structure Operations (O A : Type) where
  x : List A
  a : IC (List O)
  b : IC (List O)

namespace Operations
variable {O A : Type}

def validate (ops : Operations O A) : Res (Operations O A) :=
  if ops.x.length ≠ ops.a.len ∨ ops.x.length ≠ ops.b.len then .none else .ok ops

def new (x : List A) (a b : IC (List O)) : Res (Operations O A) := validate ⟨x, a, b⟩

def singleton (x : A) (a b : List O) : Operations O A := ⟨[x], IC.singleton a, IC.singleton b⟩

/-- `iter`: zip of labels with the two slice iterators -/
def iter (ops : Operations O A) : Res (List (A × List O × List O)) := do
  let sa ← IC.sliceIter ops.a
  let sb ← IC.sliceIter ops.b
  pure ((ops.x.zip (sa.zip sb)))

end Operations

end OH
