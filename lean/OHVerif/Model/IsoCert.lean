/-
  Certified isomorphism oracle: the (untrusted, `partial`) search produces explicit node and edge
  maps, and a small TOTAL checker `certOk` validates them.  `Props/IsoCert.lean` proves
  `certOk P Q π ρ = true → P ≅ Q`, so a verdict "agree up to isomorphism" never rests on the search.
  IMPORT-FREE.
-/
import OHVerif.Model.Plain

namespace OH
namespace IsoCert

variable {O A : Type} [BEq O] [BEq A]

/-- `π` (as a list: node `i ↦ π[i]`) and `ρ` (edge `e ↦ ρ[e]`) certify `P ≅ Q` -/
def certOk (P Q : PDiag O A) (π ρ : List Nat) : Bool :=
  let n := P.nodes.length
  let m := P.edges.length
  π.length == n && Q.nodes.length == n &&
  ρ.length == m && Q.edges.length == m &&
  π.all (· < n) && ρ.all (· < m) &&
  -- injective lists of the right length over [0,n) are bijections
  π.eraseDups.length == n && ρ.eraseDups.length == m &&
  (List.range n).all (fun i =>
    match P.nodes[i]?, Q.nodes[π.getD i 0]? with
    | some a, some b => a == b
    | _, _ => false) &&
  (List.range m).all (fun e =>
    match P.edges[e]?, Q.edges[ρ.getD e 0]? with
    | some pe, some qe =>
      qe.label == pe.label && qe.src == pe.src.map (fun v => π.getD v 0) &&
      qe.tgt == pe.tgt.map (fun v => π.getD v 0)
    | _, _ => false) &&
  Q.ins == P.ins.map (fun v => π.getD v 0) && Q.outs == P.outs.map (fun v => π.getD v 0)

structure St where
  fwd : Array (Option Nat)
  usedN : Array Bool
  emap : Array (Option Nat)   -- P-edge ↦ Q-edge
  usedE : Array Bool
  steps : Nat

instance : Inhabited St := ⟨⟨#[], #[], #[], #[], 0⟩⟩

def bind1 (st : St) (i j : Nat) : Option St :=
  match st.fwd[i]? with
  | some (some j') => if j' == j then some st else none
  | some Option.none =>
    match st.usedN[j]? with
    | some false => some { st with fwd := st.fwd.set! i (some j), usedN := st.usedN.set! j true }
    | _ => none
  | Option.none => none

def bindList (st : St) : List Nat → List Nat → Option St
  | [], [] => some st
  | i :: is, j :: js => (bind1 st i j).bind fun st' => bindList st' is js
  | _, _ => none

/-- complete the partial node map on the unreferenced nodes by matching labels greedily -/
def completeNodes (P Q : PDiag O A) (st : St) : Option (List Nat) :=
  let n := P.nodes.length
  let rec go (i : Nat) (fuel : Nat) (st : St) : Option St :=
    match fuel with
    | 0 => some st
    | fuel + 1 =>
      if i ≥ n then some st
      else match st.fwd[i]? with
        | some (some _) => go (i + 1) fuel st
        | _ =>
          -- first unused node of Q with the same label
          match (List.range n).find? (fun j => st.usedN[j]? == some false &&
                  (match P.nodes[i]?, Q.nodes[j]? with | some a, some b => a == b | _, _ => false)) with
          | some j => go (i + 1) fuel { st with fwd := st.fwd.set! i (some j), usedN := st.usedN.set! j true }
          | Option.none => Option.none
  (go 0 (n + 1) st).bind fun st' =>
    (List.range n).mapM (fun i => (st'.fwd[i]?).join)

inductive Verdict where
  | iso (π ρ : List Nat) | notIso | inconclusive
  deriving Inhabited

partial def matchEdges (P Q : PDiag O A) (budget : Nat) (ei : Nat) (st : St) : Verdict × Nat :=
  if st.steps > budget then (.inconclusive, st.steps)
  else if h : ei < P.edges.length then
    let e := P.edges[ei]
    let rec tryFrom (k : Nat) (steps : Nat) (sawInconclusive : Bool) : Verdict × Nat :=
      if hk : k < Q.edges.length then
        let e' := Q.edges[k]
        if st.usedE[k]? == some false && e'.label == e.label &&
           e'.src.length == e.src.length && e'.tgt.length == e.tgt.length then
          let st1 := { st with steps := steps + 1 }
          match (bindList st1 e.src e'.src).bind (fun s => bindList s e.tgt e'.tgt) with
          | some st2 =>
            let st3 := { st2 with usedE := st2.usedE.set! k true, emap := st2.emap.set! ei (some k) }
            match matchEdges P Q budget (ei + 1) st3 with
            | (.iso π ρ, s) => (.iso π ρ, s)
            | (.inconclusive, s) => tryFrom (k + 1) s true
            | (.notIso, s) => tryFrom (k + 1) s sawInconclusive
          | Option.none => tryFrom (k + 1) (steps + 1) sawInconclusive
        else tryFrom (k + 1) steps sawInconclusive
      else (if sawInconclusive then .inconclusive else .notIso, steps)
    tryFrom 0 st.steps false
  else
    match completeNodes P Q st, (List.range P.edges.length).mapM (fun e => (st.emap[e]?).join) with
    | some π, some ρ => if certOk P Q π ρ then (.iso π ρ, st.steps) else (.notIso, st.steps)
    | _, _ => (.notIso, st.steps)

/-- search for an isomorphism; an `.iso π ρ` answer always satisfies `certOk P Q π ρ` -/
def check (P Q : PDiag O A) (budget : Nat := 200000) : Verdict :=
  if P.n != Q.n || P.edges.length != Q.edges.length ||
     P.ins.length != Q.ins.length || P.outs.length != Q.outs.length then .notIso
  else
    let st0 : St := ⟨Array.replicate P.n Option.none, Array.replicate Q.n false,
                     Array.replicate P.edges.length Option.none, Array.replicate Q.edges.length false, 0⟩
    match (bindList st0 P.ins Q.ins).bind (fun s => bindList s P.outs Q.outs) with
    | Option.none => .notIso
    | some st1 => (matchEdges P Q budget 0 st1).1

end IsoCert
end OH
