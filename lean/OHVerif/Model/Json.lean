/-
  The documented JSON form of a lax open hypergraph (README "serde" section; serde derives in
  src/lax/mod.rs, hypergraph.rs, open_hypergraph.rs) for `usize` labels, as the canonical text
  `serde_json::to_string(&serde_json::to_value(x))` prints it: compact, object keys in sorted order,
  `NodeId`/`EdgeId` as plain numbers, the quotient pair as a two-element array.

  `render` prints, `parse` is a recursive-descent reader of exactly that form (no whitespace, this
  key order).  `Props/C11Json.lean` proves `parse (render f) = some f` for every diagram, i.e. the
  documented text loses nothing.  IMPORT-FREE.
-/
import OHVerif.Model.Lax

namespace OH
namespace Json

abbrev LF := LOHG Nat Nat

/-! ### printing -/

def natStr (n : Nat) : List Char := Nat.toDigits 10 n

def commaSep : List (List Char) → List Char
  | [] => []
  | [x] => x
  | x :: y :: rest => x ++ ',' :: commaSep (y :: rest)

def renderArr (xs : List Nat) : List Char := '[' :: commaSep (xs.map natStr) ++ [']']

def renderEdge (e : LEdge) : List Char :=
  "{\"sources\":".toList ++ renderArr e.sources ++ ",\"targets\":".toList ++ renderArr e.targets ++ ['}']

def renderAdj (es : List LEdge) : List Char := '[' :: commaSep (es.map renderEdge) ++ [']']

def renderH (h : LHG Nat Nat) : List Char :=
  "{\"adjacency\":".toList ++ renderAdj h.adjacency ++
  ",\"edges\":".toList ++ renderArr h.edges ++
  ",\"nodes\":".toList ++ renderArr h.nodes ++
  ",\"quotient\":[".toList ++ renderArr h.quotient.1 ++ [','] ++ renderArr h.quotient.2 ++ "]}".toList

def render (f : LF) : List Char :=
  "{\"hypergraph\":".toList ++ renderH f.hypergraph ++
  ",\"sources\":".toList ++ renderArr f.sources ++
  ",\"targets\":".toList ++ renderArr f.targets ++ ['}']

/-! ### parsing -/

abbrev P (α : Type) := List Char → Option (α × List Char)

/-- consume exactly the given literal -/
def lit : List Char → P Unit
  | [], s => some ((), s)
  | c :: cs, d :: s => if c = d then lit cs s else none
  | _ :: _, [] => none

def digitVal (c : Char) : Option Nat :=
  if '0' ≤ c ∧ c ≤ '9' then some (c.toNat - '0'.toNat) else none

/-- consume digits, accumulating -/
def digits (acc : Nat) : List Char → Nat × List Char
  | [] => (acc, [])
  | c :: s => match digitVal c with
    | some d => digits (acc * 10 + d) s
    | none => (acc, c :: s)

/-- a JSON number as serde prints a `usize`: one or more digits, no leading zero unless it is `0` -/
def nat : P Nat
  | [] => none
  | c :: s => match digitVal c with
    | none => none
    | some d =>
      if d = 0 then
        -- "0" must not be followed by another digit
        match s with
        | c' :: _ => if (digitVal c').isSome then none else some (0, s)
        | [] => some (0, s)
      else some (digits d s)

/-- `x (',' x)*` closed by `close`; the fuel is the input length (every item consumes a character) -/
def itemsTail {α : Type} (item : P α) (close : Char) : Nat → List α → P (List α)
  | 0, _, _ => none
  | fuel + 1, acc, s =>
    match s with
    | c :: rest =>
      if c = close then some (acc, rest)
      else if c = ',' then
        match item rest with
        | some (x, rest') => itemsTail item close fuel (acc ++ [x]) rest'
        | none => none
      else none
    | [] => none

/-- `'[' (x (',' x)*)? ']'` -/
def array {α : Type} (item : P α) : P (List α)
  | '[' :: ']' :: s => some ([], s)
  | '[' :: s =>
    match item s with
    | some (x, rest) => itemsTail item ']' (rest.length + 1) [x] rest
    | none => none
  | _ => none

def natArr : P (List Nat) := array nat

def edge : P LEdge := fun s =>
  match lit "{\"sources\":".toList s with
  | none => none
  | some (_, s) =>
  match natArr s with
  | none => none
  | some (src, s) =>
  match lit ",\"targets\":".toList s with
  | none => none
  | some (_, s) =>
  match natArr s with
  | none => none
  | some (tgt, s) =>
  match lit ['}'] s with
  | none => none
  | some (_, s) => some (⟨src, tgt⟩, s)

def hyper : P (LHG Nat Nat) := fun s =>
  match lit "{\"adjacency\":".toList s with
  | none => none
  | some (_, s) =>
  match array edge s with
  | none => none
  | some (adj, s) =>
  match lit ",\"edges\":".toList s with
  | none => none
  | some (_, s) =>
  match natArr s with
  | none => none
  | some (edges, s) =>
  match lit ",\"nodes\":".toList s with
  | none => none
  | some (_, s) =>
  match natArr s with
  | none => none
  | some (nodes, s) =>
  match lit ",\"quotient\":[".toList s with
  | none => none
  | some (_, s) =>
  match natArr s with
  | none => none
  | some (q1, s) =>
  match lit [','] s with
  | none => none
  | some (_, s) =>
  match natArr s with
  | none => none
  | some (q2, s) =>
  match lit "]}".toList s with
  | none => none
  | some (_, s) => some (⟨nodes, edges, adj, (q1, q2)⟩, s)

def openH : P LF := fun s =>
  match lit "{\"hypergraph\":".toList s with
  | none => none
  | some (_, s) =>
  match hyper s with
  | none => none
  | some (h, s) =>
  match lit ",\"sources\":".toList s with
  | none => none
  | some (_, s) =>
  match natArr s with
  | none => none
  | some (src, s) =>
  match lit ",\"targets\":".toList s with
  | none => none
  | some (_, s) =>
  match natArr s with
  | none => none
  | some (tgt, s) =>
  match lit ['}'] s with
  | none => none
  | some (_, s) => some (⟨src, tgt, h⟩, s)

/-- the whole text must be one diagram -/
def parse (s : List Char) : Option LF :=
  match openH s with
  | some (f, []) => some f
  | _ => none

end Json
end OH
