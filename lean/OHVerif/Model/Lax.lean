/-
  Lax (imperative) hypergraphs and open hypergraphs
  (src/lax/hypergraph.rs, open_hypergraph.rs, category.rs, mut_category.rs).
  The model IS the plain list model of property C11.  IMPORT-FREE.
-/
import OHVerif.Model.Plain

namespace OH

structure LEdge where
  sources : List Nat
  targets : List Nat
  deriving Repr, DecidableEq

structure LHG (O A : Type) where
  nodes : List O
  edges : List A
  adjacency : List LEdge
  quotient : List Nat × List Nat
  deriving Repr

structure LOHG (O A : Type) where
  sources : List Nat
  targets : List Nat
  hypergraph : LHG O A
  deriving Repr

instance {O A : Type} [DecidableEq O] [DecidableEq A] : DecidableEq (LHG O A) := fun a b =>
  if h : a.nodes = b.nodes ∧ a.edges = b.edges ∧ a.adjacency = b.adjacency ∧ a.quotient = b.quotient
  then isTrue (by cases a; cases b; simp_all)
  else isFalse (by intro e; subst e; simp at h)

instance {O A : Type} [DecidableEq O] [DecidableEq A] : DecidableEq (LOHG O A) := fun a b =>
  if h : a.sources = b.sources ∧ a.targets = b.targets ∧ a.hypergraph = b.hypergraph
  then isTrue (by cases a; cases b; simp_all)
  else isFalse (by intro e; subst e; simp at h)

namespace LHG
variable {O A : Type}

def empty : LHG O A := ⟨[], [], [], ([], [])⟩

def isStrict (h : LHG O A) : Bool := h.quotient.1.isEmpty

/-- well-formedness of a lax hypergraph: one adjacency entry per edge, every node id in range,
    the two quotient lists of equal length -/
def wf (h : LHG O A) : Bool :=
  h.edges.length == h.adjacency.length &&
  h.adjacency.all (fun e => e.sources.all (· < h.nodes.length) && e.targets.all (· < h.nodes.length)) &&
  h.quotient.1.length == h.quotient.2.length &&
  h.quotient.1.all (· < h.nodes.length) && h.quotient.2.all (· < h.nodes.length)

def discrete (nodes : List O) : LHG O A := { (empty : LHG O A) with nodes := nodes }

def newNode (h : LHG O A) (w : O) : LHG O A × Nat :=
  ({ h with nodes := h.nodes ++ [w] }, h.nodes.length)

def newEdge (h : LHG O A) (x : A) (e : LEdge) : LHG O A × Nat :=
  ({ h with edges := h.edges ++ [x], adjacency := h.adjacency ++ [e] }, h.edges.length)

def newNodes (h : LHG O A) : List O → LHG O A × List Nat
  | [] => (h, [])
  | t :: ts =>
    let (h1, i) := h.newNode t
    let (h2, is) := h1.newNodes ts
    (h2, i :: is)

def newOperation (h : LHG O A) (x : A) (sourceType targetType : List O) :
    LHG O A × Nat × (List Nat × List Nat) :=
  let (h1, s) := h.newNodes sourceType
  let (h2, t) := h1.newNodes targetType
  let (h3, e) := h2.newEdge x ⟨s, t⟩
  (h3, e, (s, t))

def unify (h : LHG O A) (v w : Nat) : LHG O A :=
  { h with quotient := (h.quotient.1 ++ [v], h.quotient.2 ++ [w]) }

/-- `add_edge_source`: a new node, then `self.adjacency[edge_id].sources.push(node)`; an
    out-of-range edge id panics AFTER the node has been pushed -/
def addEdgeSource (h : LHG O A) (edgeId : Nat) (w : O) : Res (LHG O A × Nat) :=
  let (h1, nid) := h.newNode w
  match h1.adjacency[edgeId]? with
  | Option.none => .panic "add_edge_source:index"
  | some e => .ok ({ h1 with adjacency := h1.adjacency.set edgeId { e with sources := e.sources ++ [nid] } }, nid)

def addEdgeTarget (h : LHG O A) (edgeId : Nat) (w : O) : Res (LHG O A × Nat) :=
  let (h1, nid) := h.newNode w
  match h1.adjacency[edgeId]? with
  | Option.none => .panic "add_edge_target:index"
  | some e => .ok ({ h1 with adjacency := h1.adjacency.set edgeId { e with targets := e.targets ++ [nid] } }, nid)

/-- `with_nodes(f)`: `None` when the closure changes the length -/
def withNodes {T : Type} (h : LHG O A) (f : List O → List T) : Res (LHG T A) :=
  let nodes := f h.nodes
  if nodes.length ≠ h.nodes.length then .none
  else .ok ⟨nodes, h.edges, h.adjacency, h.quotient⟩

def mapNodes {T : Type} (h : LHG O A) (f : O → T) : LHG T A :=
  ⟨h.nodes.map f, h.edges, h.adjacency, h.quotient⟩

def withEdges {T : Type} (h : LHG O A) (f : List A → List T) : Res (LHG O T) :=
  let edges := f h.edges
  if edges.length ≠ h.edges.length then .none
  else .ok ⟨h.nodes, edges, h.adjacency, h.quotient⟩

def mapEdges {T : Type} (h : LHG O A) (f : A → T) : LHG O T :=
  ⟨h.nodes, h.edges.map f, h.adjacency, h.quotient⟩

/-- keep the entries whose index is not marked -/
def keepUnmarked {α : Type} (xs : List α) (remove : List Nat) : List α :=
  (xs.zip (List.range xs.length)).filterMap (fun p => if remove.contains p.2 then Option.none else some p.1)

/-- `delete_edges`: asserts `edges.len() == adjacency.len()`, rejects (panics on) an id out of
    range, removes exactly the named edges (duplicates allowed) -/
def deleteEdges (h : LHG O A) (ids : List Nat) : Res (LHG O A) :=
  if h.edges.length ≠ h.adjacency.length then .panic "delete_edges:assert-malformed"
  else if ids.isEmpty then .ok h
  else if ¬ ids.all (· < h.edges.length) then .panic "delete_edges:assert-bounds"
  else .ok { h with edges := keepUnmarked h.edges ids, adjacency := keepUnmarked h.adjacency ids }

/-- old index ↦ new index (`none` for removed nodes) -/
def renumber (n : Nat) (remove : List Nat) : List (Option Nat) :=
  (List.range n).map (fun i =>
    if remove.contains i then Option.none
    else some (((List.range i).filter (fun j => !remove.contains j)).length))

def remapIds (newIndex : List (Option Nat)) (ids : List Nat) : List Nat :=
  ids.filterMap (fun i => (newIndex[i]?).join)

/-- `delete_nodes_witness` -/
def deleteNodesWitness (h : LHG O A) (ids : List Nat) : Res (LHG O A × List (Option Nat)) :=
  let n := h.nodes.length
  if ids.isEmpty then .ok (h, (List.range n).map some)
  else if ¬ ids.all (· < n) then .panic "delete_nodes:assert-bounds"
  else
    let newIndex := renumber n ids
    -- `new_index[node.0]` panics on a dangling reference
    let refsOk := h.adjacency.all (fun e => e.sources.all (· < n) && e.targets.all (· < n)) &&
      (h.quotient.1.zip h.quotient.2).all (fun p => p.1 < n && p.2 < n)
    if ¬ refsOk then .panic "delete_nodes:index"
    else
      let adjacency := h.adjacency.map (fun e => ⟨remapIds newIndex e.sources, remapIds newIndex e.targets⟩)
      let pairs := (h.quotient.1.zip h.quotient.2).filterMap (fun p =>
        match (newIndex[p.1]?).join, (newIndex[p.2]?).join with
        | some a, some b => some (a, b)
        | _, _ => Option.none)
      .ok ({ nodes := keepUnmarked h.nodes ids, edges := h.edges, adjacency := adjacency,
             quotient := (pairs.map (·.1), pairs.map (·.2)) }, newIndex)

def deleteNodes (h : LHG O A) (ids : List Nat) : Res (LHG O A) :=
  (deleteNodesWitness h ids) >>= fun r => .ok r.1

/-- `coequalizer()` of the recorded unification pairs -/
def coequalizer (B : Backend) (h : LHG O A) : Res FinFun :=
  (FinFun.coequalizer B ⟨h.quotient.1, h.nodes.length⟩ ⟨h.quotient.2, h.nodes.length⟩).unwrap
    "lax.coequalizer:expect"

/-- `quotient()`: `Ok(q)` with the state rewritten, or `Err(q)` with the state unchanged
    (after the repair of F4).  The boolean is `true` for `Ok`. -/
def quotientH [DecidableEq O] (B : Backend) (h : LHG O A) : Res (Bool × FinFun × LHG O A) := do
  let q ← coequalizer B h
  match FinFun.coequalizerUniversalArr B q h.nodes with
  | .panic s => .panic s
  | .none => pure (false, q, h)
  | .ok nodes =>
    let mapIds := fun (ids : List Nat) => ids.mapM (fun i => Prim.get q.table i)
    let adjacency ← h.adjacency.mapM (fun e => do
      let s ← mapIds e.sources
      let t ← mapIds e.targets
      pure (⟨s, t⟩ : LEdge))
    pure (true, q, { nodes := nodes, edges := h.edges, adjacency := adjacency, quotient := ([], []) })

def coproduct (g h : LHG O A) : LHG O A :=
  let n := g.nodes.length
  { nodes := g.nodes ++ h.nodes, edges := g.edges ++ h.edges,
    adjacency := g.adjacency ++ h.adjacency.map (fun e => ⟨e.sources.map (· + n), e.targets.map (· + n)⟩),
    quotient := (g.quotient.1 ++ h.quotient.1.map (· + n), g.quotient.2 ++ h.quotient.2.map (· + n)) }

/-- `coproduct_assign` produces the same data as `coproduct` -/
def coproductAssign (g h : LHG O A) : LHG O A := coproduct g h

/-- `make_hypergraph` (`to_hypergraph`) -/
def toHypergraph (h : LHG O A) : Res (HG O A) := do
  let mk := fun (segs : List (List Nat)) => do
    let values ← (FinFun.new segs.flatten h.nodes.length).unwrap "to_hypergraph:expect-values"
    (IC.fromSemifinite (segs.map List.length) values).unwrap "to_hypergraph:expect-ic"
  let s ← mk (h.adjacency.map (·.sources))
  let t ← mk (h.adjacency.map (·.targets))
  pure ⟨s, t, h.nodes, h.edges⟩

/-- `from_strict`: zips the two slice iterators -/
def fromStrict (h : HG O A) : Res (LHG O A) := do
  let ss ← IC.iterTrace (h.s.len + 1) (IC.intoIter h.s.sources.table h.s.values.table)
  let ts ← IC.iterTrace (h.t.len + 1) (IC.intoIter h.t.sources.table h.t.values.table)
  pure ⟨h.w, h.x, List.zipWith (fun a b => ⟨a.1, b.1⟩) ss ts, ([], [])⟩

end LHG

namespace LOHG
variable {O A : Type}

def empty : LOHG O A := ⟨[], [], LHG.empty⟩

def wf (f : LOHG O A) : Bool :=
  f.hypergraph.wf && f.sources.all (· < f.hypergraph.nodes.length) &&
  f.targets.all (· < f.hypergraph.nodes.length)

def fromStrict (f : OHG O A) : Res (LOHG O A) := do
  let h ← LHG.fromStrict f.h
  pure ⟨f.s.table, f.t.table, h⟩

def singleton (x : A) (sourceType targetType : List O) : LOHG O A :=
  let (h, _, (s, t)) := (LHG.empty : LHG O A).newOperation x sourceType targetType
  ⟨s, t, h⟩

def identity (a : List O) : LOHG O A :=
  ⟨List.range a.length, List.range a.length, LHG.discrete a⟩

def spider (s t : FinFun) (w : List O) : Res (LOHG O A) :=
  if s.target ≠ t.target ∨ s.target ≠ w.length then .none
  else .ok ⟨s.table, t.table, LHG.discrete w⟩

def tensor (f g : LOHG O A) : LOHG O A :=
  let n := f.hypergraph.nodes.length
  ⟨f.sources ++ g.sources.map (· + n), f.targets ++ g.targets.map (· + n),
   LHG.coproduct f.hypergraph g.hypergraph⟩

/-- `append`: returns the shifted interfaces of `rhs` -/
def append (f g : LOHG O A) : LOHG O A × (List Nat × List Nat) :=
  let n := f.hypergraph.nodes.length
  ({ f with hypergraph := LHG.coproductAssign f.hypergraph g.hypergraph },
   (g.sources.map (· + n), g.targets.map (· + n)))

def tensorAssign (f g : LOHG O A) : LOHG O A :=
  let (f', (s, t)) := append f g
  { f' with sources := f'.sources ++ s, targets := f'.targets ++ t }

/-- `delete_nodes` on the open hypergraph: interface entries naming a deleted node are dropped;
    an interface entry out of range is an index panic -/
def deleteNodes (f : LOHG O A) (ids : List Nat) : Res (LOHG O A) := do
  let (h, newIndex) ← LHG.deleteNodesWitness f.hypergraph ids
  if ¬ (f.sources.all (· < newIndex.length) ∧ f.targets.all (· < newIndex.length)) then
    .panic "lax.delete_nodes:index"
  else pure ⟨LHG.remapIds newIndex f.sources, LHG.remapIds newIndex f.targets, h⟩

def quotient [DecidableEq O] (B : Backend) (f : LOHG O A) : Res (Bool × FinFun × LOHG O A) := do
  let (isOk, q, h) ← LHG.quotientH B f.hypergraph
  if !isOk then pure (false, q, f)
  else do
    let s ← f.sources.mapM (fun i => Prim.get q.table i)
    let t ← f.targets.mapM (fun i => Prim.get q.table i)
    pure (true, q, ⟨s, t, h⟩)

/-- `to_strict`: `self.quotient().unwrap()` then pack -/
def toStrict [DecidableEq O] (B : Backend) (f : LOHG O A) : Res (OHG O A) := do
  let (isOk, _, g) ← quotient B f
  if !isOk then .panic "to_strict:unwrap-quotient"
  else do
    let n := g.hypergraph.nodes.length
    let s ← (FinFun.new g.sources n).unwrap "to_strict:expect-s"
    let t ← (FinFun.new g.targets n).unwrap "to_strict:expect-t"
    let h ← g.hypergraph.toHypergraph
    match OHG.new s t h with
    | .ok r => pure r
    | .error _ => .panic "to_strict:expect-new"

def source (f : LOHG O A) : Res (List O) := f.sources.mapM (fun i => Prim.get f.hypergraph.nodes i)
def target (f : LOHG O A) : Res (List O) := f.targets.mapM (fun i => Prim.get f.hypergraph.nodes i)

/-- `lax_compose`: defined iff the arities match -/
def laxCompose (f g : LOHG O A) : Res (LOHG O A) :=
  if f.targets.length ≠ g.sources.length then .none
  else
    let n := f.hypergraph.nodes.length
    let fg := tensor f g
    let h := (f.targets.zip g.sources).foldl (fun h p => h.unify p.1 (p.2 + n)) fg.hypergraph
    .ok ⟨fg.sources.take f.sources.length, fg.targets.drop f.targets.length, h⟩

/-- `compose`: defined iff the types match -/
def compose [DecidableEq O] (f g : LOHG O A) : Res (LOHG O A) := do
  let a ← target f
  let b ← source g
  if a ≠ b then .none else laxCompose f g

def dagger (f : LOHG O A) : LOHG O A := ⟨f.targets, f.sources, f.hypergraph⟩

def twist (a b : List O) : Res (LOHG O A) := do
  let f ← (OHG.twist a b : Res (OHG O A))
  fromStrict f

end LOHG
end OH
