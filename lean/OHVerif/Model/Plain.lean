/-
  The plain list-based model of a diagram (the vocabulary the properties are stated in) and
  executable oracles on it: deep well-formedness and isomorphism.  IMPORT-FREE.
-/
import OHVerif.Model.Graph

namespace OH

structure PEdge (A : Type) where
  label : A
  src : List Nat
  tgt : List Nat
  deriving Repr, DecidableEq

structure PDiag (O A : Type) where
  nodes : List O
  edges : List (PEdge A)
  ins : List Nat
  outs : List Nat
  deriving Repr, DecidableEq

namespace PEdge
def mapNodes {A : Type} (π : Nat → Nat) (e : PEdge A) : PEdge A := ⟨e.label, e.src.map π, e.tgt.map π⟩
end PEdge

/-- split `values` into consecutive segments of the given sizes (total on any input) -/
def splitSegs {α : Type} : List Nat → List α → List (List α)
  | [], _ => []
  | k :: ks, vs => vs.take k :: splitSegs ks (vs.drop k)

namespace IC
/-- the list of lists a segmented array denotes -/
def segs (c : IC FinFun) : List (List Nat) := splitSegs c.sources.table c.values.table
def segsL {α : Type} (c : IC (List α)) : List (List α) := splitSegs c.sources.table c.values

def ofSegs (l : List (List Nat)) (target : Nat) : IC FinFun :=
  ⟨⟨l.map List.length, (l.map List.length).foldl (· + ·) 0 + 1⟩, ⟨l.flatten, target⟩⟩
def ofSegsL {α : Type} (l : List (List α)) : IC (List α) :=
  ⟨⟨l.map List.length, (l.map List.length).foldl (· + ·) 0 + 1⟩, l.flatten⟩

/-- deep well-formedness of a segmented array of finite functions -/
def wf (c : IC FinFun) : Bool := c.valid && c.sources.wf && c.values.wf
end IC

namespace HG
variable {O A : Type}
/-- deep well-formedness (looks inside the tables, unlike the library's `validate`) -/
def wf (h : HG O A) : Bool :=
  h.s.wf && h.t.wf && h.s.len == h.x.length && h.t.len == h.x.length &&
  h.s.values.target == h.w.length && h.t.values.target == h.w.length

def toPlainEdges (h : HG O A) : List (PEdge A) :=
  List.zipWith (fun x st => ⟨x, st.1, st.2⟩) h.x (h.s.segs.zip h.t.segs)
end HG

namespace OHG
variable {O A : Type}
def wf (f : OHG O A) : Bool :=
  f.h.wf && f.s.wf && f.t.wf && f.s.target == f.h.w.length && f.t.target == f.h.w.length

def toPlain (f : OHG O A) : PDiag O A := ⟨f.h.w, f.h.toPlainEdges, f.s.table, f.t.table⟩
end OHG

namespace PDiag
variable {O A : Type}
def n (d : PDiag O A) : Nat := d.nodes.length

def wf (d : PDiag O A) : Bool :=
  d.ins.all (· < d.n) && d.outs.all (· < d.n) &&
  d.edges.all (fun e => e.src.all (· < d.n) && e.tgt.all (· < d.n))

/-- pack a plain diagram into the strict representation -/
def toStrict (d : PDiag O A) : OHG O A :=
  ⟨⟨d.ins, d.n⟩, ⟨d.outs, d.n⟩,
   ⟨IC.ofSegs (d.edges.map (·.src)) d.n, IC.ofSegs (d.edges.map (·.tgt)) d.n, d.nodes, d.edges.map (·.label)⟩⟩
end PDiag

/-! ### isomorphism oracle (search with a step budget) -/

namespace Iso
variable {O A : Type} [BEq O] [BEq A]

structure St where
  fwd : Array (Option Nat)   -- partial node map P → Q
  usedN : Array Bool         -- nodes of Q already hit
  usedE : Array Bool         -- edges of Q already matched
  steps : Nat

/-- try to extend the node map with `i ↦ j` -/
def bind1 (st : St) (i j : Nat) : Option St :=
  match st.fwd[i]? with
  | some (some j') => if j' == j then some st else none
  | some Option.none =>
    match st.usedN[j]? with
    | some false => some { st with fwd := st.fwd.set! i (some j), usedN := st.usedN.set! j true }
    | _ => none
  | Option.none => none

def bindList (st : St) : List Nat → List Nat → Option St
  | [], [] => some st
  | i :: is, j :: js => (bind1 st i j).bind fun st' => bindList st' is js
  | _, _ => none

inductive Verdict where | iso | notIso | inconclusive
  deriving Repr, BEq, Inhabited

instance : Inhabited St := ⟨⟨#[], #[], #[], 0⟩⟩

partial def matchEdges (P Q : PDiag O A) (budget : Nat) (ei : Nat) (st : St) : Verdict × St :=
  if st.steps > budget then (.inconclusive, st)
  else if h : ei < P.edges.length then
    let e := P.edges[ei]
    let rec tryFrom (k : Nat) (st : St) (sawInconclusive : Bool) : Verdict × St :=
      if hk : k < Q.edges.length then
        let e' := Q.edges[k]
        if st.usedE[k]? == some false && e'.label == e.label &&
           e'.src.length == e.src.length && e'.tgt.length == e.tgt.length then
          let st1 := { st with steps := st.steps + 1 }
          match (bindList st1 e.src e'.src).bind (fun s => bindList s e.tgt e'.tgt) with
          | some st2 =>
            let st3 := { st2 with usedE := st2.usedE.set! k true }
            match matchEdges P Q budget (ei + 1) st3 with
            | (.iso, s) => (.iso, s)
            | (.inconclusive, s) => tryFrom (k + 1) { st with steps := s.steps } true
            | (.notIso, s) => tryFrom (k + 1) { st with steps := s.steps } sawInconclusive
          | Option.none => tryFrom (k + 1) st1 sawInconclusive
        else tryFrom (k + 1) st sawInconclusive
      else (if sawInconclusive then .inconclusive else .notIso, st)
    tryFrom 0 st false
  else
    -- all edges matched; the remaining nodes must agree as multisets of labels
    let restP := (List.range P.n).filter (fun i => (st.fwd[i]?.getD Option.none).isNone)
    let restQ := (List.range Q.n).filter (fun j => st.usedN[j]? == some false)
    let labsP := restP.filterMap (P.nodes[·]?)
    let labsQ := restQ.filterMap (Q.nodes[·]?)
    let okRest := labsP.length == labsQ.length &&
      labsP.all (fun x => (labsP.filter (· == x)).length == (labsQ.filter (· == x)).length)
    -- mapped nodes must preserve labels
    let okLab := (List.range P.n).all (fun i =>
      match st.fwd[i]?.getD Option.none with
      | some j => (match P.nodes[i]?, Q.nodes[j]? with | some a, some b => a == b | _, _ => false)
      | Option.none => true)
    (if okRest && okLab then .iso else .notIso, st)

/-- are `P` and `Q` isomorphic (node and edge bijections preserving labels, ordered incidence
    lists and both interfaces position by position)? -/
def check (P Q : PDiag O A) (budget : Nat := 200000) : Verdict :=
  if P.n != Q.n || P.edges.length != Q.edges.length ||
     P.ins.length != Q.ins.length || P.outs.length != Q.outs.length then .notIso
  else
    let st0 : St := ⟨Array.replicate P.n Option.none, Array.replicate Q.n false,
                     Array.replicate Q.edges.length false, 0⟩
    match (bindList st0 P.ins Q.ins).bind (fun s => bindList s P.outs Q.outs) with
    | Option.none => .notIso
    | some st1 => (matchEdges P Q budget 0 st1).1

end Iso
end OH
