/-
  Array primitives of the array interface (src/array/traits.rs) with the behaviour of the
  Vec backend (src/array/vec/vec_array.rs, connected_components.rs).
  `usize` ↦ `Nat`; every index / assert / underflow is a panic site.
  The four primitives whose contract leaves a choice open are fields of `Backend`.
  IMPORT-FREE.
-/
import OHVerif.Model.Res

namespace OH

/-- The choices the array contract leaves open. -/
structure Backend where
  /-- a permutation of `0..len` that sorts its argument (tie order unspecified) -/
  argsort : List Nat → List Nat
  /-- component labels and number of components for an edge list over `n` nodes -/
  cc : List Nat → List Nat → Nat → List Nat × Nat
  /-- occurring values (each once, order unspecified) and their counts -/
  sparseBincount : List Nat → List Nat × List Nat
  /-- index of the element `scatter` uses as filler (for a non-empty source of that length) -/
  fillerIdx : Nat → Nat

namespace Prim

variable {α : Type}

/-! ### gather / get / ranges -/

def gatherP (xs : List α) (idx : List Nat) : List α := idx.filterMap (fun i => xs[i]?)

def gather (xs : List α) (idx : List Nat) : Res (List α) :=
  if idx.all (fun i => decide (i < xs.length)) then .ok (gatherP xs idx) else .panic "gather:index"

def get (xs : List α) (i : Nat) : Res α := Res.ofOption xs[i]? "get:index"

/-- The five range forms of `RangeBounds<usize>` handed to `to_range`. -/
inductive RangeForm where
  | full                      -- `..`
  | from (a : Nat)            -- `a..`
  | to (b : Nat)              -- `..b`
  | fromTo (a b : Nat)        -- `a..b`
  | toIncl (b : Nat)          -- `..=b`
  | fromToIncl (a b : Nat)    -- `a..=b`
  deriving Repr

/-- `to_range`: converts (does not clamp). Returns `(start, end)`, end exclusive. -/
def toRange (len : Nat) : RangeForm → Nat × Nat
  | .full => (0, len)
  | .from a => (a, len)
  | .to b => (0, b)
  | .fromTo a b => (a, b)
  | .toIncl b => (0, b + 1)
  | .fromToIncl a b => (a, b + 1)

/-- slice `xs[a..b]`; Rust panics when `a > b` or `b > len`. -/
def slice (xs : List α) (a b : Nat) : Res (List α) :=
  if a ≤ b ∧ b ≤ xs.length then .ok ((xs.drop a).take (b - a)) else .panic "slice:range"

def getRange (xs : List α) (r : RangeForm) : Res (List α) :=
  let (a, b) := toRange xs.length r
  slice xs a b

/-- `self[r].clone_from_slice(v)`: panics on an invalid range or a length mismatch. -/
def setRange (xs : List α) (r : RangeForm) (v : List α) : Res (List α) :=
  let (a, b) := toRange xs.length r
  if a ≤ b ∧ b ≤ xs.length then
    if v.length = b - a then .ok (xs.take a ++ v ++ xs.drop b) else .panic "set_range:len"
  else .panic "set_range:range"

/-! ### scatter family -/

/-- write `x` at `i` for the pairs in order (later writes win) -/
def writeAll (y : List α) : List (Nat × α) → List α
  | [] => y
  | (i, x) :: rest => writeAll (y.set i x) rest

def scatter (B : Backend) (xs : List α) (idx : List Nat) (n : Nat) : Res (List α) :=
  match xs with
  | [] => if idx.isEmpty then .ok [] else .panic "scatter:assert-empty"
  | x0 :: _ =>
    if xs.length ≤ idx.length ∧ (idx.take xs.length).all (fun i => decide (i < n)) then
      let fill := xs.getD (B.fillerIdx xs.length) x0
      .ok (writeAll (List.replicate n fill) ((idx.take xs.length).zip xs))
    else .panic "scatter:index"

/-- `for (i, x) in ixs.zip(values) { self[i] = x }` -/
def scatterAssign (self : List α) (ixs : List Nat) (values : List α) : Res (List α) :=
  let pairs := ixs.zip values
  if pairs.all (fun p => decide (p.1 < self.length)) then .ok (writeAll self pairs)
  else .panic "scatter_assign:index"

def scatterAssignConstant (self : List α) (ixs : List Nat) (c : α) : Res (List α) :=
  if ixs.all (fun i => decide (i < self.length)) then .ok (writeAll self (ixs.map (fun i => (i, c))))
  else .panic "scatter_assign_constant:index"

/-- `for i in 0..ixs.len() { self[ixs[i]] -= rhs[i] }` (debug semantics: underflow panics) -/
def scatterSubAssign : List Nat → List Nat → List Nat → Res (List Nat)
  | self, [], _ => .ok self
  | _, _ :: _, [] => .panic "scatter_sub_assign:rhs-index"
  | self, i :: ixs, r :: rhs =>
    match self[i]? with
    | Option.none => .panic "scatter_sub_assign:index"
    | some v =>
      if r ≤ v then scatterSubAssign (self.set i (v - r)) ixs rhs
      else .panic "scatter_sub_assign:underflow"

/-! ### naturals -/

def arange (start stop : Nat) : Res (List Nat) :=
  if start ≤ stop then .ok (List.range' start (stop - start)) else .panic "arange:assert"

/-- running sums starting from `a`: `[a, a+x0, a+x0+x1, …]` (length `len + 1`) -/
def cumsumFrom (a : Nat) : List Nat → List Nat
  | [] => [a]
  | x :: xs => a :: cumsumFrom (a + x) xs

def cumulativeSum (xs : List Nat) : List Nat := cumsumFrom 0 xs

def sum (xs : List Nat) : Nat := xs.foldl (· + ·) 0

/-- `self.repeat(x)`: element `x[i]` repeated `self[i]` times; lengths must agree -/
def repeatP : List Nat → List α → List α
  | k :: ks, x :: xs => List.replicate k x ++ repeatP ks xs
  | _, _ => []

def «repeat» (counts : List Nat) (x : List α) : Res (List α) :=
  if counts.length = x.length then .ok (repeatP counts x) else .panic "repeat:assert-len"

/-- returns `(self / d, self % d)` (the code's order; the trait doc has them swapped) -/
def quotRem (xs : List Nat) (d : Nat) : Res (List Nat × List Nat) :=
  if d ≠ 0 then .ok (xs.map (· / d), xs.map (· % d)) else .panic "quot_rem:assert"

def mulConstantAdd (xs : List Nat) (c : Nat) (ys : List Nat) : Res (List Nat) :=
  if xs.length = ys.length then .ok (List.zipWith (fun s x => s * c + x) xs ys)
  else .panic "mul_constant_add:assert-len"

def add (xs ys : List Nat) : Res (List Nat) :=
  if xs.length = ys.length then .ok (List.zipWith (· + ·) xs ys) else .panic "add:assert-len"

def subP : List Nat → List Nat → Res (List Nat)
  | x :: xs, y :: ys =>
    if y ≤ x then (subP xs ys) >>= fun r => .ok ((x - y) :: r) else .panic "sub:underflow"
  | _, _ => .ok []

def sub (xs ys : List Nat) : Res (List Nat) :=
  if xs.length = ys.length then subP xs ys else .panic "sub:assert-len"

def bincount (xs : List Nat) (size : Nat) : Res (List Nat) :=
  if xs.all (fun i => decide (i < size)) then .ok ((List.range size).map (fun v => xs.count v))
  else .panic "bincount:index"

def zeroFrom (i : Nat) : List Nat → List Nat
  | [] => []
  | x :: xs => if x = 0 then i :: zeroFrom (i + 1) xs else zeroFrom (i + 1) xs

/-- indices of the entries equal to zero -/
def zero (xs : List Nat) : List Nat := zeroFrom 0 xs

def max : List Nat → Option Nat
  | [] => Option.none
  | x :: xs => some (xs.foldl Nat.max x)

def segmentedSum (sizes x : List Nat) : Res (List Nat) := do
  let ptr := cumulativeSum sizes
  let s := cumulativeSum x
  let n := ptr.length
  let hi ← getRange ptr (.from 1)
  let lo ← getRange ptr (.to (n - 1))
  let a ← gather s hi
  let b ← gather s lo
  sub a b

def segmentedArange (sizes : List Nat) : Res (List Nat) := do
  let p := cumulativeSum sizes
  let lastIdx ← checkedSub p.length 1 "segmented_arange:underflow"
  let total ← get p lastIdx
  let pfx ← getRange p (.to lastIdx)
  let r ← «repeat» sizes pfx
  let i ← arange 0 total
  sub i r

def argsort (B : Backend) (xs : List Nat) : List Nat := B.argsort xs

def sortBy (B : Backend) (xs : List α) (key : List Nat) : Res (List α) :=
  gather xs (argsort B key)

def sparseBincount (B : Backend) (xs : List Nat) : List Nat × List Nat := B.sparseBincount xs

/-- `connected_components`: asserts equal lengths and `n > 0 || sources.is_empty()`;
    an out-of-range node is an index panic inside union-find. -/
def connectedComponents (B : Backend) (s t : List Nat) (n : Nat) : Res (List Nat × Nat) :=
  if s.length ≠ t.length then .panic "cc:assert-len"
  else if n = 0 ∧ ¬ s.isEmpty then .panic "cc:assert-empty"
  else if ¬ (s.all (fun i => decide (i < n)) ∧ t.all (fun i => decide (i < n))) then .panic "cc:index"
  else .ok (B.cc s t n)

end Prim

/-! ### The Vec backend's resolution of the open choices -/

namespace VecB

/-- stable argsort (`sort_by_key` is a stable sort) -/
def argsort (xs : List Nat) : List Nat :=
  (List.range xs.length).mergeSort (fun i j => decide (xs.getD i 0 ≤ xs.getD j 0))

/-- replace every label equal to `b` by `a` -/
def relabel (a b : Nat) (lab : List Nat) : List Nat := lab.map (fun l => if l = b then a else l)

/-- merge the classes of `u` and `v`, keeping the smaller label -/
def mergeEdge (lab : List Nat) (u v : Nat) : List Nat :=
  let a := lab.getD u 0
  let b := lab.getD v 0
  if a = b then lab else if a < b then relabel a b lab else relabel b a lab

/-- label of every node = smallest member of its component -/
def minLabels (s t : List Nat) (n : Nat) : List Nat :=
  (s.zip t).foldl (fun lab e => mergeEdge lab e.1 e.2) (List.range n)

/-- `to_dense`: number the distinct values by first occurrence -/
def toDenseAux : List Nat → List Nat → List Nat → List Nat × Nat
  | [], seen, acc => (acc.reverse, seen.length)
  | a :: rest, seen, acc =>
    match seen.idxOf? a with
    | some k => toDenseAux rest seen (k :: acc)
    | Option.none => toDenseAux rest (seen ++ [a]) (seen.length :: acc)

def toDense (sparse : List Nat) : List Nat × Nat := toDenseAux sparse [] []

def cc (s t : List Nat) (n : Nat) : List Nat × Nat := toDense (minLabels s t n)

/-- ascending distinct values with their counts -/
def sparseBincount (xs : List Nat) : List Nat × List Nat :=
  let keys := (xs.mergeSort (fun a b => decide (a ≤ b))).eraseDups
  (keys, keys.map (fun k => xs.count k))

end VecB

def vecBackend : Backend where
  argsort := VecB.argsort
  cc := VecB.cc
  sparseBincount := VecB.sparseBincount
  fillerIdx := fun _ => 0

end OH
