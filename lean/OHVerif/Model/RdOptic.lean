/-
  The standard reverse-derivative lenses of polynomial circuits over one object (labels: 0 add,
  1 mul, 2 neg, 3 copy, 4 discard, 10+k constant k), built with the same builder calls as the
  harness's `RdOptic` (harness/src/ops_functor.rs).  IMPORT-FREE.
-/
import OHVerif.Model.Functor

namespace OH
namespace RdO

abbrev LF := LOHG Nat Nat
abbrev LH := LHG Nat Nat

/-- forward image of `mul`: `(x, y) ↦ (x·y, x, y)` built with the same builder calls as the harness -/
def rdFwdMul : LF :=
  let h0 : LH := LHG.empty
  let (h1, _, (sx, cx)) := h0.newOperation 3 [0] [0, 0]
  let (h2, _, (sy, cy)) := h1.newOperation 3 [0] [0, 0]
  let (h3, _, (mi, mo)) := h2.newOperation 1 [0, 0] [0]
  let h4 := h3.unify (cx.getD 0 0) (mi.getD 0 0)
  let h5 := h4.unify (cy.getD 0 0) (mi.getD 1 0)
  ⟨[sx.getD 0 0, sy.getD 0 0], [mo.getD 0 0, cx.getD 1 0, cy.getD 1 0], h5⟩

/-- reverse image of `mul`: `(x, y, dz) ↦ (y·dz, x·dz)` -/
def rdRevMul : LF :=
  let h0 : LH := LHG.empty
  let (h1, _, (s1, d)) := h0.newOperation 3 [0] [0, 0]
  let (h2, _, (i2, o1)) := h1.newOperation 1 [0, 0] [0]
  let (h3, _, (i3, o2)) := h2.newOperation 1 [0, 0] [0]
  let h4 := h3.unify (d.getD 0 0) (i2.getD 1 0)
  let h5 := h4.unify (d.getD 1 0) (i3.getD 1 0)
  ⟨[i3.getD 0 0, i2.getD 0 0, s1.getD 0 0], [o1.getD 0 0, o2.getD 0 0], h5⟩

/-- the standard reverse-derivative lenses over one object -/
def rdOptic : LOptic Nat Nat Nat Nat where
  fwdObject := fun o => [o]
  revObject := fun o => [o]
  residual := fun a => if a == 1 then [0, 0] else []
  fwdOperation := fun a s t => .ok (if a == 1 then rdFwdMul else LOHG.singleton a s t)
  revOperation := fun a _ _ => .ok (match a with
    | 0 => LOHG.singleton 3 [0] [0, 0]
    | 1 => rdRevMul
    | 2 => LOHG.singleton 2 [0] [0]
    | 3 => LOHG.singleton 0 [0, 0] [0]
    | 4 => LOHG.singleton 10 [] [0]
    | _ => LOHG.singleton 4 [0] [])


end RdO
end OH
