/-
  Result monad of the model: every Rust `Option`-returning API maps to `none`,
  every `unwrap`/`expect`/`assert!`/out-of-range index/`usize` underflow maps to
  `panic site`.  Nothing is totalised.
  IMPORT-FREE (the driver is linked as a native executable).
-/
namespace OH

inductive Res (α : Type) where
  | ok    : α → Res α
  | none  : Res α
  | panic : String → Res α
  deriving Repr, DecidableEq

namespace Res

@[inline] def bind {α β : Type} (x : Res α) (f : α → Res β) : Res β :=
  match x with
  | .ok a => f a
  | .none => .none
  | .panic s => .panic s

instance : Monad Res where
  pure := .ok
  bind := Res.bind

@[simp] theorem pure_eq {α : Type} (a : α) : (pure a : Res α) = .ok a := rfl
@[simp] theorem ok_bind {α β : Type} (a : α) (f : α → Res β) : (Res.ok a >>= f) = f a := rfl
@[simp] theorem none_bind {α β : Type} (f : α → Res β) : ((Res.none : Res α) >>= f) = .none := rfl
@[simp] theorem panic_bind {α β : Type} (s : String) (f : α → Res β) :
    ((Res.panic s : Res α) >>= f) = .panic s := rfl
@[simp] theorem map_ok {α β : Type} (g : α → β) (a : α) : g <$> (Res.ok a) = .ok (g a) := rfl

/-- `assert!(b)` -/
@[inline] def assert (b : Bool) (site : String) : Res Unit :=
  if b then .ok () else .panic site

/-- a function returning Rust `Option`: `None` stays `none` -/
@[inline] def guard (b : Bool) : Res Unit := if b then .ok () else .none

/-- `Option::unwrap` / `expect`: a `none` becomes a panic at `site` -/
@[inline] def unwrap {α : Type} (r : Res α) (site : String) : Res α :=
  match r with
  | .ok a => .ok a
  | .none => .panic site
  | .panic s => .panic s

@[inline] def ofOption {α : Type} (o : Option α) (site : String) : Res α :=
  match o with
  | some a => .ok a
  | Option.none => .panic site

def isOk {α : Type} : Res α → Bool
  | .ok _ => true
  | _ => false

@[simp] theorem assert_true (s : String) : assert true s = .ok () := rfl
@[simp] theorem guard_true : guard true = .ok () := rfl
@[simp] theorem unwrap_ok {α : Type} (a : α) (s : String) : unwrap (.ok a) s = .ok a := rfl

end Res

/-- checked subtraction on `usize` (debug semantics): underflow is a panic site -/
@[inline] def checkedSub (a b : Nat) (site : String) : Res Nat :=
  if b ≤ a then .ok (a - b) else .panic site

end OH
