/-
  The test signature of the correspondence check for evaluation (C16) and derivatives (C14):
  wrapping u64 arithmetic and bitwise gates, total on any argument list.  IMPORT-FREE.
-/
import OHVerif.Model.Plain

namespace OH
namespace Sig

def W : Nat := 18446744073709551616

def opfn (label : Nat) (args : List Nat) : List Nat :=
  let h := args.headD 0
  match label with
  | 0 => [args.foldl (fun a b => (a + b) % W) 0]
  | 1 => [args.foldl (fun a b => (a * b) % W) 1]
  | 2 => [(W - h) % W]
  | 3 => [h, h]
  | 4 => []
  | 5 => [3]
  | 6 => [args.foldl (fun a b => a &&& b) (W - 1)]
  | 7 => [args.foldl (fun a b => a ^^^ b) 0]
  | 8 => [(W - 1) ^^^ h]
  | l => [(l - 10) % W]

def applySig : Graph.Apply Nat Nat := fun labels inputs =>
  IC.ofSegsL (List.zipWith opfn labels inputs.segsL)


end Sig
end OH
