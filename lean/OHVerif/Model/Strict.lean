/-
  Strict hypergraphs and open hypergraphs
  (src/strict/hypergraph/object.rs, src/strict/open_hypergraph/arrow.rs).  IMPORT-FREE.
-/
import OHVerif.Model.IC

namespace OH

structure HG (O A : Type) where
  s : IC FinFun
  t : IC FinFun
  w : List O
  x : List A
  deriving Repr

structure OHG (O A : Type) where
  s : FinFun
  t : FinFun
  h : HG O A
  deriving Repr

/-- error variants of `InvalidHypergraph` / `InvalidOpenHypergraph` -/
inductive HGErr where
  | sourcesCount | targetsCount | sourcesSet | targetsSet
  | cospanSourceType | cospanTargetType
  deriving Repr, DecidableEq

/-- `Result<T, E>` inside `Res` -/
abbrev ResE (E α : Type) := Res (Except E α)

namespace HG
open Prim
variable {O A : Type}

def validate (h : HG O A) : Except HGErr (HG O A) :=
  if h.s.len ≠ h.x.length then .error .sourcesCount
  else if h.t.len ≠ h.x.length then .error .targetsCount
  else if h.s.values.target ≠ h.w.length then .error .sourcesSet
  else if h.t.values.target ≠ h.w.length then .error .targetsSet
  else .ok h

def new (s t : IC FinFun) (w : List O) (x : List A) : Except HGErr (HG O A) := validate ⟨s, t, w, x⟩

def empty : HG O A := ⟨IC.initial 0, IC.initial 0, [], []⟩

def discrete (w : List O) : HG O A := ⟨IC.initial w.length, IC.initial w.length, w, []⟩

/-- `self.s.is_empty() && self.t.is_empty() && self.x.0.is_empty()` (`is_empty` of a segmented
    array: no segments) -/
def isDiscrete (h : HG O A) : Bool := h.s.len == 0 && h.t.len == 0 && h.x.isEmpty

def coproduct (g h : HG O A) : Res (HG O A) := do
  let s ← IC.tensor g.s h.s
  let t ← IC.tensor g.t h.t
  pure ⟨s, t, g.w ++ h.w, g.x ++ h.x⟩

def tensorOperations (ops : Operations O A) : Res (HG O A) := do
  let i0 ← FinFun.inj0 ops.a.values.length ops.b.values.length
  let i1 ← FinFun.inj1 ops.a.values.length ops.b.values.length
  let s ← (IC.new ops.a.sources i0).unwrap "tensor_operations:expect-s"
  let t ← (IC.new ops.b.sources i1).unwrap "tensor_operations:expect-t"
  pure ⟨s, t, ops.a.values ++ ops.b.values, ops.x⟩

def inDegree (h : HG O A) (node : Nat) : Res Nat :=
  if node < h.w.length then do
    let counts ← bincount h.t.values.table h.w.length
    get counts node
  else .panic "in_degree:assert"

def outDegree (h : HG O A) (node : Nat) : Res Nat :=
  if node < h.w.length then do
    let counts ← bincount h.s.values.table h.w.length
    get counts node
  else .panic "out_degree:assert"

def coequalizeVertices [DecidableEq O] (B : Backend) (h : HG O A) (q : FinFun) : Res (HG O A) := do
  let s ← IC.mapValues h.s q
  let t ← IC.mapValues h.t q
  let w ← FinFun.coequalizerUniversalArr B q h.w
  pure ⟨s, t, w, h.x⟩

end HG

namespace OHG
open Prim
variable {O A : Type}

def validate (f : OHG O A) : Except HGErr (OHG O A) :=
  match HG.validate f.h with
  | .error e => .error e
  | .ok h =>
    if f.s.target ≠ h.w.length then .error .cospanSourceType
    else if f.t.target ≠ h.w.length then .error .cospanTargetType
    else .ok ⟨f.s, f.t, h⟩

def new (s t : FinFun) (h : HG O A) : Except HGErr (OHG O A) := validate ⟨s, t, h⟩

def tensorOperations (ops : Operations O A) : Res (OHG O A) := do
  let h ← HG.tensorOperations ops
  pure ⟨h.s.values, h.t.values, h⟩

def singleton (x : A) (a b : List O) : Res (OHG O A) := tensorOperations (Operations.singleton x a b)

def source (f : OHG O A) : Res (List O) := (FinFun.composeSemi f.s f.h.w).unwrap "source:expect"
def target (f : OHG O A) : Res (List O) := (FinFun.composeSemi f.t f.h.w).unwrap "target:expect"

def identity (w : List O) : Res (OHG O A) := do
  let s ← FinFun.identity w.length
  let t ← FinFun.identity w.length
  pure ⟨s, t, HG.discrete w⟩

def spider (s t : FinFun) (w : List O) : Res (OHG O A) :=
  if s.target ≠ w.length ∨ t.target ≠ w.length then .none else .ok ⟨s, t, HG.discrete w⟩

def halfSpider (s : FinFun) (w : List O) : Res (OHG O A) := do
  let t ← FinFun.identity s.target
  spider s t w

def tensor (f g : OHG O A) : Res (OHG O A) := do
  let h ← HG.coproduct f.h g.h
  pure ⟨FinFun.tensor f.s g.s, FinFun.tensor f.t g.t, h⟩

def compose [DecidableEq O] (B : Backend) (f g : OHG O A) : Res (OHG O A) := do
  let ft ← target f
  let gs ← source g
  if ft ≠ gs then .none
  else do
    let qLhs := FinFun.inject0 f.t g.h.w.length
    let qRhs := FinFun.inject1 g.s f.h.w.length
    let q ← (FinFun.coequalizer B qLhs qRhs).unwrap "compose:expect-coequalizer"
    let s ← (FinFun.compose (FinFun.inject0 f.s g.h.w.length) q).unwrap "compose:unwrap-s"
    let t ← (FinFun.compose (FinFun.inject1 g.t f.h.w.length) q).unwrap "compose:unwrap-t"
    let fg ← tensor f g
    let h ← (HG.coequalizeVertices B fg.h q).unwrap "compose:unwrap-h"
    pure ⟨s, t, h⟩

def twist (a b : List O) : Res (OHG O A) := do
  let s ← FinFun.twist a.length b.length
  let t ← FinFun.identity (a.length + b.length)
  pure ⟨s, t, HG.discrete (b ++ a)⟩

def dagger (f : OHG O A) : OHG O A := ⟨f.t, f.s, f.h⟩

/-- `is_monogamous` (after the repair: sums compared with the all-ones array) -/
def isMonogamous (f : OHG O A) : Res Bool := do
  let n := f.h.w.length
  let inCounts ← bincount f.s.table n
  if (match Prim.max inCounts with | some m => decide (m > 1) | Option.none => false) then pure false
  else do
    let outCounts ← bincount f.t.table n
    if (match Prim.max outCounts with | some m => decide (m > 1) | Option.none => false) then pure false
    else do
      let inDeg ← bincount f.h.t.values.table n
      let outDeg ← bincount f.h.s.values.table n
      let ones := List.replicate n 1
      let a ← add inDeg inCounts
      let b ← add outDeg outCounts
      pure (decide (a = ones) && decide (b = ones))

end OHG
end OH
