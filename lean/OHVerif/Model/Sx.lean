/-
  Wire format of the correspondence check: s-expressions whose atoms are naturals or
  bare symbols.  IMPORT-FREE.
-/
import OHVerif.Model.IC

namespace OH

inductive Sx where
  | n (v : Nat)
  | s (name : String)
  | l (xs : List Sx)
  deriving Repr, Inhabited

namespace Sx

mutual
/-- STRUCTURAL equality on the wire format (the derived `BEq` of a nested inductive is a `partial`,
    hence opaque, definition about which nothing can be proved; this one is proved to be equality in
    `Props/Oracles.lean`: `Sx.beq_iff`) -/
def beq : Sx → Sx → Bool
  | .n a, .n b => a == b
  | .s a, .s b => a == b
  | .l a, .l b => beqL a b
  | _, _ => false
def beqL : List Sx → List Sx → Bool
  | [], [] => true
  | a :: as, b :: bs => beq a b && beqL as bs
  | _, _ => false
end

instance : BEq Sx := ⟨beq⟩

partial def toStr : Sx → String
  | .n v => toString v
  | .s name => name
  | .l xs => "(" ++ " ".intercalate (xs.map toStr) ++ ")"

instance : ToString Sx := ⟨toStr⟩

inductive Tok where
  | lp | rp | nat (v : Nat) | sym (s : String)

def isDigitC (c : Char) : Bool := c.isDigit

partial def tokenize (cs : List Char) (acc : Array Tok) : Array Tok :=
  match cs with
  | [] => acc
  | c :: rest =>
    if c = '(' then tokenize rest (acc.push .lp)
    else if c = ')' then tokenize rest (acc.push .rp)
    else if c = ' ' || c = '\t' || c = '\n' || c = '\r' then tokenize rest acc
    else
      let word := (c :: rest).takeWhile (fun d => !(d = '(' || d = ')' || d = ' ' || d = '\t' || d = '\n' || d = '\r'))
      let rest' := (c :: rest).drop word.length
      let w := String.ofList word
      match w.toNat? with
      | some v => tokenize rest' (acc.push (.nat v))
      | none => tokenize rest' (acc.push (.sym w))

/-- parse a sequence of s-expressions from tokens -/
partial def parseSeq (toks : Array Tok) (i : Nat) (acc : Array Sx) : Option (Array Sx × Nat) :=
  if h : i < toks.size then
    match toks[i] with
    | .rp => some (acc, i)
    | .lp =>
      match parseSeq toks (i + 1) #[] with
      | some (inner, j) =>
        if hj : j < toks.size then
          match toks[j] with
          | .rp => parseSeq toks (j + 1) (acc.push (.l inner.toList))
          | _ => none
        else none
      | none => none
    | .nat v => parseSeq toks (i + 1) (acc.push (.n v))
    | .sym w => parseSeq toks (i + 1) (acc.push (.s w))
  else some (acc, i)

def parseLine (line : String) : Option (List Sx) :=
  let toks := tokenize line.toList #[]
  match parseSeq toks 0 #[] with
  | some (xs, j) => if j = toks.size then some xs.toList else none
  | none => none

end Sx

/-! ### codecs -/

class Enc (α : Type) where
  enc : α → Sx
class Dec (α : Type) where
  dec : Sx → Option α

export Enc (enc)
export Dec (dec)

instance : Enc Nat := ⟨.n⟩
instance : Dec Nat := ⟨fun | .n v => some v | _ => none⟩
instance : Enc Bool := ⟨fun b => .s (if b then "true" else "false")⟩
instance : Dec Bool := ⟨fun | .s "true" => some true | .s "false" => some false | _ => none⟩
instance : Enc Unit := ⟨fun _ => .l []⟩
instance {α} [Enc α] : Enc (List α) := ⟨fun xs => .l (xs.map enc)⟩
instance {α} [Dec α] : Dec (List α) := ⟨fun | .l xs => xs.mapM dec | _ => none⟩
instance {α β} [Enc α] [Enc β] : Enc (α × β) := ⟨fun p => .l [enc p.1, enc p.2]⟩
instance {α β} [Dec α] [Dec β] : Dec (α × β) :=
  ⟨fun | .l [a, b] => do let x ← dec a; let y ← dec b; pure (x, y) | _ => none⟩
instance {α} [Enc α] : Enc (Option α) := ⟨fun | some a => .l [.s "some", enc a] | none => .s "nil"⟩
instance {α} [Dec α] : Dec (Option α) :=
  ⟨fun | .l [.s "some", a] => (dec a).map some | .s "nil" => some none | _ => none⟩

instance : Enc FinFun := ⟨fun f => .l [enc f.table, enc f.target]⟩
instance : Dec FinFun :=
  ⟨fun | .l [t, k] => do let t ← dec t; let k ← dec k; pure ⟨t, k⟩ | _ => none⟩
instance {V} [Enc V] : Enc (IC V) := ⟨fun c => .l [enc c.sources, enc c.values]⟩
instance {V} [Dec V] : Dec (IC V) :=
  ⟨fun | .l [s, v] => do let s ← dec s; let v ← dec v; pure ⟨s, v⟩ | _ => none⟩

instance {α} [Enc α] : Enc (Res α) :=
  ⟨fun | .ok a => .l [.s "ok", enc a] | .none => .s "none" | .panic _ => .s "panic"⟩

/-- the site of a model panic, for diagnostics -/
def Res.site {α} : Res α → String
  | .panic s => s
  | _ => ""

end OH
