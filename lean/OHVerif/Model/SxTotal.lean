/-
  TOTAL replacement of the text layer of the wire format (`Sx.tokenize`, `Sx.parseSeq`,
  `Sx.parseLine`, `Sx.toStr` in `Model/Sx.lean` are `partial`, hence opaque).
  Everything here is structurally recursive, tail recursive where the recursion depth would
  otherwise be the LENGTH of the input (lines are up to 100 kB), and linear time.
  `Props/WireText.lean` proves that `parseLineT` inverts `toStrT`.  IMPORT-FREE.
-/
import OHVerif.Model.Sx

namespace OH
namespace Sx

/-- the delimiter set of the text format (the same as in the partial `tokenize`) -/
def isDelim (c : Char) : Bool :=
  c = '(' || c = ')' || c = ' ' || c = '\t' || c = '\n' || c = '\r'

/-! ### tokenizer -/

/-- the token of a finished word; `w` is the word REVERSED -/
def mkTok (w : List Char) : Tok :=
  let s := String.ofList w.reverse
  match s.toNat? with
  | some v => .nat v
  | none => .sym s

/-- emit the pending word (reversed in `w`), if any, on the reversed output `acc` -/
def flush (w : List Char) (acc : List Tok) : List Tok :=
  match w with
  | [] => acc
  | _ :: _ => mkTok w :: acc

/-- the state machine: `w` = pending word (reversed), `acc` = tokens emitted so far (reversed) -/
def tokGo : List Char → List Char → List Tok → List Tok
  | [], w, acc => (flush w acc).reverse
  | c :: cs, w, acc =>
    if c = '(' then tokGo cs [] (Tok.lp :: flush w acc)
    else if c = ')' then tokGo cs [] (Tok.rp :: flush w acc)
    else if c = ' ' || c = '\t' || c = '\n' || c = '\r' then tokGo cs [] (flush w acc)
    else tokGo cs (c :: w) acc

def tokenizeT (cs : List Char) : List Tok := tokGo cs [] []

/-! ### parser -/

/-- the stack machine: `cur` = finished items of the current frame (reversed),
    `st` = enclosing frames (each reversed), innermost first -/
def parseGo : List Tok → List Sx → List (List Sx) → Option (List Sx)
  | [], cur, [] => some cur.reverse
  | [], _, _ :: _ => none
  | .lp :: ts, cur, st => parseGo ts [] (cur :: st)
  | .rp :: _, _, [] => none
  | .rp :: ts, cur, p :: st => parseGo ts (.l cur.reverse :: p) st
  | .nat v :: ts, cur, st => parseGo ts (.n v :: cur) st
  | .sym w :: ts, cur, st => parseGo ts (.s w :: cur) st

def parseT (toks : List Tok) : Option (List Sx) := parseGo toks [] []

def parseLineT (line : String) : Option (List Sx) := parseT (tokenizeT line.toList)

/-! ### printer -/

mutual
/-- the canonical text of an s-expression (SPECIFICATION of the printer; recursion depth is the
    number of items, use `toStrT` to print) -/
def toCharsT : Sx → List Char
  | .n v => (Nat.repr v).toList
  | .s name => name.toList
  | .l [] => ['(', ')']
  | .l (x :: xs) => '(' :: (toCharsT x ++ (toCharsTail xs ++ [')']))
/-- every item preceded by one space -/
def toCharsTail : List Sx → List Char
  | [] => []
  | x :: xs => ' ' :: (toCharsT x ++ toCharsTail xs)
end

mutual
/-- the printer proper: pushes the text of `s`, REVERSED, on `acc`; the recursion depth is the
    nesting depth of `s` only.  `toRev_eq` (Props/WireText.lean): `toRev s acc = (toCharsT s).reverse ++ acc` -/
def toRev : Sx → List Char → List Char
  | .n v, acc => (Nat.repr v).toList.reverseAux acc
  | .s name, acc => name.toList.reverseAux acc
  | .l [], acc => ')' :: '(' :: acc
  | .l (x :: xs), acc => ')' :: toRevTail xs (toRev x ('(' :: acc))
def toRevTail : List Sx → List Char → List Char
  | [], acc => acc
  | x :: xs, acc => toRevTail xs (toRev x (' ' :: acc))
end

def toStrT (s : Sx) : String := String.ofList (toRev s []).reverse

/-- a whole line: the items separated by single spaces -/
def lineT (items : List Sx) : String := " ".intercalate (items.map toStrT)

end Sx
end OH
