/-
  FAITHFUL executable model of the Vec backend's connected-components code
  (src/array/vec/connected_components.rs: `UnionFind::{new, find, union}`,
  `connected_components`, `to_dense`) and of `sparse_bincount`
  (src/array/vec/vec_array.rs), mirroring the Rust line by line:
  union by rank, path compression, `HashMap`s modelled as association lists.
  `OHVerif/Props/C07UnionFind.lean` proves that these return exactly what the canonical-output
  algorithms `VecB.cc` / `VecB.sparseBincount` of `Model/Prim.lean` return.

  Every `Vec` index is a panic site.  All index panics inside union-find carry the site
  `"cc:index"` (the site `Prim.connectedComponents` uses for an out-of-range node).
  The recursion of `find` is driven by fuel; running out of fuel is the explicit panic
  `"uf:fuel"` (proved unreachable: `OH.C07.uf_fuel_suffices`).
  IMPORT-FREE.
-/
import OHVerif.Model.Prim

namespace OH

/-- `struct UnionFind { parent: Vec<usize>, rank: Vec<usize> }` -/
structure UF where
  /-- arbitrarily chosen ancestor of each node -/
  parent : List Nat
  /-- used to order subtrees by depth -/
  rank : List Nat
  deriving Repr, DecidableEq

namespace UF

/-- `UnionFind::new(n)`: `parent: (0..n).collect(), rank: vec![0; n]` -/
def new (n : Nat) : UF := { parent := List.range n, rank := List.replicate n 0 }

/-- the read `self.parent[x]` -/
def getParent (uf : UF) (x : Nat) : Res Nat := Res.ofOption uf.parent[x]? "cc:index"

/-- the write `self.parent[x] = v` -/
def setParent (uf : UF) (x v : Nat) : Res UF :=
  if x < uf.parent.length then .ok { uf with parent := uf.parent.set x v } else .panic "cc:index"

/-- the read `self.rank[x]` -/
def getRank (uf : UF) (x : Nat) : Res Nat := Res.ofOption uf.rank[x]? "cc:index"

/-- the write `self.rank[x] = v` -/
def setRank (uf : UF) (x v : Nat) : Res UF :=
  if x < uf.rank.length then .ok { uf with rank := uf.rank.set x v } else .panic "cc:index"

/--
```
fn find(&mut self, x: usize) -> usize {
    if self.parent[x] != x {
        self.parent[x] = self.find(self.parent[x]);
    }
    self.parent[x]
}
```
with the recursion depth bounded by `fuel` (structural recursion on the fuel).
-/
def findFuel : Nat → UF → Nat → Res (UF × Nat)
  | 0, _, _ => .panic "uf:fuel"
  | fuel + 1, uf, x => do
    let p ← uf.getParent x                       -- `self.parent[x]`
    let uf ←
      if p != x then do
        let (uf, r) ← findFuel fuel uf p         -- `self.find(self.parent[x])`
        uf.setParent x r                         -- `self.parent[x] = …`
      else pure uf
    let r ← uf.getParent x                       -- `self.parent[x]`
    pure (uf, r)

/-- `find` with fuel `parent.len()` (a path in a forest over `n` nodes visits `≤ n` nodes). -/
def find (uf : UF) (x : Nat) : Res (UF × Nat) := findFuel uf.parent.length uf x

/--
```
fn union(&mut self, x: usize, y: usize) {
    let root_x = self.find(x);
    let root_y = self.find(y);
    if root_x != root_y {
        if self.rank[root_x] > self.rank[root_y] {
            self.parent[root_y] = root_x;
        } else if self.rank[root_x] < self.rank[root_y] {
            self.parent[root_x] = root_y;
        } else {
            self.parent[root_y] = root_x;
            self.rank[root_x] += 1;
        }
    }
}
```
-/
def union (uf : UF) (x y : Nat) : Res UF := do
  let (uf, rootX) ← uf.find x
  let (uf, rootY) ← uf.find y
  if rootX != rootY then do
    let rx ← uf.getRank rootX
    let ry ← uf.getRank rootY
    if rx > ry then
      uf.setParent rootY rootX
    else do
      let rx ← uf.getRank rootX
      let ry ← uf.getRank rootY
      if rx < ry then
        uf.setParent rootX rootY
      else do
        let uf ← uf.setParent rootY rootX
        let rx ← uf.getRank rootX                -- `self.rank[root_x] += 1`
        uf.setRank rootX (rx + 1)
  else pure uf

/-- `for (u, v) in sources.iter().zip(targets) { uf.union(*u, *v); }` -/
def unionAll : UF → List (Nat × Nat) → Res UF
  | uf, [] => .ok uf
  | uf, (u, v) :: es => do
    let uf ← uf.union u v
    unionAll uf es

/-- `nodes.map(|i| uf.find(i)).collect::<Vec<_>>()` (the closure mutates `uf`) -/
def findAll : UF → List Nat → Res (UF × List Nat)
  | uf, [] => .ok (uf, [])
  | uf, i :: is => do
    let (uf, r) ← uf.find i
    let (uf, rs) ← findAll uf is
    pure (uf, r :: rs)

end UF

/--
The loop of `to_dense`; `representative_nodes : HashMap<usize, usize>` is the association list
`map` (`get` = `List.lookup`; `insert` of an absent key = cons), `dense.push` appends.
```
for a in sparse {
    if let Some(found_component_number) = representative_nodes.get(a) {
        dense.push(*found_component_number);
    } else {
        representative_nodes.insert(*a, num_components);
        dense.push(num_components);
        num_components += 1;
    }
}
(dense, num_components)
```
-/
def toDenseHashLoop : List Nat → List (Nat × Nat) → Nat → List Nat → List Nat × Nat
  | [], _, numComponents, dense => (dense, numComponents)
  | a :: rest, map, numComponents, dense =>
    match map.lookup a with
    | some found => toDenseHashLoop rest map numComponents (dense ++ [found])
    | Option.none =>
      toDenseHashLoop rest ((a, numComponents) :: map) (numComponents + 1) (dense ++ [numComponents])

/-- `to_dense(sparse)` -/
def toDenseHash (sparse : List Nat) : List Nat × Nat := toDenseHashLoop sparse [] 0 []

/--
```
pub fn connected_components(sources: &[usize], targets: &[usize], n: usize) -> (Vec<usize>, usize) {
    assert_eq!(sources.len(), targets.len());
    assert!(n > 0 || sources.is_empty());
    let mut uf = UnionFind::new(n);
    for (u, v) in sources.iter().zip(targets) { uf.union(*u, *v); }
    let node_to_other_node = (0..n).map(|i| uf.find(i)).collect::<Vec<_>>();
    let (node_to_component_number, num_components) = to_dense(&node_to_other_node);
    (node_to_component_number, num_components)
}
```
-/
def connectedComponentsUF (s t : List Nat) (n : Nat) : Res (List Nat × Nat) := do
  Res.assert (s.length == t.length) "cc:assert-len"
  Res.assert (decide (n > 0) || s.isEmpty) "cc:assert-empty"
  let uf := UF.new n
  let uf ← uf.unionAll (s.zip t)
  let (_, nodeToOtherNode) ← uf.findAll (List.range n)
  pure (toDenseHash nodeToOtherNode)

/-! ### `sparse_bincount` -/

/-- `*counts_map.entry(idx).or_insert(0) += 1` on an association list (the key keeps its place) -/
def countsMapBump (idx : Nat) : List (Nat × Nat) → List (Nat × Nat)
  | [] => [(idx, 0 + 1)]
  | (k, c) :: m => if k == idx then (k, c + 1) :: m else (k, c) :: countsMapBump idx m

/-- `unique_indices.iter().map(|&idx| counts_map[&idx]).collect()` -/
def countsMapIndexAll (m : List (Nat × Nat)) : List Nat → Res (List Nat)
  | [] => .ok []
  | idx :: rest => do
    let c ← Res.ofOption (m.lookup idx) "sparse_bincount:key"   -- `counts_map[&idx]`
    let cs ← countsMapIndexAll m rest
    pure (c :: cs)

/--
```
let mut counts_map = HashMap::new();
for &idx in self.iter() { *counts_map.entry(idx).or_insert(0) += 1; }
let mut unique_indices: Vec<_> = counts_map.keys().cloned().collect();
unique_indices.sort_unstable();
let counts: Vec<_> = unique_indices.iter().map(|&idx| counts_map[&idx]).collect();
(VecArray(unique_indices), VecArray(counts))
```
`keys()` enumerates in an unspecified order (here: the association-list order); the keys are
distinct, so every sort returns the same array.  `counts_map[&idx]` panics on a missing key.
-/
def sparseBincountHash (xs : List Nat) : Res (List Nat × List Nat) := do
  let countsMap := xs.foldl (fun m idx => countsMapBump idx m) []
  let uniqueIndices := (countsMap.map Prod.fst).mergeSort (fun a b => decide (a ≤ b))
  let counts ← countsMapIndexAll countsMap uniqueIndices
  pure (uniqueIndices, counts)

end OH
