/-
  The Var builder (src/lax/var/var.rs, operators.rs) as a state machine over the lax model:
  `Var::new`, `new_source`, `new_target`, `operation` / `fn_operation` / the operator overloads
  (all of which are `operation` with one result), and `build`.  IMPORT-FREE.
-/
import OHVerif.Model.Functor

namespace OH
namespace VarB

abbrev LF := LOHG Nat Nat


structure VarH where
  edgeId : Nat
  label : Nat

def varNew (f : LF) (label : Nat) : LF × VarH :=
  let (h, e, _) := f.hypergraph.newOperation 99 [] []
  ({ f with hypergraph := h }, ⟨e, label⟩)

def varNewSource (f : LF) (v : VarH) : Res (LF × Nat) :=
  (f.hypergraph.addEdgeSource v.edgeId v.label).bind fun r => .ok ({ f with hypergraph := r.1 }, r.2)

def varNewTarget (f : LF) (v : VarH) : Res (LF × Nat) :=
  (f.hypergraph.addEdgeTarget v.edgeId v.label).bind fun r => .ok ({ f with hypergraph := r.1 }, r.2)

/-- `operation(builder, vars, result_types, op)` -/
def varOperation (f : LF) (vars : List VarH) (resultTypes : List Nat) (op : Nat) : Res (LF × List VarH) := do
  let (f1, nodes) ← vars.foldlM (fun (acc : LF × List Nat) v => do
    let (f', n) ← varNewTarget acc.1 v
    pure (f', acc.2 ++ [n])) (f, [])
  let (f2, rvars) := resultTypes.foldl (fun (acc : LF × List VarH) t =>
    let (f', v) := varNew acc.1 t
    (f', acc.2 ++ [v])) (f1, [])
  let (f3, rnodes) ← rvars.foldlM (fun (acc : LF × List Nat) v => do
    let (f', n) ← varNewSource acc.1 v
    pure (f', acc.2 ++ [n])) (f2, [])
  let (h, _) := f3.hypergraph.newEdge op ⟨nodes, rnodes⟩
  pure ({ f3 with hypergraph := h }, rvars)


/-- a straight-line program over variable handles: instruction k appends its result handles -/
inductive VarIns where
  /-- `operation(builder, args, result_types, op)`; binary/unary operator overloads and
      `fn_operation` are the special case of one result whose label is given -/
  | op (label : Nat) (args : List Nat) (resultTypes : List Nat)
  deriving Repr

def getVar (vars : List VarH) (i : Nat) : Res VarH := Res.ofOption vars[i]? "var:index"

def runVarIns (f : LF) (vars : List VarH) : VarIns → Res (LF × List VarH)
  | .op label args resultTypes => do
    let av ← args.mapM (getVar vars)
    let (f', rs) ← varOperation f av resultTypes label
    pure (f', vars ++ rs)

/-- `build(|state| …)`: declare one input variable per entry of `inLabels` (its node label), run the program, then take a fresh source of
    every input and a fresh target of every output as the interfaces -/
def varBuildProg (inLabels : List Nat) (prog : List VarIns) (outs : List Nat) : Res LF := do
  let (f0, inputs) := inLabels.foldl (fun (acc : LF × List VarH) lab =>
    let (f', v) := varNew acc.1 lab
    (f', acc.2 ++ [v])) ((LOHG.empty : LF), [])
  let (f, vars) ← prog.foldlM (fun (acc : LF × List VarH) ins => runVarIns acc.1 acc.2 ins) (f0, inputs)
  let outv ← outs.mapM (getVar vars)
  let (f1, srcs) ← inputs.foldlM (fun (acc : LF × List Nat) v => do
    let (f', n) ← varNewSource acc.1 v
    pure (f', acc.2 ++ [n])) (f, [])
  let f1 := { f1 with sources := srcs }
  let (f2, tgts) ← outv.foldlM (fun (acc : LF × List Nat) v => do
    let (f', n) ← varNewTarget acc.1 v
    pure (f', acc.2 ++ [n])) (f1, [])
  pure { f2 with targets := tgts }

end VarB
end OH
