/-
  C02 — the tensor of `f` and `g` is literally `f` followed by `g`.

  The nodes, hyperedges and both interfaces of `f` come first and those of `g` follow with node
  indices shifted by `f`'s node count; nothing is merged, dropped or reordered, and the type of the
  result is the concatenation of the two types.  Consequently tensoring is associative and has the
  empty diagram as two-sided unit ON THE NOSE (equal data, not merely isomorphic), in the strict
  and in the lax representation.

  Property theorems only; the work is in `OHVerif.Lemmas.Tensor`.
-/
import OHVerif.Lemmas.Tensor

namespace OH.C02
open OH

variable {O A : Type}

/-! ### witnesses used by the `example`s: two non-trivial well-formed diagrams -/

/-- 3 nodes, one operation `7 : [0,1] → [2]`, inputs `0 1`, output `2` -/
def exF : OHG Nat Nat :=
  ⟨⟨[0, 1], 3⟩, ⟨[2], 3⟩, ⟨⟨⟨[2], 3⟩, ⟨[0, 1], 3⟩⟩, ⟨⟨[1], 2⟩, ⟨[2], 3⟩⟩, [10, 11, 12], [7]⟩⟩

/-- 2 nodes, operations `8 : [] → [0]` (empty source list) and `9 : [0,0] → [1]`, no inputs,
    output interface `1 1` (a repeated node) -/
def exG : OHG Nat Nat :=
  ⟨⟨[], 2⟩, ⟨[1, 1], 2⟩, ⟨⟨⟨[0, 2], 3⟩, ⟨[0, 0], 2⟩⟩, ⟨⟨[1, 1], 3⟩, ⟨[0, 1], 2⟩⟩, [20, 21], [8, 9]⟩⟩

/-- 1 node, no operation, identity interfaces -/
def exH : OHG Nat Nat :=
  ⟨⟨[0], 1⟩, ⟨[0], 1⟩, ⟨⟨⟨[], 1⟩, ⟨[], 1⟩⟩, ⟨⟨[], 1⟩, ⟨[], 1⟩⟩, [30], []⟩⟩

/-- a malformed diagram: the size maps have codomain `0` (impossible for a valid segmented array,
    whose codomain is `sum + 1`) -/
def exBad : OHG Nat Nat :=
  ⟨⟨[], 0⟩, ⟨[], 0⟩, ⟨⟨⟨[], 0⟩, ⟨[], 0⟩⟩, ⟨⟨[], 0⟩, ⟨[], 0⟩⟩, [], []⟩⟩

example : exF.wf = true ∧ exG.wf = true ∧ exH.wf = true ∧ exBad.wf = false := by decide

/-! ### 0. complete case analysis (ALL inputs, well-formed or not) -/

/-- `OHG.tensor` on arbitrary input: it never answers `none`; it panics (at the checked
    subtraction in `IC.tensor`) exactly when, for the sources or for the targets, BOTH size maps
    have codomain `0`; otherwise it returns the field-wise juxtaposition. -/
theorem tensor_total (f g : OHG O A) :
    OHG.tensor f g =
      if 1 ≤ f.h.s.sources.target + g.h.s.sources.target ∧
         1 ≤ f.h.t.sources.target + g.h.t.sources.target
      then .ok ⟨FinFun.tensor f.s g.s, FinFun.tensor f.t g.t,
        ⟨⟨⟨f.h.s.sources.table ++ g.h.s.sources.table,
            f.h.s.sources.target + g.h.s.sources.target - 1⟩, FinFun.tensor f.h.s.values g.h.s.values⟩,
         ⟨⟨f.h.t.sources.table ++ g.h.t.sources.table,
            f.h.t.sources.target + g.h.t.sources.target - 1⟩, FinFun.tensor f.h.t.values g.h.t.values⟩,
         f.h.w ++ g.h.w, f.h.x ++ g.h.x⟩⟩
      else .panic "ic.tensor:underflow" :=
  Tensor.ohg_tensor_total f g

/-- the panic site is reachable on malformed input -/
example : OHG.tensor exBad exBad = .panic "ic.tensor:underflow" := rfl

/-! ### 1. no panic / `none` on well-formed input, and the result is well-formed -/

theorem tensor_ok (f g : OHG O A) (hf : f.wf) (hg : g.wf) :
    ∃ r, OHG.tensor f g = .ok r ∧ r.wf :=
  ⟨_, Tensor.ohg_tensor_ok_left f g hf, Tensor.ohgTensorD_wf f g hf hg⟩

/-- one well-formed factor already rules out the panic (a valid segmented array has
    `sources.target = sum + 1 ≥ 1`) -/
theorem tensor_ok_of_left (f g : OHG O A) (hf : f.wf) : ∃ r, OHG.tensor f g = .ok r :=
  ⟨_, Tensor.ohg_tensor_ok_left f g hf⟩

theorem tensor_ok_of_right (f g : OHG O A) (hg : g.wf) : ∃ r, OHG.tensor f g = .ok r :=
  ⟨_, Tensor.ohg_tensor_ok_right f g hg⟩

example : exF.wf ∧ exG.wf ∧ ∃ r, OHG.tensor exF exG = .ok r ∧ r.wf := ⟨by decide, by decide, _, rfl, by decide⟩

/-! ### 2. every raw field of the result -/

/-- whenever the tensor returns a value (in particular on well-formed input, `tensor_ok`), every
    raw field is the juxtaposition of the corresponding fields; no well-formedness is needed -/
theorem tensor_fields (f g r : OHG O A) (h : OHG.tensor f g = .ok r) :
    r.s = FinFun.tensor f.s g.s ∧ r.t = FinFun.tensor f.t g.t ∧
    r.h.w = f.h.w ++ g.h.w ∧ r.h.x = f.h.x ++ g.h.x ∧
    r.h.s.sources.table = f.h.s.sources.table ++ g.h.s.sources.table ∧
    r.h.s.sources.target = f.h.s.sources.target + g.h.s.sources.target - 1 ∧
    r.h.s.values = FinFun.tensor f.h.s.values g.h.s.values ∧
    r.h.t.sources.table = f.h.t.sources.table ++ g.h.t.sources.table ∧
    r.h.t.sources.target = f.h.t.sources.target + g.h.t.sources.target - 1 ∧
    r.h.t.values = FinFun.tensor f.h.t.values g.h.t.values := by
  rw [Tensor.ohg_tensor_total] at h
  split at h
  · cases h; exact ⟨rfl, rfl, rfl, rfl, rfl, rfl, rfl, rfl, rfl, rfl⟩
  · cases h

/-- `FinFun.tensor` spelled out: tables concatenated, the second shifted by the first codomain -/
theorem finfun_tensor_fields (a b : FinFun) :
    (FinFun.tensor a b).table = a.table ++ b.table.map (a.target + ·) ∧
    (FinFun.tensor a b).target = a.target + b.target := ⟨rfl, rfl⟩

/-- under well-formedness the size-map codomain is again `sum + 1` (so `… - 1` loses nothing) and
    the segments (the per-hyperedge node lists) of the result are those of `f` followed by those of
    `g` shifted by `f`'s node count -/
theorem tensor_segs (f g r : OHG O A) (hf : f.wf) (hg : g.wf) (h : OHG.tensor f g = .ok r) :
    r.h.s.sources.target = (f.h.s.sources.table ++ g.h.s.sources.table).sum + 1 ∧
    r.h.t.sources.target = (f.h.t.sources.table ++ g.h.t.sources.table).sum + 1 ∧
    r.h.s.segs = f.h.s.segs ++ g.h.s.segs.map (·.map (f.h.w.length + ·)) ∧
    r.h.t.segs = f.h.t.segs ++ g.h.t.segs.map (·.map (f.h.w.length + ·)) := by
  rw [Tensor.ohg_tensor_ok_left f g hf] at h
  cases h
  obtain ⟨f1, -⟩ := (Tensor.ohg_wf_iff f).1 hf
  obtain ⟨g1, -⟩ := (Tensor.ohg_wf_iff g).1 hg
  obtain ⟨fs, ft, -, -, f5, f6⟩ := (Tensor.hg_wf_iff _).1 f1
  obtain ⟨gs, gt, -⟩ := (Tensor.hg_wf_iff _).1 g1
  have vfs := ((Tensor.ic_wf_iff _).1 fs).1
  have vft := ((Tensor.ic_wf_iff _).1 ft).1
  have vs := Tensor.icTensorD_valid _ _ vfs ((Tensor.ic_wf_iff _).1 gs).1
  have vt := Tensor.icTensorD_valid _ _ vft ((Tensor.ic_wf_iff _).1 gt).1
  refine ⟨((IC.valid_iff _).1 vs).1, ((IC.valid_iff _).1 vt).1, ?_, ?_⟩
  · rw [← f5]; exact Tensor.icTensorD_segs _ _ vfs
  · rw [← f6]; exact Tensor.icTensorD_segs _ _ vft

example : exF.wf ∧ exG.wf ∧
    OHG.tensor exF exG = .ok ⟨⟨[0, 1], 5⟩, ⟨[2, 4, 4], 5⟩,
      ⟨⟨⟨[2, 0, 2], 5⟩, ⟨[0, 1, 3, 3], 5⟩⟩, ⟨⟨[1, 1, 1], 4⟩, ⟨[2, 3, 4], 5⟩⟩,
       [10, 11, 12, 20, 21], [7, 8, 9]⟩⟩ := ⟨by decide, by decide, rfl⟩

/-! ### 3. reading on the plain model: juxtaposition -/

/-- nodes, hyperedges (label, ordered source list, ordered target list) and both interfaces of the
    result are those of `f` followed by those of `g` shifted by `f`'s node count.  Only `f` has to be
    well-formed (its declared codomains must agree with its node count). -/
theorem tensor_toPlain (f g r : OHG O A) (hf : f.wf) (h : OHG.tensor f g = .ok r) :
    r.toPlain = PDiag.juxt f.toPlain g.toPlain := by
  rw [Tensor.ohg_tensor_ok_left f g hf] at h
  cases h
  exact Tensor.ohgTensorD_toPlain f g hf

/-- `PDiag.juxt` spelled out (the definition of "literally `f` followed by `g`") -/
theorem juxt_fields (P Q : PDiag O A) :
    (PDiag.juxt P Q).nodes = P.nodes ++ Q.nodes ∧
    (PDiag.juxt P Q).edges = P.edges ++
      Q.edges.map (fun e => ⟨e.label, e.src.map (P.nodes.length + ·), e.tgt.map (P.nodes.length + ·)⟩) ∧
    (PDiag.juxt P Q).ins = P.ins ++ Q.ins.map (P.nodes.length + ·) ∧
    (PDiag.juxt P Q).outs = P.outs ++ Q.outs.map (P.nodes.length + ·) := ⟨rfl, rfl, rfl, rfl⟩

example : exF.wf ∧ exG.wf ∧ ∃ r, OHG.tensor exF exG = .ok r ∧
    r.toPlain = ⟨[10, 11, 12, 20, 21], [⟨7, [0, 1], [2]⟩, ⟨8, [], [3]⟩, ⟨9, [3, 3], [4]⟩],
      [0, 1], [2, 4, 4]⟩ := ⟨by decide, by decide, _, rfl, by decide⟩

/-- without well-formedness of `f` the reading fails: here `f` declares codomain `5` for its
    interface maps but has `0` nodes, so `g`'s interface is shifted by `5` instead of `0` -/
example :
    let f : OHG Nat Nat := ⟨⟨[], 5⟩, ⟨[], 5⟩, HG.empty⟩
    f.wf = false ∧ ∃ r, OHG.tensor f exH = .ok r ∧ r.toPlain ≠ PDiag.juxt f.toPlain exH.toPlain :=
  ⟨by decide, _, rfl, by decide⟩

/-! ### 4. the type of the result is the concatenation of the types -/

theorem tensor_type (f g r : OHG O A) (hf : f.wf) (hg : g.wf) (h : OHG.tensor f g = .ok r) :
    (∃ a b, f.source = .ok a ∧ g.source = .ok b ∧ r.source = .ok (a ++ b)) ∧
    (∃ a b, f.target = .ok a ∧ g.target = .ok b ∧ r.target = .ok (a ++ b)) := by
  rw [Tensor.ohg_tensor_ok_left f g hf] at h
  cases h
  exact ⟨⟨_, _, Tensor.ohg_source_ok f hf, Tensor.ohg_source_ok g hg, Tensor.ohgTensorD_source f g hf hg⟩,
         ⟨_, _, Tensor.ohg_target_ok f hf, Tensor.ohg_target_ok g hg, Tensor.ohgTensorD_target f g hf hg⟩⟩

/-- the same as equations between computations -/
theorem tensor_type_eq (f g r : OHG O A) (hf : f.wf) (hg : g.wf) (h : OHG.tensor f g = .ok r) :
    r.source = (do let a ← f.source; let b ← g.source; pure (a ++ b)) ∧
    r.target = (do let a ← f.target; let b ← g.target; pure (a ++ b)) := by
  obtain ⟨⟨a, b, ha, hb, hr⟩, ⟨a', b', ha', hb', hr'⟩⟩ := tensor_type f g r hf hg h
  rw [ha, hb, hr, ha', hb', hr']
  exact ⟨rfl, rfl⟩

example : exF.wf ∧ exG.wf ∧ exF.source = .ok [10, 11] ∧ exG.source = .ok [] ∧
    exF.target = .ok [12] ∧ exG.target = .ok [21, 21] ∧
    ∃ r, OHG.tensor exF exG = .ok r ∧ r.source = .ok [10, 11] ∧ r.target = .ok [12, 21, 21] :=
  ⟨by decide, by decide, by decide, by decide, by decide, by decide, _, rfl, by decide, by decide⟩

/-! ### 5. associativity on the nose -/

theorem tensor_assoc (f g h : OHG O A) (hf : f.wf) (hg : g.wf) (hh : h.wf) :
    (OHG.tensor f g >>= fun fg => OHG.tensor fg h) = (OHG.tensor g h >>= fun gh => OHG.tensor f gh) ∧
    ∃ r, (OHG.tensor f g >>= fun fg => OHG.tensor fg h) = .ok r ∧ r.wf := by
  have hfg := Tensor.ohgTensorD_wf f g hf hg
  have hgh := Tensor.ohgTensorD_wf g h hg hh
  have e1 : (OHG.tensor f g >>= fun fg => OHG.tensor fg h) = .ok (Tensor.ohgTensorD (Tensor.ohgTensorD f g) h) := by
    rw [Tensor.ohg_tensor_ok_left f g hf, Res.ok_bind, Tensor.ohg_tensor_ok_left _ h hfg]
  have e2 : (OHG.tensor g h >>= fun gh => OHG.tensor f gh) = .ok (Tensor.ohgTensorD f (Tensor.ohgTensorD g h)) := by
    rw [Tensor.ohg_tensor_ok_left g h hg, Res.ok_bind, Tensor.ohg_tensor_ok_left f _ hf]
  rw [e1, e2, Tensor.ohgTensorD_assoc f g h (Tensor.ohg_wf_pos g hg)]
  exact ⟨rfl, _, rfl, Tensor.ohgTensorD_wf f _ hf hgh⟩

example : exF.wf ∧ exG.wf ∧ exH.wf ∧
    (OHG.tensor exF exG >>= fun fg => OHG.tensor fg exH) =
      .ok ⟨⟨[0, 1, 5], 6⟩, ⟨[2, 4, 4, 5], 6⟩,
        ⟨⟨⟨[2, 0, 2], 5⟩, ⟨[0, 1, 3, 3], 6⟩⟩, ⟨⟨[1, 1, 1], 4⟩, ⟨[2, 3, 4], 6⟩⟩,
         [10, 11, 12, 20, 21, 30], [7, 8, 9]⟩⟩ :=
  ⟨by decide, by decide, by decide, rfl⟩

/-- the hypothesis matters: on malformed input the two bracketings differ (one panics, the other
    returns a value) -/
example :
    (OHG.tensor exBad exBad >>= fun fg => OHG.tensor fg exG) = .panic "ic.tensor:underflow" ∧
    ∃ r, (OHG.tensor exBad exG >>= fun gh => OHG.tensor exBad gh) = .ok r := ⟨rfl, _, rfl⟩

/-! ### 6. the empty diagram is a two-sided unit on the nose -/

/-- `identity []` is the empty diagram -/
theorem identity_nil : (OHG.identity [] : Res (OHG O A)) = .ok ⟨⟨[], 0⟩, ⟨[], 0⟩, HG.empty⟩ :=
  Tensor.ohg_identity_nil

theorem empty_wf_toPlain :
    (⟨⟨[], 0⟩, ⟨[], 0⟩, HG.empty⟩ : OHG O A).wf = true ∧
    (⟨⟨[], 0⟩, ⟨[], 0⟩, HG.empty⟩ : OHG O A).toPlain = PDiag.empty := ⟨rfl, rfl⟩

/-- holds for EVERY `f` (no well-formedness needed) -/
theorem tensor_unit_left (f : OHG O A) : (OHG.identity [] >>= fun e => OHG.tensor e f) = .ok f := by
  rw [identity_nil, Res.ok_bind, Tensor.ohg_tensor_total, if_pos ⟨by simp [HG.empty, IC.initial, FinFun.initial],
    by simp [HG.empty, IC.initial, FinFun.initial]⟩, Tensor.ohgTensorD_empty_left]

theorem tensor_unit_right (f : OHG O A) : (OHG.identity [] >>= fun e => OHG.tensor f e) = .ok f := by
  rw [identity_nil, Res.ok_bind, Tensor.ohg_tensor_total, if_pos ⟨by simp [HG.empty, IC.initial, FinFun.initial],
    by simp [HG.empty, IC.initial, FinFun.initial]⟩, Tensor.ohgTensorD_empty_right]

example : (OHG.identity [] >>= fun e => OHG.tensor e exG) = .ok exG ∧
    (OHG.identity [] >>= fun e => OHG.tensor exG e) = .ok exG := ⟨rfl, rfl⟩

/-! ### the same laws for juxtaposition of plain diagrams (sanity of the vocabulary) -/

theorem juxt_assoc (P Q R : PDiag O A) :
    PDiag.juxt (PDiag.juxt P Q) R = PDiag.juxt P (PDiag.juxt Q R) := by
  simp [PDiag.juxt, PDiag.n, PEdge.mapNodes, Function.comp_def, Nat.add_assoc]

theorem juxt_empty_left (P : PDiag O A) : PDiag.juxt PDiag.empty P = P := by
  obtain ⟨n, e, i, o⟩ := P
  have : (PEdge.mapNodes (fun x => x) : PEdge A → PEdge A) = id := by
    funext e; cases e; simp [PEdge.mapNodes]
  simp [PDiag.juxt, PDiag.n, PDiag.empty, this]

theorem juxt_empty_right (P : PDiag O A) : PDiag.juxt P PDiag.empty = P := by
  obtain ⟨n, e, i, o⟩ := P
  simp [PDiag.juxt, PDiag.empty]

/-! ### 7. the lax representation -/

/-- every field of the lax tensor: nodes and edge labels concatenated; adjacency, both interfaces
    and both lists of pending unification pairs of `g` shifted by `f`'s node count -/
theorem lax_tensor_fields (f g : LOHG O A) :
    let n := f.hypergraph.nodes.length
    (LOHG.tensor f g).sources = f.sources ++ g.sources.map (· + n) ∧
    (LOHG.tensor f g).targets = f.targets ++ g.targets.map (· + n) ∧
    (LOHG.tensor f g).hypergraph.nodes = f.hypergraph.nodes ++ g.hypergraph.nodes ∧
    (LOHG.tensor f g).hypergraph.edges = f.hypergraph.edges ++ g.hypergraph.edges ∧
    (LOHG.tensor f g).hypergraph.adjacency = f.hypergraph.adjacency ++
      g.hypergraph.adjacency.map (fun e => ⟨e.sources.map (· + n), e.targets.map (· + n)⟩) ∧
    (LOHG.tensor f g).hypergraph.quotient.1 =
      f.hypergraph.quotient.1 ++ g.hypergraph.quotient.1.map (· + n) ∧
    (LOHG.tensor f g).hypergraph.quotient.2 =
      f.hypergraph.quotient.2 ++ g.hypergraph.quotient.2.map (· + n) :=
  ⟨rfl, rfl, rfl, rfl, rfl, rfl, rfl⟩

/-- no hypotheses: associativity holds for all lax diagrams, pending unification pairs included -/
theorem lax_tensor_assoc (f g h : LOHG O A) :
    LOHG.tensor (LOHG.tensor f g) h = LOHG.tensor f (LOHG.tensor g h) := by
  simp only [LOHG.tensor, Tensor.lhg_coproduct_assoc]
  simp [LHG.coproduct, Function.comp_def, Nat.add_assoc,
    Nat.add_comm g.hypergraph.nodes.length f.hypergraph.nodes.length]

theorem lax_tensor_unit_left (f : LOHG O A) : LOHG.tensor LOHG.empty f = f := by
  obtain ⟨s, t, h⟩ := f
  have hn : (LHG.empty : LHG O A).nodes.length = 0 := rfl
  simp [LOHG.tensor, LOHG.empty, Tensor.lhg_coproduct_empty_left, hn]

theorem lax_tensor_unit_right (f : LOHG O A) : LOHG.tensor f LOHG.empty = f := by
  obtain ⟨s, t, h⟩ := f
  simp [LOHG.tensor, LOHG.empty, Tensor.lhg_coproduct_empty_right]

/-- the in-place variants produce the same data -/
theorem lax_tensor_assign_eq (f g : LOHG O A) : LOHG.tensorAssign f g = LOHG.tensor f g := rfl

theorem lax_coproductAssign_eq (g h : LHG O A) : LHG.coproductAssign g h = LHG.coproduct g h := rfl

/-- `append` leaves the interfaces of `f` alone, replaces the hypergraph by the coproduct and
    returns the interfaces of `g` shifted by `f`'s node count -/
theorem lax_append_eq (f g : LOHG O A) :
    LOHG.append f g =
      (⟨f.sources, f.targets, LHG.coproduct f.hypergraph g.hypergraph⟩,
       (g.sources.map (· + f.hypergraph.nodes.length), g.targets.map (· + f.hypergraph.nodes.length))) :=
  rfl

/-- the lax coproduct is associative and unital on the nose as well -/
theorem lax_coproduct_assoc (f g h : LHG O A) :
    LHG.coproduct (LHG.coproduct f g) h = LHG.coproduct f (LHG.coproduct g h) :=
  Tensor.lhg_coproduct_assoc f g h

theorem lax_coproduct_unit (f : LHG O A) :
    LHG.coproduct LHG.empty f = f ∧ LHG.coproduct f LHG.empty = f :=
  ⟨Tensor.lhg_coproduct_empty_left f, Tensor.lhg_coproduct_empty_right f⟩

/-- lax witnesses: `lF` has a pending unification pair -/
def lF : LOHG Nat Nat := ⟨[0, 1], [2], ⟨[10, 11, 12], [7], [⟨[0, 1], [2]⟩], ([0], [1])⟩⟩
def lG : LOHG Nat Nat := ⟨[], [1, 1], ⟨[20, 21], [8, 9], [⟨[], [0]⟩, ⟨[0, 0], [1]⟩], ([1], [0])⟩⟩

example : lF.wf = true ∧ lG.wf = true ∧
    LOHG.tensor lF lG = ⟨[0, 1], [2, 4, 4],
      ⟨[10, 11, 12, 20, 21], [7, 8, 9], [⟨[0, 1], [2]⟩, ⟨[], [3]⟩, ⟨[3, 3], [4]⟩], ([0, 4], [1, 3])⟩⟩ := by
  decide

/-- the lax tensor preserves well-formedness -/
theorem lax_tensor_wf (f g : LOHG O A) (hf : f.wf) (hg : g.wf) : (LOHG.tensor f g).wf :=
  Tensor.lohg_tensor_wf f g hf hg

example : lF.wf ∧ lG.wf ∧ (LOHG.tensor lF lG).wf := by decide

/-- the type of a lax tensor is the concatenation of the types (as computations: if reading the
    type of `g` panics, so does reading the type of the tensor, at the same site); only the
    interfaces of `f` have to be in range -/
theorem lax_tensor_type (f g : LOHG O A)
    (hs : ∀ i ∈ f.sources, i < f.hypergraph.nodes.length)
    (ht : ∀ i ∈ f.targets, i < f.hypergraph.nodes.length) :
    (LOHG.tensor f g).source = (do let a ← f.source; let b ← g.source; pure (a ++ b)) ∧
    (LOHG.tensor f g).target = (do let a ← f.target; let b ← g.target; pure (a ++ b)) :=
  ⟨Tensor.mapM_get_append_shift _ _ _ _ hs, Tensor.mapM_get_append_shift _ _ _ _ ht⟩

example : (∀ i ∈ lF.sources, i < lF.hypergraph.nodes.length) ∧
    (∀ i ∈ lF.targets, i < lF.hypergraph.nodes.length) ∧
    lF.target = .ok [12] ∧ lG.target = .ok [21, 21] ∧ (LOHG.tensor lF lG).target = .ok [12, 21, 21] := by
  decide

/-- the plain diagram a lax open hypergraph denotes before quotienting (the pending unification
    pairs are not part of it) -/
def laxPlain (f : LOHG O A) : PDiag O A :=
  ⟨f.hypergraph.nodes,
   List.zipWith (fun x e => ⟨x, e.sources, e.targets⟩) f.hypergraph.edges f.hypergraph.adjacency,
   f.sources, f.targets⟩

/-- the lax tensor is juxtaposition of the denoted plain diagrams; `f` needs one adjacency entry
    per edge label (part of `LHG.wf`) -/
theorem lax_tensor_toPlain (f g : LOHG O A)
    (hf : f.hypergraph.edges.length = f.hypergraph.adjacency.length) :
    laxPlain (LOHG.tensor f g) = PDiag.juxt (laxPlain f) (laxPlain g) := by
  have hc : ∀ n : Nat, (fun x => x + n) = (fun x => n + x) := fun n => by funext x; omega
  simp only [laxPlain, LOHG.tensor, LHG.coproduct, PDiag.juxt, PDiag.n, hc]
  rw [List.zipWith_append hf, List.zipWith_map_right, List.map_zipWith]
  rfl

example : lF.hypergraph.edges.length = lF.hypergraph.adjacency.length ∧
    laxPlain (LOHG.tensor lF lG) =
      ⟨[10, 11, 12, 20, 21], [⟨7, [0, 1], [2]⟩, ⟨8, [], [3]⟩, ⟨9, [3, 3], [4]⟩], [0, 1], [2, 4, 4]⟩ := by
  decide

/-- without that hypothesis labels and adjacency entries of `g` get mis-paired -/
example :
    let f : LOHG Nat Nat := ⟨[], [], ⟨[], [7], [], ([], [])⟩⟩
    laxPlain (LOHG.tensor f lG) ≠ PDiag.juxt (laxPlain f) (laxPlain lG) := by decide

end OH.C02
