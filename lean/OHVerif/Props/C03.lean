/-
  C03 — open hypergraphs form a symmetric monoidal category up to isomorphism.
  "Up to isomorphism of open hypergraphs (a relabelling of nodes and of hyperedges that preserves
   node labels, edge labels, the ordered source and target lists of every hyperedge and both
   interfaces position by position), composition is associative with identities as left and right
   units, tensor and composition satisfy the interchange law, and the symmetry is natural in both
   arguments, self-inverse, and satisfies the hexagon identities."

  Every theorem is for EVERY lawful backend `B` and well-formed operands with matching boundary
  types, and has the shape: both sides of the law (computations in `Res`) ARE defined, their
  values are well-formed, and the plain diagrams of the values are isomorphic (`≅`).  Since the
  model operations are functions, this implies "whenever both sides are `ok`, they are `≅`".
  The plain-level laws are in `OHVerif.Lemmas.Laws` (on top of `OHVerif.Lemmas.QuotStages`).
-/
import OHVerif.Lemmas.Laws
import OHVerif.Props.C01
import OHVerif.Props.C02
import OHVerif.Props.C05

namespace OH.C03
open OH

variable {O A : Type}

/-! ### bridges between the strict operations and the plain vocabulary -/

theorem wfP {f : OHG O A} (hf : f.wf = true) : f.toPlain.wf = true :=
  Compose.toPlain_wf ((Compose.wf_iff f).1 hf)

/-- the target type of a well-formed diagram, read on the plain diagram -/
theorem plain_target {f : OHG O A} (hf : f.wf = true) {b : List O} (h : f.target = .ok b) :
    f.toPlain.targetType = b.map some := by
  have h' := (C01.types_defined f hf).2
  rw [h] at h'
  rw [Res.ok.inj h']
  exact (Prim.gatherP_eq_map f.h.w f.t.table (Compose.outs_lt ((Compose.wf_iff f).1 hf))).symm

theorem plain_source {f : OHG O A} (hf : f.wf = true) {a : List O} (h : f.source = .ok a) :
    f.toPlain.sourceType = a.map some := by
  have h' := (C01.types_defined f hf).1
  rw [h] at h'
  rw [Res.ok.inj h']
  exact (Prim.gatherP_eq_map f.h.w f.s.table (Compose.ins_lt ((Compose.wf_iff f).1 hf))).symm

theorem plain_types_match {f g : OHG O A} (hf : f.wf = true) (hg : g.wf = true)
    (hty : f.target = g.source) : f.toPlain.targetType = g.toPlain.sourceType := by
  have h1 := (C01.types_defined f hf).2
  have h2 := (C01.types_defined g hg).1
  rw [plain_target hf h1, plain_source hg (hty ▸ h1)]

/-- everything we need to know about a composite -/
theorem compose_facts [DecidableEq O] (B : Backend) (hB : B.Lawful) (f g : OHG O A)
    (hf : f.wf = true) (hg : g.wf = true) (hty : f.target = g.source) :
    ∃ r, OHG.compose B f g = .ok r ∧ r.wf = true ∧ IsGluing f.toPlain g.toPlain r.toPlain ∧
      r.source = f.source ∧ r.target = g.target := by
  obtain ⟨r, hr⟩ := (C01.compose_total B hB f g hf hg).1 hty
  obtain ⟨hglue, hrw⟩ := C01.compose_isGluing B hB f g r hf hg hr
  obtain ⟨_, hs, ht⟩ := C05.compose_wf_type B hB f g r ((OHG.wf_iff f).1 hf) ((OHG.wf_iff g).1 hg) hr
  exact ⟨r, hr, hrw, hglue, hs, ht⟩

/-- everything we need to know about a tensor -/
theorem tensor_facts (f g : OHG O A) (hf : f.wf = true) (hg : g.wf = true) :
    ∃ r, OHG.tensor f g = .ok r ∧ r.wf = true ∧
      r.toPlain = PDiag.juxt f.toPlain g.toPlain ∧
      r.source = (do let a ← f.source; let b ← g.source; pure (a ++ b)) ∧
      r.target = (do let a ← f.target; let b ← g.target; pure (a ++ b)) := by
  obtain ⟨r, hr, hrw⟩ := C02.tensor_ok f g hf hg
  obtain ⟨hs, ht⟩ := C02.tensor_type_eq f g r hf hg hr
  exact ⟨r, hr, hrw, C02.tensor_toPlain f g r hf hr, hs, ht⟩

theorem identity_facts (w : List O) :
    ∃ r : OHG O A, OHG.identity w = .ok r ∧ r.wf = true ∧ r.source = .ok w ∧ r.target = .ok w ∧
      r.toPlain = ⟨w, [], List.range w.length, List.range w.length⟩ := by
  obtain ⟨r, h1, h2, h3, h4, h5⟩ := C05.identity_wf_type (A := A) w
  exact ⟨r, h1, (OHG.wf_iff r).2 h2, h3, h4, h5⟩

theorem twist_facts (a b : List O) :
    ∃ r : OHG O A, OHG.twist a b = .ok r ∧ r.wf = true ∧ r.source = .ok (a ++ b) ∧
      r.target = .ok (b ++ a) ∧
      r.toPlain = ⟨b ++ a, [], List.range' b.length a.length ++ List.range b.length,
        List.range (a.length + b.length)⟩ := by
  obtain ⟨r, h1, h2, h3, h4, h5⟩ := C05.twist_wf_type (A := A) a b
  exact ⟨r, h1, (OHG.wf_iff r).2 h2, h3, h4, h5⟩

/-! ### 1. identities are left and right units -/

/-- LEFT UNIT: `identity (source f) ; f ≅ f` -/
theorem id_comp [DecidableEq O] (B : Backend) (hB : B.Lawful) (f : OHG O A) (a : List O)
    (hf : f.wf = true) (ha : f.source = .ok a) :
    ∃ l, (OHG.identity a >>= fun i => OHG.compose B i f) = .ok l ∧ l.wf = true ∧
      l.toPlain ≅ f.toPlain := by
  obtain ⟨i, hi, hiw, _, hit, hip⟩ := identity_facts (A := A) a
  obtain ⟨l, hl, hlw, hglue, _, _⟩ := compose_facts B hB i f hiw hf (hit.trans ha.symm)
  refine ⟨l, by rw [hi]; exact hl, hlw, ?_⟩
  have hty := plain_types_match hiw hf (hit.trans ha.symm)
  rw [hip] at hglue hty
  exact glue_id_left (wfP hf) hty hglue

/-- RIGHT UNIT: `f ; identity (target f) ≅ f` -/
theorem comp_id [DecidableEq O] (B : Backend) (hB : B.Lawful) (f : OHG O A) (b : List O)
    (hf : f.wf = true) (hb : f.target = .ok b) :
    ∃ l, (OHG.identity b >>= fun i => OHG.compose B f i) = .ok l ∧ l.wf = true ∧
      l.toPlain ≅ f.toPlain := by
  obtain ⟨i, hi, hiw, his, _, hip⟩ := identity_facts (A := A) b
  obtain ⟨l, hl, hlw, hglue, _, _⟩ := compose_facts B hB f i hf hiw (hb.trans his.symm)
  refine ⟨l, by rw [hi]; exact hl, hlw, ?_⟩
  have hty := plain_types_match hf hiw (hb.trans his.symm)
  rw [hip] at hglue hty
  exact glue_id_right (wfP hf) hty hglue

/-- the hypotheses are satisfiable by a non-trivial diagram, and the composites with the
    identities are genuinely different data (the Vec backend renumbers the nodes) -/
example : C01.exF.wf = true ∧ C01.exF.source = .ok [10] ∧ C01.exF.target = .ok [20, 20, 20] ∧
    (OHG.toPlain <$> (OHG.identity [10] >>= fun i => OHG.compose vecBackend i C01.exF)) =
      .ok ⟨[10, 20, 20], [⟨7, [0], [1, 2]⟩], [0], [1, 1, 2]⟩ ∧
    (OHG.toPlain <$> (OHG.identity [20, 20, 20] >>= fun i => OHG.compose vecBackend C01.exF i)) =
      .ok ⟨[10, 20, 20], [⟨7, [0], [1, 2]⟩], [0], [1, 1, 2]⟩ := by decide

/-! ### 2. composition is associative -/

/-- ASSOCIATIVITY: `(f ; g) ; h ≅ f ; (g ; h)` -/
theorem comp_assoc [DecidableEq O] (B : Backend) (hB : B.Lawful) (f g h : OHG O A)
    (hf : f.wf = true) (hg : g.wf = true) (hh : h.wf = true)
    (h1 : f.target = g.source) (h2 : g.target = h.source) :
    ∃ l r, (OHG.compose B f g >>= fun fg => OHG.compose B fg h) = .ok l ∧
      (OHG.compose B g h >>= fun gh => OHG.compose B f gh) = .ok r ∧
      l.wf = true ∧ r.wf = true ∧ l.toPlain ≅ r.toPlain := by
  obtain ⟨fg, e1, w1, g1, _, t1⟩ := compose_facts B hB f g hf hg h1
  obtain ⟨l, e2, w2, g2, _, _⟩ := compose_facts B hB fg h w1 hh (t1.trans h2)
  obtain ⟨gh, e3, w3, g3, s3, _⟩ := compose_facts B hB g h hg hh h2
  obtain ⟨r, e4, w4, g4, _, _⟩ := compose_facts B hB f gh hf w3 (h1.trans s3.symm)
  refine ⟨l, r, by rw [e1]; exact e2, by rw [e3]; exact e4, w2, w4, ?_⟩
  exact glue_assoc (wfP hf) (wfP hg) (wfP hh) g1 g2 g3 g4

/-- a composable triple of non-trivial diagrams (`C01.exF ; C01.exG ; exH`) -/
def exH : OHG Nat Nat :=
  ⟨⟨[0], 2⟩, ⟨[1, 1], 2⟩, ⟨⟨⟨[1], 2⟩, ⟨[0], 2⟩⟩, ⟨⟨[1], 2⟩, ⟨[1], 2⟩⟩, [30, 40], [9]⟩⟩

example : C01.exF.wf = true ∧ C01.exG.wf = true ∧ exH.wf = true ∧
    C01.exF.target = C01.exG.source ∧ C01.exG.target = exH.source ∧
    (OHG.toPlain <$> (OHG.compose vecBackend C01.exF C01.exG >>= fun fg =>
      OHG.compose vecBackend fg exH)) =
      .ok ⟨[10, 20, 30, 40], [⟨7, [0], [1, 1]⟩, ⟨8, [1, 1], [2]⟩, ⟨9, [2], [3]⟩], [0], [3, 3]⟩ := by
  decide

/-! ### 7. congruence: composition and tensor respect `≅` -/

/-- gluing respects isomorphism (plain level) -/
theorem compose_congr {F F' G G' R R' : PDiag O A} (hF : F.wf = true) (hG : G.wf = true)
    (h1 : F ≅ F') (h2 : G ≅ G') (hR : IsGluing F G R) (hR' : IsGluing F' G' R') : R ≅ R' :=
  glue_congr hF hG h1 h2 hR hR'

/-- juxtaposition respects isomorphism (plain level) -/
theorem tensor_congr {F F' G G' : PDiag O A} (hF : F.wf = true) (h1 : F ≅ F') (h2 : G ≅ G') :
    PDiag.juxt F G ≅ PDiag.juxt F' G' :=
  juxt_iso_congr hF h1 h2

/-- composition respects isomorphism (strict level, possibly different lawful backends) -/
theorem compose_congr_strict [DecidableEq O] (B B' : Backend) (hB : B.Lawful) (hB' : B'.Lawful)
    (f f' g g' r r' : OHG O A) (hf : f.wf = true) (hg : g.wf = true) (hf' : f'.wf = true)
    (hg' : g'.wf = true) (h1 : f.toPlain ≅ f'.toPlain) (h2 : g.toPlain ≅ g'.toPlain)
    (e : OHG.compose B f g = .ok r) (e' : OHG.compose B' f' g' = .ok r') :
    r.toPlain ≅ r'.toPlain :=
  glue_congr (wfP hf) (wfP hg) h1 h2 (C01.compose_isGluing B hB f g r hf hg e).1
    (C01.compose_isGluing B' hB' f' g' r' hf' hg' e').1

/-- tensor respects isomorphism (strict level) -/
theorem tensor_congr_strict (f f' g g' r r' : OHG O A) (hf : f.wf = true) (hf' : f'.wf = true)
    (h1 : f.toPlain ≅ f'.toPlain) (h2 : g.toPlain ≅ g'.toPlain)
    (e : OHG.tensor f g = .ok r) (e' : OHG.tensor f' g' = .ok r') : r.toPlain ≅ r'.toPlain := by
  rw [C02.tensor_toPlain f g r hf e, C02.tensor_toPlain f' g' r' hf' e']
  exact juxt_iso_congr (wfP hf) h1 h2

/-- the composite depends on its operands only up to `≅`: here `exH'` is `exH` with its two nodes
    renumbered -/
def exH' : OHG Nat Nat :=
  ⟨⟨[1], 2⟩, ⟨[0, 0], 2⟩, ⟨⟨⟨[1], 2⟩, ⟨[1], 2⟩⟩, ⟨⟨[1], 2⟩, ⟨[0], 2⟩⟩, [40, 30], [9]⟩⟩

example : exH.wf = true ∧ exH'.wf = true ∧ exH.toPlain ≠ exH'.toPlain := by decide

example : exH.toPlain ≅ exH'.toPlain := by
  refine ⟨fun i => 1 - i, fun e => e, ?_, BijOn.refl _, ?_, ?_, rfl, rfl⟩
  · exact ⟨fun i hi => by have : i < 2 := hi; show 1 - i < 2; omega,
      fun i j hi hj h => by have : i < 2 := hi; have : j < 2 := hj; simp only at h; omega,
      fun k hk => ⟨1 - k, by have : k < 2 := hk; show 1 - k < 2; omega,
        by have : k < 2 := hk; simp only; omega⟩⟩
  · intro i hi
    have : i < 2 := hi
    rcases i with _ | _ | i
    · rfl
    · rfl
    · omega
  · intro e he
    have : e < 1 := he
    rcases e with _ | e
    · rfl
    · omega

/-! ### 3. interchange -/

/-- INTERCHANGE: `(f ⊗ g) ; (f' ⊗ g') ≅ (f ; f') ⊗ (g ; g')` -/
theorem interchange [DecidableEq O] (B : Backend) (hB : B.Lawful) (f g f' g' : OHG O A)
    (hf : f.wf = true) (hg : g.wf = true) (hf' : f'.wf = true) (hg' : g'.wf = true)
    (h1 : f.target = f'.source) (h2 : g.target = g'.source) :
    ∃ l r,
      (OHG.tensor f g >>= fun x => OHG.tensor f' g' >>= fun y => OHG.compose B x y) = .ok l ∧
      (OHG.compose B f f' >>= fun x => OHG.compose B g g' >>= fun y => OHG.tensor x y) = .ok r ∧
      l.wf = true ∧ r.wf = true ∧ l.toPlain ≅ r.toPlain := by
  obtain ⟨x, ex, wx, px, _, tx⟩ := tensor_facts f g hf hg
  obtain ⟨y, ey, wy, py, sy, _⟩ := tensor_facts f' g' hf' hg'
  have hxy : x.target = y.source := by rw [tx, sy, h1, h2]
  obtain ⟨l, el, wl, gl, _, _⟩ := compose_facts B hB x y wx wy hxy
  obtain ⟨u, eu, wu, gu, _, _⟩ := compose_facts B hB f f' hf hf' h1
  obtain ⟨v, ev, wv, gv, _, _⟩ := compose_facts B hB g g' hg hg' h2
  obtain ⟨r, er, wr, pr, _, _⟩ := tensor_facts u v wu wv
  refine ⟨l, r, by rw [ex, ey]; exact el, by rw [eu, ev]; exact er, wl, wr, ?_⟩
  rw [px, py] at gl
  rw [pr]
  exact glue_interchange (wfP hf) (wfP hg) (wfP hf') (wfP hg')
    (types_pointwise (plain_types_match hf hf' h1)).1 gu gv gl

/-- hypotheses satisfiable: `C01.exF ; C01.exG` next to `exH' ; exK` -/
def exK : OHG Nat Nat :=
  ⟨⟨[0, 0], 1⟩, ⟨[], 1⟩, HG.discrete [40]⟩

example : C01.exF.wf = true ∧ exH'.wf = true ∧ C01.exG.wf = true ∧ exK.wf = true ∧
    C01.exF.target = C01.exG.source ∧ exH'.target = exK.source ∧
    (OHG.toPlain <$> (OHG.tensor C01.exF exH' >>= fun x => OHG.tensor C01.exG exK >>= fun y =>
      OHG.compose vecBackend x y)) =
      .ok ⟨[10, 20, 40, 30, 30], [⟨7, [0], [1, 1]⟩, ⟨9, [3], [2]⟩, ⟨8, [1, 1], [4]⟩], [0, 3], [4]⟩ ∧
    (OHG.toPlain <$> (OHG.compose vecBackend C01.exF C01.exG >>= fun x =>
      OHG.compose vecBackend exH' exK >>= fun y => OHG.tensor x y)) =
      .ok ⟨[10, 20, 30, 40, 30], [⟨7, [0], [1, 1]⟩, ⟨8, [1, 1], [2]⟩, ⟨9, [4], [3]⟩], [0, 4], [2]⟩ := by
  decide

/-! ### 4. the symmetry is self-inverse -/

/-- `σ_{a,b} ; σ_{b,a} ≅ identity (a ++ b)` -/
theorem twist_twist [DecidableEq O] (B : Backend) (hB : B.Lawful) (a b : List O) :
    ∃ l i : OHG O A,
      (OHG.twist a b >>= fun s => OHG.twist b a >>= fun s' => OHG.compose B s s') = .ok l ∧
      OHG.identity (a ++ b) = .ok i ∧ l.wf = true ∧ i.wf = true ∧ l.toPlain ≅ i.toPlain := by
  obtain ⟨s1, e1, w1, _, t1, p1⟩ := twist_facts (A := A) a b
  obtain ⟨s2, e2, w2, src2, _, p2⟩ := twist_facts (A := A) b a
  obtain ⟨i, ei, wi, _, _, pi⟩ := identity_facts (A := A) (a ++ b)
  have hty : s1.target = s2.source := t1.trans src2.symm
  obtain ⟨l, el, wl, hglue, _, _⟩ := compose_facts B hB s1 s2 w1 w2 hty
  refine ⟨l, i, by rw [e1, e2]; exact el, ei, wl, wi, ?_⟩
  have hty' := plain_types_match w1 w2 hty
  have hS := wfP w1
  have hF := wfP w2
  have hn : a.length + b.length = (b ++ a).length := by simp; omega
  rw [p1, hn] at hglue hty' hS
  have := glue_idleg_left hF hS hty' hglue
  rw [p2] at this
  simp only at this
  rw [map_getD_block_swap (by simp) (by simp), range_append_range'] at this
  rw [pi]
  have e : (a ++ b).length = a.length + b.length := by simp
  rw [e]
  rwa [Nat.add_comm b.length a.length] at this

/-- the two sides are different data (isomorphic via the rotation of the three nodes) -/
example : (OHG.toPlain <$> (OHG.twist [1, 2] [3] >>= fun s => OHG.twist [3] [1, 2] >>= fun s' =>
      OHG.compose vecBackend (A := Nat) s s')) = .ok ⟨[3, 1, 2], [], [1, 2, 0], [1, 2, 0]⟩ ∧
    (OHG.toPlain <$> (OHG.identity ([1, 2] ++ [3]) : Res (OHG Nat Nat))) =
      .ok ⟨[1, 2, 3], [], [0, 1, 2], [0, 1, 2]⟩ := by decide

/-! ### 5. the symmetry is natural -/

theorem plain_outs_length {f : OHG O A} (hf : f.wf = true) {b : List O} (h : f.target = .ok b) :
    f.toPlain.outs.length = b.length := by
  have := congrArg List.length (plain_target hf h)
  simpa [PDiag.targetType] using this

theorem plain_ins_length {f : OHG O A} (hf : f.wf = true) {a : List O} (h : f.source = .ok a) :
    f.toPlain.ins.length = a.length := by
  have := congrArg List.length (plain_source hf h)
  simpa [PDiag.sourceType] using this

/-- NATURALITY (in both arguments at once): for `f : a → b`, `g : c → d`,
    `(f ⊗ g) ; σ_{b,d} ≅ σ_{a,c} ; (g ⊗ f)` -/
theorem twist_natural [DecidableEq O] (B : Backend) (hB : B.Lawful) (f g : OHG O A)
    (a b c d : List O) (hf : f.wf = true) (hg : g.wf = true)
    (hfs : f.source = .ok a) (hft : f.target = .ok b) (hgs : g.source = .ok c)
    (hgt : g.target = .ok d) :
    ∃ l r,
      (OHG.tensor f g >>= fun x => OHG.twist b d >>= fun s => OHG.compose B x s) = .ok l ∧
      (OHG.twist a c >>= fun s => OHG.tensor g f >>= fun y => OHG.compose B s y) = .ok r ∧
      l.wf = true ∧ r.wf = true ∧ l.toPlain ≅ r.toPlain := by
  obtain ⟨x, ex, wx, px, _, tx⟩ := tensor_facts f g hf hg
  obtain ⟨y, ey, wy, py, sy, _⟩ := tensor_facts g f hg hf
  obtain ⟨s1, e1, w1, src1, _, p1⟩ := twist_facts (A := A) b d
  obtain ⟨s2, e2, w2, _, tgt2, p2⟩ := twist_facts (A := A) a c
  have hx1 : x.target = s1.source := by rw [tx, hft, hgt, src1]; rfl
  have h2y : s2.target = y.source := by rw [sy, hgs, hfs, tgt2]; rfl
  obtain ⟨l, el, wl, gl, _, _⟩ := compose_facts B hB x s1 wx w1 hx1
  obtain ⟨r, er, wr, gr, _, _⟩ := compose_facts B hB s2 y w2 wy h2y
  refine ⟨l, r, by rw [ex, e1]; exact el, by rw [e2, ey]; exact er, wl, wr, ?_⟩
  have tL := plain_types_match wx w1 hx1
  have tR := plain_types_match w2 wy h2y
  have q1 : s1.toPlain = twistP b d := p1
  have q2 : s2.toPlain = twistP a c := p2
  rw [px, q1] at gl tL
  rw [py, q2] at gr tR
  exact glue_twist_natural (wfP hf) (wfP hg) (plain_outs_length hf hft) (plain_ins_length hg hgs)
    tL tR gl gr

/-- hypotheses satisfiable: `f = C01.exF : [10] → [20,20,20]`, `g = exH' : [30] → [40,40]`; the two
    sides list nodes and edges in different orders -/
example : C01.exF.wf = true ∧ exH'.wf = true ∧ C01.exF.source = .ok [10] ∧
    C01.exF.target = .ok [20, 20, 20] ∧ exH'.source = .ok [30] ∧ exH'.target = .ok [40, 40] ∧
    (OHG.toPlain <$> (OHG.tensor C01.exF exH' >>= fun x => OHG.twist [20, 20, 20] [40, 40] >>=
      fun s => OHG.compose vecBackend x s)) =
      .ok ⟨[10, 20, 20, 40, 30], [⟨7, [0], [1, 2]⟩, ⟨9, [4], [3]⟩], [0, 4], [3, 3, 1, 1, 2]⟩ ∧
    (OHG.toPlain <$> (OHG.twist [10] [30] >>= fun s => OHG.tensor exH' C01.exF >>= fun y =>
      OHG.compose vecBackend s y)) =
      .ok ⟨[30, 10, 40, 20, 20], [⟨9, [0], [2]⟩, ⟨7, [1], [3, 4]⟩], [1, 0], [2, 2, 3, 3, 4]⟩ := by
  decide

/-- naturality in the first argument: `(f ⊗ id_c) ; σ_{b,c} ≅ σ_{a,c} ; (id_c ⊗ f)` -/
theorem twist_natural_left [DecidableEq O] (B : Backend) (hB : B.Lawful) (f : OHG O A)
    (a b c : List O) (hf : f.wf = true) (hfs : f.source = .ok a) (hft : f.target = .ok b) :
    ∃ l r,
      (OHG.identity c >>= fun i => OHG.tensor f i >>= fun x => OHG.twist b c >>= fun s =>
        OHG.compose B x s) = .ok l ∧
      (OHG.twist a c >>= fun s => OHG.identity c >>= fun i => OHG.tensor i f >>= fun y =>
        OHG.compose B s y) = .ok r ∧
      l.wf = true ∧ r.wf = true ∧ l.toPlain ≅ r.toPlain := by
  obtain ⟨i, ei, wi, si, ti, _⟩ := identity_facts (A := A) c
  obtain ⟨l, r, h1, h2, h3⟩ := twist_natural B hB f i a b c c hf wi hfs hft si ti
  refine ⟨l, r, by rw [ei]; exact h1, ?_, h3⟩
  cases ht : (OHG.twist a c : Res (OHG O A)) with
  | ok s => rw [ht] at h2; rw [ei]; exact h2
  | none => rw [ht] at h2; cases h2
  | panic m => rw [ht] at h2; cases h2

/-- naturality in the second argument: `(id_c ⊗ g) ; σ_{c,b} ≅ σ_{c,a} ; (g ⊗ id_c)` -/
theorem twist_natural_right [DecidableEq O] (B : Backend) (hB : B.Lawful) (g : OHG O A)
    (a b c : List O) (hg : g.wf = true) (hgs : g.source = .ok a) (hgt : g.target = .ok b) :
    ∃ l r,
      (OHG.identity c >>= fun i => OHG.tensor i g >>= fun x => OHG.twist c b >>= fun s =>
        OHG.compose B x s) = .ok l ∧
      (OHG.twist c a >>= fun s => OHG.identity c >>= fun i => OHG.tensor g i >>= fun y =>
        OHG.compose B s y) = .ok r ∧
      l.wf = true ∧ r.wf = true ∧ l.toPlain ≅ r.toPlain := by
  obtain ⟨i, ei, wi, si, ti, _⟩ := identity_facts (A := A) c
  obtain ⟨l, r, h1, h2, h3⟩ := twist_natural B hB i g c c a b wi hg si ti hgs hgt
  refine ⟨l, r, by rw [ei]; exact h1, ?_, h3⟩
  cases ht : (OHG.twist c a : Res (OHG O A)) with
  | ok s => rw [ht] at h2; rw [ei]; exact h2
  | none => rw [ht] at h2; cases h2
  | panic m => rw [ht] at h2; cases h2

/-! ### 6. the hexagon identities -/

/-- composing with a diagram whose plain form is a spider with identity output leg only re-reads
    the input interface of the second operand -/
theorem compose_idleg [DecidableEq O] (B : Backend) (hB : B.Lawful) (x y r : OHG O A)
    (w : List O) (s : List Nat) (wx : x.wf = true) (wy : y.wf = true)
    (hty : x.target = y.source) (px : x.toPlain = ⟨w, [], s, List.range w.length⟩)
    (e : OHG.compose B x y = .ok r) :
    r.toPlain ≅ ⟨y.toPlain.nodes, y.toPlain.edges, s.map (fun v => y.toPlain.ins.getD v 0),
      y.toPlain.outs⟩ := by
  have gl := (C01.compose_isGluing B hB x y r wx wy e).1
  have t := plain_types_match wx wy hty
  have hS := wfP wx
  rw [px] at gl t hS
  exact glue_idleg_left (wfP wy) hS t gl

theorem iso_of_eq_right {P Q Q' : PDiag O A} (h : P ≅ Q) (e : Q = Q') : P ≅ Q' := e ▸ h

/-- HEXAGON: `σ_{a, b ● c} ≅ (σ_{a,b} ⊗ id_c) ; (id_b ⊗ σ_{a,c})` -/
theorem hexagon [DecidableEq O] (B : Backend) (hB : B.Lawful) (a b c : List O) :
    ∃ l r : OHG O A, OHG.twist a (b ++ c) = .ok l ∧
      (OHG.twist a b >>= fun s1 => OHG.identity c >>= fun i1 => OHG.tensor s1 i1 >>= fun x =>
        OHG.identity b >>= fun i2 => OHG.twist a c >>= fun s2 => OHG.tensor i2 s2 >>= fun y =>
          OHG.compose B x y) = .ok r ∧
      l.wf = true ∧ r.wf = true ∧ l.toPlain ≅ r.toPlain := by
  obtain ⟨l, el, wl, _, _, pl⟩ := twist_facts (A := A) a (b ++ c)
  obtain ⟨s1, e1, w1, _, t1, p1⟩ := twist_facts (A := A) a b
  obtain ⟨i1, f1, v1, _, ti1, q1⟩ := identity_facts (A := A) c
  obtain ⟨x, ex, wx, px, _, tx⟩ := tensor_facts s1 i1 w1 v1
  obtain ⟨i2, f2, v2, si2, _, q2⟩ := identity_facts (A := A) b
  obtain ⟨s2, e2, w2, ss2, _, p2⟩ := twist_facts (A := A) a c
  obtain ⟨y, ey, wy, py, sy, _⟩ := tensor_facts i2 s2 v2 w2
  have hty : x.target = y.source := by
    rw [tx, sy, t1, ti1, si2, ss2]
    show Res.ok ((b ++ a) ++ c) = Res.ok (b ++ (a ++ c))
    rw [List.append_assoc]
  obtain ⟨r, er, wr, _, _, _⟩ := compose_facts B hB x y wx wy hty
  refine ⟨l, r, el, by rw [e1, f1]; simp only [Res.ok_bind]; rw [ex, f2, e2]; simp only [Res.ok_bind]; rw [ey]; exact er,
    wl, wr, ?_⟩
  have px' : x.toPlain = ⟨(b ++ a) ++ c, [],
      (List.range' b.length a.length ++ List.range b.length) ++
        (List.range c.length).map ((b ++ a).length + ·), List.range ((b ++ a) ++ c).length⟩ := by
    rw [px, p1, q1]
    simp only [PDiag.juxt, PDiag.mk.injEq, PDiag.n]
    refine ⟨trivial, rfl, trivial, ?_⟩
    rw [range_append_map _ _ _ (by simp; omega)]
    congr 1; simp; omega
  have h := compose_idleg B hB x y r _ _ wx wy hty px' er
  rw [py, q2, p2] at h
  rw [pl]
  apply iso_symm (wfP wr)
  refine iso_of_eq_right h ?_
  simp only [PDiag.juxt, PDiag.mk.injEq, PDiag.n]
  refine ⟨(List.append_assoc _ _ _).symm, rfl, ?_, ?_⟩
  · exact hexagon_ins _ _ _ _ _ _ (by simp) rfl (by simp)
  · rw [range_append_map _ _ _ rfl]
    congr 1; simp; omega

/-- MIRROR HEXAGON: `σ_{a ● b, c} ≅ (id_a ⊗ σ_{b,c}) ; (σ_{a,c} ⊗ id_b)` -/
theorem hexagon_mirror [DecidableEq O] (B : Backend) (hB : B.Lawful) (a b c : List O) :
    ∃ l r : OHG O A, OHG.twist (a ++ b) c = .ok l ∧
      (OHG.identity a >>= fun i1 => OHG.twist b c >>= fun s1 => OHG.tensor i1 s1 >>= fun x =>
        OHG.twist a c >>= fun s2 => OHG.identity b >>= fun i2 => OHG.tensor s2 i2 >>= fun y =>
          OHG.compose B x y) = .ok r ∧
      l.wf = true ∧ r.wf = true ∧ l.toPlain ≅ r.toPlain := by
  obtain ⟨l, el, wl, _, _, pl⟩ := twist_facts (A := A) (a ++ b) c
  obtain ⟨i1, f1, v1, _, ti1, q1⟩ := identity_facts (A := A) a
  obtain ⟨s1, e1, w1, _, t1, p1⟩ := twist_facts (A := A) b c
  obtain ⟨x, ex, wx, px, _, tx⟩ := tensor_facts i1 s1 v1 w1
  obtain ⟨s2, e2, w2, ss2, _, p2⟩ := twist_facts (A := A) a c
  obtain ⟨i2, f2, v2, si2, _, q2⟩ := identity_facts (A := A) b
  obtain ⟨y, ey, wy, py, sy, _⟩ := tensor_facts s2 i2 w2 v2
  have hty : x.target = y.source := by
    rw [tx, sy, t1, ti1, si2, ss2]
    show Res.ok (a ++ (c ++ b)) = Res.ok ((a ++ c) ++ b)
    rw [List.append_assoc]
  obtain ⟨r, er, wr, _, _, _⟩ := compose_facts B hB x y wx wy hty
  refine ⟨l, r, el, by
    rw [f1, e1]; simp only [Res.ok_bind]; rw [ex, e2, f2]; simp only [Res.ok_bind]; rw [ey]
    exact er, wl, wr, ?_⟩
  have px' : x.toPlain = ⟨a ++ (c ++ b), [],
      List.range a.length ++ (List.range' c.length b.length ++ List.range c.length).map (a.length + ·),
      List.range (a ++ (c ++ b)).length⟩ := by
    rw [px, p1, q1]
    simp only [PDiag.juxt, PDiag.mk.injEq, PDiag.n]
    refine ⟨trivial, rfl, trivial, ?_⟩
    rw [range_append_map _ _ _ rfl]
    congr 1; simp; omega
  have h := compose_idleg B hB x y r _ _ wx wy hty px' er
  rw [py, q2, p2] at h
  rw [pl]
  apply iso_symm (wfP wr)
  refine iso_of_eq_right h ?_
  simp only [PDiag.juxt, PDiag.mk.injEq, PDiag.n]
  refine ⟨List.append_assoc _ _ _, rfl, ?_, ?_⟩
  · exact hexagon_mirror_ins _ _ _ _ _ _ rfl (by simp) (by simp)
  · rw [range_append_map _ _ _ (by simp; omega)]
    congr 1; simp; omega

/-- both hexagons on concrete types (the composites number the nodes differently from the single
    symmetry) -/
example :
    (OHG.toPlain <$> (OHG.twist [1, 2] ([3] ++ [4, 5]) : Res (OHG Nat Nat))) =
      .ok ⟨[3, 4, 5, 1, 2], [], [3, 4, 0, 1, 2], [0, 1, 2, 3, 4]⟩ ∧
    (OHG.toPlain <$> ((OHG.twist [1, 2] [3] >>= fun s1 => OHG.identity [4, 5] >>= fun i1 =>
      OHG.tensor s1 i1 >>= fun x => OHG.identity [3] >>= fun i2 => OHG.twist [1, 2] [4, 5] >>=
      fun s2 => OHG.tensor i2 s2 >>= fun y => OHG.compose vecBackend x y) : Res (OHG Nat Nat))) =
      .ok ⟨[3, 1, 2, 4, 5], [], [1, 2, 0, 3, 4], [0, 3, 4, 1, 2]⟩ ∧
    (OHG.toPlain <$> (OHG.twist ([1, 2] ++ [3]) [4, 5] : Res (OHG Nat Nat))) =
      .ok ⟨[4, 5, 1, 2, 3], [], [2, 3, 4, 0, 1], [0, 1, 2, 3, 4]⟩ ∧
    (OHG.toPlain <$> ((OHG.identity [1, 2] >>= fun i1 => OHG.twist [3] [4, 5] >>= fun s1 =>
      OHG.tensor i1 s1 >>= fun x => OHG.twist [1, 2] [4, 5] >>= fun s2 => OHG.identity [3] >>=
      fun i2 => OHG.tensor s2 i2 >>= fun y => OHG.compose vecBackend x y) : Res (OHG Nat Nat))) =
      .ok ⟨[1, 2, 4, 5, 3], [], [0, 1, 4, 2, 3], [2, 3, 0, 1, 4]⟩ := by decide

/-! ### reading the statements as "whenever both sides are defined" -/

/-- the shape `∃ l r, lhs = ok l ∧ rhs = ok r ∧ P l r` used above implies the conditional reading
    `∀ l r, lhs = ok l → rhs = ok r → P l r` (the operations are functions) -/
theorem of_defined {α β : Type} {x : Res α} {y : Res β} {P : α → β → Prop}
    (h : ∃ l r, x = .ok l ∧ y = .ok r ∧ P l r) (l : α) (r : β) (hl : x = .ok l) (hr : y = .ok r) :
    P l r := by
  obtain ⟨l', r', h1, h2, h3⟩ := h
  rw [hl] at h1
  rw [hr] at h2
  cases h1
  cases h2
  exact h3

/-- e.g. associativity in the conditional form -/
theorem comp_assoc' [DecidableEq O] (B : Backend) (hB : B.Lawful) (f g h fg gh l r : OHG O A)
    (hf : f.wf = true) (hg : g.wf = true) (hh : h.wf = true)
    (h1 : f.target = g.source) (h2 : g.target = h.source)
    (e1 : OHG.compose B f g = .ok fg) (e2 : OHG.compose B fg h = .ok l)
    (e3 : OHG.compose B g h = .ok gh) (e4 : OHG.compose B f gh = .ok r) :
    l.toPlain ≅ r.toPlain := by
  have := of_defined (P := fun l r : OHG O A => l.wf = true ∧ r.wf = true ∧ l.toPlain ≅ r.toPlain)
    (comp_assoc B hB f g h hf hg hh h1 h2) l r (by rw [e1]; exact e2) (by rw [e3]; exact e4)
  exact this.2.2

end OH.C03
