/-
  C04 — dagger and spiders give the hypergraph-category structure.
  * Dagger swaps the two interfaces and leaves nodes and hyperedges untouched, is an involution
    and distributes over tensor (strict and lax): equalities of data.
  * Identities, symmetries and half-spiders are spiders; spider construction is defined exactly
    when both legs are typed into the given node list and never panics (strict and lax).
  * `spider_fusion`: the composite of two spiders is again a spider, on the connected classes of
    the glued boundary (every lawful backend).
  * `dagger_comp`: `(f ; g)† ≅ g† ; f†` (every lawful backend).  These two use the
    characterisation of composition `OH.C01` and the quotient library `OHVerif.Lemmas.Quot`.
  * The lax versions of the last two clauses need strictification of diagrams WITH pending
    unifications and are recorded as `lax_…_statement : Prop` at the end.
-/
import OHVerif.Lemmas.LaxStrict
import OHVerif.Spec.Diagram
import OHVerif.Props.C01

namespace OH.C04
open OH OH.LaxStrict

variable {O A : Type}

/-! ### dagger, strict -/

/-- dagger swaps the two interfaces and leaves the hypergraph untouched -/
theorem dagger_fields (f : OHG O A) : f.dagger = ⟨f.t, f.s, f.h⟩ := rfl

/-- dagger is an involution (equal data) -/
theorem dagger_dagger (f : OHG O A) : f.dagger.dagger = f := rfl

/-- on the plain model: nodes and edges unchanged, `ins` and `outs` exchanged -/
theorem dagger_toPlain (f : OHG O A) : f.dagger.toPlain = f.toPlain.dagger := rfl

theorem dagger_toPlain_fields (f : OHG O A) :
    f.dagger.toPlain.nodes = f.toPlain.nodes ∧ f.dagger.toPlain.edges = f.toPlain.edges ∧
    f.dagger.toPlain.ins = f.toPlain.outs ∧ f.dagger.toPlain.outs = f.toPlain.ins :=
  ⟨rfl, rfl, rfl, rfl⟩

/-- dagger preserves (and reflects) deep well-formedness -/
theorem dagger_wf (f : OHG O A) : f.dagger.wf = f.wf := by
  simp only [OHG.wf, OHG.dagger]
  cases f.h.wf <;> cases f.s.wf <;> cases f.t.wf <;>
    cases (f.s.target == f.h.w.length) <;> cases (f.t.target == f.h.w.length) <;> rfl

/-- dagger exchanges source and target type (the hypothesis is the typing of the target leg; without
    it both sides panic, but at differently named sites) -/
theorem dagger_source (f : OHG O A) (h : f.t.target = f.h.w.length) :
    f.dagger.source = f.target := by
  simp only [OHG.source, OHG.target, OHG.dagger, FinFun.composeSemi, h, if_true]
  have := FinFun.gather_ne_none f.h.w f.t.table
  cases hg : Prim.gather f.h.w f.t.table <;> simp_all [Res.unwrap]

theorem dagger_target (f : OHG O A) (h : f.s.target = f.h.w.length) :
    f.dagger.target = f.source := by
  simp only [OHG.source, OHG.target, OHG.dagger, FinFun.composeSemi, h, if_true]
  have := FinFun.gather_ne_none f.h.w f.s.table
  cases hg : Prim.gather f.h.w f.s.table <;> simp_all [Res.unwrap]

/-- without the typing hypothesis the two sides are both panics, but at different sites -/
example :
    let f : OHG String String := ⟨⟨[], 0⟩, ⟨[], 1⟩, HG.discrete []⟩
    f.dagger.source = .panic "source:expect" ∧ f.target = .panic "target:expect" := by decide

/-- dagger distributes over tensor: equality in `Res` (same value, same failure) -/
theorem dagger_tensor (f g : OHG O A) :
    OHG.tensor f.dagger g.dagger = (OHG.tensor f g >>= fun r => .ok r.dagger) := by
  simp only [OHG.tensor, OHG.dagger]
  cases HG.coproduct f.h g.h <;> rfl

/-- a well-formed diagram with one binary-output operation; its dagger differs from it -/
def exF : OHG String String :=
  ⟨⟨[0, 0], 2⟩, ⟨[1], 2⟩, ⟨⟨⟨[1], 2⟩, ⟨[0], 2⟩⟩, ⟨⟨[2], 3⟩, ⟨[1, 1], 2⟩⟩, ["a", "b"], ["x"]⟩⟩

example : exF.wf = true ∧ exF.dagger.toPlain ≠ exF.toPlain ∧ (OHG.tensor exF exF).isOk = true := by
  decide

/-! ### dagger, lax -/

/-- lax dagger swaps the interfaces; the hypergraph (nodes, edges, adjacency, pending
    unifications) is untouched -/
theorem lax_dagger_fields (f : LOHG O A) : f.dagger = ⟨f.targets, f.sources, f.hypergraph⟩ := rfl

theorem lax_dagger_dagger (f : LOHG O A) : f.dagger.dagger = f := rfl

theorem lax_dagger_wf (f : LOHG O A) : f.dagger.wf = f.wf := by
  exact Bool.and_right_comm _ _ _

theorem lax_dagger_source (f : LOHG O A) : f.dagger.source = f.target := rfl

theorem lax_dagger_target (f : LOHG O A) : f.dagger.target = f.source := rfl

/-- lax dagger distributes over lax tensor on the nose -/
theorem lax_dagger_tensor (f g : LOHG O A) :
    LOHG.tensor f.dagger g.dagger = (LOHG.tensor f g).dagger := rfl

/-- the two packings commute with dagger -/
theorem dagger_pack (d : LOHG O A) : pack d.dagger = (pack d).dagger := rfl

/-- strict → lax conversion commutes with dagger (same value, same failure) -/
theorem fromStrict_dagger (f : OHG O A) :
    LOHG.fromStrict f.dagger = (LOHG.fromStrict f >>= fun d => .ok d.dagger) := by
  unfold LOHG.fromStrict
  show (LHG.fromStrict f.h >>= _) = _
  cases LHG.fromStrict f.h <;> rfl

/-! ### spiders, strict -/

/-- closed form of `spider` -/
theorem spider_eq (s t : FinFun) (w : List O) :
    (OHG.spider s t w : Res (OHG O A)) =
      if s.target = w.length ∧ t.target = w.length then .ok ⟨s, t, HG.discrete w⟩ else .none := by
  unfold OHG.spider
  by_cases h1 : s.target = w.length <;> by_cases h2 : t.target = w.length <;> simp [h1, h2]

/-- spider construction is defined exactly when both legs are typed into the node list -/
theorem spider_defined (s t : FinFun) (w : List O) :
    (OHG.spider s t w : Res (OHG O A)) ≠ .none ↔ s.target = w.length ∧ t.target = w.length := by
  rw [spider_eq]
  by_cases h : s.target = w.length ∧ t.target = w.length <;> simp [h]

theorem spider_none_iff (s t : FinFun) (w : List O) :
    (OHG.spider s t w : Res (OHG O A)) = .none ↔ s.target ≠ w.length ∨ t.target ≠ w.length := by
  rw [spider_eq]
  by_cases h1 : s.target = w.length <;> by_cases h2 : t.target = w.length <;> simp [h1, h2]

/-- … and never panics -/
theorem spider_no_panic (s t : FinFun) (w : List O) (site : String) :
    (OHG.spider s t w : Res (OHG O A)) ≠ .panic site := by
  rw [spider_eq]
  split <;> simp

/-- when defined the spider has the given legs over the discrete hypergraph on `w`
    (no hyperedges, so the plain diagram is `w` with the two legs) -/
theorem spider_ok (s t : FinFun) (w : List O) (r : OHG O A) (h : OHG.spider s t w = .ok r) :
    r = ⟨s, t, HG.discrete w⟩ ∧ r.h.isDiscrete = true ∧ r.toPlain = ⟨w, [], s.table, t.table⟩ := by
  rw [spider_eq] at h
  split at h
  · cases h
    exact ⟨rfl, rfl, rfl⟩
  · cases h

/-- a defined spider with well-formed legs is a well-formed diagram -/
theorem spider_wf (s t : FinFun) (w : List O) (r : OHG O A) (h : OHG.spider s t w = .ok r)
    (hs : s.WF) (ht : t.WF) : r.wf = true := by
  rw [spider_eq] at h
  split at h
  · rename_i hc
    cases h
    rw [ohg_wf_iff]
    exact ⟨by simp [HG.wf, HG.discrete, IC.wf, IC.initial, FinFun.initial, IC.valid, Prim.sum,
      FinFun.wf, IC.len, FinFun.source], hs, ht, hc.1, hc.2⟩
  · cases h

example : (OHG.spider ⟨[0, 0, 2], 3⟩ ⟨[1], 3⟩ ["a", "b", "c"] : Res (OHG String String)) =
      .ok ⟨⟨[0, 0, 2], 3⟩, ⟨[1], 3⟩, HG.discrete ["a", "b", "c"]⟩ ∧
    (OHG.spider ⟨[0, 0, 2], 4⟩ ⟨[1], 3⟩ ["a", "b", "c"] : Res (OHG String String)) = .none ∧
    (OHG.spider ⟨[0, 0, 2], 3⟩ ⟨[1], 2⟩ ["a", "b", "c"] : Res (OHG String String)) = .none ∧
    (⟨[0, 0, 2], 3⟩ : FinFun).WF ∧ (⟨[1], 3⟩ : FinFun).WF :=
  ⟨rfl, rfl, rfl, by decide, by decide⟩

/-- `spider` only compares the DECLARED codomain of the legs with the node count: a leg whose
    table is out of range (an ill-formed finite function) is accepted and yields an ill-formed
    diagram; hence the hypotheses `s.WF`, `t.WF` in `spider_wf` -/
example : (OHG.spider ⟨[5], 1⟩ ⟨[], 1⟩ ["a"] : Res (OHG String String)).isOk = true ∧
    (⟨⟨[5], 1⟩, ⟨[], 1⟩, HG.discrete ["a"]⟩ : OHG String String).wf = false := by decide

/-- the dagger of a spider is the spider with the legs exchanged -/
theorem dagger_spider (s t : FinFun) (w : List O) :
    (OHG.spider t s w : Res (OHG O A)) = (OHG.spider s t w >>= fun r => .ok r.dagger) := by
  rw [spider_eq, spider_eq]
  by_cases h1 : s.target = w.length <;> by_cases h2 : t.target = w.length <;> simp [h1, h2] <;> rfl

/-- identities are spiders -/
theorem identity_eq_spider (w : List O) :
    (OHG.identity w : Res (OHG O A)) =
      (do let i ← FinFun.identity w.length; OHG.spider i i w) := by
  simp [OHG.identity, FinFun.identity_eq, spider_eq]

theorem identity_eq (w : List O) :
    (OHG.identity w : Res (OHG O A)) =
      .ok ⟨⟨List.range w.length, w.length⟩, ⟨List.range w.length, w.length⟩, HG.discrete w⟩ := by
  simp [OHG.identity, FinFun.identity_eq]

/-- symmetries are spiders -/
theorem twist_eq_spider (a b : List O) :
    (OHG.twist a b : Res (OHG O A)) =
      (do let s ← FinFun.twist a.length b.length
          let t ← FinFun.identity (a.length + b.length)
          OHG.spider s t (b ++ a)) := by
  have h : a.length + b.length = (b ++ a).length := by simp; omega
  simp [OHG.twist, FinFun.identity_eq, FinFun.twist_eq, spider_eq, h]

theorem twist_eq (a b : List O) :
    (OHG.twist a b : Res (OHG O A)) =
      .ok ⟨⟨List.range' b.length a.length ++ List.range b.length, a.length + b.length⟩,
        ⟨List.range (a.length + b.length), a.length + b.length⟩, HG.discrete (b ++ a)⟩ := by
  simp [OHG.twist, FinFun.identity_eq, FinFun.twist_eq]

/-- a half-spider is the spider whose target leg is the identity on the codomain of the source
    leg; it is defined iff that codomain is the length of the node list -/
theorem halfSpider_eq (s : FinFun) (w : List O) :
    (OHG.halfSpider s w : Res (OHG O A)) =
      if s.target = w.length then
        .ok ⟨s, ⟨List.range s.target, s.target⟩, HG.discrete w⟩
      else .none := by
  simp only [OHG.halfSpider, FinFun.identity_eq, Res.ok_bind, spider_eq, and_self]

theorem halfSpider_eq_spider (s : FinFun) (w : List O) :
    (OHG.halfSpider s w : Res (OHG O A)) = OHG.spider s ⟨List.range s.target, s.target⟩ w := by
  simp only [OHG.halfSpider, FinFun.identity_eq, Res.ok_bind]

/-- the dagger of the identity is the identity -/
theorem dagger_identity (w : List O) :
    (OHG.identity w : Res (OHG O A)) = (OHG.identity w >>= fun r => .ok r.dagger) := by
  rw [identity_eq]; rfl

example : (OHG.identity ["a", "b"] : Res (OHG String String)) =
      .ok ⟨⟨[0, 1], 2⟩, ⟨[0, 1], 2⟩, HG.discrete ["a", "b"]⟩ ∧
    (OHG.twist ["a", "b"] ["c"] : Res (OHG String String)) =
      .ok ⟨⟨[1, 2, 0], 3⟩, ⟨[0, 1, 2], 3⟩, HG.discrete ["c", "a", "b"]⟩ ∧
    (OHG.halfSpider ⟨[1, 1, 0], 2⟩ ["a", "b"] : Res (OHG String String)) =
      .ok ⟨⟨[1, 1, 0], 2⟩, ⟨[0, 1], 2⟩, HG.discrete ["a", "b"]⟩ := ⟨rfl, rfl, rfl⟩

/-! ### spiders, lax -/

theorem lax_spider_eq (s t : FinFun) (w : List O) :
    (LOHG.spider s t w : Res (LOHG O A)) =
      if s.target = t.target ∧ s.target = w.length then .ok ⟨s.table, t.table, LHG.discrete w⟩
      else .none := by
  unfold LOHG.spider
  by_cases h1 : s.target = t.target <;> by_cases h2 : s.target = w.length <;> simp [h1, h2]

theorem lax_spider_defined (s t : FinFun) (w : List O) :
    (LOHG.spider s t w : Res (LOHG O A)) ≠ .none ↔ s.target = t.target ∧ s.target = w.length := by
  rw [lax_spider_eq]
  by_cases h : s.target = t.target ∧ s.target = w.length <;> simp [h]

/-- the lax and the strict spider are defined for the same legs -/
theorem lax_spider_defined_iff_strict (s t : FinFun) (w : List O) :
    (LOHG.spider s t w : Res (LOHG O A)) ≠ .none ↔ (OHG.spider s t w : Res (OHG O A)) ≠ .none := by
  rw [lax_spider_defined, spider_defined]
  constructor
  · rintro ⟨h1, h2⟩; exact ⟨h2, by omega⟩
  · rintro ⟨h1, h2⟩; exact ⟨by omega, h1⟩

theorem lax_spider_no_panic (s t : FinFun) (w : List O) (site : String) :
    (LOHG.spider s t w : Res (LOHG O A)) ≠ .panic site := by
  rw [lax_spider_eq]
  split <;> simp

/-- when defined: the tables of the two legs over the discrete lax hypergraph (no edges, no
    pending unifications) -/
theorem lax_spider_ok (s t : FinFun) (w : List O) (r : LOHG O A) (h : LOHG.spider s t w = .ok r) :
    r = ⟨s.table, t.table, ⟨w, [], [], ([], [])⟩⟩ := by
  rw [lax_spider_eq] at h
  split at h
  · cases h; rfl
  · cases h

/-- the lax spider is the strict spider unpacked -/
theorem lax_spider_eq_unpack (s t : FinFun) (w : List O) :
    (LOHG.spider s t w : Res (LOHG O A)) = (OHG.spider s t w >>= fun r => .ok (unpack r)) := by
  rw [lax_spider_eq, spider_eq]
  by_cases h1 : s.target = w.length <;> by_cases h2 : t.target = w.length
  · rw [if_pos ⟨by omega, h1⟩, if_pos ⟨h1, h2⟩]; rfl
  · rw [if_neg (fun h => h2 (by omega)), if_neg (fun h => h2 h.2)]; rfl
  · rw [if_neg (fun h => h1 h.2), if_neg (fun h => h1 h.1)]; rfl
  · rw [if_neg (fun h => h1 h.2), if_neg (fun h => h1 h.1)]; rfl

theorem lax_dagger_spider (s t : FinFun) (w : List O) :
    (LOHG.spider t s w : Res (LOHG O A)) = (LOHG.spider s t w >>= fun r => .ok r.dagger) := by
  rw [lax_spider_eq, lax_spider_eq]
  by_cases h1 : s.target = t.target <;> by_cases h2 : s.target = w.length
  · rw [if_pos ⟨h1.symm, by omega⟩, if_pos ⟨h1, h2⟩]; rfl
  · rw [if_neg (fun h => h2 (by omega)), if_neg (fun h => h2 h.2)]; rfl
  · rw [if_neg (fun h => h1 h.1.symm), if_neg (fun h => h1 h.1)]; rfl
  · rw [if_neg (fun h => h1 h.1.symm), if_neg (fun h => h1 h.1)]; rfl

/-- the lax identity is the spider on two identity legs -/
theorem lax_identity_eq_spider (a : List O) :
    (.ok (LOHG.identity a) : Res (LOHG O A)) =
      (do let i ← FinFun.identity a.length; LOHG.spider i i a) := by
  simp [FinFun.identity_eq, lax_spider_eq, LOHG.identity]

/-- `from_strict` of a discrete hypergraph -/
theorem fromStrict_discrete (w : List O) :
    LHG.fromStrict (HG.discrete w : HG O A) = .ok (LHG.discrete w) := by
  rw [lhg_fromStrict_eq _ (by simp [HG.discrete, IC.initial, FinFun.initial])
    (by simp [HG.discrete, IC.initial, FinFun.initial])]
  rfl

/-- the lax symmetry is a spider -/
theorem lax_twist_eq_spider (a b : List O) :
    (LOHG.twist a b : Res (LOHG O A)) =
      (do let s ← FinFun.twist a.length b.length
          let t ← FinFun.identity (a.length + b.length)
          LOHG.spider s t (b ++ a)) := by
  have h : a.length + b.length = (b ++ a).length := by simp; omega
  unfold LOHG.twist
  rw [twist_eq]
  simp only [Res.ok_bind, LOHG.fromStrict, fromStrict_discrete, Res.pure_eq, FinFun.twist_eq,
    FinFun.identity_eq, lax_spider_eq, and_self, h, if_true]

example : (LOHG.twist ["a", "b"] ["c"] : Res (LOHG String String)) =
      .ok ⟨[1, 2, 0], [0, 1, 2], LHG.discrete ["c", "a", "b"]⟩ ∧
    (LOHG.spider ⟨[0, 0], 2⟩ ⟨[1], 2⟩ ["a", "b"] : Res (LOHG String String)) =
      .ok ⟨[0, 0], [1], LHG.discrete ["a", "b"]⟩ ∧
    (LOHG.spider ⟨[0, 0], 2⟩ ⟨[1], 3⟩ ["a", "b"] : Res (LOHG String String)) = .none ∧
    (LOHG.spider ⟨[0, 0], 3⟩ ⟨[1], 3⟩ ["a", "b"] : Res (LOHG String String)) = .none := by decide

/-! ### spider fusion (uses the characterisation of composition, `OH.C01`) -/

/-- a well-formed strict hypergraph without hyperedges is the discrete one on its nodes -/
theorem discrete_of_wf (h : HG O A) (hwf : h.wf = true) (hx : h.x = []) : h = HG.discrete h.w := by
  obtain ⟨hsw, htw, hsl, htl, hsv, htv⟩ := (hg_wf_iff h).1 hwf
  obtain ⟨hsvalid, _, _⟩ := (ic_wf_iff _).1 hsw
  obtain ⟨htvalid, _, _⟩ := (ic_wf_iff _).1 htw
  obtain ⟨hs1, hs2⟩ := (IC.valid_iff _).1 hsvalid
  obtain ⟨ht1, ht2⟩ := (IC.valid_iff _).1 htvalid
  obtain ⟨⟨⟨st, sg⟩, ⟨svt, svg⟩⟩, ⟨⟨tt, tg⟩, ⟨tvt, tvg⟩⟩, w, x⟩ := h
  simp only [IC.len, FinFun.source, IC.len_finfun] at *
  subst hx
  have e1 : st = [] := List.eq_nil_of_length_eq_zero hsl
  have e2 : tt = [] := List.eq_nil_of_length_eq_zero htl
  subst e1 e2
  simp only [List.sum_nil] at hs1 hs2 ht1 ht2
  have e3 : svt = [] := List.eq_nil_of_length_eq_zero hs2.symm
  have e4 : tvt = [] := List.eq_nil_of_length_eq_zero ht2.symm
  subst e3 e4 hs1 ht1 hsv htv
  rfl

/-- SPIDER FUSION.  Two spiders `(s, t, w)` and `(s', t', w')` with well-formed legs whose boundary
    types match compose, for every lawful backend, to a diagram that
    * is again a spider: discrete hypergraph on some node list `w''`, legs `s ; q` and `t' ; q`;
    * whose nodes are the connected classes of the glued boundary: `q` maps the disjoint union
      `[0, |w| + |w'|)` onto the nodes of `w''`, and `q i = q j` iff `i` and `j` are connected by
      the identifications `t[k] ~ |w| + s'[k]`;
    * whose node labels are those of `w`, `w'` pushed through `q`;
    * and is the gluing of the two spiders in the sense of C01. -/
theorem spider_fusion [DecidableEq O] (B : Backend) (hB : B.Lawful)
    (s t s' t' : FinFun) (w w' : List O) (f g : OHG O A)
    (hs : s.WF) (ht : t.WF) (hs' : s'.WF) (ht' : t'.WF)
    (hf : OHG.spider s t w = .ok f) (hg : OHG.spider s' t' w' = .ok g)
    (hty : f.target = g.source) :
    ∃ (r : OHG O A) (q : Nat → Nat) (w'' : List O),
      OHG.compose B f g = .ok r ∧
      OHG.spider ⟨s.table.map q, w''.length⟩ ⟨t'.table.map (fun i => q (w.length + i)), w''.length⟩
        w'' = .ok r ∧
      r.h.isDiscrete = true ∧ r.wf = true ∧
      (∀ i, i < w.length + w'.length → q i < w''.length) ∧
      (∀ k, k < w''.length → ∃ i, i < w.length + w'.length ∧ q i = k) ∧
      (∀ i j, i < w.length + w'.length → j < w.length + w'.length →
        (q i = q j ↔ Relation.EqvGen (fun a b => ∃ k c : Nat, t.table[k]? = some a ∧
          s'.table[k]? = some c ∧ b = w.length + c) i j)) ∧
      (∀ i, i < w.length → w''[q i]? = w[i]?) ∧
      (∀ i, i < w'.length → w''[q (w.length + i)]? = w'[i]?) ∧
      IsGluing f.toPlain g.toPlain r.toPlain := by
  have hfw := spider_wf s t w f hf hs ht
  have hgw := spider_wf s' t' w' g hg hs' ht'
  obtain ⟨rfl, _, _⟩ := spider_ok s t w f hf
  obtain ⟨rfl, _, _⟩ := spider_ok s' t' w' g hg
  obtain ⟨r, hr⟩ := (C01.compose_total B hB _ _ hfw hgw).1 hty
  obtain ⟨hrw, q, hq1, hq2, hq3, hq4, hq5, hx, _, _, _, hsrc, htgt⟩ :=
    C01.compose_explicit B hB _ _ r hfw hgw hr
  have hglue := (C01.compose_isGluing B hB _ _ r hfw hgw hr).1
  obtain ⟨hrh, _, _, hrs, hrt⟩ := (ohg_wf_iff r).1 hrw
  have hdisc := discrete_of_wf r.h hrh (by rw [hx]; rfl)
  have hreq : r = ⟨⟨s.table.map q, r.h.w.length⟩,
      ⟨t'.table.map (fun i => q (w.length + i)), r.h.w.length⟩, HG.discrete r.h.w⟩ := by
    obtain ⟨⟨rst, rsg⟩, ⟨rtt, rtg⟩, rh⟩ := r
    simp only at hsrc htgt hrs hrt hdisc
    subst hsrc htgt hrs hrt
    rw [← hdisc]
    rfl
  refine ⟨r, q, r.h.w, hr, ?_, ?_, hrw, hq1, hq2, hq3, hq4, hq5, hglue⟩
  · rw [spider_eq, if_pos ⟨rfl, rfl⟩]
    exact congrArg Res.ok hreq.symm
  · rw [hdisc]; rfl

/-- witnesses: legs that are neither injective nor surjective; the middle boundary `b b` is
    glued so that the three nodes `1, 2` (of the first) and `0` (of the second) collapse -/
example :
    let s : FinFun := ⟨[0, 0], 3⟩
    let t : FinFun := ⟨[1, 2], 3⟩
    let s' : FinFun := ⟨[0, 0], 2⟩
    let t' : FinFun := ⟨[1, 1, 0], 2⟩
    s.WF ∧ t.WF ∧ s'.WF ∧ t'.WF ∧
    (OHG.spider s t ["a", "b", "b"] >>= fun f => OHG.target (A := String) f) =
      (OHG.spider s' t' ["b", "c"] >>= fun g => OHG.source (A := String) g) ∧
    (OHG.spider s t ["a", "b", "b"] >>= fun f => OHG.spider s' t' ["b", "c"] >>= fun g =>
      (OHG.toPlain <$> OHG.compose vecBackend (A := String) f g)) =
      .ok ⟨["a", "b", "c"], [], [0, 0], [2, 2, 1]⟩ := by decide

/-! ### dagger reverses composition (uses `OH.C01` and the quotient library) -/

section DaggerComp
open Relation

/-- exchange of the two blocks of a disjoint union `[0,n) + [0,m)` -/
def swapBlocks (n m i : Nat) : Nat := if i < n then m + i else i - n

theorem swapBlocks_bijOn (n m : Nat) : BijOn (n + m) (m + n) (swapBlocks n m) := by
  refine ⟨?_, ?_, ?_⟩
  · intro i hi; unfold swapBlocks; split <;> omega
  · intro i j hi hj h; unfold swapBlocks at h; split at h <;> split at h <;> omega
  · intro k hk
    by_cases h : k < m
    · exact ⟨n + k, by omega, by unfold swapBlocks; rw [if_neg (by omega)]; omega⟩
    · exact ⟨k - m, by omega, by unfold swapBlocks; rw [if_pos (by omega)]; omega⟩

theorem swapBlocks_swapBlocks (n m i : Nat) (hi : i < n + m) :
    swapBlocks m n (swapBlocks n m i) = i := by
  unfold swapBlocks; split <;> split <;> omega

theorem pdagger_wf {P : PDiag O A} (h : P.wf = true) : P.dagger.wf = true := by
  obtain ⟨h1, h2, h3⟩ := (PDiag.wf_iff P).1 h
  exact (PDiag.wf_iff _).2 ⟨h2, h1, h3⟩

theorem IsQuotMap.dagger {P R : PDiag O A} {q : Nat → Nat} (h : IsQuotMap P R q) :
    IsQuotMap P.dagger R.dagger q :=
  ⟨h.lt, h.onto, h.nodes, h.edges, h.outs, h.ins⟩

/-- two quotient maps out of ISOMORPHIC well-formed diagrams whose kernels correspond under the
    isomorphism have isomorphic codomains (`iso_of_quotMaps` transported along an isomorphism that
    may also permute the edges) -/
theorem iso_of_quotMaps_over_iso {P1 P2 R1 R2 : PDiag O A} {q1 q2 σ ρ : Nat → Nat}
    (hP1 : P1.wf = true) (hσ : BijOn P1.n P2.n σ)
    (hρ : BijOn P1.edges.length P2.edges.length ρ)
    (hnodes : ∀ i, i < P1.n → P2.nodes[σ i]? = P1.nodes[i]?)
    (hedges : ∀ e, e < P1.edges.length →
      P2.edges[ρ e]? = (P1.edges[e]?).map (PEdge.mapNodes σ))
    (hins : P2.ins = P1.ins.map σ) (houts : P2.outs = P1.outs.map σ)
    (h1 : IsQuotMap P1 R1 q1) (h2 : IsQuotMap P2 R2 q2)
    (hker : ∀ i j, i < P1.n → j < P1.n → (q1 i = q1 j ↔ q2 (σ i) = q2 (σ j))) : R1 ≅ R2 := by
  have hq' : IsQuotMap P1 ⟨R2.nodes, P1.edges.map (PEdge.mapNodes (fun i => q2 (σ i))),
      P1.ins.map (fun i => q2 (σ i)), P1.outs.map (fun i => q2 (σ i))⟩ (fun i => q2 (σ i)) := by
    refine ⟨fun i hi => h2.lt _ (hσ.1 i hi), ?_, ?_, rfl, rfl, rfl⟩
    · intro k hk
      obtain ⟨j, hj, rfl⟩ := h2.onto k hk
      obtain ⟨i, hi, rfl⟩ := hσ.2.2 j hj
      exact ⟨i, hi, rfl⟩
    · intro i hi
      show R2.nodes[q2 (σ i)]? = _
      rw [h2.nodes _ (hσ.1 i hi), hnodes i hi]
  refine iso_trans (iso_of_quotMaps hP1 h1 hq' hker) ?_
  refine ⟨fun i => i, ρ, BijOn.refl _, ?_, fun _ _ => rfl, ?_, ?_, ?_⟩
  · have e1 : R2.edges.length = P2.edges.length := by rw [h2.edges]; simp
    rw [e1]
    simpa using hρ
  · intro e he
    have he' : e < P1.edges.length := by simpa using he
    rw [h2.edges, List.getElem?_map, hedges e he']
    simp only [List.getElem?_map]
    cases P1.edges[e]? with
    | none => rfl
    | some x => simp [PEdge.mapNodes_comp]
  · rw [h2.ins, hins]; simp
  · rw [h2.outs, houts]; simp

/-- the generating pairs of the gluing of `G†, F†` are those of the gluing of `F, G`, reversed
    and with the two blocks exchanged -/
theorem glue_swap {F G : PDiag O A} (hF : F.wf = true) (hG : G.wf = true) (i j : Nat)
    (h : EqvGen (fun a b => a < (gluePre F G).n ∧ b < (gluePre F G).n ∧ glueRel F G a b) i j) :
    EqvGen (fun a b => a < (gluePre G.dagger F.dagger).n ∧ b < (gluePre G.dagger F.dagger).n ∧
      glueRel G.dagger F.dagger a b) (swapBlocks F.n G.n i) (swapBlocks F.n G.n j) := by
  obtain ⟨_, f2, _⟩ := (PDiag.wf_iff F).1 hF
  obtain ⟨g1, _, _⟩ := (PDiag.wf_iff G).1 hG
  induction h with
  | refl => exact EqvGen.refl _
  | symm _ _ _ ih => exact EqvGen.symm _ _ ih
  | trans _ _ _ _ _ ih1 ih2 => exact EqvGen.trans _ _ _ ih1 ih2
  | rel a b hab =>
    obtain ⟨_, _, k, hk1, hk2⟩ := hab
    cases hgk : G.ins[k]? with
    | none => rw [hgk] at hk2; cases hk2
    | some c =>
      rw [hgk] at hk2
      have hb : b = F.n + c := (Option.some.inj hk2).symm
      have ha : a < F.n := f2 a (List.mem_of_getElem? hk1)
      have hc : c < G.n := g1 c (List.mem_of_getElem? hgk)
      have e1 : swapBlocks F.n G.n a = G.n + a := by unfold swapBlocks; rw [if_pos ha]
      have e2 : swapBlocks F.n G.n b = c := by
        unfold swapBlocks; rw [if_neg (by omega)]; omega
      rw [e1, e2]
      apply EqvGen.symm
      apply EqvGen.rel
      refine ⟨?_, ?_, k, hgk, ?_⟩
      · rw [gluePre_n]; show c < G.n + F.n; omega
      · rw [gluePre_n]; show G.n + a < G.n + F.n; omega
      · show (F.outs[k]?).map (G.n + ·) = some (G.n + a)
        rw [hk1]; rfl

/-- on plain diagrams: the dagger of the gluing of `F, G` is the gluing of `G†, F†` -/
theorem gluing_dagger {F G R R' : PDiag O A} (hF : F.wf = true) (hG : G.wf = true)
    (h : IsGluing F G R) (h' : IsGluing G.dagger F.dagger R') : R.dagger ≅ R' := by
  obtain ⟨f1, f2, f3⟩ := (PDiag.wf_iff F).1 hF
  obtain ⟨q, hq, hk⟩ := (isQuot_iff _ _ _).1 h
  obtain ⟨q', hq', hk'⟩ := (isQuot_iff _ _ _).1 h'
  have hn1 : (gluePre F G).dagger.n = F.n + G.n := gluePre_n F G
  have hn2 : (gluePre G.dagger F.dagger).n = G.n + F.n := gluePre_n G.dagger F.dagger
  have hl1 : (gluePre F G).dagger.edges.length = F.edges.length + G.edges.length := by
    simp [gluePre, PDiag.dagger]
  have hl2 : (gluePre G.dagger F.dagger).edges.length = G.edges.length + F.edges.length := by
    simp [gluePre, PDiag.dagger]
  refine iso_of_quotMaps_over_iso (σ := swapBlocks F.n G.n)
    (ρ := swapBlocks F.edges.length G.edges.length) (pdagger_wf (gluePre_wf hF hG)) ?_ ?_ ?_ ?_ ?_ ?_
    (IsQuotMap.dagger hq) hq' ?_
  · rw [hn1, hn2]; exact swapBlocks_bijOn _ _
  · rw [hl1, hl2]; exact swapBlocks_bijOn _ _
  · intro i hi
    rw [hn1] at hi
    show (G.nodes ++ F.nodes)[swapBlocks F.n G.n i]? = (F.nodes ++ G.nodes)[i]?
    unfold swapBlocks
    by_cases h1 : i < F.n
    · rw [if_pos h1, List.getElem?_append_right (by show G.nodes.length ≤ _; exact Nat.le_add_right _ _),
        List.getElem?_append_left h1]
      congr 1
      show G.n + i - G.n = i
      omega
    · rw [if_neg h1, List.getElem?_append_left (by show i - F.n < G.n; omega),
        List.getElem?_append_right (by show F.n ≤ i; omega)]
      rfl
  · intro e he
    rw [hl1] at he
    show (G.edges ++ F.edges.map (PEdge.mapNodes (G.n + ·)))[swapBlocks _ _ e]? =
      ((F.edges ++ G.edges.map (PEdge.mapNodes (F.n + ·)))[e]?).map _
    unfold swapBlocks
    by_cases h1 : e < F.edges.length
    · rw [if_pos h1, List.getElem?_append_right (Nat.le_add_right _ _),
        List.getElem?_append_left h1, Nat.add_sub_cancel_left, List.getElem?_map]
      cases hfe : F.edges[e]? with
      | none => rfl
      | some x =>
        obtain ⟨hs, ht⟩ := f3 x (List.mem_of_getElem? hfe)
        simp only [Option.map_some, Option.some.injEq]
        apply PEdge.mapNodes_congr
        · intro v hv; rw [if_pos (hs v hv)]
        · intro v hv; rw [if_pos (ht v hv)]
    · rw [if_neg h1, List.getElem?_append_left (by omega),
        List.getElem?_append_right (by omega), List.getElem?_map]
      cases G.edges[e - F.edges.length]? with
      | none => rfl
      | some x =>
        simp only [Option.map_some, Option.some.injEq, PEdge.mapNodes_comp]
        rw [← PEdge.mapNodes_id x]
        rw [PEdge.mapNodes_comp]
        apply PEdge.mapNodes_congr <;> intro v _ <;> rw [if_neg (by omega)] <;> omega
  · show G.outs = (G.outs.map (F.n + ·)).map (swapBlocks F.n G.n)
    rw [List.map_map]
    conv => lhs; rw [← List.map_id G.outs]
    apply List.map_congr_left
    intro v _
    simp only [Function.comp, swapBlocks, id]
    rw [if_neg (by omega)]; omega
  · show F.ins.map (G.n + ·) = F.ins.map (swapBlocks F.n G.n)
    apply List.map_congr_left
    intro v hv
    simp only [swapBlocks]
    rw [if_pos (f1 v hv)]
  · intro i j hi hj
    rw [hn1] at hi hj
    have hi' : i < (gluePre F G).n := by rw [gluePre_n]; exact hi
    have hj' : j < (gluePre F G).n := by rw [gluePre_n]; exact hj
    have hσi : swapBlocks F.n G.n i < (gluePre G.dagger F.dagger).n := by
      rw [hn2]; exact (swapBlocks_bijOn F.n G.n).1 i hi
    have hσj : swapBlocks F.n G.n j < (gluePre G.dagger F.dagger).n := by
      rw [hn2]; exact (swapBlocks_bijOn F.n G.n).1 j hj
    rw [hk i j hi' hj', hk' _ _ hσi hσj]
    constructor
    · exact glue_swap hF hG i j
    · intro hh
      have := glue_swap (pdagger_wf hG) (pdagger_wf hF) _ _ hh
      have e1 := swapBlocks_swapBlocks F.n G.n i hi
      have e2 := swapBlocks_swapBlocks F.n G.n j hj
      change EqvGen _ (swapBlocks G.n F.n (swapBlocks F.n G.n i))
        (swapBlocks G.n F.n (swapBlocks F.n G.n j)) at this
      rw [e1, e2] at this
      exact this

/-- DAGGER REVERSES COMPOSITION: for well-formed `f`, `g` with matching types and every lawful
    backend, both `f ; g` and `g† ; f†` are defined and `(f ; g)† ≅ g† ; f†` -/
theorem dagger_comp [DecidableEq O] (B : Backend) (hB : B.Lawful) (f g : OHG O A)
    (hf : f.wf = true) (hg : g.wf = true) (hty : f.target = g.source) :
    ∃ r r', OHG.compose B f g = .ok r ∧ OHG.compose B g.dagger f.dagger = .ok r' ∧
      r.dagger.wf = true ∧ r'.wf = true ∧ r.dagger.toPlain ≅ r'.toPlain := by
  obtain ⟨_, _, _, hfs, hft⟩ := (ohg_wf_iff f).1 hf
  obtain ⟨_, _, _, hgs, hgt⟩ := (ohg_wf_iff g).1 hg
  have hfd : f.dagger.wf = true := by rw [dagger_wf]; exact hf
  have hgd : g.dagger.wf = true := by rw [dagger_wf]; exact hg
  have hty' : g.dagger.target = f.dagger.source := by
    rw [dagger_target g hgs, dagger_source f hft]; exact hty.symm
  obtain ⟨r, hr⟩ := (C01.compose_total B hB f g hf hg).1 hty
  obtain ⟨r', hr'⟩ := (C01.compose_total B hB g.dagger f.dagger hgd hfd).1 hty'
  obtain ⟨hglue, hrw⟩ := C01.compose_isGluing B hB f g r hf hg hr
  obtain ⟨hglue', hrw'⟩ := C01.compose_isGluing B hB _ _ r' hgd hfd hr'
  refine ⟨r, r', hr, hr', by rw [dagger_wf]; exact hrw, hrw', ?_⟩
  exact gluing_dagger (Compose.toPlain_wf ((Compose.wf_iff f).1 hf))
    (Compose.toPlain_wf ((Compose.wf_iff g).1 hg)) hglue hglue'

/-- the hypotheses are satisfiable (the non-trivial pair of `OH.C01`), and the two composites are
    genuinely different data: `g† ; f†` lists `g`'s nodes and edges first -/
example : C01.exF.wf = true ∧ C01.exG.wf = true ∧ C01.exF.target = C01.exG.source ∧
    (OHG.toPlain <$> (OHG.compose vecBackend C01.exF C01.exG >>= fun r => .ok r.dagger)) =
      .ok ⟨[10, 20, 30], [⟨7, [0], [1, 1]⟩, ⟨8, [1, 1], [2]⟩], [2], [0]⟩ ∧
    (OHG.toPlain <$> OHG.compose vecBackend C01.exG.dagger C01.exF.dagger) =
      .ok ⟨[20, 30, 10], [⟨8, [0, 0], [1]⟩, ⟨7, [2], [0, 0]⟩], [1], [2]⟩ := by decide

end DaggerComp

/-! ### lax versions of the two "up to isomorphism" clauses (NOT proved here)

For lax diagrams the composite carries pending unifications, so contravariance of dagger and
spider fusion only make sense after strictification; they are instances of
`OH.C10.strict_comp_statement` composed with `dagger_comp` / `spider_fusion` above. -/

/-- strict((f ; g)†) ≅ strict(g† ; f†) for lax diagrams -/
def lax_dagger_comp_statement : Prop :=
  ∀ {O A : Type} [DecidableEq O] (B : Backend), B.Lawful → ∀ (f g c : LOHG O A) (r : OHG O A),
    f.wf = true → g.wf = true → LOHG.compose f g = .ok c → LOHG.toStrict B c = .ok r →
    ∃ c' r', LOHG.compose g.dagger f.dagger = .ok c' ∧ LOHG.toStrict B c' = .ok r' ∧
      r.dagger.toPlain ≅ r'.toPlain

/-- the strictified lax composite of two lax spiders is isomorphic to the strict composite of
    the two strict spiders (which `spider_fusion` describes) -/
def lax_spider_fusion_statement : Prop :=
  ∀ {O A : Type} [DecidableEq O] (B : Backend), B.Lawful →
    ∀ (s t s' t' : FinFun) (w w' : List O) (f g : OHG O A) (lf lg : LOHG O A),
    s.WF → t.WF → s'.WF → t'.WF →
    OHG.spider s t w = .ok f → OHG.spider s' t' w' = .ok g →
    LOHG.spider s t w = .ok lf → LOHG.spider s' t' w' = .ok lg → f.target = g.source →
    ∃ c r r', LOHG.compose lf lg = .ok c ∧ LOHG.toStrict B c = .ok r ∧
      OHG.compose B f g = .ok r' ∧ r'.toPlain ≅ r.toPlain

end OH.C04
