/-
  C04 — dagger and spiders (equational part).
  Dagger swaps the two interfaces and leaves nodes and hyperedges untouched, is an involution
  and distributes over tensor (strict and lax); identities, symmetries and half-spiders are
  spiders; spider construction is defined exactly when both legs are typed into the given node
  list.  The two "up to isomorphism" clauses (contravariance of dagger, spider fusion) are kept
  as `…_statement : Prop` at the end of the file; the part of spider fusion that holds on the
  nose (the composite of two spiders is discrete: it is again a spider) is proved.
-/
import OHVerif.Lemmas.LaxStrict
import OHVerif.Spec.Diagram

namespace OH.C04
open OH OH.LaxStrict

variable {O A : Type}

/-! ### dagger, strict -/

/-- dagger swaps the two interfaces and leaves the hypergraph untouched -/
theorem dagger_fields (f : OHG O A) : f.dagger = ⟨f.t, f.s, f.h⟩ := rfl

/-- dagger is an involution (equal data) -/
theorem dagger_dagger (f : OHG O A) : f.dagger.dagger = f := rfl

/-- on the plain model: nodes and edges unchanged, `ins` and `outs` exchanged -/
theorem dagger_toPlain (f : OHG O A) : f.dagger.toPlain = f.toPlain.dagger := rfl

theorem dagger_toPlain_fields (f : OHG O A) :
    f.dagger.toPlain.nodes = f.toPlain.nodes ∧ f.dagger.toPlain.edges = f.toPlain.edges ∧
    f.dagger.toPlain.ins = f.toPlain.outs ∧ f.dagger.toPlain.outs = f.toPlain.ins :=
  ⟨rfl, rfl, rfl, rfl⟩

/-- dagger preserves (and reflects) deep well-formedness -/
theorem dagger_wf (f : OHG O A) : f.dagger.wf = f.wf := by
  simp only [OHG.wf, OHG.dagger]
  cases f.h.wf <;> cases f.s.wf <;> cases f.t.wf <;>
    cases (f.s.target == f.h.w.length) <;> cases (f.t.target == f.h.w.length) <;> rfl

/-- dagger exchanges source and target type (the hypothesis is the typing of the target leg; without
    it both sides panic, but at differently named sites) -/
theorem dagger_source (f : OHG O A) (h : f.t.target = f.h.w.length) :
    f.dagger.source = f.target := by
  simp only [OHG.source, OHG.target, OHG.dagger, FinFun.composeSemi, h, if_true]
  have := FinFun.gather_ne_none f.h.w f.t.table
  cases hg : Prim.gather f.h.w f.t.table <;> simp_all [Res.unwrap]

theorem dagger_target (f : OHG O A) (h : f.s.target = f.h.w.length) :
    f.dagger.target = f.source := by
  simp only [OHG.source, OHG.target, OHG.dagger, FinFun.composeSemi, h, if_true]
  have := FinFun.gather_ne_none f.h.w f.s.table
  cases hg : Prim.gather f.h.w f.s.table <;> simp_all [Res.unwrap]

/-- dagger distributes over tensor: equality in `Res` (same value, same failure) -/
theorem dagger_tensor (f g : OHG O A) :
    OHG.tensor f.dagger g.dagger = (OHG.tensor f g >>= fun r => .ok r.dagger) := by
  simp only [OHG.tensor, OHG.dagger]
  cases HG.coproduct f.h g.h <;> rfl

/-- a well-formed diagram with one binary-output operation; its dagger differs from it -/
def exF : OHG String String :=
  ⟨⟨[0, 0], 2⟩, ⟨[1], 2⟩, ⟨⟨⟨[1], 2⟩, ⟨[0], 2⟩⟩, ⟨⟨[2], 3⟩, ⟨[1, 1], 2⟩⟩, ["a", "b"], ["x"]⟩⟩

example : exF.wf = true ∧ exF.dagger.toPlain ≠ exF.toPlain ∧ (OHG.tensor exF exF).isOk = true := by
  decide

/-! ### dagger, lax -/

/-- lax dagger swaps the interfaces; the hypergraph (nodes, edges, adjacency, pending
    unifications) is untouched -/
theorem lax_dagger_fields (f : LOHG O A) : f.dagger = ⟨f.targets, f.sources, f.hypergraph⟩ := rfl

theorem lax_dagger_dagger (f : LOHG O A) : f.dagger.dagger = f := rfl

theorem lax_dagger_wf (f : LOHG O A) : f.dagger.wf = f.wf := by
  exact Bool.and_right_comm _ _ _

theorem lax_dagger_source (f : LOHG O A) : f.dagger.source = f.target := rfl

theorem lax_dagger_target (f : LOHG O A) : f.dagger.target = f.source := rfl

/-- lax dagger distributes over lax tensor on the nose -/
theorem lax_dagger_tensor (f g : LOHG O A) :
    LOHG.tensor f.dagger g.dagger = (LOHG.tensor f g).dagger := rfl

/-- the two packings commute with dagger -/
theorem dagger_pack (d : LOHG O A) : pack d.dagger = (pack d).dagger := rfl

/-- strict → lax conversion commutes with dagger (same value, same failure) -/
theorem fromStrict_dagger (f : OHG O A) :
    LOHG.fromStrict f.dagger = (LOHG.fromStrict f >>= fun d => .ok d.dagger) := by
  unfold LOHG.fromStrict
  show (LHG.fromStrict f.h >>= _) = _
  cases LHG.fromStrict f.h <;> rfl

/-! ### spiders, strict -/

/-- closed form of `spider` -/
theorem spider_eq (s t : FinFun) (w : List O) :
    (OHG.spider s t w : Res (OHG O A)) =
      if s.target = w.length ∧ t.target = w.length then .ok ⟨s, t, HG.discrete w⟩ else .none := by
  unfold OHG.spider
  by_cases h1 : s.target = w.length <;> by_cases h2 : t.target = w.length <;> simp [h1, h2]

/-- spider construction is defined exactly when both legs are typed into the node list -/
theorem spider_defined (s t : FinFun) (w : List O) :
    (OHG.spider s t w : Res (OHG O A)) ≠ .none ↔ s.target = w.length ∧ t.target = w.length := by
  rw [spider_eq]
  by_cases h : s.target = w.length ∧ t.target = w.length <;> simp [h]

theorem spider_none_iff (s t : FinFun) (w : List O) :
    (OHG.spider s t w : Res (OHG O A)) = .none ↔ s.target ≠ w.length ∨ t.target ≠ w.length := by
  rw [spider_eq]
  by_cases h1 : s.target = w.length <;> by_cases h2 : t.target = w.length <;> simp [h1, h2]

/-- … and never panics -/
theorem spider_no_panic (s t : FinFun) (w : List O) (site : String) :
    (OHG.spider s t w : Res (OHG O A)) ≠ .panic site := by
  rw [spider_eq]
  split <;> simp

/-- when defined the spider has the given legs over the discrete hypergraph on `w`
    (no hyperedges, so the plain diagram is `w` with the two legs) -/
theorem spider_ok (s t : FinFun) (w : List O) (r : OHG O A) (h : OHG.spider s t w = .ok r) :
    r = ⟨s, t, HG.discrete w⟩ ∧ r.h.isDiscrete = true ∧ r.toPlain = ⟨w, [], s.table, t.table⟩ := by
  rw [spider_eq] at h
  split at h
  · cases h
    exact ⟨rfl, rfl, rfl⟩
  · cases h

/-- a defined spider with well-formed legs is a well-formed diagram -/
theorem spider_wf (s t : FinFun) (w : List O) (r : OHG O A) (h : OHG.spider s t w = .ok r)
    (hs : s.WF) (ht : t.WF) : r.wf = true := by
  rw [spider_eq] at h
  split at h
  · rename_i hc
    cases h
    rw [ohg_wf_iff]
    exact ⟨by simp [HG.wf, HG.discrete, IC.wf, IC.initial, FinFun.initial, IC.valid, Prim.sum,
      FinFun.wf, IC.len, FinFun.source], hs, ht, hc.1, hc.2⟩
  · cases h

example : (OHG.spider ⟨[0, 0, 2], 3⟩ ⟨[1], 3⟩ ["a", "b", "c"] : Res (OHG String String)) =
      .ok ⟨⟨[0, 0, 2], 3⟩, ⟨[1], 3⟩, HG.discrete ["a", "b", "c"]⟩ ∧
    (OHG.spider ⟨[0, 0, 2], 4⟩ ⟨[1], 3⟩ ["a", "b", "c"] : Res (OHG String String)) = .none ∧
    (OHG.spider ⟨[0, 0, 2], 3⟩ ⟨[1], 2⟩ ["a", "b", "c"] : Res (OHG String String)) = .none ∧
    (⟨[0, 0, 2], 3⟩ : FinFun).WF ∧ (⟨[1], 3⟩ : FinFun).WF :=
  ⟨rfl, rfl, rfl, by decide, by decide⟩

/-- the dagger of a spider is the spider with the legs exchanged -/
theorem dagger_spider (s t : FinFun) (w : List O) :
    (OHG.spider t s w : Res (OHG O A)) = (OHG.spider s t w >>= fun r => .ok r.dagger) := by
  rw [spider_eq, spider_eq]
  by_cases h1 : s.target = w.length <;> by_cases h2 : t.target = w.length <;> simp [h1, h2] <;> rfl

/-- identities are spiders -/
theorem identity_eq_spider (w : List O) :
    (OHG.identity w : Res (OHG O A)) =
      (do let i ← FinFun.identity w.length; OHG.spider i i w) := by
  simp [OHG.identity, FinFun.identity_eq, spider_eq]

theorem identity_eq (w : List O) :
    (OHG.identity w : Res (OHG O A)) =
      .ok ⟨⟨List.range w.length, w.length⟩, ⟨List.range w.length, w.length⟩, HG.discrete w⟩ := by
  simp [OHG.identity, FinFun.identity_eq]

/-- symmetries are spiders -/
theorem twist_eq_spider (a b : List O) :
    (OHG.twist a b : Res (OHG O A)) =
      (do let s ← FinFun.twist a.length b.length
          let t ← FinFun.identity (a.length + b.length)
          OHG.spider s t (b ++ a)) := by
  have h : a.length + b.length = (b ++ a).length := by simp; omega
  simp [OHG.twist, FinFun.identity_eq, FinFun.twist_eq, spider_eq, h]

theorem twist_eq (a b : List O) :
    (OHG.twist a b : Res (OHG O A)) =
      .ok ⟨⟨List.range' b.length a.length ++ List.range b.length, a.length + b.length⟩,
        ⟨List.range (a.length + b.length), a.length + b.length⟩, HG.discrete (b ++ a)⟩ := by
  simp [OHG.twist, FinFun.identity_eq, FinFun.twist_eq]

/-- a half-spider is the spider whose target leg is the identity on the codomain of the source
    leg; it is defined iff that codomain is the length of the node list -/
theorem halfSpider_eq (s : FinFun) (w : List O) :
    (OHG.halfSpider s w : Res (OHG O A)) =
      if s.target = w.length then
        .ok ⟨s, ⟨List.range s.target, s.target⟩, HG.discrete w⟩
      else .none := by
  simp only [OHG.halfSpider, FinFun.identity_eq, Res.ok_bind, spider_eq, and_self]

theorem halfSpider_eq_spider (s : FinFun) (w : List O) :
    (OHG.halfSpider s w : Res (OHG O A)) = OHG.spider s ⟨List.range s.target, s.target⟩ w := by
  simp only [OHG.halfSpider, FinFun.identity_eq, Res.ok_bind]

/-- the dagger of the identity is the identity -/
theorem dagger_identity (w : List O) :
    (OHG.identity w : Res (OHG O A)) = (OHG.identity w >>= fun r => .ok r.dagger) := by
  rw [identity_eq]; rfl

example : (OHG.identity ["a", "b"] : Res (OHG String String)) =
      .ok ⟨⟨[0, 1], 2⟩, ⟨[0, 1], 2⟩, HG.discrete ["a", "b"]⟩ ∧
    (OHG.twist ["a", "b"] ["c"] : Res (OHG String String)) =
      .ok ⟨⟨[1, 2, 0], 3⟩, ⟨[0, 1, 2], 3⟩, HG.discrete ["c", "a", "b"]⟩ ∧
    (OHG.halfSpider ⟨[1, 1, 0], 2⟩ ["a", "b"] : Res (OHG String String)) =
      .ok ⟨⟨[1, 1, 0], 2⟩, ⟨[0, 1], 2⟩, HG.discrete ["a", "b"]⟩ := ⟨rfl, rfl, rfl⟩

/-! ### spiders, lax -/

theorem lax_spider_eq (s t : FinFun) (w : List O) :
    (LOHG.spider s t w : Res (LOHG O A)) =
      if s.target = t.target ∧ s.target = w.length then .ok ⟨s.table, t.table, LHG.discrete w⟩
      else .none := by
  unfold LOHG.spider
  by_cases h1 : s.target = t.target <;> by_cases h2 : s.target = w.length <;> simp [h1, h2]

theorem lax_spider_defined (s t : FinFun) (w : List O) :
    (LOHG.spider s t w : Res (LOHG O A)) ≠ .none ↔ s.target = t.target ∧ s.target = w.length := by
  rw [lax_spider_eq]
  by_cases h : s.target = t.target ∧ s.target = w.length <;> simp [h]

/-- the lax and the strict spider are defined for the same legs -/
theorem lax_spider_defined_iff_strict (s t : FinFun) (w : List O) :
    (LOHG.spider s t w : Res (LOHG O A)) ≠ .none ↔ (OHG.spider s t w : Res (OHG O A)) ≠ .none := by
  rw [lax_spider_defined, spider_defined]
  constructor
  · rintro ⟨h1, h2⟩; exact ⟨h2, by omega⟩
  · rintro ⟨h1, h2⟩; exact ⟨by omega, h1⟩

theorem lax_spider_no_panic (s t : FinFun) (w : List O) (site : String) :
    (LOHG.spider s t w : Res (LOHG O A)) ≠ .panic site := by
  rw [lax_spider_eq]
  split <;> simp

/-- when defined: the tables of the two legs over the discrete lax hypergraph (no edges, no
    pending unifications) -/
theorem lax_spider_ok (s t : FinFun) (w : List O) (r : LOHG O A) (h : LOHG.spider s t w = .ok r) :
    r = ⟨s.table, t.table, ⟨w, [], [], ([], [])⟩⟩ := by
  rw [lax_spider_eq] at h
  split at h
  · cases h; rfl
  · cases h

/-- the lax spider is the strict spider unpacked -/
theorem lax_spider_eq_unpack (s t : FinFun) (w : List O) :
    (LOHG.spider s t w : Res (LOHG O A)) = (OHG.spider s t w >>= fun r => .ok (unpack r)) := by
  rw [lax_spider_eq, spider_eq]
  by_cases h1 : s.target = w.length <;> by_cases h2 : t.target = w.length
  · rw [if_pos ⟨by omega, h1⟩, if_pos ⟨h1, h2⟩]; rfl
  · rw [if_neg (fun h => h2 (by omega)), if_neg (fun h => h2 h.2)]; rfl
  · rw [if_neg (fun h => h1 h.2), if_neg (fun h => h1 h.1)]; rfl
  · rw [if_neg (fun h => h1 h.2), if_neg (fun h => h1 h.1)]; rfl

theorem lax_dagger_spider (s t : FinFun) (w : List O) :
    (LOHG.spider t s w : Res (LOHG O A)) = (LOHG.spider s t w >>= fun r => .ok r.dagger) := by
  rw [lax_spider_eq, lax_spider_eq]
  by_cases h1 : s.target = t.target <;> by_cases h2 : s.target = w.length
  · rw [if_pos ⟨h1.symm, by omega⟩, if_pos ⟨h1, h2⟩]; rfl
  · rw [if_neg (fun h => h2 (by omega)), if_neg (fun h => h2 h.2)]; rfl
  · rw [if_neg (fun h => h1 h.1.symm), if_neg (fun h => h1 h.1)]; rfl
  · rw [if_neg (fun h => h1 h.1.symm), if_neg (fun h => h1 h.1)]; rfl

/-- the lax identity is the spider on two identity legs -/
theorem lax_identity_eq_spider (a : List O) :
    (.ok (LOHG.identity a) : Res (LOHG O A)) =
      (do let i ← FinFun.identity a.length; LOHG.spider i i a) := by
  simp [FinFun.identity_eq, lax_spider_eq, LOHG.identity]

/-- `from_strict` of a discrete hypergraph -/
theorem fromStrict_discrete (w : List O) :
    LHG.fromStrict (HG.discrete w : HG O A) = .ok (LHG.discrete w) := by
  rw [lhg_fromStrict_eq _ (by simp [HG.discrete, IC.initial, FinFun.initial])
    (by simp [HG.discrete, IC.initial, FinFun.initial])]
  rfl

/-- the lax symmetry is a spider -/
theorem lax_twist_eq_spider (a b : List O) :
    (LOHG.twist a b : Res (LOHG O A)) =
      (do let s ← FinFun.twist a.length b.length
          let t ← FinFun.identity (a.length + b.length)
          LOHG.spider s t (b ++ a)) := by
  have h : a.length + b.length = (b ++ a).length := by simp; omega
  unfold LOHG.twist
  rw [twist_eq]
  simp only [Res.ok_bind, LOHG.fromStrict, fromStrict_discrete, Res.pure_eq, FinFun.twist_eq,
    FinFun.identity_eq, lax_spider_eq, and_self, h, if_true]

example : (LOHG.twist ["a", "b"] ["c"] : Res (LOHG String String)) =
      .ok ⟨[1, 2, 0], [0, 1, 2], LHG.discrete ["c", "a", "b"]⟩ ∧
    (LOHG.spider ⟨[0, 0], 2⟩ ⟨[1], 2⟩ ["a", "b"] : Res (LOHG String String)) =
      .ok ⟨[0, 0], [1], LHG.discrete ["a", "b"]⟩ ∧
    (LOHG.spider ⟨[0, 0], 2⟩ ⟨[1], 3⟩ ["a", "b"] : Res (LOHG String String)) = .none ∧
    (LOHG.spider ⟨[0, 0], 3⟩ ⟨[1], 3⟩ ["a", "b"] : Res (LOHG String String)) = .none := by decide

end OH.C04
