/-
  C04 — the lax versions of the two "up to isomorphism" clauses left open in `Props/C04.lean`
  (`lax_dagger_comp_statement`, `lax_spider_fusion_statement`): contravariance of dagger and
  spider fusion for lax diagrams, read after strictification, for EVERY lawful backend.
  Both are `≅`-chains through `OH.C10.strict_comp` / `OH.C10.strict_dagger_eq`
  (`Props/C10Iso.lean`) and the strict `dagger_comp` / `C01.compose_isGluing`.
-/
import OHVerif.Props.C10Iso
import OHVerif.Props.C04

namespace OH.C04
open OH OH.LaxStrict OH.LaxIso OH.C09

variable {O A : Type}

/-- strict((f ; g)†) ≅ strict(g† ; f†) for lax diagrams (pending pairs allowed in `f` and `g`) -/
theorem lax_dagger_comp : lax_dagger_comp_statement := by
  intro O A _ B hB f g c r hf hg hc hr
  obtain ⟨hty, rfl, hcw⟩ := compose_ok_laxComp f g c hf hg hc
  obtain ⟨cc, hrw, _⟩ := toStrict_quot_of_ok B hB _ r hcw hr
  obtain ⟨cf, cg⟩ := labelConsistent_of_laxComp f g hf hg cc
  obtain ⟨sf, ef, wf', _⟩ := toStrict_isQuot B hB f hf cf
  obtain ⟨sg, eg, wg', _⟩ := toStrict_isQuot B hB g hg cg
  -- strict(f ; g) ≅ strict f ; strict g
  obtain ⟨c1, r1, r1', hc1, hr1, hr1', iso1⟩ := C10.strict_comp B hB f g sf sg hf hg ef eg hty
  rw [hc] at hc1
  cases hc1
  rw [hr] at hr1
  cases hr1
  -- the daggers
  have hfd : f.dagger.wf = true := by rw [lax_dagger_wf]; exact hf
  have hgd : g.dagger.wf = true := by rw [lax_dagger_wf]; exact hg
  have efd := C10.strict_dagger_eq B hB f sf hf ef
  have egd := C10.strict_dagger_eq B hB g sg hg eg
  have hty' : g.dagger.target = f.dagger.source := hty.symm
  -- strict(g† ; f†) ≅ strict(g)† ; strict(f)†
  obtain ⟨c', r', r2', hc', hr', hr2', iso2⟩ :=
    C10.strict_comp B hB g.dagger f.dagger sg.dagger sf.dagger hgd hfd egd efd hty'
  obtain ⟨_, _, hcw'⟩ := compose_ok_laxComp _ _ c' hgd hfd hc'
  obtain ⟨_, hrw', _⟩ := toStrict_quot_of_ok B hB c' r' hcw' hr'
  -- (strict f ; strict g)† ≅ strict(g)† ; strict(f)†
  obtain ⟨ra, rb, hra, hrb, _, _, iso3⟩ :=
    dagger_comp B hB sf sg wf' wg' (toStrict_types B hB f g sf sg hf hg ef eg hty)
  rw [hr1'] at hra
  cases hra
  rw [hr2'] at hrb
  cases hrb
  refine ⟨c', r', hc', hr', ?_⟩
  have i1 : r.dagger.toPlain ≅ r1'.dagger.toPlain := iso_dagger iso1
  exact iso_trans (iso_trans i1 iso3) (iso_symm (C03.wfP hrw') iso2)

/-- the strictified lax composite of two lax spiders is isomorphic to the strict composite of the
    two strict spiders (which `spider_fusion` describes) -/
theorem lax_spider_fusion : lax_spider_fusion_statement := by
  intro O A _ B hB s t s' t' w w' f g lf lg hs ht hs' ht' hf hg hlf hlg hty
  have hfw := spider_wf s t w f hf hs ht
  have hgw := spider_wf s' t' w' g hg hs' ht'
  -- the lax spiders are the strict ones unpacked
  have e1 : lf = unpack f := by
    have := lax_spider_eq_unpack (A := A) s t w
    rw [hlf, hf] at this
    exact Res.ok.inj this
  have e2 : lg = unpack g := by
    have := lax_spider_eq_unpack (A := A) s' t' w'
    rw [hlg, hg] at this
    exact Res.ok.inj this
  subst e1 e2
  have hlfw := unpack_wf f hfw
  have hlgw := unpack_wf g hgw
  obtain ⟨sf, esf, wsf, isof, _⟩ := C10.toStrict_lawful_spec B hB (unpack f) hlfw rfl
  obtain ⟨sg, esg, wsg, isog, _⟩ := C10.toStrict_lawful_spec B hB (unpack g) hlgw rfl
  rw [unpack_plain f hfw] at isof
  rw [unpack_plain g hgw] at isog
  have hty' : (unpack f).target = (unpack g).source := by
    rw [(unpack_types f hfw).2, (unpack_types g hgw).1]; exact hty
  obtain ⟨c, r, r'', hc, hr, hr'', iso1⟩ :=
    C10.strict_comp B hB (unpack f) (unpack g) sf sg hlfw hlgw esf esg hty'
  obtain ⟨_, _, hcw⟩ := compose_ok_laxComp _ _ c hlfw hlgw hc
  obtain ⟨_, hrw, _⟩ := toStrict_quot_of_ok B hB c r hcw hr
  obtain ⟨r', hr'⟩ := (C01.compose_total B hB f g hfw hgw).1 hty
  refine ⟨c, r, r', hc, hr, hr', ?_⟩
  have i2 : r'.toPlain ≅ r''.toPlain :=
    C03.compose_congr_strict B B hB hB f sf g sg r' r'' hfw hgw wsf wsg isof isog hr' hr''
  exact iso_trans i2 (iso_symm (C03.wfP hrw) iso1)

/-! ### witnesses -/

/-- `lax_dagger_comp` on two lax diagrams each carrying a pending pair (`LaxIso.exL`, `C10.exM`):
    the hypotheses hold, and the two sides computed by the Vec backend -/
example : exL.wf = true ∧ C10.exM.wf = true ∧
    (LOHG.compose exL C10.exM >>= LOHG.toStrict vecBackend).isOk = true ∧
    (OHG.toPlain <$> (LOHG.compose exL C10.exM >>= LOHG.toStrict vecBackend >>=
        fun r => .ok r.dagger)) =
      .ok ⟨[10, 12, 13], [⟨7, [0, 0], [1]⟩, ⟨8, [1], [2]⟩], [2], [0, 0]⟩ ∧
    (OHG.toPlain <$> (LOHG.compose C10.exM.dagger exL.dagger >>= LOHG.toStrict vecBackend)) =
      .ok ⟨[12, 13, 10], [⟨8, [0], [1]⟩, ⟨7, [2, 2], [0]⟩], [1], [2, 2]⟩ := by decide

/-- `lax_spider_fusion` on the spiders of `spider_fusion`'s example -/
example :
    let s : FinFun := ⟨[0, 0], 3⟩
    let t : FinFun := ⟨[1, 2], 3⟩
    let s' : FinFun := ⟨[0, 0], 2⟩
    let t' : FinFun := ⟨[1, 1, 0], 2⟩
    s.WF ∧ t.WF ∧ s'.WF ∧ t'.WF ∧
    (LOHG.spider s t ["a", "b", "b"] : Res (LOHG String String)).isOk = true ∧
    (LOHG.spider s' t' ["b", "c"] : Res (LOHG String String)).isOk = true ∧
    (OHG.toPlain <$> (LOHG.spider s t ["a", "b", "b"] >>= fun lf =>
      LOHG.spider s' t' ["b", "c"] >>= fun lg =>
      LOHG.compose (A := String) lf lg >>= LOHG.toStrict vecBackend)) =
      .ok ⟨["a", "b", "c"], [], [0, 0], [2, 2, 1]⟩ := by decide

end OH.C04
