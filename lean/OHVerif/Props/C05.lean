/-
  C05 — every open hypergraph returned by a strict constructor or categorical operation, given
  well-formed arguments, is well-formed and has the promised boundary types; the checked
  constructors accept exactly the documented inputs.

  Well-formedness is read through the Prop-level structures `IC.WF`, `HG.WF`, `OHG.WF`
  (OHVerif/Lemmas/StrictWF.lean): one source list and one target list per hyperedge, segment sizes
  add up to the length of the incidence arrays, every node reference (incidences and interfaces)
  is in range.  `wf_bridge` shows that the executable deep checks `OHG.wf` etc. decide exactly
  these conditions.  `f.source` / `f.target` are the boundary types (label lists).
-/
import OHVerif.Lemmas.StrictWF
import OHVerif.Lemmas.VecBackend

namespace OH.C05
open OH

variable {O A : Type}

/-! ## the bridge between the executable check and the readable conditions -/

theorem wf_bridge (f : OHG O A) :
    (f.wf = true ↔ f.WF) ∧ (f.h.wf = true ↔ f.h.WF) ∧
    (f.h.s.wf = true ↔ f.h.s.WF) ∧ (f.h.t.wf = true ↔ f.h.t.WF) :=
  ⟨OHG.wf_iff f, HG.wf_iff f.h, IC.wf_iff _, IC.wf_iff _⟩

/-- the readable conditions, fully spelled out -/
theorem WF_spelled_out (f : OHG O A) :
    f.WF ↔
      -- one source list and one target list per hyperedge
      (f.h.s.sources.table.length = f.h.x.length ∧ f.h.t.sources.table.length = f.h.x.length) ∧
      -- segment sizes add up to the length of the incidence arrays (and the size maps declare
      -- the codomain "total + 1")
      (f.h.s.sources.table.sum = f.h.s.values.table.length ∧
       f.h.t.sources.table.sum = f.h.t.values.table.length ∧
       f.h.s.sources.target = f.h.s.sources.table.sum + 1 ∧
       f.h.t.sources.target = f.h.t.sources.table.sum + 1) ∧
      -- all four node-reference arrays declare the node count as their codomain …
      (f.h.s.values.target = f.h.w.length ∧ f.h.t.values.target = f.h.w.length ∧
       f.s.target = f.h.w.length ∧ f.t.target = f.h.w.length) ∧
      -- … and every node reference is in range
      ((∀ v ∈ f.h.s.values.table, v < f.h.w.length) ∧ (∀ v ∈ f.h.t.values.table, v < f.h.w.length) ∧
       (∀ v ∈ f.s.table, v < f.h.w.length) ∧ (∀ v ∈ f.t.table, v < f.h.w.length)) := by
  constructor
  · intro h
    exact ⟨⟨h.hyper.src_count, h.hyper.tgt_count⟩,
      ⟨h.hyper.src.sizes, h.hyper.tgt.sizes, h.hyper.src.bound, h.hyper.tgt.bound⟩,
      ⟨h.hyper.src_nodes, h.hyper.tgt_nodes, h.src_nodes, h.tgt_nodes⟩,
      ⟨h.hyper.src_lt, h.hyper.tgt_lt, h.src_lt, h.tgt_lt⟩⟩
  · rintro ⟨⟨a1, a2⟩, ⟨b1, b2, b3, b4⟩, ⟨c1, c2, c3, c4⟩, ⟨d1, d2, d3, d4⟩⟩
    exact ⟨⟨⟨b3, b1, fun v hv => by rw [c1]; exact d1 v hv⟩,
        ⟨b4, b2, fun v hv => by rw [c2]; exact d2 v hv⟩, a1, a2, c1, c2⟩,
      fun v hv => by rw [c3]; exact d3 v hv, fun v hv => by rw [c4]; exact d4 v hv, c3, c4⟩

/-- a well-formed open hypergraph denotes a well-formed plain diagram -/
theorem toPlain_wf (f : OHG O A) (h : f.WF) : f.toPlain.wf = true := h.toPlain_wf

example : (⟨⟨[0, 2], 3⟩, ⟨[1], 3⟩,
    ⟨⟨⟨[2, 0], 3⟩, ⟨[0, 1], 3⟩⟩, ⟨⟨[1, 1], 3⟩, ⟨[2, 2], 3⟩⟩, ["A", "B", "C"], ["f", "g"]⟩⟩ :
      OHG String String).WF := by decide

/-! ## checked constructors -/

/-- `Operations::new` accepts exactly when there is one source type and one target type per
    label; it returns its arguments unchanged and never panics -/
theorem operations_new_iff (x : List A) (a b : IC (List O)) :
    (Operations.new x a b = .ok ⟨x, a, b⟩ ↔ x.length = a.len ∧ x.length = b.len) ∧
    (Operations.new x a b = .none ↔ ¬ (x.length = a.len ∧ x.length = b.len)) ∧
    (∀ s, Operations.new x a b ≠ .panic s) := by
  unfold Operations.new Operations.validate
  refine ⟨?_, ?_, ?_⟩
  · by_cases h1 : x.length = a.len <;> by_cases h2 : x.length = b.len <;> simp [h1, h2]
  · by_cases h1 : x.length = a.len <;> by_cases h2 : x.length = b.len <;> simp [h1, h2]
  · intro s
    split <;> simp

example : Operations.new ["f", "g"] (⟨⟨[1, 0], 2⟩, ["A"]⟩ : IC (List String)) ⟨⟨[0, 2], 3⟩, ["B", "C"]⟩
    = .ok ⟨["f", "g"], ⟨⟨[1, 0], 2⟩, ["A"]⟩, ⟨⟨[0, 2], 3⟩, ["B", "C"]⟩⟩ :=
  (operations_new_iff _ _ _).1.2 ⟨rfl, rfl⟩

/-- `Hypergraph::validate`: accepted iff the four documented equations hold -/
theorem hg_validate_iff (h : HG O A) :
    HG.validate h = .ok h ↔
      h.s.len = h.x.length ∧ h.t.len = h.x.length ∧
      h.s.values.target = h.w.length ∧ h.t.values.target = h.w.length := by
  unfold HG.validate
  by_cases h1 : h.s.len = h.x.length <;> by_cases h2 : h.t.len = h.x.length <;>
    by_cases h3 : h.s.values.target = h.w.length <;> by_cases h4 : h.t.values.target = h.w.length <;>
    simp [h1, h2, h3, h4]

/-- `Hypergraph::new`: the result is the assembled record iff the four documented equations hold;
    otherwise the error names the FIRST failing condition -/
theorem hg_new_iff (s t : IC FinFun) (w : List O) (x : List A) :
    (∀ h, HG.new s t w x = .ok h ↔
      h = ⟨s, t, w, x⟩ ∧ s.len = x.length ∧ t.len = x.length ∧
        s.values.target = w.length ∧ t.values.target = w.length) ∧
    (∀ e, HG.new s t w x = .error e ↔
      (e = .sourcesCount ∧ s.len ≠ x.length) ∨
      (e = .targetsCount ∧ s.len = x.length ∧ t.len ≠ x.length) ∨
      (e = .sourcesSet ∧ s.len = x.length ∧ t.len = x.length ∧ s.values.target ≠ w.length) ∨
      (e = .targetsSet ∧ s.len = x.length ∧ t.len = x.length ∧ s.values.target = w.length ∧
        t.values.target ≠ w.length)) := by
  unfold HG.new HG.validate
  constructor
  · intro h
    by_cases h1 : s.len = x.length <;> by_cases h2 : t.len = x.length <;>
      by_cases h3 : s.values.target = w.length <;> by_cases h4 : t.values.target = w.length <;>
      simp [h1, h2, h3, h4, eq_comm]
  · intro e
    by_cases h1 : s.len = x.length <;> by_cases h2 : t.len = x.length <;>
      by_cases h3 : s.values.target = w.length <;> by_cases h4 : t.values.target = w.length <;>
      cases e <;> simp [h1, h2, h3, h4]

/-- for component arrays that are themselves well-formed (as produced by their own checked
    constructors), acceptance by `Hypergraph::new` is exactly deep well-formedness -/
theorem hg_new_wf_iff (s t : IC FinFun) (w : List O) (x : List A) (hs : s.WF) (ht : t.WF) :
    HG.new s t w x = .ok ⟨s, t, w, x⟩ ↔ (⟨s, t, w, x⟩ : HG O A).WF := by
  rw [(hg_new_iff s t w x).1]
  constructor
  · rintro ⟨_, h1, h2, h3, h4⟩
    exact ⟨hs, ht, h1, h2, h3, h4⟩
  · intro h
    exact ⟨rfl, h.src_count, h.tgt_count, h.src_nodes, h.tgt_nodes⟩

example : (⟨⟨[2, 0], 3⟩, ⟨[0, 1], 3⟩⟩ : IC FinFun).WF ∧ (⟨⟨[1, 1], 3⟩, ⟨[2, 2], 3⟩⟩ : IC FinFun).WF := by
  decide
example : HG.new (⟨⟨[2, 0], 3⟩, ⟨[0, 1], 3⟩⟩) ⟨⟨[1, 1], 3⟩, ⟨[2, 2], 3⟩⟩ ["A", "B", "C"] ["f", "g"] =
    .ok ⟨⟨⟨[2, 0], 3⟩, ⟨[0, 1], 3⟩⟩, ⟨⟨[1, 1], 3⟩, ⟨[2, 2], 3⟩⟩, ["A", "B", "C"], ["f", "g"]⟩ := by
  rfl
example : HG.new (⟨⟨[2], 3⟩, ⟨[0, 1], 3⟩⟩) ⟨⟨[1, 1], 3⟩, ⟨[2, 2], 3⟩⟩ ["A", "B", "C"] ["f", "g"] =
    .error .sourcesCount := rfl
example : HG.new (⟨⟨[2, 0], 3⟩, ⟨[0, 1], 3⟩⟩) ⟨⟨[1, 1], 3⟩, ⟨[2, 2], 4⟩⟩ ["A", "B", "C"] ["f", "g"] =
    .error .targetsSet := rfl

/-- the checks of `validate` are shallow: with component arrays that are NOT well-formed (public
    fields allow building them unchecked) a hypergraph with a dangling node reference is accepted -/
example : HG.new (⟨⟨[1], 2⟩, ⟨[7], 1⟩⟩) ⟨⟨[0], 1⟩, ⟨[], 1⟩⟩ ["A"] ["f"] =
      .ok ⟨⟨⟨[1], 2⟩, ⟨[7], 1⟩⟩, ⟨⟨[0], 1⟩, ⟨[], 1⟩⟩, ["A"], ["f"]⟩ ∧
    ¬ (⟨⟨⟨[1], 2⟩, ⟨[7], 1⟩⟩, ⟨⟨[0], 1⟩, ⟨[], 1⟩⟩, ["A"], ["f"]⟩ : HG String String).WF := by
  exact ⟨rfl, by decide⟩

/-- `OpenHypergraph::new`: errors of the inner hypergraph are propagated; then the two cospan
    conditions are checked in order -/
theorem ohg_new_iff (s t : FinFun) (h : HG O A) :
    (∀ r, OHG.new s t h = .ok r ↔
      r = ⟨s, t, h⟩ ∧ HG.validate h = .ok h ∧ s.target = h.w.length ∧ t.target = h.w.length) ∧
    (∀ e, OHG.new s t h = .error e ↔
      HG.validate h = .error e ∨
      (HG.validate h = .ok h ∧
        ((e = .cospanSourceType ∧ s.target ≠ h.w.length) ∨
         (e = .cospanTargetType ∧ s.target = h.w.length ∧ t.target ≠ h.w.length)))) := by
  have hval : ∀ h' : HG O A, HG.validate h = .ok h' → h' = h := by
    intro h' hv
    unfold HG.validate at hv
    split at hv
    · cases hv
    · split at hv
      · cases hv
      · split at hv
        · cases hv
        · split at hv
          · cases hv
          · injection hv with hv; exact hv.symm
  unfold OHG.new OHG.validate
  cases hv : HG.validate h with
  | error e0 =>
    simp only
    constructor
    · intro r; simp
    · intro e; simp
  | ok h' =>
    have := hval h' hv
    subst this
    simp only
    constructor
    · intro r
      by_cases h1 : s.target = h'.w.length <;> by_cases h2 : t.target = h'.w.length <;>
        simp [h1, h2, eq_comm]
    · intro e
      by_cases h1 : s.target = h'.w.length <;> by_cases h2 : t.target = h'.w.length <;>
        cases e <;> simp [h1, h2]

/-- with well-formed parts, acceptance by `OpenHypergraph::new` is exactly deep well-formedness -/
theorem ohg_new_wf_iff (s t : FinFun) (h : HG O A) (hs : s.WF) (ht : t.WF) (hs' : h.s.WF)
    (ht' : h.t.WF) :
    OHG.new s t h = .ok ⟨s, t, h⟩ ↔ (⟨s, t, h⟩ : OHG O A).WF := by
  rw [(ohg_new_iff s t h).1, hg_validate_iff]
  constructor
  · rintro ⟨_, ⟨h1, h2, h3, h4⟩, h5, h6⟩
    exact ⟨⟨hs', ht', h1, h2, h3, h4⟩, hs, ht, h5, h6⟩
  · intro hw
    exact ⟨rfl, ⟨hw.hyper.src_count, hw.hyper.tgt_count, hw.hyper.src_nodes, hw.hyper.tgt_nodes⟩,
      hw.src_nodes, hw.tgt_nodes⟩

example : OHG.new ⟨[0, 2], 3⟩ ⟨[1], 3⟩
    (⟨⟨⟨[2, 0], 3⟩, ⟨[0, 1], 3⟩⟩, ⟨⟨[1, 1], 3⟩, ⟨[2, 2], 3⟩⟩, ["A", "B", "C"], ["f", "g"]⟩ :
      HG String String) =
    .ok ⟨⟨[0, 2], 3⟩, ⟨[1], 3⟩,
      ⟨⟨⟨[2, 0], 3⟩, ⟨[0, 1], 3⟩⟩, ⟨⟨[1, 1], 3⟩, ⟨[2, 2], 3⟩⟩, ["A", "B", "C"], ["f", "g"]⟩⟩ := by
  rfl
example : OHG.new ⟨[0, 2], 3⟩ ⟨[1], 4⟩
    (⟨⟨⟨[2, 0], 3⟩, ⟨[0, 1], 3⟩⟩, ⟨⟨[1, 1], 3⟩, ⟨[2, 2], 3⟩⟩, ["A", "B", "C"], ["f", "g"]⟩ :
      HG String String) = .error .cospanTargetType := rfl
example : OHG.new ⟨[0, 2], 3⟩ ⟨[1], 4⟩
    (⟨⟨⟨[2, 0], 3⟩, ⟨[0, 1], 3⟩⟩, ⟨⟨[1], 3⟩, ⟨[2, 2], 3⟩⟩, ["A", "B", "C"], ["f", "g"]⟩ :
      HG String String) = .error .targetsCount := rfl

/-! ## boundary types -/

/-- the boundary types of a well-formed open hypergraph exist (no `none`, no panic) and are the
    node labels read along the interfaces -/
theorem source_ok (f : OHG O A) (hf : f.WF) :
    (∃ a, f.source = .ok a ∧ a.length = f.s.source ∧
      a.map some = f.s.table.map (fun i => f.h.w[i]?)) ∧
    (∃ b, f.target = .ok b ∧ b.length = f.t.source ∧
      b.map some = f.t.table.map (fun i => f.h.w[i]?)) :=
  ⟨⟨_, OHG.source_eq f hf.src_wf hf.src_nodes, FinFun.gatherP_length _ _ hf.src_lt,
      gatherP_map_some _ _ hf.src_lt⟩,
   ⟨_, OHG.target_eq f hf.tgt_wf hf.tgt_nodes, FinFun.gatherP_length _ _ hf.tgt_lt,
      gatherP_map_some _ _ hf.tgt_lt⟩⟩

example : (⟨⟨[0, 2], 3⟩, ⟨[1], 3⟩,
    ⟨⟨⟨[2, 0], 3⟩, ⟨[0, 1], 3⟩⟩, ⟨⟨[1, 1], 3⟩, ⟨[2, 2], 3⟩⟩, ["A", "B", "C"], ["f", "g"]⟩⟩ :
      OHG String String).source = .ok ["A", "C"] := by decide

/-! ## identity, symmetry, spiders -/

/-- identity on `w`: the discrete diagram on `w` with both interfaces the identity; `w → w` -/
theorem identity_wf_type (w : List O) :
    ∃ r : OHG O A, OHG.identity w = .ok r ∧ r.WF ∧ r.source = .ok w ∧ r.target = .ok w ∧
      r.toPlain = ⟨w, [], List.range w.length, List.range w.length⟩ := by
  refine ⟨_, OHG.identity_eq w, ?_, ?_, ?_, rfl⟩
  · exact ⟨HG.discrete_WF w, fun x hx => by simpa using hx, fun x hx => by simpa using hx, rfl, rfl⟩
  · rw [OHG.source_eq _ (fun x hx => by simpa using hx) rfl]
    exact congrArg Res.ok (Prim.gatherP_range w)
  · rw [OHG.target_eq _ (fun x hx => by simpa using hx) rfl]
    exact congrArg Res.ok (Prim.gatherP_range w)

example : (OHG.identity ["A", "B"] : Res (OHG String String)) =
    .ok ⟨⟨[0, 1], 2⟩, ⟨[0, 1], 2⟩, ⟨⟨⟨[], 1⟩, ⟨[], 2⟩⟩, ⟨⟨[], 1⟩, ⟨[], 2⟩⟩, ["A", "B"], []⟩⟩ := by
  rfl

/-- symmetry: the discrete diagram on `b ++ a`, source interface the block swap, target interface
    the identity; `a ● b → b ● a` -/
theorem twist_wf_type (a b : List O) :
    ∃ r : OHG O A, OHG.twist a b = .ok r ∧ r.WF ∧ r.source = .ok (a ++ b) ∧
      r.target = .ok (b ++ a) ∧
      r.toPlain = ⟨b ++ a, [], List.range' b.length a.length ++ List.range b.length,
        List.range (a.length + b.length)⟩ := by
  have hs : (⟨List.range' b.length a.length ++ List.range b.length, a.length + b.length⟩ :
      FinFun).WF := by
    intro x hx
    show x < a.length + b.length
    rcases List.mem_append.1 hx with hx | hx
    · have := List.mem_range'_1.1 hx; omega
    · have := List.mem_range.1 hx; omega
  have ht : (⟨List.range (a.length + b.length), a.length + b.length⟩ : FinFun).WF :=
    fun x hx => by simpa using hx
  have hn : a.length + b.length = (b ++ a).length := by simp [Nat.add_comm]
  refine ⟨_, OHG.twist_eq a b, ?_, ?_, ?_, rfl⟩
  · exact ⟨HG.discrete_WF _, hs, ht, hn, hn⟩
  · rw [OHG.source_eq _ hs hn]
    show Res.ok (Prim.gatherP (b ++ a) (List.range' b.length a.length ++ List.range b.length)) = _
    rw [gatherP_append_idx, gatherP_range', List.range_eq_range', gatherP_range']
    simp
  · rw [OHG.target_eq _ ht hn]
    show Res.ok (Prim.gatherP (b ++ a) (List.range (a.length + b.length))) = _
    rw [hn, Prim.gatherP_range]

example : (OHG.twist ["A", "B"] ["C"] : Res (OHG String String)) =
    .ok ⟨⟨[1, 2, 0], 3⟩, ⟨[0, 1, 2], 3⟩,
      ⟨⟨⟨[], 1⟩, ⟨[], 3⟩⟩, ⟨⟨[], 1⟩, ⟨[], 3⟩⟩, ["C", "A", "B"], []⟩⟩ := rfl

/-- `spider` is absent exactly when an interface does not have the nodes `w` as codomain; it never
    panics and otherwise returns the discrete diagram on `w` with the given interfaces -/
theorem spider_none_iff (s t : FinFun) (w : List O) :
    ((OHG.spider s t w : Res (OHG O A)) = .none ↔ (s.target ≠ w.length ∨ t.target ≠ w.length)) ∧
    (s.target = w.length → t.target = w.length →
      (OHG.spider s t w : Res (OHG O A)) = .ok ⟨s, t, HG.discrete w⟩) ∧
    (∀ m, (OHG.spider s t w : Res (OHG O A)) ≠ .panic m) := by
  rw [OHG.spider_eq]
  by_cases h1 : s.target = w.length <;> by_cases h2 : t.target = w.length <;> simp [h1, h2]

/-- a spider on well-formed interfaces is well-formed of type `s ; w → t ; w` -/
theorem spider_wf_type (s t : FinFun) (w : List O) (hs : s.WF) (ht : t.WF)
    (hsw : s.target = w.length) (htw : t.target = w.length) :
    ∃ r : OHG O A, OHG.spider s t w = .ok r ∧ r = ⟨s, t, HG.discrete w⟩ ∧ r.WF ∧
      (∃ a, r.source = .ok a ∧ a.length = s.source ∧ a.map some = s.table.map (fun i => w[i]?)) ∧
      (∃ b, r.target = .ok b ∧ b.length = t.source ∧ b.map some = t.table.map (fun i => w[i]?)) := by
  have hw : (⟨s, t, HG.discrete w⟩ : OHG O A).WF := ⟨HG.discrete_WF w, hs, ht, hsw, htw⟩
  refine ⟨_, ((spider_none_iff s t w).2.1 hsw htw), rfl, hw, ?_⟩
  exact source_ok _ hw

/-- the result of a spider is well-formed ONLY IF the interfaces are (it does not look inside) -/
theorem spider_wf_iff (s t : FinFun) (w : List O) (r : OHG O A) (h : OHG.spider s t w = .ok r) :
    r.WF ↔ s.WF ∧ t.WF := by
  rw [OHG.spider_eq] at h
  split at h
  · rename_i hc
    injection h with h
    subst h
    exact ⟨fun hw => ⟨hw.src_wf, hw.tgt_wf⟩, fun hh => ⟨HG.discrete_WF w, hh.1, hh.2, hc.1, hc.2⟩⟩
  · cases h

example : (⟨[2, 0, 2], 3⟩ : FinFun).WF ∧ (⟨[1], 3⟩ : FinFun).WF ∧
    ((OHG.spider ⟨[2, 0, 2], 3⟩ ⟨[1], 3⟩ ["A", "B", "C"] : Res (OHG String String)).bind
      fun r => r.source) = .ok ["C", "A", "C"] := by decide
example : (OHG.spider ⟨[2, 0, 2], 3⟩ ⟨[1], 2⟩ ["A", "B", "C"] : Res (OHG String String)) = .none := by
  rfl

/-- half spider: target interface the identity -/
theorem halfSpider_wf_type (s : FinFun) (w : List O) (hs : s.WF) (hsw : s.target = w.length) :
    ∃ r : OHG O A, OHG.halfSpider s w = .ok r ∧ r.WF ∧ r.target = .ok w ∧
      (∃ a, r.source = .ok a ∧ a.map some = s.table.map (fun i => w[i]?)) ∧
      r.toPlain = ⟨w, [], s.table, List.range w.length⟩ := by
  have hid : (⟨List.range s.target, s.target⟩ : FinFun).WF := fun x hx => by simpa using hx
  have hw : (⟨s, ⟨List.range s.target, s.target⟩, HG.discrete w⟩ : OHG O A).WF :=
    ⟨HG.discrete_WF w, hs, hid, hsw, hsw⟩
  refine ⟨_, by rw [OHG.halfSpider_eq, if_pos hsw], hw, ?_, ?_, ?_⟩
  · rw [OHG.target_eq _ hid hsw]
    show Res.ok (Prim.gatherP w (List.range s.target)) = _
    rw [hsw, Prim.gatherP_range]
  · obtain ⟨a, h1, _, h3⟩ := (source_ok _ hw).1
    exact ⟨a, h1, h3⟩
  · show (⟨w, [], s.table, List.range s.target⟩ : PDiag O A) = _
    rw [hsw]

example : (⟨[2, 0, 2], 3⟩ : FinFun).WF ∧
    (OHG.halfSpider ⟨[2, 0, 2], 3⟩ ["A", "B", "C"] : Res (OHG String String)) =
      .ok ⟨⟨[2, 0, 2], 3⟩, ⟨[0, 1, 2], 3⟩, HG.discrete ["A", "B", "C"]⟩ := ⟨by decide, rfl⟩

/-! ## discrete hypergraphs and coproducts of hypergraphs -/

/-- the empty and the discrete hypergraphs are well-formed and have no edges -/
theorem hg_discrete_wf (w : List O) :
    (HG.discrete w : HG O A).WF ∧ (HG.discrete w : HG O A).isDiscrete = true ∧
    (HG.discrete w : HG O A).w = w ∧ (HG.empty : HG O A).WF ∧
    (HG.empty : HG O A) = HG.discrete [] :=
  ⟨HG.discrete_WF w, rfl, rfl, HG.discrete_WF [], rfl⟩

/-- coproduct of well-formed hypergraphs: well-formed; nodes and edges concatenated, the second
    operand's node references shifted -/
theorem hg_coproduct_wf (g h : HG O A) (hg : g.WF) (hh : h.WF) :
    ∃ r, HG.coproduct g h = .ok r ∧ r.WF ∧ r.w = g.w ++ h.w ∧ r.x = g.x ++ h.x ∧
      r.s.segs = g.s.segs ++ h.s.segs.map (·.map (g.w.length + ·)) ∧
      r.t.segs = g.t.segs ++ h.t.segs.map (·.map (g.w.length + ·)) := by
  have segs : ∀ c d : IC FinFun, c.WF → d.WF →
      (IC.tensorR c d).segs = c.segs ++ d.segs.map (·.map (c.values.target + ·)) := by
    intro c d hc hd
    obtain ⟨e, he, _, hsegs, _⟩ := C08.tensor_spec c d hc.valid hd.valid
    rw [IC.tensor_eq' c d hc hd] at he
    injection he with he
    rw [he]; exact hsegs
  refine ⟨_, HG.coproduct_eq g h hg hh, HG.coproductR_WF g h hg hh, rfl, rfl, ?_, ?_⟩
  · show (IC.tensorR g.s h.s).segs = _
    rw [segs _ _ hg.src hh.src, hg.src_nodes]
  · show (IC.tensorR g.t h.t).segs = _
    rw [segs _ _ hg.tgt hh.tgt, hg.tgt_nodes]

example :
    let g : HG String String := ⟨⟨⟨[2], 3⟩, ⟨[0, 1], 3⟩⟩, ⟨⟨[1], 2⟩, ⟨[2], 3⟩⟩, ["A", "B", "C"], ["f"]⟩
    let h : HG String String := ⟨⟨⟨[1], 2⟩, ⟨[0], 2⟩⟩, ⟨⟨[1], 2⟩, ⟨[1], 2⟩⟩, ["C", "D"], ["y"]⟩
    g.WF ∧ h.WF ∧ HG.coproduct g h =
      .ok ⟨⟨⟨[2, 1], 4⟩, ⟨[0, 1, 3], 5⟩⟩, ⟨⟨[1, 1], 3⟩, ⟨[2, 4], 5⟩⟩,
        ["A", "B", "C", "C", "D"], ["f", "y"]⟩ := ⟨by decide, by decide, rfl⟩

/-! ## dagger -/

/-- dagger keeps the hypergraph, swaps the interfaces and hence the boundary types -/
theorem dagger_wf_type (f : OHG O A) (hf : f.WF) :
    f.dagger.WF ∧ f.dagger.source = f.target ∧ f.dagger.target = f.source ∧
      f.dagger.h = f.h ∧ f.dagger.s = f.t ∧ f.dagger.t = f.s ∧ f.dagger.dagger = f := by
  have hd : f.dagger.WF := ⟨hf.hyper, hf.tgt_wf, hf.src_wf, hf.tgt_nodes, hf.src_nodes⟩
  refine ⟨hd, ?_, ?_, rfl, rfl, rfl, rfl⟩
  · rw [OHG.source_eq _ hd.src_wf hd.src_nodes, OHG.target_eq _ hf.tgt_wf hf.tgt_nodes]; rfl
  · rw [OHG.target_eq _ hd.tgt_wf hd.tgt_nodes, OHG.source_eq _ hf.src_wf hf.src_nodes]; rfl

example :
    let f : OHG String String :=
      ⟨⟨[0, 1], 3⟩, ⟨[2], 3⟩, ⟨⟨⟨[2], 3⟩, ⟨[0, 1], 3⟩⟩, ⟨⟨[1], 2⟩, ⟨[2], 3⟩⟩, ["A", "B", "C"], ["f"]⟩⟩
    f.WF ∧ f.dagger.source = .ok ["C"] ∧ f.dagger.target = .ok ["A", "B"] :=
  ⟨by decide, by decide, by decide⟩

/-- without well-formedness only the panic site distinguishes the two sides -/
example : (⟨⟨[0], 5⟩, ⟨[0], 1⟩, HG.discrete ["A"]⟩ : OHG String String).dagger.target =
      .panic "target:expect" ∧
    (⟨⟨[0], 5⟩, ⟨[0], 1⟩, HG.discrete ["A"]⟩ : OHG String String).source =
      .panic "source:expect" := by decide

/-! ## operation batches and single operations -/

/-- a batch of operations: one hyperedge per operation, its source (target) list being the next
    block of fresh nodes labelled with the declared source (target) type; the boundary is
    "all sources → all targets" -/
theorem tensorOperations_wf_type (ops : Operations O A) (ha : C08.Valid ops.a)
    (hb : C08.Valid ops.b) (hla : ops.x.length = ops.a.len) (hlb : ops.x.length = ops.b.len) :
    ∃ r : OHG O A, OHG.tensorOperations ops = .ok r ∧ r.WF ∧
      r.source = .ok ops.a.values ∧ r.target = .ok ops.b.values ∧
      r.h.w = ops.a.values ++ ops.b.values ∧ r.h.x = ops.x ∧
      r.s.table = List.range ops.a.values.length ∧
      r.t.table = List.range' ops.a.values.length ops.b.values.length ∧
      r.h.s.segs = splitSegs ops.a.sources.table (List.range ops.a.values.length) ∧
      r.h.t.segs =
        splitSegs ops.b.sources.table (List.range' ops.a.values.length ops.b.values.length) ∧
      -- every edge's source / target list carries exactly the declared type
      r.h.s.segs.map (·.map (fun i => r.h.w[i]?)) = ops.a.segsL.map (·.map some) ∧
      r.h.t.segs.map (·.map (fun i => r.h.w[i]?)) = ops.b.segsL.map (·.map some) := by
  have ha' := (IC.valid_iff ops.a).1 ha
  have hb' := (IC.valid_iff ops.b).1 hb
  simp only [IC.len_list] at ha' hb'
  have hs : (⟨List.range ops.a.values.length, ops.a.values.length + ops.b.values.length⟩ :
      FinFun).WF := by
    intro x hx
    have : x < ops.a.values.length := by simpa using hx
    show x < _ + _
    omega
  have ht : (⟨List.range' ops.a.values.length ops.b.values.length,
      ops.a.values.length + ops.b.values.length⟩ : FinFun).WF := by
    intro x hx
    have := List.mem_range'_1.1 hx
    show x < _ + _
    omega
  have hn : ops.a.values.length + ops.b.values.length = (ops.a.values ++ ops.b.values).length := by
    simp
  have hsrc : Prim.gatherP (ops.a.values ++ ops.b.values) (List.range ops.a.values.length) =
      ops.a.values := by
    rw [List.range_eq_range', gatherP_range']; simp
  have htgt : Prim.gatherP (ops.a.values ++ ops.b.values)
      (List.range' ops.a.values.length ops.b.values.length) = ops.b.values := by
    rw [gatherP_range']; simp
  refine ⟨_, by unfold OHG.tensorOperations; rw [HG.tensorOperations_eq ops ha hb]; rfl,
    ?_, ?_, ?_, rfl, rfl, rfl, rfl, rfl, rfl, ?_, ?_⟩
  · refine ⟨⟨⟨ha'.1, by simpa using ha'.2, hs⟩, ⟨hb'.1, by simpa using hb'.2, ht⟩,
      hla.symm, hlb.symm, hn, hn⟩, hs, ht, hn, hn⟩
  · rw [OHG.source_eq _ hs hn]; exact congrArg Res.ok hsrc
  · rw [OHG.target_eq _ ht hn]; exact congrArg Res.ok htgt
  · show (splitSegs _ _).map _ = (splitSegs _ _).map _
    rw [← splitSegs_map, ← splitSegs_map,
      ← gatherP_map_some _ _ (fun i hi => by rw [← hn]; exact hs i hi), hsrc]
  · show (splitSegs _ _).map _ = (splitSegs _ _).map _
    rw [← splitSegs_map, ← splitSegs_map,
      ← gatherP_map_some _ _ (fun i hi => by rw [← hn]; exact ht i hi), htgt]

/-- `tensor_operations` succeeds exactly on batches whose two type arrays satisfy the
    segmented-array invariant; otherwise one of its `expect`s fires (it is never `none`) -/
theorem tensorOperations_ok_iff (ops : Operations O A) :
    ((∃ r : OHG O A, OHG.tensorOperations ops = .ok r) ↔ C08.Valid ops.a ∧ C08.Valid ops.b) ∧
    (¬ C08.Valid ops.a →
      (OHG.tensorOperations ops : Res (OHG O A)) = .panic "tensor_operations:expect-s") ∧
    (C08.Valid ops.a → ¬ C08.Valid ops.b →
      (OHG.tensorOperations ops : Res (OHG O A)) = .panic "tensor_operations:expect-t") := by
  have pa : ¬ C08.Valid ops.a →
      (OHG.tensorOperations ops : Res (OHG O A)) = .panic "tensor_operations:expect-s" := by
    intro h
    unfold OHG.tensorOperations
    rw [HG.tensorOperations_panic_a ops (by simpa [C08.Valid] using h)]; rfl
  have pb : C08.Valid ops.a → ¬ C08.Valid ops.b →
      (OHG.tensorOperations ops : Res (OHG O A)) = .panic "tensor_operations:expect-t" := by
    intro h1 h2
    unfold OHG.tensorOperations
    rw [HG.tensorOperations_panic_b ops h1 (by simpa [C08.Valid] using h2)]; rfl
  refine ⟨⟨?_, ?_⟩, pa, pb⟩
  · rintro ⟨r, hr⟩
    by_cases h1 : C08.Valid ops.a
    · by_cases h2 : C08.Valid ops.b
      · exact ⟨h1, h2⟩
      · rw [pb h1 h2] at hr; cases hr
    · rw [pa h1] at hr; cases hr
  · rintro ⟨h1, h2⟩
    have := HG.tensorOperations_eq ops h1 h2
    unfold OHG.tensorOperations
    rw [this]
    exact ⟨_, rfl⟩

example :
    let ops : Operations String String :=
      ⟨["f", "g", "h"], ⟨⟨[2, 0, 1], 4⟩, ["A", "B", "C"]⟩, ⟨⟨[0, 1, 1], 3⟩, ["D", "E"]⟩⟩
    C08.Valid ops.a ∧ C08.Valid ops.b ∧ ops.x.length = ops.a.len ∧ ops.x.length = ops.b.len ∧
    OHG.tensorOperations ops = .ok ⟨⟨[0, 1, 2], 5⟩, ⟨[3, 4], 5⟩,
      ⟨⟨⟨[2, 0, 1], 4⟩, ⟨[0, 1, 2], 5⟩⟩, ⟨⟨[0, 1, 1], 3⟩, ⟨[3, 4], 5⟩⟩,
        ["A", "B", "C", "D", "E"], ["f", "g", "h"]⟩⟩ := ⟨by decide, by decide, rfl, rfl, rfl⟩

/-- a single operation `x : a → b`: nodes `a ++ b`, one edge labelled `x` whose source list is the
    first `|a|` nodes and whose target list the next `|b|` nodes, interfaces the same lists -/
theorem singleton_wf_type (x : A) (a b : List O) :
    ∃ r : OHG O A, OHG.singleton x a b = .ok r ∧ r.WF ∧ r.source = .ok a ∧ r.target = .ok b ∧
      r.toPlain = ⟨a ++ b, [⟨x, List.range a.length, List.range' a.length b.length⟩],
        List.range a.length, List.range' a.length b.length⟩ := by
  obtain ⟨r, hr, hw, hs, ht, h1, h2, h3, h4, h5, h6, _, _⟩ :=
    tensorOperations_wf_type (Operations.singleton x a b) (IC.singleton_valid a)
      (IC.singleton_valid b) rfl rfl
  refine ⟨r, hr, hw, hs, ht, ?_⟩
  unfold OHG.toPlain HG.toPlainEdges
  rw [h1, h2, h3, h4, h5, h6]
  simp [Operations.singleton, IC.singleton, FinFun.constant]

example : (OHG.singleton "f" ["A", "B"] ["C"] : Res (OHG String String)) =
    .ok ⟨⟨[0, 1], 3⟩, ⟨[2], 3⟩,
      ⟨⟨⟨[2], 3⟩, ⟨[0, 1], 3⟩⟩, ⟨⟨[1], 2⟩, ⟨[2], 3⟩⟩, ["A", "B", "C"], ["f"]⟩⟩ := rfl

/-! ## tensor -/

/-- tensor of well-formed open hypergraphs: well-formed, nodes / edges / boundary types
    concatenated, the second operand's node references shifted past the first operand's nodes -/
theorem tensor_wf_type (f g : OHG O A) (hf : f.WF) (hg : g.WF) :
    ∃ r a a' b b', OHG.tensor f g = .ok r ∧ r.WF ∧
      f.source = .ok a ∧ g.source = .ok a' ∧ r.source = .ok (a ++ a') ∧
      f.target = .ok b ∧ g.target = .ok b' ∧ r.target = .ok (b ++ b') ∧
      r.h.w = f.h.w ++ g.h.w ∧ r.h.x = f.h.x ++ g.h.x ∧
      r.s.table = f.s.table ++ g.s.table.map (f.h.w.length + ·) ∧
      r.t.table = f.t.table ++ g.t.table.map (f.h.w.length + ·) ∧
      r.h.s.segs = f.h.s.segs ++ g.h.s.segs.map (·.map (f.h.w.length + ·)) ∧
      r.h.t.segs = f.h.t.segs ++ g.h.t.segs.map (·.map (f.h.w.length + ·)) := by
  have hw := OHG.tensorR_WF f g hf hg
  have segs : ∀ c d : IC FinFun, c.WF → d.WF →
      (IC.tensorR c d).segs = c.segs ++ d.segs.map (·.map (c.values.target + ·)) := by
    intro c d hc hd
    obtain ⟨e, he, _, hsegs, _⟩ := C08.tensor_spec c d hc.valid hd.valid
    rw [IC.tensor_eq' c d hc hd] at he
    injection he with he
    rw [he]; exact hsegs
  refine ⟨_, _, _, _, _, OHG.tensor_eq f g hf hg, hw,
    OHG.source_eq f hf.src_wf hf.src_nodes, OHG.source_eq g hg.src_wf hg.src_nodes, ?_,
    OHG.target_eq f hf.tgt_wf hf.tgt_nodes, OHG.target_eq g hg.tgt_wf hg.tgt_nodes, ?_,
    rfl, rfl, ?_, ?_, ?_, ?_⟩
  · rw [OHG.source_eq _ hw.src_wf hw.src_nodes]
    exact congrArg Res.ok (gatherP_tensor f.h.w g.h.w f.s g.s hf.src_wf hf.src_nodes)
  · rw [OHG.target_eq _ hw.tgt_wf hw.tgt_nodes]
    exact congrArg Res.ok (gatherP_tensor f.h.w g.h.w f.t g.t hf.tgt_wf hf.tgt_nodes)
  · show f.s.table ++ g.s.table.map (f.s.target + ·) = _
    rw [hf.src_nodes]
  · show f.t.table ++ g.t.table.map (f.t.target + ·) = _
    rw [hf.tgt_nodes]
  · show (IC.tensorR f.h.s g.h.s).segs = _
    rw [segs _ _ hf.hyper.src hg.hyper.src, hf.hyper.src_nodes]
  · show (IC.tensorR f.h.t g.h.t).segs = _
    rw [segs _ _ hf.hyper.tgt hg.hyper.tgt, hf.hyper.tgt_nodes]

example :
    let f : OHG String String :=
      ⟨⟨[0, 1], 3⟩, ⟨[2], 3⟩, ⟨⟨⟨[2], 3⟩, ⟨[0, 1], 3⟩⟩, ⟨⟨[1], 2⟩, ⟨[2], 3⟩⟩, ["A", "B", "C"], ["f"]⟩⟩
    let g : OHG String String := ⟨⟨[1, 0], 2⟩, ⟨[0, 1], 2⟩, HG.discrete ["D", "E"]⟩
    f.WF ∧ g.WF ∧
    OHG.tensor f g = .ok ⟨⟨[0, 1, 4, 3], 5⟩, ⟨[2, 3, 4], 5⟩,
      ⟨⟨⟨[2], 3⟩, ⟨[0, 1], 5⟩⟩, ⟨⟨[1], 2⟩, ⟨[2], 5⟩⟩, ["A", "B", "C", "D", "E"], ["f"]⟩⟩ := by
  exact ⟨by decide, by decide, rfl⟩

/-! ## quotienting the nodes -/

/-- `coequalize_vertices` along a well-formed surjection `q` on whose fibres the node labels are
    constant (EVERY backend): well-formed, `q.target` nodes, same edges and segment sizes, every
    node reference sent through `q`, and the new labels `w'` satisfy `q ; w' = w` -/
theorem coequalizeVertices_wf [DecidableEq O] (B : Backend) (h : HG O A) (q : FinFun) (hh : h.WF)
    (hq : q.WF) (hsurj : C06.Surj q) (hs : q.source = h.w.length)
    (hc : FinFun.ConstOnFibres q h.w) :
    ∃ h', HG.coequalizeVertices B h q = .ok h' ∧ h'.WF ∧ h'.w.length = q.target ∧
      h'.x = h.x ∧ h'.s.sources = h.s.sources ∧ h'.t.sources = h.t.sources ∧
      h'.s.segs = h.s.segs.map (·.map (fun i => q.table.getD i 0)) ∧
      h'.t.segs = h.t.segs.map (·.map (fun i => q.table.getD i 0)) ∧
      FinFun.composeSemi q h'.w = .ok h.w ∧ (∀ x ∈ h'.w, x ∈ h.w) := by
  obtain ⟨w', _, hl, hg, hmem, heq⟩ := HG.coequalizeVertices_eq B h q hh hq hsurj hs hc
  refine ⟨_, heq, HG.coequalized_WF h q w' hh hq hs hl, hl, rfl, rfl, rfl,
    splitSegs_map _ _ _, splitSegs_map _ _ _, ?_, hmem⟩
  show FinFun.composeSemi q w' = _
  rw [FinFun.composeSemi_ok q w' hq hl.symm, hg]

/-- labels not constant on a fibre, or a `q` with the wrong domain: the universal map does not
    exist and `coequalize_vertices` is absent (for a well-formed hypergraph) -/
theorem coequalizeVertices_none [DecidableEq O] (B : Backend) (h : HG O A) (q : FinFun) (hh : h.WF)
    (hq : q.WF) (hbad : q.source ≠ h.w.length ∨ ¬ FinFun.ConstOnFibres q h.w) :
    HG.coequalizeVertices B h q = .none := by
  unfold HG.coequalizeVertices
  by_cases hs : q.source = h.w.length
  · have hc : ¬ FinFun.ConstOnFibres q h.w := by
      rcases hbad with h1 | h1
      · exact absurd hs h1
      · exact h1
    rw [IC.mapValues_eq h.s q hh.src.range (by rw [hh.src_nodes, hs]),
      IC.mapValues_eq h.t q hh.tgt.range (by rw [hh.tgt_nodes, hs]),
      FinFun.universalArr_none B q h.w hq hs.symm hc]
    rfl
  · have : IC.mapValues h.s q = .none :=
      (IC.mapValues_none_iff h.s q).2 (by rw [hh.src_nodes]; exact fun e => hs e.symm)
    rw [this]; rfl

example :
    let h : HG String String :=
      ⟨⟨⟨[2, 0], 3⟩, ⟨[0, 1], 3⟩⟩, ⟨⟨[1, 1], 3⟩, ⟨[2, 2], 3⟩⟩, ["A", "B", "A"], ["f", "g"]⟩
    let q : FinFun := ⟨[0, 1, 0], 2⟩
    h.WF ∧ q.WF ∧ q.source = h.w.length ∧
    HG.coequalizeVertices vecBackend h q =
      .ok ⟨⟨⟨[2, 0], 3⟩, ⟨[0, 1], 2⟩⟩, ⟨⟨[1, 1], 3⟩, ⟨[0, 0], 2⟩⟩, ["A", "B"], ["f", "g"]⟩ := by
  exact ⟨by decide, by decide, rfl, rfl⟩

example : C06.Surj ⟨[0, 1, 0], 2⟩ ∧ FinFun.ConstOnFibres ⟨[0, 1, 0], 2⟩ ["A", "B", "A"] := by
  refine ⟨by unfold C06.Surj; decide, ?_⟩
  intro i j h hi hj
  revert h
  rcases i with _ | _ | _ | i <;> rcases j with _ | _ | _ | j <;> simp

/-- surjectivity cannot be dropped: the empty map into a non-empty codomain makes the `expect`
    inside `coequalizer_universal` fire (same phenomenon as in C06) -/
example : HG.coequalizeVertices vecBackend (HG.empty : HG String String) ⟨[], 5⟩ =
    .panic "coequalizer_universal:expect" := rfl

/-! ## composition -/

/-- Composition, for every lawful backend.  On well-formed operands it is defined exactly when the
    boundary types agree (otherwise `none`, never a panic); the composite is well-formed, takes
    its source type from the left and its target type from the right operand, and has the edges
    of both operands. -/
theorem compose_spec [DecidableEq O] (B : Backend) (hB : B.Lawful) (f g : OHG O A) (hf : f.WF)
    (hg : g.WF) :
    (f.target = g.source →
      ∃ r, OHG.compose B f g = .ok r ∧ r.WF ∧ r.source = f.source ∧ r.target = g.target ∧
        r.h.x = f.h.x ++ g.h.x ∧
        r.h.s.sources.table = f.h.s.sources.table ++ g.h.s.sources.table ∧
        r.h.t.sources.table = f.h.t.sources.table ++ g.h.t.sources.table ∧
        (∀ l ∈ r.h.w, l ∈ f.h.w ++ g.h.w)) ∧
    (f.target ≠ g.source → OHG.compose B f g = .none) := by
  have e1 := OHG.target_eq f hf.tgt_wf hf.tgt_nodes
  have e2 := OHG.source_eq g hg.src_wf hg.src_nodes
  constructor
  · intro hty
    rw [e1, e2] at hty
    injection hty with hty
    obtain ⟨q, w', _, hqw, hqs, hsurj, hl, hgw, hcomp⟩ := OHG.compose_ok B hB f g hf hg hty
    have hqlt : ∀ c ∈ q.table, c < w'.length := fun c hc => by rw [hl]; exact hqw c hc
    have hsW : (⟨Prim.gatherP q.table f.s.table, q.target⟩ : FinFun).WF := by
      intro c hc
      simp only [Prim.gatherP, List.mem_filterMap] at hc
      obtain ⟨i, _, hic⟩ := hc
      exact hqw c (List.mem_of_getElem? hic)
    have htW : (⟨Prim.gatherP q.table (g.t.table.map (f.h.w.length + ·)), q.target⟩ : FinFun).WF := by
      intro c hc
      simp only [Prim.gatherP, List.mem_filterMap] at hc
      obtain ⟨i, _, hic⟩ := hc
      exact hqw c (List.mem_of_getElem? hic)
    have hfgW := OHG.tensorR_WF f g hf hg
    have hhW := HG.coequalized_WF (OHG.tensorR f g).h q w' hfgW.hyper hqw
      (by rw [hqs]; simp [OHG.tensorR, HG.coproductR]) hl
    have hsi : ∀ i ∈ f.s.table, i < q.table.length := fun i hi => by
      have h1 := hf.src_lt i hi
      have h2 : q.table.length = f.h.w.length + g.h.w.length := hqs
      omega
    have hti : ∀ i ∈ g.t.table.map (f.h.w.length + ·), i < q.table.length := fun i hi => by
      obtain ⟨j, hj, rfl⟩ := List.mem_map.1 hi
      have h1 := hg.tgt_lt j hj
      have h2 : q.table.length = f.h.w.length + g.h.w.length := hqs
      omega
    refine ⟨_, hcomp, ⟨hhW, hsW, htW, hl.symm, hl.symm⟩, ?_, ?_, rfl, rfl, rfl, ?_⟩
    · rw [OHG.source_eq _ hsW hl.symm, OHG.source_eq f hf.src_wf hf.src_nodes]
      show Res.ok (Prim.gatherP w' (Prim.gatherP q.table f.s.table)) = _
      rw [gatherP_gatherP w' q.table f.s.table hqlt hsi, hgw,
        gatherP_append_left _ _ _ hf.src_lt]
    · rw [OHG.target_eq _ htW hl.symm, OHG.target_eq g hg.tgt_wf hg.tgt_nodes]
      show Res.ok (Prim.gatherP w' (Prim.gatherP q.table (g.t.table.map (f.h.w.length + ·)))) = _
      rw [gatherP_gatherP w' q.table _ hqlt hti, hgw, gatherP_append_right]
    · intro l hl'
      obtain ⟨c, hc⟩ := List.mem_iff_getElem?.1 hl'
      have hcl : c < q.target := by rw [← hl]; exact (List.getElem?_eq_some_iff.1 hc).1
      obtain ⟨i, hi⟩ := List.mem_iff_getElem?.1 (hsurj c hcl)
      have h1 : (Prim.gatherP w' q.table)[i]? = some l := by
        rw [FinFun.gatherP_getElem? _ _ hqlt, hi]; exact hc
      rw [hgw] at h1
      exact List.mem_of_getElem? h1
  · intro hty
    apply OHG.compose_none B f g hf hg
    intro h
    apply hty
    rw [e1, e2, h]

/-- the requested reading: whenever a composite of well-formed operands is returned it is
    well-formed, with source from the left and target from the right -/
theorem compose_wf_type [DecidableEq O] (B : Backend) (hB : B.Lawful) (f g r : OHG O A) (hf : f.WF)
    (hg : g.WF) (h : OHG.compose B f g = .ok r) :
    r.WF ∧ r.source = f.source ∧ r.target = g.target := by
  obtain ⟨h1, h2⟩ := compose_spec B hB f g hf hg
  by_cases hty : f.target = g.source
  · obtain ⟨r', hr', hw, hs, ht, _⟩ := h1 hty
    rw [h] at hr'
    injection hr' with hr'
    subst hr'
    exact ⟨hw, hs, ht⟩
  · rw [h2 hty] at h; cases h

/-- composition of well-formed operands never panics and is defined iff the types agree -/
theorem compose_defined_iff [DecidableEq O] (B : Backend) (hB : B.Lawful) (f g : OHG O A)
    (hf : f.WF) (hg : g.WF) :
    ((∃ r, OHG.compose B f g = .ok r) ↔ f.target = g.source) ∧
    (OHG.compose B f g = .none ↔ f.target ≠ g.source) ∧
    (∀ m, OHG.compose B f g ≠ .panic m) := by
  obtain ⟨h1, h2⟩ := compose_spec B hB f g hf hg
  by_cases hty : f.target = g.source
  · obtain ⟨r, hr, _⟩ := h1 hty
    rw [hr]; simp [hty]
  · rw [h2 hty]; simp [hty]

/-- hypotheses satisfiable: `f = (x : A B → C)`, `g = (y : C → D)` -/
example :
    let f : OHG String String :=
      ⟨⟨[0, 1], 3⟩, ⟨[2], 3⟩, ⟨⟨⟨[2], 3⟩, ⟨[0, 1], 3⟩⟩, ⟨⟨[1], 2⟩, ⟨[2], 3⟩⟩, ["A", "B", "C"], ["x"]⟩⟩
    let g : OHG String String :=
      ⟨⟨[0], 2⟩, ⟨[1], 2⟩, ⟨⟨⟨[1], 2⟩, ⟨[0], 2⟩⟩, ⟨⟨[1], 2⟩, ⟨[1], 2⟩⟩, ["C", "D"], ["y"]⟩⟩
    f.WF ∧ g.WF ∧ f.target = g.source ∧ vecBackend.Lawful ∧
    OHG.compose vecBackend f g = .ok ⟨⟨[0, 1], 4⟩, ⟨[3], 4⟩,
      ⟨⟨⟨[2, 1], 4⟩, ⟨[0, 1, 2], 4⟩⟩, ⟨⟨[1, 1], 3⟩, ⟨[2, 3], 4⟩⟩,
        ["A", "B", "C", "D"], ["x", "y"]⟩⟩ :=
  ⟨by decide, by decide, by decide, vecBackend_lawful, rfl⟩

/-- type mismatch: absent -/
example : OHG.compose vecBackend
    (⟨⟨[0], 1⟩, ⟨[0], 1⟩, HG.discrete ["A"]⟩ : OHG String String)
    ⟨⟨[0], 1⟩, ⟨[0], 1⟩, HG.discrete ["B"]⟩ = .none := rfl

end OH.C05
