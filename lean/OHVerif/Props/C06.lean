/-
  C06 — finite functions form a category with coproducts and coequalizers.
  Property theorems only (helpers live in OHVerif/Lemmas).
  `apply f i` is written `f.table[i]?`; `FinFun.WF f` is `∀ x ∈ f.table, x < f.target`.
-/
import OHVerif.Lemmas.FinFun
import OHVerif.Lemmas.VecBackend
import OHVerif.Spec.Lawful

namespace OH.C06
open OH OH.FinFun

/-- composition is defined (an answer other than `none`) exactly when codomain and domain agree -/
theorem compose_none_iff (f g : FinFun) : compose f g = .none ↔ f.target ≠ g.source := by
  unfold compose
  by_cases h : f.target = g.source
  · simp only [h, if_true]
    constructor
    · intro hc
      unfold Prim.gather at hc
      split at hc <;> simp [bind, Res.bind] at hc
    · intro hc; exact absurd rfl hc
  · simp [h]

example : compose ⟨[0, 1], 2⟩ ⟨[5, 6], 7⟩ = .ok ⟨[5, 6], 7⟩ := by decide
example : compose ⟨[0, 1], 3⟩ ⟨[5, 6], 7⟩ = .none := by decide

/-- `inject0` leaves the table alone and widens the codomain on the right -/
theorem inject0_spec (f : FinFun) (b : Nat) :
    (inject0 f b).table = f.table ∧ (inject0 f b).target = b + f.target := ⟨rfl, rfl⟩

/-- `inject1` shifts every entry by `a` and widens the codomain on the left -/
theorem inject1_spec (f : FinFun) (a : Nat) :
    (inject1 f a).table = f.table.map (a + ·) ∧ (inject1 f a).target = a + f.target := ⟨rfl, rfl⟩

/-- coproduct is defined iff the codomains agree, and is then concatenation of tables -/
theorem coproduct_spec (f g : FinFun) :
    (f.target = g.target → coproduct f g = .ok ⟨f.table ++ g.table, f.target⟩) ∧
    (f.target ≠ g.target → coproduct f g = .none) := by
  unfold coproduct; constructor <;> intro h <;> simp [h]

/-- tensor: `f` followed by `g` shifted by `f`'s codomain -/
theorem tensor_spec (f g : FinFun) :
    (tensor f g).table = f.table ++ g.table.map (f.target + ·) ∧
    (tensor f g).target = f.target + g.target := ⟨rfl, rfl⟩

/-- the checked constructor accepts exactly the tables whose entries are below the codomain -/
theorem new_accepts_iff (t : List Nat) (k : Nat) :
    (FinFun.new t k = .ok ⟨t, k⟩ ↔ ∀ x ∈ t, x < k) ∧ (FinFun.new t k = .none ↔ ¬ ∀ x ∈ t, x < k) := by
  have key : ∀ (xs : List Nat) (x : Nat), (∀ y ∈ xs, y < k) ∧ x < k ↔ xs.foldl Nat.max x < k := by
    intro xs
    induction xs with
    | nil => intro x; simp
    | cons y ys ih =>
      intro x
      simp only [List.foldl_cons, List.mem_cons, forall_eq_or_imp]
      rw [← ih (Nat.max x y)]
      constructor
      · rintro ⟨⟨h1, h2⟩, h3⟩; exact ⟨h2, Nat.max_lt.mpr ⟨h3, h1⟩⟩
      · rintro ⟨h2, h3⟩; have := Nat.max_lt.mp h3; exact ⟨⟨this.2, h2⟩, this.1⟩
  unfold FinFun.new Prim.max
  cases t with
  | nil => simp
  | cons x xs =>
    simp only [List.mem_cons, forall_eq_or_imp]
    have := key xs x
    by_cases h : xs.foldl Nat.max x < k
    · have h' : ¬ (xs.foldl Nat.max x ≥ k) := by omega
      simp only [h', if_false]
      have hh := this.mpr h
      have h1 := hh.1
      have h2 := hh.2
      simp only [h2, true_and]
      constructor
      · exact ⟨fun _ => h1, fun _ => trivial⟩
      · constructor
        · intro hc; cases hc
        · intro hc; exact absurd h1 hc
    · have h' : xs.foldl Nat.max x ≥ k := by omega
      simp only [h', if_true]
      have hn : ¬ ((∀ y ∈ xs, y < k) ∧ x < k) := fun hc => h (this.mp hc)
      constructor
      · constructor
        · intro hc; cases hc
        · intro hc; exact absurd ⟨hc.2, hc.1⟩ hn
      · constructor
        · intro _ hc; exact hn ⟨hc.2, hc.1⟩
        · intro _; trivial

example : FinFun.new [0, 2, 1] 3 = .ok ⟨[0, 2, 1], 3⟩ := by decide
example : FinFun.new [0, 3, 1] 3 = .none := by decide

/-! ## composition -/

/-- composition of well-formed maps with matching (co)domain is pointwise application -/
theorem compose_spec (f g : FinFun) (hf : f.WF) (hg : g.WF) (h : f.target = g.source) :
    ∃ r, compose f g = .ok r ∧ r.target = g.target ∧ r.table.length = f.table.length ∧
      (∀ i : Nat, r.table[i]? = f.table[i]?.bind (fun x => g.table[x]?)) ∧
      (∀ i : Nat, i < f.source →
        ∃ x y, f.table[i]? = some x ∧ g.table[x]? = some y ∧ r.table[i]? = some y) ∧
      r.WF := by
  have hr : ∀ i ∈ f.table, i < g.table.length := fun i hi => by
    have := hf i hi; rw [h] at this; exact this
  have hpt : ∀ i : Nat, (Prim.gatherP g.table f.table)[i]? = f.table[i]?.bind (fun x => g.table[x]?) :=
    gatherP_getElem? _ _ hr
  refine ⟨⟨Prim.gatherP g.table f.table, g.target⟩, compose_ok f g hf h, rfl,
    gatherP_length _ _ hr, hpt, ?_, ?_⟩
  · intro i hi
    have hx : f.table[i]? = some f.table[i] := List.getElem?_eq_getElem hi
    have hxl : f.table[i] < g.table.length := hr _ (List.getElem_mem hi)
    refine ⟨f.table[i], g.table[f.table[i]], hx, List.getElem?_eq_getElem hxl, ?_⟩
    show (Prim.gatherP g.table f.table)[i]? = _
    rw [hpt, hx]
    exact List.getElem?_eq_getElem hxl
  · intro y hy
    obtain ⟨i, hi⟩ := List.mem_iff_getElem?.mp hy
    change (Prim.gatherP g.table f.table)[i]? = some y at hi
    rw [hpt] at hi
    cases hfi : f.table[i]? with
    | none => rw [hfi] at hi; simp at hi
    | some x =>
      rw [hfi] at hi
      exact hg.getElem?_lt hi

/-- on a well-formed first argument composition never panics -/
theorem compose_total (f g : FinFun) (hf : f.WF) :
    compose f g = .none ∨ ∃ r, compose f g = .ok r := by
  by_cases h : f.target = g.source
  · exact Or.inr ⟨_, compose_ok f g hf h⟩
  · exact Or.inl (compose_none f g h)

theorem compose_no_panic (f g : FinFun) (hf : f.WF) (s : String) : compose f g ≠ .panic s :=
  compose_ne_panic f g hf s

example : (⟨[2, 0, 1, 1], 3⟩ : FinFun).WF ∧ (⟨[5, 6, 4], 7⟩ : FinFun).WF ∧
    compose ⟨[2, 0, 1, 1], 3⟩ ⟨[5, 6, 4], 7⟩ = .ok ⟨[4, 5, 6, 6], 7⟩ := by decide

/-! ## identities, initial, terminal and constant maps -/

theorem identity_spec (a : Nat) :
    identity a = .ok ⟨List.range a, a⟩ ∧ (∀ i : Nat, i < a → (List.range a)[i]? = some i) ∧
      (⟨List.range a, a⟩ : FinFun).source = a ∧ (⟨List.range a, a⟩ : FinFun).WF := by
  refine ⟨identity_eq a, ?_, by simp [source], ?_⟩
  · intro i hi; simp [hi]
  · intro x hx; simpa using hx

example : identity 3 = .ok ⟨[0, 1, 2], 3⟩ := by decide

/-- identities are neutral for composition -/
theorem identity_compose (f : FinFun) (hf : f.WF) :
    (identity f.source >>= fun i => compose i f) = .ok f ∧
    (identity f.target >>= fun i => compose f i) = .ok f := by
  constructor
  · rw [identity_eq, Res.ok_bind]
    obtain ⟨r, hr, ht, hl, hp, _, _⟩ := compose_spec ⟨List.range f.source, f.source⟩ f
      (fun x hx => by simpa using hx) hf rfl
    rw [hr]
    congr 1
    cases r with
    | mk tb tg =>
      simp only at ht hl hp
      subst ht
      congr 1
      apply List.ext_getElem?
      intro i
      rw [hp]
      by_cases hi : i < f.source
      · simp [hi]
      · have : f.table.length ≤ i := Nat.le_of_not_lt hi
        simp [hi, List.getElem?_eq_none this]
  · rw [identity_eq, Res.ok_bind]
    rw [compose_ok_map f ⟨List.range f.target, f.target⟩ (fun x => x) (by simp [source])]
    · simp
    · intro i hi
      have := hf i hi
      simp [this]

theorem initial_spec (a : Nat) :
    initial a = ⟨[], a⟩ ∧ (initial a).source = 0 ∧ (initial a).target = a ∧ (initial a).WF := by
  refine ⟨rfl, rfl, rfl, ?_⟩
  intro x hx; simp [initial] at hx

theorem toInitial_spec (f : FinFun) : toInitial f = ⟨[], f.target⟩ := rfl

theorem terminal_spec (a : Nat) :
    (terminal a).target = 1 ∧ (terminal a).source = a ∧
      (∀ i : Nat, i < a → (terminal a).table[i]? = some 0) ∧ (terminal a).WF := by
  refine ⟨rfl, by simp [terminal, source], ?_, ?_⟩
  · intro i hi; simp [terminal, hi]
  · intro x hx
    simp only [terminal, List.mem_replicate] at hx
    simp [terminal, hx.2]

theorem constant_spec (a x b : Nat) :
    (constant a x b).target = x + b + 1 ∧ (constant a x b).source = a ∧
      (constant a x b).table = List.replicate a x ∧
      (∀ i : Nat, i < a → (constant a x b).table[i]? = some x) ∧ (constant a x b).WF := by
  refine ⟨rfl, by simp [constant, source], rfl, ?_, ?_⟩
  · intro i hi; simp [constant, hi]
  · intro y hy
    simp only [constant, List.mem_replicate] at hy
    simp only [constant, hy.2]
    omega

example : constant 3 2 4 = ⟨[2, 2, 2], 7⟩ ∧ terminal 2 = ⟨[0, 0], 1⟩ := by decide

/-! ## coproduct injections and their direct forms -/

theorem inj0_spec (a b : Nat) :
    inj0 a b = .ok ⟨List.range a, a + b⟩ ∧ (∀ i : Nat, i < a → (List.range a)[i]? = some i) ∧
      (⟨List.range a, a + b⟩ : FinFun).source = a ∧ (⟨List.range a, a + b⟩ : FinFun).WF := by
  refine ⟨inj0_eq a b, ?_, by simp [source], ?_⟩
  · intro i hi; simp [hi]
  · intro x hx
    have : x < a := by simpa using hx
    show x < a + b
    omega

theorem inj1_spec (a b : Nat) :
    inj1 a b = .ok ⟨List.range' a b, a + b⟩ ∧
      (∀ i : Nat, i < b → (List.range' a b)[i]? = some (a + i)) ∧
      (⟨List.range' a b, a + b⟩ : FinFun).source = b ∧ (⟨List.range' a b, a + b⟩ : FinFun).WF := by
  refine ⟨inj1_eq a b, ?_, by simp [source], ?_⟩
  · intro i hi; simp [hi]
  · intro x hx
    have := List.mem_range'_1.mp hx
    show x < a + b
    omega

example : inj0 2 3 = .ok ⟨[0, 1], 5⟩ ∧ inj1 2 3 = .ok ⟨[2, 3, 4], 5⟩ := by decide

/-- `inject0 f b` is `f` followed by the left injection (the direct form agrees with the composite) -/
theorem inject0_eq (f : FinFun) (b : Nat) (hf : f.WF) :
    (inj0 f.target b >>= fun j => compose f j) = .ok (inject0 f b) := by
  rw [inj0_eq, Res.ok_bind,
    compose_ok_map f ⟨List.range f.target, f.target + b⟩ (fun x => x) (by simp [source])]
  · simp [inject0, Nat.add_comm]
  · intro i hi
    have := hf i hi
    simp [this]

/-- `inject1 f a` is `f` followed by the right injection -/
theorem inject1_eq (f : FinFun) (a : Nat) (hf : f.WF) :
    (inj1 a f.target >>= fun j => compose f j) = .ok (inject1 f a) := by
  rw [inj1_eq, Res.ok_bind,
    compose_ok_map f ⟨List.range' a f.target, a + f.target⟩ (fun x => a + x) (by simp [source])]
  · rfl
  · intro i hi
    have := hf i hi
    simp [this]

theorem inject0_wf (f : FinFun) (b : Nat) (hf : f.WF) : (inject0 f b).WF := by
  intro x hx
  have := hf x hx
  show x < b + f.target
  omega

theorem inject1_wf (f : FinFun) (a : Nat) (hf : f.WF) : (inject1 f a).WF := by
  intro x hx
  simp only [inject1, List.mem_map] at hx
  obtain ⟨y, hy, rfl⟩ := hx
  have := hf y hy
  show a + y < a + f.target
  omega

example : (⟨[1, 0, 1], 2⟩ : FinFun).WF ∧
    (inj0 2 3 >>= fun j => compose ⟨[1, 0, 1], 2⟩ j) = .ok (inject0 ⟨[1, 0, 1], 2⟩ 3) ∧
    (inj1 3 2 >>= fun j => compose ⟨[1, 0, 1], 2⟩ j) = .ok (inject1 ⟨[1, 0, 1], 2⟩ 3) ∧
    inject1 ⟨[1, 0, 1], 2⟩ 3 = ⟨[4, 3, 4], 5⟩ := by decide

/-- coproduct and tensor of well-formed maps are well-formed -/
theorem coproduct_wf (f g : FinFun) (hf : f.WF) (hg : g.WF) (h : f.target = g.target) :
    (⟨f.table ++ g.table, f.target⟩ : FinFun).WF := by
  intro x hx
  rcases List.mem_append.mp hx with hx | hx
  · exact hf x hx
  · show x < f.target
    rw [h]; exact hg x hx

theorem tensor_wf (f g : FinFun) (hf : f.WF) (hg : g.WF) : (tensor f g).WF := by
  intro x hx
  simp only [tensor, List.mem_append, List.mem_map] at hx
  show x < f.target + g.target
  rcases hx with hx | ⟨y, hy, rfl⟩
  · have := hf x hx; omega
  · have := hg y hy; omega

/-- the coproduct restricted along the injections gives back the components -/
theorem coproduct_inj (f g : FinFun) (hf : f.WF) (hg : g.WF) (h : f.target = g.target) :
    (inj0 f.source g.source >>= fun j => compose j ⟨f.table ++ g.table, f.target⟩) = .ok f ∧
    (inj1 f.source g.source >>= fun j => compose j ⟨f.table ++ g.table, f.target⟩) = .ok g := by
  constructor
  · rw [inj0_eq, Res.ok_bind]
    obtain ⟨r, hr, ht, hl, hp, _, _⟩ := compose_spec ⟨List.range f.source, f.source + g.source⟩
      ⟨f.table ++ g.table, f.target⟩
      (fun x hx => by have : x < f.source := by simpa using hx
                      show x < f.source + g.source
                      omega)
      (coproduct_wf f g hf hg h) (by simp [source])
    rw [hr]
    congr 1
    cases r with
    | mk tb tg =>
      simp only at ht hl hp
      subst ht
      congr 1
      apply List.ext_getElem?
      intro i
      rw [hp]
      by_cases hi : i < f.source
      · have hi' : i < f.table.length := hi
        simp [hi, List.getElem?_append_left hi']
      · have : f.table.length ≤ i := Nat.le_of_not_lt hi
        simp [hi, List.getElem?_eq_none this]
  · rw [inj1_eq, Res.ok_bind]
    obtain ⟨r, hr, ht, hl, hp, _, _⟩ := compose_spec
      ⟨List.range' f.source g.source, f.source + g.source⟩ ⟨f.table ++ g.table, f.target⟩
      (fun x hx => by have := List.mem_range'_1.mp hx
                      show x < f.source + g.source
                      omega)
      (coproduct_wf f g hf hg h) (by simp [source])
    rw [hr]
    congr 1
    cases r with
    | mk tb tg =>
      simp only at ht hl hp
      subst ht
      rw [h]
      congr 1
      apply List.ext_getElem?
      intro i
      rw [hp]
      by_cases hi : i < g.source
      · have hi' : i < g.table.length := hi
        have e : (List.range' f.table.length g.table.length)[i]? = some (f.table.length + i) := by
          simp [hi']
        have hle : f.table.length ≤ f.table.length + i := Nat.le_add_right _ _
        simp only [source]
        rw [e]
        simp [List.getElem?_append_right hle]
      · have : g.table.length ≤ i := Nat.le_of_not_lt hi
        simp [hi, List.getElem?_eq_none this]

example : coproduct ⟨[1, 0], 2⟩ ⟨[1, 1, 0], 2⟩ = .ok ⟨[1, 0, 1, 1, 0], 2⟩ ∧
    tensor ⟨[1, 0], 2⟩ ⟨[2, 0], 3⟩ = ⟨[1, 0, 4, 2], 5⟩ := by decide

/-! ## symmetry -/

/-- `twist a b : a + b → b + a` moves the first block behind the second; it is a bijection -/
theorem twist_spec (a b : Nat) :
    ∃ t, twist a b = .ok t ∧ t.target = a + b ∧ t.table.length = a + b ∧
      (∀ i : Nat, i < a → t.table[i]? = some (i + b)) ∧
      (∀ i : Nat, a ≤ i → i < a + b → t.table[i]? = some (i - a)) ∧
      t.WF ∧ t.table.Perm (List.range (a + b)) := by
  refine ⟨⟨List.range' b a ++ List.range b, a + b⟩, twist_eq a b, rfl, by simp, ?_, ?_, ?_, ?_⟩
  · intro i hi
    have hl : i < (List.range' b a).length := by simpa using hi
    show (List.range' b a ++ List.range b)[i]? = _
    rw [List.getElem?_append_left hl]
    simp [hi, Nat.add_comm]
  · intro i h1 h2
    have hl : (List.range' b a).length ≤ i := by simpa using h1
    show (List.range' b a ++ List.range b)[i]? = _
    rw [List.getElem?_append_right hl]
    have : i - a < b := by omega
    simp [this]
  · intro x hx
    show x < a + b
    rcases List.mem_append.mp hx with hx | hx
    · have := List.mem_range'_1.mp hx; omega
    · have := List.mem_range.mp hx; omega
  · show (List.range' b a ++ List.range b).Perm (List.range (a + b))
    have h1 : (List.range' b a ++ List.range b).Perm (List.range b ++ List.range' b a) :=
      List.perm_append_comm
    have h2 : List.range b ++ List.range' b a = List.range (a + b) := by
      rw [List.range_eq_range', List.range_eq_range']
      have := List.range'_append_1 (s := 0) (m := b) (n := a)
      rw [Nat.zero_add] at this
      rw [this, Nat.add_comm]
    rw [h2] at h1
    exact h1

example : twist 2 3 = .ok ⟨[3, 4, 0, 1, 2], 5⟩ := by decide

/-- the symmetry is self-inverse: `twist a b ; twist b a = id` -/
theorem twist_twist (a b : Nat) :
    ∃ t t', twist a b = .ok t ∧ twist b a = .ok t' ∧ compose t t' = identity (a + b) := by
  obtain ⟨t, ht, htt, htl, ht1, ht2, htw, _⟩ := twist_spec a b
  obtain ⟨t', ht', htt', htl', ht1', ht2', htw', _⟩ := twist_spec b a
  refine ⟨t, t', ht, ht', ?_⟩
  obtain ⟨r, hr, hrt, hrl, hrp, _, _⟩ := compose_spec t t' htw htw'
    (by rw [htt, source, htl', Nat.add_comm])
  rw [hr, identity_eq]
  congr 1
  cases r with
  | mk tb tg =>
    simp only at hrt hrl hrp
    rw [hrt, htt', Nat.add_comm b a]
    congr 1
    apply eq_range_of_getElem? _ _ (by rw [hrl, htl])
    intro i hi
    rw [hrp]
    by_cases hia : i < a
    · rw [ht1 i hia]
      simp only [Option.bind_some]
      rw [ht2' (i + b) (by omega) (by omega)]
      congr 1; omega
    · rw [ht2 i (by omega) hi]
      simp only [Option.bind_some]
      rw [ht1' (i - a) (by omega)]
      congr 1; omega

example : (twist 2 3 >>= fun t => twist 3 2 >>= fun t' => compose t t') = identity 5 := by decide

/-! ## transposition -/

/-- `transpose a b` reads a `b × a` row-major index as column-major: `i ↦ (i % a) * b + i / a`;
    for `a = 0` it is the empty map with codomain `0` (which the same formula describes) -/
theorem transpose_spec (a b : Nat) :
    ∃ t, transpose a b = .ok t ∧ t.target = b * a ∧ t.table.length = b * a ∧
      (∀ i : Nat, i < b * a → t.table[i]? = some ((i % a) * b + i / a)) ∧ t.WF := by
  by_cases ha : a = 0
  · subst ha
    refine ⟨⟨[], 0⟩, transpose_zero b, by simp, by simp, ?_, ?_⟩
    · intro i hi; simp at hi
    · intro x hx; simp at hx
  · refine ⟨_, transpose_eq a b ha, rfl, by simp, ?_, ?_⟩
    · intro i hi; simp [hi]
    · intro x hx
      simp only [List.mem_map, List.mem_range] at hx
      obtain ⟨i, hi, rfl⟩ := hx
      show i % a * b + i / a < b * a
      have hpos : 0 < a := Nat.pos_of_ne_zero ha
      have h1 : i % a < a := Nat.mod_lt _ hpos
      have h2 : i / a < b := by
        rw [Nat.div_lt_iff_lt_mul hpos]; exact hi
      have h3 : (i % a + 1) * b ≤ a * b := Nat.mul_le_mul_right b h1
      rw [Nat.add_mul, Nat.one_mul] at h3
      rw [Nat.mul_comm b a]
      omega

theorem transpose_zero_spec (b : Nat) : transpose 0 b = .ok ⟨[], 0⟩ := transpose_zero b

example : transpose 2 3 = .ok ⟨[0, 3, 1, 4, 2, 5], 6⟩ := by decide

/-- transposition is inverted by the transposition with the factors exchanged -/
theorem transpose_inverse (a b : Nat) :
    ∃ t t', transpose a b = .ok t ∧ transpose b a = .ok t' ∧ compose t t' = identity (a * b) := by
  obtain ⟨t, ht, htt, htl, htp, htw⟩ := transpose_spec a b
  obtain ⟨t', ht', htt', htl', htp', htw'⟩ := transpose_spec b a
  refine ⟨t, t', ht, ht', ?_⟩
  obtain ⟨r, hr, hrt, hrl, hrp, _, _⟩ := compose_spec t t' htw htw'
    (by rw [htt, source, htl', Nat.mul_comm])
  rw [hr, identity_eq]
  congr 1
  cases r with
  | mk tb tg =>
    simp only at hrt hrl hrp
    rw [hrt, htt']
    congr 1
    apply eq_range_of_getElem? _ _ (by rw [hrl, htl, Nat.mul_comm])
    intro i hi
    have hi' : i < b * a := by rw [Nat.mul_comm]; exact hi
    have hapos : 0 < a := by
      rcases Nat.eq_zero_or_pos a with h | h
      · subst h; simp at hi
      · exact h
    have hbpos : 0 < b := by
      rcases Nat.eq_zero_or_pos b with h | h
      · subst h; simp at hi
      · exact h
    have h1 : i % a < a := Nat.mod_lt _ hapos
    have h2 : i / a < b := by rw [Nat.div_lt_iff_lt_mul hapos]; exact hi'
    have hj : i % a * b + i / a < a * b := by
      have h3 : (i % a + 1) * b ≤ a * b := Nat.mul_le_mul_right b h1
      rw [Nat.add_mul, Nat.one_mul] at h3
      omega
    rw [hrp, htp i hi']
    simp only [Option.bind_some]
    rw [htp' _ hj]
    congr 1
    have e1 : (i % a * b + i / a) % b = i / a := by
      rw [Nat.mul_comm, Nat.mul_add_mod, Nat.mod_eq_of_lt h2]
    have e2 : (i % a * b + i / a) / b = i % a := by
      rw [Nat.mul_comm, Nat.mul_add_div hbpos, Nat.div_eq_of_lt h2, Nat.add_zero]
    rw [e1, e2]
    exact Nat.div_add_mod' i a

example : (transpose 2 3 >>= fun t => transpose 3 2 >>= fun t' => compose t t') = identity 6 := by
  decide

/-! ## cumulative sum -/

/-- the cumulative sum has the prefix sums as entries and the total as codomain size.
    NOTE: the entries are `≤` the codomain size, not `<`: see `cumulativeSum_wf_iff`. -/
theorem cumulativeSum_spec (f : FinFun) :
    ∃ r, f.cumulativeSum = .ok r ∧ r.target = f.table.sum ∧ r.table.length = f.source ∧
      (∀ i : Nat, i < f.source → r.table[i]? = some (f.table.take i).sum) ∧
      (∀ x ∈ r.table, x ≤ r.target) := by
  refine ⟨_, cumulativeSum_ok f, rfl, by simp, ?_, ?_⟩
  · intro i hi; simp [hi]
  · intro x hx
    simp only [List.mem_map] at hx
    obtain ⟨k, _, rfl⟩ := hx
    exact sum_take_le f.table k

/-- the result of `cumulative_sum` is a well-formed finite function only when every proper
    suffix of the table has a positive sum (i.e. the table is empty or its last entry is not 0) -/
theorem cumulativeSum_wf_iff (f : FinFun) :
    (∃ r, f.cumulativeSum = .ok r ∧ r.WF) ↔ ∀ i : Nat, i < f.source → 0 < (f.table.drop i).sum := by
  have hsplit : ∀ i, (f.table.take i).sum + (f.table.drop i).sum = f.table.sum := by
    intro i
    have := congrArg List.sum (List.take_append_drop i f.table)
    rw [List.sum_append] at this
    exact this
  rw [cumulativeSum_ok]
  constructor
  · rintro ⟨r, hr, hw⟩ i hi
    simp only [Res.ok.injEq] at hr
    subst hr
    have := hw ((f.table.take i).sum) (List.mem_map.mpr ⟨i, List.mem_range.mpr hi, rfl⟩)
    have h2 := hsplit i
    simp only at this
    omega
  · intro h
    refine ⟨_, rfl, ?_⟩
    intro x hx
    simp only [List.mem_map, List.mem_range] at hx
    obtain ⟨i, hi, rfl⟩ := hx
    have := h i hi
    have h2 := hsplit i
    show (f.table.take i).sum < f.table.sum
    omega

example : (⟨[3, 0, 1, 4], 5⟩ : FinFun).cumulativeSum = .ok ⟨[0, 3, 3, 4], 8⟩ := by decide
/-- counterexample to well-formedness of the result: trailing zero sizes -/
example : (⟨[1, 0], 2⟩ : FinFun).cumulativeSum = .ok ⟨[0, 1], 1⟩ ∧
    ¬ (⟨[0, 1], 1⟩ : FinFun).WF := by decide

/-! ## block-wise injections -/

/-- `s.injections a`: block `j` of the domain `Σ_j s(a j)` is mapped identically onto block `a j`
    of `Σ s`, which starts at the prefix sum `p (a j) = s 0 + … + s (a j - 1)` -/
theorem injections_spec (s a : FinFun) (ha : a.WF) (h : a.target = s.source) :
    ∃ r, injections s a = .ok r ∧ r.target = s.table.sum ∧
      r.table = a.table.flatMap
        (fun x => List.range' (s.table.take x).sum (s.table.getD x 0)) ∧
      r.table.length = (a.table.map (fun x => s.table.getD x 0)).sum ∧ r.WF := by
  refine ⟨_, injections_ok s a ha h, rfl, rfl, by simp [List.length_flatMap], ?_⟩
  intro y hy
  simp only [List.mem_flatMap] at hy
  obtain ⟨x, hx, hyx⟩ := hy
  have hxl : x < s.table.length := by have := ha x hx; rw [h] at this; exact this
  have h1 := List.mem_range'_1.mp hyx
  have h2 := sum_take_succ s.table x hxl
  have h3 := sum_take_le s.table (x + 1)
  have h4 : s.table.getD x 0 = s.table[x] := by simp [List.getD, List.getElem?_eq_getElem hxl]
  show y < s.table.sum
  omega

/-- absence (not a panic) when the selector does not index the sizes -/
theorem injections_none_of_ne (s a : FinFun) (h : a.target ≠ s.source) : injections s a = .none :=
  injections_none s a h

example : (⟨[2, 0, 2], 3⟩ : FinFun).WF ∧
    injections ⟨[2, 0, 3], 4⟩ ⟨[2, 0, 2], 3⟩ = .ok ⟨[2, 3, 4, 0, 1, 2, 3, 4], 5⟩ := by decide
example : injections ⟨[2, 0, 3], 4⟩ ⟨[2, 0, 2], 4⟩ = .none := by decide

/-! ## injectivity test -/

theorem isInjective_spec (f : FinFun) (hf : f.WF) :
    ∃ b, isInjective f = .ok b ∧ (b = true ↔ f.table.Nodup) ∧
      (b = true ↔ ∀ i j : Nat, i < f.source → j < f.source → f.table[i]? = f.table[j]? → i = j) := by
  refine ⟨decide f.table.Nodup, isInjective_ok f hf, by simp, ?_⟩
  rw [decide_eq_true_iff]
  exact nodup_iff_inj f.table

example : isInjective ⟨[2, 0, 3], 4⟩ = .ok true ∧ isInjective ⟨[2, 0, 2], 4⟩ = .ok false := by
  decide

/-! ## pre-composition with a label array -/

theorem composeSemi_spec {α : Type} (f : FinFun) (labels : List α) :
    (f.WF → f.target = labels.length →
      ∃ r, composeSemi f labels = .ok r ∧ r.length = f.source ∧
        r.map some = f.table.map (fun x => labels[x]?) ∧
        (∀ i : Nat, r[i]? = f.table[i]?.bind (fun x => labels[x]?))) ∧
    (composeSemi f labels = .none ↔ f.target ≠ labels.length) := by
  constructor
  · intro hf h
    have hr : ∀ i ∈ f.table, i < labels.length := fun i hi => by
      have := hf i hi; rw [h] at this; exact this
    refine ⟨_, composeSemi_ok f labels hf h, gatherP_length _ _ hr, ?_, gatherP_getElem? _ _ hr⟩
    apply List.ext_getElem?
    intro i
    rw [List.getElem?_map, gatherP_getElem? _ _ hr, List.getElem?_map]
    cases hfi : f.table[i]? with
    | none => rfl
    | some x =>
      have hx : x < labels.length := hr x (List.mem_of_getElem? hfi)
      simp [List.getElem?_eq_getElem hx]
  · unfold composeSemi
    by_cases h : f.target = labels.length
    · simp [h, gather_ne_none]
    · simp [h]

example : composeSemi ⟨[2, 0, 2, 1], 3⟩ ["a", "b", "c"] = .ok ["c", "a", "c", "b"] := by decide
example : composeSemi ⟨[2, 0, 2, 1], 4⟩ ["a", "b", "c"] = .none := by decide

/-! ## coequalizer -/

/-- the relation generated by the pairs `f(k) ~ g(k)` -/
def Glue (f g : FinFun) (a b : Nat) : Prop := ∃ k : Nat, f.table[k]? = some a ∧ g.table[k]? = some b

theorem connected_eq_glue (f g : FinFun) :
    Connected f.table g.table = Relation.EqvGen (Glue f g) := by
  have : EdgeRel f.table g.table = Glue f g := by
    funext a b
    exact propext (mem_zip_iff_getElem? f.table g.table a b)
  unfold Connected
  rw [this]

/-- the coequalizer of two parallel well-formed maps, for every lawful backend: a surjection
    `q : B → Q` whose kernel is exactly the equivalence generated by `f(k) ~ g(k)` -/
theorem coequalizer_spec (B : Backend) (hB : B.Lawful) (f g : FinFun) (hf : f.WF) (hg : g.WF)
    (hs : f.source = g.source) (ht : f.target = g.target) :
    ∃ q, coequalizer B f g = .ok q ∧ q.source = f.target ∧ q.WF ∧
      (∀ c : Nat, c < q.target → ∃ i : Nat, i < f.target ∧ q.table[i]? = some c) ∧
      (∀ i j : Nat, i < f.target → j < f.target →
        (q.table[i]? = q.table[j]? ↔
          Relation.EqvGen (fun a b => ∃ k : Nat, f.table[k]? = some a ∧ g.table[k]? = some b) i j)) ∧
      (∀ k a b : Nat, f.table[k]? = some a → g.table[k]? = some b → q.table[a]? = q.table[b]?) := by
  have hg' : ∀ x ∈ g.table, x < f.target := fun x hx => by rw [ht]; exact hg x hx
  have hlen : f.table.length = g.table.length := hs
  have hcc : Prim.connectedComponents B f.table g.table f.target =
      .ok (B.cc f.table g.table f.target) := by
    unfold Prim.connectedComponents
    rw [if_neg (by simpa using hlen), if_neg, if_neg]
    · simp only [List.all_eq_true, decide_eq_true_eq]
      exact fun hn => hn ⟨hf, hg'⟩
    · rintro ⟨h0, hne⟩
      apply hne
      cases hft : f.table with
      | nil => rfl
      | cons x xs =>
        have := hf x (by rw [hft]; simp)
        omega
  have hlenq := hB.cc_length f.table g.table f.target hlen hf hg'
  have hker := hB.cc_kernel f.table g.table f.target hlen hf hg'
  refine ⟨⟨(B.cc f.table g.table f.target).1, (B.cc f.table g.table f.target).2⟩, ?_, hlenq,
    hB.cc_lt f.table g.table f.target hlen hf hg', ?_, ?_, ?_⟩
  · unfold coequalizer
    rw [if_neg (by simp [hs, ht]), hcc]
    rfl
  · intro c hc
    have := hB.cc_onto f.table g.table f.target hlen hf hg' c hc
    obtain ⟨i, hi⟩ := List.mem_iff_getElem?.mp this
    refine ⟨i, ?_, hi⟩
    rw [← hlenq]
    exact (List.getElem?_eq_some_iff.mp hi).1
  · intro i j hi hj
    have := hker i j hi hj
    rw [connected_eq_glue] at this
    exact this
  · intro k a b hka hkb
    have ha : a < f.target := hf.getElem?_lt hka
    have hb : b < f.target := by rw [ht]; exact hg.getElem?_lt hkb
    have := hker a b ha hb
    rw [connected_eq_glue] at this
    exact this.mpr (Relation.EqvGen.rel _ _ ⟨k, hka, hkb⟩)

/-- absence is reported exactly for non-parallel arguments -/
theorem coequalizer_none_iff (B : Backend) (f g : FinFun) :
    coequalizer B f g = .none ↔ (f.source ≠ g.source ∨ f.target ≠ g.target) := by
  unfold coequalizer
  by_cases h : f.source ≠ g.source ∨ f.target ≠ g.target
  · simp [h]
  · rw [if_neg h]
    simp only [h, iff_false]
    unfold Prim.connectedComponents
    split
    · simp
    · split
      · simp
      · split <;> simp

/-- on well-formed parallel arguments the coequalizer never panics (any lawful backend) -/
theorem coequalizer_no_panic (B : Backend) (hB : B.Lawful) (f g : FinFun) (hf : f.WF) (hg : g.WF)
    (s : String) : coequalizer B f g ≠ .panic s := by
  by_cases h : f.source ≠ g.source ∨ f.target ≠ g.target
  · rw [(coequalizer_none_iff B f g).mpr h]; simp
  · have hs : f.source = g.source := by
      by_cases h' : f.source = g.source
      · exact h'
      · exact absurd (Or.inl h') h
    have ht : f.target = g.target := by
      by_cases h' : f.target = g.target
      · exact h'
      · exact absurd (Or.inr h') h
    obtain ⟨q, hq, _⟩ := coequalizer_spec B hB f g hf hg hs ht
    rw [hq]; simp

/-- hypotheses are satisfiable (Vec backend, `0 ~ 1 ~ 2` glued, `3` alone) -/
example : ∃ q, coequalizer vecBackend ⟨[0, 1], 4⟩ ⟨[1, 2], 4⟩ = .ok q ∧ q.source = 4 ∧ q.WF :=
  let ⟨q, h1, h2, h3, _⟩ := coequalizer_spec vecBackend vecBackend_lawful ⟨[0, 1], 4⟩ ⟨[1, 2], 4⟩
    (by decide) (by decide) rfl rfl
  ⟨q, h1, h2, h3⟩
example : coequalizer vecBackend ⟨[0, 1], 4⟩ ⟨[1, 2], 4⟩ = .ok ⟨[0, 0, 0, 1], 2⟩ := by decide
example : coequalizer vecBackend ⟨[0, 1], 4⟩ ⟨[1, 2], 5⟩ = .none := by decide
example : coequalizer vecBackend ⟨[0, 1], 4⟩ ⟨[1], 4⟩ = .none := by decide

/-! ## the universal map through a surjection -/

/-- `q` hits every element of its codomain -/
def Surj (q : FinFun) : Prop := ∀ c : Nat, c < q.target → c ∈ q.table

theorem Surj.nil_target {q : FinFun} (h : Surj q) : q.table = [] → q.target = 0 := by
  intro hq
  rcases Nat.eq_zero_or_pos q.target with h0 | h0
  · exact h0
  · have := h 0 h0
    rw [hq] at this
    simp at this

/-- The universal map through a surjection `q`, on label arrays, for EVERY backend (lawfulness
    is not even needed: on a surjection no filler survives).
    (a) `u` constant on the fibres of `q`: the map `v` is returned, `|v| = q.target`, `q ; v = u`;
    (b) otherwise: `none` (not a panic);  (c) wrong length: `none`. -/
theorem universal_spec {α : Type} [DecidableEq α] (B : Backend) (q : FinFun) (hq : q.WF)
    (hsurj : Surj q) (u : List α) :
    (u.length = q.source → ConstOnFibres q u →
      ∃ v, coequalizerUniversalArr B q u = .ok v ∧ v.length = q.target ∧
        (∀ i : Nat, i < q.source → (q.table[i]?.bind fun c => v[c]?) = u[i]?) ∧
        composeSemi q v = .ok u ∧
        (∀ x ∈ v, x ∈ u)) ∧
    (u.length = q.source → ¬ ConstOnFibres q u → coequalizerUniversalArr B q u = .none) ∧
    (u.length ≠ q.source → coequalizerUniversalArr B q u = .none) := by
  refine ⟨?_, ?_, ?_⟩
  · intro hlen hc
    obtain ⟨v, hv, hvl, hvp, hvg⟩ := universalArr_ok B q u hq hlen hsurj.nil_target hc
    refine ⟨v, hv, hvl, ?_, ?_, ?_⟩
    · intro i hi
      rw [List.getElem?_eq_getElem hi]
      exact hvp i _ (List.getElem?_eq_getElem hi)
    · rw [composeSemi_ok q v hq hvl.symm, hvg]
    · intro x hx
      obtain ⟨c, hcx⟩ := List.mem_iff_getElem?.mp hx
      have hcl : c < q.target := by rw [← hvl]; exact (List.getElem?_eq_some_iff.mp hcx).1
      obtain ⟨i, hi⟩ := List.mem_iff_getElem?.mp (hsurj c hcl)
      have := hvp i c hi
      rw [hcx] at this
      exact List.mem_of_getElem? this.symm
  · intro hlen hc
    exact universalArr_none B q u hq hlen hc
  · intro hlen
    exact universalArr_len_none B q u hlen

/-- existence of the universal map ⇔ constancy on fibres; never a panic -/
theorem universal_iff {α : Type} [DecidableEq α] (B : Backend) (q : FinFun) (hq : q.WF)
    (hsurj : Surj q) (u : List α) (hlen : u.length = q.source) :
    (coequalizerUniversalArr B q u ≠ .none ↔ ConstOnFibres q u) ∧
    ((∃ v, coequalizerUniversalArr B q u = .ok v) ↔ ConstOnFibres q u) ∧
    (∀ s, coequalizerUniversalArr B q u ≠ .panic s) := by
  obtain ⟨ha, hb, _⟩ := universal_spec B q hq hsurj u
  by_cases hc : ConstOnFibres q u
  · obtain ⟨v, hv, _⟩ := ha hlen hc
    rw [hv]
    simp [hc]
  · rw [hb hlen hc]
    simp [hc]

example : (⟨[0, 1, 0, 1], 2⟩ : FinFun).WF ∧ Surj ⟨[0, 1, 0, 1], 2⟩ ∧
    ConstOnFibres ⟨[0, 1, 0, 1], 2⟩ ["x", "y", "x", "y"] ∧
    ¬ ConstOnFibres ⟨[0, 1, 0, 1], 2⟩ ["x", "y", "z", "y"] := by
  refine ⟨by decide, by unfold Surj; decide, ?_, ?_⟩
  · intro i j h hi hj
    have hi' : i < 4 := hi
    have hj' : j < 4 := hj
    revert h
    rcases i with _ | _ | _ | _ | i <;> rcases j with _ | _ | _ | _ | j <;> simp
  · intro h
    have := h 0 2 rfl (by decide) (by decide)
    simp at this
example : coequalizerUniversalArr vecBackend ⟨[0, 1, 0, 1], 2⟩ ["x", "y", "x", "y"] =
    .ok ["x", "y"] := by decide
example : coequalizerUniversalArr vecBackend ⟨[0, 1, 0, 1], 2⟩ ["x", "y", "z", "y"] = .none := by
  decide
example : coequalizerUniversalArr vecBackend ⟨[0, 1, 0, 1], 2⟩ ["x", "y", "x"] = .none := by
  decide

/-- the same for finite functions: the universal map `v : Q → C` with `q ; v = f` exists, is
    returned and is well-formed iff `f` is constant on the fibres of `q`; otherwise `none` -/
theorem universalFinFun_spec (B : Backend) (q : FinFun) (hq : q.WF) (hsurj : Surj q) (f : FinFun) :
    (f.source = q.source → ConstOnFibres q f.table →
      ∃ v, coequalizerUniversal B q f = .ok v ∧ v.source = q.target ∧ v.target = f.target ∧
        (∀ i : Nat, i < q.source → (q.table[i]?.bind fun c => v.table[c]?) = f.table[i]?) ∧
        compose q v = .ok f ∧ (f.WF → v.WF)) ∧
    (f.source = q.source → ¬ ConstOnFibres q f.table → coequalizerUniversal B q f = .none) ∧
    (f.source ≠ q.source → coequalizerUniversal B q f = .none) := by
  obtain ⟨ha, hb, hc⟩ := universal_spec B q hq hsurj f.table
  refine ⟨?_, ?_, ?_⟩
  · intro hlen hconst
    obtain ⟨v, hv, hvl, hvp, hvc, hvm⟩ := ha hlen hconst
    refine ⟨⟨v, f.target⟩, ?_, hvl, rfl, hvp, ?_, ?_⟩
    · simp [coequalizerUniversal, hv]
    · have hg : Prim.gatherP v q.table = f.table := by
        have := hvc
        rw [composeSemi_ok q v hq hvl.symm] at this
        injection this
      rw [compose_ok q ⟨v, f.target⟩ hq hvl.symm]
      simp [hg]
    · intro hf x hx
      exact hf x (hvm x hx)
  · intro hlen hconst
    simp [coequalizerUniversal, hb hlen hconst]
  · intro hlen
    simp [coequalizerUniversal, hc hlen]

theorem universalFinFun_iff (B : Backend) (q : FinFun) (hq : q.WF) (hsurj : Surj q) (f : FinFun)
    (hlen : f.source = q.source) :
    (coequalizerUniversal B q f ≠ .none ↔ ConstOnFibres q f.table) ∧
    (∀ s, coequalizerUniversal B q f ≠ .panic s) := by
  obtain ⟨ha, hb, _⟩ := universalFinFun_spec B q hq hsurj f
  by_cases hc : ConstOnFibres q f.table
  · obtain ⟨v, hv, _⟩ := ha hlen hc
    rw [hv]
    simp [hc]
  · rw [hb hlen hc]
    simp [hc]

example : coequalizerUniversal vecBackend ⟨[0, 1, 0, 1], 2⟩ ⟨[5, 3, 5, 3], 7⟩ = .ok ⟨[5, 3], 7⟩ := by
  decide
example : coequalizerUniversal vecBackend ⟨[0, 1, 0, 1], 2⟩ ⟨[5, 3, 4, 3], 7⟩ = .none := by decide

/-- the coequalizer composed with its universal maps: any `h` with `f ; h = g ; h` factors through
    the coequalizer `q` of `f, g` (all lawful backends) -/
theorem coequalizer_universal (B : Backend) (hB : B.Lawful) (f g h : FinFun) (hf : f.WF) (hg : g.WF)
    (hs : f.source = g.source) (ht : f.target = g.target) (hh : h.source = f.target)
    (heq : ∀ k a b : Nat, f.table[k]? = some a → g.table[k]? = some b → h.table[a]? = h.table[b]?) :
    ∃ q v, coequalizer B f g = .ok q ∧ coequalizerUniversal B q h = .ok v ∧ compose q v = .ok h := by
  obtain ⟨q, hq, hqs, hqw, hqo, hqk, _⟩ := coequalizer_spec B hB f g hf hg hs ht
  have hsurj : Surj q := by
    intro c hc
    obtain ⟨i, _, hi⟩ := hqo c hc
    exact List.mem_of_getElem? hi
  have key : ∀ i j : Nat, Relation.EqvGen
      (fun a b => ∃ k : Nat, f.table[k]? = some a ∧ g.table[k]? = some b) i j →
      h.table[i]? = h.table[j]? := by
    intro i j e
    induction e with
    | rel a b hab => obtain ⟨k, hka, hkb⟩ := hab; exact heq k a b hka hkb
    | refl a => rfl
    | symm a b _ ih => exact ih.symm
    | trans a b c _ _ ih1 ih2 => exact ih1.trans ih2
  have hconst : ConstOnFibres q h.table := by
    intro i j hij hi hj
    rw [hqs] at hi hj
    exact key i j ((hqk i j hi hj).mp hij)
  obtain ⟨ha, _, _⟩ := universalFinFun_spec B q hqw hsurj h
  obtain ⟨v, hv, _, _, _, hcomp, _⟩ := ha (by rw [hh, hqs]) hconst
  exact ⟨q, v, hq, hv, hcomp⟩

example : ∃ q v, coequalizer vecBackend ⟨[0, 1], 4⟩ ⟨[1, 2], 4⟩ = .ok q ∧
    coequalizerUniversal vecBackend q ⟨[7, 7, 7, 2], 9⟩ = .ok v ∧
    compose q v = .ok ⟨[7, 7, 7, 2], 9⟩ :=
  ⟨⟨[0, 0, 0, 1], 2⟩, ⟨[7, 2], 9⟩, by decide, by decide, by decide⟩

/-- the surjectivity hypothesis of `universal_spec` cannot be dropped: for the empty map into a
    non-empty codomain the model (like the Rust `expect`) panics instead of returning a map -/
example : coequalizerUniversalArr vecBackend ⟨[], 5⟩ ([] : List Nat) =
    .panic "coequalizer_universal:expect" := by decide

end OH.C06
