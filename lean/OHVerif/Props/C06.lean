/-
  C06 — finite functions form a category with coproducts and coequalizers.
  Property theorems only (helpers live in OHVerif/Lemmas).
-/
import OHVerif.Model.FinFun

namespace OH.C06
open OH OH.FinFun

/-- composition is defined (an answer other than `none`) exactly when codomain and domain agree -/
theorem compose_none_iff (f g : FinFun) : compose f g = .none ↔ f.target ≠ g.source := by
  unfold compose
  by_cases h : f.target = g.source
  · simp only [h, if_true]
    constructor
    · intro hc
      unfold Prim.gather at hc
      split at hc <;> simp [bind, Res.bind] at hc
    · intro hc; exact absurd rfl hc
  · simp [h]

example : compose ⟨[0, 1], 2⟩ ⟨[5, 6], 7⟩ = .ok ⟨[5, 6], 7⟩ := by decide
example : compose ⟨[0, 1], 3⟩ ⟨[5, 6], 7⟩ = .none := by decide

/-- `inject0` leaves the table alone and widens the codomain on the right -/
theorem inject0_spec (f : FinFun) (b : Nat) :
    (inject0 f b).table = f.table ∧ (inject0 f b).target = b + f.target := ⟨rfl, rfl⟩

/-- `inject1` shifts every entry by `a` and widens the codomain on the left -/
theorem inject1_spec (f : FinFun) (a : Nat) :
    (inject1 f a).table = f.table.map (a + ·) ∧ (inject1 f a).target = a + f.target := ⟨rfl, rfl⟩

/-- coproduct is defined iff the codomains agree, and is then concatenation of tables -/
theorem coproduct_spec (f g : FinFun) :
    (f.target = g.target → coproduct f g = .ok ⟨f.table ++ g.table, f.target⟩) ∧
    (f.target ≠ g.target → coproduct f g = .none) := by
  unfold coproduct; constructor <;> intro h <;> simp [h]

/-- tensor: `f` followed by `g` shifted by `f`'s codomain -/
theorem tensor_spec (f g : FinFun) :
    (tensor f g).table = f.table ++ g.table.map (f.target + ·) ∧
    (tensor f g).target = f.target + g.target := ⟨rfl, rfl⟩

/-- the checked constructor accepts exactly the tables whose entries are below the codomain -/
theorem new_accepts_iff (t : List Nat) (k : Nat) :
    (FinFun.new t k = .ok ⟨t, k⟩ ↔ ∀ x ∈ t, x < k) ∧ (FinFun.new t k = .none ↔ ¬ ∀ x ∈ t, x < k) := by
  have key : ∀ (xs : List Nat) (x : Nat), (∀ y ∈ xs, y < k) ∧ x < k ↔ xs.foldl Nat.max x < k := by
    intro xs
    induction xs with
    | nil => intro x; simp
    | cons y ys ih =>
      intro x
      simp only [List.foldl_cons, List.mem_cons, forall_eq_or_imp]
      rw [← ih (Nat.max x y)]
      constructor
      · rintro ⟨⟨h1, h2⟩, h3⟩; exact ⟨h2, Nat.max_lt.mpr ⟨h3, h1⟩⟩
      · rintro ⟨h2, h3⟩; have := Nat.max_lt.mp h3; exact ⟨⟨this.2, h2⟩, this.1⟩
  unfold FinFun.new Prim.max
  cases t with
  | nil => simp
  | cons x xs =>
    simp only [List.mem_cons, forall_eq_or_imp]
    have := key xs x
    by_cases h : xs.foldl Nat.max x < k
    · have h' : ¬ (xs.foldl Nat.max x ≥ k) := by omega
      simp only [h', if_false]
      have hh := this.mpr h
      have h1 := hh.1
      have h2 := hh.2
      simp only [h2, true_and]
      constructor
      · exact ⟨fun _ => h1, fun _ => trivial⟩
      · constructor
        · intro hc; cases hc
        · intro hc; exact absurd h1 hc
    · have h' : xs.foldl Nat.max x ≥ k := by omega
      simp only [h', if_true]
      have hn : ¬ ((∀ y ∈ xs, y < k) ∧ x < k) := fun hc => h (this.mp hc)
      constructor
      · constructor
        · intro hc; cases hc
        · intro hc; exact absurd ⟨hc.2, hc.1⟩ hn
      · constructor
        · intro _ hc; exact hn ⟨hc.2, hc.1⟩
        · intro _; trivial

example : FinFun.new [0, 2, 1] 3 = .ok ⟨[0, 2, 1], 3⟩ := by decide
example : FinFun.new [0, 3, 1] 3 = .none := by decide

end OH.C06
