/-
  C07 — scalar (element-wise) meaning of every array primitive of `OHVerif.Model.Prim`
  inside its documented precondition, and the panic outside of it.
  Only headline theorems (each a short call into `OHVerif.Lemmas.Prim`) and witnesses
  showing that the hypotheses are satisfiable by a non-trivial input.
-/
import OHVerif.Lemmas.Prim

namespace OH.C07

open OH.Prim

variable {α : Type}

/-! ### gather / get / ranges -/

theorem gather_spec (xs : List α) (idx : List Nat) (h : ∀ i ∈ idx, i < xs.length) :
    ∃ r, gather xs idx = .ok r ∧ r.length = idx.length ∧
      (∀ k (hk : k < idx.length), r[k]? = xs[idx[k]]?) ∧
      r.map some = idx.map (fun i => xs[i]?) :=
  ⟨_, gather_ok xs idx h, gatherP_length xs idx h, gatherP_getElem? xs idx h,
    gatherP_eq_map xs idx h⟩

example : (∀ i ∈ [2, 0, 2, 1], i < [10, 20, 30].length) ∧
    gather [10, 20, 30] [2, 0, 2, 1] = .ok [30, 10, 30, 20] := ⟨by decide, rfl⟩

theorem gather_panics (xs : List α) (idx : List Nat) (h : ∃ i ∈ idx, xs.length ≤ i) :
    gather xs idx = .panic "gather:index" :=
  gather_panic xs idx h

example : (∃ i ∈ [1, 3, 0], [10, 20, 30].length ≤ i) ∧
    gather [10, 20, 30] [1, 3, 0] = .panic "gather:index" := ⟨by decide, rfl⟩

theorem get_spec (xs : List α) (i : Nat) :
    (∀ h : i < xs.length, get xs i = .ok xs[i]) ∧
    (xs.length ≤ i → get xs i = .panic "get:index") :=
  ⟨get_ok xs i, get_panic xs i⟩

example : get [10, 20, 30] 1 = .ok 20 ∧ get [10, 20, 30] 3 = .panic "get:index" := ⟨rfl, rfl⟩

theorem slice_spec (xs : List α) (a b : Nat) :
    (a ≤ b ∧ b ≤ xs.length →
      slice xs a b = .ok ((xs.drop a).take (b - a)) ∧
      ((xs.drop a).take (b - a)).length = b - a ∧
      ∀ k, k < b - a → ((xs.drop a).take (b - a))[k]? = xs[a + k]?) ∧
    (¬ (a ≤ b ∧ b ≤ xs.length) → slice xs a b = .panic "slice:range") ∧
    (∀ r, slice xs a b = .ok r ↔ (a ≤ b ∧ b ≤ xs.length) ∧ r = (xs.drop a).take (b - a)) :=
  ⟨fun h => ⟨slice_ok xs a b h, slice_length xs a b h, fun k hk => slice_getElem? xs a b k hk⟩,
    slice_panic xs a b, slice_ok_iff xs a b⟩

example : (1 ≤ 3 ∧ 3 ≤ [10, 20, 30, 40].length) ∧ slice [10, 20, 30, 40] 1 3 = .ok [20, 30] ∧
    slice [10, 20, 30, 40] 3 1 = .panic "slice:range" ∧
    slice [10, 20, 30, 40] 2 5 = .panic "slice:range" := ⟨by decide, rfl, rfl, rfl⟩

theorem toRange_spec (len a b : Nat) :
    toRange len .full = (0, len) ∧
    toRange len (.from a) = (a, len) ∧
    toRange len (.to b) = (0, b) ∧
    toRange len (.fromTo a b) = (a, b) ∧
    toRange len (.toIncl b) = (0, b + 1) ∧
    toRange len (.fromToIncl a b) = (a, b + 1) :=
  ⟨rfl, rfl, rfl, rfl, rfl, rfl⟩

theorem getRange_spec (xs : List α) (r : RangeForm) (a b : Nat)
    (hab : toRange xs.length r = (a, b)) :
    (a ≤ b ∧ b ≤ xs.length →
      getRange xs r = .ok ((xs.drop a).take (b - a)) ∧
      ((xs.drop a).take (b - a)).length = b - a ∧
      ∀ k, k < b - a → ((xs.drop a).take (b - a))[k]? = xs[a + k]?) ∧
    (¬ (a ≤ b ∧ b ≤ xs.length) → getRange xs r = .panic "slice:range") :=
  getRange_spec_of xs r a b hab

example : toRange [10, 20, 30, 40].length (.fromToIncl 1 2) = (1, 3) ∧
    getRange [10, 20, 30, 40] (.fromToIncl 1 2) = .ok [20, 30] ∧
    getRange [10, 20, 30, 40] (.toIncl 4) = .panic "slice:range" := ⟨rfl, rfl, rfl⟩

theorem setRange_spec (xs : List α) (r : RangeForm) (v : List α) (a b : Nat)
    (hab : toRange xs.length r = (a, b)) :
    (a ≤ b ∧ b ≤ xs.length → v.length = b - a →
      setRange xs r v = .ok (xs.take a ++ v ++ xs.drop b) ∧
      (xs.take a ++ v ++ xs.drop b).length = xs.length ∧
      ∀ k, (xs.take a ++ v ++ xs.drop b)[k]? = if a ≤ k ∧ k < b then v[k - a]? else xs[k]?) ∧
    (¬ (a ≤ b ∧ b ≤ xs.length) → setRange xs r v = .panic "set_range:range") ∧
    (a ≤ b ∧ b ≤ xs.length → v.length ≠ b - a → setRange xs r v = .panic "set_range:len") :=
  setRange_spec_of xs r v a b hab

example : toRange [10, 20, 30, 40].length (.fromTo 1 3) = (1, 3) ∧
    setRange [10, 20, 30, 40] (.fromTo 1 3) [7, 8] = .ok [10, 7, 8, 40] ∧
    setRange [10, 20, 30, 40] (.fromTo 1 3) [7] = .panic "set_range:len" ∧
    setRange [10, 20, 30, 40] (.fromTo 3 5) [7, 8] = .panic "set_range:range" :=
  ⟨rfl, rfl, rfl, rfl⟩

/-! ### scatter family -/

theorem writeAll_length (y : List α) (ps : List (Nat × α)) :
    (writeAll y ps).length = y.length :=
  Prim.writeAll_length y ps

/-- Position `k` holds the value of the LAST pair of `ps` whose index is `k`, else `y[k]`. -/
theorem writeAll_getElem? (y : List α) (ps : List (Nat × α)) (k : Nat) :
    ((writeAll y ps)[k]? =
      if k < y.length then ((ps.findRev? (fun p => p.1 == k)).map (·.2)).or y[k]? else none) ∧
    (k < y.length → ∀ j (hj : j < ps.length), ps[j].1 = k →
      (∀ j' (h' : j' < ps.length), j < j' → ps[j'].1 ≠ k) →
      (writeAll y ps)[k]? = some ps[j].2) ∧
    ((∀ p ∈ ps, p.1 ≠ k) → (writeAll y ps)[k]? = y[k]?) :=
  ⟨Prim.writeAll_getElem? y ps k,
    fun hk j hj hjk hlast => writeAll_getElem?_of_last y ps k hk j hj hjk hlast,
    writeAll_getElem?_of_not_mem y ps k⟩

example : writeAll [0, 0, 0, 0] [(1, 5), (3, 6), (1, 7), (9, 8)] = [0, 7, 0, 6] := rfl

theorem scatter_spec (B : Backend) (hB : ∀ n, 0 < n → B.fillerIdx n < n)
    (xs : List α) (idx : List Nat) (n : Nat) :
    -- empty source: `ok []` iff `idx` is empty, otherwise the assert fails
    (xs = [] →
      (idx = [] → scatter B xs idx n = .ok []) ∧
      (idx ≠ [] → scatter B xs idx n = .panic "scatter:assert-empty") ∧
      (∀ r, scatter B xs idx n = .ok r ↔ idx = [] ∧ r = [])) ∧
    -- non-empty source inside the precondition
    (xs ≠ [] → ∀ hlen : xs.length ≤ idx.length, (∀ i ∈ idx.take xs.length, i < n) →
      ∃ r fill, scatter B xs idx n = .ok r ∧ r.length = n ∧
        fill ∈ xs ∧ xs[B.fillerIdx xs.length]? = some fill ∧
        (∀ j (hj : j < xs.length),
          (∀ j' (hj' : j' < xs.length), j < j' →
            idx[j']'(Nat.lt_of_lt_of_le hj' hlen) ≠ idx[j]'(Nat.lt_of_lt_of_le hj hlen)) →
          r[idx[j]'(Nat.lt_of_lt_of_le hj hlen)]? = some xs[j]) ∧
        (∀ k, k < n → (∀ j (hj : j < xs.length), idx[j]'(Nat.lt_of_lt_of_le hj hlen) ≠ k) →
          r[k]? = some fill)) ∧
    -- non-empty source outside the precondition
    (xs ≠ [] → ¬ (xs.length ≤ idx.length ∧ ∀ i ∈ idx.take xs.length, i < n) →
      scatter B xs idx n = .panic "scatter:index") := by
  refine ⟨fun h => h ▸ scatter_nil_spec B idx n, fun hne hlen hidx => ?_, scatter_panic B xs idx n⟩
  obtain ⟨r, fill, h1, h2, h3, h4, h5, h6⟩ := scatter_ok_spec B xs idx n hne hlen hidx
  exact ⟨r, fill, h1, h2, h3,
    h4 (hB _ (List.length_pos_iff.2 hne)), h5, h6⟩

example : (∀ n, 0 < n → vecBackend.fillerIdx n < n) ∧
    ([7, 8, 9].length ≤ [3, 1, 3, 100].length ∧ ∀ i ∈ [3, 1, 3, 100].take [7, 8, 9].length, i < 5) ∧
    scatter vecBackend [7, 8, 9] [3, 1, 3, 100] 5 = .ok [7, 8, 7, 9, 7] ∧
    scatter vecBackend [7, 8, 9] [3, 5, 3] 5 = .panic "scatter:index" ∧
    scatter vecBackend [7, 8, 9] [3, 1] 5 = .panic "scatter:index" ∧
    scatter vecBackend ([] : List Nat) [0] 5 = .panic "scatter:assert-empty" :=
  ⟨fun _ h => h, by decide, rfl, rfl, rfl, rfl⟩

theorem scatterAssign_spec (self : List α) (ixs : List Nat) (values : List α) :
    ((∀ p ∈ ixs.zip values, p.1 < self.length) →
      ∃ r, scatterAssign self ixs values = .ok r ∧ r.length = self.length ∧
        (∀ k, r[k]? = if k < self.length then
            (((ixs.zip values).findRev? (fun p => p.1 == k)).map (·.2)).or self[k]? else none) ∧
        (∀ j (h1 : j < ixs.length) (h2 : j < values.length),
          (∀ j' (h1' : j' < ixs.length), j' < values.length → j < j' → ixs[j'] ≠ ixs[j]) →
          r[ixs[j]]? = some values[j]) ∧
        (∀ k, (∀ j (h1 : j < ixs.length), j < values.length → ixs[j] ≠ k) → r[k]? = self[k]?)) ∧
    (¬ (∀ p ∈ ixs.zip values, p.1 < self.length) →
      scatterAssign self ixs values = .panic "scatter_assign:index") :=
  ⟨scatterAssign_ok_spec self ixs values, scatterAssign_panic self ixs values⟩

example : (∀ p ∈ [2, 0, 2, 7].zip [5, 6, 7], p.1 < [1, 1, 1, 1].length) ∧
    scatterAssign [1, 1, 1, 1] [2, 0, 2, 7] [5, 6, 7] = .ok [6, 1, 7, 1] ∧
    scatterAssign [1, 1, 1, 1] [2, 4] [5, 6] = .panic "scatter_assign:index" :=
  ⟨by decide, rfl, rfl⟩

theorem scatterAssignConstant_spec (self : List α) (ixs : List Nat) (c : α) :
    ((∀ i ∈ ixs, i < self.length) →
      ∃ r, scatterAssignConstant self ixs c = .ok r ∧ r.length = self.length ∧
        ∀ k, r[k]? = if k ∈ ixs then some c else self[k]?) ∧
    ((∃ i ∈ ixs, self.length ≤ i) →
      scatterAssignConstant self ixs c = .panic "scatter_assign_constant:index") :=
  ⟨fun h => ⟨_, scatterAssignConstant_ok self ixs c h, Prim.writeAll_length _ _,
      writeAll_const_getElem? self ixs c h⟩,
    scatterAssignConstant_panic self ixs c⟩

example : (∀ i ∈ [2, 0, 2], i < [1, 2, 3, 4].length) ∧
    scatterAssignConstant [1, 2, 3, 4] [2, 0, 2] 9 = .ok [9, 2, 9, 4] ∧
    scatterAssignConstant [1, 2, 3, 4] [2, 4] 9 = .panic "scatter_assign_constant:index" :=
  ⟨by decide, rfl, rfl⟩

/-- `Σ { rhs[i] | i < ixs.length, ixs[i] = k }` is written out as
    `(((ixs.zip rhs).filter (·.1 == k)).map (·.2)).sum` (`ixs.length ≤ rhs.length` whenever `ok`). -/
theorem scatterSubAssign_spec (self ixs rhs : List Nat) :
    (∀ r, scatterSubAssign self ixs rhs = .ok r →
      ixs.length ≤ rhs.length ∧ (∀ i ∈ ixs, i < self.length) ∧ r.length = self.length ∧
      ∀ k v, self[k]? = some v →
        ∃ w, r[k]? = some w ∧
          w + (((ixs.zip rhs).filter (fun p => p.1 == k)).map (·.2)).sum = v) ∧
    (ixs.length ≤ rhs.length → (∀ i ∈ ixs, i < self.length) →
      (∀ k v, self[k]? = some v →
        (((ixs.zip rhs).filter (fun p => p.1 == k)).map (·.2)).sum ≤ v) →
      ∃ r, scatterSubAssign self ixs rhs = .ok r) ∧
    scatterSubAssign self ixs rhs ≠ .none :=
  ⟨scatterSubAssign_sound self ixs rhs, scatterSubAssign_complete self ixs rhs,
    scatterSubAssign_ne_none self ixs rhs⟩

example : scatterSubAssign [10, 10, 10] [1, 0, 1] [2, 3, 4, 99] = .ok [7, 4, 10] ∧
    scatterSubAssign [10, 10, 10] [1, 0, 1] [6, 3, 5] = .panic "scatter_sub_assign:underflow" ∧
    scatterSubAssign [10, 10, 10] [1, 3] [1, 1] = .panic "scatter_sub_assign:index" ∧
    scatterSubAssign [10, 10, 10] [1, 0] [1] = .panic "scatter_sub_assign:rhs-index" :=
  ⟨rfl, rfl, rfl, rfl⟩

/-! ### naturals -/

theorem arange_spec (start stop : Nat) :
    (start ≤ stop →
      arange start stop = .ok (List.range' start (stop - start)) ∧
      (List.range' start (stop - start)).length = stop - start ∧
      ∀ k, k < stop - start → (List.range' start (stop - start))[k]? = some (start + k)) ∧
    (stop < start → arange start stop = .panic "arange:assert") :=
  ⟨fun h => ⟨arange_ok start stop h, List.length_range', fun k hk => range'_getElem?_of_lt start _ k hk⟩,
    arange_panic start stop⟩

example : arange 3 7 = .ok [3, 4, 5, 6] ∧ arange 7 3 = .panic "arange:assert" := ⟨rfl, rfl⟩

theorem cumulativeSum_length (xs : List Nat) : (cumulativeSum xs).length = xs.length + 1 :=
  Prim.cumulativeSum_length xs

theorem cumulativeSum_getElem (xs : List Nat) (k : Nat) (hk : k ≤ xs.length) :
    (cumulativeSum xs)[k]? = some ((xs.take k).sum) :=
  Prim.cumulativeSum_getElem? xs k hk

example : cumulativeSum [3, 0, 4, 1] = [0, 3, 3, 7, 8] := rfl

theorem sum_eq (xs : List Nat) : Prim.sum xs = xs.sum :=
  Prim.sum_eq xs

theorem repeat_spec (counts : List Nat) (x : List α) :
    (counts.length = x.length →
      «repeat» counts x = .ok ((List.zipWith List.replicate counts x).flatten) ∧
      ((List.zipWith List.replicate counts x).flatten).length = counts.sum) ∧
    (counts.length ≠ x.length → «repeat» counts x = .panic "repeat:assert-len") :=
  ⟨fun h => ⟨repeat_ok counts x h, repeat_flatten_length counts x h⟩, repeat_panic counts x⟩

example : «repeat» [2, 0, 3] [7, 8, 9] = .ok [7, 7, 9, 9, 9] ∧
    «repeat» [2, 0] [7, 8, 9] = .panic "repeat:assert-len" := ⟨rfl, rfl⟩

theorem quotRem_spec (xs : List Nat) (d : Nat) :
    (d ≠ 0 →
      quotRem xs d = .ok (xs.map (· / d), xs.map (· % d)) ∧
      ∀ x ∈ xs, (x / d) * d + x % d = x ∧ x % d < d) ∧
    quotRem xs 0 = .panic "quot_rem:assert" :=
  ⟨fun h => ⟨quotRem_ok xs d h, fun x _ =>
      ⟨by rw [Nat.mul_comm]; exact Nat.div_add_mod x d, Nat.mod_lt x (Nat.pos_of_ne_zero h)⟩⟩,
    quotRem_panic xs⟩

example : quotRem [7, 8, 9] 3 = .ok ([2, 2, 3], [1, 2, 0]) := rfl

theorem mulConstantAdd_spec (xs : List Nat) (c : Nat) (ys : List Nat) :
    (xs.length = ys.length →
      mulConstantAdd xs c ys = .ok (List.zipWith (fun s x => s * c + x) xs ys) ∧
      (List.zipWith (fun s x => s * c + x) xs ys).length = xs.length ∧
      ∀ k (h1 : k < xs.length) (h2 : k < ys.length),
        (List.zipWith (fun s x => s * c + x) xs ys)[k]? = some (xs[k] * c + ys[k])) ∧
    (xs.length ≠ ys.length → mulConstantAdd xs c ys = .panic "mul_constant_add:assert-len") :=
  ⟨fun h => ⟨mulConstantAdd_ok xs c ys h, by simp [h],
      fun k h1 h2 => zipWith_getElem?_of_lt _ xs ys k h1 h2⟩,
    mulConstantAdd_panic xs c ys⟩

example : mulConstantAdd [1, 2, 3] 10 [4, 5, 6] = .ok [14, 25, 36] ∧
    mulConstantAdd [1, 2] 10 [4, 5, 6] = .panic "mul_constant_add:assert-len" := ⟨rfl, rfl⟩

theorem add_spec (xs ys : List Nat) :
    (xs.length = ys.length →
      add xs ys = .ok (List.zipWith (· + ·) xs ys) ∧
      (List.zipWith (· + ·) xs ys).length = xs.length ∧
      ∀ k (h1 : k < xs.length) (h2 : k < ys.length),
        (List.zipWith (· + ·) xs ys)[k]? = some (xs[k] + ys[k])) ∧
    (xs.length ≠ ys.length → add xs ys = .panic "add:assert-len") :=
  ⟨fun h => ⟨add_ok xs ys h, by simp [h], fun k h1 h2 => zipWith_getElem?_of_lt _ xs ys k h1 h2⟩,
    add_panic xs ys⟩

example : add [1, 2, 3] [4, 5, 6] = .ok [5, 7, 9] ∧
    add [1, 2] [4, 5, 6] = .panic "add:assert-len" := ⟨rfl, rfl⟩

theorem sub_spec (xs ys : List Nat) :
    (∀ r, sub xs ys = .ok r ↔
      xs.length = ys.length ∧
      (∀ k (h1 : k < xs.length) (h2 : k < ys.length), ys[k] ≤ xs[k]) ∧
      r = List.zipWith (· - ·) xs ys) ∧
    (∀ r, sub xs ys = .ok r → r.length = xs.length ∧
      ∀ k (h1 : k < xs.length) (h2 : k < ys.length), r[k]? = some (xs[k] - ys[k])) ∧
    (xs.length ≠ ys.length → sub xs ys = .panic "sub:assert-len") ∧
    (xs.length = ys.length →
      (∃ k, ∃ (h1 : k < xs.length) (h2 : k < ys.length), xs[k] < ys[k]) →
      sub xs ys = .panic "sub:underflow") ∧
    (¬ (xs.length = ys.length ∧
        ∀ k (h1 : k < xs.length) (h2 : k < ys.length), ys[k] ≤ xs[k]) →
      ∃ s, sub xs ys = .panic s) :=
  ⟨sub_ok_iff xs ys, sub_ok_getElem? xs ys, sub_panic_len xs ys, sub_panic_underflow xs ys,
    sub_panic xs ys⟩

example : sub [5, 7, 9] [1, 7, 3] = .ok [4, 0, 6] ∧
    sub [5, 7, 9] [1, 8, 3] = .panic "sub:underflow" ∧
    sub [5, 7] [1, 7, 3] = .panic "sub:assert-len" := ⟨rfl, rfl, rfl⟩

theorem bincount_spec (xs : List Nat) (size : Nat) :
    ((∀ i ∈ xs, i < size) →
      ∃ r, bincount xs size = .ok r ∧ r.length = size ∧
        ∀ v, v < size → r[v]? = some (xs.count v)) ∧
    ((∃ i ∈ xs, size ≤ i) → bincount xs size = .panic "bincount:index") :=
  ⟨fun h => ⟨_, bincount_ok xs size h, by simp, fun v hv => bincount_getElem? xs size v hv⟩,
    bincount_panic xs size⟩

example : (∀ i ∈ [2, 0, 2, 3, 2], i < 5) ∧
    bincount [2, 0, 2, 3, 2] 5 = .ok [1, 0, 3, 1, 0] ∧
    bincount [2, 0, 5] 5 = .panic "bincount:index" := ⟨by decide, rfl, rfl⟩

theorem zero_spec (xs : List Nat) :
    (zero xs).Pairwise (· < ·) ∧ ∀ i, i ∈ zero xs ↔ xs[i]? = some 0 :=
  ⟨zero_pairwise xs, mem_zero xs⟩

example : zero [0, 3, 0, 0, 1] = [0, 2, 3] := rfl

theorem max_spec (xs : List Nat) :
    (Prim.max xs = none ↔ xs = []) ∧
    (∀ m, Prim.max xs = some m → m ∈ xs ∧ ∀ x ∈ xs, x ≤ m) :=
  ⟨max_eq_none_iff xs, max_eq_some xs⟩

example : Prim.max [3, 9, 2, 9, 4] = some 9 := rfl

/-! ### segmented operations / sort -/

theorem segmentedSum_spec (sizes x : List Nat) :
    (sizes.sum ≤ x.length →
      ∃ r, segmentedSum sizes x = .ok r ∧ r.length = sizes.length ∧
        ∀ k (hk : k < sizes.length),
          r[k]? = some (((x.drop (sizes.take k).sum).take sizes[k]).sum)) ∧
    (x.length < sizes.sum → segmentedSum sizes x = .panic "gather:index") :=
  ⟨segmentedSum_ok_spec sizes x, segmentedSum_panic sizes x⟩

example : ([2, 0, 3].sum ≤ [1, 2, 3, 4, 5, 100].length) ∧
    segmentedSum [2, 0, 3] [1, 2, 3, 4, 5, 100] = .ok [3, 0, 12] ∧
    segmentedSum [2, 0, 3] [1, 2, 3, 4] = .panic "gather:index" := ⟨by decide, rfl, rfl⟩

theorem segmentedArange_spec (sizes : List Nat) :
    segmentedArange sizes = .ok ((sizes.map List.range).flatten) :=
  segmentedArange_ok sizes

example : segmentedArange [2, 0, 3] = .ok [0, 1, 0, 1, 2] := rfl

theorem sortBy_spec (B : Backend) (xs : List α) (key : List Nat)
    (hperm : (B.argsort key).Perm (List.range key.length)) (hlen : xs.length = key.length) :
    ∃ r, sortBy B xs key = .ok r ∧ r.Perm xs ∧ r.length = xs.length ∧
      ∀ k (hk : k < (B.argsort key).length), r[k]? = xs[(B.argsort key)[k]]? :=
  sortBy_ok_spec B xs key hperm hlen

example :
    let B : Backend := { vecBackend with argsort := fun _ => [1, 2, 0] }
    (B.argsort [30, 10, 20]).Perm (List.range [30, 10, 20].length) ∧
    ["c", "a", "b"].length = [30, 10, 20].length ∧
    sortBy B ["c", "a", "b"] [30, 10, 20] = .ok ["a", "b", "c"] :=
  ⟨by decide, rfl, rfl⟩

end OH.C07
