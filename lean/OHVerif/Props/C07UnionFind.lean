/-
  C07 (union-find) — the FAITHFUL model of the Vec backend's `connected_components`
  (`OHVerif/Model/UnionFind.lean`: union by rank, recursive `find` with path compression,
  `HashMap`-based `to_dense`) returns EXACTLY what the canonical-output model `VecB.cc`
  (`Model/Prim.lean`: minimum labels + first-occurrence numbering) returns, and panics exactly
  where `Prim.connectedComponents` panics; the fuel that drives the recursion of `find` is never
  exhausted.  The same for `sparse_bincount` (`HashMap` + `sort_unstable`).
  Consequently the items "union-find with path compression" and "HashMap-based to_dense /
  sparse_bincount" are VERIFIED against the faithful model, no longer merely modelled.
  Only headline theorems (short calls into `OHVerif.Lemmas.UnionFind`) and witnesses.
-/
import OHVerif.Lemmas.UnionFind

namespace OH.C07

open OH.UF

/-! ### `connected_components`: value -/

/-- **Refinement.** Inside the precondition the faithful union-find code returns exactly the
labels and the count of the canonical-output model. -/
theorem connectedComponentsUF_eq (s t : List Nat) (n : Nat) (hlen : s.length = t.length)
    (hs : ∀ i ∈ s, i < n) (ht : ∀ i ∈ t, i < n) :
    connectedComponentsUF s t n = .ok (VecB.cc s t n) :=
  connectedComponentsUF_ok s t n hlen hs ht

-- the crate's own test `small_graph_components`, and a graph where both rank branches, the
-- equal-rank branch, an edge inside a class and real path compression occur
example : connectedComponentsUF [0, 1, 3] [1, 2, 4] 5 = .ok ([0, 0, 0, 1, 1], 2) := by decide
example : VecB.cc [0, 1, 3] [1, 2, 4] 5 = ([0, 0, 0, 1, 1], 2) := by decide
example :
    [0, 1, 3].length = [1, 2, 4].length ∧ (∀ i ∈ [0, 1, 3], i < 5) ∧ (∀ i ∈ [1, 2, 4], i < 5) := by
  decide
example : connectedComponentsUF [7, 1, 3, 7, 6, 5, 2, 0, 9] [8, 2, 4, 6, 5, 7, 7, 0, 8] 11
    = .ok ([0, 1, 1, 2, 2, 1, 1, 1, 1, 1, 3], 4) := by decide
example : VecB.cc [7, 1, 3, 7, 6, 5, 2, 0, 9] [8, 2, 4, 6, 5, 7, 7, 0, 8] 11
    = ([0, 1, 1, 2, 2, 1, 1, 1, 1, 1, 3], 4) := by decide
-- the union-find state after the edge loop of that graph (ranks 2 and 1 occur, `8 → 7 → 1` was
-- compressed to `8 → 1`); the parents are NOT the minimum labels, only their kernel agrees
example : UF.unionAll (UF.new 11)
      ([7, 1, 3, 7, 6, 5, 2, 0, 9].zip [8, 2, 4, 6, 5, 7, 7, 0, 8])
    = .ok { parent := [0, 1, 1, 3, 3, 7, 7, 1, 1, 1, 10],
            rank := [0, 2, 0, 1, 0, 0, 0, 1, 0, 0, 0] } := by
  decide

/-- **Total refinement**, panics included: on EVERY input the faithful code and
`Prim.connectedComponents` instantiated with the Vec backend agree (value or panic site). -/
theorem connectedComponentsUF_eq_prim (s t : List Nat) (n : Nat) :
    connectedComponentsUF s t n = Prim.connectedComponents vecBackend s t n :=
  UF.connectedComponentsUF_eq_prim s t n

/-- the result satisfies the documented `connected_components` contract: one label per node, the
labels are a dense numbering `0..k`, and two nodes share a label iff they are connected -/
theorem connectedComponentsUF_contract (s t : List Nat) (n : Nat) (hlen : s.length = t.length)
    (hs : ∀ i ∈ s, i < n) (ht : ∀ i ∈ t, i < n) :
    ∃ r, connectedComponentsUF s t n = .ok r ∧ r.1.length = n ∧ (∀ l ∈ r.1, l < r.2) ∧
      (∀ c, c < r.2 → c ∈ r.1) ∧
      ∀ i j, i < n → j < n → (r.1[i]? = r.1[j]? ↔ Connected s t i j) :=
  ⟨VecB.cc s t n, connectedComponentsUF_ok s t n hlen hs ht,
    vecBackend_lawful.cc_length s t n hlen hs ht, vecBackend_lawful.cc_lt s t n hlen hs ht,
    vecBackend_lawful.cc_onto s t n hlen hs ht, vecBackend_lawful.cc_kernel s t n hlen hs ht⟩

/-! ### `connected_components`: panics -/

/-- `assert_eq!(sources.len(), targets.len())` -/
theorem connectedComponentsUF_panic_len (s t : List Nat) (n : Nat) (h : s.length ≠ t.length) :
    connectedComponentsUF s t n = .panic "cc:assert-len" := by
  rw [UF.connectedComponentsUF_eq_prim, Prim.connectedComponents, if_pos h]

example : connectedComponentsUF [0, 1] [1] 5 = .panic "cc:assert-len" := by decide

/-- `assert!(n > 0 || sources.is_empty())` -/
theorem connectedComponentsUF_panic_empty (s t : List Nat) (hlen : s.length = t.length)
    (h : s ≠ []) : connectedComponentsUF s t 0 = .panic "cc:assert-empty" := by
  rw [UF.connectedComponentsUF_eq_prim, Prim.connectedComponents, if_neg (by simpa using hlen),
    if_pos ⟨rfl, by simpa using h⟩]

example : connectedComponentsUF [0] [0] 0 = .panic "cc:assert-empty" := by decide

/-- a node `≥ n` is an index panic inside union-find (`self.parent[x]` in `find`), raised at the
first offending edge after the earlier edges have been processed -/
theorem connectedComponentsUF_panic_index (s t : List Nat) (n : Nat) (hlen : s.length = t.length)
    (hn : 0 < n) (h : (∃ i ∈ s, n ≤ i) ∨ (∃ i ∈ t, n ≤ i)) :
    connectedComponentsUF s t n = .panic "cc:index" := by
  rw [UF.connectedComponentsUF_eq_prim, Prim.connectedComponents, if_neg (by simpa using hlen),
    if_neg (by omega), if_pos]
  simp only [List.all_eq_true, decide_eq_true_eq]
  rintro ⟨hs, ht⟩
  rcases h with ⟨i, hi, hni⟩ | ⟨i, hi, hni⟩
  · exact absurd (hs i hi) (by omega)
  · exact absurd (ht i hi) (by omega)

example : connectedComponentsUF [0, 1, 3] [1, 7, 4] 5 = .panic "cc:index" := by decide
example : [0, 1, 3].length = [1, 7, 4].length ∧ 0 < 5 ∧
    ((∃ i ∈ [0, 1, 3], 5 ≤ i) ∨ (∃ i ∈ [1, 7, 4], 5 ≤ i)) := by decide

/-! ### the fuel of `find` suffices -/

/-- **The fuel panic is unreachable**: `connected_components` never returns `panic "uf:fuel"`. -/
theorem uf_fuel_suffices (s t : List Nat) (n : Nat) :
    connectedComponentsUF s t n ≠ .panic "uf:fuel" :=
  connectedComponentsUF_no_fuel_panic s t n

/-- … and, state by state: in every union-find state reachable by the edge loop over `n > 0`
nodes, `find` (fuel `parent.len()`) never runs out of fuel, whatever its argument — in range it
returns the root of its argument (`h + 1 ≤ n` recursive calls), out of range it is the index
panic. -/
theorem uf_find_fuel_suffices (n : Nat) (hn : 0 < n) (es : List (Nat × Nat)) (uf : UF)
    (h : UF.unionAll (UF.new n) es = .ok uf) (x : Nat) : UF.find uf x ≠ .panic "uf:fuel" := by
  by_cases hes : ∀ e ∈ es, e.1 < n ∧ e.2 < n
  · obtain ⟨uf', h', I⟩ := (Inv.new n).unionAll es _ _ hes
    rw [h] at h'
    cases h'
    exact I.find_no_fuel_panic hn x
  · rw [(Inv.new n).unionAll_panic hn es _ _ hes] at h
    cases h

/-- `find` returns the root and the height of a node is smaller than the number of nodes -/
theorem uf_find_root {n : Nat} {rel : Nat → Nat → Prop} {uf : UF} (I : Inv n rel uf) {x : Nat}
    (hx : x < n) : ∃ r h p', RootH uf.parent x r h ∧ h < n ∧
      UF.find uf x = .ok ({ uf with parent := p' }, r) ∧ Pres uf.parent p' := by
  obtain ⟨r, h, p', H, hf, hp⟩ := I.find hx
  exact ⟨r, h, p', H, by have := H.height_lt; rw [I.plen] at this; exact this, hf, hp⟩

-- path compression at work: `8 → 7 → 1` becomes `8 → 1`
example :
    UF.find { parent := [0, 1, 1, 3, 3, 7, 7, 1, 7, 9], rank := [0, 2, 0, 1, 0, 0, 0, 1, 0, 0] } 8
    = .ok ({ parent := [0, 1, 1, 3, 3, 7, 7, 1, 1, 9],
             rank := [0, 2, 0, 1, 0, 0, 0, 1, 0, 0] }, 1) := by
  decide

/-! ### `to_dense` and `sparse_bincount` -/

/-- the `HashMap`-based `to_dense` is the first-occurrence numbering of the canonical model -/
theorem toDenseHash_eq (sparse : List Nat) : toDenseHash sparse = VecB.toDense sparse :=
  UF.toDenseHash_eq sparse

-- the crate's own test `to_dense_example`
example : toDenseHash [0, 2, 5, 5, 7] = ([0, 1, 2, 2, 3], 4) := by decide

/-- `to_dense` only depends on the kernel of its argument (which is why numbering the union-find
roots and numbering the minimum labels give the same answer) -/
theorem toDense_kernel_only (L1 L2 : List Nat) (hlen : L1.length = L2.length)
    (hker : ∀ i j, i < L1.length → j < L1.length →
      (L1.getD i 0 = L1.getD j 0 ↔ L2.getD i 0 = L2.getD j 0)) :
    VecB.toDense L1 = VecB.toDense L2 :=
  UF.toDense_congr L1 L2 hlen hker

example : VecB.toDense [7, 7, 3, 7, 3] = VecB.toDense [0, 0, 2, 0, 2] := by decide

/-- **Refinement** of `sparse_bincount`: the `HashMap` + `sort_unstable` code returns exactly the
canonical-output model's answer; the `counts_map[&idx]` panic is unreachable. -/
theorem sparseBincountHash_eq (xs : List Nat) :
    sparseBincountHash xs = .ok (VecB.sparseBincount xs) :=
  sparseBincountHash_ok xs

example : sparseBincountHash [5, 1, 5, 3, 1, 5] = .ok ([1, 3, 5], [2, 1, 3]) := by
  simp [sparseBincountHash, countsMapBump, countsMapIndexAll, List.mergeSort, List.lookup,
    Res.ofOption]

end OH.C07

#print axioms OH.C07.connectedComponentsUF_eq
#print axioms OH.C07.connectedComponentsUF_eq_prim
#print axioms OH.C07.uf_fuel_suffices
#print axioms OH.C07.uf_find_fuel_suffices
#print axioms OH.C07.sparseBincountHash_eq
