/-
  C08 — segmented arrays behave as lists of lists and keep their size invariant.
  Property theorems only.
-/
import OHVerif.Model.IC

namespace OH.C08
open OH OH.IC

/-- checked construction accepts exactly the data whose sizes sum to the value length,
    the size map's codomain being that sum plus one -/
theorem new_accepts_iff {V : Type} [HasLen V] (s : FinFun) (v : V) :
    (IC.new s v = .ok ⟨s, v⟩ ↔ (s.target = Prim.sum s.table + 1 ∧ Prim.sum s.table = HasLen.len v)) ∧
    (IC.new s v = .none ↔ ¬ (s.target = Prim.sum s.table + 1 ∧ Prim.sum s.table = HasLen.len v)) := by
  unfold IC.new IC.validate IC.valid
  by_cases h1 : s.target = Prim.sum s.table + 1 <;> by_cases h2 : Prim.sum s.table = HasLen.len v <;>
    simp [h1, h2]

example : IC.new (V := List Nat) ⟨[1, 2, 0], 4⟩ [7, 8, 9] = .ok ⟨⟨[1, 2, 0], 4⟩, [7, 8, 9]⟩ := by decide
example : IC.new (V := List Nat) ⟨[1, 2, 0], 4⟩ [7, 8] = .none := by decide
example : IC.new (V := List Nat) ⟨[1, 2, 0], 5⟩ [7, 8, 9] = .none := by decide

/-- `singleton` is the one-segment array and satisfies the invariant -/
theorem singleton_valid {V : Type} [HasLen V] (v : V) :
    (IC.singleton v).sources.table = [HasLen.len v] ∧ (IC.singleton v).valid = true := by
  simp [IC.singleton, FinFun.constant, IC.valid, Prim.sum]

/-- the remaining-count reported by the iterator state machine is the number of slices still to
    come: `(number of pointers − 1) − index` (this is the behaviour after the repair of F5) -/
theorem remaining_spec {α : Type} (st : IterState α) (h : st.index + 1 ≤ st.pointers.length) :
    st.remaining = .ok (st.pointers.length - 1 - st.index) := by
  unfold IterState.remaining checkedSub
  have h1 : 1 ≤ st.pointers.length := by omega
  have h2 : st.index ≤ st.pointers.length - 1 := by omega
  simp [h1, h2]

example : (IC.iterTrace 4 (IC.intoIter [1, 2, 0] [7, 8, 9])) =
    .ok [([7], 2), ([8, 9], 1), ([], 0)] := by decide

end OH.C08
