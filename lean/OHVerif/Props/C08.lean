/-
  C08 — segmented arrays behave as lists of lists and keep their size invariant.
  Property theorems only (each a short call into `OHVerif.Lemmas.Segs`) and witnesses showing
  that the hypotheses are satisfiable by a non-trivial input (with empty segments).
-/
import OHVerif.Lemmas.Segs

namespace OH.C08
open OH OH.IC

/-- checked construction accepts exactly the data whose sizes sum to the value length,
    the size map's codomain being that sum plus one -/
theorem new_accepts_iff {V : Type} [HasLen V] (s : FinFun) (v : V) :
    (IC.new s v = .ok ⟨s, v⟩ ↔ (s.target = Prim.sum s.table + 1 ∧ Prim.sum s.table = HasLen.len v)) ∧
    (IC.new s v = .none ↔ ¬ (s.target = Prim.sum s.table + 1 ∧ Prim.sum s.table = HasLen.len v)) := by
  unfold IC.new IC.validate IC.valid
  by_cases h1 : s.target = Prim.sum s.table + 1 <;> by_cases h2 : Prim.sum s.table = HasLen.len v <;>
    simp [h1, h2]

example : IC.new (V := List Nat) ⟨[1, 2, 0], 4⟩ [7, 8, 9] = .ok ⟨⟨[1, 2, 0], 4⟩, [7, 8, 9]⟩ := by decide
example : IC.new (V := List Nat) ⟨[1, 2, 0], 4⟩ [7, 8] = .none := by decide
example : IC.new (V := List Nat) ⟨[1, 2, 0], 5⟩ [7, 8, 9] = .none := by decide

/-- `singleton` is the one-segment array and satisfies the invariant -/
theorem singleton_valid {V : Type} [HasLen V] (v : V) :
    (IC.singleton v).sources.table = [HasLen.len v] ∧ (IC.singleton v).valid = true := by
  simp [IC.singleton, FinFun.constant, IC.valid, Prim.sum]

/-- the remaining-count reported by the iterator state machine is the number of slices still to
    come: `(number of pointers − 1) − index` (this is the behaviour after the repair of F5) -/
theorem remaining_spec {α : Type} (st : IterState α) (h : st.index + 1 ≤ st.pointers.length) :
    st.remaining = .ok (st.pointers.length - 1 - st.index) := by
  unfold IterState.remaining checkedSub
  have h1 : 1 ≤ st.pointers.length := by omega
  have h2 : st.index ≤ st.pointers.length - 1 := by omega
  simp [h1, h2]

example : (IC.iterTrace 4 (IC.intoIter [1, 2, 0] [7, 8, 9])) =
    .ok [([7], 2), ([8, 9], 1), ([], 0)] := by decide

/-! ### vocabulary -/

variable {α : Type} {V : Type}

/-- the invariant checked by `validate` -/
abbrev Valid [HasLen V] (c : IC V) : Prop := c.valid = true

/-- `Valid` spelled out: the size map's codomain is the sum of the sizes plus one and the sizes
    sum to the length of the value array -/
theorem valid_iff [HasLen V] (c : IC V) :
    Valid c ↔
      c.sources.target = c.sources.table.sum + 1 ∧ c.sources.table.sum = HasLen.len c.values :=
  IC.valid_iff c

example : Valid (⟨⟨[1, 0, 2], 4⟩, ⟨[5, 6, 7], 9⟩⟩ : IC FinFun) ∧
    ¬ Valid (⟨⟨[1, 0, 2], 5⟩, ⟨[5, 6, 7], 9⟩⟩ : IC FinFun) ∧
    ¬ Valid (⟨⟨[1, 0, 2], 4⟩, [5, 6]⟩ : IC (List Nat)) := by decide

/-! ### the list-of-lists view and its round trips -/

theorem segs_ofSegs (l : List (List Nat)) (t : Nat) :
    (IC.ofSegs l t).segs = l ∧ Valid (IC.ofSegs l t) ∧ (IC.ofSegs l t).values.target = t :=
  ⟨IC.segs_ofSegs l t, IC.ofSegs_valid l t, rfl⟩

theorem segsL_ofSegsL (l : List (List α)) :
    (IC.ofSegsL l).segsL = l ∧ Valid (IC.ofSegsL l) :=
  ⟨IC.segsL_ofSegsL l, IC.ofSegsL_valid l⟩

theorem ofSegs_segs (c : IC FinFun) (h : Valid c) : IC.ofSegs c.segs c.values.target = c :=
  IC.ofSegs_segs c h

theorem ofSegsL_segsL (c : IC (List α)) (h : Valid c) : IC.ofSegsL c.segsL = c :=
  IC.ofSegsL_segsL c h

example : Valid (⟨⟨[1, 0, 2], 4⟩, ⟨[5, 6, 7], 9⟩⟩ : IC FinFun) ∧
    (⟨⟨[1, 0, 2], 4⟩, ⟨[5, 6, 7], 9⟩⟩ : IC FinFun).segs = [[5], [], [6, 7]] ∧
    IC.ofSegs [[5], [], [6, 7]] 9 = ⟨⟨[1, 0, 2], 4⟩, ⟨[5, 6, 7], 9⟩⟩ ∧
    IC.ofSegsL [["a"], [], ["b", "c"]] = ⟨⟨[1, 0, 2], 4⟩, ["a", "b", "c"]⟩ := by decide

/-- without the invariant the round trip fails: surplus values are lost -/
example : IC.ofSegsL (⟨⟨[1], 2⟩, [7, 8]⟩ : IC (List Nat)).segsL ≠ ⟨⟨[1], 2⟩, [7, 8]⟩ := by decide

theorem segs_length (c : IC FinFun) : c.segs.length = c.len := IC.segs_length c

theorem segsL_length (c : IC (List α)) : c.segsL.length = c.len := IC.segsL_length c

/-- the segments are consecutive slices covering the whole value array, of the given sizes -/
theorem segs_flatten (c : IC FinFun) (h : Valid c) :
    c.segs.flatten = c.values.table ∧ c.segs.map List.length = c.sources.table :=
  ⟨IC.segs_flatten c h, IC.segs_map_length c h⟩

theorem segsL_flatten (c : IC (List α)) (h : Valid c) :
    c.segsL.flatten = c.values ∧ c.segsL.map List.length = c.sources.table :=
  ⟨IC.segsL_flatten c h, IC.segsL_map_length c h⟩

example : Valid (⟨⟨[0, 2, 0, 1], 4⟩, ["a", "b", "c"]⟩ : IC (List String)) ∧
    (⟨⟨[0, 2, 0, 1], 4⟩, ["a", "b", "c"]⟩ : IC (List String)).segsL = [[], ["a", "b"], [], ["c"]] := by
  decide

/-! ### checked construction from a plain size array -/

/-- `from_semifinite` succeeds exactly when the sizes sum to the value length (then the size map
    is `sizes` with codomain that sum plus one), is `none` otherwise, and never panics -/
theorem fromSemifinite_spec [HasLen V] (sizes : List Nat) (v : V) :
    (∀ c, IC.fromSemifinite sizes v = .ok c ↔
      sizes.sum = HasLen.len v ∧ c = ⟨⟨sizes, HasLen.len v + 1⟩, v⟩) ∧
    (IC.fromSemifinite sizes v = .none ↔ sizes.sum ≠ HasLen.len v) ∧
    (∀ s, IC.fromSemifinite sizes v ≠ .panic s) ∧
    (∀ c, IC.fromSemifinite sizes v = .ok c → c.sources.table = sizes ∧ c.values = v ∧ Valid c) := by
  rw [IC.fromSemifinite_eq]
  by_cases h : sizes.sum = HasLen.len v
  · simp only [h, if_true, Res.ok.injEq, true_and, ne_eq, not_true_eq_false, iff_false]
    refine ⟨fun c => eq_comm, by simp, by simp, ?_⟩
    intro c hc
    subst hc
    exact ⟨rfl, rfl, IC.mk_valid _ _ (by simp [h]) h⟩
  · simp [h]

example : IC.fromSemifinite (V := List Nat) [1, 0, 2] [7, 8, 9] = .ok ⟨⟨[1, 0, 2], 4⟩, [7, 8, 9]⟩ ∧
    IC.fromSemifinite (V := List Nat) [1, 0, 1] [7, 8, 9] = .none ∧
    IC.fromSemifinite (V := List Nat) [1, 0, 4] [7, 8, 9] = .none ∧
    IC.fromSemifinite (V := FinFun) [2, 0] ⟨[1, 1], 2⟩ = .ok ⟨⟨[2, 0], 3⟩, ⟨[1, 1], 2⟩⟩ := by decide

/-! ### singleton, elements, initial -/

theorem singleton_segs (v : FinFun) :
    (IC.singleton v).segs = [v.table] ∧ Valid (IC.singleton v) ∧ (IC.singleton v).values = v :=
  ⟨IC.singleton_segs v, IC.singleton_valid v, rfl⟩

theorem singleton_segsL (v : List α) :
    (IC.singleton v).segsL = [v] ∧ Valid (IC.singleton v) :=
  ⟨IC.singleton_segsL v, IC.singleton_valid v⟩

example : (IC.singleton (⟨[2, 0, 2], 3⟩ : FinFun)).segs = [[2, 0, 2]] ∧
    (IC.singleton ([] : List Nat)).segsL = [[]] := by decide

/-- `elements`: one singleton segment per value -/
theorem elements_spec (v : FinFun) :
    ∃ c, IC.elements v = .ok c ∧ c.segs = v.table.map ([·]) ∧ Valid c ∧ c.values = v := by
  refine ⟨_, IC.elements_eq v, ?_, ?_, rfl⟩
  · exact splitSegs_replicate_one v.table
  · exact IC.mk_valid _ _ (by simp) (by simp)

theorem elements_specL (v : List α) :
    ∃ c, IC.elements v = .ok c ∧ c.segsL = v.map ([·]) ∧ Valid c ∧ c.values = v := by
  refine ⟨_, IC.elements_eq v, ?_, ?_, rfl⟩
  · exact splitSegs_replicate_one v
  · exact IC.mk_valid _ _ (by simp) (by simp)

example : IC.elements (⟨[2, 0, 2], 3⟩ : FinFun) = .ok ⟨⟨[1, 1, 1], 4⟩, ⟨[2, 0, 2], 3⟩⟩ ∧
    (⟨⟨[1, 1, 1], 4⟩, ⟨[2, 0, 2], 3⟩⟩ : IC FinFun).segs = [[2], [0], [2]] ∧
    IC.elements ([] : List Nat) = .ok ⟨⟨[], 1⟩, []⟩ := by decide

theorem initial_segs (t : Nat) :
    (IC.initial t).segs = [] ∧ Valid (IC.initial t) ∧ (IC.initial t).values.target = t :=
  ⟨rfl, rfl, rfl⟩

/-! ### coproduct and tensor -/

/-- coproduct = concatenation of the lists of lists -/
theorem coproduct_spec (c d : IC FinFun) (hc : Valid c) (hd : Valid d)
    (ht : c.values.target = d.values.target) :
    ∃ e, IC.coproduct c d = .ok e ∧ Valid e ∧ e.segs = c.segs ++ d.segs ∧
      e.values.target = c.values.target := by
  have hc2 := ((IC.valid_iff c).1 hc).2
  refine ⟨_, IC.coproduct_eq c d hc hd ht, ?_, ?_, rfl⟩
  · have hd2 := ((IC.valid_iff d).1 hd).2
    exact IC.mk_valid _ _ rfl (by simp_all)
  · exact splitSegs_append _ _ _ _ hc2

example :
    let c : IC FinFun := ⟨⟨[1, 0, 2], 4⟩, ⟨[5, 6, 7], 9⟩⟩
    let d : IC FinFun := ⟨⟨[0, 2], 3⟩, ⟨[8, 0], 9⟩⟩
    Valid c ∧ Valid d ∧ c.values.target = d.values.target ∧
    IC.coproduct c d = .ok ⟨⟨[1, 0, 2, 0, 2], 6⟩, ⟨[5, 6, 7, 8, 0], 9⟩⟩ ∧
    (⟨⟨[1, 0, 2, 0, 2], 6⟩, ⟨[5, 6, 7, 8, 0], 9⟩⟩ : IC FinFun).segs = [[5], [], [6, 7], [], [8, 0]] := by
  decide

/-- different value codomains: `none` (for operands whose size codomains are not both zero, in
    particular for valid ones); the only other failure is the underflow panic -/
theorem coproduct_none (c d : IC FinFun) (h1 : 1 ≤ c.sources.target + d.sources.target)
    (ht : c.values.target ≠ d.values.target) : IC.coproduct c d = .none :=
  IC.coproduct_none c d h1 ht

theorem coproduct_none_of_valid (c d : IC FinFun) (hc : Valid c)
    (ht : c.values.target ≠ d.values.target) : IC.coproduct c d = .none :=
  IC.coproduct_none c d (by have := ((IC.valid_iff c).1 hc).1; omega) ht

example : IC.coproduct (⟨⟨[1], 2⟩, ⟨[5], 9⟩⟩ : IC FinFun) ⟨⟨[1], 2⟩, ⟨[5], 8⟩⟩ = .none ∧
    IC.coproduct (⟨⟨[], 0⟩, ⟨[], 9⟩⟩ : IC FinFun) ⟨⟨[], 0⟩, ⟨[], 8⟩⟩ =
      .panic "ic.coproduct:underflow" := by decide

theorem coproduct_specL (c d : IC (List α)) (hc : Valid c) (hd : Valid d) :
    ∃ e, IC.coproduct c d = .ok e ∧ Valid e ∧ e.segsL = c.segsL ++ d.segsL := by
  have hc2 := ((IC.valid_iff c).1 hc).2
  refine ⟨_, IC.coproductL_eq c d hc hd, ?_, ?_⟩
  · have hd2 := ((IC.valid_iff d).1 hd).2
    exact IC.mk_valid _ _ rfl (by simp_all)
  · exact splitSegs_append _ _ _ _ hc2

example :
    let c : IC (List String) := ⟨⟨[0, 2], 3⟩, ["a", "b"]⟩
    let d : IC (List String) := ⟨⟨[1, 0], 2⟩, ["c"]⟩
    Valid c ∧ Valid d ∧ IC.coproduct c d = .ok ⟨⟨[0, 2, 1, 0], 4⟩, ["a", "b", "c"]⟩ ∧
    (⟨⟨[0, 2, 1, 0], 4⟩, ["a", "b", "c"]⟩ : IC (List String)).segsL = [[], ["a", "b"], ["c"], []] := by
  decide

/-- tensor = concatenation, the values of the second operand shifted past the first codomain -/
theorem tensor_spec (c d : IC FinFun) (hc : Valid c) (hd : Valid d) :
    ∃ e, IC.tensor c d = .ok e ∧ Valid e ∧
      e.segs = c.segs ++ d.segs.map (·.map (c.values.target + ·)) ∧
      e.values.target = c.values.target + d.values.target := by
  have hc2 := ((IC.valid_iff c).1 hc).2
  refine ⟨_, IC.tensor_eq c d hc hd, ?_, ?_, rfl⟩
  · have hd2 := ((IC.valid_iff d).1 hd).2
    exact IC.mk_valid _ _ rfl (by simp_all)
  · show splitSegs _ _ = _
    rw [splitSegs_append _ _ _ _ hc2, splitSegs_map]
    rfl

example :
    let c : IC FinFun := ⟨⟨[1, 0, 2], 4⟩, ⟨[1, 0, 1], 2⟩⟩
    let d : IC FinFun := ⟨⟨[0, 2], 3⟩, ⟨[2, 0], 3⟩⟩
    Valid c ∧ Valid d ∧
    IC.tensor c d = .ok ⟨⟨[1, 0, 2, 0, 2], 6⟩, ⟨[1, 0, 1, 4, 2], 5⟩⟩ ∧
    (⟨⟨[1, 0, 2, 0, 2], 6⟩, ⟨[1, 0, 1, 4, 2], 5⟩⟩ : IC FinFun).segs = [[1], [], [0, 1], [], [4, 2]] := by
  decide

/-! ### mapping the values -/

/-- `map_values`: every entry of every segment is sent through `x`; sizes unchanged.
    (`x.table.getD i 0` is the `i`-th entry of `x`: all `i` are in range, see the last conjunct,
    which states the same with `x.table[i]?`.) -/
theorem mapValues_spec (c : IC FinFun) (x : FinFun) (hc : Valid c) (hw : c.values.WF)
    (h : c.values.target = x.source) (hx : x.WF) :
    ∃ e, IC.mapValues c x = .ok e ∧ Valid e ∧ e.sources = c.sources ∧
      e.values.target = x.target ∧ e.values.WF ∧
      e.segs = c.segs.map (·.map (fun i => x.table.getD i 0)) ∧
      e.segs.map (·.map some) = c.segs.map (·.map (fun i => x.table[i]?)) := by
  have hc' := (IC.valid_iff c).1 hc
  have hlt : ∀ i ∈ c.values.table, i < x.table.length := fun i hi => by
    have := hw i hi; rw [h] at this; exact this
  refine ⟨_, IC.mapValues_eq c x hw h, ?_, rfl, rfl, ?_, ?_, ?_⟩
  · exact IC.mk_valid _ _ hc'.1 (by simpa using hc'.2)
  · intro y hy
    obtain ⟨i, hi, rfl⟩ := List.mem_map.1 hy
    apply hx
    simp [List.getD_eq_getElem?_getD, List.getElem?_eq_getElem (hlt i hi)]
  · exact splitSegs_map _ _ _
  · apply IC.splitSegs_map_some
    intro i hi
    simp [List.getD_eq_getElem?_getD, List.getElem?_eq_getElem (hlt i hi)]

example :
    let c : IC FinFun := ⟨⟨[1, 0, 2], 4⟩, ⟨[1, 0, 1], 2⟩⟩
    let x : FinFun := ⟨[7, 5], 9⟩
    Valid c ∧ c.values.WF ∧ c.values.target = x.source ∧ x.WF ∧
    IC.mapValues c x = .ok ⟨⟨[1, 0, 2], 4⟩, ⟨[5, 7, 5], 9⟩⟩ ∧
    (⟨⟨[1, 0, 2], 4⟩, ⟨[5, 7, 5], 9⟩⟩ : IC FinFun).segs = [[5], [], [7, 5]] := by decide

/-- `map_values` is `none` exactly when the codomain of the values is not the domain of `x` -/
theorem mapValues_none_iff (c : IC FinFun) (x : FinFun) :
    IC.mapValues c x = .none ↔ c.values.target ≠ x.source :=
  IC.mapValues_none_iff c x

example : IC.mapValues (⟨⟨[1], 2⟩, ⟨[0], 2⟩⟩ : IC FinFun) ⟨[7, 5, 6], 9⟩ = .none := by decide

/-- `map_semifinite`: every entry of every segment is replaced by its label -/
theorem mapSemifinite_spec (c : IC FinFun) (labels : List α) (hc : Valid c) (hw : c.values.WF)
    (h : c.values.target = labels.length) :
    ∃ e, IC.mapSemifinite c labels = .ok e ∧ Valid e ∧ e.sources = c.sources ∧
      e.segsL.map (·.map some) = c.segs.map (·.map (fun i => labels[i]?)) ∧
      ∀ φ : Nat → α, (∀ i, i < labels.length → labels[i]? = some (φ i)) →
        e.segsL = c.segs.map (·.map φ) := by
  have hc' := (IC.valid_iff c).1 hc
  have hlt : ∀ i ∈ c.values.table, i < labels.length := fun i hi => by
    have := hw i hi; rw [h] at this; exact this
  refine ⟨_, IC.mapSemifinite_eq c labels hw h, ?_, rfl, ?_, ?_⟩
  · refine IC.mk_valid _ _ hc'.1 ?_
    rw [hc'.2]
    exact (Prim.gatherP_length labels c.values.table hlt).symm
  · show (splitSegs _ _).map _ = _
    rw [← splitSegs_map, Prim.gatherP_eq_map labels c.values.table hlt, splitSegs_map]
    rfl
  · intro φ hφ
    show splitSegs _ _ = _
    rw [FinFun.gatherP_eq_map labels c.values.table φ (fun i hi => hφ i (hlt i hi)),
      splitSegs_map]
    rfl

example :
    let c : IC FinFun := ⟨⟨[1, 0, 2], 4⟩, ⟨[1, 0, 1], 2⟩⟩
    let labels : List String := ["a", "b"]
    Valid c ∧ c.values.WF ∧ c.values.target = labels.length ∧
    IC.mapSemifinite c labels = .ok ⟨⟨[1, 0, 2], 4⟩, ["b", "a", "b"]⟩ ∧
    (⟨⟨[1, 0, 2], 4⟩, ["b", "a", "b"]⟩ : IC (List String)).segsL = [["b"], [], ["a", "b"]] := by
  decide

theorem mapSemifinite_none_iff (c : IC FinFun) (labels : List α) :
    IC.mapSemifinite c labels = .none ↔ c.values.target ≠ labels.length :=
  IC.mapSemifinite_none_iff c labels

/-! ### re-indexing along a map -/

/-- `map_indexes`: the `k`-th segment of the result is segment `x(k)` of `c`
    (`x` need not be injective and may be empty); `indexed_values` is its flat value array -/
theorem mapIndexes_spec (c : IC FinFun) (x : FinFun) (hc : Valid c) (hx : x.WF)
    (h : x.target = c.len) :
    ∃ e, IC.mapIndexes c x = .ok e ∧ Valid e ∧ e.values.target = c.values.target ∧
      e.segs = x.table.map (fun j => c.segs.getD j []) ∧
      e.segs.map some = x.table.map (fun j => c.segs[j]?) ∧
      IC.indexedValues c x = .ok e.values := by
  have hc2 := ((IC.valid_iff c).1 hc).2
  have hsegs : (⟨⟨x.table.map (fun j => c.sources.table.getD j 0),
        (x.table.flatMap (fun j => c.segs.getD j [])).length + 1⟩,
      ⟨x.table.flatMap (fun j => c.segs.getD j []), c.values.target⟩⟩ : IC FinFun).segs =
      x.table.map (fun j => c.segs.getD j []) := by
    apply IC.segs_eq_of
    · simp only [List.map_map]
      apply List.map_congr_left
      intro j _
      exact (splitSegs_getD_length _ _ (Nat.le_of_eq hc2) j).symm
    · simp only [List.flatMap_def]
  refine ⟨_, IC.mapIndexes_eq c x hc hx h, ?_, rfl, hsegs, ?_, IC.indexedValues_eq c x hc hx h⟩
  · have hs := IC.sum_map_getD_sizes c.sources.table c.values.table x.table (Nat.le_of_eq hc2)
    exact IC.mk_valid _ _ (congrArg (· + 1) hs.symm) hs
  · rw [hsegs]
    apply IC.map_getD_some
    intro j hj
    rw [IC.segs_length, ← h]
    exact hx j hj

example :
    let c : IC FinFun := ⟨⟨[1, 0, 2], 4⟩, ⟨[5, 6, 7], 9⟩⟩
    let x : FinFun := ⟨[2, 1, 2, 0, 2], 3⟩
    Valid c ∧ x.WF ∧ x.target = c.len ∧
    IC.mapIndexes c x = .ok ⟨⟨[2, 0, 2, 1, 2], 8⟩, ⟨[6, 7, 6, 7, 5, 6, 7], 9⟩⟩ ∧
    (⟨⟨[2, 0, 2, 1, 2], 8⟩, ⟨[6, 7, 6, 7, 5, 6, 7], 9⟩⟩ : IC FinFun).segs =
      [[6, 7], [], [6, 7], [5], [6, 7]] ∧
    IC.indexedValues c x = .ok ⟨[6, 7, 6, 7, 5, 6, 7], 9⟩ ∧
    IC.mapIndexes c ⟨[], 3⟩ = .ok ⟨⟨[], 1⟩, ⟨[], 9⟩⟩ := by decide

theorem mapIndexes_specL (c : IC (List α)) (x : FinFun) (hc : Valid c) (hx : x.WF)
    (h : x.target = c.len) :
    ∃ e, IC.mapIndexes c x = .ok e ∧ Valid e ∧
      e.segsL = x.table.map (fun j => c.segsL.getD j []) ∧
      e.segsL.map some = x.table.map (fun j => c.segsL[j]?) ∧
      IC.indexedValues c x = .ok e.values := by
  have hc2 := ((IC.valid_iff c).1 hc).2
  have hsegs : (⟨⟨x.table.map (fun j => c.sources.table.getD j 0),
        (x.table.flatMap (fun j => c.segsL.getD j [])).length + 1⟩,
      x.table.flatMap (fun j => c.segsL.getD j [])⟩ : IC (List α)).segsL =
      x.table.map (fun j => c.segsL.getD j []) := by
    apply IC.segsL_eq_of
    · simp only [List.map_map]
      apply List.map_congr_left
      intro j _
      exact (splitSegs_getD_length _ _ (Nat.le_of_eq hc2) j).symm
    · simp only [List.flatMap_def]
  refine ⟨_, IC.mapIndexesL_eq c x hc hx h, ?_, hsegs, ?_, IC.indexedValuesL_eq c x hc hx h⟩
  · have hs := IC.sum_map_getD_sizes c.sources.table c.values x.table (Nat.le_of_eq hc2)
    exact IC.mk_valid _ _ (congrArg (· + 1) hs.symm) hs
  · rw [hsegs]
    apply IC.map_getD_some
    intro j hj
    rw [IC.segsL_length, ← h]
    exact hx j hj

example :
    let c : IC (List String) := ⟨⟨[1, 0, 2], 4⟩, ["a", "b", "c"]⟩
    let x : FinFun := ⟨[2, 1, 2, 0], 3⟩
    Valid c ∧ x.WF ∧ x.target = c.len ∧
    IC.mapIndexes c x = .ok ⟨⟨[2, 0, 2, 1], 6⟩, ["b", "c", "b", "c", "a"]⟩ ∧
    (⟨⟨[2, 0, 2, 1], 6⟩, ["b", "c", "b", "c", "a"]⟩ : IC (List String)).segsL =
      [["b", "c"], [], ["b", "c"], ["a"]] := by decide

/-- `map_indexes` is `none` when the codomain of `x` is not the number of segments -/
theorem mapIndexes_none [IC.Vals V] (c : IC V) (x : FinFun) (h : x.target ≠ c.len) :
    IC.mapIndexes c x = .none :=
  IC.mapIndexes_none c x h

example : IC.mapIndexes (⟨⟨[1, 0, 2], 4⟩, ⟨[5, 6, 7], 9⟩⟩ : IC FinFun) ⟨[0], 2⟩ = .none := by decide

/-- `indexed_values`: the chosen segments, concatenated -/
theorem indexedValues_spec (c : IC FinFun) (x : FinFun) (hc : Valid c) (hx : x.WF)
    (h : x.target = c.len) :
    IC.indexedValues c x =
      .ok ⟨(x.table.map (fun j => c.segs.getD j [])).flatten, c.values.target⟩ := by
  rw [IC.indexedValues_eq c x hc hx h, List.flatMap_def]

theorem indexedValues_specL (c : IC (List α)) (x : FinFun) (hc : Valid c) (hx : x.WF)
    (h : x.target = c.len) :
    IC.indexedValues c x = .ok (x.table.map (fun j => c.segsL.getD j [])).flatten := by
  rw [IC.indexedValuesL_eq c x hc hx h, List.flatMap_def]

example :
    let c : IC (List String) := ⟨⟨[1, 0, 2], 4⟩, ["a", "b", "c"]⟩
    let x : FinFun := ⟨[2, 1, 2, 0], 3⟩
    Valid c ∧ x.WF ∧ x.target = c.len ∧
    IC.indexedValues c x = .ok ["b", "c", "b", "c", "a"] := by decide

/-! ### flatmap -/

/-- `flatmap` is list bind: every entry `j` of every segment of `c` is replaced by segment `j`
    of `d` -/
theorem flatmap_spec (c d : IC FinFun) (hc : Valid c) (hw : c.values.WF) (hd : Valid d)
    (h : c.values.target = d.len) :
    ∃ e, IC.flatmap c d = .ok e ∧ Valid e ∧ e.values.target = d.values.target ∧
      e.segs = c.segs.map (fun seg => seg.flatMap (fun j => d.segs.getD j [])) := by
  refine ⟨_, IC.flatmap_eq c d hc hw hd h, ?_, rfl, IC.flatmap_segs_aux c d hc hd⟩
  have hs := IC.flatmap_sizes_sum c d hc hd
  exact IC.mk_valid _ _ (congrArg (· + 1) hs.symm) hs

example :
    let c : IC FinFun := ⟨⟨[2, 0, 1], 4⟩, ⟨[1, 2, 1], 3⟩⟩
    let d : IC FinFun := ⟨⟨[1, 2, 0], 4⟩, ⟨[5, 6, 7], 9⟩⟩
    Valid c ∧ c.values.WF ∧ Valid d ∧ c.values.target = d.len ∧
    c.segs = [[1, 2], [], [1]] ∧ d.segs = [[5], [6, 7], []] ∧
    IC.flatmap c d = .ok ⟨⟨[2, 0, 2], 5⟩, ⟨[6, 7, 6, 7], 9⟩⟩ ∧
    (⟨⟨[2, 0, 2], 5⟩, ⟨[6, 7, 6, 7], 9⟩⟩ : IC FinFun).segs = [[6, 7], [], [6, 7]] := by decide

/-- under the other hypotheses `flatmap` panics exactly when the value codomain of `c` is not the
    number of segments of `d` (that direction needs no hypotheses) -/
theorem flatmap_panics_iff (c d : IC FinFun) (hc : Valid c) (hw : c.values.WF) (hd : Valid d) :
    (∃ s, IC.flatmap c d = .panic s) ↔ c.values.target ≠ d.len := by
  constructor
  · rintro ⟨s, hs⟩ h
    obtain ⟨e, he, _⟩ := flatmap_spec c d hc hw hd h
    rw [he] at hs
    cases hs
  · intro h
    exact ⟨_, IC.flatmap_panic c d h⟩

theorem flatmap_panics (c d : IC FinFun) (h : c.values.target ≠ d.len) :
    IC.flatmap c d = .panic "flatmap:assert" :=
  IC.flatmap_panic c d h

example : IC.flatmap (⟨⟨[1], 2⟩, ⟨[0], 2⟩⟩ : IC FinFun) ⟨⟨[1], 2⟩, ⟨[0], 1⟩⟩ =
    .panic "flatmap:assert" := by decide

/-! ### flatmap of sources -/

/-- `flatmap_sources`: the segments of `d` concatenated in groups whose sizes are the sizes of
    `c`; the values are those of `d` -/
theorem flatmapSources_spec [HasLen V] (c : IC V) (d : IC FinFun) (hc : Valid c) (hd : Valid d)
    (h : HasLen.len c.values = d.len) :
    ∃ e, IC.flatmapSources c d = .ok e ∧ e.values = d.values ∧ Valid e ∧ e.len = c.len ∧
      e.segs = (splitSegs c.sources.table d.segs).map List.flatten := by
  have hc2 := ((IC.valid_iff c).1 hc).2
  have hd' := (IC.valid_iff d).1 hd
  have hsum := IC.sum_regroup c.sources.table d.sources.table (by rw [hc2, h]; exact Nat.le_refl _)
  refine ⟨_, IC.flatmapSources_eq c d hc h, rfl, ?_, ?_, ?_⟩
  · exact IC.mk_valid _ _ (by simp only [hsum]; exact hd'.1) (by simp only [hsum]; exact hd'.2)
  · simp [IC.len, FinFun.source]
  · exact splitSegs_splitSegs _ _ _

example :
    let c : IC (List Nat) := ⟨⟨[2, 0, 1], 4⟩, [0, 0, 0]⟩
    let d : IC FinFun := ⟨⟨[1, 0, 2], 4⟩, ⟨[5, 6, 7], 9⟩⟩
    Valid c ∧ Valid d ∧ HasLen.len c.values = d.len ∧
    IC.flatmapSources c d = .ok ⟨⟨[1, 0, 2], 4⟩, ⟨[5, 6, 7], 9⟩⟩ ∧
    splitSegs c.sources.table d.segs = [[[5], []], [], [[6, 7]]] ∧
    (⟨⟨[1, 0, 2], 4⟩, ⟨[5, 6, 7], 9⟩⟩ : IC FinFun).segs = [[5], [], [6, 7]] := by decide

theorem flatmapSources_specL [HasLen V] (c : IC V) (d : IC (List α)) (hc : Valid c) (hd : Valid d)
    (h : HasLen.len c.values = d.len) :
    ∃ e, IC.flatmapSources c d = .ok e ∧ e.values = d.values ∧ Valid e ∧ e.len = c.len ∧
      e.segsL = (splitSegs c.sources.table d.segsL).map List.flatten := by
  have hc2 := ((IC.valid_iff c).1 hc).2
  have hd' := (IC.valid_iff d).1 hd
  have hsum := IC.sum_regroup c.sources.table d.sources.table (by rw [hc2, h]; exact Nat.le_refl _)
  refine ⟨_, IC.flatmapSources_eq c d hc h, rfl, ?_, ?_, ?_⟩
  · exact IC.mk_valid _ _ (by simp only [hsum]; exact hd'.1) (by simp only [hsum]; exact hd'.2)
  · simp [IC.len, FinFun.source]
  · exact splitSegs_splitSegs _ _ _

example :
    let c : IC FinFun := ⟨⟨[0, 3, 1], 5⟩, ⟨[0, 0, 0, 0], 1⟩⟩
    let d : IC (List String) := ⟨⟨[1, 0, 2, 1], 5⟩, ["a", "b", "c", "d"]⟩
    Valid c ∧ Valid d ∧ HasLen.len c.values = d.len ∧
    IC.flatmapSources c d = .ok ⟨⟨[0, 3, 1], 5⟩, ["a", "b", "c", "d"]⟩ ∧
    (⟨⟨[0, 3, 1], 5⟩, ["a", "b", "c", "d"]⟩ : IC (List String)).segsL =
      [[], ["a", "b", "c"], ["d"]] := by decide

theorem flatmapSources_panics {W : Type} [HasLen V] (c : IC V) (d : IC W)
    (h : HasLen.len c.values ≠ d.len) :
    IC.flatmapSources c d = .panic "flatmap_sources:assert" :=
  IC.flatmapSources_panic c d h

/-! ### iterators -/

/-- the owning iterator yields every slice once, in order, then `None`; after the `k`-th item it
    reports exactly `n - (k+1)` items still to come -/
theorem iterTrace_spec (sizes : List Nat) (values : List α) (h : sizes.sum = values.length)
    (fuel : Nat) (hf : sizes.length + 1 ≤ fuel) :
    ∃ tr, IC.iterTrace fuel (IC.intoIter sizes values) = .ok tr ∧
      tr.length = sizes.length ∧
      tr.map (·.1) = splitSegs sizes values ∧
      tr.map (·.2) = (List.range sizes.length).map (fun k => sizes.length - (k + 1)) ∧
      (tr.map (·.1)).flatten = values := by
  refine ⟨_, IC.iterTrace_eq sizes values (Nat.le_of_eq h) fuel hf, by simp, ?_, ?_, ?_⟩
  · have := IC.range_map_getD (splitSegs sizes values)
    rw [splitSegs_length] at this
    simpa [List.map_map, Function.comp_def] using this
  · simp [List.map_map, Function.comp_def]
  · have := IC.range_map_getD (splitSegs sizes values)
    rw [splitSegs_length] at this
    simp only [List.map_map, Function.comp_def, this]
    exact splitSegs_flatten _ _ (Nat.le_of_eq h.symm)

example : [1, 2, 0].sum = [7, 8, 9].length ∧
    IC.iterTrace 4 (IC.intoIter [1, 2, 0] [7, 8, 9]) = .ok [([7], 2), ([8, 9], 1), ([], 0)] ∧
    IC.iterTrace 9 (IC.intoIter [0, 3, 0, 1] ["a", "b", "c", "d"]) =
      .ok [([], 3), (["a", "b", "c"], 2), ([], 1), (["d"], 0)] := by decide

/-- the borrowed slice iterator yields the segments -/
theorem sliceIter_spec (c : IC (List α)) (h : Valid c) : IC.sliceIter c = .ok c.segsL :=
  IC.sliceIter_eq c (Nat.le_of_eq ((IC.valid_iff c).1 h).2)

example : Valid (⟨⟨[0, 2, 0, 1], 4⟩, ["a", "b", "c"]⟩ : IC (List String)) ∧
    IC.sliceIter (⟨⟨[0, 2, 0, 1], 4⟩, ["a", "b", "c"]⟩ : IC (List String)) =
      .ok [[], ["a", "b"], [], ["c"]] := by decide

/-- the per-operation view of an operation batch: (label, source type, target type) in order -/
theorem operations_iter_spec {O A : Type} (ops : Operations O A) (ha : Valid ops.a)
    (hb : Valid ops.b) (hla : ops.x.length = ops.a.len) (hlb : ops.x.length = ops.b.len) :
    ops.iter = .ok (List.zip ops.x (List.zip ops.a.segsL ops.b.segsL)) ∧
    (List.zip ops.x (List.zip ops.a.segsL ops.b.segsL)).length = ops.x.length ∧
    ops.validate = .ok ops := by
  refine ⟨?_, ?_, ?_⟩
  · unfold Operations.iter
    rw [sliceIter_spec ops.a ha, sliceIter_spec ops.b hb]
    rfl
  · simp [IC.segsL_length, ← hla, ← hlb]
  · simp [Operations.validate, hla, ← hlb]

example :
    let ops : Operations String String :=
      ⟨["f", "g", "h"], ⟨⟨[2, 0, 1], 4⟩, ["A", "B", "C"]⟩, ⟨⟨[0, 1, 1], 3⟩, ["D", "E"]⟩⟩
    Valid ops.a ∧ Valid ops.b ∧ ops.x.length = ops.a.len ∧ ops.x.length = ops.b.len ∧
    ops.iter = .ok [("f", ["A", "B"], []), ("g", [], ["D"]), ("h", ["C"], ["E"])] := by decide

end OH.C08
