/-
  C08 (iterators, continued) — what the owning iterator does AFTER it is exhausted: it stays
  exhausted (the state does not move), keeps answering `None`, and keeps reporting that nothing is
  left.  `iterTrace_spec` (Props/C08.lean) covers the run up to the first `None`; these theorems cover
  every later call, for every state reachable from `intoIter`.
-/
import OHVerif.Props.C08

namespace OH.C08Iter
open OH OH.IC

variable {α : Type}

/-- the states an iterator built by `intoIter` can be in: at least one pointer, index not past the end -/
def Reach (st : IterState α) : Prop := 1 ≤ st.pointers.length ∧ st.index ≤ st.pointers.length - 1

theorem reach_intoIter (sizes : List Nat) (values : List α) : Reach (intoIter sizes values) := by
  unfold Reach intoIter
  simp [Prim.cumulativeSum_length]

/-- a `None` answer leaves the state where it was -/
theorem next_none_state (st st' : IterState α) (h : st.next = .ok (none, st')) : st' = st := by
  unfold IterState.next checkedSub at h
  by_cases h1 : 1 ≤ st.pointers.length
  · simp only [h1, if_true, Res.ok_bind] at h
    by_cases h2 : st.index ≥ st.pointers.length - 1
    · simp only [h2, if_true, pure, Res.ok.injEq, Prod.mk.injEq, true_and] at h
      exact h.symm
    · simp only [h2, if_false] at h
      cases ha : Prim.get st.pointers st.index <;> simp only [ha, Res.ok_bind, Res.none_bind, Res.panic_bind] at h <;> try cases h
      cases hb : Prim.get st.pointers (st.index + 1) <;> simp only [hb, Res.ok_bind, Res.none_bind, Res.panic_bind] at h <;> try cases h
      rename_i a b
      cases hs : Prim.slice st.values a b <;> simp only [hs, Res.ok_bind, Res.none_bind, Res.panic_bind, pure] at h <;> cases h
  · simp [h1] at h

/-- `next` keeps reachable states reachable -/
theorem next_reach (st st' : IterState α) (o : Option (List α)) (hr : Reach st)
    (h : st.next = .ok (o, st')) : Reach st' := by
  cases o with
  | none => rw [next_none_state st st' h]; exact hr
  | some sl =>
    unfold IterState.next checkedSub at h
    obtain ⟨h1, h3⟩ := hr
    simp only [h1, if_true, Res.ok_bind] at h
    by_cases h2 : st.index ≥ st.pointers.length - 1
    · simp only [h2, if_true, pure, Res.ok.injEq, Prod.mk.injEq] at h
      cases h.1
    · simp only [h2, if_false] at h
      cases ha : Prim.get st.pointers st.index <;> simp only [ha, Res.ok_bind, Res.none_bind, Res.panic_bind] at h <;> try cases h
      cases hb : Prim.get st.pointers (st.index + 1) <;> simp only [hb, Res.ok_bind, Res.none_bind, Res.panic_bind] at h <;> try cases h
      rename_i a b
      cases hs : Prim.slice st.values a b with
      | ok sl' =>
        simp only [hs, Res.ok_bind, pure, Res.ok.injEq, Prod.mk.injEq] at h
        obtain ⟨_, rfl⟩ := h
        exact ⟨h1, by simp only; omega⟩
      | none => simp only [hs, Res.none_bind] at h; cases h
      | panic s => simp only [hs, Res.panic_bind] at h; cases h

/-- after a `None`, in a reachable state: the next call answers `None` again, from the same state, and
    the reported number of slices still to come is `0` — and so on for ever (the state is unchanged) -/
theorem exhausted_stays (st st' : IterState α) (hr : Reach st) (h : st.next = .ok (none, st')) :
    st'.next = .ok (none, st') ∧ st'.remaining = .ok 0 := by
  have e := next_none_state st st' h
  subst e
  refine ⟨h, ?_⟩
  obtain ⟨h1, h3⟩ := hr
  unfold IterState.next checkedSub at h
  simp only [h1, if_true, Res.ok_bind] at h
  by_cases h2 : st'.index ≥ st'.pointers.length - 1
  · unfold IterState.remaining checkedSub
    simp only [h1, if_true, Res.ok_bind, h3]
    have : st'.pointers.length - 1 - st'.index = 0 := by omega
    simp [this]
  · simp only [h2, if_false] at h
    cases ha : Prim.get st'.pointers st'.index <;> simp only [ha, Res.ok_bind, Res.none_bind, Res.panic_bind] at h <;> try cases h
    cases hb : Prim.get st'.pointers (st'.index + 1) <;> simp only [hb, Res.ok_bind, Res.none_bind, Res.panic_bind] at h <;> try cases h
    rename_i a b
    cases hs : Prim.slice st'.values a b <;> simp only [hs, Res.ok_bind, Res.none_bind, Res.panic_bind, pure] at h <;> cases h

/-- in every reachable state the reported count is defined (no underflow) and exact -/
theorem remaining_reach (st : IterState α) (hr : Reach st) :
    st.remaining = .ok (st.pointers.length - 1 - st.index) := by
  obtain ⟨h1, h3⟩ := hr
  unfold IterState.remaining checkedSub
  simp [h1, h3]

example : Reach (intoIter [1, 0, 2] [7, 8, 9]) ∧
    ((⟨[0, 1, 1, 3], [7, 8, 9], 3⟩ : IterState Nat).next.bind (fun r => Res.ok r.1)) = Res.ok none ∧
    (⟨[0, 1, 1, 3], [7, 8, 9], 3⟩ : IterState Nat).remaining = .ok 0 := by
  refine ⟨reach_intoIter _ _, by decide, by decide⟩

end OH.C08Iter
