/-
  C09 — quotienting a lax (open) hypergraph by its recorded unification pairs
  (`lax::Hypergraph::quotient`, `lax::OpenHypergraph::quotient`), for EVERY lawful backend.
  `q i` is written `q.table[i]?` (partial) or `q.table.getD i 0` (total, used for rewriting lists).
-/
import OHVerif.Props.C06
import OHVerif.Lemmas.LaxEdit
import OHVerif.Lemmas.LaxStrict

namespace OH.C09
open OH OH.FinFun OH.LaxEdit Relation

variable {O A : Type}

/-! ## vocabulary -/

/-- the recorded unification pairs `(quotient.1[k], quotient.2[k])` -/
def Pairs (h : LHG O A) (a b : Nat) : Prop :=
  ∃ k : Nat, h.quotient.1[k]? = some a ∧ h.quotient.2[k]? = some b

/-- nodes identified by the recorded pairs carry equal labels -/
def LabelConsistent (h : LHG O A) : Prop :=
  ∀ i j : Nat, EqvGen (Pairs h) i j → h.nodes[i]? = h.nodes[j]?

/-- a hyperedge with every node id replaced by its image under `q` -/
def mapEdge (q : FinFun) (e : LEdge) : LEdge :=
  ⟨e.sources.map (fun i => q.table.getD i 0), e.targets.map (fun i => q.table.getD i 0)⟩

/-! ## auxiliary facts -/

theorem pairs_lt (h : LHG O A) (hw : WF h) {a b : Nat} (hp : Pairs h a b) :
    a < h.nodes.length ∧ b < h.nodes.length := by
  obtain ⟨k, h1, h2⟩ := hp
  exact ⟨hw.q1 a (List.mem_of_getElem? h1), hw.q2 b (List.mem_of_getElem? h2)⟩

theorem eqvGen_lt (h : LHG O A) (hw : WF h) {i j : Nat} (he : EqvGen (Pairs h) i j) :
    i = j ∨ (i < h.nodes.length ∧ j < h.nodes.length) := by
  induction he with
  | rel a b hab => exact Or.inr (pairs_lt h hw hab)
  | refl a => exact Or.inl rfl
  | symm a b _ ih =>
    rcases ih with ih | ih
    · exact Or.inl ih.symm
    · exact Or.inr ⟨ih.2, ih.1⟩
  | trans a b c _ _ ih1 ih2 =>
    rcases ih1 with ih1 | ih1
    · subst ih1; exact ih2
    · rcases ih2 with ih2 | ih2
      · subst ih2; exact Or.inr ih1
      · exact Or.inr ⟨ih1.1, ih2.2⟩

/-- without recorded pairs the generated equivalence is equality -/
theorem eqvGen_nopairs (h : LHG O A) (hq : h.quotient = ([], [])) {i j : Nat}
    (he : EqvGen (Pairs h) i j) : i = j := by
  induction he with
  | rel a b hab =>
    obtain ⟨k, h1, _⟩ := hab
    rw [hq] at h1; simp at h1
  | refl a => rfl
  | symm a b _ ih => exact ih.symm
  | trans a b c _ _ ih1 ih2 => exact ih1.trans ih2

/-- the coequalizer of the recorded pairs exists on a well-formed diagram (any lawful backend):
    a surjection from the old nodes whose kernel is the generated equivalence -/
theorem coequalizer_ok (B : Backend) (hB : B.Lawful) (h : LHG O A) (hw : WF h) :
    ∃ q : FinFun, LHG.coequalizer B h = .ok q ∧ q.table.length = h.nodes.length ∧ q.WF ∧
      C06.Surj q ∧
      (∀ c : Nat, c < q.target → ∃ i : Nat, i < h.nodes.length ∧ q.table[i]? = some c) ∧
      (∀ i j : Nat, i < h.nodes.length → j < h.nodes.length →
        (q.table[i]? = q.table[j]? ↔ EqvGen (Pairs h) i j)) := by
  obtain ⟨q, hq, hqs, hqw, hqo, hqk, _⟩ := C06.coequalizer_spec B hB
    ⟨h.quotient.1, h.nodes.length⟩ ⟨h.quotient.2, h.nodes.length⟩ hw.q1 hw.q2 hw.qlen rfl
  refine ⟨q, ?_, hqs, hqw, ?_, hqo, hqk⟩
  · unfold LHG.coequalizer
    rw [hq]; rfl
  · intro c hc
    obtain ⟨i, _, hi⟩ := hqo c hc
    exact List.mem_of_getElem? hi

theorem constOnFibres_iff (h : LHG O A) (hw : WF h) (q : FinFun)
    (hlen : q.table.length = h.nodes.length)
    (hker : ∀ i j : Nat, i < h.nodes.length → j < h.nodes.length →
      (q.table[i]? = q.table[j]? ↔ EqvGen (Pairs h) i j)) :
    ConstOnFibres q h.nodes ↔ LabelConsistent h := by
  constructor
  · intro hc i j he
    rcases eqvGen_lt h hw he with hij | ⟨hi, hj⟩
    · rw [hij]
    · exact hc i j ((hker i j hi hj).mpr he) (by rw [source, hlen]; exact hi)
        (by rw [source, hlen]; exact hj)
  · intro hc i j hij hi hj
    rw [source, hlen] at hi hj
    exact hc i j ((hker i j hi hj).mp hij)

theorem mapM_get_getD (t : List Nat) (ids : List Nat) (h : ∀ i ∈ ids, i < t.length) :
    ids.mapM (fun i => Prim.get t i) = .ok (ids.map (fun i => t.getD i 0)) := by
  apply Res.mapM_ok
  intro i hi
  have := h i hi
  rw [Prim.get_ok t i this]
  simp [List.getD, List.getElem?_eq_getElem this]

theorem adjacency_mapM (q : FinFun) (adj : List LEdge)
    (h : ∀ e ∈ adj, EdgeOK q.table.length e) :
    adj.mapM (fun e => do
      let s ← e.sources.mapM (fun i => Prim.get q.table i)
      let t ← e.targets.mapM (fun i => Prim.get q.table i)
      pure (⟨s, t⟩ : LEdge)) = .ok (adj.map (mapEdge q)) := by
  apply Res.mapM_ok
  intro e he
  rw [mapM_get_getD _ _ (h e he).1, mapM_get_getD _ _ (h e he).2]
  rfl

/-- evaluation of `quotient()` once the coequalizer is known -/
theorem quotientH_eval [DecidableEq O] (B : Backend) (h : LHG O A) (hw : WF h) (q : FinFun)
    (hq : LHG.coequalizer B h = .ok q) (hlen : q.table.length = h.nodes.length) :
    (∀ nodes, coequalizerUniversalArr B q h.nodes = .ok nodes →
      LHG.quotientH B h = .ok (true, q,
        { nodes := nodes, edges := h.edges, adjacency := h.adjacency.map (mapEdge q),
          quotient := ([], []) })) ∧
    (coequalizerUniversalArr B q h.nodes = .none → LHG.quotientH B h = .ok (false, q, h)) := by
  have hadj := adjacency_mapM q h.adjacency (fun e he => by rw [hlen]; exact hw.adj e he)
  constructor
  · intro nodes hn
    unfold LHG.quotientH
    simp only [hq, Res.ok_bind, hn]
    rw [hadj]
    rfl
  · intro hn
    unfold LHG.quotientH
    simp only [hq, Res.ok_bind, hn]
    rfl

/-! ## atomicity of a failed quotient (no hypotheses at all) -/

/-- a failed quotient (`Err(q)`) leaves the hypergraph exactly as it was before the call
    (this is the repaired behaviour: finding F4) -/
theorem quotient_err_atomic [DecidableEq O] (B : Backend) (h h' : LHG O A) (q : FinFun)
    (hr : LHG.quotientH B h = .ok (false, q, h')) : h' = h := by
  unfold LHG.quotientH at hr
  cases hc : LHG.coequalizer B h with
  | none => rw [hc] at hr; cases hr
  | panic s => rw [hc] at hr; cases hr
  | ok q0 =>
    rw [hc] at hr
    simp only [Res.ok_bind] at hr
    cases hu : coequalizerUniversalArr B q0 h.nodes with
    | panic s => rw [hu] at hr; cases hr
    | none =>
      rw [hu] at hr
      simp only [Res.pure_eq, Res.ok.injEq, Prod.mk.injEq] at hr
      exact hr.2.2.symm
    | ok nodes =>
      rw [hu] at hr
      simp only at hr
      generalize (h.adjacency.mapM _ : Res (List LEdge)) = r at hr
      cases r with
      | none => cases hr
      | panic s => cases hr
      | ok adj =>
        simp only [Res.ok_bind, Res.pure_eq, Res.ok.injEq, Prod.mk.injEq] at hr
        exact absurd hr.1 (by decide)

/-- the open version: a failed quotient leaves interfaces and hypergraph untouched -/
theorem quotient_open_err_atomic [DecidableEq O] (B : Backend) (f f' : LOHG O A) (q : FinFun)
    (hr : LOHG.quotient B f = .ok (false, q, f')) : f' = f := by
  unfold LOHG.quotient at hr
  cases hc : LHG.quotientH B f.hypergraph with
  | none => rw [hc] at hr; cases hr
  | panic s => rw [hc] at hr; cases hr
  | ok r =>
    obtain ⟨b, q0, h0⟩ := r
    rw [hc] at hr
    simp only [Res.ok_bind] at hr
    cases b with
    | false =>
      simp only [Bool.not_false, if_true, Res.pure_eq, Res.ok.injEq, Prod.mk.injEq] at hr
      exact hr.2.2.symm
    | true =>
      simp only [Bool.not_true, Bool.false_eq_true, if_false] at hr
      generalize (f.sources.mapM _ : Res (List Nat)) = r1 at hr
      cases r1 with
      | none => cases hr
      | panic s => cases hr
      | ok s =>
        simp only [Res.ok_bind] at hr
        generalize (f.targets.mapM _ : Res (List Nat)) = r2 at hr
        cases r2 with
        | none => cases hr
        | panic s => cases hr
        | ok t =>
          simp only [Res.ok_bind, Res.pure_eq, Res.ok.injEq, Prod.mk.injEq] at hr
          exact absurd hr.1 (by decide)

/-! ## the successful quotient -/

/-- On a well-formed, label-consistent diagram `quotient()` returns `Ok(q)`:
    `q` is a surjection from the old onto the new nodes whose fibres are exactly the classes of
    the equivalence generated by the recorded pairs; every new node carries the label of (every
    member of) its fibre; hyperedges keep their number, labels and order and have every node
    reference replaced by its image under `q`; the pending unifications are cleared; the result
    is well-formed. -/
theorem quotient_ok [DecidableEq O] (B : Backend) (hB : B.Lawful) (h : LHG O A) (hwf : h.wf = true)
    (hc : LabelConsistent h) :
    ∃ (q : FinFun) (h' : LHG O A),
      LHG.quotientH B h = .ok (true, q, h') ∧
      q.table.length = h.nodes.length ∧ q.target = h'.nodes.length ∧
      (∀ i : Nat, i < h.nodes.length → ∃ c : Nat, q.table[i]? = some c ∧ c < h'.nodes.length) ∧
      (∀ c : Nat, c < h'.nodes.length → ∃ i : Nat, i < h.nodes.length ∧ q.table[i]? = some c) ∧
      (∀ i j : Nat, i < h.nodes.length → j < h.nodes.length →
        (q.table[i]? = q.table[j]? ↔ EqvGen (Pairs h) i j)) ∧
      (∀ i : Nat, i < h.nodes.length → h'.nodes[q.table.getD i 0]? = h.nodes[i]?) ∧
      h'.edges = h.edges ∧
      h'.adjacency = h.adjacency.map (mapEdge q) ∧
      h'.quotient = ([], []) ∧
      h'.wf = true := by
  have hw := (LaxEdit.wf_iff h).mp hwf
  obtain ⟨q, hq, hlen, hqw, hsurj, honto, hker⟩ := coequalizer_ok B hB h hw
  have hconst := (constOnFibres_iff h hw q hlen hker).mpr hc
  obtain ⟨hu, _, _⟩ := C06.universal_spec B q hqw hsurj h.nodes
  obtain ⟨v, hv, hvl, hvp, _, _⟩ := hu (by rw [source, hlen]) hconst
  have hget : ∀ i : Nat, i < h.nodes.length → q.table[i]? = some (q.table.getD i 0) := by
    intro i hi
    have : i < q.table.length := by rw [hlen]; exact hi
    simp [List.getD, List.getElem?_eq_getElem this]
  have hlt : ∀ i : Nat, i < h.nodes.length → q.table.getD i 0 < v.length := by
    intro i hi
    rw [hvl]
    exact hqw.getElem?_lt (hget i hi)
  refine ⟨q, _, (quotientH_eval B h hw q hq hlen).1 v hv, hlen, hvl.symm, ?_, ?_, hker, ?_, rfl, rfl,
    rfl, ?_⟩
  · intro i hi
    exact ⟨_, hget i hi, hlt i hi⟩
  · intro c hcl
    exact honto c (by rw [← hvl]; exact hcl)
  · intro i hi
    have := hvp i (by rw [source, hlen]; exact hi)
    rw [hget i hi] at this
    exact this
  · rw [LaxEdit.wf_iff]
    refine ⟨?_, ?_, rfl, by simp, by simp⟩
    · show h.edges.length = (h.adjacency.map (mapEdge q)).length
      rw [List.length_map]; exact hw.len
    · intro e' he'
      obtain ⟨e, he, rfl⟩ := List.mem_map.mp he'
      constructor
      · intro x hx
        obtain ⟨i, hi, rfl⟩ := List.mem_map.mp hx
        exact hlt i ((hw.adj e he).1 i hi)
      · intro x hx
        obtain ⟨i, hi, rfl⟩ := List.mem_map.mp hx
        exact hlt i ((hw.adj e he).2 i hi)

/-- hypotheses satisfiable: `0 ~ 1` share a label, `2` is alone -/
example : (⟨[7, 7, 8], [5], [⟨[0, 2], [1]⟩], ([0], [1])⟩ : LHG Nat Nat).wf = true ∧
    LHG.quotientH vecBackend (⟨[7, 7, 8], [5], [⟨[0, 2], [1]⟩], ([0], [1])⟩ : LHG Nat Nat) =
      .ok (true, ⟨[0, 0, 1], 2⟩, ⟨[7, 8], [5], [⟨[0, 1], [0]⟩], ([], [])⟩) := by decide
example : LabelConsistent (⟨[7, 7, 8], [5], [⟨[0, 2], [1]⟩], ([0], [1])⟩ : LHG Nat Nat) := by
  intro i j he
  have key : ∀ i j : Nat,
      EqvGen (Pairs (⟨[7, 7, 8], [5], [⟨[0, 2], [1]⟩], ([0], [1])⟩ : LHG Nat Nat)) i j →
      i = j ∨ (i < 2 ∧ j < 2) := by
    intro i j he
    induction he with
    | rel a b hab =>
      obtain ⟨k, h1, h2⟩ := hab
      match k, h1, h2 with
      | 0, h1, h2 => simp at h1 h2; omega
      | k + 1, h1, _ => simp at h1
    | refl a => exact Or.inl rfl
    | symm a b _ ih => omega
    | trans a b c _ _ ih1 ih2 => omega
  rcases key i j he with hij | ⟨hi, hj⟩
  · rw [hij]
  · have : i = 0 ∨ i = 1 := by omega
    have : j = 0 ∨ j = 1 := by omega
    rcases ‹i = 0 ∨ i = 1› with rfl | rfl <;> rcases ‹j = 0 ∨ j = 1› with rfl | rfl <;> rfl

/-! ## failure -/

/-- On a well-formed diagram `quotient()` never panics and never answers `none`; it returns
    `Err(q)` iff some class of the generated equivalence contains two different labels, and
    `Ok(q)` otherwise.  In both cases `q` is the coequalizer of the recorded pairs. -/
theorem quotient_err_iff [DecidableEq O] (B : Backend) (hB : B.Lawful) (h : LHG O A)
    (hwf : h.wf = true) :
    ((∃ q h', LHG.quotientH B h = .ok (false, q, h')) ↔ ¬ LabelConsistent h) ∧
    ((∃ q h', LHG.quotientH B h = .ok (true, q, h')) ↔ LabelConsistent h) ∧
    (¬ LabelConsistent h → ∃ q : FinFun, LHG.quotientH B h = .ok (false, q, h) ∧
      q.table.length = h.nodes.length ∧
      (∀ c : Nat, c < q.target → ∃ i : Nat, i < h.nodes.length ∧ q.table[i]? = some c) ∧
      (∀ i j : Nat, i < h.nodes.length → j < h.nodes.length →
        (q.table[i]? = q.table[j]? ↔ EqvGen (Pairs h) i j))) ∧
    (∀ s, LHG.quotientH B h ≠ .panic s) ∧ LHG.quotientH B h ≠ .none := by
  have hw := (LaxEdit.wf_iff h).mp hwf
  by_cases hc : LabelConsistent h
  · obtain ⟨q, h', hr, _⟩ := quotient_ok B hB h hwf hc
    rw [hr]
    refine ⟨?_, ?_, fun hn => absurd hc hn, by simp, by simp⟩
    · simp [hc]
    · simp [hc]
  · obtain ⟨q, hq, hlen, hqw, hsurj, honto, hker⟩ := coequalizer_ok B hB h hw
    have hconst : ¬ ConstOnFibres q h.nodes := fun hcf =>
      hc ((constOnFibres_iff h hw q hlen hker).mp hcf)
    obtain ⟨_, hu, _⟩ := C06.universal_spec B q hqw hsurj h.nodes
    have hr := (quotientH_eval B h hw q hq hlen).2 (hu (by rw [source, hlen]) hconst)
    rw [hr]
    refine ⟨?_, ?_, fun _ => ⟨q, rfl, hlen, honto, hker⟩, by simp, by simp⟩
    · simp only [hc, not_false_eq_true, iff_true]
      exact ⟨q, h, rfl⟩
    · simp [hc]

/-- an inconsistent recording: `0 ~ 1` but the labels differ; the diagram is returned intact -/
example : (⟨[7, 9, 8], [5], [⟨[0, 2], [1]⟩], ([0], [1])⟩ : LHG Nat Nat).wf = true ∧
    LHG.quotientH vecBackend (⟨[7, 9, 8], [5], [⟨[0, 2], [1]⟩], ([0], [1])⟩ : LHG Nat Nat) =
      .ok (false, ⟨[0, 0, 1], 2⟩, ⟨[7, 9, 8], [5], [⟨[0, 2], [1]⟩], ([0], [1])⟩) := by decide
example : ¬ LabelConsistent (⟨[7, 9, 8], [5], [⟨[0, 2], [1]⟩], ([0], [1])⟩ : LHG Nat Nat) := by
  intro hc
  have := hc 0 1 (EqvGen.rel _ _ ⟨0, rfl, rfl⟩)
  simp at this

/-! ## quotienting twice -/

/-- Quotienting a well-formed diagram WITHOUT pending unifications (in particular: the result
    of a successful quotient) succeeds; the map `q₂` is a bijective renumbering of the nodes
    (its table is a permutation of `0..n`), and the result is the same diagram renumbered by
    `q₂`.  An arbitrary lawful backend may choose any renumbering here. -/
theorem quotient_strict [DecidableEq O] (B : Backend) (hB : B.Lawful) (h : LHG O A)
    (hwf : h.wf = true) (hq : h.quotient = ([], [])) :
    ∃ (q₂ : FinFun) (h₂ : LHG O A),
      LHG.quotientH B h = .ok (true, q₂, h₂) ∧
      q₂.target = h.nodes.length ∧ h₂.nodes.length = h.nodes.length ∧
      q₂.table.Perm (List.range h.nodes.length) ∧
      (∀ i : Nat, i < h.nodes.length → h₂.nodes[q₂.table.getD i 0]? = h.nodes[i]?) ∧
      h₂.edges = h.edges ∧ h₂.adjacency = h.adjacency.map (mapEdge q₂) ∧
      h₂.quotient = ([], []) ∧ h₂.wf = true := by
  have hc : LabelConsistent h := by
    intro i j he
    rw [eqvGen_nopairs h hq he]
  obtain ⟨q, h', hr, hlen, htgt, hin, honto, hker, hlab, hed, hadj, hq', hwf'⟩ :=
    quotient_ok B hB h hwf hc
  have hnd : q.table.Nodup := by
    rw [nodup_iff_inj]
    intro i j hi hj hij
    rw [hlen] at hi hj
    exact eqvGen_nopairs h hq ((hker i j hi hj).mp hij)
  have hperm : q.table.Perm (List.range h'.nodes.length) := by
    rw [List.perm_ext_iff_of_nodup hnd List.nodup_range]
    intro c
    rw [List.mem_range]
    constructor
    · intro hcm
      obtain ⟨i, hi⟩ := List.mem_iff_getElem?.mp hcm
      have hil : i < h.nodes.length := by
        rw [← hlen]; exact (List.getElem?_eq_some_iff.mp hi).1
      obtain ⟨c', hc1, hc2⟩ := hin i hil
      rw [hi] at hc1
      cases hc1
      exact hc2
    · intro hcl
      obtain ⟨i, _, hi⟩ := honto c hcl
      exact List.mem_of_getElem? hi
  have hn : h'.nodes.length = h.nodes.length := by
    have := hperm.length_eq
    rw [List.length_range, hlen] at this
    exact this.symm
  refine ⟨q, h', hr, by rw [htgt, hn], hn, by rw [← hn]; exact hperm, hlab, hed, hadj, hq', hwf'⟩

/-- `quotient(); quotient()`: after a successful quotient of a well-formed diagram the second
    call succeeds as well and only renumbers the nodes bijectively -/
theorem quotient_idem [DecidableEq O] (B : Backend) (hB : B.Lawful) (h h' : LHG O A) (q : FinFun)
    (hwf : h.wf = true) (hr : LHG.quotientH B h = .ok (true, q, h')) :
    ∃ (q₂ : FinFun) (h₂ : LHG O A),
      LHG.quotientH B h' = .ok (true, q₂, h₂) ∧
      q₂.target = h'.nodes.length ∧ h₂.nodes.length = h'.nodes.length ∧
      q₂.table.Perm (List.range h'.nodes.length) ∧
      (∀ i : Nat, i < h'.nodes.length → h₂.nodes[q₂.table.getD i 0]? = h'.nodes[i]?) ∧
      h₂.edges = h'.edges ∧ h₂.adjacency = h'.adjacency.map (mapEdge q₂) ∧
      h₂.quotient = ([], []) ∧ h₂.wf = true := by
  have hc : LabelConsistent h := ((quotient_err_iff B hB h hwf).2.1).mp ⟨q, h', hr⟩
  obtain ⟨q0, h0, hr0, _, _, _, _, _, _, _, _, hq0, hwf0⟩ := quotient_ok B hB h hwf hc
  rw [hr] at hr0
  simp only [Res.ok.injEq, Prod.mk.injEq, true_and] at hr0
  obtain ⟨rfl, rfl⟩ := hr0
  exact quotient_strict B hB h' hwf0 hq0

/-- for a backend that numbers the edgeless graph by the identity — in particular the Vec
    backend, the only one the lax code uses — quotienting again changes NOTHING and returns the
    identity map -/
theorem quotient_idem_vec [DecidableEq O] (B : Backend) (hB : B.Lawful) (hid : LaxStrict.IdCC B)
    (h h' : LHG O A) (q : FinFun) (hwf : h.wf = true)
    (hr : LHG.quotientH B h = .ok (true, q, h')) :
    LHG.quotientH B h' = .ok (true, ⟨List.range h'.nodes.length, h'.nodes.length⟩, h') := by
  have hc : LabelConsistent h := ((quotient_err_iff B hB h hwf).2.1).mp ⟨q, h', hr⟩
  obtain ⟨q0, h0, hr0, _, _, _, _, _, _, _, _, hq0, hwf0⟩ := quotient_ok B hB h hwf hc
  rw [hr] at hr0
  simp only [Res.ok.injEq, Prod.mk.injEq, true_and] at hr0
  obtain ⟨rfl, rfl⟩ := hr0
  exact LaxStrict.quotientH_nopending B hid h' hq0 ((LaxStrict.lhg_wf_iff h').mp hwf0).2.1

theorem quotient_idem_vecBackend [DecidableEq O] (h h' : LHG O A) (q : FinFun) (hwf : h.wf = true)
    (hr : LHG.quotientH vecBackend h = .ok (true, q, h')) :
    LHG.quotientH vecBackend h' =
      .ok (true, ⟨List.range h'.nodes.length, h'.nodes.length⟩, h') :=
  quotient_idem_vec vecBackend vecBackend_lawful LaxStrict.vecBackend_idCC h h' q hwf hr

example : LHG.quotientH vecBackend (⟨[7, 8], [5], [⟨[0, 1], [0]⟩], ([], [])⟩ : LHG Nat Nat) =
    .ok (true, ⟨[0, 1], 2⟩, ⟨[7, 8], [5], [⟨[0, 1], [0]⟩], ([], [])⟩) := by decide

/-! ### the renumbering in `quotient_idem` is genuinely free for a general lawful backend -/

/-- a lawful backend that numbers components in the opposite order of the Vec backend -/
def revBackend : Backend :=
  { vecBackend with
    cc := fun s t n =>
      ((vecBackend.cc s t n).1.map (fun l => (vecBackend.cc s t n).2 - 1 - l), (vecBackend.cc s t n).2) }

theorem revBackend_lawful : revBackend.Lawful := by
  have hv := vecBackend_lawful
  refine { hv with cc_length := ?_, cc_lt := ?_, cc_onto := ?_, cc_kernel := ?_ }
  · intro s t n hl hs ht
    show ((vecBackend.cc s t n).1.map _).length = n
    rw [List.length_map]; exact hv.cc_length s t n hl hs ht
  · intro s t n hl hs ht l hm
    obtain ⟨l0, h0, rfl⟩ := List.mem_map.mp hm
    have := hv.cc_lt s t n hl hs ht l0 h0
    show (vecBackend.cc s t n).2 - 1 - l0 < (vecBackend.cc s t n).2
    omega
  · intro s t n hl hs ht c hc
    have hc' : c < (vecBackend.cc s t n).2 := hc
    have := hv.cc_onto s t n hl hs ht ((vecBackend.cc s t n).2 - 1 - c) (by omega)
    show c ∈ (vecBackend.cc s t n).1.map _
    exact List.mem_map.mpr ⟨_, this, by omega⟩
  · intro s t n hl hs ht i j hi hj
    rw [← hv.cc_kernel s t n hl hs ht i j hi hj]
    show ((vecBackend.cc s t n).1.map _)[i]? = ((vecBackend.cc s t n).1.map _)[j]? ↔ _
    have hlen := hv.cc_length s t n hl hs ht
    have hi' : i < (vecBackend.cc s t n).1.length := by rw [hlen]; exact hi
    have hj' : j < (vecBackend.cc s t n).1.length := by rw [hlen]; exact hj
    have h1 := hv.cc_lt s t n hl hs ht _ (List.getElem_mem hi')
    have h2 := hv.cc_lt s t n hl hs ht _ (List.getElem_mem hj')
    simp only [List.getElem?_map, List.getElem?_eq_getElem hi', List.getElem?_eq_getElem hj',
      Option.map_some, Option.some.injEq]
    omega

/-- with `revBackend` quotienting a diagram that has NO pending unifications swaps its two nodes:
    for a general lawful backend "quotienting again changes nothing" holds only up to the
    bijective renumbering of `quotient_strict` -/
example : LHG.quotientH revBackend (⟨[7, 8], [5], [⟨[0, 1], [0]⟩], ([], [])⟩ : LHG Nat Nat) =
    .ok (true, ⟨[1, 0], 2⟩, ⟨[8, 7], [5], [⟨[1, 0], [1]⟩], ([], [])⟩) := by decide

/-- failing explicitly: two connected nodes with different labels -/
theorem not_labelConsistent_iff (h : LHG O A) :
    ¬ LabelConsistent h ↔ ∃ i j : Nat, EqvGen (Pairs h) i j ∧ h.nodes[i]? ≠ h.nodes[j]? := by
  unfold LabelConsistent
  constructor
  · intro hn
    apply Classical.byContradiction
    intro hc
    apply hn
    intro i j he
    apply Classical.byContradiction
    intro hne
    exact hc ⟨i, j, he, hne⟩
  · rintro ⟨i, j, he, hne⟩ hc
    exact hne (hc i j he)

/-! ## the open version -/

/-- `OpenHypergraph::quotient` on a well-formed diagram: never a panic or `none`; `Err(q)` iff the
    labels are inconsistent, and then the diagram (interfaces included) is returned unchanged;
    otherwise `Ok(q)` with the hypergraph quotiented as in `quotient_ok` and BOTH interfaces
    mapped through `q` elementwise. -/
theorem quotient_open [DecidableEq O] (B : Backend) (hB : B.Lawful) (f : LOHG O A)
    (hwf : f.wf = true) :
    (LabelConsistent f.hypergraph →
      ∃ (q : FinFun) (h' : LHG O A),
        LHG.quotientH B f.hypergraph = .ok (true, q, h') ∧
        LOHG.quotient B f =
          .ok (true, q, ⟨f.sources.map (fun i => q.table.getD i 0),
                         f.targets.map (fun i => q.table.getD i 0), h'⟩) ∧
        (⟨f.sources.map (fun i => q.table.getD i 0),
          f.targets.map (fun i => q.table.getD i 0), h'⟩ : LOHG O A).wf = true) ∧
    (¬ LabelConsistent f.hypergraph →
      ∃ q : FinFun, LHG.quotientH B f.hypergraph = .ok (false, q, f.hypergraph) ∧
        LOHG.quotient B f = .ok (false, q, f)) ∧
    ((∃ q f', LOHG.quotient B f = .ok (false, q, f')) ↔ ¬ LabelConsistent f.hypergraph) ∧
    (∀ s, LOHG.quotient B f ≠ .panic s) ∧ LOHG.quotient B f ≠ .none := by
  have hw := (owf_iff f).mp hwf
  have hhwf : f.hypergraph.wf = true := (LaxEdit.wf_iff _).mpr hw.hg
  have hok : LabelConsistent f.hypergraph →
      ∃ (q : FinFun) (h' : LHG O A),
        LHG.quotientH B f.hypergraph = .ok (true, q, h') ∧
        LOHG.quotient B f =
          .ok (true, q, ⟨f.sources.map (fun i => q.table.getD i 0),
                         f.targets.map (fun i => q.table.getD i 0), h'⟩) ∧
        (⟨f.sources.map (fun i => q.table.getD i 0),
          f.targets.map (fun i => q.table.getD i 0), h'⟩ : LOHG O A).wf = true := by
    intro hc
    obtain ⟨q, h', hr, hlen, htgt, hin, _, _, _, _, _, _, hwf'⟩ :=
      quotient_ok B hB f.hypergraph hhwf hc
    have hlt : ∀ i : Nat, i < f.hypergraph.nodes.length → q.table.getD i 0 < h'.nodes.length := by
      intro i hi
      obtain ⟨c, hc1, hc2⟩ := hin i hi
      have : i < q.table.length := by rw [hlen]; exact hi
      simp only [List.getD, List.getElem?_eq_getElem this, Option.getD_some]
      rw [List.getElem?_eq_getElem this] at hc1
      cases hc1
      exact hc2
    refine ⟨q, h', hr, ?_, ?_⟩
    · unfold LOHG.quotient
      rw [hr]
      simp only [Res.ok_bind, Bool.not_true, Bool.false_eq_true, if_false]
      rw [mapM_get_getD _ _ (fun i hi => by rw [hlen]; exact hw.src i hi),
        mapM_get_getD _ _ (fun i hi => by rw [hlen]; exact hw.tgt i hi)]
      rfl
    · rw [owf_iff]
      refine ⟨(LaxEdit.wf_iff _).mp hwf', ?_, ?_⟩
      · intro x hx
        obtain ⟨i, hi, rfl⟩ := List.mem_map.mp hx
        exact hlt i (hw.src i hi)
      · intro x hx
        obtain ⟨i, hi, rfl⟩ := List.mem_map.mp hx
        exact hlt i (hw.tgt i hi)
  have herr : ¬ LabelConsistent f.hypergraph →
      ∃ q : FinFun, LHG.quotientH B f.hypergraph = .ok (false, q, f.hypergraph) ∧
        LOHG.quotient B f = .ok (false, q, f) := by
    intro hc
    obtain ⟨q, hr, _⟩ := (quotient_err_iff B hB f.hypergraph hhwf).2.2.1 hc
    refine ⟨q, hr, ?_⟩
    unfold LOHG.quotient
    rw [hr]
    rfl
  refine ⟨hok, herr, ?_, ?_, ?_⟩
  · constructor
    · rintro ⟨q, f', hr⟩ hc
      obtain ⟨q0, h0, _, hr0, _⟩ := hok hc
      rw [hr0] at hr
      simp at hr
    · intro hc
      obtain ⟨q, _, hr⟩ := herr hc
      exact ⟨q, f, hr⟩
  · intro s
    by_cases hc : LabelConsistent f.hypergraph
    · obtain ⟨q0, h0, _, hr0, _⟩ := hok hc
      rw [hr0]; simp
    · obtain ⟨q, _, hr⟩ := herr hc
      rw [hr]; simp
  · by_cases hc : LabelConsistent f.hypergraph
    · obtain ⟨q0, h0, _, hr0, _⟩ := hok hc
      rw [hr0]; simp
    · obtain ⟨q, _, hr⟩ := herr hc
      rw [hr]; simp

example : (⟨[0, 2], [1], ⟨[7, 7, 8], [5], [⟨[0, 2], [1]⟩], ([0], [1])⟩⟩ : LOHG Nat Nat).wf = true ∧
    LOHG.quotient vecBackend (⟨[0, 2], [1], ⟨[7, 7, 8], [5], [⟨[0, 2], [1]⟩], ([0], [1])⟩⟩ : LOHG Nat Nat) =
      .ok (true, ⟨[0, 0, 1], 2⟩, ⟨[0, 1], [0], ⟨[7, 8], [5], [⟨[0, 1], [0]⟩], ([], [])⟩⟩) := by decide

end OH.C09
