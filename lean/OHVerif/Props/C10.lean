/-
  C10 — lax and strict representations agree and convert losslessly (equational part).

  * `fromStrict` unpacks the two segmented incidence arrays into per-edge lists; `toStrict` of a
    lax diagram WITHOUT pending unifications packs them back; the two are mutually inverse.
    The round trips are equalities for every backend whose component numbering of the edgeless
    graph is the identity numbering (`IdCC`, true for `vecBackend`).  For an arbitrary lawful
    backend that numbering is only a permutation, so the round trip holds up to isomorphism:
    `to_from_strict_lawful`, `from_to_strict_lawful`.
  * definedness and the exact result of `lax_compose` / `compose`.
  * the in-place variants produce the same data as the pure ones.
-/
import OHVerif.Lemmas.LaxStrict
import OHVerif.Spec.Diagram

namespace OH.C10
open OH OH.LaxStrict

variable {O A : Type}

/-! ### the hypothesis on the backend -/

/-- the Vec backend numbers the components of an edgeless graph by the identity -/
theorem vecBackend_idCC : IdCC vecBackend := LaxStrict.vecBackend_idCC

example : vecBackend.cc [] [] 4 = ([0, 1, 2, 3], 4) := by decide

/-! ### strict → lax -/

/-- `from_strict` of a well-formed strict diagram: same nodes, edge labels and interface tables,
    one adjacency entry per hyperedge holding its source and target segment, no pending
    unification; the result is a well-formed lax diagram -/
theorem fromStrict_spec (f : OHG O A) (hwf : f.wf = true) :
    LOHG.fromStrict f = .ok (unpack f) ∧ (unpack f).wf = true ∧
    (unpack f).hypergraph.quotient = ([], []) ∧
    (unpack f).sources = f.s.table ∧ (unpack f).targets = f.t.table ∧
    (unpack f).hypergraph.nodes = f.h.w ∧ (unpack f).hypergraph.edges = f.h.x ∧
    (unpack f).hypergraph.adjacency.map (·.sources) = f.h.s.segs ∧
    (unpack f).hypergraph.adjacency.map (·.targets) = f.h.t.segs := by
  obtain ⟨hh, _, _, _, _⟩ := (ohg_wf_iff f).1 hwf
  obtain ⟨hsw, htw, hsl, htl, _, _⟩ := (hg_wf_iff _).1 hh
  obtain ⟨hsvalid, _, _⟩ := (ic_wf_iff _).1 hsw
  obtain ⟨htvalid, _, _⟩ := (ic_wf_iff _).1 htw
  have hs := ((IC.valid_iff _).1 hsvalid).2
  have ht := ((IC.valid_iff _).1 htvalid).2
  have hlen : f.h.s.segs.length = f.h.t.segs.length := by
    rw [IC.segs_length, IC.segs_length, hsl, htl]
  exact ⟨lohg_fromStrict_eq f (Nat.le_of_eq hs) (Nat.le_of_eq ht), unpack_wf f hwf, rfl, rfl, rfl,
    rfl, rfl, zipWith_mk_sources _ _ hlen, zipWith_mk_targets _ _ hlen⟩

/-! ### lax → strict, no pending unification -/

/-- `to_strict` of a well-formed lax diagram without pending unifications packs its data
    (`IC.ofSegs` of the source lists / target lists) and the result is well-formed -/
theorem toStrict_spec [DecidableEq O] (B : Backend) (hB : IdCC B) (d : LOHG O A)
    (hwf : d.wf = true) (hq : d.hypergraph.quotient = ([], [])) :
    LOHG.toStrict B d = .ok (pack d) ∧ (pack d).wf = true ∧
    (pack d).s = ⟨d.sources, d.hypergraph.nodes.length⟩ ∧
    (pack d).t = ⟨d.targets, d.hypergraph.nodes.length⟩ ∧
    (pack d).h.w = d.hypergraph.nodes ∧ (pack d).h.x = d.hypergraph.edges ∧
    (pack d).h.s.segs = d.hypergraph.adjacency.map (·.sources) ∧
    (pack d).h.t.segs = d.hypergraph.adjacency.map (·.targets) :=
  ⟨toStrict_nopending B hB d hwf hq, pack_wf d hwf, rfl, rfl, rfl, rfl, IC.segs_ofSegs _ _,
    IC.segs_ofSegs _ _⟩

/-! ### round trips (equalities) -/

/-- strict → lax → strict is the identity -/
theorem to_from_strict [DecidableEq O] (B : Backend) (hB : IdCC B) (f : OHG O A)
    (hwf : f.wf = true) : (LOHG.fromStrict f >>= LOHG.toStrict B) = .ok f := by
  rw [(fromStrict_spec f hwf).1]
  simp only [Res.ok_bind]
  rw [toStrict_nopending B hB _ (unpack_wf f hwf) rfl, pack_unpack f hwf]

/-- lax (no pending unifications) → strict → lax is the identity -/
theorem from_to_strict [DecidableEq O] (B : Backend) (hB : IdCC B) (d : LOHG O A)
    (hwf : d.wf = true) (hq : d.hypergraph.quotient = ([], [])) :
    (LOHG.toStrict B d >>= LOHG.fromStrict) = .ok d := by
  rw [toStrict_nopending B hB d hwf hq]
  simp only [Res.ok_bind]
  rw [(fromStrict_spec _ (pack_wf d hwf)).1, unpack_pack d hq]

theorem to_from_strict_vec [DecidableEq O] (f : OHG O A) (hwf : f.wf = true) :
    (LOHG.fromStrict f >>= LOHG.toStrict vecBackend) = .ok f :=
  to_from_strict vecBackend vecBackend_idCC f hwf

theorem from_to_strict_vec [DecidableEq O] (d : LOHG O A) (hwf : d.wf = true)
    (hq : d.hypergraph.quotient = ([], [])) :
    (LOHG.toStrict vecBackend d >>= LOHG.fromStrict) = .ok d :=
  from_to_strict vecBackend vecBackend_idCC d hwf hq

/-! ### round trips for an arbitrary lawful backend (up to isomorphism) -/

/-- `to_strict` without pending unifications, any lawful backend: succeeds with a well-formed
    strict diagram isomorphic (by a permutation of the nodes; edges keep their order) to the
    plain reading of the lax diagram -/
theorem toStrict_lawful_spec [DecidableEq O] (B : Backend) (hB : B.Lawful) (d : LOHG O A)
    (hwf : d.wf = true) (hq : d.hypergraph.quotient = ([], [])) :
    ∃ r, LOHG.toStrict B d = .ok r ∧ r.wf = true ∧ plain d ≅ r.toPlain ∧
      r.h.x = d.hypergraph.edges := by
  obtain ⟨p, v, hp, hvlen, hvpt, hw, hts⟩ := toStrict_lawful B hB d hwf hq
  refine ⟨_, hts, pack_wf _ hw, ?_, rfl⟩
  rw [pack_toPlain]
  exact plain_iso_relabel _ v d hvlen hp.bijOn hvpt

/-- strict → lax → strict returns an isomorphic well-formed diagram for every lawful backend -/
theorem to_from_strict_lawful [DecidableEq O] (B : Backend) (hB : B.Lawful) (f : OHG O A)
    (hwf : f.wf = true) :
    ∃ r, (LOHG.fromStrict f >>= LOHG.toStrict B) = .ok r ∧ r.wf = true ∧
      f.toPlain ≅ r.toPlain ∧ r.h.x = f.h.x := by
  obtain ⟨r, hr, hrwf, hiso, hx⟩ := toStrict_lawful_spec B hB (unpack f) (unpack_wf f hwf) rfl
  refine ⟨r, ?_, hrwf, ?_, hx⟩
  · rw [(fromStrict_spec f hwf).1]; exact hr
  · rw [← unpack_plain f hwf]; exact hiso

/-- lax (no pending unifications) → strict → lax returns, for every lawful backend, a well-formed
    lax diagram without pending unifications whose plain reading is isomorphic to the original's -/
theorem from_to_strict_lawful [DecidableEq O] (B : Backend) (hB : B.Lawful) (d : LOHG O A)
    (hwf : d.wf = true) (hq : d.hypergraph.quotient = ([], [])) :
    ∃ d', (LOHG.toStrict B d >>= LOHG.fromStrict) = .ok d' ∧ d'.wf = true ∧
      d'.hypergraph.quotient = ([], []) ∧ plain d ≅ plain d' ∧
      d'.hypergraph.edges = d.hypergraph.edges := by
  obtain ⟨p, v, hp, hvlen, hvpt, hw, hts⟩ := toStrict_lawful B hB d hwf hq
  refine ⟨relabel (p.getD · 0) v d, ?_, hw, rfl, plain_iso_relabel _ v d hvlen hp.bijOn hvpt, rfl⟩
  rw [hts]
  simp only [Res.ok_bind]
  rw [(fromStrict_spec _ (pack_wf _ hw)).1, unpack_pack _ rfl]

/-- a well-formed strict diagram with two operations (one of arity 0 → 1, one 2 → 1 with a
    repeated source node), a repeated input and an unused node -/
def exF : OHG String String :=
  ⟨⟨[0, 0, 1], 4⟩, ⟨[2], 4⟩,
   ⟨⟨⟨[0, 2], 3⟩, ⟨[1, 1], 4⟩⟩, ⟨⟨[1, 1], 3⟩, ⟨[1, 2], 4⟩⟩, ["a", "b", "c", "d"], ["k", "m"]⟩⟩

/-- the same diagram in the lax representation -/
def exD : LOHG String String :=
  ⟨[0, 0, 1], [2], ⟨["a", "b", "c", "d"], ["k", "m"], [⟨[], [1]⟩, ⟨[1, 1], [2]⟩], ([], [])⟩⟩

example : exF.wf = true ∧ LOHG.fromStrict exF = .ok exD ∧ exD.wf = true ∧
    exD.hypergraph.quotient = ([], []) := by decide

example : (LOHG.toStrict vecBackend exD >>= LOHG.fromStrict) = .ok exD := by decide

/-- a lawful-looking backend that numbers the edgeless graph backwards: the round trip then
    returns a diagram that is isomorphic but NOT equal (so `IdCC` cannot be dropped from
    `to_from_strict`) -/
def revBackend : Backend :=
  { vecBackend with cc := fun s t n =>
      if s.isEmpty then ((List.range n).reverse, n) else vecBackend.cc s t n }

example : (LOHG.fromStrict exF >>= LOHG.toStrict revBackend) =
    .ok ⟨⟨[3, 3, 2], 4⟩, ⟨[1], 4⟩,
      ⟨⟨⟨[0, 2], 3⟩, ⟨[2, 2], 4⟩⟩, ⟨⟨[1, 1], 3⟩, ⟨[2, 1], 4⟩⟩, ["d", "c", "b", "a"], ["k", "m"]⟩⟩ := by
  rfl

example : ∃ r, (LOHG.fromStrict exF >>= LOHG.toStrict vecBackend) = .ok r ∧ r.wf = true ∧
    exF.toPlain ≅ r.toPlain ∧ r.h.x = exF.h.x :=
  to_from_strict_lawful vecBackend vecBackend_lawful exF (by decide)

example : ∃ d', (LOHG.toStrict vecBackend exD >>= LOHG.fromStrict) = .ok d' ∧ d'.wf = true ∧
    d'.hypergraph.quotient = ([], []) ∧ plain exD ≅ plain d' ∧
    d'.hypergraph.edges = exD.hypergraph.edges :=
  from_to_strict_lawful vecBackend vecBackend_lawful exD (by decide) rfl

/-- the hypothesis "no pending unification" cannot be dropped: the pairs are consumed -/
example :
    let d : LOHG String String := ⟨[0], [1], ⟨["a", "a"], [], [], ([0], [1])⟩⟩
    d.wf = true ∧ (LOHG.toStrict vecBackend d >>= LOHG.fromStrict) =
      .ok ⟨[0], [0], ⟨["a"], [], [], ([], [])⟩⟩ := by decide

/-! ### lax composition -/

/-- the unchecked composition is defined iff the arities match -/
theorem lax_compose_defined (f g : LOHG O A) :
    LOHG.laxCompose f g ≠ .none ↔ f.targets.length = g.sources.length := by
  rw [laxCompose_eq]
  by_cases h : f.targets.length = g.sources.length <;> simp [h]

theorem lax_compose_none_iff (f g : LOHG O A) :
    LOHG.laxCompose f g = .none ↔ f.targets.length ≠ g.sources.length := by
  rw [laxCompose_eq]
  by_cases h : f.targets.length = g.sources.length <;> simp [h]

/-- … and it never panics (no hypothesis at all) -/
theorem lax_compose_no_panic (f g : LOHG O A) (site : String) :
    LOHG.laxCompose f g ≠ .panic site := by
  rw [laxCompose_eq]
  split <;> simp

/-- the result of `lax_compose`: the tensor of the two hypergraphs (juxtaposition, `g` shifted by
    `f`'s node count `n`), then one pending unification `(f.targets[k], n + g.sources[k])` per
    boundary position appended IN ORDER after the pending unifications of the tensor; the
    sources are `f`'s, the targets are `g`'s shifted -/
theorem lax_compose_fields (f g r : LOHG O A) (h : LOHG.laxCompose f g = .ok r) :
    let n := f.hypergraph.nodes.length
    r.sources = f.sources ∧ r.targets = g.targets.map (· + n) ∧
    r.hypergraph.nodes = f.hypergraph.nodes ++ g.hypergraph.nodes ∧
    r.hypergraph.edges = f.hypergraph.edges ++ g.hypergraph.edges ∧
    r.hypergraph.adjacency = f.hypergraph.adjacency ++
      g.hypergraph.adjacency.map (fun e => ⟨e.sources.map (· + n), e.targets.map (· + n)⟩) ∧
    r.hypergraph.quotient =
      (f.hypergraph.quotient.1 ++ g.hypergraph.quotient.1.map (· + n) ++ f.targets,
       f.hypergraph.quotient.2 ++ g.hypergraph.quotient.2.map (· + n) ++ g.sources.map (· + n)) ∧
    r.hypergraph.nodes = (LOHG.tensor f g).hypergraph.nodes ∧
    r.hypergraph.edges = (LOHG.tensor f g).hypergraph.edges ∧
    r.hypergraph.adjacency = (LOHG.tensor f g).hypergraph.adjacency ∧
    r.hypergraph.quotient =
      ((LOHG.tensor f g).hypergraph.quotient.1 ++ f.targets,
       (LOHG.tensor f g).hypergraph.quotient.2 ++ g.sources.map (· + n)) := by
  rw [laxCompose_eq] at h
  split at h
  · cases h
    exact ⟨rfl, rfl, rfl, rfl, rfl, rfl, rfl, rfl, rfl, rfl⟩
  · cases h

/-- the pending pairs added by `lax_compose`, position by position (the two pending lists of a
    well-formed diagram have equal length, so the pairs of the tensor come first, untouched) -/
theorem lax_compose_pairs (f g r : LOHG O A) (h : LOHG.laxCompose f g = .ok r)
    (hl : (LOHG.tensor f g).hypergraph.quotient.1.length =
      (LOHG.tensor f g).hypergraph.quotient.2.length) :
    r.hypergraph.quotient.1.zip r.hypergraph.quotient.2 =
      (LOHG.tensor f g).hypergraph.quotient.1.zip (LOHG.tensor f g).hypergraph.quotient.2 ++
        (f.targets.zip (g.sources.map (· + f.hypergraph.nodes.length))) := by
  have := (lax_compose_fields f g r h).2.2.2.2.2.2.2.2.2
  rw [this]
  exact List.zip_append hl

/-- closed form of the checked composition on well-formed arguments -/
theorem compose_eq [DecidableEq O] (f g : LOHG O A) (hf : f.wf = true) (hg : g.wf = true) :
    LOHG.compose f g = if f.target = g.source then LOHG.laxCompose f g else .none := by
  obtain ⟨_, _, hft⟩ := (lohg_wf_iff f).1 hf
  obtain ⟨_, hgs, _⟩ := (lohg_wf_iff g).1 hg
  unfold LOHG.compose
  rw [target_eq, source_eq, if_pos hft, if_pos hgs]
  simp only [Res.ok_bind, ne_eq, Res.ok.injEq]
  by_cases h : Prim.gatherP f.hypergraph.nodes f.targets = Prim.gatherP g.hypergraph.nodes g.sources
  · simp [h]
  · simp [h]

/-- on well-formed arguments the boundary types are defined … -/
theorem type_ok (f : LOHG O A) (hf : f.wf = true) :
    f.source = .ok (Prim.gatherP f.hypergraph.nodes f.sources) ∧
    f.target = .ok (Prim.gatherP f.hypergraph.nodes f.targets) ∧
    (Prim.gatherP f.hypergraph.nodes f.sources).map some = f.sources.map (f.hypergraph.nodes[·]?) ∧
    (Prim.gatherP f.hypergraph.nodes f.targets).map some = f.targets.map (f.hypergraph.nodes[·]?) := by
  obtain ⟨_, hs, ht⟩ := (lohg_wf_iff f).1 hf
  exact ⟨by rw [source_eq, if_pos hs], by rw [target_eq, if_pos ht],
    Prim.gatherP_eq_map _ _ hs, Prim.gatherP_eq_map _ _ ht⟩

/-- … and matching types have matching arities -/
theorem arity_of_type [DecidableEq O] (f g : LOHG O A) (hf : f.wf = true) (hg : g.wf = true)
    (h : f.target = g.source) : f.targets.length = g.sources.length := by
  obtain ⟨_, _, hft⟩ := (lohg_wf_iff f).1 hf
  obtain ⟨_, hgs, _⟩ := (lohg_wf_iff g).1 hg
  rw [(type_ok f hf).2.1, (type_ok g hg).1, Res.ok.injEq] at h
  have := congrArg List.length h
  rwa [Prim.gatherP_length _ _ hft, Prim.gatherP_length _ _ hgs] at this

/-- the checked composition of well-formed lax diagrams is defined iff the types match -/
theorem compose_defined [DecidableEq O] (f g : LOHG O A) (hf : f.wf = true) (hg : g.wf = true) :
    LOHG.compose f g ≠ .none ↔ f.target = g.source := by
  rw [compose_eq f g hf hg]
  by_cases h : f.target = g.source
  · simp only [h, if_true]
    rw [lax_compose_defined]
    simpa using arity_of_type f g hf hg h
  · simp [h]

/-- … never panics … -/
theorem compose_no_panic [DecidableEq O] (f g : LOHG O A) (hf : f.wf = true) (hg : g.wf = true)
    (site : String) : LOHG.compose f g ≠ .panic site := by
  rw [compose_eq f g hf hg]
  split
  · exact lax_compose_no_panic f g site
  · simp

/-- … and when defined is the unchecked composition -/
theorem compose_ok_iff [DecidableEq O] (f g r : LOHG O A) (hf : f.wf = true) (hg : g.wf = true) :
    LOHG.compose f g = .ok r ↔ f.target = g.source ∧ LOHG.laxCompose f g = .ok r := by
  rw [compose_eq f g hf hg]
  by_cases h : f.target = g.source <;> simp [h]

/-- outside well-formedness an interface entry that is not a node makes `compose` panic (the
    unchecked `lax_compose` still answers) -/
example :
    let f : LOHG String String := ⟨[], [5], ⟨["a"], [], [], ([], [])⟩⟩
    let g : LOHG String String := ⟨[0], [], ⟨["a"], [], [], ([], [])⟩⟩
    LOHG.compose f g = .panic "get:index" ∧ (LOHG.laxCompose f g).isOk = true := by decide

example :
    let f : LOHG String String := ⟨[0], [1, 1], ⟨["a", "b"], ["k"], [⟨[0], [1]⟩], ([], [])⟩⟩
    let g : LOHG String String := ⟨[0, 1], [0], ⟨["b", "b"], [], [], ([0], [1])⟩⟩
    let g' : LOHG String String := ⟨[0, 1], [0], ⟨["b", "c"], [], [], ([], [])⟩⟩
    f.wf = true ∧ g.wf = true ∧ g'.wf = true ∧ f.target = g.source ∧
    LOHG.compose f g = .ok ⟨[0], [2], ⟨["a", "b", "b", "b"], ["k"], [⟨[0], [1]⟩],
      ([2, 1, 1], [3, 2, 3])⟩⟩ ∧
    LOHG.compose f g' = .none ∧ (LOHG.laxCompose f g').isOk = true ∧
    LOHG.laxCompose f f = .none := by decide

/-! ### in-place variants (also stated in `OH.C02`) -/

theorem tensorAssign_eq (f g : LOHG O A) : LOHG.tensorAssign f g = LOHG.tensor f g := rfl

theorem coproductAssign_eq (g h : LHG O A) : LHG.coproductAssign g h = LHG.coproduct g h := rfl

/-- `append` leaves the interfaces of the receiver alone, replaces its hypergraph by the coproduct
    and returns the shifted interfaces of the argument (exactly the part of the tensor's
    interfaces contributed by the argument) -/
theorem append_eq (f g : LOHG O A) :
    LOHG.append f g =
      (⟨f.sources, f.targets, (LOHG.tensor f g).hypergraph⟩,
       ((LOHG.tensor f g).sources.drop f.sources.length,
        (LOHG.tensor f g).targets.drop f.targets.length)) := by
  simp [LOHG.append, LOHG.tensor, LHG.coproductAssign]

/-! ### strictification commutes with the operations: what holds ON THE NOSE

For diagrams without pending unifications and a backend with the identity numbering (`IdCC`, e.g.
the Vec backend) strictification is literally `pack`, and it commutes with identity, dagger,
tensor, spiders and symmetries as an EQUALITY of data. -/

theorem strict_identity [DecidableEq O] (B : Backend) (hB : IdCC B) (a : List O) :
    LOHG.toStrict B (LOHG.identity a : LOHG O A) = OHG.identity a := by
  rw [toStrict_nopending B hB _ (by simp [LOHG.wf, LHG.wf, LOHG.identity, LHG.discrete, LHG.empty]; intro x hx; exact decide_eq_true hx)
    rfl]
  simp [OHG.identity, FinFun.identity_eq, pack, LOHG.identity, LHG.discrete, LHG.empty, HG.discrete,
    IC.ofSegs, IC.initial, FinFun.initial]

theorem strict_dagger [DecidableEq O] (B : Backend) (hB : IdCC B) (d : LOHG O A)
    (hwf : d.wf = true) (hq : d.hypergraph.quotient = ([], [])) :
    LOHG.toStrict B d.dagger = (LOHG.toStrict B d >>= fun r => .ok r.dagger) := by
  have hwf' : d.dagger.wf = true := by
    obtain ⟨h1, h2, h3⟩ := (lohg_wf_iff d).1 hwf
    exact (lohg_wf_iff _).2 ⟨h1, h3, h2⟩
  rw [toStrict_nopending B hB d hwf hq, toStrict_nopending B hB d.dagger hwf' hq]
  rfl

theorem strict_tensor [DecidableEq O] (B : Backend) (hB : IdCC B) (d1 d2 : LOHG O A)
    (h1 : d1.wf = true) (h2 : d2.wf = true) (q1 : d1.hypergraph.quotient = ([], []))
    (q2 : d2.hypergraph.quotient = ([], [])) :
    LOHG.toStrict B (LOHG.tensor d1 d2) =
      (do let a ← LOHG.toStrict B d1; let b ← LOHG.toStrict B d2; OHG.tensor a b) := by
  have hq : (LOHG.tensor d1 d2).hypergraph.quotient = ([], []) := by
    simp [LOHG.tensor, LHG.coproduct, q1, q2]
  rw [toStrict_nopending B hB d1 h1 q1, toStrict_nopending B hB d2 h2 q2,
    toStrict_nopending B hB _ (tensor_wf d1 d2 h1 h2) hq]
  simp only [Res.ok_bind, tensor_pack]

/-- strictifying a lax spider gives the strict spider (same definedness, same value) -/
theorem strict_spider [DecidableEq O] (B : Backend) (hB : IdCC B) (s t : FinFun) (w : List O)
    (hs : s.WF) (ht : t.WF) :
    (LOHG.spider s t w >>= LOHG.toStrict B) = (OHG.spider s t w : Res (OHG O A)) := by
  by_cases h : s.target = w.length ∧ t.target = w.length
  · have hwf : (⟨s, t, HG.discrete w⟩ : OHG O A).wf = true := by
      rw [ohg_wf_iff]
      exact ⟨by simp [HG.wf, HG.discrete, IC.wf, IC.initial, FinFun.initial, IC.valid, Prim.sum,
        FinFun.wf, IC.len, FinFun.source], hs, ht, h.1, h.2⟩
    have e1 : (LOHG.spider s t w : Res (LOHG O A)) = .ok (unpack ⟨s, t, HG.discrete w⟩) := by
      unfold LOHG.spider
      rw [if_neg (by omega)]
      rfl
    have e2 : (OHG.spider s t w : Res (OHG O A)) = .ok ⟨s, t, HG.discrete w⟩ := by
      unfold OHG.spider
      rw [if_neg (by omega)]
    rw [e1, e2]
    simp only [Res.ok_bind]
    rw [toStrict_nopending B hB _ (unpack_wf _ hwf) rfl, pack_unpack _ hwf]
  · have e1 : (LOHG.spider s t w : Res (LOHG O A)) = .none := by
      unfold LOHG.spider
      rw [if_pos (by omega)]
    have e2 : (OHG.spider s t w : Res (OHG O A)) = .none := by
      unfold OHG.spider
      rw [if_pos (by omega)]
    rw [e1, e2]
    rfl

/-- strictifying the lax symmetry gives the strict symmetry -/
theorem strict_twist [DecidableEq O] (B : Backend) (hB : IdCC B) (a b : List O) :
    (LOHG.twist a b >>= LOHG.toStrict B) = (OHG.twist a b : Res (OHG O A)) := by
  have htw : (OHG.twist a b : Res (OHG O A)) =
      .ok ⟨⟨List.range' b.length a.length ++ List.range b.length, a.length + b.length⟩,
        ⟨List.range (a.length + b.length), a.length + b.length⟩, HG.discrete (b ++ a)⟩ := by
    simp [OHG.twist, FinFun.identity_eq, FinFun.twist_eq]
  have hwf : (⟨⟨List.range' b.length a.length ++ List.range b.length, a.length + b.length⟩,
        ⟨List.range (a.length + b.length), a.length + b.length⟩,
        HG.discrete (b ++ a)⟩ : OHG O A).wf = true := by
    rw [ohg_wf_iff]
    refine ⟨by simp [HG.wf, HG.discrete, IC.wf, IC.initial, FinFun.initial, IC.valid, Prim.sum,
      FinFun.wf, IC.len, FinFun.source], ?_, ?_, by simp [HG.discrete]; omega,
      by simp [HG.discrete]; omega⟩
    · intro x hx
      simp only [List.mem_append, List.mem_range'_1, List.mem_range] at hx
      show x < a.length + b.length
      omega
    · intro x hx
      simpa using hx
  unfold LOHG.twist
  rw [htw]
  simp only [Res.ok_bind]
  exact to_from_strict B hB _ hwf

example : (LOHG.twist ["a", "b"] ["c"] >>= LOHG.toStrict vecBackend) =
    (OHG.twist ["a", "b"] ["c"] : Res (OHG String String)) := by rfl

/-- the hypotheses of `strict_dagger` / `strict_tensor` are met by `exD`, and the tensor is
    computed on the nose -/
example : exD.wf = true ∧ exD.hypergraph.quotient = ([], []) ∧
    LOHG.toStrict vecBackend (LOHG.tensor exD exD) =
      (do let a ← LOHG.toStrict vecBackend exD; let b ← LOHG.toStrict vecBackend exD
          OHG.tensor a b) :=
  ⟨by decide, rfl, strict_tensor vecBackend vecBackend_idCC exD exD (by decide) (by decide) rfl rfl⟩

/-! ### strictification commutes with the operations: the general clauses (NOT proved here)

With pending unifications strictification is the quotient by the equivalence they generate
(property C09), and the commutation only holds up to isomorphism.  The full statements are
recorded below; proving them needs the quotient characterisation of `LOHG.quotient` (owned by
`OH.C09`) together with a "quotient in stages" lemma for `IsQuot`.  The instances proved in
this file are: operands without pending unifications and an `IdCC` backend, where they hold as
equalities (`strict_identity`, `strict_dagger`, `strict_tensor`, `strict_spider`,
`strict_twist`); identity / symmetry / spiders for every lawful backend up to `≅`
(`strict_structure_lawful`); and the round trips (`to_from_strict`, `from_to_strict`, and their `_lawful`
versions up to `≅`). -/

/-- strict(f ; g) ≅ strict(f) ; strict(g) whenever the types match -/
def strict_comp_statement : Prop :=
  ∀ {O A : Type} [DecidableEq O] (B : Backend), B.Lawful → ∀ (f g : LOHG O A) (sf sg : OHG O A),
    f.wf = true → g.wf = true → LOHG.toStrict B f = .ok sf → LOHG.toStrict B g = .ok sg →
    f.target = g.source →
    ∃ c r r', LOHG.compose f g = .ok c ∧ LOHG.toStrict B c = .ok r ∧
      OHG.compose B sf sg = .ok r' ∧ r.toPlain ≅ r'.toPlain

/-- strict(f ⊗ g) ≅ strict(f) ⊗ strict(g) -/
def strict_tensor_statement : Prop :=
  ∀ {O A : Type} [DecidableEq O] (B : Backend), B.Lawful → ∀ (f g : LOHG O A) (sf sg : OHG O A),
    f.wf = true → g.wf = true → LOHG.toStrict B f = .ok sf → LOHG.toStrict B g = .ok sg →
    ∃ r r', LOHG.toStrict B (LOHG.tensor f g) = .ok r ∧ OHG.tensor sf sg = .ok r' ∧
      r.toPlain ≅ r'.toPlain

/-- strict(f†) ≅ strict(f)† -/
def strict_dagger_statement : Prop :=
  ∀ {O A : Type} [DecidableEq O] (B : Backend), B.Lawful → ∀ (f : LOHG O A) (sf : OHG O A),
    f.wf = true → LOHG.toStrict B f = .ok sf →
    ∃ r, LOHG.toStrict B f.dagger = .ok r ∧ sf.dagger.toPlain ≅ r.toPlain

/-- strict(identity), strict(symmetry), strict(spider) ≅ the strict ones, for EVERY lawful
    backend (these lax diagrams carry no pending unification, so `toStrict_lawful_spec` applies) -/
theorem strict_structure_lawful [DecidableEq O] (B : Backend) (hB : B.Lawful) :
    (∀ (a : List O) (i : OHG O A), OHG.identity a = .ok i →
      ∃ r, LOHG.toStrict B (LOHG.identity a : LOHG O A) = .ok r ∧ r.wf = true ∧
        i.toPlain ≅ r.toPlain) ∧
    (∀ (a b : List O) (x : OHG O A), OHG.twist a b = .ok x →
      ∃ r, (LOHG.twist a b >>= LOHG.toStrict B) = .ok r ∧ r.wf = true ∧ x.toPlain ≅ r.toPlain) ∧
    (∀ (s t : FinFun) (w : List O) (x : OHG O A), s.WF → t.WF → OHG.spider s t w = .ok x →
      ∃ r, (LOHG.spider s t w >>= LOHG.toStrict B) = .ok r ∧ r.wf = true ∧
        x.toPlain ≅ r.toPlain) := by
  have hdisc : ∀ w : List O, (HG.discrete w : HG O A).wf = true := fun w => by
    simp [HG.wf, HG.discrete, IC.wf, IC.initial, FinFun.initial, IC.valid, Prim.sum, FinFun.wf,
      IC.len, FinFun.source]
  -- every spider-like strict diagram `x` is handled through `unpack x`
  have key : ∀ x : OHG O A, x.wf = true →
      ∃ r, LOHG.toStrict B (unpack x) = .ok r ∧ r.wf = true ∧ x.toPlain ≅ r.toPlain := by
    intro x hx
    obtain ⟨r, hr, hrw, hiso, _⟩ := toStrict_lawful_spec B hB (unpack x) (unpack_wf x hx) rfl
    exact ⟨r, hr, hrw, by rw [← unpack_plain x hx]; exact hiso⟩
  refine ⟨?_, ?_, ?_⟩
  · intro a i hi
    have hi' : i = ⟨⟨List.range a.length, a.length⟩, ⟨List.range a.length, a.length⟩,
        HG.discrete a⟩ := by
      simp [OHG.identity, FinFun.identity_eq] at hi
      exact hi.symm
    subst hi'
    have hw : (⟨⟨List.range a.length, a.length⟩, ⟨List.range a.length, a.length⟩,
        HG.discrete a⟩ : OHG O A).wf = true := by
      rw [ohg_wf_iff]
      exact ⟨hdisc a, fun x hx => by simpa using hx, fun x hx => by simpa using hx, rfl, rfl⟩
    exact key _ hw
  · intro a b x hx
    have hx' : x = ⟨⟨List.range' b.length a.length ++ List.range b.length, a.length + b.length⟩,
        ⟨List.range (a.length + b.length), a.length + b.length⟩, HG.discrete (b ++ a)⟩ := by
      simp [OHG.twist, FinFun.identity_eq, FinFun.twist_eq] at hx
      exact hx.symm
    have hw : x.wf = true := by
      subst hx'
      rw [ohg_wf_iff]
      refine ⟨hdisc _, ?_, ?_, by simp [HG.discrete]; omega, by simp [HG.discrete]; omega⟩
      · intro y hy
        simp only [List.mem_append, List.mem_range'_1, List.mem_range] at hy
        show y < a.length + b.length
        omega
      · intro y hy
        simpa using hy
    obtain ⟨hfs, _⟩ := fromStrict_spec x hw
    unfold LOHG.twist
    rw [hx]
    simp only [Res.ok_bind, hfs]
    exact key x hw
  · intro s t w x hs ht hx
    unfold OHG.spider at hx
    split at hx
    · cases hx
    · rename_i hc
      cases hx
      have hc' : s.target = w.length ∧ t.target = w.length := by omega
      have hw : (⟨s, t, HG.discrete w⟩ : OHG O A).wf = true := by
        rw [ohg_wf_iff]
        exact ⟨hdisc w, hs, ht, hc'.1, hc'.2⟩
      have e1 : (LOHG.spider s t w : Res (LOHG O A)) = .ok (unpack ⟨s, t, HG.discrete w⟩) := by
        unfold LOHG.spider
        rw [if_neg (by omega)]
        rfl
      rw [e1]
      exact key _ hw

example : ∃ r, (LOHG.twist ["a", "b"] ["c"] >>= LOHG.toStrict vecBackend) = .ok r ∧ r.wf = true ∧
    (⟨["c", "a", "b"], [], [1, 2, 0], [0, 1, 2]⟩ : PDiag String String) ≅ r.toPlain :=
  (strict_structure_lawful vecBackend vecBackend_lawful).2.1 ["a", "b"] ["c"] _ rfl

/-- strict(singleton) ≅ singleton -/
def strict_singleton_statement : Prop :=
  ∀ {O A : Type} [DecidableEq O] (B : Backend), B.Lawful → ∀ (x : A) (a b : List O) (sx : OHG O A),
    OHG.singleton x a b = .ok sx →
    ∃ r, LOHG.toStrict B (LOHG.singleton x a b) = .ok r ∧ sx.toPlain ≅ r.toPlain

end OH.C10
