/-
  C10 — the "up to isomorphism" clauses: strictification commutes with composition, tensor,
  dagger and singleton for lax diagrams that may carry PENDING unification pairs, for EVERY lawful
  backend.  These are the statements left open in `Props/C10.lean`
  (`strict_comp_statement`, `strict_tensor_statement`, `strict_dagger_statement`,
  `strict_singleton_statement`).

  The key fact is `toStrict_isQuot` (`Lemmas/LaxIso.lean`): `to_strict d` is the quotient of the
  plain reading of `d` by the recorded pairs.  The names `strict_tensor` / `strict_dagger` are
  already taken in `Props/C10.lean` (the on-the-nose versions without pending pairs), so the
  general clauses are called `strict_tensor_iso` / `strict_dagger_iso` here.
-/
import OHVerif.Lemmas.LaxIso
import OHVerif.Props.C05

namespace OH.C10
open OH OH.LaxStrict OH.LaxIso OH.C09 Relation

variable {O A : Type}

/-! ### strictification is the quotient by the recorded pairs -/

/-- `to_strict` succeeds on a well-formed lax diagram iff its recorded pairs are label-consistent
    (otherwise it panics at the `unwrap`), and then the result is well-formed, has the same edge
    labels, and is the quotient of the plain reading by the recorded pairs -/
theorem toStrict_quotient [DecidableEq O] (B : Backend) (hB : B.Lawful) (d : LOHG O A)
    (hwf : d.wf = true) :
    ((∃ r, LOHG.toStrict B d = .ok r) ↔ LabelConsistent d.hypergraph) ∧
    (¬ LabelConsistent d.hypergraph → LOHG.toStrict B d = .panic "to_strict:unwrap-quotient") ∧
    (∀ r, LOHG.toStrict B d = .ok r →
      r.wf = true ∧ IsQuot (plain d) (pairsRel d) r.toPlain ∧ r.h.x = d.hypergraph.edges) := by
  obtain ⟨h1, h2⟩ := toStrict_ok_iff B hB d hwf
  exact ⟨h1, h2, fun r hr => (toStrict_quot_of_ok B hB d r hwf hr).2⟩

example : exL.wf = true ∧ LabelConsistent exL.hypergraph ∧
    exL.hypergraph.quotient = ([0], [1]) := ⟨by decide, exL_consistent, rfl⟩

/-- an inconsistent recording: `to_strict` panics -/
example : C02.lF.wf = true ∧
    (OHG.toPlain <$> LOHG.toStrict vecBackend C02.lF) = .panic "to_strict:unwrap-quotient" := by
  decide

/-! ### tensor -/

/-- strict(f ⊗ g) ≅ strict(f) ⊗ strict(g), pending unification pairs allowed -/
theorem strict_tensor_iso : strict_tensor_statement := by
  intro O A _ B hB f g sf sg hf hg ef eg
  obtain ⟨cf, wf', qf, _⟩ := toStrict_quot_of_ok B hB f sf hf ef
  obtain ⟨cg, wg', qg, _⟩ := toStrict_quot_of_ok B hB g sg hg eg
  have hwt := tensor_wf f g hf hg
  obtain ⟨r, hr, _, qr, _⟩ := toStrict_isQuot B hB _ hwt (labelConsistent_tensor f g hf cf cg)
  obtain ⟨r', hr', _, hp', _⟩ := C03.tensor_facts sf sg wf' wg'
  refine ⟨r, r', hr, hr', ?_⟩
  rw [plain_tensor f g hf] at qr
  rw [hp']
  have q' := IsQuot.juxt (plain_wf f hf) qf qg
  refine isQuot_unique (juxt_wf (plain_wf f hf) (plain_wf g hg)) qr q' ?_
  intro i j _ _
  apply eqvOn_congr
  intro a b _ _
  exact pairs_tensor f g hf a b

/-! ### dagger -/

/-- strictification commutes with dagger ON THE NOSE, for every lawful backend and with pending
    pairs: the quotient step only looks at the hypergraph, which dagger does not touch -/
theorem strict_dagger_eq [DecidableEq O] (B : Backend) (hB : B.Lawful) (f : LOHG O A)
    (sf : OHG O A) (hf : f.wf = true) (ef : LOHG.toStrict B f = .ok sf) :
    LOHG.toStrict B f.dagger = .ok sf.dagger := by
  obtain ⟨cf, _⟩ := toStrict_quot_of_ok B hB f sf hf ef
  have hfd : f.dagger.wf = true := by
    obtain ⟨h1, h2, h3⟩ := (lohg_wf_iff f).1 hf
    exact (lohg_wf_iff _).2 ⟨h1, h3, h2⟩
  obtain ⟨q, h', hq, hts, _⟩ := toStrict_explicit B hB f hf cf
  obtain ⟨q2, h2, hq2, hts2, _⟩ := toStrict_explicit B hB f.dagger hfd cf
  have : LHG.quotientH B f.dagger.hypergraph = LHG.quotientH B f.hypergraph := rfl
  rw [this, hq] at hq2
  simp only [Res.ok.injEq, Prod.mk.injEq, true_and] at hq2
  obtain ⟨rfl, rfl⟩ := hq2
  rw [ef] at hts
  cases hts
  rw [hts2]
  rfl

/-- strict(f†) ≅ strict(f)† -/
theorem strict_dagger_iso : strict_dagger_statement := by
  intro O A _ B hB f sf hf ef
  exact ⟨sf.dagger, strict_dagger_eq B hB f sf hf ef, iso_refl _⟩

/-! ### singleton -/

theorem lax_singleton_eq (x : A) (a b : List O) :
    (LOHG.singleton x a b : LOHG O A) =
      ⟨List.range a.length, List.range' a.length b.length,
        ⟨a ++ b, [x], [⟨List.range a.length, List.range' a.length b.length⟩], ([], [])⟩⟩ := by
  unfold LOHG.singleton
  rw [LaxEdit.newOperation_eq]
  simp [LHG.empty, List.range_eq_range']

/-- strict(singleton) ≅ singleton -/
theorem strict_singleton : strict_singleton_statement := by
  intro O A _ B hB x a b sx hsx
  obtain ⟨r0, hr0, _, _, _, hp⟩ := C05.singleton_wf_type (A := A) x a b
  rw [hsx] at hr0
  cases hr0
  have hwf : (LOHG.singleton x a b : LOHG O A).wf = true := by
    rw [lax_singleton_eq, lohg_wf_iff, lhg_wf_iff]
    refine ⟨⟨rfl, ?_, rfl, by simp, by simp⟩, ?_, ?_⟩
    · intro e he
      simp only [List.mem_singleton] at he
      subst he
      constructor
      · intro i hi
        have := List.mem_range.1 hi
        simp only [List.length_append]; omega
      · intro i hi
        have := List.mem_range'_1.1 hi
        simp only [List.length_append]; omega
    · intro i hi
      have := List.mem_range.1 hi
      simp only [List.length_append]; omega
    · intro i hi
      have := List.mem_range'_1.1 hi
      simp only [List.length_append]; omega
  obtain ⟨r, hr, _, hiso, _⟩ := toStrict_lawful_spec B hB _ hwf (by rw [lax_singleton_eq])
  refine ⟨r, hr, ?_⟩
  rw [hp]
  rw [lax_singleton_eq] at hiso
  exact hiso

example : ∃ r, LOHG.toStrict vecBackend (LOHG.singleton "f" ["A", "B"] ["C"] : LOHG String String) =
      .ok r ∧
    (⟨["A", "B", "C"], [⟨"f", [0, 1], [2]⟩], [0, 1], [2]⟩ : PDiag String String) ≅ r.toPlain := by
  obtain ⟨r, h1, h2⟩ := strict_singleton (O := String) (A := String) vecBackend vecBackend_lawful "f"
    ["A", "B"] ["C"] _ rfl
  exact ⟨r, h1, h2⟩

/-! ### composition -/

/-- strict(f ; g) ≅ strict(f) ; strict(g) whenever the types match, pending pairs allowed -/
theorem strict_comp : strict_comp_statement := by
  intro O A _ B hB f g sf sg hf hg ef eg hty
  obtain ⟨cf, wf', qf, _⟩ := toStrict_quot_of_ok B hB f sf hf ef
  obtain ⟨cg, wg', qg, _⟩ := toStrict_quot_of_ok B hB g sg hg eg
  have hl := arity_of_type f g hf hg hty
  have hc : LOHG.compose f g = .ok (laxComp f g) :=
    (compose_ok_iff f g _ hf hg).2 ⟨hty, laxCompose_ok f g hl⟩
  have hwc := laxComp_wf f g hf hg hl
  obtain ⟨r, hr, _, qr, _⟩ :=
    toStrict_isQuot B hB _ hwc (labelConsistent_laxComp f g hf hg cf cg hty)
  obtain ⟨r', hr', _, hglue, _⟩ :=
    C03.compose_facts B hB sf sg wf' wg' (toStrict_types B hB f g sf sg hf hg ef eg hty)
  refine ⟨_, r, r', hc, hr, hr', ?_⟩
  rw [plain_laxComp f g hf] at qr
  have q' := isGluing_quot_both (plain_wf f hf) (plain_wf g hg) qf qg hglue
  refine isQuot_unique (gluePre_wf (plain_wf f hf) (plain_wf g hg)) qr q' ?_
  intro i j _ _
  apply eqvOn_congr
  intro a b _ _
  exact pairs_laxComp f g hf hg a b

/-! ### witnesses: both operands carry a pending pair -/

/-- `exM : [12] → [13]`, nodes `0 ~ 1` pending; composable after `LaxIso.exL : [10, 10] → [12]` -/
def exM : LOHG Nat Nat := ⟨[0], [2], ⟨[12, 12, 13], [8], [⟨[1], [2]⟩], ([0], [1])⟩⟩

/-- the hypotheses of `strict_comp` / `strict_tensor_iso` / `strict_dagger_iso` hold for
    `exL`, `exM`; both sides computed with the Vec backend (here they even coincide) -/
example : exL.wf = true ∧ exM.wf = true ∧ (LOHG.toStrict vecBackend exL).isOk = true ∧
    (LOHG.toStrict vecBackend exM).isOk = true ∧ exL.target = exM.source ∧
    LOHG.compose exL exM = .ok ⟨[0, 1], [5], ⟨[10, 10, 12, 12, 12, 13], [7, 8],
      [⟨[0, 1], [2]⟩, ⟨[4], [5]⟩], ([0, 3, 2], [1, 4, 3])⟩⟩ ∧
    (OHG.toPlain <$> (LOHG.compose exL exM >>= LOHG.toStrict vecBackend)) =
      .ok ⟨[10, 12, 13], [⟨7, [0, 0], [1]⟩, ⟨8, [1], [2]⟩], [0, 0], [2]⟩ ∧
    (OHG.toPlain <$> (do let a ← LOHG.toStrict vecBackend exL; let b ← LOHG.toStrict vecBackend exM
                         OHG.compose vecBackend a b)) =
      .ok ⟨[10, 12, 13], [⟨7, [0, 0], [1]⟩, ⟨8, [1], [2]⟩], [0, 0], [2]⟩ ∧
    (OHG.toPlain <$> LOHG.toStrict vecBackend (LOHG.tensor exL exM)) =
      .ok ⟨[10, 12, 12, 13], [⟨7, [0, 0], [1]⟩, ⟨8, [2], [3]⟩], [0, 0, 2], [1, 3]⟩ := by decide

example : ∃ c r r', LOHG.compose exL exM = .ok c ∧ LOHG.toStrict vecBackend c = .ok r ∧
    (∃ sf sg, LOHG.toStrict vecBackend exL = .ok sf ∧ LOHG.toStrict vecBackend exM = .ok sg ∧
      OHG.compose vecBackend sf sg = .ok r') ∧ r.toPlain ≅ r'.toPlain := by
  obtain ⟨sf, hsf⟩ := ((toStrict_quotient vecBackend vecBackend_lawful exL (by decide)).1).2
    exL_consistent
  have cM : LabelConsistent exM.hypergraph := by
    rw [labelConsistent_iff_gen]
    rintro a b ⟨k, h1, h2⟩
    match k, h1, h2 with
    | 0, h1, h2 =>
      simp [exM] at h1 h2
      subst h1 h2
      rfl
    | k + 1, h1, _ => simp [exM] at h1
  obtain ⟨sg, hsg⟩ := ((toStrict_quotient vecBackend vecBackend_lawful exM (by decide)).1).2 cM
  obtain ⟨c, r, r', h1, h2, h3, h4⟩ := strict_comp vecBackend vecBackend_lawful exL exM sf sg
    (by decide) (by decide) hsf hsg (by decide)
  exact ⟨c, r, r', h1, h2, ⟨sf, sg, hsf, hsg, h3⟩, h4⟩

end OH.C10
