/-
  C11 — the imperative (lax) builder API: every builder call on a lax open hypergraph is
  characterised by a closed list-level formula.  The model of `src/lax/{hypergraph,open_hypergraph}.rs`
  (Model/Lax.lean) IS the plain list model the property speaks about; the theorems below say what
  each call returns and how it changes the lists.
  Vocabulary (Lemmas/LaxEdit.lean):
    `survivors n ids` = the indices `< n` not named in `ids`, increasing;
    `rn ids i`        = the number of indices `< i` not named in `ids` (the new number of `i`).
-/
import OHVerif.Lemmas.LaxEdit

namespace OH.C11
open OH OH.LaxEdit

variable {O A : Type}

/-! ## vocabulary restated -/

theorem survivors_def (n : Nat) (ids : List Nat) :
    survivors n ids = (List.range n).filter (fun i => decide (i ∉ ids)) := by
  unfold survivors; congr 1; funext i; simp

theorem rn_def (ids : List Nat) (i : Nat) :
    rn ids i = ((List.range i).filter (fun j => decide (j ∉ ids))).length := by
  unfold rn; congr 2; funext i; simp

/-! ## the builder operations and histories -/

abbrev D := LOHG Nat Nat

/-- builder calls on a lax open hypergraph with numeric labels (`setSources`/`setTargets` are the
    assignments to the public interface fields) -/
inductive Op where
  | newNode (w : Nat)
  | newEdge (x : Nat) (s t : List Nat)
  | newOperation (x : Nat) (st tt : List Nat)
  | addEdgeSource (e w : Nat)
  | addEdgeTarget (e w : Nat)
  | unify (v w : Nat)
  | deleteNodes (ids : List Nat)
  | deleteEdges (ids : List Nat)
  | mapNodes (k : Nat)
  | mapEdges (k : Nat)
  | setSources (ids : List Nat)
  | setTargets (ids : List Nat)
  deriving Repr, DecidableEq

def withH (f : D) (h : LHG Nat Nat) : D := { f with hypergraph := h }

/-- one builder call (the state after it; the returned identifiers are the subject of the
    per-operation theorems) -/
def step (f : D) : Op → Res D
  | .newNode w => .ok (withH f (f.hypergraph.newNode w).1)
  | .newEdge x s t => .ok (withH f (f.hypergraph.newEdge x ⟨s, t⟩).1)
  | .newOperation x st tt => .ok (withH f (f.hypergraph.newOperation x st tt).1)
  | .addEdgeSource e w => f.hypergraph.addEdgeSource e w >>= fun r => .ok (withH f r.1)
  | .addEdgeTarget e w => f.hypergraph.addEdgeTarget e w >>= fun r => .ok (withH f r.1)
  | .unify v w => .ok (withH f (f.hypergraph.unify v w))
  | .deleteNodes ids => LOHG.deleteNodes f ids
  | .deleteEdges ids => f.hypergraph.deleteEdges ids >>= fun h => .ok (withH f h)
  | .mapNodes k => .ok (withH f (f.hypergraph.mapNodes (· + k)))
  | .mapEdges k => .ok (withH f (f.hypergraph.mapEdges (· + k)))
  | .setSources ids => .ok { f with sources := ids }
  | .setTargets ids => .ok { f with targets := ids }

/-- a history, stopping at the first call that does not return -/
def run (f : D) : List Op → Res D
  | [] => .ok f
  | op :: ops => step f op >>= fun f' => run f' ops

/-! ## creation: fresh identifiers -/

/-- `new_node`: the returned id is the old node count; the label list grows by `w` at the end
    (so every old node keeps its index and label); nothing else changes -/
theorem newNode_fresh (h : LHG O A) (w : O) :
    h.newNode w = ({ h with nodes := h.nodes ++ [w] }, h.nodes.length) ∧
    (h.newNode w).1.nodes.length = h.nodes.length + 1 ∧
    (∀ i : Nat, i < h.nodes.length → (h.newNode w).1.nodes[i]? = h.nodes[i]?) ∧
    (h.newNode w).1.nodes[(h.newNode w).2]? = some w := by
  refine ⟨rfl, by simp [LHG.newNode], ?_, by simp [LHG.newNode]⟩
  intro i hi
  simp [LHG.newNode, List.getElem?_append_left hi]

/-- `new_edge`: the returned id is the old edge count; label and hyperedge are appended -/
theorem newEdge_fresh (h : LHG O A) (x : A) (e : LEdge) :
    h.newEdge x e = ({ h with edges := h.edges ++ [x], adjacency := h.adjacency ++ [e] },
                      h.edges.length) ∧
    (∀ i : Nat, i < h.edges.length → (h.newEdge x e).1.edges[i]? = h.edges[i]?) ∧
    (∀ i : Nat, i < h.adjacency.length → (h.newEdge x e).1.adjacency[i]? = h.adjacency[i]?) ∧
    (h.newEdge x e).1.edges[(h.newEdge x e).2]? = some x ∧
    (h.edges.length = h.adjacency.length → (h.newEdge x e).1.adjacency[(h.newEdge x e).2]? = some e) := by
  refine ⟨rfl, ?_, ?_, by simp [LHG.newEdge], ?_⟩
  · intro i hi; simp [LHG.newEdge, List.getElem?_append_left hi]
  · intro i hi; simp [LHG.newEdge, List.getElem?_append_left hi]
  · intro hl; simp [LHG.newEdge, hl]

/-- `new_operation`: the returned node ids are exactly the next `|st| + |tt|` ids in order, they
    are labelled `st ++ tt`, one new edge (id = old edge count) with those source and target
    lists is appended, and everything else is unchanged -/
theorem newOperation_spec (h : LHG O A) (x : A) (st tt : List O) :
    let n := h.nodes.length
    h.newOperation x st tt =
      ({ h with nodes := h.nodes ++ (st ++ tt), edges := h.edges ++ [x],
                adjacency := h.adjacency ++
                  [⟨List.range' n st.length, List.range' (n + st.length) tt.length⟩] },
       h.edges.length,
       (List.range' n st.length, List.range' (n + st.length) tt.length)) ∧
    (h.newOperation x st tt).2.2.1 ++ (h.newOperation x st tt).2.2.2 =
      List.range' n (st.length + tt.length) ∧
    (∀ k : Nat, k < st.length + tt.length →
      (h.newOperation x st tt).1.nodes[n + k]? = (st ++ tt)[k]?) ∧
    (∀ i : Nat, i < n → (h.newOperation x st tt).1.nodes[i]? = h.nodes[i]?) ∧
    (h.newOperation x st tt).1.quotient = h.quotient := by
  intro n
  rw [newOperation_eq]
  refine ⟨rfl, ?_, ?_, ?_, rfl⟩
  · simp only [n]
    rw [List.range'_append_1]
  · intro k _
    simp only [n]
    rw [List.getElem?_append_right (Nat.le_add_right _ _), Nat.add_sub_cancel_left]
  · intro i hi
    exact List.getElem?_append_left hi

/-- `unify` records the pair and touches nothing else -/
theorem unify_spec (h : LHG O A) (v w : Nat) :
    h.unify v w = { h with quotient := (h.quotient.1 ++ [v], h.quotient.2 ++ [w]) } := rfl

/-- `add_edge_source`: returns iff the edge id indexes `adjacency`; then the fresh node id (= old
    node count, labelled `w`) is appended to the sources of that hyperedge only.  Otherwise it
    panics (after having pushed the node: the state is lost with the panic). -/
theorem addEdgeSource_spec (h : LHG O A) (e : Nat) (w : O) :
    (e < h.adjacency.length →
      ∃ ed, h.adjacency[e]? = some ed ∧
        h.addEdgeSource e w =
          .ok ({ h with nodes := h.nodes ++ [w],
                        adjacency := h.adjacency.set e { ed with sources := ed.sources ++ [h.nodes.length] } },
               h.nodes.length) ∧
        (∀ k : Nat, k ≠ e →
          (h.adjacency.set e { ed with sources := ed.sources ++ [h.nodes.length] })[k]? = h.adjacency[k]?)) ∧
    (h.adjacency.length ≤ e → h.addEdgeSource e w = .panic "add_edge_source:index") ∧
    ((∃ r, h.addEdgeSource e w = .ok r) ↔ e < h.adjacency.length) := by
  refine ⟨?_, addEdgeSource_panic h e w, ?_⟩
  · intro he
    refine ⟨h.adjacency[e], List.getElem?_eq_getElem he, addEdgeSource_ok h e w he, ?_⟩
    intro k hk
    exact List.getElem?_set_ne (Ne.symm hk)
  · constructor
    · rintro ⟨r, hr⟩
      apply Classical.byContradiction
      intro hc
      rw [addEdgeSource_panic h e w (by omega)] at hr
      cases hr
    · intro he
      exact ⟨_, addEdgeSource_ok h e w he⟩

theorem addEdgeTarget_spec (h : LHG O A) (e : Nat) (w : O) :
    (e < h.adjacency.length →
      ∃ ed, h.adjacency[e]? = some ed ∧
        h.addEdgeTarget e w =
          .ok ({ h with nodes := h.nodes ++ [w],
                        adjacency := h.adjacency.set e { ed with targets := ed.targets ++ [h.nodes.length] } },
               h.nodes.length) ∧
        (∀ k : Nat, k ≠ e →
          (h.adjacency.set e { ed with targets := ed.targets ++ [h.nodes.length] })[k]? = h.adjacency[k]?)) ∧
    (h.adjacency.length ≤ e → h.addEdgeTarget e w = .panic "add_edge_target:index") ∧
    ((∃ r, h.addEdgeTarget e w = .ok r) ↔ e < h.adjacency.length) := by
  refine ⟨?_, addEdgeTarget_panic h e w, ?_⟩
  · intro he
    refine ⟨h.adjacency[e], List.getElem?_eq_getElem he, addEdgeTarget_ok h e w he, ?_⟩
    intro k hk
    exact List.getElem?_set_ne (Ne.symm hk)
  · constructor
    · rintro ⟨r, hr⟩
      apply Classical.byContradiction
      intro hc
      rw [addEdgeTarget_panic h e w (by omega)] at hr
      cases hr
    · intro he
      exact ⟨_, addEdgeTarget_ok h e w he⟩

example : (⟨[7, 8], [3], [⟨[0], [1]⟩], ([], [])⟩ : LHG Nat Nat).addEdgeSource 0 9 =
    .ok (⟨[7, 8, 9], [3], [⟨[0, 2], [1]⟩], ([], [])⟩, 2) := by decide
example : (⟨[7, 8], [3], [⟨[0], [1]⟩], ([], [])⟩ : LHG Nat Nat).addEdgeSource 1 9 =
    .panic "add_edge_source:index" := by decide

/-! ## relabelling -/

/-- `with_nodes` answers `None` iff the closure changes the length; otherwise only the labels
    are replaced -/
theorem withNodes_spec {T : Type} (h : LHG O A) (g : List O → List T) :
    (h.withNodes g = .none ↔ (g h.nodes).length ≠ h.nodes.length) ∧
    ((g h.nodes).length = h.nodes.length →
      h.withNodes g = .ok ⟨g h.nodes, h.edges, h.adjacency, h.quotient⟩) := by
  unfold LHG.withNodes
  by_cases hl : (g h.nodes).length = h.nodes.length <;> simp [hl]

theorem withEdges_spec {T : Type} (h : LHG O A) (g : List A → List T) :
    (h.withEdges g = .none ↔ (g h.edges).length ≠ h.edges.length) ∧
    ((g h.edges).length = h.edges.length →
      h.withEdges g = .ok ⟨h.nodes, g h.edges, h.adjacency, h.quotient⟩) := by
  unfold LHG.withEdges
  by_cases hl : (g h.edges).length = h.edges.length <;> simp [hl]

/-- `map_nodes` / `map_edges` are the length-preserving instances (the Rust `unwrap` is safe) -/
theorem mapNodes_spec {T : Type} (h : LHG O A) (k : O → T) :
    h.withNodes (List.map k) = .ok (h.mapNodes k) ∧
    h.mapNodes k = ⟨h.nodes.map k, h.edges, h.adjacency, h.quotient⟩ := by
  refine ⟨?_, rfl⟩
  rw [(withNodes_spec h (List.map k)).2 (by simp)]
  rfl

theorem mapEdges_spec {T : Type} (h : LHG O A) (k : A → T) :
    h.withEdges (List.map k) = .ok (h.mapEdges k) ∧
    h.mapEdges k = ⟨h.nodes, h.edges.map k, h.adjacency, h.quotient⟩ := by
  refine ⟨?_, rfl⟩
  rw [(withEdges_spec h (List.map k)).2 (by simp)]
  rfl

example : (⟨[7, 8], [3], [⟨[0], [1]⟩], ([], [])⟩ : LHG Nat Nat).withNodes List.dropLast = .none := by
  decide

/-! ## deleting nodes -/

/-- `delete_nodes` (open hypergraph) / `delete_nodes_witness` / `delete_nodes` (hypergraph) on a
    well-formed diagram and node ids in range (duplicates allowed, `ids` may be empty):
    the call returns; the witness is the renumbering; the renumbering is `none` on named nodes
    and `some (number of kept nodes below)` on the others, hence strictly monotone and onto the
    new node range; the surviving nodes keep their labels and relative order; hyperedge lists,
    both interfaces and the pending unifications lose exactly the entries that mention a named
    node, the rest is renumbered; edge labels and the number and order of hyperedges are untouched;
    the result is well-formed. -/
theorem deleteNodes_spec (f : LOHG O A) (ids : List Nat) (hwf : f.wf = true)
    (hids : ∀ i ∈ ids, i < f.hypergraph.nodes.length) :
    let h := f.hypergraph
    let n := h.nodes.length
    let keep := fun i => !ids.contains i
    let r := rn ids
    let pairs := ((h.quotient.1.zip h.quotient.2).filter (fun p => keep p.1 && keep p.2)).map
      (fun p => (r p.1, r p.2))
    ∃ g : LOHG O A,
      LOHG.deleteNodes f ids = .ok g ∧
      LHG.deleteNodesWitness h ids = .ok (g.hypergraph, LHG.renumber n ids) ∧
      LHG.deleteNodes h ids = .ok g.hypergraph ∧
      -- the renumbering
      (LHG.renumber n ids).length = n ∧
      (∀ i : Nat, i < n →
        (LHG.renumber n ids)[i]? = some (if i ∈ ids then none else some (r i))) ∧
      (∀ i j : Nat, i ∉ ids → i < j → r i < r j) ∧
      (∀ i : Nat, i < n → i ∉ ids → r i < g.hypergraph.nodes.length) ∧
      (∀ k : Nat, k < g.hypergraph.nodes.length → ∃ i : Nat, i < n ∧ i ∉ ids ∧ r i = k) ∧
      -- the surviving nodes
      g.hypergraph.nodes = (survivors n ids).filterMap (fun i => h.nodes[i]?) ∧
      g.hypergraph.nodes.length = (survivors n ids).length ∧
      g.hypergraph.nodes.length + ((List.range n).filter (fun i => ids.contains i)).length = n ∧
      (∀ i : Nat, i < n → i ∉ ids → g.hypergraph.nodes[r i]? = h.nodes[i]?) ∧
      -- references
      g.hypergraph.adjacency = h.adjacency.map (fun e =>
        ⟨(e.sources.filter keep).map r, (e.targets.filter keep).map r⟩) ∧
      g.sources = (f.sources.filter keep).map r ∧
      g.targets = (f.targets.filter keep).map r ∧
      g.hypergraph.quotient = (pairs.map (·.1), pairs.map (·.2)) ∧
      -- untouched
      g.hypergraph.edges = h.edges ∧
      g.wf = true := by
  intro h n keep r pairs
  have hw := (owf_iff f).mp hwf
  have hwit := deleteNodesWitness_ok h ids hw.hg hids
  have hlen := deletedNodes_nodes_length h ids
  have hmem : ∀ i, i ∉ ids → ids.contains i = false := by
    intro i hi; simpa using hi
  refine ⟨deletedNodesO f ids, deleteNodesO_ok f ids hw hids, hwit, ?_, renumber_length n ids, ?_,
    ?_, ?_, ?_, rfl, hlen, ?_, ?_, rfl, rfl, rfl, rfl, rfl,
    (owf_iff _).mpr (deletedNodesO_wf f ids hw)⟩
  · unfold LHG.deleteNodes
    rw [hwit]; rfl
  · intro i hi
    rw [renumber_getElem? n ids i hi]
    by_cases hm : i ∈ ids <;> simp [hm, r]
  · intro i j hi hij
    exact rn_strictMono ids (hmem i hi) hij
  · intro i hi hm
    show rn ids i < (deletedNodes h ids).nodes.length
    rw [hlen]
    exact rn_lt_survivors n ids hi (hmem i hm)
  · intro k hk
    have hk' : k < (survivors n ids).length := by
      have : k < (deletedNodes h ids).nodes.length := hk
      rwa [hlen] at this
    have := (survivors_getElem?_eq_some_iff n ids k _).mp (List.getElem?_eq_getElem hk')
    refine ⟨_, this.1, ?_, this.2.2.symm⟩
    have h2 := this.2.1
    simpa using h2
  · show (deletedNodes h ids).nodes.length + _ = n
    rw [hlen]
    exact survivors_length_add n ids
  · intro i hi hm
    show ((survivors n ids).filterMap (fun i => h.nodes[i]?))[rn ids i]? = _
    rw [← keepUnmarked_eq]
    exact keepUnmarked_getElem?_rn h.nodes ids hi (hmem i hm)

/-- the hypotheses are satisfiable, with a duplicate id, a dropped interface entry, a dropped
    hyperedge reference and a dropped pending unification -/
example : LOHG.deleteNodes
    (⟨[0, 1, 3], [2, 1], ⟨[10, 11, 12, 13], [5], [⟨[0, 1], [2, 3]⟩], ([0, 2], [1, 3])⟩⟩ : LOHG Nat Nat)
    [1, 1] =
    .ok ⟨[0, 2], [1], ⟨[10, 12, 13], [5], [⟨[0], [1, 2]⟩], ([1], [2])⟩⟩ := by decide
example : (⟨[0, 1, 3], [2, 1], ⟨[10, 11, 12, 13], [5], [⟨[0, 1], [2, 3]⟩], ([0, 2], [1, 3])⟩⟩ :
    LOHG Nat Nat).wf = true ∧
    LHG.renumber 4 [1, 1] = [some 0, none, some 1, some 2] := by decide

/-- duplicates (and the order) in `ids` are irrelevant: the three deletion calls see `ids` only
    as a set — for ANY state, well-formed or not -/
theorem deleteNodes_set (f : LOHG O A) (ids ids' : List Nat) (hs : ∀ i, i ∈ ids ↔ i ∈ ids') :
    LHG.deleteNodesWitness f.hypergraph ids = LHG.deleteNodesWitness f.hypergraph ids' ∧
    LHG.deleteNodes f.hypergraph ids = LHG.deleteNodes f.hypergraph ids' ∧
    LOHG.deleteNodes f ids = LOHG.deleteNodes f ids' := by
  have := deleteNodesWitness_congr f.hypergraph ids ids' hs
  refine ⟨this, ?_, ?_⟩
  · unfold LHG.deleteNodes; rw [this]
  · unfold LOHG.deleteNodes; rw [this]

theorem deleteNodes_eraseDups (f : LOHG O A) (ids : List Nat) :
    LHG.deleteNodesWitness f.hypergraph ids = LHG.deleteNodesWitness f.hypergraph ids.eraseDups ∧
    LOHG.deleteNodes f ids = LOHG.deleteNodes f ids.eraseDups := by
  have := deleteNodes_set f ids ids.eraseDups (fun _ => List.mem_eraseDups.symm)
  exact ⟨this.1, this.2.2⟩

/-- deleting nothing is the identity (on the bare hypergraph unconditionally; on the open
    hypergraph when the interfaces are in range — otherwise `new_index[n.0]` panics) -/
theorem deleteNodes_empty (f : LOHG O A) :
    LHG.deleteNodesWitness f.hypergraph [] =
      .ok (f.hypergraph, (List.range f.hypergraph.nodes.length).map some) ∧
    LHG.deleteNodes f.hypergraph [] = .ok f.hypergraph ∧
    (f.wf = true → LOHG.deleteNodes f [] = .ok f) := by
  refine ⟨rfl, rfl, ?_⟩
  intro hwf
  have hw := (owf_iff f).mp hwf
  rw [deleteNodesO_ok f [] hw (by simp)]
  unfold deletedNodesO
  rw [deletedNodes_nil _ hw.hg]
  have hrn : rn [] = id := by funext i; exact rn_nil i
  simp [hrn, filter_const_true]

/-- the interface check of the open version is a genuine extra panic site -/
example : LOHG.deleteNodes (⟨[5], [], ⟨[1], [], [], ([], [])⟩⟩ : LOHG Nat Nat) [] =
    .panic "lax.delete_nodes:index" := by decide

/-! ## deleting edges -/

/-- `delete_edges` on a diagram with one hyperedge per edge label and edge ids in range
    (duplicates allowed, `ids` may be empty): exactly the named positions are removed from the
    label list and from the hyperedge list, the survivors keep their order; nodes, pending
    unifications (and, on the open hypergraph, the interfaces) are untouched. -/
theorem deleteEdges_spec (h : LHG O A) (ids : List Nat) (hlen : h.edges.length = h.adjacency.length)
    (hids : ∀ i ∈ ids, i < h.edges.length) :
    let m := h.edges.length
    ∃ g : LHG O A,
      LHG.deleteEdges h ids = .ok g ∧
      g.edges = (survivors m ids).filterMap (fun i => h.edges[i]?) ∧
      g.adjacency = (survivors m ids).filterMap (fun i => h.adjacency[i]?) ∧
      g.edges.length = (survivors m ids).length ∧
      g.adjacency.length = (survivors m ids).length ∧
      g.edges.length + ((List.range m).filter (fun i => ids.contains i)).length = m ∧
      (∀ i : Nat, i < m → i ∉ ids →
        g.edges[rn ids i]? = h.edges[i]? ∧ g.adjacency[rn ids i]? = h.adjacency[i]?) ∧
      (∀ k : Nat, k < g.edges.length → ∃ i : Nat, i < m ∧ i ∉ ids ∧ rn ids i = k) ∧
      (∀ i j : Nat, i ∉ ids → i < j → rn ids i < rn ids j) ∧
      g.nodes = h.nodes ∧ g.quotient = h.quotient ∧
      (h.wf = true → g.wf = true) := by
  intro m
  have hmem : ∀ i, i ∉ ids → ids.contains i = false := by
    intro i hi; simpa using hi
  have hl1 : (LHG.keepUnmarked h.edges ids).length = (survivors m ids).length :=
    keepUnmarked_length _ _
  refine ⟨deletedEdges h ids, deleteEdges_ok h ids hlen hids, keepUnmarked_eq _ _, ?_, hl1, ?_, ?_, ?_,
    ?_, ?_, rfl, rfl, ?_⟩
  · show LHG.keepUnmarked h.adjacency ids = _
    rw [keepUnmarked_eq, ← hlen]
  · show (LHG.keepUnmarked h.adjacency ids).length = _
    rw [keepUnmarked_length, ← hlen]
  · show (LHG.keepUnmarked h.edges ids).length + _ = m
    rw [hl1]; exact survivors_length_add m ids
  · intro i hi hm
    exact ⟨keepUnmarked_getElem?_rn h.edges ids hi (hmem i hm),
      keepUnmarked_getElem?_rn h.adjacency ids (by rw [← hlen]; exact hi) (hmem i hm)⟩
  · intro k hk
    have hk' : k < (survivors m ids).length := by
      have : k < (LHG.keepUnmarked h.edges ids).length := hk
      rwa [hl1] at this
    have := (survivors_getElem?_eq_some_iff m ids k _).mp (List.getElem?_eq_getElem hk')
    refine ⟨_, this.1, ?_, this.2.2.symm⟩
    have h2 := this.2.1
    simpa using h2
  · intro i j hi hij
    exact rn_strictMono ids (hmem i hi) hij
  · intro hwf
    exact (wf_iff _).mpr (deletedEdges_wf h ids ((wf_iff h).mp hwf))

example : (⟨[10, 11], [5, 6, 7], [⟨[0], [1]⟩, ⟨[1], [0]⟩, ⟨[], [0, 1]⟩], ([0], [1])⟩ :
    LHG Nat Nat).deleteEdges [1, 1] =
    .ok ⟨[10, 11], [5, 7], [⟨[0], [1]⟩, ⟨[], [0, 1]⟩], ([0], [1])⟩ := by decide

theorem deleteEdges_set (h : LHG O A) (ids ids' : List Nat) (hs : ∀ i, i ∈ ids ↔ i ∈ ids') :
    LHG.deleteEdges h ids = LHG.deleteEdges h ids' := by
  by_cases hlen : h.edges.length = h.adjacency.length
  · exact deleteEdges_congr h ids ids' hs hlen
  · rw [deleteEdges_malformed h ids hlen, deleteEdges_malformed h ids' hlen]

theorem deleteEdges_eraseDups (h : LHG O A) (ids : List Nat) :
    LHG.deleteEdges h ids = LHG.deleteEdges h ids.eraseDups :=
  deleteEdges_set h ids ids.eraseDups (fun _ => List.mem_eraseDups.symm)

theorem deleteEdges_empty (h : LHG O A) (hlen : h.edges.length = h.adjacency.length) :
    LHG.deleteEdges h [] = .ok h := by
  unfold LHG.deleteEdges
  rw [if_neg (by simpa using hlen)]
  rfl

/-! ## rejection of out-of-range identifiers -/

/-- the deletion calls panic (the Rust `assert!`s) exactly when some id is out of range; they
    never answer `none`.  (`delete_edges` first asserts `edges.len() == adjacency.len()`, which
    well-formedness provides.) -/
theorem delete_rejects_iff (f : LOHG O A) (ids : List Nat) (hwf : f.wf = true) :
    ((∃ i ∈ ids, f.hypergraph.nodes.length ≤ i) →
      LHG.deleteNodesWitness f.hypergraph ids = .panic "delete_nodes:assert-bounds" ∧
      LHG.deleteNodes f.hypergraph ids = .panic "delete_nodes:assert-bounds" ∧
      LOHG.deleteNodes f ids = .panic "delete_nodes:assert-bounds") ∧
    ((∃ s, LHG.deleteNodesWitness f.hypergraph ids = .panic s) ↔
      ∃ i ∈ ids, f.hypergraph.nodes.length ≤ i) ∧
    ((∃ s, LOHG.deleteNodes f ids = .panic s) ↔ ∃ i ∈ ids, f.hypergraph.nodes.length ≤ i) ∧
    ((∃ i ∈ ids, f.hypergraph.edges.length ≤ i) →
      LHG.deleteEdges f.hypergraph ids = .panic "delete_edges:assert-bounds") ∧
    ((∃ s, LHG.deleteEdges f.hypergraph ids = .panic s) ↔
      ∃ i ∈ ids, f.hypergraph.edges.length ≤ i) ∧
    LHG.deleteNodesWitness f.hypergraph ids ≠ .none ∧ LOHG.deleteNodes f ids ≠ .none ∧
    LHG.deleteEdges f.hypergraph ids ≠ .none := by
  have hw := (owf_iff f).mp hwf
  have dich : ∀ (m : Nat), (∃ i ∈ ids, m ≤ i) ∨ (∀ i ∈ ids, i < m) := by
    intro m
    by_cases hb : ∀ i ∈ ids, i < m
    · exact Or.inr hb
    · left
      apply Classical.byContradiction
      intro hc
      apply hb
      intro i hi
      apply Classical.byContradiction
      intro hlt
      exact hc ⟨i, hi, by omega⟩
  have hN := dich f.hypergraph.nodes.length
  have hE := dich f.hypergraph.edges.length
  refine ⟨?_, ?_, ?_, ?_, ?_, ?_, ?_, ?_⟩
  · intro hbad
    refine ⟨deleteNodesWitness_panic _ ids hbad, ?_, deleteNodesO_panic f ids hbad⟩
    unfold LHG.deleteNodes
    rw [deleteNodesWitness_panic _ ids hbad]; rfl
  · constructor
    · rintro ⟨s, hs⟩
      rcases hN with hb | hb
      · exact hb
      · rw [deleteNodesWitness_ok _ ids hw.hg hb] at hs; cases hs
    · intro hbad; exact ⟨_, deleteNodesWitness_panic _ ids hbad⟩
  · constructor
    · rintro ⟨s, hs⟩
      rcases hN with hb | hb
      · exact hb
      · rw [deleteNodesO_ok f ids hw hb] at hs; cases hs
    · intro hbad; exact ⟨_, deleteNodesO_panic f ids hbad⟩
  · intro hbad; exact deleteEdges_panic _ ids hw.hg.len hbad
  · constructor
    · rintro ⟨s, hs⟩
      rcases hE with hb | hb
      · exact hb
      · rw [deleteEdges_ok _ ids hw.hg.len hb] at hs; cases hs
    · intro hbad; exact ⟨_, deleteEdges_panic _ ids hw.hg.len hbad⟩
  · rcases hN with hb | hb
    · rw [deleteNodesWitness_panic _ ids hb]; simp
    · rw [deleteNodesWitness_ok _ ids hw.hg hb]; simp
  · rcases hN with hb | hb
    · rw [deleteNodesO_panic f ids hb]; simp
    · rw [deleteNodesO_ok f ids hw hb]; simp
  · rcases hE with hb | hb
    · rw [deleteEdges_panic _ ids hw.hg.len hb]; simp
    · rw [deleteEdges_ok _ ids hw.hg.len hb]; simp

example : (⟨[], [], ⟨[10, 11], [5], [⟨[0], [1]⟩], ([], [])⟩⟩ : LOHG Nat Nat).wf = true ∧
    LOHG.deleteNodes (⟨[], [], ⟨[10, 11], [5], [⟨[0], [1]⟩], ([], [])⟩⟩ : LOHG Nat Nat) [0, 2] =
      .panic "delete_nodes:assert-bounds" ∧
    LHG.deleteEdges (⟨[10, 11], [5], [⟨[0], [1]⟩], ([], [])⟩ : LHG Nat Nat) [1] =
      .panic "delete_edges:assert-bounds" := by decide

/-! ## histories: validity of identifiers and well-formedness -/

/-- argument validity of a call in a state: every identifier handed over is in range -/
def EditOK (f : D) : Op → Prop
  | .newNode _ => True
  | .newEdge _ s t => (∀ v ∈ s, v < f.hypergraph.nodes.length) ∧ (∀ v ∈ t, v < f.hypergraph.nodes.length)
  | .newOperation _ _ _ => True
  | .addEdgeSource e _ => e < f.hypergraph.edges.length
  | .addEdgeTarget e _ => e < f.hypergraph.edges.length
  | .unify v w => v < f.hypergraph.nodes.length ∧ w < f.hypergraph.nodes.length
  | .deleteNodes ids => ∀ i ∈ ids, i < f.hypergraph.nodes.length
  | .deleteEdges ids => ∀ i ∈ ids, i < f.hypergraph.edges.length
  | .mapNodes _ => True
  | .mapEdges _ => True
  | .setSources ids => ∀ i ∈ ids, i < f.hypergraph.nodes.length
  | .setTargets ids => ∀ i ∈ ids, i < f.hypergraph.nodes.length

instance (f : D) (op : Op) : Decidable (EditOK f op) := by
  cases op <;> unfold EditOK <;> infer_instance

/-- a call with valid arguments on a well-formed diagram returns a well-formed diagram -/
theorem wf_preserved (f : D) (op : Op) (hwf : f.wf = true) (hok : EditOK f op) :
    ∃ f', step f op = .ok f' ∧ f'.wf = true := by
  have hw := (owf_iff f).mp hwf
  have lift : ∀ h' : LHG Nat Nat, WF h' → f.hypergraph.nodes.length ≤ h'.nodes.length →
      (withH f h').wf = true := by
    intro h' hw' hle
    exact (owf_iff _).mpr ⟨hw', fun v hv => Nat.lt_of_lt_of_le (hw.src v hv) hle,
      fun v hv => Nat.lt_of_lt_of_le (hw.tgt v hv) hle⟩
  cases op with
  | newNode w =>
    exact ⟨_, rfl, lift _ (newNode_wf _ w hw.hg) (by simp [LHG.newNode])⟩
  | newEdge x s t =>
    exact ⟨_, rfl, lift _ (newEdge_wf _ x ⟨s, t⟩ hw.hg hok) (Nat.le_refl _)⟩
  | newOperation x st tt =>
    refine ⟨_, rfl, lift _ (newOperation_wf _ x st tt hw.hg) ?_⟩
    rw [newOperation_eq]; simp
  | addEdgeSource e w =>
    have he : e < f.hypergraph.adjacency.length := by rw [← hw.hg.len]; exact hok
    refine ⟨_, by simp only [step]; rw [addEdgeSource_ok _ e w he]; rfl, ?_⟩
    refine lift _ (set_wf _ w e _ hw.hg ?_) (by simp)
    have h0 := hw.hg.adj _ (List.getElem_mem he)
    constructor
    · intro v hv
      rcases List.mem_append.mp hv with h1 | h1
      · have := h0.1 v h1; omega
      · rw [List.mem_singleton.mp h1]; omega
    · intro v hv
      have := h0.2 v hv; omega
  | addEdgeTarget e w =>
    have he : e < f.hypergraph.adjacency.length := by rw [← hw.hg.len]; exact hok
    refine ⟨_, by simp only [step]; rw [addEdgeTarget_ok _ e w he]; rfl, ?_⟩
    refine lift _ (set_wf _ w e _ hw.hg ?_) (by simp)
    have h0 := hw.hg.adj _ (List.getElem_mem he)
    constructor
    · intro v hv
      have := h0.1 v hv; omega
    · intro v hv
      rcases List.mem_append.mp hv with h1 | h1
      · have := h0.2 v h1; omega
      · rw [List.mem_singleton.mp h1]; omega
  | unify v w =>
    exact ⟨_, rfl, lift _ (unify_wf _ v w hw.hg hok.1 hok.2) (Nat.le_refl _)⟩
  | deleteNodes ids =>
    exact ⟨_, deleteNodesO_ok f ids hw hok, (owf_iff _).mpr (deletedNodesO_wf f ids hw)⟩
  | deleteEdges ids =>
    refine ⟨_, by simp only [step]; rw [deleteEdges_ok _ ids hw.hg.len hok]; rfl, ?_⟩
    exact lift _ (deletedEdges_wf _ ids hw.hg) (Nat.le_refl _)
  | mapNodes k =>
    exact ⟨_, rfl, lift _ (mapNodes_wf _ _ hw.hg) (by simp [LHG.mapNodes])⟩
  | mapEdges k =>
    exact ⟨_, rfl, lift _ (mapEdges_wf _ _ hw.hg) (Nat.le_refl _)⟩
  | setSources ids =>
    exact ⟨_, rfl, (owf_iff _).mpr ⟨hw.hg, hok, hw.tgt⟩⟩
  | setTargets ids =>
    exact ⟨_, rfl, (owf_iff _).mpr ⟨hw.hg, hw.src, hok⟩⟩

example : (⟨[0], [1], ⟨[10, 11], [5], [⟨[0], [1]⟩], ([], [])⟩⟩ : D).wf = true ∧
    EditOK ⟨[0], [1], ⟨[10, 11], [5], [⟨[0], [1]⟩], ([], [])⟩⟩ (.deleteNodes [1, 1]) := by decide

/-- which calls return at all on a well-formed diagram: only an out-of-range EDGE id in
    `add_edge_*`/`delete_edges` or an out-of-range NODE id in `delete_nodes` is rejected (by a
    panic, never `none`); `new_edge` and `unify` accept dangling node ids silently -/
theorem step_ok_iff (f : D) (op : Op) (hwf : f.wf = true) :
    ((∃ f', step f op = .ok f') ↔
      match op with
      | .addEdgeSource e _ => e < f.hypergraph.edges.length
      | .addEdgeTarget e _ => e < f.hypergraph.edges.length
      | .deleteNodes ids => ∀ i ∈ ids, i < f.hypergraph.nodes.length
      | .deleteEdges ids => ∀ i ∈ ids, i < f.hypergraph.edges.length
      | _ => True) ∧
    step f op ≠ .none := by
  have hw := (owf_iff f).mp hwf
  cases op with
  | addEdgeSource e w =>
    simp only [step]
    by_cases he : e < f.hypergraph.adjacency.length
    · rw [addEdgeSource_ok _ e w he]
      simp [hw.hg.len, he]
    · rw [addEdgeSource_panic _ e w (by omega)]
      simp [hw.hg.len, he]
  | addEdgeTarget e w =>
    simp only [step]
    by_cases he : e < f.hypergraph.adjacency.length
    · rw [addEdgeTarget_ok _ e w he]
      simp [hw.hg.len, he]
    · rw [addEdgeTarget_panic _ e w (by omega)]
      simp [hw.hg.len, he]
  | deleteNodes ids =>
    simp only [step]
    by_cases hb : ∀ i ∈ ids, i < f.hypergraph.nodes.length
    · rw [deleteNodesO_ok f ids hw hb]; simp; exact hb
    · have hbad : ∃ i ∈ ids, f.hypergraph.nodes.length ≤ i := by
        apply Classical.byContradiction
        intro hc; apply hb; intro i hi
        apply Classical.byContradiction
        intro hlt; exact hc ⟨i, hi, by omega⟩
      rw [deleteNodesO_panic f ids hbad]; simp [hb]
  | deleteEdges ids =>
    simp only [step]
    by_cases hb : ∀ i ∈ ids, i < f.hypergraph.edges.length
    · rw [deleteEdges_ok _ ids hw.hg.len hb]; simp; exact hb
    · have hbad : ∃ i ∈ ids, f.hypergraph.edges.length ≤ i := by
        apply Classical.byContradiction
        intro hc; apply hb; intro i hi
        apply Classical.byContradiction
        intro hlt; exact hc ⟨i, hi, by omega⟩
      rw [deleteEdges_panic _ ids hw.hg.len hbad]; simp [hb]
  | _ => simp [step]

/-- `new_edge` / `unify` with a dangling node id return, but the result is NOT well-formed -/
example : ∃ f', step LOHG.empty (.unify 0 1) = .ok f' ∧ f'.wf = false := ⟨_, rfl, by decide⟩
example : ∃ f', step LOHG.empty (.newEdge 0 [3] []) = .ok f' ∧ f'.wf = false := ⟨_, rfl, by decide⟩

/-- a history all of whose calls have valid arguments in the state they are issued in -/
def ValidRun (f : D) : List Op → Prop
  | [] => True
  | op :: ops => EditOK f op ∧ ∀ f', step f op = .ok f' → ValidRun f' ops

/-- states reachable from the empty diagram through valid calls -/
inductive Reachable : D → Prop where
  | empty : Reachable LOHG.empty
  | step {f f' : D} (op : Op) : Reachable f → EditOK f op → step f op = .ok f' → Reachable f'

/-- every valid history runs to completion and ends in a well-formed diagram -/
theorem run_wf_from (f : D) (ops : List Op) (hwf : f.wf = true) (hv : ValidRun f ops) :
    ∃ f', run f ops = .ok f' ∧ f'.wf = true := by
  induction ops generalizing f with
  | nil => exact ⟨f, rfl, hwf⟩
  | cons op ops ih =>
    obtain ⟨f1, h1, hw1⟩ := wf_preserved f op hwf hv.1
    obtain ⟨f2, h2, hw2⟩ := ih f1 hw1 (hv.2 f1 h1)
    refine ⟨f2, ?_, hw2⟩
    simp only [run, h1, Res.ok_bind, h2]

/-- every state reachable from `empty` through valid calls is well-formed -/
theorem run_wf (f : D) (hr : Reachable f) : f.wf = true := by
  induction hr with
  | empty => decide
  | step op _ hok hstep ih =>
    obtain ⟨f'', h1, h2⟩ := wf_preserved _ op ih hok
    rw [hstep] at h1
    cases h1
    exact h2

theorem run_wf_empty (ops : List Op) (hv : ValidRun LOHG.empty ops) :
    ∃ f', run LOHG.empty ops = .ok f' ∧ f'.wf = true :=
  run_wf_from LOHG.empty ops (by decide) hv

/-- executable form of `ValidRun` -/
def validRunB (f : D) : List Op → Bool
  | [] => true
  | op :: ops => decide (EditOK f op) &&
      (match step f op with
       | .ok f' => validRunB f' ops
       | _ => true)

theorem validRun_iff (f : D) (ops : List Op) : ValidRun f ops ↔ validRunB f ops = true := by
  induction ops generalizing f with
  | nil => simp [ValidRun, validRunB]
  | cons op ops ih =>
    simp only [ValidRun, validRunB, Bool.and_eq_true, decide_eq_true_eq]
    cases hs : step f op with
    | ok f1 =>
      simp only [Res.ok.injEq, forall_eq']
      rw [ih f1]
    | none => simp
    | panic s => simp

/-- a concrete valid history (hypothesis of `run_wf_from`), with a duplicate id in a deletion -/
example : ValidRun LOHG.empty [.newNode 10, .newOperation 5 [11] [12], .unify 0 1, .deleteNodes [0, 0],
    .addEdgeSource 0 13, .setSources [0, 2], .deleteEdges [0]] :=
  (validRun_iff _ _).mpr (by decide)
/-- … and an invalid one (node 1 no longer exists after the deletion) -/
example : ¬ ValidRun LOHG.empty [.newNode 10, .newNode 11, .deleteNodes [0], .unify 0 1] :=
  fun h => absurd ((validRun_iff _ _).mp h) (by decide)

/-- a concrete valid history exercising every call -/
example : run LOHG.empty
    [.newNode 10, .newOperation 5 [11, 12] [13], .addEdgeSource 0 14, .addEdgeTarget 0 15,
     .newEdge 6 [0] [5], .unify 0 1, .unify 2 3, .setSources [0, 1], .setTargets [3, 3],
     .mapNodes 100, .mapEdges 1, .deleteNodes [1, 1], .deleteEdges [0]] =
    .ok ⟨[0], [2, 2], ⟨[110, 112, 113, 114, 115], [7], [⟨[0], [4]⟩], ([1], [2])⟩⟩ := by decide

/-! ## identifiers stay valid until a deletion -/

/-- a call other than a deletion never invalidates an identifier: node and edge counts do not
    shrink, and unless the call is the corresponding relabelling the old labels are a prefix of
    the new ones (so every id returned earlier still names the same item) -/
theorem ids_stay_valid (f f' : D) (op : Op) (hs : step f op = .ok f')
    (hnd : ∀ ids, op ≠ .deleteNodes ids) (hed : ∀ ids, op ≠ .deleteEdges ids) :
    ((∀ k, op ≠ .mapNodes k) → f.hypergraph.nodes <+: f'.hypergraph.nodes) ∧
    ((∀ k, op ≠ .mapEdges k) → f.hypergraph.edges <+: f'.hypergraph.edges) ∧
    (∀ k, op = .mapNodes k → f'.hypergraph.nodes = f.hypergraph.nodes.map (· + k)) ∧
    (∀ k, op = .mapEdges k → f'.hypergraph.edges = f.hypergraph.edges.map (· + k)) ∧
    f.hypergraph.nodes.length ≤ f'.hypergraph.nodes.length ∧
    f.hypergraph.edges.length ≤ f'.hypergraph.edges.length := by
  cases op with
  | deleteNodes ids => exact absurd rfl (hnd ids)
  | deleteEdges ids => exact absurd rfl (hed ids)
  | addEdgeSource e w =>
    simp only [step] at hs
    by_cases he : e < f.hypergraph.adjacency.length
    · rw [addEdgeSource_ok _ e w he] at hs
      cases hs
      simp [withH]
    · rw [addEdgeSource_panic _ e w (by omega)] at hs; cases hs
  | addEdgeTarget e w =>
    simp only [step] at hs
    by_cases he : e < f.hypergraph.adjacency.length
    · rw [addEdgeTarget_ok _ e w he] at hs
      cases hs
      simp [withH]
    · rw [addEdgeTarget_panic _ e w (by omega)] at hs; cases hs
  | newOperation x st tt =>
    simp only [step, newOperation_eq] at hs
    cases hs
    simp [withH]
  | _ =>
    simp only [step] at hs
    cases hs
    simp [withH, LHG.newNode, LHG.newEdge, LHG.unify, LHG.mapNodes, LHG.mapEdges]

end OH.C11
