/-
  C11 (JSON): the documented compact JSON text of a lax open hypergraph loses nothing.

  `OH.Json.render : LF → List Char` prints the canonical serde_json text, `OH.Json.parse` is a
  recursive-descent reader of exactly that form.  We prove

  * `parse_render`    : `parse (render f) = some f` for EVERY diagram (no well-formedness hypothesis),
  * `render_injective`: `render` is injective,
  * `parse_sound`     : `parse s = some f → s = render f` (the reader accepts only the canonical text),
  * `parse_iff`       : `parse s = some f ↔ s = render f`.
-/
import OHVerif.Model.Json

namespace OH
namespace C11Json

open OH OH.Json

/-! ### digits -/

/-- `rest` does not begin with a decimal digit. -/
def NoDigitHead : List Char → Prop
  | [] => True
  | c :: _ => digitVal c = none

theorem digitVal_digitChar {d : Nat} (hd : d < 10) : digitVal (Nat.digitChar d) = some d := by
  match d, hd with
  | 0, _ | 1, _ | 2, _ | 3, _ | 4, _ | 5, _ | 6, _ | 7, _ | 8, _ | 9, _ => decide

theorem digitVal_eq_some {c : Char} {d : Nat} (h : digitVal c = some d) :
    d < 10 ∧ c = Nat.digitChar d := by
  unfold digitVal at h
  split at h
  · rename_i hc
    have h1 : 48 ≤ c.toNat := by
      have := hc.1; rw [Char.le_def] at this; exact this
    have h2 : c.toNat ≤ 57 := by
      have := hc.2; rw [Char.le_def] at this; exact this
    have hd : d = c.toNat - 48 := by
      have := Option.some.inj h; rw [← this]; rfl
    have hlt : d < 10 := by omega
    refine ⟨hlt, ?_⟩
    apply Char.toNat_inj.mp
    rw [Nat.toNat_digitChar_of_lt_ten hlt]; omega
  · cases h

theorem natStr_eq_if (n : Nat) :
    natStr n = if n < 10 then [Nat.digitChar n] else natStr (n / 10) ++ [Nat.digitChar (n % 10)] := by
  unfold natStr; exact Nat.toDigits_eq_if (by decide)

theorem natStr_lt {n : Nat} (h : n < 10) : natStr n = [Nat.digitChar n] := by
  rw [natStr_eq_if, if_pos h]

theorem natStr_snoc {a d : Nat} (ha : 0 < a) (hd : d < 10) :
    natStr (a * 10 + d) = natStr a ++ [Nat.digitChar d] := by
  rw [natStr_eq_if (a * 10 + d), if_neg (by omega)]
  have h1 : (a * 10 + d) / 10 = a := by omega
  have h2 : (a * 10 + d) % 10 = d := by omega
  rw [h1, h2]

/-- the first character of the numeral of a positive number is a non-zero digit -/
theorem natStr_head_pos : ∀ (n : Nat), 0 < n →
    ∃ d t, natStr n = Nat.digitChar d :: t ∧ 0 < d ∧ d < 10 := by
  intro n
  induction n using Nat.strongRecOn with
  | _ n ih =>
    intro hn
    by_cases h : n < 10
    · exact ⟨n, [], natStr_lt h, hn, h⟩
    · obtain ⟨d, t, ht, hd0, hd⟩ := ih (n / 10) (by omega) (by omega)
      refine ⟨d, t ++ [Nat.digitChar (n % 10)], ?_, hd0, hd⟩
      rw [natStr_eq_if n, if_neg h, ht]; rfl

/-- the first character of any numeral is a digit -/
theorem natStr_head (n : Nat) : ∃ d t, natStr n = Nat.digitChar d :: t ∧ d < 10 := by
  by_cases h : 0 < n
  · obtain ⟨d, t, ht, _, hd⟩ := natStr_head_pos n h
    exact ⟨d, t, ht, hd⟩
  · have : n = 0 := by omega
    subst this
    exact ⟨0, [], natStr_lt (by decide), by decide⟩

theorem digits_noDigit {acc : Nat} {rest : List Char} (h : NoDigitHead rest) :
    digits acc rest = (acc, rest) := by
  cases rest with
  | nil => rfl
  | cons c s =>
    have h' : digitVal c = none := h
    simp only [digits, h']

theorem digits_digitChar {acc d : Nat} (hd : d < 10) (s : List Char) :
    digits acc (Nat.digitChar d :: s) = digits (acc * 10 + d) s := by
  simp only [digits, digitVal_digitChar hd]

/-- reading a canonical numeral with the left-to-right accumulator -/
theorem digits_natStr : ∀ (n acc : Nat) (rest : List Char),
    digits acc (natStr n ++ rest) = digits (acc * 10 ^ (natStr n).length + n) rest := by
  intro n
  induction n using Nat.strongRecOn with
  | _ n ih =>
    intro acc rest
    by_cases h : n < 10
    · rw [natStr_lt h]
      simp only [List.singleton_append, List.length_singleton, Nat.pow_one]
      exact digits_digitChar h rest
    · rw [natStr_eq_if n, if_neg h, List.append_assoc, ih (n / 10) (by omega)]
      simp only [List.singleton_append, List.length_append, List.length_singleton]
      rw [digits_digitChar (Nat.mod_lt _ (by decide))]
      congr 1
      rw [Nat.pow_succ]
      generalize 10 ^ (natStr (n / 10)).length = p
      have : acc * (p * 10) = acc * p * 10 := by rw [Nat.mul_assoc]
      omega

/-- completeness of `nat` on canonical numerals -/
theorem nat_natStr (n : Nat) {rest : List Char} (h : NoDigitHead rest) :
    nat (natStr n ++ rest) = some (n, rest) := by
  by_cases hn : 0 < n
  · obtain ⟨d, t, ht, hd0, hd⟩ := natStr_head_pos n hn
    have key : digits d (t ++ rest) = (n, rest) := by
      have h1 := digits_natStr n 0 rest
      rw [ht] at h1
      simp only [List.cons_append] at h1
      rw [digits_digitChar hd] at h1
      simp only [Nat.zero_mul, Nat.zero_add] at h1
      rw [h1, digits_noDigit h]
    rw [ht]
    simp only [List.cons_append, nat, digitVal_digitChar hd]
    rw [if_neg (by omega), key]
  · have : n = 0 := by omega
    subst this
    rw [natStr_lt (by decide)]
    cases rest with
    | nil => rfl
    | cons c s =>
      have h' : digitVal c = none := h
      have h0 : digitVal (Nat.digitChar 0) = some 0 := digitVal_digitChar (by decide)
      simp only [List.singleton_append, nat, h0, h']
      rfl

/-- what `digits` consumed, appended to the numeral of a positive accumulator, is a numeral -/
theorem digits_sound : ∀ (s : List Char) (acc m : Nat) (rest : List Char), 0 < acc →
    digits acc s = (m, rest) → natStr acc ++ s = natStr m ++ rest ∧ NoDigitHead rest := by
  intro s
  induction s with
  | nil =>
    intro acc m rest _ h
    simp only [digits] at h
    obtain ⟨rfl, rfl⟩ := Prod.mk.inj h
    exact ⟨rfl, trivial⟩
  | cons c s ih =>
    intro acc m rest hacc h
    cases hc : digitVal c with
    | none =>
      simp only [digits, hc] at h
      obtain ⟨rfl, rfl⟩ := Prod.mk.inj h
      exact ⟨rfl, hc⟩
    | some d =>
      simp only [digits, hc] at h
      obtain ⟨hd, rfl⟩ := digitVal_eq_some hc
      obtain ⟨h1, h2⟩ := ih (acc * 10 + d) m rest (by omega) h
      refine ⟨?_, h2⟩
      rw [← h1, natStr_snoc hacc hd, List.append_assoc]; rfl

/-- soundness of `nat`: it accepts only canonical numerals, and stops before a non-digit -/
theorem nat_sound {s : List Char} {n : Nat} {rest : List Char} (h : nat s = some (n, rest)) :
    s = natStr n ++ rest ∧ NoDigitHead rest := by
  cases s with
  | nil => simp [nat] at h
  | cons c s =>
    cases hc : digitVal c with
    | none => simp [nat, hc] at h
    | some d =>
      obtain ⟨hd, rfl⟩ := digitVal_eq_some hc
      by_cases hd0 : d = 0
      · subst hd0
        cases s with
        | nil =>
          simp only [nat, hc] at h
          simp only [if_true, Option.some.injEq, Prod.mk.injEq] at h
          obtain ⟨rfl, rfl⟩ := h
          exact ⟨by rw [natStr_lt (by decide)]; rfl, trivial⟩
        | cons c' s' =>
          simp only [nat, hc] at h
          simp only [if_true] at h
          split at h
          · cases h
          · rename_i hc'
            simp only [Option.some.injEq, Prod.mk.injEq] at h
            obtain ⟨rfl, rfl⟩ := h
            refine ⟨by rw [natStr_lt (by decide)]; rfl, ?_⟩
            show digitVal c' = none
            cases hv : digitVal c' with
            | none => rfl
            | some v => rw [hv] at hc'; exact absurd rfl hc'
      · have h' : digits d s = (n, rest) := by
          cases s with
          | nil =>
            simp only [nat, hc, if_neg hd0] at h
            exact Option.some.inj h
          | cons c' s' =>
            simp only [nat, hc, if_neg hd0] at h
            exact Option.some.inj h
        obtain ⟨h1, h2⟩ := digits_sound s d n rest (by omega) h'
        refine ⟨?_, h2⟩
        rw [← h1, natStr_lt hd]; rfl

/-! ### literals -/

theorem lit_append (l rest : List Char) : lit l (l ++ rest) = some ((), rest) := by
  induction l with
  | nil => cases rest <;> rfl
  | cons c cs ih => simp only [List.cons_append, lit, if_true, ih]

theorem lit_sound : ∀ (l s : List Char) (u : Unit) (rest : List Char),
    lit l s = some (u, rest) → s = l ++ rest := by
  intro l
  induction l with
  | nil =>
    intro s u rest h
    cases s <;> simp only [lit, Option.some.injEq, Prod.mk.injEq] at h <;> exact h.2
  | cons c cs ih =>
    intro s u rest h
    cases s with
    | nil => simp [lit] at h
    | cons d s =>
      simp only [lit] at h
      split at h
      · rename_i hcd
        subst hcd
        rw [ih s u rest h]; rfl
      · cases h

/-! ### arrays -/

/-- `,x₁,x₂,…` : what follows the first item of a comma separated list -/
def tailText {α : Type} (r : α → List Char) : List α → List Char
  | [] => []
  | x :: xs => ',' :: r x ++ tailText r xs

theorem commaSep_cons {α : Type} (r : α → List Char) (x : α) (xs : List α) :
    commaSep ((x :: xs).map r) = r x ++ tailText r xs := by
  induction xs generalizing x with
  | nil => simp [commaSep, tailText]
  | cons y ys ih =>
    have := ih y
    simp only [List.map_cons] at this ⊢
    simp only [commaSep, tailText, this, List.cons_append]

theorem length_tailText {α : Type} (r : α → List Char) (xs : List α) :
    xs.length ≤ (tailText r xs).length := by
  induction xs with
  | nil => exact Nat.le_refl _
  | cons x xs ih => simp only [tailText, List.length_cons, List.length_append]; omega

/-- the item parser reads back what `r` printed, whenever a `,` or a `]` follows -/
def ItemComplete {α : Type} (item : P α) (r : α → List Char) : Prop :=
  ∀ (x : α) (c : Char) (rest : List Char), (c = ',' ∨ c = ']') →
    item (r x ++ c :: rest) = some (x, c :: rest)

/-- the item parser accepts only what `r` prints -/
def ItemSound {α : Type} (item : P α) (r : α → List Char) : Prop :=
  ∀ (s : List Char) (x : α) (rest : List Char), item s = some (x, rest) → s = r x ++ rest

/-- printed items are non-empty and do not begin with `]` -/
def HeadOk {α : Type} (r : α → List Char) : Prop :=
  ∀ x, ∃ c t, r x = c :: t ∧ c ≠ ']'

theorem itemsTail_complete {α : Type} {item : P α} {r : α → List Char} (hi : ItemComplete item r) :
    ∀ (xs : List α) (fuel : Nat) (acc : List α) (rest : List Char), xs.length < fuel →
      itemsTail item ']' fuel acc (tailText r xs ++ ']' :: rest) = some (acc ++ xs, rest) := by
  intro xs
  induction xs with
  | nil =>
    intro fuel acc rest hf
    cases fuel with
    | zero => omega
    | succ fuel => simp [tailText, itemsTail]
  | cons x xs ih =>
    intro fuel acc rest hf
    cases fuel with
    | zero => omega
    | succ fuel =>
      have hstep : item (r x ++ (tailText r xs ++ ']' :: rest)) =
          some (x, tailText r xs ++ ']' :: rest) := by
        cases xs with
        | nil => exact hi x ']' rest (Or.inr rfl)
        | cons y ys => exact hi x ',' _ (Or.inl rfl)
      have hne : ¬ (',' = ']') := by decide
      simp only [tailText, List.cons_append, List.append_assoc, itemsTail, if_neg hne, if_true,
        hstep]
      rw [ih fuel (acc ++ [x]) rest (by simpa using hf)]
      simp

theorem array_complete {α : Type} {item : P α} {r : α → List Char}
    (hi : ItemComplete item r) (hh : HeadOk r) (xs : List α) (rest : List Char) :
    array item ('[' :: commaSep (xs.map r) ++ ']' :: rest) = some (xs, rest) := by
  cases xs with
  | nil => simp [commaSep, array]
  | cons x xs =>
    rw [commaSep_cons]
    obtain ⟨c, t, hc, hne⟩ := hh x
    have hstep : item (r x ++ (tailText r xs ++ ']' :: rest)) =
        some (x, tailText r xs ++ ']' :: rest) := by
      cases xs with
      | nil => exact hi x ']' rest (Or.inr rfl)
      | cons y ys => exact hi x ',' _ (Or.inl rfl)
    rw [List.cons_append, List.append_assoc, array.eq_2]
    · rw [hstep]
      simp only
      rw [itemsTail_complete hi xs _ [x] rest]
      · rfl
      · have := length_tailText r xs
        simp only [List.length_append, List.length_cons]; omega
    · intro s hs
      rw [hc] at hs
      simp only [List.cons_append, List.cons.injEq] at hs
      exact hne hs.1

theorem itemsTail_sound {α : Type} {item : P α} {r : α → List Char} (hi : ItemSound item r) :
    ∀ (fuel : Nat) (acc : List α) (s : List Char) (ys : List α) (rest : List Char),
      itemsTail item ']' fuel acc s = some (ys, rest) →
      ∃ xs, ys = acc ++ xs ∧ s = tailText r xs ++ ']' :: rest := by
  intro fuel
  induction fuel with
  | zero => intro acc s ys rest h; simp [itemsTail] at h
  | succ fuel ih =>
    intro acc s ys rest h
    cases s with
    | nil => simp [itemsTail] at h
    | cons c s =>
      simp only [itemsTail] at h
      split at h
      · rename_i hc
        simp only [Option.some.injEq, Prod.mk.injEq] at h
        obtain ⟨rfl, rfl⟩ := h
        exact ⟨[], by simp, by simp [tailText, hc]⟩
      · split at h
        · rename_i hc
          split at h
          · rename_i x rest' hx
            obtain ⟨xs, h1, h2⟩ := ih _ _ _ _ h
            have := hi _ _ _ hx
            refine ⟨x :: xs, by simp [h1], ?_⟩
            rw [hc, this, h2]
            simp [tailText]
          · cases h
        · cases h

theorem array_sound {α : Type} {item : P α} {r : α → List Char} (hi : ItemSound item r)
    {s : List Char} {xs : List α} {rest : List Char} (h : array item s = some (xs, rest)) :
    s = '[' :: commaSep (xs.map r) ++ ']' :: rest := by
  unfold array at h
  split at h
  · simp only [Option.some.injEq, Prod.mk.injEq] at h
    obtain ⟨rfl, rfl⟩ := h
    simp [commaSep]
  · split at h
    · rename_i x rest' hx
      obtain ⟨ys, h1, h2⟩ := itemsTail_sound hi _ _ _ _ _ h
      have := hi _ _ _ hx
      subst h1
      rw [this, h2, List.singleton_append, commaSep_cons]
      simp
    · cases h
  · cases h

/-! ### arrays of numbers -/

theorem nat_itemComplete : ItemComplete nat natStr := by
  intro x c rest hc
  apply nat_natStr
  show digitVal c = none
  rcases hc with rfl | rfl <;> decide

theorem nat_itemSound : ItemSound nat natStr := fun _ _ _ h => (nat_sound h).1

theorem natStr_headOk : HeadOk natStr := by
  intro n
  obtain ⟨d, t, ht, hd⟩ := natStr_head n
  refine ⟨_, t, ht, ?_⟩
  match d, hd with
  | 0, _ | 1, _ | 2, _ | 3, _ | 4, _ | 5, _ | 6, _ | 7, _ | 8, _ | 9, _ => decide

theorem natArr_renderArr (xs : List Nat) (rest : List Char) :
    natArr (renderArr xs ++ rest) = some (xs, rest) := by
  unfold natArr renderArr
  have := array_complete nat_itemComplete natStr_headOk xs rest
  simpa only [List.cons_append, List.append_assoc, List.nil_append] using this

theorem natArr_sound {s : List Char} {xs : List Nat} {rest : List Char}
    (h : natArr s = some (xs, rest)) : s = renderArr xs ++ rest := by
  have := array_sound nat_itemSound h
  rw [this]; simp [renderArr]


/-! ### records: completeness -/

theorem edge_complete (e : LEdge) (rest : List Char) :
    edge (renderEdge e ++ rest) = some (e, rest) := by
  unfold edge renderEdge
  generalize "{\"sources\":".toList = l1
  generalize ",\"targets\":".toList = l2
  simp only [List.append_assoc, lit_append, natArr_renderArr]

theorem edge_itemComplete : ItemComplete edge renderEdge :=
  fun x c rest _ => edge_complete x (c :: rest)

theorem renderEdge_headOk : HeadOk renderEdge := by
  intro e
  refine ⟨'{', _, rfl, by decide⟩

theorem adj_complete (es : List LEdge) (rest : List Char) :
    array edge (renderAdj es ++ rest) = some (es, rest) := by
  have := array_complete edge_itemComplete renderEdge_headOk es rest
  unfold renderAdj
  simpa only [List.cons_append, List.append_assoc, List.nil_append] using this

theorem hyper_complete (h : LHG Nat Nat) (rest : List Char) :
    hyper (renderH h ++ rest) = some (h, rest) := by
  unfold hyper renderH
  generalize "{\"adjacency\":".toList = l1
  generalize ",\"edges\":".toList = l2
  generalize ",\"nodes\":".toList = l3
  generalize ",\"quotient\":[".toList = l4
  generalize "]}".toList = l5
  simp only [List.append_assoc, lit_append, natArr_renderArr, adj_complete]

theorem openH_complete (f : LF) (rest : List Char) :
    openH (render f ++ rest) = some (f, rest) := by
  unfold openH render
  generalize "{\"hypergraph\":".toList = l1
  generalize ",\"sources\":".toList = l2
  generalize ",\"targets\":".toList = l3
  simp only [List.append_assoc, lit_append, natArr_renderArr, hyper_complete]



/-- **The documented JSON text loses nothing**: reading back the printed text of ANY lax open
hypergraph (no well-formedness hypothesis, any sizes, labels and ids of any magnitude) returns it. -/
theorem parse_render (f : OH.Json.LF) : OH.Json.parse (OH.Json.render f) = some f := by
  have := openH_complete f []
  rw [List.append_nil] at this
  simp only [parse, this]

/-- a non-trivial (and not even well-formed) diagram used in the examples -/
def exF : LF := ⟨[0, 2], [1], ⟨[5, 6, 17], [3, 0], [⟨[0, 1], [2]⟩, ⟨[], []⟩], ([0, 12], [1, 2])⟩⟩

example : parse (render exF) = some exF := parse_render exF
set_option maxRecDepth 8000 in
example : parse (render exF) = some exF := by decide +kernel
set_option maxRecDepth 8000 in
/-- the text itself (cut into pieces only to keep kernel evaluation of string literals cheap) -/
example : render exF =
    "{\"hypergraph\":{\"adjacency\":[{\"sources\":[0,1],".toList ++
    "\"targets\":[2]},{\"sources\":[],\"targets\":[]}],".toList ++
    "\"edges\":[3,0],\"nodes\":[5,6,17],".toList ++
    "\"quotient\":[[0,12],[1,2]]},".toList ++
    "\"sources\":[0,2],\"targets\":[1]}".toList := by
  decide +kernel

/-- `render` is injective: distinct diagrams have distinct JSON texts. -/
theorem render_injective (f g : OH.Json.LF) (h : OH.Json.render f = OH.Json.render g) : f = g := by
  have h1 := parse_render f
  rw [h, parse_render g] at h1
  exact (Option.some.inj h1).symm

example : render exF ≠ render { exF with targets := [10] } := by
  intro h
  exact absurd (render_injective _ _ h) (by decide)

/-! ### records: soundness -/

theorem lit_iff {l s : List Char} {u : Unit} {rest : List Char} :
    lit l s = some (u, rest) ↔ s = l ++ rest :=
  ⟨lit_sound l s u rest, fun h => by rw [h]; exact lit_append l rest⟩

theorem natArr_iff {s : List Char} {xs : List Nat} {rest : List Char} :
    natArr s = some (xs, rest) ↔ s = renderArr xs ++ rest :=
  ⟨natArr_sound, fun h => by rw [h]; exact natArr_renderArr xs rest⟩

theorem edge_sound {s : List Char} {e : LEdge} {rest : List Char}
    (h : edge s = some (e, rest)) : s = renderEdge e ++ rest := by
  unfold edge at h
  unfold renderEdge
  generalize "{\"sources\":".toList = l1 at h ⊢
  generalize ",\"targets\":".toList = l2 at h ⊢
  repeat' split at h
  all_goals first | (cases h; done) | skip
  simp only [lit_iff, natArr_iff, Option.some.injEq, Prod.mk.injEq] at *
  obtain ⟨rfl, rfl⟩ := h
  subst_vars
  simp only [List.append_assoc]

theorem edge_itemSound : ItemSound edge renderEdge := fun _ _ _ h => edge_sound h

theorem adj_iff {s : List Char} {es : List LEdge} {rest : List Char} :
    array edge s = some (es, rest) ↔ s = renderAdj es ++ rest := by
  constructor
  · intro h
    have := array_sound edge_itemSound h
    rw [this]; simp [renderAdj]
  · intro h; rw [h]; exact adj_complete es rest

theorem hyper_sound {s : List Char} {g : LHG Nat Nat} {rest : List Char}
    (h : hyper s = some (g, rest)) : s = renderH g ++ rest := by
  unfold hyper at h
  unfold renderH
  generalize "{\"adjacency\":".toList = l1 at h ⊢
  generalize ",\"edges\":".toList = l2 at h ⊢
  generalize ",\"nodes\":".toList = l3 at h ⊢
  generalize ",\"quotient\":[".toList = l4 at h ⊢
  generalize "]}".toList = l5 at h ⊢
  repeat' split at h
  all_goals first | (cases h; done) | skip
  simp only [lit_iff, natArr_iff, adj_iff, Option.some.injEq, Prod.mk.injEq] at *
  obtain ⟨rfl, rfl⟩ := h
  subst_vars
  simp only [List.append_assoc]

theorem hyper_iff {s : List Char} {g : LHG Nat Nat} {rest : List Char} :
    hyper s = some (g, rest) ↔ s = renderH g ++ rest :=
  ⟨hyper_sound, fun h => by rw [h]; exact hyper_complete g rest⟩

theorem openH_sound {s : List Char} {f : LF} {rest : List Char}
    (h : openH s = some (f, rest)) : s = render f ++ rest := by
  unfold openH at h
  unfold render
  generalize "{\"hypergraph\":".toList = l1 at h ⊢
  generalize ",\"sources\":".toList = l2 at h ⊢
  generalize ",\"targets\":".toList = l3 at h ⊢
  repeat' split at h
  all_goals first | (cases h; done) | skip
  simp only [lit_iff, natArr_iff, hyper_iff, Option.some.injEq, Prod.mk.injEq] at *
  obtain ⟨rfl, rfl⟩ := h
  subst_vars
  simp only [List.append_assoc]

/-- **The reader accepts only the canonical text**: whatever `parse` accepts is literally the printed
text of the diagram it returns (no whitespace, no leading zeros, no other key order, no trailing
input).  Together with `parse_render`, `parse` and `render` are mutually inverse. -/
theorem parse_sound (s : List Char) (f : OH.Json.LF) (h : OH.Json.parse s = some f) :
    s = OH.Json.render f := by
  unfold parse at h
  split at h
  · rename_i f' hf
    obtain rfl := Option.some.inj h
    have := openH_sound hf
    rwa [List.append_nil] at this
  · cases h

/-- a concrete text satisfying the hypothesis of `parse_sound` -/
example : parse (render exF) = some exF := parse_render exF

/-! non-canonical texts are rejected: leading zero, whitespace, leading / trailing input -/
example : nat "07".toList = none := by decide +kernel
example : nat "7,".toList = some (7, [',']) := by decide +kernel
example : natArr "[7, 8]".toList = none := by decide +kernel
example : natArr "[7,8,]".toList = none := by decide +kernel
example : natArr "[7,8]".toList = some ([7, 8], []) := by decide +kernel
set_option maxRecDepth 8000 in
example : parse (render exF ++ [' ']) = none := by decide +kernel
set_option maxRecDepth 8000 in
example : parse (' ' :: render exF) = none := by decide +kernel

/-- `parse` and `render` are mutually inverse. -/
theorem parse_iff (s : List Char) (f : OH.Json.LF) :
    OH.Json.parse s = some f ↔ s = OH.Json.render f :=
  ⟨parse_sound s f, fun h => by rw [h]; exact parse_render f⟩

end C11Json
end OH
