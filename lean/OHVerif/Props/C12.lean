/-
  C12 — strict functors (src/strict/functor/traits.rs, identity.rs, src/lax/functor/dyn_functor.rs):
  the clauses that are provable directly.  The headline "functor application is substitution up to
  isomorphism" is kept as `map_arrow_isSubst_statement` (it needs the quotient library).
-/
import OHVerif.Model.Functor
import OHVerif.Lemmas.Segs
import OHVerif.Props.C06
import OHVerif.Props.C08
import OHVerif.Spec.Diagram
import OHVerif.Spec.Lawful

namespace OH.C12
open OH

variable {O A O1 A1 O2 A2 : Type}

/-! ### `map_half_spider` is `injections` along the object-image sizes -/

/-- the positions of the image `F(w_j)` inside the flattened `F(w_0) ● F(w_1) ● …` -/
def block (w : IC (List O2)) (j : Nat) : List Nat :=
  List.range' ((w.segsL.take j).map List.length).sum (w.segsL.getD j []).length

/-- `map_half_spider(Fw, f)`: every index `j` in `f` (a node of the source diagram) is expanded to
    the block of positions of `F(w_j)`, in order; the result is a well-formed map into the
    `|F(w)|` nodes of the image, and reading the labels through it yields the concatenated object
    images `F(w_{f 0}) ++ F(w_{f 1}) ++ …`. -/
theorem mapHalfSpider_spec (w : IC (List O2)) (f : FinFun) (hw : w.valid = true) (hf : f.WF)
    (h : f.target = w.len) :
    ∃ r, SFunctor.mapHalfSpider w f = .ok r ∧ r.target = w.values.length ∧ r.WF ∧
      r.table = f.table.flatMap (block w) ∧
      r.table.length = (f.table.map (fun j => (w.segsL.getD j []).length)).sum ∧
      Prim.gatherP w.values r.table = f.table.flatMap (fun j => w.segsL.getD j []) := by
  obtain ⟨hw1, hw2⟩ := (IC.valid_iff w).1 hw
  have hml := IC.segsL_map_length w hw
  obtain ⟨r, hr, ht, htab, hlen, hwf⟩ := C06.injections_spec w.sources f hf h
  have hblock : ∀ j, block w j =
      List.range' (w.sources.table.take j).sum (w.sources.table.getD j 0) := by
    intro j
    unfold block
    rw [List.map_take, hml]
    congr 1
    rw [← hml]
    simp [List.getD_eq_getElem?_getD, List.getElem?_map]
    cases w.segsL[j]? <;> simp
  refine ⟨r, ?_, ?_, hwf, ?_, ?_, ?_⟩
  · simp [SFunctor.mapHalfSpider, hr]
  · rw [ht, hw2]; rfl
  · rw [htab]; congr 1; funext j; exact (hblock j).symm
  · rw [hlen]; congr 2; funext j
    rw [← hml]
    simp [List.getD_eq_getElem?_getD, List.getElem?_map]
    cases w.segsL[j]? <;> simp
  · rw [htab]
    exact gatherP_injections w.sources.table w.values f.table

/-- the `unwrap` in `map_half_spider` fires exactly when the index map does not index the objects -/
theorem mapHalfSpider_panics (w : IC (List O2)) (f : FinFun) (h : f.target ≠ w.len) :
    SFunctor.mapHalfSpider w f = .panic "map_half_spider:unwrap" := by
  simp [SFunctor.mapHalfSpider, C06.injections_none_of_ne w.sources f h, Res.unwrap]

example :
    let w : IC (List Nat) := IC.ofSegsL [[7, 8], [], [9]]
    let f : FinFun := ⟨[2, 0, 0], 3⟩
    w.valid = true ∧ f.WF ∧ f.target = w.len ∧
    SFunctor.mapHalfSpider w f = .ok ⟨[2, 0, 1, 0, 1], 3⟩ := by
  refine ⟨by decide, by decide, by decide, by decide⟩

/-! ### `to_operations` -/

theorem ic_wf_iff (c : IC FinFun) : c.wf = true ↔ c.valid = true ∧ c.sources.WF ∧ c.values.WF := by
  simp [IC.wf, FinFun.wf_iff, and_assoc]

/-- `to_operations`: the labels are the edge labels, and the `e`-th source (target) type is the list
    of labels of the `e`-th source (target) list — no `unwrap` fires on a well-formed diagram, and the
    batch satisfies the `Operations` invariant. -/
theorem toOperations_spec (f : OHG O A) (hf : f.wf = true) :
    ∃ ops, SFunctor.toOperations f = .ok ops ∧ ops.x = f.h.x ∧
      ops.a.valid = true ∧ ops.b.valid = true ∧
      ops.a.sources = f.h.s.sources ∧ ops.b.sources = f.h.t.sources ∧
      ops.a.segsL.map (·.map some) = f.h.s.segs.map (·.map (fun i => f.h.w[i]?)) ∧
      ops.b.segsL.map (·.map some) = f.h.t.segs.map (·.map (fun i => f.h.w[i]?)) ∧
      (∀ label : Nat → O, (∀ i, i < f.h.w.length → f.h.w[i]? = some (label i)) →
        ops.a.segsL = f.h.s.segs.map (·.map label) ∧ ops.b.segsL = f.h.t.segs.map (·.map label)) ∧
      Operations.validate ops = .ok ops := by
  simp only [OHG.wf, HG.wf, Bool.and_eq_true, beq_iff_eq, ic_wf_iff] at hf
  obtain ⟨⟨⟨⟨hh, _⟩, _⟩, _⟩, _⟩ := hf
  obtain ⟨⟨⟨⟨⟨⟨hsv, _, hsw⟩, ⟨htv, _, htw⟩⟩, hsl⟩, htl⟩, hst⟩, htt⟩ := hh
  obtain ⟨ea, ha, hav, has, hasegs, haφ⟩ := C08.mapSemifinite_spec f.h.s f.h.w hsv hsw hst
  obtain ⟨eb, hb, hbv, hbs, hbsegs, hbφ⟩ := C08.mapSemifinite_spec f.h.t f.h.w htv htw htt
  refine ⟨⟨f.h.x, ea, eb⟩, ?_, rfl, hav, hbv, has, hbs, hasegs, hbsegs,
    fun label hl => ⟨haφ label hl, hbφ label hl⟩, ?_⟩
  · simp [SFunctor.toOperations, ha, hb]
  · have e1 : ea.len = f.h.x.length := by unfold IC.len; rw [has]; exact hsl
    have e2 : eb.len = f.h.x.length := by unfold IC.len; rw [hbs]; exact htl
    simp [Operations.validate, e1, e2]

/-- a dangling source index makes `to_operations` panic at its first `unwrap` -/
theorem toOperations_panics_a (f : OHG O A) (h : f.h.s.values.target ≠ f.h.w.length) :
    SFunctor.toOperations f = .panic "to_operations:unwrap-a" := by
  simp [SFunctor.toOperations, (C08.mapSemifinite_none_iff f.h.s f.h.w).2 h, Res.unwrap]

example :
    let f : OHG Nat Nat := ⟨⟨[0], 3⟩, ⟨[2], 3⟩,
      ⟨⟨⟨[2], 3⟩, ⟨[0, 1], 3⟩⟩, ⟨⟨[1], 2⟩, ⟨[2], 3⟩⟩, [10, 11, 12], [5]⟩⟩
    f.wf = true ∧
    (SFunctor.toOperations f >>= fun ops => .ok (ops.x, ops.a, ops.b)) =
      .ok ([5], ⟨⟨[2], 3⟩, [10, 11]⟩, ⟨⟨[1], 2⟩, [12]⟩) := by
  refine ⟨by decide, by decide⟩

/-! ### the identity functor -/

/-- identity functor on objects: each generating object is mapped to itself, as a one-element list -/
theorem identityF_mapObject (a : List O) :
    ∃ c, (SFunctor.identityF (O := O) (A := A)).mapObject a = .ok c ∧
      c.segsL = a.map ([·]) ∧ c.valid = true ∧ c.values = a ∧ c.len = a.length := by
  obtain ⟨c, hc, hs, hv, hval⟩ := C08.elements_specL a
  refine ⟨c, hc, hs, hv, hval, ?_⟩
  rw [← IC.segsL_length, hs, List.length_map]

theorem identityF_mapObject_eq (a : List O) :
    (SFunctor.identityF (O := O) (A := A)).mapObject a = IC.elements a := rfl

/-- identity functor on operation batches: the tensor of the generators themselves -/
theorem identityF_mapOperations (ops : Operations O A) :
    (SFunctor.identityF (O := O) (A := A)).mapOperations ops = OHG.tensorOperations ops := rfl

example : (SFunctor.identityF (O := Nat) (A := Nat)).mapObject [4, 5] =
    .ok ⟨⟨[1, 1], 3⟩, [4, 5]⟩ := by decide

/-! ### the strict functor induced by a generator-wise lax functor -/

/-- `DynFunctor::map_object`: the `i`-th segment is `F(a_i)`; the `unwrap` never fires -/
theorem dyn_mapObject_spec [DecidableEq O2] (B : Backend) (F : LFunctor O1 A1 O2 A2) (a : List O1) :
    ∃ c, (LFunctor.toDyn B F).mapObject a = .ok c ∧ c.segsL = a.map F.mapObject ∧
      c.valid = true ∧ c.len = a.length ∧ c.values = (a.map F.mapObject).flatten := by
  have hsum : ((a.map F.mapObject).map List.length).sum =
      HasLen.len (a.map F.mapObject).flatten := by
    simp [List.length_flatten]
  refine ⟨⟨⟨(a.map F.mapObject).map List.length,
    HasLen.len (a.map F.mapObject).flatten + 1⟩, (a.map F.mapObject).flatten⟩, ?_, ?_, ?_, ?_, rfl⟩
  · simp only [LFunctor.toDyn]
    rw [IC.fromSemifinite_eq, if_pos hsum]
    rfl
  · exact IC.segsL_eq_of _ _ rfl rfl
  · exact IC.mk_valid _ _ (by simp [List.length_flatten]) hsum
  · simp [IC.len, FinFun.source]

example : (LFunctor.toDyn vecBackend (⟨fun o => List.replicate o o, fun _ _ _ => .none⟩ :
    LFunctor Nat Nat Nat Nat)).mapObject [2, 0, 1] = .ok ⟨⟨[2, 0, 1], 4⟩, [2, 2, 1]⟩ := by decide

/-! ### the headline statement (NOT proved here)

  `map_arrow_isSubst_statement`: applying a strict functor to `f` yields, up to isomorphism, the
  diagram obtained by SUBSTITUTION — replace node `i` of `f` by the `|F(w_i)|` nodes labelled
  `F(w_i)`, replace the operations by the tensor `Fx` of their images, and identify the `k`-th
  expanded source (target) position of the operations of `f` with the `k`-th input (output) of
  `Fx`; the interfaces are the expanded interfaces of `f`.  Proving it needs the quotient library
  (composition = gluing, C01) for the two `compose` calls of `spider_map_arrow`. -/

/-- expansion of a list of node indices of `f` along the object images -/
def expand (fw : IC (List O2)) (ids : List Nat) : List Nat := ids.flatMap (block fw)

/-- the pre-quotient diagram: expanded nodes next to the tensor of operation images -/
def substPre (f : OHG O1 A1) (fw : IC (List O2)) (fx : OHG O2 A2) : PDiag O2 A2 :=
  ⟨fw.values ++ fx.h.w,
   fx.toPlain.edges.map (PEdge.mapNodes (fw.values.length + ·)),
   expand fw f.s.table, expand fw f.t.table⟩

/-- expanded edge-source position `k` ~ input `k` of `Fx`; expanded edge-target position `k` ~
    output `k` of `Fx` -/
def substRel (f : OHG O1 A1) (fw : IC (List O2)) (fx : OHG O2 A2) (a b : Nat) : Prop :=
  (∃ k : Nat, (expand fw f.h.s.values.table)[k]? = some a ∧
      (fx.s.table[k]?).map (fw.values.length + ·) = some b) ∨
  (∃ k : Nat, (expand fw f.h.t.values.table)[k]? = some a ∧
      (fx.t.table[k]?).map (fw.values.length + ·) = some b)

def map_arrow_isSubst_statement : Prop :=
  ∀ (O1 A1 O2 A2 : Type) [DecidableEq O2] (B : Backend), B.Lawful →
  ∀ (F : SFunctor O1 A1 O2 A2) (f : OHG O1 A1) (ops : Operations O1 A1) (fw : IC (List O2))
    (fx : OHG O2 A2),
    f.wf = true → SFunctor.toOperations f = .ok ops →
    -- the functor's data: object images (one segment per node) and the tensor of operation images,
    -- typed by the images of the operation types
    F.mapObject f.h.w = .ok fw → fw.valid = true → fw.len = f.h.w.length →
    F.mapOperations ops = .ok fx → fx.wf = true →
    fx.toPlain.sourceType = (expand fw f.h.s.values.table).map (fun i => fw.values[i]?) →
    fx.toPlain.targetType = (expand fw f.h.t.values.table).map (fun i => fw.values[i]?) →
    ∃ r : OHG O2 A2, SFunctor.mapArrow B F f = .ok r ∧ r.wf = true ∧
      ∃ r' : PDiag O2 A2, IsQuot (substPre f fw fx) (substRel f fw fx) r' ∧ r.toPlain ≅ r'

end OH.C12
