/-
  C12 — "applying a functor to a diagram yields, up to isomorphism, the diagram obtained by
  SUBSTITUTION": every node labelled `A` is replaced by the list of nodes `F(A)`, the hyperedges by
  the image `Fx` of the operation batch glued along the expanded source and target lists, both
  interfaces expanded likewise.  Everything is for EVERY lawful backend.

  * `map_arrow_isSubst : map_arrow_isSubst_statement` — the statement left open in `Props/C12.lean`,
    proved as written (the image even IS a quotient of the substitution presentation);
    `mapArrow_subst` is the same in terms of the hypothesis bundle `FunctorOK` of the typing clause.
  * `map_dagger` — `F(f†) ≅ F(f)†`, for any well-typed functor data;
  * `identity_functor` — `Id(f) ≅ f`;
  * `map_id`, `map_twist` (via `map_spider`) — identities and symmetries are preserved by functors
    that are generated on objects (`FunctorHom`) and send the empty batch to the empty diagram
    (`OpsUnit`); `map_id_needs_opsUnit`: the extra hypothesis cannot be dropped;
  * `map_tensor`, `map_comp` — tensor and composition are preserved by functors that are generated
    on objects and whose operation part is monoidal up to `≅` (`OpsTensor`);
    `map_tensor_needs_opsTensor`: the extra hypothesis cannot be dropped;
  * `identityF_opsUnit / identityF_opsTensor`, `dyn_opsUnit / dyn_opsTensor` — the two library
    functors (strict identity, `DynFunctor` of a generator-wise lax functor with good generator
    images) satisfy the extra hypotheses;
  * `mapArrow_relabel` — functor application respects a renumbering of the nodes.
  Helpers: `OHVerif/Lemmas/Subst.lean`.
-/
import OHVerif.Lemmas.Subst
import OHVerif.Props.C10Iso

namespace OH.C12
open OH SFunctor Subst Relation

variable {O A O1 A1 O2 A2 : Type}

/-! ## functor application is substitution -/

/-- the substitution presentation of `Props/C12.lean` is the one of `Lemmas/Subst.lean` -/
theorem substPre_eq (f : OHG O1 A1) (fw : IC (List O2)) (fx : OHG O2 A2) :
    substPre f fw fx = substP fw.values (expand fw f.s.table) (expand fw f.t.table) fx.toPlain := rfl

theorem substRel_eq (f : OHG O1 A1) (fw : IC (List O2)) (fx : OHG O2 A2) :
    substRel f fw fx = substR fw.values (expand fw f.h.s.values.table)
      (expand fw f.h.t.values.table) fx.toPlain := rfl

/-- the plain-diagram form of the type hypotheses gives the `Res` form used by `FunctorOK` -/
theorem source_of_plain {fx : OHG O2 A2} (hx : fx.wf = true) {ty : List O2}
    (h : fx.toPlain.sourceType = ty.map some) : fx.source = .ok ty := by
  have h1 := (C01.types_defined fx hx).1
  rw [C03.plain_source hx h1] at h
  rw [h1, LaxIso.map_some_inj _ _ h]

theorem target_of_plain {fx : OHG O2 A2} (hx : fx.wf = true) {ty : List O2}
    (h : fx.toPlain.targetType = ty.map some) : fx.target = .ok ty := by
  have h1 := (C01.types_defined fx hx).2
  rw [C03.plain_target hx h1] at h
  rw [h1, LaxIso.map_some_inj _ _ h]

/-- `spider_map_arrow` on well-typed data (`Res` form of the type hypotheses): defined,
    well-formed, of the expanded type, and its plain diagram IS a quotient of the substitution
    presentation (no isomorphism needed) -/
theorem spiderMapArrow_subst [DecidableEq O2] (B : Backend) (hB : B.Lawful) (f : OHG O1 A1)
    (fw : IC (List O2)) (fx : OHG O2 A2) (hf : f.WF) (hv : fw.valid = true)
    (hl : fw.len = f.h.w.length) (hx : fx.WF)
    (hs : fx.source = .ok (expandTy fw f.h.s.values.table))
    (ht : fx.target = .ok (expandTy fw f.h.t.values.table)) :
    ∃ r : OHG O2 A2, SFunctor.spiderMapArrow B f fw fx = .ok r ∧ r.wf = true ∧
      r.source = .ok (expandTy fw f.s.table) ∧ r.target = .ok (expandTy fw f.t.table) ∧
      IsQuot (substPre f fw fx) (substRel f fw fx) r.toPlain := by
  obtain ⟨hes, _, _⟩ := expand_spec fw hv f.h.s.values hf.hyper.src.range
    (hf.hyper.src_nodes.trans hl.symm)
  obtain ⟨het, _, _⟩ := expand_spec fw hv f.h.t.values hf.hyper.tgt.range
    (hf.hyper.tgt_nodes.trans hl.symm)
  obtain ⟨hfs, _, _⟩ := expand_spec fw hv f.s hf.src_wf (hf.src_nodes.trans hl.symm)
  obtain ⟨hft, _, _⟩ := expand_spec fw hv f.t hf.tgt_wf (hf.tgt_nodes.trans hl.symm)
  obtain ⟨r, hr, hrW, hrs, hrt, _⟩ := spiderMapArrow_ok_type B hB f hf fw hv hl fx hx hs ht
  obtain ⟨_, hq⟩ := spiderMapArrow_isQuot B hB f hf fw hv hl fx hx r hr
  refine ⟨r, hr, (OHG.wf_iff r).2 hrW, hrs, hrt, ?_⟩
  rw [substPre_eq, substRel_eq]
  exact subst_of_pre4 (C03.wfP ((OHG.wf_iff fx).2 hx)) hfs hes het hft hq

/-- the same with the type hypotheses read on the plain diagram of `fx` (the form of the
    headline statement) -/
theorem spiderMapArrow_isSubst [DecidableEq O2] (B : Backend) (hB : B.Lawful) (f : OHG O1 A1)
    (fw : IC (List O2)) (fx : OHG O2 A2) (hf : f.wf = true) (hv : fw.valid = true)
    (hl : fw.len = f.h.w.length) (hx : fx.wf = true)
    (hs : fx.toPlain.sourceType =
      (expand fw f.h.s.values.table).map (fun i => fw.values[i]?))
    (ht : fx.toPlain.targetType =
      (expand fw f.h.t.values.table).map (fun i => fw.values[i]?)) :
    ∃ r : OHG O2 A2, SFunctor.spiderMapArrow B f fw fx = .ok r ∧ r.wf = true ∧
      r.source = .ok (expandTy fw f.s.table) ∧ r.target = .ok (expandTy fw f.t.table) ∧
      IsQuot (substPre f fw fx) (substRel f fw fx) r.toPlain := by
  have hfW := (OHG.wf_iff f).1 hf
  obtain ⟨_, tes, _⟩ := expand_spec fw hv f.h.s.values hfW.hyper.src.range
    (hfW.hyper.src_nodes.trans hl.symm)
  obtain ⟨_, tet, _⟩ := expand_spec fw hv f.h.t.values hfW.hyper.tgt.range
    (hfW.hyper.tgt_nodes.trans hl.symm)
  exact spiderMapArrow_subst B hB f fw fx hfW hv hl ((OHG.wf_iff fx).1 hx)
    (source_of_plain hx (hs.trans tes)) (target_of_plain hx (ht.trans tet))

/-- FUNCTOR APPLICATION IS SUBSTITUTION, in terms of the hypothesis bundle `FunctorOK` of the
    typing clause: `F(f)` is defined, well-formed, of type `F(a) → F(b)`, and its plain diagram is
    a quotient of the substitution presentation -/
theorem mapArrow_subst [DecidableEq O2] (B : Backend) (hB : B.Lawful) (F : SFunctor O1 A1 O2 A2)
    (f : OHG O1 A1) (fw : IC (List O2)) (fx : OHG O2 A2) (hf : f.WF) (h : FunctorOK F f fw fx) :
    ∃ r : OHG O2 A2, SFunctor.mapArrow B F f = .ok r ∧ r.wf = true ∧
      r.source = .ok (expandTy fw f.s.table) ∧ r.target = .ok (expandTy fw f.t.table) ∧
      IsQuot (substPre f fw fx) (substRel f fw fx) r.toPlain := by
  obtain ⟨r, hr, rest⟩ := spiderMapArrow_subst B hB f fw fx hf h.valid h.len h.wf h.src h.tgt
  obtain ⟨ops, hops, hfx⟩ := h.ops
  refine ⟨r, ?_, rest⟩
  unfold SFunctor.mapArrow
  rw [hops]
  simp only [Res.ok_bind]
  rw [hfx]
  simp only [Res.ok_bind]
  rw [h.obj]
  exact hr

/-- FUNCTOR APPLICATION IS SUBSTITUTION (the statement left open in `Props/C12.lean`, as written
    there): `F(f)` is defined, well-formed, and isomorphic to (in fact: is) a quotient of the
    expanded nodes next to the image of the operation batch by "expanded incidence position `k`
    ~ boundary position `k` of the image", with the expanded interfaces of `f`. -/
theorem map_arrow_isSubst : map_arrow_isSubst_statement := by
  intro O1 A1 O2 A2 _ B hB F f ops fw fx hf hops hobj hv hl hfx hx hs ht
  obtain ⟨r, hr, hrw, _, _, hq⟩ := spiderMapArrow_isSubst B hB f fw fx hf hv hl hx hs ht
  refine ⟨r, ?_, hrw, r.toPlain, hq, iso_refl _⟩
  unfold SFunctor.mapArrow
  rw [hops]
  simp only [Res.ok_bind]
  rw [hfx]
  simp only [Res.ok_bind]
  rw [hobj]
  exact hr

/-- the hypotheses of `map_arrow_isSubst` are satisfiable by a non-trivial diagram (a repeated
    input, permuted outputs) and a functor that changes the number of nodes (`10 ↦ []`,
    `11 ↦ [11]`, `12 ↦ [12, 12]`) -/
example :
    let F := LFunctor.toDyn vecBackend tyExG
    let fw : IC (List Nat) := ⟨⟨[0, 1, 2], 4⟩, [11, 12, 12]⟩
    let fx : OHG Nat Nat := ⟨⟨[0], 3⟩, ⟨[1, 2], 3⟩,
      ⟨⟨⟨[1], 2⟩, ⟨[0], 3⟩⟩, ⟨⟨[2], 3⟩, ⟨[1, 2], 3⟩⟩, [11, 12, 12], [6]⟩⟩
    tyExF.wf = true ∧ SFunctor.toOperations tyExF = .ok (opsOf tyExF) ∧
    F.mapObject tyExF.h.w = .ok fw ∧ fw.valid = true ∧ fw.len = tyExF.h.w.length ∧
    F.mapOperations (opsOf tyExF) = .ok fx ∧ fx.wf = true ∧
    fx.toPlain.sourceType =
      (expand fw tyExF.h.s.values.table).map (fun i => fw.values[i]?) ∧
    fx.toPlain.targetType =
      (expand fw tyExF.h.t.values.table).map (fun i => fw.values[i]?) ∧
    substPre tyExF fw fx =
      ⟨[11, 12, 12, 11, 12, 12], [⟨6, [3], [4, 5]⟩], [], [1, 2, 0]⟩ := by
  refine ⟨by decide, rfl, by decide, by decide, by decide, rfl, by decide, by decide, by decide,
    by decide⟩

/-! ## dagger -/

/-- `F(f†) ≅ F(f)†` for ANY functor data that is well-typed on `f` (no homomorphism property
    needed: `f` and `f†` have the same hypergraph, hence the same operation batch and the same
    substitution presentation up to exchanging the interfaces) -/
theorem map_dagger [DecidableEq O2] (B : Backend) (hB : B.Lawful) (F : SFunctor O1 A1 O2 A2)
    (f : OHG O1 A1) (fw : IC (List O2)) (fx : OHG O2 A2) (hf : f.WF) (h : FunctorOK F f fw fx) :
    ∃ r r' : OHG O2 A2, SFunctor.mapArrow B F f = .ok r ∧ SFunctor.mapArrow B F f.dagger = .ok r' ∧
      r.wf = true ∧ r'.wf = true ∧ r'.toPlain ≅ r.dagger.toPlain := by
  have hfd : f.dagger.WF := ⟨hf.hyper, hf.tgt_wf, hf.src_wf, hf.tgt_nodes, hf.src_nodes⟩
  have hd : FunctorOK F f.dagger fw fx := ⟨h.obj, h.valid, h.len, h.ops, h.wf, h.src, h.tgt⟩
  obtain ⟨r, hr, hrw, _, _, hq⟩ := mapArrow_subst B hB F f fw fx hf h
  obtain ⟨r', hr', hrw', _, _, hq'⟩ := mapArrow_subst B hB F f.dagger fw fx hfd hd
  refine ⟨r, r', hr, hr', hrw, hrw', ?_⟩
  obtain ⟨hfs, _, _⟩ := expand_spec fw h.valid f.s hf.src_wf (hf.src_nodes.trans h.len.symm)
  obtain ⟨hft, _, _⟩ := expand_spec fw h.valid f.t hf.tgt_wf (hf.tgt_nodes.trans h.len.symm)
  have hwf : (substPre f.dagger fw fx).wf = true :=
    substP_wf (C03.wfP ((OHG.wf_iff fx).2 h.wf)) hft hfs
  exact isQuot_unique hwf hq' (IsQuot.dagger hq) (fun _ _ _ _ => Iff.rfl)

example : tyExF.WF ∧ tyExF.dagger.s ≠ tyExF.s ∧
    FunctorOK (LFunctor.toDyn vecBackend tyExG) tyExF ⟨⟨[0, 1, 2], 4⟩, [11, 12, 12]⟩
      ⟨⟨[0], 3⟩, ⟨[1, 2], 3⟩,
        ⟨⟨⟨[1], 2⟩, ⟨[0], 3⟩⟩, ⟨⟨[2], 3⟩, ⟨[1, 2], 3⟩⟩, [11, 12, 12], [6]⟩⟩ :=
  ⟨by decide, by decide,
    ⟨by decide, by decide, by decide, ⟨opsOf tyExF, rfl, rfl⟩, by decide, by decide, by decide⟩⟩

/-! ## the identity functor -/

/-- `Id(f) ≅ f`: the strict identity functor returns a diagram isomorphic to its argument (for
    every lawful backend; the two are in general different data, the nodes are renumbered) -/
theorem identity_functor [DecidableEq O] (B : Backend) (hB : B.Lawful) (f : OHG O A)
    (hf : f.wf = true) :
    ∃ r, SFunctor.mapArrow B SFunctor.identityF f = .ok r ∧ r.wf = true ∧
      r.toPlain ≅ f.toPlain := by
  have hfW := (OHG.wf_iff f).1 hf
  obtain ⟨fw, fx, hok, hseg, hfx, _⟩ :=
    functorOK_of_hom _ _ (identityF_hom (O := O) (A := A)) f hfW
  obtain ⟨r, hr, hrw, _, _, hq⟩ := mapArrow_subst B hB _ f fw fx hfW hok
  refine ⟨r, hr, hrw, ?_⟩
  -- the object images: one singleton segment per node
  have hfw : fw = ⟨⟨List.replicate f.h.w.length 1, f.h.w.length + 1⟩, f.h.w⟩ := by
    have h1 := hok.obj
    rw [identityF_mapObject_eq, IC.elements_eq] at h1
    injection h1 with h1
    exact h1.symm
  -- the image of the batch: the tensor of the operations themselves
  obtain ⟨va, vb⟩ := toOperations_valid f hfW
  have hfx' : OHG.tensorOperations (opsOf f) = .ok fx := hfx
  unfold OHG.tensorOperations at hfx'
  rw [HG.tensorOperations_eq (opsOf f) va vb] at hfx'
  simp only [Res.ok_bind, Res.pure_eq] at hfx'
  injection hfx' with hfx'
  have la : (opsOf f).a.values.length = f.h.s.values.table.length :=
    FinFun.gatherP_length _ _ hfW.hyper.src_lt
  have lb : (opsOf f).b.values.length = f.h.t.values.table.length :=
    FinFun.gatherP_length _ _ hfW.hyper.tgt_lt
  have hX : fx.toPlain = genericOps f.h.w f.h.x f.h.s.sources.table f.h.t.sources.table
      f.h.s.values.table f.h.t.values.table := by
    rw [← hfx']
    show PDiag.mk _ _ _ _ = PDiag.mk _ _ _ _
    simp only [la, lb]
    rfl
  have hexp : ∀ ids : List Nat, (∀ i ∈ ids, i < f.h.w.length) → expand fw ids = ids := by
    intro ids hids
    rw [expand_eq fw hok.valid, hfw]
    exact flatMap_blockS_replicate_one _ _ hids
  have hW : fw.values = f.h.w := by rw [hfw]
  rw [substPre_eq, substRel_eq, hX, hexp _ hfW.src_lt, hexp _ hfW.tgt_lt, hexp _ hfW.hyper.src_lt,
    hexp _ hfW.hyper.tgt_lt, hW] at hq
  have hg := subst_generic f.h.w f.h.x f.h.s.sources.table f.h.t.sources.table
    f.h.s.values.table f.h.t.values.table f.s.table f.t.table hfW.hyper.src_lt hfW.hyper.tgt_lt
    hfW.src_lt hfW.tgt_lt
  have hXw : (genericOps f.h.w f.h.x f.h.s.sources.table f.h.t.sources.table
      f.h.s.values.table f.h.t.values.table : PDiag O A).wf = true := by
    rw [← hX]; exact C03.wfP ((OHG.wf_iff fx).2 hok.wf)
  exact isQuot_unique (substP_wf hXw hfW.src_lt hfW.tgt_lt) hq hg (fun _ _ _ _ => Iff.rfl)

/-- on a concrete diagram the Vec backend even returns the argument itself -/
example : tyExF.wf = true ∧
    SFunctor.mapArrow vecBackend SFunctor.identityF tyExF = .ok tyExF := ⟨by decide, rfl⟩

/-! ## diagrams without operations: identities and symmetries

  For these the functor's operation part is applied to the EMPTY batch.  Well-typedness
  (`FunctorHom`) only says that the image of the empty batch has type `[] → []`; it may still
  contain nodes and hyperedges (a "scalar").  Preservation of identities therefore needs the
  additional hypothesis `OpsUnit` — DISCREPANCY with the unconditional reading of the property,
  see `map_id_needs_opsUnit`. -/

/-- the batch of a diagram without operations -/
def emptyOps : Operations O1 A1 := ⟨[], ⟨⟨[], 1⟩, []⟩, ⟨⟨[], 1⟩, []⟩⟩

/-- `F.map_operations` sends the empty batch to (a diagram isomorphic to) the empty diagram -/
def OpsUnit (F : SFunctor O1 A1 O2 A2) : Prop :=
  ∀ fx, F.mapOperations emptyOps = .ok fx → fx.toPlain ≅ PDiag.empty

theorem opsOf_edgeless (f : OHG O1 A1) (hf : f.WF) (hx : f.h.x = []) :
    opsOf f = emptyOps ∧ f.h.s.values.table = [] ∧ f.h.t.values.table = [] := by
  have h1 : f.h.s.sources.table = [] := by
    have := hf.hyper.src_count; rw [hx] at this; exact List.eq_nil_of_length_eq_zero this
  have h2 : f.h.t.sources.table = [] := by
    have := hf.hyper.tgt_count; rw [hx] at this; exact List.eq_nil_of_length_eq_zero this
  have h3 : f.h.s.values.table = [] := by
    have := hf.hyper.src.sizes; rw [h1] at this
    exact List.eq_nil_of_length_eq_zero this.symm
  have h4 : f.h.t.values.table = [] := by
    have := hf.hyper.tgt.sizes; rw [h2] at this
    exact List.eq_nil_of_length_eq_zero this.symm
  have h5 : f.h.s.sources = ⟨[], 1⟩ := by
    have := hf.hyper.src.bound
    rw [h1] at this
    cases hs : f.h.s.sources with
    | mk t n => rw [hs] at h1 this; simp only at h1 this; rw [h1, this]; rfl
  have h6 : f.h.t.sources = ⟨[], 1⟩ := by
    have := hf.hyper.tgt.bound
    rw [h2] at this
    cases hs : f.h.t.sources with
    | mk t n => rw [hs] at h2 this; simp only at h2 this; rw [h2, this]; rfl
  refine ⟨?_, h3, h4⟩
  unfold opsOf emptyOps
  rw [hx, h3, h4, h5, h6]
  rfl

/-- a well-formed diagram isomorphic to the empty diagram is the empty diagram -/
theorem eq_empty_of_iso {P : PDiag O A} (hP : P.wf = true) (h : P ≅ PDiag.empty) :
    P = PDiag.empty := by
  obtain ⟨p1, p2, _⟩ := (PDiag.wf_iff P).1 hP
  obtain ⟨π, ρ, bπ, bρ, _⟩ := h
  have hn : P.nodes = [] := by
    cases hP' : P.nodes with
    | nil => rfl
    | cons a l =>
      have := bπ.1 0 (by show 0 < P.nodes.length; rw [hP']; simp)
      exact absurd this (Nat.not_lt_zero _)
  have he : P.edges = [] := by
    cases hP' : P.edges with
    | nil => rfl
    | cons a l =>
      have := bρ.1 0 (by rw [hP']; simp)
      exact absurd this (Nat.not_lt_zero _)
  have hn0 : P.n = 0 := by show P.nodes.length = 0; rw [hn]; rfl
  have hi : P.ins = [] := by
    cases hP' : P.ins with
    | nil => rfl
    | cons a l =>
      have := p1 a (by rw [hP']; simp)
      omega
  have ho : P.outs = [] := by
    cases hP' : P.outs with
    | nil => rfl
    | cons a l =>
      have := p2 a (by rw [hP']; simp)
      omega
  cases P
  simp only at hn he hi ho
  rw [hn, he, hi, ho]
  rfl

/-- THE IMAGE OF A SPIDER: if `f` has no operations and the functor sends the empty batch to the
    empty diagram, `F(f)` is the spider on the expanded nodes with the expanded legs -/
theorem map_spider [DecidableEq O2] (B : Backend) (hB : B.Lawful) (F : SFunctor O1 A1 O2 A2)
    (f : OHG O1 A1) (fw : IC (List O2)) (fx : OHG O2 A2) (hf : f.WF) (h : FunctorOK F f fw fx)
    (hx : f.h.x = []) (hU : fx.toPlain ≅ PDiag.empty) :
    ∃ r : OHG O2 A2, SFunctor.mapArrow B F f = .ok r ∧ r.wf = true ∧
      r.toPlain ≅ ⟨fw.values, [], expand fw f.s.table, expand fw f.t.table⟩ := by
  obtain ⟨r, hr, hrw, _, _, hq⟩ := mapArrow_subst B hB F f fw fx hf h
  refine ⟨r, hr, hrw, ?_⟩
  obtain ⟨_, hs0, ht0⟩ := opsOf_edgeless f hf hx
  have hX := eq_empty_of_iso (C03.wfP ((OHG.wf_iff fx).2 h.wf)) hU
  obtain ⟨hfs, _, _⟩ := expand_spec fw h.valid f.s hf.src_wf (hf.src_nodes.trans h.len.symm)
  obtain ⟨hft, _, _⟩ := expand_spec fw h.valid f.t hf.tgt_wf (hf.tgt_nodes.trans h.len.symm)
  rw [substPre_eq, substRel_eq, hX, hs0, ht0] at hq
  have hP : (substP fw.values (expand fw f.s.table) (expand fw f.t.table)
      (PDiag.empty : PDiag O2 A2)).wf = true := substP_wf (by rfl) hfs hft
  have hiso := isQuot_iso_self hP hq (by
    intro i j _ _ e
    refine EqvOn.eq_of (φ := fun x => x) ?_ e
    rintro a b _ _ (⟨k, h1, _⟩ | ⟨k, h1, _⟩) <;> simp [expand] at h1)
  have hE : substP fw.values (expand fw f.s.table) (expand fw f.t.table)
      (PDiag.empty : PDiag O2 A2) =
      ⟨fw.values, [], expand fw f.s.table, expand fw f.t.table⟩ := by
    simp [substP, PDiag.empty]
  rw [hE] at hiso hP
  exact iso_symm hP hiso

/-- segment sizes and flattened length of the object images -/
theorem fw_sizes (fw : IC (List O2)) (hv : fw.valid = true) :
    fw.sources.table.length = fw.len ∧ fw.sources.table.sum = fw.values.length :=
  ⟨rfl, ((IC.valid_iff fw).1 hv).2⟩

theorem fw_values_of_hom (fw : IC (List O2)) (hv : fw.valid = true) (w : List O1)
    (obj : O1 → List O2) (hseg : fw.segsL = w.map obj) :
    fw.values = w.flatMap obj ∧ fw.sources.table = w.map (fun o => (obj o).length) := by
  constructor
  · rw [← IC.segsL_flatten fw hv, hseg, List.flatMap_def]
  · rw [← IC.segsL_map_length fw hv, hseg, List.map_map]; rfl

/-- PRESERVATION OF IDENTITIES: `F(id_a) ≅ id_{F a}` for a functor generated by `obj` on objects,
    well-typed on operation batches, and sending the empty batch to the empty diagram -/
theorem map_id [DecidableEq O2] (B : Backend) (hB : B.Lawful) (F : SFunctor O1 A1 O2 A2)
    (obj : O1 → List O2) (hF : FunctorHom F obj) (hU : OpsUnit F) (a : List O1) :
    ∃ (i : OHG O1 A1) (r j : OHG O2 A2), OHG.identity a = .ok i ∧
      SFunctor.mapArrow B F i = .ok r ∧ OHG.identity (a.flatMap obj) = .ok j ∧
      r.wf = true ∧ j.wf = true ∧ r.toPlain ≅ j.toPlain := by
  obtain ⟨i, hi, hiW, _, _, _⟩ := C05.identity_wf_type (A := A1) a
  have hi' := hi
  rw [OHG.identity_eq] at hi'
  injection hi' with hi'
  obtain ⟨fw, fx, hok, hseg, hfx, _⟩ := functorOK_of_hom F obj hF i hiW
  have hix : i.h.x = [] := by rw [← hi']; rfl
  have hiw : i.h.w = a := by rw [← hi']; rfl
  obtain ⟨hops, _, _⟩ := opsOf_edgeless i hiW hix
  rw [hops] at hfx
  obtain ⟨r, hr, hrw, hiso⟩ := map_spider B hB F i fw fx hiW hok hix (hU fx hfx)
  obtain ⟨j, hj, hjw, _, _, hjp⟩ := C03.identity_facts (A := A2) (a.flatMap obj)
  refine ⟨i, r, j, hi, hr, hj, hrw, hjw, ?_⟩
  rw [hiw] at hseg
  obtain ⟨hval, _⟩ := fw_values_of_hom fw hok.valid a obj hseg
  obtain ⟨hlen, hsum⟩ := fw_sizes fw hok.valid
  have hexp : expand fw (List.range a.length) = List.range (a.flatMap obj).length := by
    rw [expand_eq fw hok.valid, ← hval, ← hsum]
    have : a.length = fw.sources.table.length := by rw [hlen, hok.len, hiw]
    rw [this]
    exact flatMap_blockS_range _
  have e1 : i.s.table = List.range a.length := by rw [← hi']
  have e2 : i.t.table = List.range a.length := by rw [← hi']
  rw [e1, e2, hexp, hval] at hiso
  rw [hjp]
  exact hiso

/-- PRESERVATION OF THE SYMMETRY: `F(σ_{a,b}) ≅ σ_{F a, F b}` -/
theorem map_twist [DecidableEq O2] (B : Backend) (hB : B.Lawful) (F : SFunctor O1 A1 O2 A2)
    (obj : O1 → List O2) (hF : FunctorHom F obj) (hU : OpsUnit F) (a b : List O1) :
    ∃ (s : OHG O1 A1) (r t : OHG O2 A2), OHG.twist a b = .ok s ∧
      SFunctor.mapArrow B F s = .ok r ∧ OHG.twist (a.flatMap obj) (b.flatMap obj) = .ok t ∧
      r.wf = true ∧ t.wf = true ∧ r.toPlain ≅ t.toPlain := by
  obtain ⟨s, hs, hsW, _, _, _⟩ := C05.twist_wf_type (A := A1) a b
  have hs' := hs
  rw [OHG.twist_eq] at hs'
  injection hs' with hs'
  obtain ⟨fw, fx, hok, hseg, hfx, _⟩ := functorOK_of_hom F obj hF s hsW
  have hsx : s.h.x = [] := by rw [← hs']; rfl
  have hsw : s.h.w = b ++ a := by rw [← hs']; rfl
  obtain ⟨hops, _, _⟩ := opsOf_edgeless s hsW hsx
  rw [hops] at hfx
  obtain ⟨r, hr, hrw, hiso⟩ := map_spider B hB F s fw fx hsW hok hsx (hU fx hfx)
  obtain ⟨t, ht, htw, _, _, htp⟩ := C03.twist_facts (A := A2) (a.flatMap obj) (b.flatMap obj)
  refine ⟨s, r, t, hs, hr, ht, hrw, htw, ?_⟩
  rw [hsw] at hseg
  obtain ⟨hval, hks⟩ := fw_values_of_hom fw hok.valid (b ++ a) obj hseg
  have e1 : s.s.table = List.range' b.length a.length ++ List.range b.length := by rw [← hs']
  have e2 : s.t.table = List.range (a.length + b.length) := by rw [← hs']
  rw [List.map_append] at hks
  have hexp1 : expand fw (List.range' b.length a.length ++ List.range b.length) =
      List.range' (b.flatMap obj).length (a.flatMap obj).length ++
        List.range (b.flatMap obj).length := by
    rw [expand_eq fw hok.valid, hks, flatMap_blockS_twist _ _ _ _ (by simp) (by simp),
      sum_map_length_flatMap, sum_map_length_flatMap]
  have hexp2 : expand fw (List.range (a.length + b.length)) =
      List.range ((a.flatMap obj).length + (b.flatMap obj).length) := by
    rw [expand_eq fw hok.valid, hks, flatMap_blockS_range_eq _ _ (by simp; omega), List.sum_append,
      sum_map_length_flatMap, sum_map_length_flatMap, Nat.add_comm]
  rw [e1, e2, hexp1, hexp2, hval, List.flatMap_append] at hiso
  rw [htp]
  exact hiso

/-! ### the two library functors satisfy `OpsUnit` -/

theorem identityF_opsUnit : OpsUnit (SFunctor.identityF (O := O) (A := A)) := by
  intro fx hfx
  have : OHG.tensorOperations (emptyOps : Operations O A) = .ok fx := hfx
  have e : OHG.tensorOperations (emptyOps : Operations O A) =
      .ok ⟨⟨[], 0⟩, ⟨[], 0⟩, ⟨⟨⟨[], 1⟩, ⟨[], 0⟩⟩, ⟨⟨[], 1⟩, ⟨[], 0⟩⟩, [], []⟩⟩ := rfl
  rw [e] at this
  injection this with this
  rw [← this]
  exact iso_refl _

/-- a quotient of the empty diagram is the empty diagram -/
theorem isQuot_empty {R : Nat → Nat → Prop} {r : PDiag O A} (h : IsQuot PDiag.empty R r) :
    r = PDiag.empty := by
  obtain ⟨q, _, h2, _, _, h5, h6, h7⟩ := h
  have hn : r.nodes = [] := by
    cases hr : r.nodes with
    | nil => rfl
    | cons a l =>
      obtain ⟨i, hi, _⟩ := h2 0 (by show 0 < r.nodes.length; rw [hr]; simp)
      exact absurd hi (Nat.not_lt_zero _)
  cases r
  simp only at hn h5 h6 h7
  rw [hn, h5, h6, h7]
  rfl

theorem dyn_opsUnit [DecidableEq O2] (B : Backend) (hB : B.Lawful) (G : LFunctor O1 A1 O2 A2) :
    OpsUnit (LFunctor.toDyn B G) := by
  intro fx hfx
  have e : (LFunctor.toDyn B G).mapOperations emptyOps = LOHG.toStrict B LOHG.empty := rfl
  rw [e] at hfx
  obtain ⟨_, _, hq, _⟩ := LaxIso.toStrict_quot_of_ok B hB LOHG.empty fx (by rfl) hfx
  have : LaxStrict.plain (LOHG.empty : LOHG O2 A2) = PDiag.empty := rfl
  rw [this] at hq
  rw [isQuot_empty hq]
  exact iso_refl _

/-- the hypotheses of `map_id` / `map_twist` hold for the strict identity functor and for every
    generator-wise lax functor all of whose generators have good images, e.g. the size-changing
    functor `tyExG` -/
example : FunctorHom (SFunctor.identityF (O := Nat) (A := Nat)) (fun o => [o]) ∧
    OpsUnit (SFunctor.identityF (O := Nat) (A := Nat)) ∧
    FunctorHom (LFunctor.toDyn vecBackend tyExG) tyExG.mapObject ∧
    OpsUnit (LFunctor.toDyn vecBackend tyExG) :=
  ⟨identityF_hom, identityF_opsUnit,
    dyn_hom vecBackend vecBackend_lawful tyExG _
      (fun a s t => genOK_singleton (fun o => List.replicate (o - 10) o) (fun a _ _ => a + 1) a s t),
    dyn_opsUnit vecBackend vecBackend_lawful tyExG⟩

example : (OHG.toPlain <$> (OHG.twist [11, 12] [12] >>= fun s =>
      SFunctor.mapArrow vecBackend (LFunctor.toDyn vecBackend tyExG) s)) =
      .ok ⟨[12, 12, 11, 12, 12], [], [2, 3, 4, 0, 1], [0, 1, 2, 3, 4]⟩ ∧
    (OHG.toPlain <$> (OHG.twist ([11, 12].flatMap tyExG.mapObject) ([12].flatMap tyExG.mapObject) :
      Res (OHG Nat Nat))) = .ok ⟨[12, 12, 11, 12, 12], [], [2, 3, 4, 0, 1], [0, 1, 2, 3, 4]⟩ := by
  decide

/-- DISCREPANCY: well-typedness of the functor data (`FunctorHom`) alone does NOT give
    preservation of identities.  `scalarF` is the identity on objects and on operation batches,
    except that it adds one isolated node (a scalar `[] → []`) to the image of every batch. -/
def scalarF : SFunctor Nat Nat Nat Nat :=
  ⟨fun a => IC.elements a, fun ops => do
    let t ← OHG.tensorOperations ops
    OHG.tensor t ⟨⟨[], 1⟩, ⟨[], 1⟩, HG.discrete [0]⟩⟩

theorem scalarF_hom : FunctorHom scalarF (fun o => [o]) := by
  refine ⟨?_, ?_⟩
  · intro a
    obtain ⟨c, hc, hs, hv, _⟩ := identityF_mapObject (A := Nat) a
    exact ⟨c, hc, hv, hs⟩
  · intro ops ha hb hla hlb
    obtain ⟨t, ht, hw, hs, htg, _⟩ := C05.tensorOperations_wf_type ops ha hb hla hlb
    have hsc : (⟨⟨[], 1⟩, ⟨[], 1⟩, HG.discrete [0]⟩ : OHG Nat Nat).WF := by decide
    obtain ⟨r, a, a', b, b', hr, hrW, h1, h2, h3, h4, h5, h6, _⟩ :=
      C05.tensor_wf_type t ⟨⟨[], 1⟩, ⟨[], 1⟩, HG.discrete [0]⟩ hw hsc
    rw [hs] at h1; injection h1 with h1; subst h1
    rw [htg] at h4; injection h4 with h4; subst h4
    have e2 : (⟨⟨[], 1⟩, ⟨[], 1⟩, HG.discrete [0]⟩ : OHG Nat Nat).source = .ok [] := rfl
    have e5 : (⟨⟨[], 1⟩, ⟨[], 1⟩, HG.discrete [0]⟩ : OHG Nat Nat).target = .ok [] := rfl
    rw [e2] at h2; injection h2 with h2; subst h2
    rw [e5] at h5; injection h5 with h5; subst h5
    refine ⟨r, ?_, hrW, ?_, ?_⟩
    · show (OHG.tensorOperations ops >>= fun t => OHG.tensor t _) = _
      rw [ht]; exact hr
    · rw [h3]; simp
    · rw [h6]; simp

/-- … `scalarF(id_[5])` has two nodes, `id_{scalarF [5]}` has one: they are not isomorphic -/
theorem map_id_needs_opsUnit :
    FunctorHom scalarF (fun o => [o]) ∧
    ∃ i r j : OHG Nat Nat, OHG.identity [5] = .ok i ∧
      SFunctor.mapArrow vecBackend scalarF i = .ok r ∧
      OHG.identity ([5].flatMap (fun o => [o])) = .ok j ∧ ¬ (r.toPlain ≅ j.toPlain) := by
  refine ⟨scalarF_hom, _, _, _, rfl, rfl, rfl, ?_⟩
  rintro ⟨π, _, bπ, _⟩
  have h0 := bπ.1 0 (by decide)
  have h1 := bπ.1 1 (by decide)
  have := bπ.2.1 0 1 (by decide) (by decide) (by
    have a : π 0 < 1 := h0
    have b : π 1 < 1 := h1
    omega)
  exact absurd this (by decide)

/-! ## tensor

  The operation batch of `f ⊗ g` is the concatenation of the batches of `f` and `g`.  An abstract
  `SFunctor` maps whole batches, so `F(f ⊗ g) ≅ F(f) ⊗ F(g)` can only hold if the operation part of
  `F` is itself monoidal (`OpsTensor`); the theorem reduces preservation of the tensor to this
  property of the functor data (the substitution machinery distributes over juxtaposition). -/

/-- concatenation of two operation batches -/
def appendOps (p q : Operations O1 A1) : Operations O1 A1 :=
  ⟨p.x ++ q.x,
   ⟨⟨p.a.sources.table ++ q.a.sources.table, (p.a.sources.table ++ q.a.sources.table).sum + 1⟩,
     p.a.values ++ q.a.values⟩,
   ⟨⟨p.b.sources.table ++ q.b.sources.table, (p.b.sources.table ++ q.b.sources.table).sum + 1⟩,
     p.b.values ++ q.b.values⟩⟩

/-- the `Operations` invariant -/
def OpsValid (p : Operations O1 A1) : Prop :=
  p.a.valid = true ∧ p.b.valid = true ∧ p.x.length = p.a.len ∧ p.x.length = p.b.len

/-- `F.map_operations` is monoidal up to isomorphism: the image of a concatenated batch is the
    juxtaposition of the images -/
def OpsTensor (F : SFunctor O1 A1 O2 A2) : Prop :=
  ∀ (p q : Operations O1 A1) (fp fq fpq : OHG O2 A2), OpsValid p → OpsValid q →
    F.mapOperations p = .ok fp → F.mapOperations q = .ok fq →
    F.mapOperations (appendOps p q) = .ok fpq →
    fpq.toPlain ≅ PDiag.juxt fp.toPlain fq.toPlain

theorem opsOf_valid (f : OHG O1 A1) (hf : f.WF) : OpsValid (opsOf f) := by
  obtain ⟨va, vb⟩ := toOperations_valid f hf
  exact ⟨va, vb, hf.hyper.src_count.symm, hf.hyper.tgt_count.symm⟩

theorem opsOf_tensor (f g : OHG O1 A1) (hf : f.WF) :
    opsOf (OHG.tensorR f g) = appendOps (opsOf f) (opsOf g) := by
  unfold opsOf appendOps
  have e1 := gatherP_tensor f.h.w g.h.w f.h.s.values g.h.s.values hf.hyper.src.range
    hf.hyper.src_nodes
  have e2 := gatherP_tensor f.h.w g.h.w f.h.t.values g.h.t.values hf.hyper.tgt.range
    hf.hyper.tgt_nodes
  show Operations.mk (f.h.x ++ g.h.x)
    ⟨(IC.tensorR f.h.s g.h.s).sources, Prim.gatherP (f.h.w ++ g.h.w) (FinFun.tensor _ _).table⟩
    ⟨(IC.tensorR f.h.t g.h.t).sources, Prim.gatherP (f.h.w ++ g.h.w) (FinFun.tensor _ _).table⟩ = _
  rw [e1, e2]
  rfl

/-- expansion of a juxtaposed interface along juxtaposed object images -/
theorem expand_tensor (fw fw1 fw2 : IC (List O2)) (hv : fw.valid = true) (hv1 : fw1.valid = true)
    (hv2 : fw2.valid = true) (hk : fw.sources.table = fw1.sources.table ++ fw2.sources.table)
    (l l' : List Nat) (n : Nat) (hn : n = fw1.sources.table.length) (hl : ∀ i ∈ l, i < n) :
    expand fw (l ++ l'.map (n + ·)) =
      expand fw1 l ++ (expand fw2 l').map (fw1.values.length + ·) := by
  subst hn
  rw [expand_eq fw hv, expand_eq fw1 hv1, expand_eq fw2 hv2, hk, List.flatMap_append,
    flatMap_blockS_append_left _ _ _ hl, flatMap_blockS_append_right, (fw_sizes fw1 hv1).2]

/-- the interfaces of the image of a well-typed batch have the lengths of the expansions -/
theorem fx_lengths {F : SFunctor O1 A1 O2 A2} {f : OHG O1 A1} {fw : IC (List O2)} {fx : OHG O2 A2}
    (hf : f.WF) (h : FunctorOK F f fw fx) :
    (expand fw f.h.s.values.table).length = fx.toPlain.ins.length ∧
    (expand fw f.h.t.values.table).length = fx.toPlain.outs.length := by
  have hx := (OHG.wf_iff fx).2 h.wf
  obtain ⟨_, tes, _⟩ := expand_spec fw h.valid f.h.s.values hf.hyper.src.range
    (hf.hyper.src_nodes.trans h.len.symm)
  obtain ⟨_, tet, _⟩ := expand_spec fw h.valid f.h.t.values hf.hyper.tgt.range
    (hf.hyper.tgt_nodes.trans h.len.symm)
  have h1 := congrArg List.length ((C03.plain_source hx h.src).trans tes.symm)
  have h2 := congrArg List.length ((C03.plain_target hx h.tgt).trans tet.symm)
  simp only [PDiag.sourceType, PDiag.targetType, List.length_map] at h1 h2
  exact ⟨h1.symm, h2.symm⟩

/-- PRESERVATION OF THE TENSOR: `F(f ⊗ g) ≅ F(f) ⊗ F(g)` for a functor generated by `obj` on
    objects, well-typed on batches, whose operation part is monoidal up to isomorphism -/
theorem map_tensor [DecidableEq O2] (B : Backend) (hB : B.Lawful) (F : SFunctor O1 A1 O2 A2)
    (obj : O1 → List O2) (hF : FunctorHom F obj) (hT : OpsTensor F) (f g : OHG O1 A1)
    (hf : f.wf = true) (hg : g.wf = true) :
    ∃ (fg : OHG O1 A1) (r rf rg t : OHG O2 A2), OHG.tensor f g = .ok fg ∧
      SFunctor.mapArrow B F fg = .ok r ∧ SFunctor.mapArrow B F f = .ok rf ∧
      SFunctor.mapArrow B F g = .ok rg ∧ OHG.tensor rf rg = .ok t ∧
      r.wf = true ∧ t.wf = true ∧ r.toPlain ≅ t.toPlain := by
  have hfW := (OHG.wf_iff f).1 hf
  have hgW := (OHG.wf_iff g).1 hg
  have hfgW := OHG.tensorR_WF f g hfW hgW
  obtain ⟨fw1, fx1, ok1, seg1, ops1, _⟩ := functorOK_of_hom F obj hF f hfW
  obtain ⟨fw2, fx2, ok2, seg2, ops2, _⟩ := functorOK_of_hom F obj hF g hgW
  obtain ⟨fw, fx, ok, seg, ops, _⟩ := functorOK_of_hom F obj hF (OHG.tensorR f g) hfgW
  obtain ⟨rf, hrf, wrf, _, _, q1⟩ := mapArrow_subst B hB F f fw1 fx1 hfW ok1
  obtain ⟨rg, hrg, wrg, _, _, q2⟩ := mapArrow_subst B hB F g fw2 fx2 hgW ok2
  obtain ⟨r, hr, wr, _, _, q⟩ := mapArrow_subst B hB F _ fw fx hfgW ok
  obtain ⟨t, ht, wt, pt, _, _⟩ := C03.tensor_facts rf rg wrf wrg
  refine ⟨_, r, rf, rg, t, OHG.tensor_eq f g hfW hgW, hr, hrf, hrg, ht, wr, wt, ?_⟩
  -- the image of the batch of `f ⊗ g`
  rw [opsOf_tensor f g hfW] at ops
  have hX := hT _ _ fx1 fx2 fx (opsOf_valid f hfW) (opsOf_valid g hgW) ops1 ops2 ops
  -- object images
  have hw : (OHG.tensorR f g).h.w = f.h.w ++ g.h.w := rfl
  rw [hw] at seg
  obtain ⟨val, ks⟩ := fw_values_of_hom fw ok.valid _ obj seg
  obtain ⟨val1, ks1⟩ := fw_values_of_hom fw1 ok1.valid _ obj seg1
  obtain ⟨val2, ks2⟩ := fw_values_of_hom fw2 ok2.valid _ obj seg2
  have hks : fw.sources.table = fw1.sources.table ++ fw2.sources.table := by
    rw [ks, ks1, ks2, List.map_append]
  have hW : fw.values = fw1.values ++ fw2.values := by
    rw [val, val1, val2, List.flatMap_append]
  have hn1 : f.h.w.length = fw1.sources.table.length := by rw [ks1, List.length_map]
  -- the four expanded interfaces
  have X1 := C03.wfP ((OHG.wf_iff fx1).2 ok1.wf)
  have X2 := C03.wfP ((OHG.wf_iff fx2).2 ok2.wf)
  have Xw := C03.wfP ((OHG.wf_iff fx).2 ok.wf)
  have ex : ∀ (a b : FinFun), a.WF → a.target = f.h.w.length →
      expand fw (FinFun.tensor a b).table =
        expand fw1 a.table ++ (expand fw2 b.table).map (fw1.values.length + ·) := by
    intro a b ha hat
    show expand fw (a.table ++ b.table.map (a.target + ·)) = _
    exact expand_tensor fw fw1 fw2 ok.valid ok1.valid ok2.valid hks _ _ _ (hat.trans hn1)
      (fun i hi => ha i hi)
  have e1 : expand fw (OHG.tensorR f g).s.table = _ := ex f.s g.s hfW.src_wf hfW.src_nodes
  have e2 : expand fw (OHG.tensorR f g).t.table = _ := ex f.t g.t hfW.tgt_wf hfW.tgt_nodes
  have e3 : expand fw (OHG.tensorR f g).h.s.values.table = _ :=
    ex f.h.s.values g.h.s.values hfW.hyper.src.range hfW.hyper.src_nodes
  have e4 : expand fw (OHG.tensorR f g).h.t.values.table = _ :=
    ex f.h.t.values g.h.t.values hfW.hyper.tgt.range hfW.hyper.tgt_nodes
  rw [substPre_eq, substRel_eq, e1, e2, e3, e4, hW] at q
  rw [substPre_eq, substRel_eq] at q1 q2
  obtain ⟨a1, _, _⟩ := expand_spec fw1 ok1.valid f.s hfW.src_wf (hfW.src_nodes.trans ok1.len.symm)
  obtain ⟨a2, _, _⟩ := expand_spec fw1 ok1.valid f.t hfW.tgt_wf (hfW.tgt_nodes.trans ok1.len.symm)
  obtain ⟨a3, _, _⟩ := expand_spec fw1 ok1.valid f.h.s.values hfW.hyper.src.range
    (hfW.hyper.src_nodes.trans ok1.len.symm)
  obtain ⟨a4, _, _⟩ := expand_spec fw1 ok1.valid f.h.t.values hfW.hyper.tgt.range
    (hfW.hyper.tgt_nodes.trans ok1.len.symm)
  obtain ⟨b1, _, _⟩ := expand_spec fw2 ok2.valid g.s hgW.src_wf (hgW.src_nodes.trans ok2.len.symm)
  obtain ⟨b2, _, _⟩ := expand_spec fw2 ok2.valid g.t hgW.tgt_wf (hgW.tgt_nodes.trans ok2.len.symm)
  obtain ⟨b3, _, _⟩ := expand_spec fw2 ok2.valid g.h.s.values hgW.hyper.src.range
    (hgW.hyper.src_nodes.trans ok2.len.symm)
  obtain ⟨b4, _, _⟩ := expand_spec fw2 ok2.valid g.h.t.values hgW.hyper.tgt.range
    (hgW.hyper.tgt_nodes.trans ok2.len.symm)
  obtain ⟨l1, l2⟩ := fx_lengths hfW ok1
  have hj := subst_juxt X1 X2 a1 a2 a3 a4 b1 b2 b3 b4 l1 l2 q1 q2
  rw [pt]
  have lift : ∀ (l l' : List Nat), (∀ v ∈ l, v < fw1.values.length) →
      (∀ v ∈ l', v < fw2.values.length) →
      ∀ v ∈ l ++ l'.map (fw1.values.length + ·), v < (fw1.values ++ fw2.values).length := by
    intro l l' h1 h2 v hv
    rw [List.length_append]
    rcases List.mem_append.1 hv with hv | hv
    · have := h1 v hv; omega
    · obtain ⟨j, hj', rfl⟩ := List.mem_map.1 hv
      have := h2 j hj'; omega
  exact subst_congr Xw (lift _ _ a1 b1) (lift _ _ a2 b2) (lift _ _ a3 b3) (lift _ _ a4 b4) hX q hj

/-! ## functor application respects a renumbering of the nodes -/

/-- if `f'` is `f` with its nodes renumbered by the bijection `π` (same hyperedges in the same
    order), then `F(f') ≅ F(f)`: the operation batches coincide and the object images are permuted
    blockwise -/
theorem mapArrow_relabel [DecidableEq O2] (B : Backend) (hB : B.Lawful) (F : SFunctor O1 A1 O2 A2)
    (obj : O1 → List O2) (hF : FunctorHom F obj) (f f' : OHG O1 A1) (hf : f.WF) (hf' : f'.WF)
    (π : Nat → Nat) (hπ : BijOn f.h.w.length f'.h.w.length π)
    (hlab : ∀ i, i < f.h.w.length → f'.h.w[π i]? = f.h.w[i]?)
    (hx : f'.h.x = f.h.x) (hss : f'.h.s.sources = f.h.s.sources)
    (hts : f'.h.t.sources = f.h.t.sources)
    (hsv : f'.h.s.values.table = f.h.s.values.table.map π)
    (htv : f'.h.t.values.table = f.h.t.values.table.map π)
    (hs : f'.s.table = f.s.table.map π) (ht : f'.t.table = f.t.table.map π) :
    ∃ r r' : OHG O2 A2, SFunctor.mapArrow B F f = .ok r ∧ SFunctor.mapArrow B F f' = .ok r' ∧
      r.wf = true ∧ r'.wf = true ∧ r.toPlain ≅ r'.toPlain := by
  obtain ⟨fw, fx, ok1, seg1, ops1, _⟩ := functorOK_of_hom F obj hF f hf
  obtain ⟨fw', fx', ok2, seg2, ops2, _⟩ := functorOK_of_hom F obj hF f' hf'
  obtain ⟨r, hr, wr, _, _, q1⟩ := mapArrow_subst B hB F f fw fx hf ok1
  obtain ⟨r', hr', wr', _, _, q2⟩ := mapArrow_subst B hB F f' fw' fx' hf' ok2
  refine ⟨r, r', hr, hr', wr, wr', ?_⟩
  -- the batches coincide
  have hg : ∀ S : List Nat, (∀ i ∈ S, i < f.h.w.length) →
      Prim.gatherP f'.h.w (S.map π) = Prim.gatherP f.h.w S := by
    intro S hS
    rw [gatherP_map_idx]
    exact LaxType.filterMap_congr' _ _ _ (fun i hi => hlab i (hS i hi))
  have hops : opsOf f' = opsOf f := by
    unfold opsOf
    rw [hx, hss, hts, hsv, htv, hg _ hf.hyper.src_lt, hg _ hf.hyper.tgt_lt]
  rw [hops, ops1] at ops2
  injection ops2 with ops2
  subst ops2
  -- sizes of the object images
  obtain ⟨val, ks⟩ := fw_values_of_hom fw ok1.valid _ obj seg1
  obtain ⟨val', ks'⟩ := fw_values_of_hom fw' ok2.valid _ obj seg2
  have hc : SizeCompat fw.sources.table fw'.sources.table π := by
    intro j hj
    rw [ks, List.length_map] at hj
    refine ⟨by rw [ks', List.length_map]; exact hπ.1 j hj, ?_⟩
    rw [ks, ks']
    simp only [List.getD_eq_getElem?_getD, List.getElem?_map, hlab j hj]
  have hbij : BijOn fw.values.length fw'.values.length
      (liftPos fw.sources.table fw'.sources.table π) := by
    rw [← (fw_sizes fw ok1.valid).2, ← (fw_sizes fw' ok2.valid).2]
    refine liftPos_bijOn hc ?_
    rw [ks, ks', List.length_map, List.length_map]
    exact hπ
  -- labels of the expanded nodes
  have hl : ∀ i, i < fw.values.length →
      fw'.values[liftPos fw.sources.table fw'.sources.table π i]? = fw.values[i]? := by
    intro i hi
    rw [← (fw_sizes fw ok1.valid).2] at hi
    obtain ⟨b1, b2, b3⟩ := blk_spec _ i hi
    obtain ⟨c1, c2⟩ := hc _ b1
    have hj : blkOf fw.sources.table i < f.h.w.length := by
      have := b1; rw [ks, List.length_map] at this; rw [ks]; exact this
    have e1 : fw.values[i]? =
        (fw.segsL.getD (blkOf fw.sources.table i) [])[offOf fw.sources.table i]? := by
      conv => lhs; rw [← b3]
      exact values_getElem? fw ok1.valid _ _ b1 b2
    have e2 : fw'.values[liftPos fw.sources.table fw'.sources.table π i]? =
        (fw'.segsL.getD (π (blkOf fw.sources.table i)) [])[offOf fw.sources.table i]? :=
      values_getElem? fw' ok2.valid _ _ c1 (by rw [c2]; exact b2)
    rw [e1, e2, seg1, seg2]
    simp only [List.getD_eq_getElem?_getD, List.getElem?_map, hlab _ hj]
  -- the expanded interfaces
  have hex : ∀ ids : List Nat, (∀ i ∈ ids, i < f.h.w.length) →
      expand fw' (ids.map π) = (expand fw ids).map (liftPos fw.sources.table fw'.sources.table π) := by
    intro ids hids
    rw [expand_eq fw' ok2.valid, expand_eq fw ok1.valid, flatMap_blockS_map_liftPos hc]
    intro i hi
    rw [ks, List.length_map]; exact hids i hi
  rw [substPre_eq, substRel_eq] at q1 q2
  rw [hs, ht, hsv, htv, hex _ hf.src_lt, hex _ hf.tgt_lt, hex _ hf.hyper.src_lt,
    hex _ hf.hyper.tgt_lt] at q2
  obtain ⟨a1, _, _⟩ := expand_spec fw ok1.valid f.s hf.src_wf (hf.src_nodes.trans ok1.len.symm)
  obtain ⟨a2, _, _⟩ := expand_spec fw ok1.valid f.t hf.tgt_wf (hf.tgt_nodes.trans ok1.len.symm)
  obtain ⟨a3, _, _⟩ := expand_spec fw ok1.valid f.h.s.values hf.hyper.src.range
    (hf.hyper.src_nodes.trans ok1.len.symm)
  obtain ⟨a4, _, _⟩ := expand_spec fw ok1.valid f.h.t.values hf.hyper.tgt.range
    (hf.hyper.tgt_nodes.trans ok1.len.symm)
  exact subst_relabel (C03.wfP ((OHG.wf_iff fx).2 ok1.wf)) a1 a2 a3 a4 hbij hl q1 q2

/-! ### the strict identity functor satisfies `OpsTensor` -/

/-- the plain diagram of the tensor of a batch of operations: one node per position of the source
    and target type arrays -/
def opsPlain (x : List A) (as bs : List Nat) (a b : List O) : PDiag O A :=
  ⟨a ++ b, Compose.mkEdges x (splitSegs as (List.range a.length))
    (splitSegs bs (List.range' a.length b.length)), List.range a.length,
    List.range' a.length b.length⟩

theorem tensorOperations_toPlain (ops : Operations O A) (ha : ops.a.valid = true)
    (hb : ops.b.valid = true) :
    ∃ r, OHG.tensorOperations ops = .ok r ∧
      r.toPlain = opsPlain ops.x ops.a.sources.table ops.b.sources.table ops.a.values ops.b.values := by
  unfold OHG.tensorOperations
  rw [HG.tensorOperations_eq ops ha hb]
  exact ⟨_, rfl, rfl⟩

theorem map_range' {π : Nat → Nat} {s t k : Nat} (h : ∀ v, v < k → π (s + v) = t + v) :
    (List.range' s k).map π = List.range' t k := by
  rw [List.range'_eq_map_range, List.range'_eq_map_range, List.map_map]
  exact List.map_congr_left (fun v hv => h v (List.mem_range.1 hv))

/-- the tensor of a concatenated batch is the juxtaposition of the tensors of the two batches, up
    to exchanging the two middle blocks of nodes -/
theorem opsPlain_append (x1 x2 : List A) (as1 as2 bs1 bs2 : List Nat) (a1 a2 b1 b2 : List O)
    (hx1 : x1.length = as1.length) (hx1' : x1.length = bs1.length) (ha1 : as1.sum = a1.length)
    (hb1 : bs1.sum = b1.length) :
    opsPlain (x1 ++ x2) (as1 ++ as2) (bs1 ++ bs2) (a1 ++ a2) (b1 ++ b2) ≅
      PDiag.juxt (opsPlain x1 as1 bs1 a1 b1) (opsPlain x2 as2 bs2 a2 b2) := by
  have s1 : ∀ v, v < a1.length → midSwap a1.length a2.length b1.length v = v :=
    fun v hv => midSwap_1 hv
  have s2 : ∀ v, v < a2.length →
      midSwap a1.length a2.length b1.length (a1.length + v) = a1.length + b1.length + v :=
    fun v hv => midSwap_2 hv
  have s3 : ∀ v, v < b1.length →
      midSwap a1.length a2.length b1.length (a1.length + a2.length + v) = a1.length + v :=
    fun v hv => midSwap_3 hv
  have s4 : ∀ v, midSwap a1.length a2.length b1.length (a1.length + a2.length + b1.length + v) =
      a1.length + b1.length + a2.length + v := fun v => midSwap_4 _ _ _ v
  have m1 : (List.range a1.length).map (midSwap a1.length a2.length b1.length) =
      List.range a1.length := by
    conv => rhs; rw [← List.map_id (List.range a1.length)]
    exact List.map_congr_left (fun v hv => s1 v (List.mem_range.1 hv))
  have m2 : (List.range' a1.length a2.length).map (midSwap a1.length a2.length b1.length) =
      List.range' (a1.length + b1.length) a2.length := map_range' s2
  have m3 : (List.range' (a1.length + a2.length) b1.length).map
      (midSwap a1.length a2.length b1.length) = List.range' a1.length b1.length := map_range' s3
  have m4 : (List.range' (a1.length + a2.length + b1.length) b2.length).map
      (midSwap a1.length a2.length b1.length) =
      List.range' (a1.length + b1.length + a2.length) b2.length := map_range' (fun v _ => s4 v)
  have hins : List.range (a1 ++ a2).length =
      List.range a1.length ++ List.range' a1.length a2.length := by
    rw [List.length_append, ← range_append_range']
  have houts : List.range' (a1 ++ a2).length (b1 ++ b2).length =
      List.range' (a1.length + a2.length) b1.length ++
        List.range' (a1.length + a2.length + b1.length) b2.length := by
    rw [List.length_append, List.length_append, List.range'_append_1]
  have hn1 : (opsPlain x1 as1 bs1 a1 b1 : PDiag O A).n = a1.length + b1.length := by
    simp [opsPlain, PDiag.n]
  have hE : (PDiag.juxt (opsPlain x1 as1 bs1 a1 b1) (opsPlain x2 as2 bs2 a2 b2)).edges =
      (opsPlain (x1 ++ x2) (as1 ++ as2) (bs1 ++ bs2) (a1 ++ a2) (b1 ++ b2) : PDiag O A).edges.map
        (PEdge.mapNodes (midSwap a1.length a2.length b1.length)) := by
    show Compose.mkEdges x1 _ _ ++ (Compose.mkEdges x2 _ _).map (PEdge.mapNodes (_ + ·)) =
      (Compose.mkEdges (x1 ++ x2) (splitSegs (as1 ++ as2) (List.range (a1 ++ a2).length))
        (splitSegs (bs1 ++ bs2) (List.range' (a1 ++ a2).length (b1 ++ b2).length))).map _
    rw [hins, houts, splitSegs_append _ _ _ _ (by rw [ha1, List.length_range]),
      splitSegs_append _ _ _ _ (by rw [hb1, List.length_range']),
      Compose.mkEdges_append _ _ _ _ _ _ (by rw [splitSegs_length]; exact hx1)
        (by rw [splitSegs_length, splitSegs_length, ← hx1, hx1']),
      List.map_append, ← Compose.mkEdges_map, ← Compose.mkEdges_map, ← Compose.mkEdges_map,
      ← splitSegs_map, ← splitSegs_map, ← splitSegs_map, ← splitSegs_map, ← splitSegs_map,
      ← splitSegs_map, m1, m2, m3, m4, hn1, ← List.range'_eq_map_range, List.map_add_range']
  refine IsoVia.iso (π := midSwap a1.length a2.length b1.length) (ρ := fun e => e) ⟨?_, ?_, ?_, ?_, ?_, ?_⟩
  · have := midSwap_bijOn a1.length a2.length b1.length b2.length
    simpa [opsPlain, PDiag.juxt, PDiag.n, Nat.add_assoc] using this
  · rw [hE, List.length_map]; exact BijOn.refl _
  · intro i _
    exact getElem?_midSwap a1 a2 b1 b2 i
  · intro e _
    rw [hE, List.getElem?_map]
  · show List.range a1.length ++ (List.range a2.length).map (_ + ·) = List.map _ (List.range _)
    rw [hins, List.map_append, m1, m2, hn1, ← List.range'_eq_map_range]
  · show List.range' a1.length b1.length ++ (List.range' a2.length b2.length).map (_ + ·) =
      List.map _ (List.range' _ _)
    rw [houts, List.map_append, m3, m4, hn1, List.map_add_range']

theorem appendOps_valid (p q : Operations O1 A1) (hp : OpsValid p) (hq : OpsValid q) :
    OpsValid (appendOps p q) := by
  obtain ⟨pa, pb, pla, plb⟩ := hp
  obtain ⟨qa, qb, qla, qlb⟩ := hq
  have pa' := ((IC.valid_iff _).1 pa).2
  have pb' := ((IC.valid_iff _).1 pb).2
  have qa' := ((IC.valid_iff _).1 qa).2
  have qb' := ((IC.valid_iff _).1 qb).2
  simp only [IC.len_list] at pa' pb' qa' qb'
  refine ⟨?_, ?_, ?_, ?_⟩
  · rw [IC.valid_iff]
    exact ⟨rfl, by simp [appendOps, pa', qa']⟩
  · rw [IC.valid_iff]
    exact ⟨rfl, by simp [appendOps, pb', qb']⟩
  · show (p.x ++ q.x).length = (p.a.sources.table ++ q.a.sources.table).length
    rw [List.length_append, List.length_append]
    have : p.x.length = p.a.sources.table.length := pla
    have : q.x.length = q.a.sources.table.length := qla
    omega
  · show (p.x ++ q.x).length = (p.b.sources.table ++ q.b.sources.table).length
    rw [List.length_append, List.length_append]
    have : p.x.length = p.b.sources.table.length := plb
    have : q.x.length = q.b.sources.table.length := qlb
    omega

theorem identityF_opsTensor : OpsTensor (SFunctor.identityF (O := O) (A := A)) := by
  intro p q fp fq fpq hp hq h1 h2 h3
  obtain ⟨pa, pb, pla, plb⟩ := hp
  obtain ⟨qa, qb, qla, qlb⟩ := hq
  obtain ⟨ra, rb, _, _⟩ := appendOps_valid p q ⟨pa, pb, pla, plb⟩ ⟨qa, qb, qla, qlb⟩
  obtain ⟨r1, e1, t1⟩ := tensorOperations_toPlain p pa pb
  obtain ⟨r2, e2, t2⟩ := tensorOperations_toPlain q qa qb
  obtain ⟨r3, e3, t3⟩ := tensorOperations_toPlain (appendOps p q) ra rb
  have h1' : OHG.tensorOperations p = .ok fp := h1
  have h2' : OHG.tensorOperations q = .ok fq := h2
  have h3' : OHG.tensorOperations (appendOps p q) = .ok fpq := h3
  rw [e1] at h1'; rw [e2] at h2'; rw [e3] at h3'
  cases h1'; cases h2'; cases h3'
  rw [t1, t2, t3]
  have pa' := ((IC.valid_iff _).1 pa).2
  have pb' := ((IC.valid_iff _).1 pb).2
  exact opsPlain_append p.x q.x _ _ _ _ _ _ _ _ pla plb pa' pb'

/-- the hypotheses of `map_tensor` hold for the strict identity functor -/
example : FunctorHom (SFunctor.identityF (O := Nat) (A := Nat)) (fun o => [o]) ∧
    OpsTensor (SFunctor.identityF (O := Nat) (A := Nat)) ∧ tyExF.wf = true ∧ C01.exF.wf = true :=
  ⟨identityF_hom, identityF_opsTensor, by decide, by decide⟩

/-! ### the functor induced by a generator-wise lax functor satisfies `OpsTensor` -/

/-- on a valid batch all of whose generators have defined images, `DynFunctor::map_operations` is
    `to_strict` of the left-nested lax tensor of the images -/
theorem dyn_mapOperations_eq [DecidableEq O2] (B : Backend) (G : LFunctor O1 A1 O2 A2)
    (img : A1 → List O1 → List O1 → LOHG O2 A2) (ops : Operations O1 A1)
    (ha : ops.a.valid = true) (hb : ops.b.valid = true)
    (h : ∀ t ∈ opTriples ops, G.mapOperation t.1 t.2.1 t.2.2 = .ok (img t.1 t.2.1 t.2.2)) :
    (LFunctor.toDyn B G).mapOperations ops =
      LOHG.toStrict B (LaxType.tensorAll LOHG.empty
        ((opTriples ops).map (fun t => img t.1 t.2.1 t.2.2))) := by
  have hva := ((IC.valid_iff ops.a).1 ha).2
  have hvb := ((IC.valid_iff ops.b).1 hb).2
  obtain ⟨sa, hsa, _, hsa1, _, _⟩ := C08.iterTrace_spec ops.a.sources.table ops.a.values hva
    (ops.a.len + 1) (Nat.le_refl _)
  obtain ⟨sb, hsb, _, hsb1, _, _⟩ := C08.iterTrace_spec ops.b.sources.table ops.b.values hvb
    (ops.b.len + 1) (Nat.le_refl _)
  simp only [LFunctor.toDyn]
  rw [hsa, hsb]
  simp only [Res.ok_bind, hsa1, hsb1]
  have := LaxType.foldlM_tensorAssign G img (opTriples ops) LOHG.empty h
  unfold opTriples IC.segsL at this
  rw [this]
  rfl


/-- the left-nested tensor onto `acc` is the tensor of `acc` with the left-nested tensor -/
theorem tensorAll_acc (l : List (LOHG O A)) (acc : LOHG O A) :
    LaxType.tensorAll acc l = LOHG.tensor acc (LaxType.tensorAll LOHG.empty l) := by
  induction l generalizing acc with
  | nil => exact (C02.lax_tensor_unit_right acc).symm
  | cons d l ih =>
    have e1 : LaxType.tensorAll acc (d :: l) = LaxType.tensorAll (LOHG.tensor acc d) l := rfl
    have e2 : LaxType.tensorAll LOHG.empty (d :: l) =
        LaxType.tensorAll (LOHG.tensor LOHG.empty d) l := rfl
    rw [e1, e2, ih (LOHG.tensor acc d), C02.lax_tensor_unit_left, ih d, C02.lax_tensor_assoc]

theorem tensorAll_append (l1 l2 : List (LOHG O A)) :
    LaxType.tensorAll LOHG.empty (l1 ++ l2) =
      LOHG.tensor (LaxType.tensorAll LOHG.empty l1) (LaxType.tensorAll LOHG.empty l2) := by
  have : LaxType.tensorAll LOHG.empty (l1 ++ l2) =
      LaxType.tensorAll (LaxType.tensorAll LOHG.empty l1) l2 := by
    unfold LaxType.tensorAll; rw [List.foldl_append]
  rw [this, tensorAll_acc]

theorem opTriples_append (p q : Operations O1 A1) (hp : OpsValid p) :
    opTriples (appendOps p q) = opTriples p ++ opTriples q := by
  obtain ⟨pa, pb, pla, plb⟩ := hp
  have pa' := ((IC.valid_iff _).1 pa).2
  have pb' := ((IC.valid_iff _).1 pb).2
  simp only [IC.len_list] at pa' pb'
  unfold opTriples
  have ea : (appendOps p q).a.segsL = p.a.segsL ++ q.a.segsL :=
    splitSegs_append _ _ _ _ pa'
  have eb : (appendOps p q).b.segsL = p.b.segsL ++ q.b.segsL :=
    splitSegs_append _ _ _ _ pb'
  have ex : (appendOps p q).x = p.x ++ q.x := rfl
  rw [ea, eb, ex, List.zip_append (by rw [IC.segsL_length, IC.segsL_length, ← pla, ← plb]),
    List.zip_append (by rw [List.length_zip, IC.segsL_length, IC.segsL_length, ← pla, ← plb]; simp)]

theorem dyn_opsTensor [DecidableEq O2] (B : Backend) (hB : B.Lawful) (G : LFunctor O1 A1 O2 A2)
    (img : A1 → List O1 → List O1 → LOHG O2 A2) (hG : ∀ a s t, GenOK G a s t (img a s t)) :
    OpsTensor (LFunctor.toDyn B G) := by
  intro p q fp fq fpq hp hq h1 h2 h3
  obtain ⟨ra, rb, _, _⟩ := appendOps_valid p q hp hq
  rw [dyn_mapOperations_eq B G img p hp.1 hp.2.1 (fun t _ => (hG _ _ _).img)] at h1
  rw [dyn_mapOperations_eq B G img q hq.1 hq.2.1 (fun t _ => (hG _ _ _).img)] at h2
  rw [dyn_mapOperations_eq B G img _ ra rb (fun t _ => (hG _ _ _).img), opTriples_append p q hp,
    List.map_append, tensorAll_append] at h3
  have hds : ∀ (T : List (A1 × List O1 × List O1)), ∀ x ∈ T.map (fun t => img t.1 t.2.1 t.2.2),
      x.wf = true ∧ C09.LabelConsistent x.hypergraph := by
    intro T x hx
    obtain ⟨t, _, rfl⟩ := List.mem_map.1 hx
    exact ⟨(hG _ _ _).wf, (hG _ _ _).consistent⟩
  have w1 := (LaxType.tensorAll_spec _ LOHG.empty rfl LaxType.labelConsistent_empty
    (hds (opTriples p))).1
  have w2 := (LaxType.tensorAll_spec _ LOHG.empty rfl LaxType.labelConsistent_empty
    (hds (opTriples q))).1
  obtain ⟨r, r', hr, hr', hiso⟩ := C10.strict_tensor_iso B hB _ _ fp fq w1 w2 h1 h2
  rw [h3] at hr
  cases hr
  obtain ⟨_, wfp, _, _⟩ := LaxIso.toStrict_quot_of_ok B hB _ fp w1 h1
  rw [C02.tensor_toPlain fp fq r' wfp hr'] at hiso
  exact hiso

/-- the hypotheses of `map_tensor` hold for the size-changing functor `tyExG` -/
example : FunctorHom (LFunctor.toDyn vecBackend tyExG) tyExG.mapObject ∧
    OpsTensor (LFunctor.toDyn vecBackend tyExG) :=
  ⟨dyn_hom vecBackend vecBackend_lawful tyExG _
      (fun a s t => genOK_singleton (fun o => List.replicate (o - 10) o) (fun a _ _ => a + 1) a s t),
    dyn_opsTensor vecBackend vecBackend_lawful tyExG _
      (fun a s t => genOK_singleton (fun o => List.replicate (o - 10) o) (fun a _ _ => a + 1) a s t)⟩

/-! ## composition -/

/-- the composite `f ; g` as a node quotient of "`f ⊗ g` with the outer interfaces": the data
    `OHG.compose` computes, with the quotient map `p`, its kernel and the labels -/
theorem compose_quotient_data [DecidableEq O1] (B : Backend) (hB : B.Lawful) (f g : OHG O1 A1)
    (hf : f.WF) (hg : g.WF)
    (hty : Prim.gatherP f.h.w f.t.table = Prim.gatherP g.h.w g.s.table) :
    ∃ (c : OHG O1 A1) (p : Nat → Nat), OHG.compose B f g = .ok c ∧ c.WF ∧
      (∀ i, i < f.h.w.length + g.h.w.length → p i < c.h.w.length) ∧
      (∀ k, k < c.h.w.length → ∃ i, i < f.h.w.length + g.h.w.length ∧ p i = k) ∧
      (∀ i, i < f.h.w.length + g.h.w.length → c.h.w[p i]? = (f.h.w ++ g.h.w)[i]?) ∧
      (∀ i j, i < f.h.w.length + g.h.w.length → j < f.h.w.length + g.h.w.length →
        (p i = p j ↔ Relation.EqvGen (fun a b => ∃ k : Nat, f.t.table[k]? = some a ∧
          (g.s.table.map (f.h.w.length + ·))[k]? = some b) i j)) ∧
      f.t.table.map p = (g.s.table.map (f.h.w.length + ·)).map p ∧
      c.h.x = f.h.x ++ g.h.x ∧
      c.h.s.sources = (IC.tensorR f.h.s g.h.s).sources ∧
      c.h.t.sources = (IC.tensorR f.h.t g.h.t).sources ∧
      c.h.s.values.table = (IC.tensorR f.h.s g.h.s).values.table.map p ∧
      c.h.t.values.table = (IC.tensorR f.h.t g.h.t).values.table.map p ∧
      c.s.table = f.s.table.map p ∧
      c.t.table = (g.t.table.map (f.h.w.length + ·)).map p := by
  have hlen : f.t.table.length = g.s.table.length := by
    have := congrArg List.length hty
    rwa [FinFun.gatherP_length _ _ hf.tgt_lt, FinFun.gatherP_length _ _ hg.src_lt] at this
  obtain ⟨q, w', hq, hqw, hqs, hsurj, hwl, hgw, hc⟩ := OHG.compose_ok B hB f g hf hg hty
  have hwl' := C06.inject0_wf f.t g.h.w.length hf.tgt_wf
  have hwr' := C06.inject1_wf g.s f.h.w.length hg.src_wf
  obtain ⟨q', hq', _, _, _, hker, hgen⟩ := C06.coequalizer_spec B hB
    (FinFun.inject0 f.t g.h.w.length) (FinFun.inject1 g.s f.h.w.length) hwl' hwr'
    (by simp [FinFun.source, FinFun.inject0, FinFun.inject1, hlen])
    (by simp only [FinFun.inject0, FinFun.inject1]; rw [hf.tgt_nodes, hg.src_nodes, Nat.add_comm])
  rw [hq] at hq'
  cases hq'
  have htg : (FinFun.inject0 f.t g.h.w.length).target = f.h.w.length + g.h.w.length := by
    simp only [FinFun.inject0]; rw [hf.tgt_nodes, Nat.add_comm]
  rw [htg] at hker
  have hget : ∀ i, i < f.h.w.length + g.h.w.length → q.table[i]? = some (q.table.getD i 0) := by
    intro i hi
    have : i < q.table.length := by rw [← hqs] at hi; exact hi
    simp [List.getD_eq_getElem?_getD, List.getElem?_eq_getElem this]
  have hcw := (OHG.wf_iff _).1 (C01.compose_isGluing B hB f g _ ((OHG.wf_iff f).2 hf)
    ((OHG.wf_iff g).2 hg) hc).2
  have hmap : ∀ l : List Nat, (∀ i ∈ l, i < f.h.w.length + g.h.w.length) →
      Prim.gatherP q.table l = l.map (fun i => q.table.getD i 0) :=
    fun l hl => FinFun.gatherP_eq_map _ _ _ (fun i hi => hget i (hl i hi))
  refine ⟨_, fun i => q.table.getD i 0, hc, hcw, ?_, ?_, ?_, ?_, ?_, rfl, rfl, rfl, rfl, rfl, ?_, ?_⟩
  · intro i hi
    show _ < w'.length
    rw [hwl]; exact FinFun.getD_lt q hqw i (by rw [hqs]; exact hi)
  · intro k hk
    have hk' : k < q.target := by rw [← hwl]; exact hk
    obtain ⟨i, hi⟩ := List.mem_iff_getElem?.1 (hsurj k hk')
    have hil : i < f.h.w.length + g.h.w.length := by
      rw [← hqs]; exact (List.getElem?_eq_some_iff.1 hi).1
    refine ⟨i, hil, ?_⟩
    have := hget i hil
    rw [hi] at this
    exact (Option.some.inj this).symm
  · intro i hi
    show w'[_]? = _
    have := congrArg (·[i]?) hgw
    simp only [FinFun.gatherP_getElem? _ _ (fun c hc' => by rw [hwl]; exact hqw c hc'), hget i hi,
      Option.bind_some] at this
    exact this
  · intro i j hi hj
    have := hker i j hi hj
    rw [hget i hi, hget j hj, Option.some.injEq] at this
    exact this
  · apply List.ext_getElem?
    intro k
    simp only [List.getElem?_map]
    cases ha : f.t.table[k]? with
    | none =>
      have : g.s.table[k]? = none := by
        rw [List.getElem?_eq_none_iff] at ha ⊢; omega
      rw [this]; rfl
    | some a =>
      have hk : k < g.s.table.length := by
        rw [← hlen]; exact (List.getElem?_eq_some_iff.1 ha).1
      rw [List.getElem?_eq_getElem hk]
      simp only [Option.map_some, Option.some.injEq]
      have hb : (FinFun.inject1 g.s f.h.w.length).table[k]? = some (f.h.w.length + g.s.table[k]) := by
        simp [FinFun.inject1, List.getElem?_eq_getElem hk]
      have := hgen k a _ ha hb
      have ha' : a < f.h.w.length + g.h.w.length := by
        have := hf.tgt_lt a (List.mem_of_getElem? ha); omega
      have hb' : f.h.w.length + g.s.table[k] < f.h.w.length + g.h.w.length := by
        have := hg.src_lt _ (List.getElem_mem hk); omega
      rw [hget _ ha', hget _ hb', Option.some.injEq] at this
      exact this
  · exact hmap _ (fun i hi => by have := hf.src_lt i hi; omega)
  · apply hmap
    intro i hi
    obtain ⟨j, hj, rfl⟩ := List.mem_map.1 hi
    have := hg.tgt_lt j hj; omega

/-- PRESERVATION OF COMPOSITION: `F(f ; g) ≅ F(f) ; F(g)` for a functor generated by `obj` on
    objects, well-typed on batches, whose operation part is monoidal up to isomorphism -/
theorem map_comp [DecidableEq O1] [DecidableEq O2] (B : Backend) (hB : B.Lawful)
    (F : SFunctor O1 A1 O2 A2) (obj : O1 → List O2) (hF : FunctorHom F obj) (hT : OpsTensor F)
    (f g : OHG O1 A1) (hf : f.wf = true) (hg : g.wf = true) (hty : f.target = g.source) :
    ∃ (c : OHG O1 A1) (r rf rg t : OHG O2 A2), OHG.compose B f g = .ok c ∧
      SFunctor.mapArrow B F c = .ok r ∧ SFunctor.mapArrow B F f = .ok rf ∧
      SFunctor.mapArrow B F g = .ok rg ∧ OHG.compose B rf rg = .ok t ∧
      r.wf = true ∧ t.wf = true ∧ r.toPlain ≅ t.toPlain := by
  have hfW := (OHG.wf_iff f).1 hf
  have hgW := (OHG.wf_iff g).1 hg
  have hty' : Prim.gatherP f.h.w f.t.table = Prim.gatherP g.h.w g.s.table := by
    rw [OHG.target_eq f hfW.tgt_wf hfW.tgt_nodes, OHG.source_eq g hgW.src_wf hgW.src_nodes] at hty
    exact Res.ok.inj hty
  obtain ⟨c, p, hc, hcW, plt, ponto, plab, pker, pgen, cx, css, cts, csv, ctv, cs, ct⟩ :=
    compose_quotient_data B hB f g hfW hgW hty'
  have hfgW := OHG.tensorR_WF f g hfW hgW
  -- functor data
  obtain ⟨fw1, fx1, ok1, seg1, ops1, _⟩ := functorOK_of_hom F obj hF f hfW
  obtain ⟨fw2, fx2, ok2, seg2, ops2, _⟩ := functorOK_of_hom F obj hF g hgW
  obtain ⟨fw, fx, ok, seg, ops, _⟩ := functorOK_of_hom F obj hF (OHG.tensorR f g) hfgW
  obtain ⟨fwc, fxc, okc, segc, opsc, _⟩ := functorOK_of_hom F obj hF c hcW
  obtain ⟨rf, hrf, wrf, _, trf, q1⟩ := mapArrow_subst B hB F f fw1 fx1 hfW ok1
  obtain ⟨rg, hrg, wrg, srg, _, q2⟩ := mapArrow_subst B hB F g fw2 fx2 hgW ok2
  obtain ⟨r, hr, wr, _, _, qc⟩ := mapArrow_subst B hB F c fwc fxc hcW okc
  -- the images compose
  have htyR : rf.target = rg.source := by
    rw [trf, srg, expandTy_eq_flatMap fw1 f.h.w obj seg1 _ hfW.tgt_lt,
      expandTy_eq_flatMap fw2 g.h.w obj seg2 _ hgW.src_lt, hty']
  obtain ⟨t, ht, wt, hglue, _, _⟩ := C03.compose_facts B hB rf rg wrf wrg htyR
  refine ⟨c, r, rf, rg, t, hc, hr, hrf, hrg, ht, wr, wt, ?_⟩
  -- the batch of `c` is the batch of `f ⊗ g`
  have hw : (OHG.tensorR f g).h.w = f.h.w ++ g.h.w := rfl
  have hnn : (f.h.w ++ g.h.w).length = f.h.w.length + g.h.w.length := List.length_append
  have hgp : ∀ S : List Nat, (∀ i ∈ S, i < f.h.w.length + g.h.w.length) →
      Prim.gatherP c.h.w (S.map p) = Prim.gatherP (f.h.w ++ g.h.w) S := by
    intro S hS
    rw [gatherP_map_idx]
    exact LaxType.filterMap_congr' _ _ _ (fun i hi => plab i (hS i hi))
  have hSlt : ∀ i ∈ (IC.tensorR f.h.s g.h.s).values.table, i < f.h.w.length + g.h.w.length := by
    intro i hi; have := hfgW.hyper.src_lt i hi; rwa [hw, hnn] at this
  have hTlt : ∀ i ∈ (IC.tensorR f.h.t g.h.t).values.table, i < f.h.w.length + g.h.w.length := by
    intro i hi; have := hfgW.hyper.tgt_lt i hi; rwa [hw, hnn] at this
  have hopsc : opsOf c = opsOf (OHG.tensorR f g) := by
    unfold opsOf
    rw [cx, css, cts, csv, ctv, hgp _ hSlt, hgp _ hTlt]
    rfl
  rw [hopsc, ops] at opsc
  injection opsc with opsc
  subst opsc
  rw [opsOf_tensor f g hfW] at ops
  have hX := hT _ _ fx1 fx2 fx (opsOf_valid f hfW) (opsOf_valid g hgW) ops1 ops2 ops
  -- object images
  rw [hw] at seg
  obtain ⟨val, ks⟩ := fw_values_of_hom fw ok.valid _ obj seg
  obtain ⟨val1, ks1⟩ := fw_values_of_hom fw1 ok1.valid _ obj seg1
  obtain ⟨val2, ks2⟩ := fw_values_of_hom fw2 ok2.valid _ obj seg2
  obtain ⟨valc, ksc⟩ := fw_values_of_hom fwc okc.valid _ obj segc
  have hks : fw.sources.table = fw1.sources.table ++ fw2.sources.table := by
    rw [ks, ks1, ks2, List.map_append]
  have hW : fw.values = fw1.values ++ fw2.values := by
    rw [val, val1, val2, List.flatMap_append]
  have hn1 : f.h.w.length = fw1.sources.table.length := by rw [ks1, List.length_map]
  have hkl : fw.sources.table.length = f.h.w.length + g.h.w.length := by
    rw [ks, List.length_map, hnn]
  have hkcl : fwc.sources.table.length = c.h.w.length := by rw [ksc, List.length_map]
  -- the lifted quotient map on the expanded nodes
  have hcp : SizeCompat fw.sources.table fwc.sources.table p := by
    intro j hj
    rw [hkl] at hj
    refine ⟨by rw [hkcl]; exact plt j hj, ?_⟩
    rw [ks, ksc]
    simp only [List.getD_eq_getElem?_getD, List.getElem?_map, plab j hj]
  have sumW : fw.sources.table.sum = fw.values.length := (fw_sizes fw ok.valid).2
  have sumWc : fwc.sources.table.sum = fwc.values.length := (fw_sizes fwc okc.valid).2
  have hpl : ∀ v, v < fw.values.length →
      liftPos fw.sources.table fwc.sources.table p v < fwc.values.length := by
    intro v hv; rw [← sumWc]; exact liftPos_lt hcp v (by rw [sumW]; exact hv)
  have hpo : ∀ v', v' < fwc.values.length → ∃ v, v < fw.values.length ∧
      liftPos fw.sources.table fwc.sources.table p v = v' := by
    intro v' hv'
    obtain ⟨v, h1, h2⟩ := liftPos_onto hcp (by
      intro k hk
      rw [hkcl] at hk
      obtain ⟨i, hi, hik⟩ := ponto k hk
      exact ⟨i, by rw [hkl]; exact hi, hik⟩) v' (by rw [sumWc]; exact hv')
    exact ⟨v, by rw [← sumW]; exact h1, h2⟩
  have hpb : ∀ i, i < fw.values.length →
      fwc.values[liftPos fw.sources.table fwc.sources.table p i]? = fw.values[i]? := by
    intro i hi
    rw [← sumW] at hi
    obtain ⟨b1, b2, b3⟩ := blk_spec _ i hi
    obtain ⟨c1, c2⟩ := hcp _ b1
    have hj : blkOf fw.sources.table i < f.h.w.length + g.h.w.length := by rw [← hkl]; exact b1
    have e1 : fw.values[i]? =
        (fw.segsL.getD (blkOf fw.sources.table i) [])[offOf fw.sources.table i]? := by
      conv => lhs; rw [← b3]
      exact values_getElem? fw ok.valid _ _ b1 b2
    have e2 : fwc.values[liftPos fw.sources.table fwc.sources.table p i]? =
        (fwc.segsL.getD (p (blkOf fw.sources.table i)) [])[offOf fw.sources.table i]? :=
      values_getElem? fwc okc.valid _ _ c1 (by rw [c2]; exact b2)
    rw [e1, e2, seg, segc]
    simp only [List.getD_eq_getElem?_getD, List.getElem?_map, plab _ hj]
  have hex : ∀ ids : List Nat, (∀ i ∈ ids, i < f.h.w.length + g.h.w.length) →
      expand fwc (ids.map p) =
        (expand fw ids).map (liftPos fw.sources.table fwc.sources.table p) := by
    intro ids hids
    rw [expand_eq fwc okc.valid, expand_eq fw ok.valid, flatMap_blockS_map_liftPos hcp]
    intro i hi
    rw [hkl]; exact hids i hi
  -- expansions along the object images of `f ⊗ g` in terms of those of `f` and `g`
  have hexL : ∀ l : List Nat, (∀ i ∈ l, i < f.h.w.length) → expand fw l = expand fw1 l := by
    intro l hl
    rw [expand_eq fw ok.valid, expand_eq fw1 ok1.valid, hks,
      flatMap_blockS_append_left _ _ _ (fun i hi => by rw [← hn1]; exact hl i hi)]
  have hexR : ∀ l : List Nat, expand fw (l.map (f.h.w.length + ·)) =
      (expand fw2 l).map (fw1.values.length + ·) := by
    intro l
    rw [expand_eq fw ok.valid, expand_eq fw2 ok2.valid, hks, hn1, flatMap_blockS_append_right,
      (fw_sizes fw1 ok1.valid).2]
  have ex : ∀ (a b : FinFun), a.WF → a.target = f.h.w.length →
      expand fw (FinFun.tensor a b).table =
        expand fw1 a.table ++ (expand fw2 b.table).map (fw1.values.length + ·) := by
    intro a b ha hat
    show expand fw (a.table ++ b.table.map (a.target + ·)) = _
    exact expand_tensor fw fw1 fw2 ok.valid ok1.valid ok2.valid hks _ _ _ (hat.trans hn1)
      (fun i hi => ha i hi)
  have e3 : expand fw (IC.tensorR f.h.s g.h.s).values.table = _ :=
    ex f.h.s.values g.h.s.values hfW.hyper.src.range hfW.hyper.src_nodes
  have e4 : expand fw (IC.tensorR f.h.t g.h.t).values.table = _ :=
    ex f.h.t.values g.h.t.values hfW.hyper.tgt.range hfW.hyper.tgt_nodes
  -- bounds
  obtain ⟨a1, _, _⟩ := expand_spec fw1 ok1.valid f.s hfW.src_wf (hfW.src_nodes.trans ok1.len.symm)
  obtain ⟨a2, _, _⟩ := expand_spec fw1 ok1.valid f.t hfW.tgt_wf (hfW.tgt_nodes.trans ok1.len.symm)
  obtain ⟨a3, _, _⟩ := expand_spec fw1 ok1.valid f.h.s.values hfW.hyper.src.range
    (hfW.hyper.src_nodes.trans ok1.len.symm)
  obtain ⟨a4, _, _⟩ := expand_spec fw1 ok1.valid f.h.t.values hfW.hyper.tgt.range
    (hfW.hyper.tgt_nodes.trans ok1.len.symm)
  obtain ⟨b1, _, _⟩ := expand_spec fw2 ok2.valid g.s hgW.src_wf (hgW.src_nodes.trans ok2.len.symm)
  obtain ⟨b2, _, _⟩ := expand_spec fw2 ok2.valid g.t hgW.tgt_wf (hgW.tgt_nodes.trans ok2.len.symm)
  obtain ⟨b3, _, _⟩ := expand_spec fw2 ok2.valid g.h.s.values hgW.hyper.src.range
    (hgW.hyper.src_nodes.trans ok2.len.symm)
  obtain ⟨b4, _, _⟩ := expand_spec fw2 ok2.valid g.h.t.values hgW.hyper.tgt.range
    (hgW.hyper.tgt_nodes.trans ok2.len.symm)
  have lift : ∀ (l l' : List Nat), (∀ v ∈ l, v < fw1.values.length) →
      (∀ v ∈ l', v < fw2.values.length) →
      ∀ v ∈ l ++ l'.map (fw1.values.length + ·), v < (fw1.values ++ fw2.values).length := by
    intro l l' h1 h2 v hv
    rw [List.length_append]
    rcases List.mem_append.1 hv with hv | hv
    · have := h1 v hv; omega
    · obtain ⟨j, hj', rfl⟩ := List.mem_map.1 hv
      have := h2 j hj'; omega
  have X1 := C03.wfP ((OHG.wf_iff fx1).2 ok1.wf)
  have X2 := C03.wfP ((OHG.wf_iff fx2).2 ok2.wf)
  have Xw := C03.wfP ((OHG.wf_iff fx).2 ok.wf)
  -- the presentation of `F(c)`
  rw [substPre_eq, substRel_eq, cs, ct, csv, ctv, hex _ (fun i hi => by have := hfW.src_lt i hi; omega),
    hex _ (fun i hi => by
      obtain ⟨j, hj, rfl⟩ := List.mem_map.1 hi
      have := hgW.tgt_lt j hj; omega),
    hex _ hSlt, hex _ hTlt, hexL _ hfW.src_lt, hexR, e3, e4] at qc
  -- the presentation of `F(f) ; F(g)`
  rw [substPre_eq, substRel_eq] at q1 q2
  obtain ⟨l1, l2⟩ := fx_lengths hfW ok1
  have hG := subst_glue X1 X2 a1 a2 a3 a4 b1 b2 b3 b4 l1 l2 q1 q2 hglue
  -- the two generating relations generate the same equivalence
  have EA : expand fw f.t.table = expand fw1 f.t.table := hexL _ hfW.tgt_lt
  have EB : expand fw (g.s.table.map (f.h.w.length + ·)) =
      (expand fw2 g.s.table).map (fw1.values.length + ·) := hexR _
  have hPn := substP_n (fw1.values ++ fw2.values) (expand fw1 f.s.table)
    ((expand fw2 g.t.table).map (fw1.values.length + ·)) (PDiag.juxt fx1.toPlain fx2.toPlain)
  have hWl : (fw1.values ++ fw2.values).length = fw.values.length := by rw [hW]
  have hmapped : (expand fw f.t.table).map (liftPos fw.sources.table fwc.sources.table p) =
      (expand fw (g.s.table.map (f.h.w.length + ·))).map
        (liftPos fw.sources.table fwc.sources.table p) := by
    rw [← hex _ (fun i hi => by have := hfW.tgt_lt i hi; omega), ← hex _ (fun i hi => by
      obtain ⟨j, hj, rfl⟩ := List.mem_map.1 hi
      have := hgW.src_lt j hj; omega), pgen]
  have hlen : f.t.table.length = (g.s.table.map (f.h.w.length + ·)).length := by
    have := congrArg List.length hty'
    rw [FinFun.gatherP_length _ _ hfW.tgt_lt, FinFun.gatherP_length _ _ hgW.src_lt] at this
    rw [List.length_map]; exact this
  have hsz : ∀ pr ∈ f.t.table.zip (g.s.table.map (f.h.w.length + ·)),
      fw.sources.table.getD pr.1 0 = fw.sources.table.getD pr.2 0 := by
    intro pr hpr
    obtain ⟨k, hk⟩ := List.mem_iff_getElem?.1 hpr
    obtain ⟨h1, h2⟩ := List.getElem?_zip_eq_some.1 hk
    rw [List.getElem?_map] at h2
    cases hb : g.s.table[k]? with
    | none => rw [hb] at h2; cases h2
    | some b =>
      rw [hb] at h2
      have e2 : pr.2 = f.h.w.length + b := (Option.some.inj h2).symm
      have ha := hfW.tgt_lt _ (List.mem_of_getElem? h1)
      have hb' := hgW.src_lt _ (List.mem_of_getElem? hb)
      have := congrArg (·[k]?) hty'
      simp only [FinFun.gatherP_getElem? _ _ hfW.tgt_lt, FinFun.gatherP_getElem? _ _ hgW.src_lt,
        h1, hb, Option.bind_some] at this
      rw [ks, e2]
      simp only [List.getD_eq_getElem?_getD, List.getElem?_map,
        List.getElem?_append_left ha, List.getElem?_append_right (Nat.le_add_right _ _),
        Nat.add_sub_cancel_left, this]
  have hG' := IsQuot.congr_eqv (R' := fun a b =>
      (a < (fw1.values ++ fw2.values).length ∧ b < (fw1.values ++ fw2.values).length ∧
        liftPos fw.sources.table fwc.sources.table p a =
          liftPos fw.sources.table fwc.sources.table p b) ∨
      substR (fw1.values ++ fw2.values)
        (expand fw1 f.h.s.values.table ++ (expand fw2 g.h.s.values.table).map (fw1.values.length + ·))
        (expand fw1 f.h.t.values.table ++ (expand fw2 g.h.t.values.table).map (fw1.values.length + ·))
        (PDiag.juxt fx1.toPlain fx2.toPlain) a b) hG (by
    intro i j _ _
    constructor
    · refine EqvOn.map (φ := fun x => x) ?_
      rintro a b ha hb (hr | ⟨k, h1, h2⟩)
      · exact EqvOn.of_rel ha hb (Or.inr hr)
      · refine EqvOn.of_rel ha hb (Or.inl ?_)
        cases hc' : (expand fw2 g.s.table)[k]? with
        | none => rw [hc'] at h2; cases h2
        | some b0 =>
          rw [hc'] at h2
          have eb : b = fw1.values.length + b0 := (Option.some.inj h2).symm
          have hal := a2 a (List.mem_of_getElem? h1)
          have hbl := b1 b0 (List.mem_of_getElem? hc')
          refine ⟨by rw [List.length_append]; omega, by rw [List.length_append]; omega, ?_⟩
          have := congrArg (·[k]?) hmapped
          rw [EA, EB] at this
          simp only [List.getElem?_map, h1, hc', Option.map_some, Option.some.injEq] at this
          rw [eb]; exact this
    · refine EqvOn.map (φ := fun x => x) ?_
      rintro a b ha hb (⟨hal, hbl, e⟩ | hr)
      · rw [hWl, ← sumW] at hal hbl
        obtain ⟨x1, x2, x3⟩ := blk_spec _ a hal
        obtain ⟨y1, y2, y3⟩ := blk_spec _ b hbl
        obtain ⟨e1, e2⟩ := liftPos_eq hcp a b hal hbl e
        have hk := (pker _ _ (by rw [← hkl]; exact x1) (by rw [← hkl]; exact y1)).1 e1
        obtain ⟨_, hl'⟩ := lift_glue fw.sources.table _ _ hlen hsz hk
        have := hl' _ x2
        rw [x3, e2, y3] at this
        refine EqvGen.mono ?_ _ _ this
        rintro x y ⟨k, h1, h2⟩
        rw [← expand_eq fw ok.valid, EA] at h1
        rw [← expand_eq fw ok.valid, EB, List.getElem?_map] at h2
        have hx := a2 x (List.mem_of_getElem? h1)
        cases hc' : (expand fw2 g.s.table)[k]? with
        | none => rw [hc'] at h2; cases h2
        | some b0 =>
          rw [hc'] at h2
          have ey : y = fw1.values.length + b0 := (Option.some.inj h2).symm
          have hbl' := b1 b0 (List.mem_of_getElem? hc')
          refine ⟨by rw [hPn, List.length_append]; omega, by rw [hPn, List.length_append]; omega,
            Or.inr ⟨k, h1, by rw [hc', ey]; rfl⟩⟩
      · exact EqvOn.of_rel ha hb (Or.inl hr))
  -- push the presentation down along the lifted quotient map
  have hQ := subst_quotient (π := liftPos fw.sources.table fwc.sources.table p)
    (W' := fwc.values) (juxt_wf X1 X2)
    (fun v hv => by have := a1 v hv; rw [List.length_append]; omega)
    (fun v hv => by
      obtain ⟨j, hj, rfl⟩ := List.mem_map.1 hv
      have := b2 j hj; rw [List.length_append]; omega)
    (lift _ _ a3 b3) (lift _ _ a4 b4)
    (fun v hv => hpl v (hWl ▸ hv))
    (fun v' hv' => by
      obtain ⟨v, h1, h2⟩ := hpo v' hv'
      exact ⟨v, hWl ▸ h1, h2⟩)
    (fun v hv => by rw [← hW]; exact hpb v (hWl ▸ hv)) hG'
  have mlt : ∀ l : List Nat, (∀ v ∈ l, v < (fw1.values ++ fw2.values).length) →
      ∀ v ∈ l.map (liftPos fw.sources.table fwc.sources.table p), v < fwc.values.length := by
    intro l hl v hv
    obtain ⟨j, hj, rfl⟩ := List.mem_map.1 hv
    exact hpl j (hWl ▸ hl j hj)
  exact subst_congr Xw
    (mlt _ (fun v hv => by have := a1 v hv; rw [List.length_append]; omega))
    (mlt _ (fun v hv => by
      obtain ⟨j, hj, rfl⟩ := List.mem_map.1 hv
      have := b2 j hj; rw [List.length_append]; omega))
    (mlt _ (lift _ _ a3 b3)) (mlt _ (lift _ _ a4 b4)) hX qc hQ

/-- the hypotheses of `map_comp` (and `map_tensor`) hold for the strict identity functor and for the
    size-changing functor `tyExG`, on the composable pair `C01.exF ; C01.exG` -/
example : FunctorHom (SFunctor.identityF (O := Nat) (A := Nat)) (fun o => [o]) ∧
    OpsTensor (SFunctor.identityF (O := Nat) (A := Nat)) ∧
    FunctorHom (LFunctor.toDyn vecBackend tyExG) tyExG.mapObject ∧
    OpsTensor (LFunctor.toDyn vecBackend tyExG) ∧
    C01.exF.wf = true ∧ C01.exG.wf = true ∧ C01.exF.target = C01.exG.source :=
  ⟨identityF_hom, identityF_opsTensor,
    dyn_hom vecBackend vecBackend_lawful tyExG _
      (fun a s t => genOK_singleton (fun o => List.replicate (o - 10) o) (fun a _ _ => a + 1) a s t),
    dyn_opsTensor vecBackend vecBackend_lawful tyExG _
      (fun a s t => genOK_singleton (fun o => List.replicate (o - 10) o) (fun a _ _ => a + 1) a s t),
    by decide, by decide, by decide⟩

/-- a functor that doubles every object (`o ↦ [o, o]`) and sends every operation to a single
    operation on the doubled types, on the composite `C01.exF ; C01.exG` (whose gluing merges four
    nodes into one): both sides of `map_comp`, Vec backend -/
example :
    (OHG.toPlain <$> (OHG.compose vecBackend C01.exF C01.exG >>=
      SFunctor.mapArrow vecBackend (LFunctor.toDyn vecBackend C13.dbl))) =
      .ok ⟨[10, 10, 20, 20, 30, 30], [⟨7, [0, 1], [2, 3, 2, 3]⟩, ⟨8, [2, 3, 2, 3], [4, 5]⟩],
        [0, 1], [4, 5]⟩ ∧
    (OHG.toPlain <$> (SFunctor.mapArrow vecBackend (LFunctor.toDyn vecBackend C13.dbl) C01.exF >>=
      fun a => SFunctor.mapArrow vecBackend (LFunctor.toDyn vecBackend C13.dbl) C01.exG >>=
      fun b => OHG.compose vecBackend a b)) =
      .ok ⟨[10, 10, 20, 20, 30, 30], [⟨7, [0, 1], [2, 3, 2, 3]⟩, ⟨8, [2, 3, 2, 3], [4, 5]⟩],
        [0, 1], [4, 5]⟩ := by decide

/-- DISCREPANCY: well-typedness of the functor data (`FunctorHom`) alone does NOT give
    preservation of the tensor (nor of composition).  `countF` is the identity on objects and maps
    a batch to the tensor of its operations, each RELABELLED by the size of the batch — the
    `map_operations` of the `Functor` trait receives whole batches, so nothing forces it to act
    operation-wise. -/
def countF : SFunctor Nat Nat Nat Nat :=
  ⟨fun a => IC.elements a, fun ops =>
    OHG.tensorOperations ⟨ops.x.map (fun _ => ops.x.length), ops.a, ops.b⟩⟩

theorem countF_hom : FunctorHom countF (fun o => [o]) := by
  refine ⟨?_, ?_⟩
  · intro a
    obtain ⟨c, hc, hs, hv, _⟩ := identityF_mapObject (A := Nat) a
    exact ⟨c, hc, hv, hs⟩
  · intro ops ha hb hla hlb
    obtain ⟨r, hr, hw, hs, ht, _⟩ := C05.tensorOperations_wf_type
      ⟨ops.x.map (fun _ => ops.x.length), ops.a, ops.b⟩ ha hb
      (by simpa using hla) (by simpa using hlb)
    refine ⟨r, hr, hw, ?_, ?_⟩
    · rw [hs]; simp
    · rw [ht]; simp

/-- … `countF(f ⊗ f)` carries the edge labels `2, 2`, `countF(f) ⊗ countF(f)` the labels `1, 1` -/
theorem map_tensor_needs_opsTensor :
    FunctorHom countF (fun o => [o]) ∧ tyExF.wf = true ∧
    ∃ r t : OHG Nat Nat,
      (OHG.tensor tyExF tyExF >>= SFunctor.mapArrow vecBackend countF) = .ok r ∧
      (SFunctor.mapArrow vecBackend countF tyExF >>= fun rf => OHG.tensor rf rf) = .ok t ∧
      ¬ (r.toPlain ≅ t.toPlain) := by
  have e1 : OHG.toPlain <$> (OHG.tensor tyExF tyExF >>= SFunctor.mapArrow vecBackend countF) =
      .ok ⟨[10, 11, 12, 10, 11, 12], [⟨2, [0, 1], [2]⟩, ⟨2, [3, 4], [5]⟩], [0, 0, 3, 3],
        [2, 1, 5, 4]⟩ := by decide
  have e2 : OHG.toPlain <$> (SFunctor.mapArrow vecBackend countF tyExF >>= fun rf =>
      OHG.tensor rf rf) =
      .ok ⟨[10, 11, 12, 10, 11, 12], [⟨1, [0, 1], [2]⟩, ⟨1, [3, 4], [5]⟩], [0, 0, 3, 3],
        [2, 1, 5, 4]⟩ := by decide
  refine ⟨countF_hom, by decide, ?_⟩
  cases h1 : (OHG.tensor tyExF tyExF >>= SFunctor.mapArrow vecBackend countF) with
  | none => rw [h1] at e1; cases e1
  | panic m => rw [h1] at e1; cases e1
  | ok r =>
    cases h2 : (SFunctor.mapArrow vecBackend countF tyExF >>= fun rf => OHG.tensor rf rf) with
    | none => rw [h2] at e2; cases e2
    | panic m => rw [h2] at e2; cases e2
    | ok t =>
      rw [h1] at e1
      rw [h2] at e2
      have p1 : r.toPlain = _ := Res.ok.inj e1
      have p2 : t.toPlain = _ := Res.ok.inj e2
      refine ⟨r, t, rfl, rfl, ?_⟩
      rw [p1, p2]
      rintro ⟨π, ρ, _, bρ, _, he, _⟩
      have h0 := he 0 (by decide)
      have hρ : ρ 0 < 2 := bρ.1 0 (by decide)
      have hcases : ρ 0 = 0 ∨ ρ 0 = 1 := by omega
      rcases hcases with h | h
      · rw [h] at h0
        simp [PEdge.mapNodes] at h0
      · rw [h] at h0
        simp [PEdge.mapNodes] at h0

end OH.C12
