/-
  C13 — the native lax functor path (src/lax/functor/traits.rs): `try_define_map_arrow` refuses
  diagrams with pending unifications, and `map_arrow_witness` returns, next to the image, the
  relation "input node i ↦ the |F(label i)| nodes of the middle identity".
-/
import OHVerif.Model.Functor
import OHVerif.Lemmas.Segs
import OHVerif.Props.C06

namespace OH.C13
open OH

variable {O1 A1 O2 A2 O A : Type}

/-! ### refusal -/

/-- a diagram with pending unifications is refused: absence (`None`), not a panic, not a diagram -/
theorem native_refuses (F : LFunctor O1 A1 O2 A2) (d : LOHG O1 A1)
    (h : d.hypergraph.isStrict = false) :
    LFunctor.tryMapArrow F d = .none ∧ LFunctor.mapArrowWitness F d = .none := by
  simp [LFunctor.tryMapArrow, LFunctor.mapArrowWitness, h]

/-- a non-trivial refused input: two nodes with one recorded (unresolved) unification -/
example : (⟨[0], [1], ⟨[5, 5], [], [], ([0], [1])⟩⟩ : LOHG Nat Nat).hypergraph.isStrict = false := by
  decide

/-! ### inversion of `Res` binds -/

theorem bind_eq_ok {α β : Type} (x : Res α) (f : α → Res β) (b : β) :
    (x >>= f) = .ok b ↔ ∃ a, x = .ok a ∧ f a = .ok b := by
  cases x with
  | ok a => simp
  | none => simp
  | panic s => simp

/-! ### node lists of the lax constructions -/

theorem foldl_unify_nodes (l : List (Nat × Nat)) (n : Nat) (h : LHG O A) :
    (l.foldl (fun h p => h.unify p.1 (p.2 + n)) h).nodes = h.nodes := by
  induction l generalizing h with
  | nil => rfl
  | cons p l ih => rw [List.foldl_cons, ih]; rfl

theorem laxCompose_nodes (f g r : LOHG O A) (h : LOHG.laxCompose f g = .ok r) :
    r.hypergraph.nodes = f.hypergraph.nodes ++ g.hypergraph.nodes := by
  unfold LOHG.laxCompose at h
  split at h
  · cases h
  · injection h with h
    subst h
    simp only [foldl_unify_nodes]
    rfl

theorem spider_ok (s t : FinFun) (w : List O) (r : LOHG O A) (h : LOHG.spider s t w = .ok r) :
    r = ⟨s.table, t.table, LHG.discrete w⟩ := by
  unfold LOHG.spider at h
  split at h
  · cases h
  · injection h with h; exact h.symm

/-- the image is `sx ; (i ⊗ fx) ; yt` with node lists concatenated in that order -/
theorem spiderMapArrowL_nodes (f : LOHG O1 A1) (fw : List (List O2)) (fx r : LOHG O2 A2)
    (h : LFunctor.spiderMapArrowL f fw fx = .ok r) :
    r.hypergraph.nodes = fw.flatten ++ (fw.flatten ++ fx.hypergraph.nodes) ++ fw.flatten := by
  unfold LFunctor.spiderMapArrowL at h
  simp only [bind_eq_ok] at h
  obtain ⟨fs, -, ft, -, es, -, et, -, idf, -, sxT, -, sx, hsx, ytS, -, yt, hyt, a, ha, hr⟩ := h
  have h1 := laxCompose_nodes _ _ _ hr
  have h2 := laxCompose_nodes _ _ _ ha
  rw [h1, h2, spider_ok _ _ _ _ hsx, spider_ok _ _ _ _ hyt]
  rfl

/-! ### the witness -/

theorem le_sum_of_mem (l : List Nat) (x : Nat) (h : x ∈ l) : x ≤ l.sum := by
  induction l with
  | nil => cases h
  | cons a l ih =>
    simp only [List.mem_cons] at h
    simp only [List.sum_cons]
    rcases h with rfl | h
    · omega
    · have := ih h; omega

/-- the witness relation for an image `r`: segment sizes `|F(label i)|`, values `n .. 2n` -/
def witnessOf (F : LFunctor O1 A1 O2 A2) (d : LOHG O1 A1) (r : LOHG O2 A2) : IC FinFun :=
  let sizes := d.hypergraph.nodes.map (fun o => (F.mapObject o).length)
  ⟨⟨sizes, sizes.sum + 1⟩, ⟨List.range' sizes.sum sizes.sum, r.hypergraph.nodes.length⟩⟩

/-- `map_arrow_witness` is `try_define_map_arrow` paired with `witnessOf`: none of the three checked
    constructors of the witness can fail once the image exists. -/
theorem mapArrowWitness_eq (F : LFunctor O1 A1 O2 A2) (d : LOHG O1 A1) :
    LFunctor.mapArrowWitness F d =
      (LFunctor.tryMapArrow F d >>= fun r => .ok (r, witnessOf F d r)) := by
  unfold LFunctor.mapArrowWitness LFunctor.tryMapArrow
  split
  · rfl
  · cases hfx : LFunctor.mapOperationsL F d with
    | none => rfl
    | panic s => rfl
    | ok fx =>
      simp only [Res.ok_bind]
      cases hr : LFunctor.spiderMapArrowL d (LFunctor.mapObjectsL F d) fx with
      | none => rfl
      | panic s => rfl
      | ok r =>
        simp only [Res.ok_bind]
        have hnodes := spiderMapArrowL_nodes _ _ _ _ hr
        have hsz : (LFunctor.mapObjectsL F d).map List.length =
            d.hypergraph.nodes.map (fun o => (F.mapObject o).length) := by
          simp [LFunctor.mapObjectsL, Function.comp_def]
        have hflat : (LFunctor.mapObjectsL F d).flatten.length =
            (d.hypergraph.nodes.map (fun o => (F.mapObject o).length)).sum := by
          rw [List.length_flatten, hsz]
        rw [FinFun.sum_eq, hsz]
        generalize hn : (d.hypergraph.nodes.map (fun o => (F.mapObject o).length)).sum = n at *
        have h1 : FinFun.new (List.range' n n) r.hypergraph.nodes.length =
            .ok ⟨List.range' n n, r.hypergraph.nodes.length⟩ := by
          apply IC.finfun_new_ok
          intro x hx
          have := List.mem_range'_1.mp hx
          rw [hnodes]
          simp only [List.length_append, hflat]
          omega
        have h2 : FinFun.new (d.hypergraph.nodes.map (fun o => (F.mapObject o).length)) (n + 1) =
            .ok ⟨d.hypergraph.nodes.map (fun o => (F.mapObject o).length), n + 1⟩ := by
          apply IC.finfun_new_ok
          intro x hx
          have := le_sum_of_mem _ x hx
          omega
        rw [h1, h2]
        simp only [Res.ok_bind, witnessOf, hn]
        have hv : (⟨⟨d.hypergraph.nodes.map (fun o => (F.mapObject o).length), n + 1⟩,
            ⟨List.range' n n, r.hypergraph.nodes.length⟩⟩ : IC FinFun).valid = true := by
          simp [IC.valid, FinFun.sum_eq, hn, HasLen.len, FinFun.source]
        simp [IC.new, IC.validate, hv]

/-- shape of the witness: input node `i` is related to exactly `|F(label i)|` output nodes, the
    related nodes are `n, n+1, …, 2n-1` in order (`n` the total size), the witness is a valid
    segmented array with in-range values over the nodes of the image, and the image is the one
    `try_define_map_arrow` returns. -/
theorem witness_shape (F : LFunctor O1 A1 O2 A2) (d : LOHG O1 A1) (r : LOHG O2 A2) (w : IC FinFun)
    (h : LFunctor.mapArrowWitness F d = .ok (r, w)) :
    let sizes := d.hypergraph.nodes.map (fun o => (F.mapObject o).length)
    let n := sizes.sum
    LFunctor.tryMapArrow F d = .ok r ∧
    w.sources.table = sizes ∧ w.sources.target = n + 1 ∧
    w.values.table = List.range' n n ∧ w.values.target = r.hypergraph.nodes.length ∧
    w.valid = true ∧ w.values.WF ∧ w.sources.WF := by
  intro sizes n
  rw [mapArrowWitness_eq, bind_eq_ok] at h
  obtain ⟨r', hr', heq⟩ := h
  injection heq with heq
  injection heq with h1 h2
  subst h1
  subst h2
  have hnodes : r'.hypergraph.nodes.length ≥ 2 * n := by
    unfold LFunctor.tryMapArrow at hr'
    split at hr'
    · cases hr'
    · simp only [bind_eq_ok] at hr'
      obtain ⟨fx, -, hr'⟩ := hr'
      rw [spiderMapArrowL_nodes _ _ _ _ hr']
      have : (LFunctor.mapObjectsL F d).flatten.length = n := by
        simp [LFunctor.mapObjectsL, List.length_flatten, Function.comp_def, n, sizes]
      simp only [List.length_append, this]
      omega
  have e1 : sizes.sum = n := rfl
  have e2 : (d.hypergraph.nodes.map (fun o => (F.mapObject o).length)).sum = n := rfl
  refine ⟨hr', rfl, rfl, rfl, rfl, ?_, ?_, ?_⟩
  · simp [witnessOf, IC.valid, FinFun.sum_eq, HasLen.len, FinFun.source]
  · intro x hx
    have := List.mem_range'_1.mp hx
    show x < r'.hypergraph.nodes.length
    omega
  · intro x hx
    have := le_sum_of_mem sizes x hx
    show x < n + 1
    omega

/-- the labels of the related nodes: positions `n .. 2n` of the image carry the flattened object
    images `F(label 0) ++ F(label 1) ++ …` (the nodes of the middle identity), preceded by the `n`
    nodes of `sx` and followed by the nodes of `F` applied to the operations and the `n` nodes of `yt`. -/
theorem witness_labels (F : LFunctor O1 A1 O2 A2) (d : LOHG O1 A1) (r : LOHG O2 A2) (w : IC FinFun)
    (h : LFunctor.mapArrowWitness F d = .ok (r, w)) :
    let flat := (d.hypergraph.nodes.map F.mapObject).flatten
    (∃ fx, LFunctor.mapOperationsL F d = .ok fx ∧
      r.hypergraph.nodes = flat ++ (flat ++ fx.hypergraph.nodes) ++ flat) ∧
    (r.hypergraph.nodes.drop flat.length).take flat.length = flat ∧
    w.values.table.map (fun j => r.hypergraph.nodes[j]?) = flat.map some := by
  intro flat
  obtain ⟨hr, -, -, hv, -⟩ := witness_shape F d r w h
  unfold LFunctor.tryMapArrow at hr
  split at hr
  · cases hr
  · simp only [bind_eq_ok] at hr
    obtain ⟨fx, hfx, hr⟩ := hr
    have hn := spiderMapArrowL_nodes _ _ _ _ hr
    have hflat : (LFunctor.mapObjectsL F d).flatten = flat := rfl
    rw [hflat] at hn
    have hlen : (d.hypergraph.nodes.map (fun o => (F.mapObject o).length)).sum = flat.length := by
      simp [flat, List.length_flatten, Function.comp_def]
    refine ⟨⟨fx, hfx, hn⟩, ?_, ?_⟩
    · rw [hn]
      simp [List.append_assoc]
    · rw [hv, hlen, hn]
      apply List.ext_getElem?
      intro i
      by_cases hi : i < flat.length
      · simp [hi, List.append_assoc, List.getElem?_append_right, List.getElem?_append_left]
      · simp [hi]

/-- segment `i` of the witness read through the node labels of the image is `F(label i)` -/
theorem witness_segments (F : LFunctor O1 A1 O2 A2) (d : LOHG O1 A1) (r : LOHG O2 A2) (w : IC FinFun)
    (h : LFunctor.mapArrowWitness F d = .ok (r, w)) :
    w.segs.map (fun seg => seg.map (fun j => r.hypergraph.nodes[j]?)) =
      d.hypergraph.nodes.map (fun o => (F.mapObject o).map some) := by
  obtain ⟨-, hs, -, -, -⟩ := witness_shape F d r w h
  obtain ⟨-, -, hl⟩ := witness_labels F d r w h
  unfold IC.segs
  rw [← splitSegs_map, hl, hs]
  have := splitSegs_map_length_flatten ((d.hypergraph.nodes.map F.mapObject).map (List.map some))
  simp only [List.map_map, Function.comp_def, List.length_map] at this
  simpa [List.map_flatten, Function.comp_def] using this

/-! ### the native path never panics on its own

  Every failure inside `spider_map_arrow` (dangling node ids, an operation image whose arity does
  not match the expanded type of the operation — the unchecked consistency condition of the
  `Functor` trait) surfaces as `None`; a panic can only come from the user's `map_operation` or
  from an out-of-range index while collecting the operation types of an ill-formed input. -/

def NoPanic {α : Type} (r : Res α) : Prop := ∀ s, r ≠ .panic s

theorem NoPanic.bind {α β : Type} {x : Res α} {f : α → Res β} (hx : NoPanic x)
    (hf : ∀ a, x = .ok a → NoPanic (f a)) : NoPanic (x >>= f) := by
  cases x with
  | ok a => exact hf a rfl
  | none => intro s h; cases h
  | panic s => exact absurd rfl (hx s)

theorem noPanic_ok {α : Type} (a : α) : NoPanic (Res.ok a) := by intro s h; cases h
theorem noPanic_none {α : Type} : NoPanic (Res.none : Res α) := by intro s h; cases h

theorem finfun_new_noPanic (t : List Nat) (n : Nat) : NoPanic (FinFun.new t n) := by
  rcases IC.finfun_new_cases t n with h | h <;> rw [h]
  · exact noPanic_none
  · exact noPanic_ok _

theorem mapHalfSpiderL_noPanic (fw : List (List O2)) (ids : List Nat) :
    NoPanic (LFunctor.mapHalfSpiderL fw ids) := by
  unfold LFunctor.mapHalfSpiderL
  refine (finfun_new_noPanic _ _).bind (fun sizes hs => ?_)
  refine (finfun_new_noPanic _ _).bind (fun f hf => ?_)
  rcases IC.finfun_new_cases (fw.map List.length) (Prim.sum (fw.map List.length) + 1) with h | h
  · rw [h] at hs; cases hs
  rcases IC.finfun_new_cases ids fw.length with h' | h'
  · rw [h'] at hf; cases hf
  rw [h] at hs; rw [h'] at hf
  injection hs with hs; injection hf with hf
  subst hs; subst hf
  have hwf : (⟨ids, fw.length⟩ : FinFun).WF := ((C06.new_accepts_iff ids fw.length).1).1 h'
  rw [FinFun.injections_ok _ _ hwf (by simp [FinFun.source])]
  exact noPanic_ok _

theorem spiderMapArrowL_noPanic (f : LOHG O1 A1) (fw : List (List O2)) (fx : LOHG O2 A2) :
    NoPanic (LFunctor.spiderMapArrowL f fw fx) := by
  unfold LFunctor.spiderMapArrowL
  refine (mapHalfSpiderL_noPanic _ _).bind (fun fs _ => ?_)
  refine (mapHalfSpiderL_noPanic _ _).bind (fun ft _ => ?_)
  refine (mapHalfSpiderL_noPanic _ _).bind (fun es _ => ?_)
  refine (mapHalfSpiderL_noPanic _ _).bind (fun et _ => ?_)
  rw [FinFun.identity_eq]
  simp only [Res.ok_bind]
  have hco : ∀ a b : FinFun, NoPanic (FinFun.coproduct a b) := by
    intro a b; unfold FinFun.coproduct; split
    · exact noPanic_ok _
    · exact noPanic_none
  have hsp : ∀ (a b : FinFun) (w : List O2), NoPanic (LOHG.spider a b w : Res (LOHG O2 A2)) := by
    intro a b w; unfold LOHG.spider; split
    · exact noPanic_none
    · exact noPanic_ok _
  have hlc : ∀ a b : LOHG O2 A2, NoPanic (LOHG.laxCompose a b) := by
    intro a b; unfold LOHG.laxCompose; split
    · exact noPanic_none
    · exact noPanic_ok _
  refine (hco _ _).bind (fun sxT _ => ?_)
  refine (hsp _ _ _).bind (fun sx _ => ?_)
  refine (hco _ _).bind (fun ytS _ => ?_)
  refine (hsp _ _ _).bind (fun yt _ => ?_)
  exact (hlc _ _).bind (fun a _ => hlc _ _)

/-- once the tensor of operation images has been formed, neither `try_define_map_arrow` nor
    `map_arrow_witness` can panic: they return the image or `None` -/
theorem native_noPanic (F : LFunctor O1 A1 O2 A2) (d : LOHG O1 A1)
    (hops : NoPanic (LFunctor.mapOperationsL F d)) :
    NoPanic (LFunctor.tryMapArrow F d) ∧ NoPanic (LFunctor.mapArrowWitness F d) := by
  have h1 : NoPanic (LFunctor.tryMapArrow F d) := by
    unfold LFunctor.tryMapArrow
    split
    · exact noPanic_none
    · exact hops.bind (fun fx _ => spiderMapArrowL_noPanic _ _ _)
  refine ⟨h1, ?_⟩
  rw [mapArrowWitness_eq]
  exact h1.bind (fun r _ => noPanic_ok _)

theorem foldlM_noPanic {α β : Type} (l : List β) (step : α → β → Res α) (init : α)
    (h : ∀ acc, ∀ p ∈ l, NoPanic (step acc p)) : NoPanic (l.foldlM step init) := by
  induction l generalizing init with
  | nil => exact noPanic_ok _
  | cons p l ih =>
    rw [List.foldlM_cons]
    exact (h init p (by simp)).bind (fun a _ => ih a (fun acc q hq => h acc q (by simp [hq])))

theorem mapM_noPanic {γ δ : Type} (l : List γ) (f : γ → Res δ) (h : ∀ x ∈ l, NoPanic (f x)) :
    NoPanic (l.mapM f) := by
  induction l with
  | nil => exact noPanic_ok _
  | cons a l ih =>
    rw [List.mapM_cons]
    exact (h a (by simp)).bind (fun b _ =>
      (ih (fun x hx => h x (by simp [hx]))).bind (fun bs _ => noPanic_ok _))

theorem get_noPanic {α : Type} (xs : List α) (i : Nat) (h : i < xs.length) : NoPanic (Prim.get xs i) := by
  rw [Prim.get_ok xs i h]; exact noPanic_ok _

/-- on a well-formed input, collecting the operation types cannot panic: the only possible source
    of a panic in the whole native path is the user's `map_operation` -/
theorem mapOperationsL_noPanic (F : LFunctor O1 A1 O2 A2) (d : LOHG O1 A1) (hd : d.wf = true)
    (hF : ∀ a s t, NoPanic (F.mapOperation a s t)) : NoPanic (LFunctor.mapOperationsL F d) := by
  simp only [LOHG.wf, LHG.wf, Bool.and_eq_true, beq_iff_eq, List.all_eq_true, decide_eq_true_eq] at hd
  obtain ⟨⟨⟨⟨⟨⟨hlen, hadj⟩, _⟩, _⟩, _⟩, _⟩, _⟩ := hd
  unfold LFunctor.mapOperationsL
  apply foldlM_noPanic
  intro acc p hp
  have hp2 : p.2 < d.hypergraph.adjacency.length := by
    have := (List.of_mem_zip hp).2
    rw [List.mem_range] at this
    omega
  rw [Prim.get_ok _ _ hp2]
  simp only [Res.ok_bind]
  have he := hadj _ (List.getElem_mem hp2)
  refine (mapM_noPanic _ _ (fun i hi => get_noPanic _ _ (he.1 i hi))).bind (fun src _ => ?_)
  refine (mapM_noPanic _ _ (fun i hi => get_noPanic _ _ (he.2 i hi))).bind (fun tgt _ => ?_)
  exact (hF _ _ _).bind (fun img _ => noPanic_ok _)

theorem native_noPanic_of_wf (F : LFunctor O1 A1 O2 A2) (d : LOHG O1 A1) (hd : d.wf = true)
    (hF : ∀ a s t, NoPanic (F.mapOperation a s t)) :
    NoPanic (LFunctor.tryMapArrow F d) ∧ NoPanic (LFunctor.mapArrowWitness F d) :=
  native_noPanic F d (mapOperationsL_noPanic F d hd hF)

/-- an operation image of the wrong arity is answered with `None`, not with a panic (the trait
    documentation says "may panic") -/
example : LFunctor.tryMapArrow (⟨fun o => [o], fun a _ _ => .ok (LOHG.singleton a [] [])⟩ :
    LFunctor Nat Nat Nat Nat) (LOHG.singleton 9 [1] [2]) = .none := by decide

/-! ### a concrete run -/

/-- doubling functor on objects; every operation ↦ a single operation on the doubled types -/
def dbl : LFunctor Nat Nat Nat Nat where
  mapObject := fun o => [o, o]
  mapOperation := fun a s t => .ok (LOHG.singleton a (s.flatMap fun o => [o, o]) (t.flatMap fun o => [o, o]))

def ex1 : LOHG Nat Nat := LOHG.singleton 9 [1, 2] [3]

example : (match LFunctor.mapArrowWitness dbl ex1 with
    | .ok (r, w) => decide (w.sources.table = [2, 2, 2] ∧ w.values.table = [6, 7, 8, 9, 10, 11] ∧
        r.hypergraph.nodes.length = 24 ∧
        w.segs.map (fun seg => seg.map (fun j => r.hypergraph.nodes.getD j 0)) = [[1, 1], [2, 2], [3, 3]])
    | _ => false) = true := by
  decide

end OH.C13
